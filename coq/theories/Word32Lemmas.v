(** Proofs about Word32Defs.v: every code-shaped operation of the 32-bit model equals an independent
    specification (modular arithmetic on the unsigned reading, exact integer arithmetic on the signed
    reading where C++ defines it, bit-for-bit agreement for the bitwise operators, masked shifts,
    C's logical operators, byte-wise lexicographic string order, substr / contains / to_string, and the
    [range] generator of DatalogDefs.v), for ALL 32-bit arguments.
    Code modelled: src/interpreter/Engine.cpp (IntrinsicOperator: BINARY_OP_TYPED, BINARY_OP_SHIFT_MASK,
    MINMAX_OP, UNARY_OP, FunctorOp::EXP, COMPARE_NUMERIC), src/synthesiser/Synthesiser.cpp (same C++
    expressions as text), src/include/souffle/utility/EvaluatorUtil.h (lxor, runRange),
    src/include/souffle/RamTypes.h (RAM_BIT_SHIFT_MASK = 31). *)
From Coq Require Import ZArith Lia ZifyBool ZifyNat ZifyN List Bool.
From SV Require Import Bytes NumParseDefs NumParseLemmas Word32Defs DatalogDefs.
Import ListNotations.
Local Open Scope Z_scope.

(** * 1. The 32-bit domain: [in_s], [wrap], [u] *)

Lemma pow2_31 : 2 ^ 31 = 2147483648. Proof. reflexivity. Qed.
Lemma pow2_32 : 2 ^ 32 = 4294967296. Proof. reflexivity. Qed.

Ltac w32 := unfold in_s, chk, wrap, u, MIN_S, MAX_S in *; rewrite ?pow2_31, ?pow2_32 in *.

Lemma in_s_iff a : in_s a = true <-> - 2 ^ 31 <= a < 2 ^ 31.
Proof. w32. lia. Qed.

Lemma in_s_false_iff a : in_s a = false <-> (a < - 2 ^ 31 \/ 2 ^ 31 <= a).
Proof. w32. lia. Qed.

Lemma chk_some_iff z r : chk z = Some r <-> r = z /\ - 2 ^ 31 <= z < 2 ^ 31.
Proof.
  unfold chk. destruct (in_s z) eqn:E.
  - apply in_s_iff in E. split; [intros [= <-]; auto | intros [-> _]; reflexivity].
  - apply in_s_false_iff in E. split; [discriminate | lia].
Qed.

Lemma chk_none_iff z : chk z = None <-> (z < - 2 ^ 31 \/ 2 ^ 31 <= z).
Proof.
  unfold chk. destruct (in_s z) eqn:E.
  - apply in_s_iff in E. split; [discriminate | lia].
  - apply in_s_false_iff in E. tauto.
Qed.

(** [wrap z] is in range and congruent to [z] modulo 2^32 ... *)
Lemma wrap_spec z : in_s (wrap z) = true /\ (wrap z - z) mod 2 ^ 32 = 0.
Proof. w32. split; [lia|]. Z.div_mod_to_equations. lia. Qed.

Lemma wrap_in_s z : in_s (wrap z) = true.
Proof. apply wrap_spec. Qed.

(** ... and it is the only such value *)
Lemma wrap_unique z r : in_s r = true -> (r - z) mod 2 ^ 32 = 0 -> r = wrap z.
Proof. w32. intros. Z.div_mod_to_equations. lia. Qed.

Lemma wrap_id a : in_s a = true -> wrap a = a.
Proof. w32. intros. Z.div_mod_to_equations. lia. Qed.

Lemma wrap_fix_iff a : wrap a = a <-> in_s a = true.
Proof. split; [intros <-; apply wrap_in_s | apply wrap_id]. Qed.

(** [u a] is in [0, 2^32) and congruent to [a] *)
Lemma u_spec a : 0 <= u a < 2 ^ 32 /\ (u a - a) mod 2 ^ 32 = 0.
Proof. w32. split; [lia|]. Z.div_mod_to_equations. lia. Qed.

Lemma u_range a : 0 <= u a < 2 ^ 32.
Proof. apply u_spec. Qed.

Lemma u_unique a r : 0 <= r < 2 ^ 32 -> (r - a) mod 2 ^ 32 = 0 -> r = u a.
Proof. w32. intros. Z.div_mod_to_equations. lia. Qed.

Lemma wrap_u a : in_s a = true -> wrap (u a) = a.
Proof. w32. intros. Z.div_mod_to_equations. lia. Qed.

Lemma u_wrap z : u (wrap z) = z mod 2 ^ 32.
Proof. w32. Z.div_mod_to_equations. lia. Qed.

Lemma u_small z : 0 <= z < 2 ^ 32 -> u (wrap z) = z.
Proof. intros. rewrite u_wrap. apply Z.mod_small. assumption. Qed.

(** the unsigned reading of an in-range value: itself when non-negative, plus 2^32 otherwise *)
Lemma u_cases a : in_s a = true -> u a = if a <? 0 then a + 2 ^ 32 else a.
Proof. w32. intros. destruct (a <? 0) eqn:E; Z.div_mod_to_equations; lia. Qed.

Lemma u_inj a b : in_s a = true -> in_s b = true -> u a = u b -> a = b.
Proof. intros Ha Hb H. rewrite <- (wrap_u a Ha), <- (wrap_u b Hb), H. reflexivity. Qed.

Lemma wrap_wrap z : wrap (wrap z) = wrap z.
Proof. apply wrap_id, wrap_in_s. Qed.

Lemma wrap_congr x y : (x - y) mod 2 ^ 32 = 0 -> wrap x = wrap y.
Proof. w32. intros. Z.div_mod_to_equations. lia. Qed.

Example ex_wrap : wrap 4294967295 = -1 /\ u (-1) = 4294967295 /\ wrap (2 ^ 31) = MIN_S /\ in_s (-5) = true.
Proof. vm_compute. auto. Qed.

(** * 2. Unsigned arithmetic = arithmetic modulo 2^32 on the unsigned readings *)

Lemma uadd_spec a b : u (uadd a b) = (u a + u b) mod 2 ^ 32.
Proof. apply u_wrap. Qed.
Lemma usub_spec a b : u (usub a b) = (u a - u b) mod 2 ^ 32.
Proof. apply u_wrap. Qed.
Lemma umul_spec a b : u (umul a b) = (u a * u b) mod 2 ^ 32.
Proof. apply u_wrap. Qed.

Lemma uadd_in_s a b : in_s (uadd a b) = true. Proof. apply wrap_in_s. Qed.
Lemma usub_in_s a b : in_s (usub a b) = true. Proof. apply wrap_in_s. Qed.
Lemma umul_in_s a b : in_s (umul a b) = true. Proof. apply wrap_in_s. Qed.

(** the unsigned result is also the wrapped result of the operation on the signed readings: one adder *)
Lemma uadd_wrap a b : uadd a b = wrap (a + b).
Proof. unfold uadd. apply wrap_congr. w32. Z.div_mod_to_equations. lia. Qed.
Lemma usub_wrap a b : usub a b = wrap (a - b).
Proof. unfold usub. apply wrap_congr. w32. Z.div_mod_to_equations. lia. Qed.
Lemma umul_wrap a b : umul a b = wrap (a * b).
Proof.
  unfold umul. apply wrap_congr. unfold u.
  rewrite Zminus_mod, <- Zmult_mod, Z.sub_diag. reflexivity.
Qed.

Lemma udiv_spec a b r :
  udiv a b = Some r <-> (u b <> 0 /\ in_s r = true /\ u r = u a / u b).
Proof.
  unfold udiv. pose proof (u_range a) as Ha. pose proof (u_range b) as Hb.
  destruct (u b =? 0) eqn:E.
  - split; [discriminate | lia].
  - assert (Hq : 0 <= u a / u b < 2 ^ 32).
    { split; [apply Z.div_pos; lia|]. apply Z.div_lt_upper_bound; nia. }
    split.
    + intros [= <-]. split; [lia|]. split; [apply wrap_in_s | apply u_small, Hq].
    + intros (_ & Hr & Hu). f_equal. rewrite <- Hu. apply wrap_u, Hr.
Qed.

Lemma umod_spec a b r :
  umod a b = Some r <-> (u b <> 0 /\ in_s r = true /\ u r = u a mod u b).
Proof.
  unfold umod. pose proof (u_range a) as Ha. pose proof (u_range b) as Hb.
  destruct (u b =? 0) eqn:E.
  - split; [discriminate | lia].
  - assert (Hq : 0 <= u a mod u b < 2 ^ 32).
    { pose proof (Z.mod_pos_bound (u a) (u b)). lia. }
    split.
    + intros [= <-]. split; [lia|]. split; [apply wrap_in_s | apply u_small, Hq].
    + intros (_ & Hr & Hu). f_equal. rewrite <- Hu. apply wrap_u, Hr.
Qed.

Lemma udiv_defined_iff a b : udiv a b = None <-> u b = 0.
Proof. unfold udiv. destruct (u b =? 0) eqn:E; split; intros H; try discriminate H; try reflexivity; try (exfalso; lia); lia. Qed.
Lemma umod_defined_iff a b : umod a b = None <-> u b = 0.
Proof. unfold umod. destruct (u b =? 0) eqn:E; split; intros H; try discriminate H; try reflexivity; try (exfalso; lia); lia. Qed.

Lemma u_zero_iff b : in_s b = true -> (u b = 0 <-> b = 0).
Proof. intros H. rewrite (u_cases b H). w32. destruct (b <? 0) eqn:E; lia. Qed.

Example ex_uadd_wraps : uadd (-1) 1 = 0 /\ usub 0 1 = -1 /\ umul (-1) (-1) = 1
                        /\ udiv (-1) 2 = Some 2147483647 /\ umod (-1) 10 = Some 5 /\ udiv 7 0 = None.
Proof. vm_compute. auto 10. Qed.

(** * 3. Signed arithmetic: exact where C++ defines it, [None] exactly at overflow / zero divisor *)

Lemma sadd_spec a b r : sadd a b = Some r <-> (r = a + b /\ - 2 ^ 31 <= a + b < 2 ^ 31).
Proof. apply chk_some_iff. Qed.
Lemma ssub_spec a b r : ssub a b = Some r <-> (r = a - b /\ - 2 ^ 31 <= a - b < 2 ^ 31).
Proof. apply chk_some_iff. Qed.
Lemma smul_spec a b r : smul a b = Some r <-> (r = a * b /\ - 2 ^ 31 <= a * b < 2 ^ 31).
Proof. apply chk_some_iff. Qed.
Lemma sneg_spec a r : sneg a = Some r <-> (r = - a /\ - 2 ^ 31 <= - a < 2 ^ 31).
Proof. apply chk_some_iff. Qed.

(** negation is undefined only for INT_MIN *)
Lemma sneg_none_iff a : in_s a = true -> (sneg a = None <-> a = MIN_S).
Proof. intros H. unfold sneg. rewrite chk_none_iff. w32. lia. Qed.

Lemma quot_bound a b : 2 <= Z.abs b -> Z.abs (Z.quot a b) <= Z.abs a / 2.
Proof.
  intros H. rewrite <- Z.quot_abs by lia. rewrite Z.quot_div_nonneg by lia.
  apply Z.div_le_compat_l; lia.
Qed.

(** division truncates toward zero; undefined exactly for b = 0 and INT_MIN / -1 *)
Lemma sdiv_spec a b r :
  in_s a = true -> in_s b = true ->
  (sdiv a b = Some r <-> (b <> 0 /\ ~ (a = MIN_S /\ b = -1) /\ r = Z.quot a b)).
Proof.
  intros Ha Hb. unfold sdiv. destruct (b =? 0) eqn:E.
  - split; [discriminate | lia].
  - rewrite chk_some_iff.
    assert (Hq : b <> -1 -> - 2 ^ 31 <= Z.quot a b < 2 ^ 31).
    { intros Hb1. apply in_s_iff in Ha. rewrite pow2_31 in *.
      destruct (Z.eq_dec b 1) as [->|Hb2]; [rewrite Z.quot_1_r; lia|].
      pose proof (quot_bound a b ltac:(lia)) as Hq.
      assert (Z.abs a / 2 <= 1073741824) by (apply Z.div_le_upper_bound; lia).
      lia. }
    split.
    + intros [-> Hr]. split; [lia|]. split; [|reflexivity].
      intros [-> ->]. change (Z.quot MIN_S (-1)) with 2147483648 in Hr. rewrite pow2_31 in Hr. lia.
    + intros (_ & Hn & ->). split; [reflexivity|].
      destruct (Z.eq_dec b (-1)) as [->|Hb1]; [|auto].
      change (-1) with (- (1)). rewrite Z.quot_opp_r, Z.quot_1_r by lia.
      apply in_s_iff in Ha. w32. lia.
Qed.

(** remainder has the sign of the dividend ([Z.rem]); a = (a quot b) * b + (a rem b) *)
Lemma smod_spec a b r :
  smod a b = Some r <-> (b <> 0 /\ ~ (a = MIN_S /\ b = -1) /\ r = Z.rem a b).
Proof.
  unfold smod. destruct (b =? 0) eqn:E; [split; [discriminate | lia]|].
  destruct ((a =? MIN_S) && (b =? -1)) eqn:E2.
  - split; [discriminate | lia].
  - split; [intros [= <-] | intros (_ & _ & ->); reflexivity].
    split; [lia|]. split; [lia | reflexivity].
Qed.

Lemma smod_in_s a b r : in_s a = true -> in_s b = true -> smod a b = Some r -> in_s r = true.
Proof.
  intros Ha Hb H. apply smod_spec in H as (Hb0 & _ & ->).
  apply in_s_iff. apply in_s_iff in Ha. apply in_s_iff in Hb. rewrite pow2_31 in *.
  pose proof (Z.rem_bound_abs a b Hb0). lia.
Qed.

Lemma sdiv_smod_identity a b q r :
  sdiv a b = Some q -> smod a b = Some r -> a = q * b + r /\ Z.abs r < Z.abs b /\ 0 <= r * a.
Proof.
  unfold sdiv, smod. destruct (b =? 0) eqn:E; [discriminate|].
  destruct ((a =? MIN_S) && (b =? -1)); [discriminate|].
  intros Hq [= <-]. apply chk_some_iff in Hq as [-> _].
  pose proof (Z.quot_rem a b ltac:(lia)). split; [lia|].
  split; [apply Z.rem_bound_abs; lia|]. apply Z.rem_sign_mul. lia.
Qed.

Lemma sadd_in_s a b r : sadd a b = Some r -> in_s r = true.
Proof. intros H. apply sadd_spec in H as [-> H]. apply in_s_iff, H. Qed.
Lemma ssub_in_s a b r : ssub a b = Some r -> in_s r = true.
Proof. intros H. apply ssub_spec in H as [-> H]. apply in_s_iff, H. Qed.
Lemma smul_in_s a b r : smul a b = Some r -> in_s r = true.
Proof. intros H. apply smul_spec in H as [-> H]. apply in_s_iff, H. Qed.
Lemma sneg_in_s a r : sneg a = Some r -> in_s r = true.
Proof. intros H. apply sneg_spec in H as [-> H]. apply in_s_iff, H. Qed.
Lemma sdiv_in_s a b r : sdiv a b = Some r -> in_s r = true.
Proof.
  unfold sdiv. destruct (b =? 0); [discriminate|]. intros H.
  apply chk_some_iff in H as [-> H]. apply in_s_iff, H.
Qed.

(** signed and unsigned +, -, * produce the same bit pattern whenever the signed one is defined *)
Lemma sadd_uadd a b r : sadd a b = Some r -> uadd a b = r.
Proof. intros H. rewrite uadd_wrap. apply sadd_spec in H as [-> H]. apply wrap_id, in_s_iff, H. Qed.
Lemma ssub_usub a b r : ssub a b = Some r -> usub a b = r.
Proof. intros H. rewrite usub_wrap. apply ssub_spec in H as [-> H]. apply wrap_id, in_s_iff, H. Qed.
Lemma smul_umul a b r : smul a b = Some r -> umul a b = r.
Proof. intros H. rewrite umul_wrap. apply smul_spec in H as [-> H]. apply wrap_id, in_s_iff, H. Qed.
(** ... but division differs *)
Lemma sdiv_udiv_differ_refuted :
  exists a b r, in_s a = true /\ in_s b = true /\ sdiv a b = Some r /\ udiv a b <> Some r.
Proof. exists (-2), 2, (-1). vm_compute. repeat split; discriminate. Qed.

Example ex_signed : sadd 2147483647 1 = None /\ sadd 2147483647 (-1) = Some 2147483646
  /\ sdiv (-7) 2 = Some (-3) /\ smod (-7) 2 = Some (-1) /\ smod 7 (-2) = Some 1
  /\ sdiv MIN_S (-1) = None /\ smod MIN_S (-1) = None /\ sdiv 1 0 = None /\ sneg MIN_S = None.
Proof. vm_compute. auto 12. Qed.

(** * 4. Bitwise operators: bit-for-bit on the 32 bits of the pattern *)

(** an in-range integer is sign-extended from bit 31: all bits from 31 up are equal ... *)
Lemma testbit_high a i : in_s a = true -> 31 <= i -> Z.testbit a i = (a <? 0).
Proof.
  intros Ha Hi. apply in_s_iff in Ha.
  rewrite Z.testbit_odd, Z.shiftr_div_pow2 by lia.
  assert (Hp : 2 ^ 31 <= 2 ^ i) by (apply Z.pow_le_mono_r; lia).
  destruct (a <? 0) eqn:E.
  - replace (a / 2 ^ i) with (-1); [reflexivity|].
    apply Z.div_unique with (r := a + 2 ^ i); lia.
  - rewrite Z.div_small by lia. reflexivity.
Qed.

Lemma in_s_bits a i : in_s a = true -> 31 <= i -> Z.testbit a i = Z.testbit a 31.
Proof. intros Ha Hi. rewrite (testbit_high a i), (testbit_high a 31) by (auto; lia). reflexivity. Qed.

(** ... and conversely *)
Lemma bits_in_s_nonneg a :
  0 <= a -> (forall i, 31 <= i -> Z.testbit a i = Z.testbit a 31) -> a < 2 ^ 31.
Proof.
  intros H0 H. destruct (Z_lt_le_dec a (2 ^ 31)) as [|Hge]; [assumption|exfalso].
  assert (Hpos : 0 < a) by (rewrite pow2_31 in Hge; lia).
  assert (Hl : 31 <= Z.log2 a) by (apply Z.log2_le_pow2; assumption).
  pose proof (Z.bit_log2 a Hpos) as H1.
  pose proof (Z.bits_above_log2 a (Z.log2 a + 1) H0 ltac:(lia)) as H2.
  rewrite H in H1 by lia. rewrite H in H2 by lia. congruence.
Qed.

Lemma bits_in_s a : (forall i, 31 <= i -> Z.testbit a i = Z.testbit a 31) -> in_s a = true.
Proof.
  intros H. apply in_s_iff. destruct (Z_lt_le_dec a 0) as [Hneg|Hpos].
  - assert (Z.lnot a < 2 ^ 31).
    { apply bits_in_s_nonneg; [unfold Z.lnot; lia|].
      intros i Hi. rewrite !Z.lnot_spec by lia. f_equal. apply H, Hi. }
    unfold Z.lnot in *. rewrite pow2_31 in *. lia.
  - pose proof (bits_in_s_nonneg a Hpos H). rewrite pow2_31 in *. lia.
Qed.

Lemma band_in_s a b : in_s a = true -> in_s b = true -> in_s (band a b) = true.
Proof.
  intros Ha Hb. apply bits_in_s. intros i Hi. unfold band.
  rewrite !Z.land_spec, (in_s_bits a i), (in_s_bits b i) by auto. reflexivity.
Qed.
Lemma bor_in_s a b : in_s a = true -> in_s b = true -> in_s (bor a b) = true.
Proof.
  intros Ha Hb. apply bits_in_s. intros i Hi. unfold bor.
  rewrite !Z.lor_spec, (in_s_bits a i), (in_s_bits b i) by auto. reflexivity.
Qed.
Lemma bxor_in_s a b : in_s a = true -> in_s b = true -> in_s (bxor a b) = true.
Proof.
  intros Ha Hb. apply bits_in_s. intros i Hi. unfold bxor.
  rewrite !Z.lxor_spec, (in_s_bits a i), (in_s_bits b i) by auto. reflexivity.
Qed.
Lemma bnot_eq a : bnot a = - a - 1.
Proof. unfold bnot, Z.lnot. lia. Qed.
Lemma bnot_in_s a : in_s a = true -> in_s (bnot a) = true.
Proof. rewrite bnot_eq. w32. lia. Qed.

(** bit [i] (0 <= i < 32) of the unsigned reading is bit [i] of the representative *)
Lemma u_testbit a i : Z.testbit (u a) i = (i <? 32) && Z.testbit a i.
Proof.
  unfold u. destruct (Z_lt_le_dec i 0) as [Hn|Hi].
  - rewrite !Z.testbit_neg_r by assumption. destruct (i <? 32); reflexivity.
  - destruct (i <? 32) eqn:E.
    + rewrite Z.mod_pow2_bits_low by lia. reflexivity.
    + rewrite Z.mod_pow2_bits_high by lia. reflexivity.
Qed.

(** the model's operator on representatives = the operator on the 32-bit unsigned words *)
Lemma band_spec a b : u (band a b) = Z.land (u a) (u b).
Proof.
  apply Z.bits_inj'. intros i _. unfold band.
  rewrite Z.land_spec, !u_testbit, Z.land_spec. destruct (i <? 32); reflexivity.
Qed.
Lemma bor_spec a b : u (bor a b) = Z.lor (u a) (u b).
Proof.
  apply Z.bits_inj'. intros i _. unfold bor.
  rewrite Z.lor_spec, !u_testbit, Z.lor_spec. destruct (i <? 32); reflexivity.
Qed.
Lemma bxor_spec a b : u (bxor a b) = Z.lxor (u a) (u b).
Proof.
  apply Z.bits_inj'. intros i _. unfold bxor.
  rewrite Z.lxor_spec, !u_testbit, Z.lxor_spec. destruct (i <? 32); reflexivity.
Qed.
(** ~ flips all 32 bits: 2^32 - 1 - x on the unsigned reading *)
Lemma bnot_spec a : u (bnot a) = 2 ^ 32 - 1 - u a.
Proof. rewrite bnot_eq. w32. Z.div_mod_to_equations. lia. Qed.

(** bit-for-bit statements, bits 0..31 *)
Lemma band_bits a b i : 0 <= i < 32 ->
  Z.testbit (u (band a b)) i = Z.testbit (u a) i && Z.testbit (u b) i.
Proof. intros _. rewrite band_spec. apply Z.land_spec. Qed.
Lemma bor_bits a b i : 0 <= i < 32 ->
  Z.testbit (u (bor a b)) i = Z.testbit (u a) i || Z.testbit (u b) i.
Proof. intros _. rewrite bor_spec. apply Z.lor_spec. Qed.
Lemma bxor_bits a b i : 0 <= i < 32 ->
  Z.testbit (u (bxor a b)) i = xorb (Z.testbit (u a) i) (Z.testbit (u b) i).
Proof. intros _. rewrite bxor_spec. apply Z.lxor_spec. Qed.
Lemma bnot_bits a i : 0 <= i < 32 -> Z.testbit (u (bnot a)) i = negb (Z.testbit (u a) i).
Proof.
  intros Hi. rewrite !u_testbit. unfold bnot. rewrite Z.lnot_spec by lia.
  destruct (i <? 32) eqn:E; [reflexivity | lia].
Qed.

Example ex_bitwise : band (-1) 255 = 255 /\ bor MIN_S 1 = -2147483647 /\ bxor (-1) 1 = -2 /\ bnot 0 = -1
  /\ u (bnot 0) = 4294967295.
Proof. vm_compute. auto 8. Qed.

(** * 5. Shifts: the count is masked with 31 *)

Lemma shcount_spec b : shcount b = u b mod 32.
Proof. unfold shcount. change 31 with (Z.ones 5). rewrite Z.land_ones by lia. reflexivity. Qed.

Lemma shcount_range b : 0 <= shcount b < 32.
Proof. rewrite shcount_spec. apply Z.mod_pos_bound. lia. Qed.

(** for an in-range count the mask also equals the count modulo 32 of the *signed* reading (b & 31 on int) *)
Lemma shcount_signed b : shcount b = b mod 32.
Proof.
  rewrite shcount_spec. unfold u. rewrite pow2_32.
  change 4294967296 with (32 * 134217728). rewrite Z.rem_mul_r by lia.
  rewrite Z.mul_comm, Z.mod_add by lia. apply Z.mod_mod. lia.
Qed.

Lemma shl_spec a b : u (shl a b) = (u a * 2 ^ shcount b) mod 2 ^ 32.
Proof. apply u_wrap. Qed.
Lemma shl_in_s a b : in_s (shl a b) = true.
Proof. apply wrap_in_s. Qed.

(** >> on number: arithmetic shift = floor division by 2^count (sign-extending) *)
Lemma shr_s_spec a b : shr_s a b = a / 2 ^ shcount b.
Proof. unfold shr_s. apply Z.shiftr_div_pow2. apply shcount_range. Qed.

Lemma div_pos_in_s a d : in_s a = true -> 0 < d -> in_s (a / d) = true.
Proof.
  intros Ha Hd. apply in_s_iff in Ha. apply in_s_iff. rewrite pow2_31 in *.
  split.
  - apply Z.div_le_lower_bound; nia.
  - apply Z.div_lt_upper_bound; nia.
Qed.

Lemma shr_s_in_s a b : in_s a = true -> in_s (shr_s a b) = true.
Proof.
  intros Ha. rewrite shr_s_spec. apply div_pos_in_s; [assumption|].
  apply Z.pow_pos_nonneg; [lia | apply shcount_range].
Qed.

(** >> on unsigned and >>>: logical shift = floor division of the unsigned reading *)
Lemma shr_u_spec a b : u (shr_u a b) = u a / 2 ^ shcount b.
Proof.
  unfold shr_u. rewrite Z.shiftr_div_pow2 by apply shcount_range.
  apply u_small. pose proof (u_range a) as Ha. pose proof (shcount_range b) as Hb.
  assert (0 < 2 ^ shcount b) by (apply Z.pow_pos_nonneg; lia).
  split; [apply Z.div_pos; lia|]. apply Z.div_lt_upper_bound; nia.
Qed.
Lemma shr_u_in_s a b : in_s (shr_u a b) = true.
Proof. apply wrap_in_s. Qed.

(** a count >= 32 behaves as the count modulo 32 (not as "shift everything out") *)
Lemma shift_count_mod a b b' : u b mod 32 = u b' mod 32 ->
  shl a b = shl a b' /\ shr_s a b = shr_s a b' /\ shr_u a b = shr_u a b'.
Proof.
  intros H. unfold shl, shr_s, shr_u. rewrite !shcount_spec, H. auto.
Qed.
Example ex_shift_33 : shl 1 33 = 2 /\ shl 1 32 = 1 /\ shr_s (-8) 33 = -4 /\ shr_u (-8) 33 = 2147483644
  /\ shr_s (-8) 1 = -4 /\ shl 1 31 = MIN_S /\ shl 3 31 = MIN_S /\ shr_s (-1) 31 = -1 /\ shr_u (-1) 31 = 1
  /\ shl 1 (-31) = 2.
Proof. vm_compute. auto 12. Qed.
Example ex_shift_count_mod : u 33 mod 32 = u 1 mod 32.
Proof. reflexivity. Qed.

(** * 6. Logical operators: C's &&, ||, !, and EvaluatorUtil.h lxor *)

Definition truthy (x : Z) : bool := negb (x =? 0).

Lemma b2z_01 b : b2z b = 0 \/ b2z b = 1.
Proof. destruct b; auto. Qed.
Lemma b2z_in_s b : in_s (b2z b) = true.
Proof. destruct b; reflexivity. Qed.
Lemma b2z_truthy b : truthy (b2z b) = b.
Proof. destruct b; reflexivity. Qed.

Lemma land_spec a b : land a b = 1 <-> (a <> 0 /\ b <> 0).
Proof. unfold land. destruct (a =? 0) eqn:Ea, (b =? 0) eqn:Eb; simpl; lia. Qed.
Lemma lor_spec a b : lor a b = 1 <-> (a <> 0 \/ b <> 0).
Proof. unfold lor. destruct (a =? 0) eqn:Ea, (b =? 0) eqn:Eb; simpl; lia. Qed.
Lemma lnot_spec a : lnot a = 1 <-> a = 0.
Proof. unfold lnot. destruct (a =? 0) eqn:Ea; simpl; lia. Qed.
(** lxor(x, y) = (x || y) && (!x != !y)  -- EvaluatorUtil.h *)
Lemma lxor_spec a b :
  lxor a b = b2z ((truthy a || truthy b) && negb (Bool.eqb (negb (truthy a)) (negb (truthy b)))).
Proof. unfold lxor, truthy. destruct (a =? 0), (b =? 0); reflexivity. Qed.
Lemma lxor_one_iff a b : lxor a b = 1 <-> ((a <> 0 /\ b = 0) \/ (a = 0 /\ b <> 0)).
Proof. unfold lxor. destruct (a =? 0) eqn:Ea, (b =? 0) eqn:Eb; simpl; lia. Qed.

Lemma logical_01 a b :
  (land a b = 0 \/ land a b = 1) /\ (lor a b = 0 \/ lor a b = 1) /\
  (lxor a b = 0 \/ lxor a b = 1) /\ (lnot a = 0 \/ lnot a = 1).
Proof. unfold land, lor, lxor, lnot. repeat split; apply b2z_01. Qed.

Lemma land_in_s a b : in_s (land a b) = true. Proof. apply b2z_in_s. Qed.
Lemma lor_in_s a b : in_s (lor a b) = true. Proof. apply b2z_in_s. Qed.
Lemma lxor_in_s a b : in_s (lxor a b) = true. Proof. apply b2z_in_s. Qed.
Lemma lnot_in_s a : in_s (lnot a) = true. Proof. apply b2z_in_s. Qed.

(** the result depends only on the bit pattern being zero or not: same for both readings *)
Lemma truthy_u a : in_s a = true -> truthy a = negb (u a =? 0).
Proof. intros H. unfold truthy. pose proof (u_zero_iff a H). destruct (a =? 0) eqn:E, (u a =? 0) eqn:E'; try reflexivity; lia. Qed.

Example ex_logical : land 2 (-3) = 1 /\ land 2 0 = 0 /\ lor 0 0 = 0 /\ lor 0 7 = 1 /\ lxor 5 9 = 0
  /\ lxor 0 9 = 1 /\ lnot 0 = 1 /\ lnot (-1) = 0.
Proof. vm_compute. auto 12. Qed.

(** * 7. min / max *)

Lemma smax_spec a b : smax a b = Z.max a b. Proof. reflexivity. Qed.
Lemma smin_spec a b : smin a b = Z.min a b. Proof. reflexivity. Qed.
Lemma smax_in_s a b : in_s a = true -> in_s b = true -> in_s (smax a b) = true.
Proof. unfold smax. w32. lia. Qed.
Lemma smin_in_s a b : in_s a = true -> in_s b = true -> in_s (smin a b) = true.
Proof. unfold smin. w32. lia. Qed.
(** std::max(a,b) = (a < b) ? b : a agrees with the mathematical maximum (integers: ties are equal) *)
Lemma smax_std a b : smax a b = if a <? b then b else a.
Proof. unfold smax. destruct (a <? b) eqn:E; lia. Qed.
Lemma smin_std a b : smin a b = if b <? a then b else a.
Proof. unfold smin. destruct (b <? a) eqn:E; lia. Qed.

Lemma umax_spec a b : u (umax a b) = Z.max (u a) (u b).
Proof. unfold umax. destruct (u a <? u b) eqn:E; lia. Qed.
Lemma umin_spec a b : u (umin a b) = Z.min (u a) (u b).
Proof. unfold umin. destruct (u b <? u a) eqn:E; lia. Qed.
Lemma umax_choice a b : umax a b = a \/ umax a b = b.
Proof. unfold umax. destruct (u a <? u b); auto. Qed.
Lemma umin_choice a b : umin a b = a \/ umin a b = b.
Proof. unfold umin. destruct (u b <? u a); auto. Qed.
Lemma umax_in_s a b : in_s a = true -> in_s b = true -> in_s (umax a b) = true.
Proof. intros. destruct (umax_choice a b) as [-> | ->]; assumption. Qed.
Lemma umin_in_s a b : in_s a = true -> in_s b = true -> in_s (umin a b) = true.
Proof. intros. destruct (umin_choice a b) as [-> | ->]; assumption. Qed.

Example ex_minmax : smax (-1) 1 = 1 /\ umax (-1) 1 = -1 /\ smin (-1) 1 = -1 /\ umin (-1) 1 = 1.
Proof. vm_compute. auto. Qed.

(** * 8. Comparisons *)

Lemma slt_spec a b : slt a b = (a <? b). Proof. reflexivity. Qed.
Lemma sle_spec a b : sle a b = (a <=? b). Proof. reflexivity. Qed.
Lemma ult_spec a b : ult a b = (u a <? u b). Proof. reflexivity. Qed.
Lemma ule_spec a b : ule a b = (u a <=? u b). Proof. reflexivity. Qed.
Lemma sle_slt a b : sle a b = negb (slt b a).
Proof. unfold sle, slt. lia. Qed.
Lemma ule_ult a b : ule a b = negb (ult b a).
Proof. unfold ule, ult. lia. Qed.

(** unsigned order vs signed order on the same patterns: they differ exactly when the sign bits differ *)
Lemma ult_slt a b : in_s a = true -> in_s b = true ->
  ult a b = xorb (slt a b) (xorb (a <? 0) (b <? 0)).
Proof.
  intros Ha Hb. unfold ult, slt. rewrite (u_cases a Ha), (u_cases b Hb).
  apply in_s_iff in Ha. apply in_s_iff in Hb. rewrite pow2_31, pow2_32 in *.
  destruct (a <? 0) eqn:Ea, (b <? 0) eqn:Eb; simpl; lia.
Qed.
Lemma ult_slt_same_sign a b : in_s a = true -> in_s b = true ->
  (a <? 0) = (b <? 0) -> ult a b = slt a b.
Proof. intros Ha Hb H. rewrite ult_slt, H, xorb_nilpotent, xorb_false_r by assumption. reflexivity. Qed.
Lemma ult_slt_diff_sign a b : in_s a = true -> in_s b = true ->
  (a <? 0) <> (b <? 0) -> ult a b = negb (slt a b).
Proof.
  intros Ha Hb H. rewrite ult_slt by assumption.
  destruct (a <? 0), (b <? 0), (slt a b); try reflexivity; congruence.
Qed.

(** ult is a strict total order on bit patterns *)
Lemma ult_irrefl a : ult a a = false.
Proof. unfold ult. lia. Qed.
Lemma ult_trans a b c : ult a b = true -> ult b c = true -> ult a c = true.
Proof. unfold ult. lia. Qed.
Lemma ult_total a b : in_s a = true -> in_s b = true -> ult a b = false -> ult b a = false -> a = b.
Proof. intros Ha Hb H1 H2. apply u_inj; auto. unfold ult in *. lia. Qed.
Lemma slt_irrefl a : slt a a = false.
Proof. unfold slt. lia. Qed.
Lemma slt_trans a b c : slt a b = true -> slt b c = true -> slt a c = true.
Proof. unfold slt. lia. Qed.
Lemma slt_total a b : slt a b = false -> slt b a = false -> a = b.
Proof. unfold slt. lia. Qed.

Example ex_compare : slt (-1) 1 = true /\ ult (-1) 1 = false /\ ult 1 (-1) = true /\ ule 0 0 = true.
Proof. vm_compute. auto. Qed.

(** * 9. Exponentiation: static_cast<int>(std::pow(double, double)) *)

Lemma sexp_spec a b r : 0 <= b -> (sexp a b = Some r <-> (r = a ^ b /\ - 2 ^ 31 <= a ^ b < 2 ^ 31)).
Proof. intros Hb. unfold sexp. replace (0 <=? b) with true by lia. apply chk_some_iff. Qed.

Lemma sexp_in_s a b r : sexp a b = Some r -> in_s r = true.
Proof.
  unfold sexp. destruct (0 <=? b).
  - intros H. apply chk_some_iff in H as [-> H]. apply in_s_iff, H.
  - destruct (a =? 1); [intros [= <-]; reflexivity|].
    destruct (a =? -1); [intros [= <-]; destruct (Z.even b); reflexivity|].
    destruct (a =? 0); [discriminate | intros [= <-]; reflexivity].
Qed.

Lemma pow_m1 n : 0 <= n -> (-1) ^ n = if Z.even n then 1 else -1.
Proof.
  intros Hn. destruct (Z.even n) eqn:E.
  - apply Z.even_spec in E as [k ->]. rewrite Z.pow_mul_r by lia. change ((-1) ^ 2) with 1.
    apply Z.pow_1_l. lia.
  - rewrite <- Z.negb_odd in E. apply negb_false_iff, Z.odd_spec in E as [k ->].
    rewrite Z.pow_add_r, Z.pow_mul_r by lia. change ((-1) ^ 2) with 1.
    rewrite Z.pow_1_l by lia. reflexivity.
Qed.

(** negative exponent: pow gives the rational 1 / a^(-b), the cast truncates it toward zero;
    pow(0, negative) is +inf, whose conversion is undefined *)
Lemma sexp_neg_spec a b : b < 0 -> sexp a b = if a =? 0 then None else Some (Z.quot 1 (a ^ (- b))).
Proof.
  intros Hb. unfold sexp. replace (0 <=? b) with false by lia.
  destruct (a =? 1) eqn:E1.
  { assert (a = 1) as -> by lia. rewrite Z.pow_1_l by lia. reflexivity. }
  destruct (a =? -1) eqn:E2.
  { assert (a = -1) as -> by lia. simpl (-1 =? 0). cbv iota. rewrite pow_m1 by lia.
    rewrite Z.even_opp. destruct (Z.even b); reflexivity. }
  destruct (a =? 0) eqn:E0; [reflexivity|].
  f_equal. symmetry.
  assert (Habs : 2 <= Z.abs (a ^ (- b))).
  { rewrite Z.abs_pow. replace (- b) with (Z.succ (- b - 1)) by lia.
    rewrite Z.pow_succ_r by lia.
    assert (0 < Z.abs a ^ (- b - 1)) by (apply Z.pow_pos_nonneg; lia). nia. }
  destruct (Z_lt_le_dec (a ^ (- b)) 0).
  - rewrite <- (Z.opp_involutive (a ^ (- b))), Z.quot_opp_r by lia.
    rewrite Z.quot_small by lia. reflexivity.
  - apply Z.quot_small. lia.
Qed.

(** a large exponent of a base of magnitude >= 2 always overflows (used by the driver to avoid
    computing astronomically large powers) *)
Lemma pow_big a b : 2 <= Z.abs a -> 32 <= b -> 2 ^ 32 <= Z.abs (a ^ b).
Proof.
  intros Ha Hb. rewrite Z.abs_pow.
  transitivity (2 ^ b); [apply Z.pow_le_mono_r; lia | apply Z.pow_le_mono_l; lia].
Qed.
Lemma sexp_big_undef a b : 2 <= Z.abs a -> 32 <= b -> sexp a b = None.
Proof.
  intros Ha Hb. unfold sexp. replace (0 <=? b) with true by lia. apply chk_none_iff.
  pose proof (pow_big a b Ha Hb). rewrite pow2_31, pow2_32 in *. lia.
Qed.

(** bases 0, 1, -1 never overflow (with [sexp_big_undef] this lets the driver answer huge exponents
    without computing the power) *)
Lemma sexp_base_0 b : 0 <= b -> sexp 0 b = Some (if b =? 0 then 1 else 0).
Proof.
  intros Hb. unfold sexp. replace (0 <=? b) with true by lia.
  destruct (b =? 0) eqn:E; [replace b with 0 by lia; reflexivity|].
  rewrite Z.pow_0_l by lia. reflexivity.
Qed.
Lemma sexp_base_1 b : 0 <= b -> sexp 1 b = Some 1.
Proof. intros Hb. unfold sexp. replace (0 <=? b) with true by lia. rewrite Z.pow_1_l by lia. reflexivity. Qed.
Lemma sexp_base_m1 b : 0 <= b -> sexp (-1) b = Some (if Z.even b then 1 else -1).
Proof.
  intros Hb. unfold sexp. replace (0 <=? b) with true by lia. rewrite pow_m1 by lia.
  destruct (Z.even b); reflexivity.
Qed.
Lemma uexp_base_0 a b : u a = 0 -> uexp a b = Some (if u b =? 0 then 1 else 0).
Proof.
  intros Ha. unfold uexp. cbv zeta. rewrite Ha. pose proof (u_range b).
  destruct (u b =? 0) eqn:E; [replace (u b) with 0 by lia; reflexivity|].
  rewrite Z.pow_0_l by lia. reflexivity.
Qed.
Lemma uexp_base_1 a b : u a = 1 -> uexp a b = Some 1.
Proof.
  intros Ha. unfold uexp. cbv zeta. rewrite Ha. pose proof (u_range b).
  rewrite Z.pow_1_l by lia. reflexivity.
Qed.

Lemma uexp_spec a b r : uexp a b = Some r <-> (u a ^ u b < 2 ^ 32 /\ in_s r = true /\ u r = u a ^ u b).
Proof.
  unfold uexp. cbv zeta. pose proof (u_range a) as Ha. pose proof (u_range b) as Hb.
  assert (0 <= u a ^ u b) by (apply Z.pow_nonneg; lia).
  destruct (u a ^ u b <? 2 ^ 32) eqn:E.
  - split.
    + intros [= <-]. split; [lia|]. split; [apply wrap_in_s | apply u_small; lia].
    + intros (_ & Hr & Hu). f_equal. rewrite <- Hu. apply wrap_u, Hr.
  - split; [discriminate | lia].
Qed.
Lemma uexp_in_s a b r : uexp a b = Some r -> in_s r = true.
Proof. intros H. apply uexp_spec in H. tauto. Qed.
Lemma uexp_big_undef a b : 2 <= u a -> 32 <= u b -> uexp a b = None.
Proof.
  intros Ha Hb. unfold uexp. cbv zeta.
  pose proof (pow_big (u a) (u b) ltac:(lia) Hb) as H.
  rewrite Z.abs_eq in H by (apply Z.pow_nonneg; lia).
  replace (u a ^ u b <? 2 ^ 32) with false by lia. reflexivity.
Qed.

Example ex_exp : sexp 2 10 = Some 1024 /\ sexp (-2) 31 = Some MIN_S /\ sexp 2 31 = None /\ sexp 2 (-1) = Some 0
  /\ sexp (-1) (-3) = Some (-1) /\ sexp 0 (-1) = None /\ sexp 0 0 = Some 1
  /\ uexp 2 31 = Some MIN_S /\ uexp 2 32 = None /\ uexp (-1) 1 = Some (-1).
Proof. vm_compute. auto 12. Qed.

(** * 10. Strings: byte-wise comparison, substr, contains *)

Arguments N.ltb : simpl never.
Arguments N.eqb : simpl never.

(** lexicographic order on bytes as documented for std::string::compare: the first position where the
    strings differ decides (by unsigned byte value); if there is none the shorter string is smaller *)
Definition lex_lt (a b : bytes) : Prop :=
  exists p, (exists y rb, a = p /\ b = p ++ y :: rb) \/
            (exists x y ra rb, a = p ++ x :: ra /\ b = p ++ y :: rb /\ (x < y)%N).

Lemma bytes_ltb_lex a b : bytes_ltb a b = true <-> lex_lt a b.
Proof.
  revert b. induction a as [|x a IH]; intros [|y b]; simpl.
  - split; [discriminate|]. intros [p [(y & rb & _ & H) | (x & y & ra & rb & H & _)]];
      destruct p; simpl in H; discriminate H.
  - split; [|reflexivity]. intros _. exists []. left. exists y, b. auto.
  - split; [discriminate|]. intros [p [(y' & rb & _ & H) | (x' & y' & ra & rb & _ & H & _)]];
      destruct p; simpl in H; discriminate H.
  - destruct (x <? y)%N eqn:E1.
    { split; [|reflexivity]. intros _. exists []. right. exists x, y, a, b. repeat split. lia. }
    destruct (y <? x)%N eqn:E2.
    { split; [discriminate|]. intros [p [(y' & rb & Ha & Hb) | (x' & y' & ra & rb & Ha & Hb & Hlt)]].
      - destruct p as [|c p]; [discriminate|]. simpl in *. injection Ha as -> _. injection Hb as -> _. lia.
      - destruct p as [|c p]; simpl in *.
        + injection Ha as -> _. injection Hb as -> _. lia.
        + injection Ha as -> _. injection Hb as -> _. lia. }
    assert (x = y) by lia. subst y. rewrite IH. split.
    + intros [p [(y' & rb & -> & ->) | (x' & y' & ra & rb & -> & -> & Hlt)]].
      * exists (x :: p). left. exists y', rb. auto.
      * exists (x :: p). right. exists x', y', ra, rb. auto.
    + intros [p [(y' & rb & Ha & Hb) | (x' & y' & ra & rb & Ha & Hb & Hlt)]].
      * destruct p as [|c p]; [discriminate|]. simpl in *. injection Ha as -> ->. injection Hb as ->.
        exists p. left. exists y', rb. auto.
      * destruct p as [|c p]; simpl in *.
        { injection Ha as -> _. injection Hb as -> _. lia. }
        injection Ha as -> ->. injection Hb as ->. exists p. right. exists x', y', ra, rb. auto.
Qed.

Lemma bytes_ltb_irrefl a : bytes_ltb a a = false.
Proof. induction a as [|x a IH]; simpl; [reflexivity|]. replace (x <? x)%N with false by lia. exact IH. Qed.

Lemma bytes_ltb_trans a b c : bytes_ltb a b = true -> bytes_ltb b c = true -> bytes_ltb a c = true.
Proof.
  revert b c. induction a as [|x a IH]; intros [|y b] [|z c]; simpl; try discriminate; try reflexivity.
  destruct (x <? y)%N eqn:E1, (y <? z)%N eqn:E2.
  - intros _ _. replace (x <? z)%N with true by lia. reflexivity.
  - destruct (z <? y)%N eqn:E3; [discriminate|]. intros _ _. replace (x <? z)%N with true by lia. reflexivity.
  - destruct (y <? x)%N eqn:E3; [discriminate|]. intros _ _. replace (x <? z)%N with true by lia. reflexivity.
  - destruct (y <? x)%N eqn:E3; [discriminate|]. destruct (z <? y)%N eqn:E4; [discriminate|].
    replace (x <? z)%N with false by lia. replace (z <? x)%N with false by lia. apply IH.
Qed.

Lemma bytes_ltb_total a b : bytes_ltb a b = false -> bytes_ltb b a = false -> a = b.
Proof.
  revert b. induction a as [|x a IH]; intros [|y b]; simpl; try discriminate; try reflexivity.
  destruct (x <? y)%N eqn:E1; [discriminate|]. destruct (y <? x)%N eqn:E2; [discriminate|].
  intros H1 H2. assert (x = y) by lia. subst. f_equal. apply IH; assumption.
Qed.

Lemma bytes_ltb_asym a b : bytes_ltb a b = true -> bytes_ltb b a = false.
Proof.
  intros H. destruct (bytes_ltb b a) eqn:E; [|reflexivity].
  pose proof (bytes_ltb_trans _ _ _ H E) as H'. rewrite bytes_ltb_irrefl in H'. discriminate.
Qed.

(** a proper prefix is smaller; bytes compare as unsigned (0x80.. above ASCII) *)
Example ex_bytes_ltb : (bytes_ltb [97;98] [97;98;99] = true /\ bytes_ltb [97;200] [97;98] = false
  /\ bytes_ltb [] [0] = true /\ bytes_ltb [66] [97] = true)%N.
Proof. vm_compute. auto. Qed.

(** substr *)
Lemma substr_spec s idx len : 0 <= idx <= Z.of_nat (length s) -> 0 <= len ->
  substr s idx len = firstn (Z.to_nat len) (skipn (Z.to_nat idx) s).
Proof.
  intros Hi Hl. unfold substr.
  replace ((idx <? 0) || (Z.of_nat (length s) <? idx)) with false by lia.
  replace (len <? 0) with false by lia. reflexivity.
Qed.
Lemma substr_neg_len s idx len : 0 <= idx <= Z.of_nat (length s) -> len < 0 ->
  substr s idx len = skipn (Z.to_nat idx) s.
Proof.
  intros Hi Hl. unfold substr.
  replace ((idx <? 0) || (Z.of_nat (length s) <? idx)) with false by lia.
  replace (len <? 0) with true by lia. reflexivity.
Qed.
Lemma substr_out_of_range s idx len : idx < 0 \/ Z.of_nat (length s) < idx -> substr s idx len = [].
Proof.
  intros H. unfold substr.
  replace ((idx <? 0) || (Z.of_nat (length s) <? idx)) with true by lia. reflexivity.
Qed.
Lemma substr_length_le s idx len : (length (substr s idx len) <= length s)%nat.
Proof.
  unfold substr. destruct ((idx <? 0) || (Z.of_nat (length s) <? idx)); [simpl; lia|].
  cbv zeta. destruct (len <? 0).
  - rewrite skipn_length. lia.
  - rewrite firstn_length, skipn_length. lia.
Qed.
(** the result is a contiguous piece of [s], at offset idx *)
Lemma substr_piece s idx len : 0 <= idx <= Z.of_nat (length s) ->
  exists a b, s = a ++ substr s idx len ++ b /\ length a = Z.to_nat idx.
Proof.
  intros Hi. exists (firstn (Z.to_nat idx) s).
  assert (Hl : length (firstn (Z.to_nat idx) s) = Z.to_nat idx) by (rewrite firstn_length; lia).
  destruct (Z_lt_le_dec len 0).
  - exists []. rewrite substr_neg_len, app_nil_r, firstn_skipn by lia. auto.
  - exists (skipn (Z.to_nat len) (skipn (Z.to_nat idx) s)).
    rewrite substr_spec, firstn_skipn, firstn_skipn by lia. auto.
Qed.
Lemma substr_length s idx len : 0 <= idx <= Z.of_nat (length s) -> 0 <= len ->
  Z.of_nat (length (substr s idx len)) = Z.min len (Z.of_nat (length s) - idx).
Proof. intros Hi Hl. rewrite substr_spec, firstn_length, skipn_length by lia. lia. Qed.

Example ex_substr : (substr [1;2;3;4;5] 1%Z 3%Z = [2;3;4] /\ substr [1;2;3] 3%Z 1%Z = []
  /\ substr [1;2;3] 4%Z 1%Z = [] /\ substr [1;2;3] (-1)%Z 2%Z = [] /\ substr [1;2;3] 1%Z (-1)%Z = [2;3]
  /\ substr [1;2;3] 1%Z 100%Z = [2;3])%N.
Proof. vm_compute. auto 8. Qed.

(** contains *)
Lemma has_substr_spec p s : has_substr p s = true <-> exists a b, s = a ++ p ++ b.
Proof.
  induction s as [|c s IH]; simpl.
  - rewrite orb_false_r, is_prefix_spec. split.
    + intros [r Hr]. exists [], r. exact Hr.
    + intros (a & b & H). destruct a; [exists b; exact H | discriminate].
  - rewrite orb_true_iff, is_prefix_spec, IH. split.
    + intros [[r Hr] | (a & b & ->)].
      * exists [], r. exact Hr.
      * exists (c :: a), b. reflexivity.
    + intros (a & b & H). destruct a as [|c' a].
      * left. exists b. exact H.
      * right. simpl in H. injection H as _ ->. exists a, b. reflexivity.
Qed.
Example ex_has_substr : (has_substr [2;3] [1;2;3;4] = true /\ has_substr [3;2] [1;2;3;4] = false
  /\ has_substr [] [] = true /\ has_substr [1] [] = false)%N.
Proof. vm_compute. auto. Qed.

(** * 11. to_string / to_number round trip *)

Arguments N.leb : simpl never.
Arguments N.mul : simpl never.
Arguments N.add : simpl never.
Arguments N.sub : simpl never.
Arguments N.pow : simpl never.

Definition is_dec_digit (c : N) : Prop := (48 <= c <= 57)%N.

Lemma digit_in_dec d : 0 <= d < 10 -> digit_in 10 (Z.to_N (48 + d)) = Some (Z.to_N d).
Proof.
  intros Hd. unfold digit_in, digit_val.
  replace ((48 <=? Z.to_N (48 + d)) && (Z.to_N (48 + d) <=? 57))%N with true by lia.
  replace (Z.to_N (48 + d) - 48)%N with (Z.to_N d) by lia.
  replace (Z.to_N d <? 10)%N with true by lia. reflexivity.
Qed.

Lemma digits_value_app base l1 l2 a :
  digits_value base (l1 ++ l2) a =
  match digits_value base l1 a with Some v => digits_value base l2 v | None => None end.
Proof.
  revert a. induction l1 as [|c l1 IH]; intros a; simpl; [reflexivity|].
  destruct (digit_in base c); [apply IH | reflexivity].
Qed.

(** the digit loop of std::to_string: at most [fuel] decimal digits, most significant first, whose
    value (as parsed back by the digit accumulation of strtol) is [n] *)
Lemma digits_of_pos_spec f : forall n acc, (1 <= f)%nat -> 0 <= n < 10 ^ Z.of_nat f ->
  exists ds, digits_of_pos f n acc = ds ++ acc /\ ds <> [] /\ Forall is_dec_digit ds /\
    forall a, digits_value 10 ds a = Some (a * 10 ^ N.of_nat (length ds) + Z.to_N n)%N.
Proof.
  induction f as [|f IH]; intros n acc Hf Hn; [lia|].
  cbn [digits_of_pos]. cbv zeta.
  assert (Hd : 0 <= n mod 10 < 10) by (apply Z.mod_pos_bound; lia).
  destruct (n / 10 =? 0) eqn:E.
  - exists [Z.to_N (48 + n mod 10)]. split; [reflexivity|]. split; [discriminate|].
    split; [constructor; [unfold is_dec_digit; lia | constructor]|].
    intros a. cbn [digits_value]. rewrite digit_in_dec by assumption. f_equal.
    cbn [length]. change (10 ^ N.of_nat 1)%N with 10%N.
    assert (n mod 10 = n) by (Z.div_mod_to_equations; lia). lia.
  - assert (Hq : 0 < n / 10) by (Z.div_mod_to_equations; lia).
    assert (Hf' : (1 <= f)%nat).
    { destruct f; [|lia]. change (10 ^ Z.of_nat 1) with 10 in Hn. Z.div_mod_to_equations. lia. }
    assert (Hn' : 0 <= n / 10 < 10 ^ Z.of_nat f).
    { split; [lia|]. apply Z.div_lt_upper_bound; [lia|].
      rewrite Nat2Z.inj_succ, Z.pow_succ_r in Hn by lia. lia. }
    destruct (IH (n / 10) (Z.to_N (48 + n mod 10) :: acc) Hf' Hn') as (ds & Heq & Hne & Hall & Hval).
    exists (ds ++ [Z.to_N (48 + n mod 10)]). split; [rewrite Heq, <- app_assoc; reflexivity|].
    split; [destruct ds; discriminate|].
    split; [apply Forall_app; split; [assumption | constructor; [unfold is_dec_digit; lia | constructor]]|].
    intros a. rewrite digits_value_app, Hval. cbn [digits_value]. rewrite digit_in_dec by assumption.
    f_equal. rewrite app_length. cbn [length]. rewrite Nat.add_1_r, Nat2N.inj_succ, N.pow_succ_r'.
    set (P := (10 ^ N.of_nat (length ds))%N).
    assert (Z.to_N n = Z.to_N (n / 10) * 10 + Z.to_N (n mod 10))%N by (Z.div_mod_to_equations; lia).
    lia.
Qed.

Lemma in_s_lt_pow10 z : in_s z = true -> 0 <= Z.abs z < 10 ^ Z.of_nat 12.
Proof. intros H. apply in_s_iff in H. rewrite pow2_31 in H. change (10 ^ Z.of_nat 12) with 1000000000000. lia. Qed.

(** std::to_string(int) produces a complete decimal literal denoting the same number *)
Lemma dec_of_Z_literal z : in_s z = true -> literal 10 true (dec_of_Z z) z.
Proof.
  intros Hz. pose proof (in_s_lt_pow10 z Hz) as Hb. unfold dec_of_Z, literal.
  destruct (z <? 0) eqn:E.
  - destruct (digits_of_pos_spec 12 (- z) [] ltac:(lia) ltac:(lia)) as (ds & Heq & Hne & _ & Hval).
    exists [], [45%N], ds, (Z.to_N (- z)). rewrite Heq, app_nil_r.
    split; [reflexivity|]. split; [reflexivity|]. split; [unfold sign_ok; auto|].
    split; [discriminate|]. split; [exact Hne|]. split.
    + rewrite Hval. f_equal; lia.
    + cbn [sign_neg]. change (45 =? 45)%N with true. cbv iota. rewrite Z2N.id by lia. lia.
  - destruct (digits_of_pos_spec 12 z [] ltac:(lia) ltac:(lia)) as (ds & Heq & Hne & _ & Hval).
    exists [], [], ds, (Z.to_N z). rewrite Heq, app_nil_r.
    split; [reflexivity|]. split; [reflexivity|]. split; [unfold sign_ok; auto|].
    split; [discriminate|]. split; [exact Hne|]. split.
    + rewrite Hval. f_equal; lia.
    + cbn [sign_neg]. rewrite Z2N.id by lia. reflexivity.
Qed.

(** to_string then reading it as a signed fact column gives the number back *)
Theorem dec_of_Z_fact_signed z : in_s z = true -> fact_signed (dec_of_Z z) = Some z.
Proof.
  intros Hz. apply fact_signed_accept_iff. split; [apply dec_of_Z_literal, Hz | apply in_s_iff, Hz].
Qed.

Lemma is_prefix_0x_digits x ds : x <> 48%N -> (57 < x)%N -> Forall is_dec_digit ds ->
  is_prefix [48%N; x] ds = false.
Proof.
  intros _ Hx H. destruct ds as [|c1 [|c2 r]]; simpl; [reflexivity | apply andb_false_r |].
  inversion H as [|? ? _ H2]; subst. inversion H2 as [|? ? Hc2 _]; subst. unfold is_dec_digit in Hc2.
  replace (x =? c2)%N with false by lia. simpl. apply andb_false_r.
Qed.

Lemma is_prefix_minus_digits p ds : Forall is_dec_digit ds -> is_prefix (45%N :: p) ds = false.
Proof.
  intros H. destruct ds as [|c r]; simpl; [reflexivity|].
  inversion H as [|? ? Hc _]; subst. unfold is_dec_digit in Hc.
  replace (45 =? c)%N with false by lia. reflexivity.
Qed.

(** to_number(to_string(z)) = z: the dispatch on 0b / 0x prefixes never fires on a decimal rendering *)
Theorem to_number_dec_of_Z z : in_s z = true -> to_number (dec_of_Z z) = Some z.
Proof.
  intros Hz. pose proof (dec_of_Z_fact_signed z Hz) as Hf.
  unfold fact_signed in Hf. apply complete_some in Hf.
  unfold to_number, ram_signed_auto.
  assert (Hp : forall x, x <> 48%N -> (57 < x)%N ->
             is_prefix [45%N; 48%N; x] (dec_of_Z z) = false /\ is_prefix [48%N; x] (dec_of_Z z) = false).
  { intros x Hx1 Hx2. pose proof (in_s_lt_pow10 z Hz) as Hb. unfold dec_of_Z.
    destruct (z <? 0) eqn:E.
    - destruct (digits_of_pos_spec 12 (- z) [] ltac:(lia) ltac:(lia)) as (ds & Heq & _ & Hall & _).
      rewrite Heq, app_nil_r. split.
      + cbn [is_prefix]. change (45 =? 45)%N with true. cbn [andb]. apply is_prefix_0x_digits; assumption.
      + reflexivity.
    - destruct (digits_of_pos_spec 12 z [] ltac:(lia) ltac:(lia)) as (ds & Heq & _ & Hall & _).
      rewrite Heq, app_nil_r. split.
      + apply is_prefix_minus_digits, Hall.
      + apply is_prefix_0x_digits; assumption. }
  unfold B_M0b, B_0b, B_M0x, B_0x.
  destruct (Hp 98%N ltac:(lia) ltac:(lia)) as [-> ->].
  destruct (Hp 120%N ltac:(lia) ltac:(lia)) as [-> ->].
  cbn [orb]. rewrite Hf. reflexivity.
Qed.

Example ex_dec_of_Z : (dec_of_Z 0 = [48] /\ dec_of_Z (-2147483648) = [45;50;49;52;55;52;56;51;54;52;56]
  /\ dec_of_Z 907 = [57;48;55])%N /\ to_number (dec_of_Z (-42)) = Some (-42).
Proof. vm_compute. auto. Qed.

(** * 12. The [range] generator (EvaluatorUtil.h runRange; DatalogDefs.range_values) *)

(** the enumeration is an arithmetic progression starting at [x] ... *)
Lemma range_s_progression fuel : forall x to st,
  range_s fuel x to st =
  map (fun k => x + Z.of_nat k * st) (seq 0 (length (range_s fuel x to st))).
Proof.
  induction fuel as [|f IH]; intros x to st; [reflexivity|].
  cbn [range_s].
  assert (Hcons : x :: range_s f (x + st) to st =
    map (fun k => x + Z.of_nat k * st) (seq 0 (length (x :: range_s f (x + st) to st)))).
  { cbn [length seq map]. f_equal; [lia|].
    rewrite <- seq_shift, map_map. rewrite IH at 1. apply map_ext. intros k. lia. }
  destruct (0 <? st); [destruct (x <? to); [exact Hcons | reflexivity]|].
  destruct (st <? 0); [destruct (to <? x); [exact Hcons | reflexivity] | reflexivity].
Qed.

(** ... every element is on the right side of the bound ... *)
Lemma range_s_bound fuel : forall x to st y, In y (range_s fuel x to st) ->
  (0 < st /\ y < to) \/ (st < 0 /\ to < y).
Proof.
  induction fuel as [|f IH]; intros x to st y; [intros []|].
  cbn [range_s]. destruct (0 <? st) eqn:E1.
  - destruct (x <? to) eqn:E2; [|intros []]. intros [<- | H]; [lia | apply (IH _ _ _ _ H)].
  - destruct (st <? 0) eqn:E3; [|intros []].
    destruct (to <? x) eqn:E2; [|intros []]. intros [<- | H]; [lia | apply (IH _ _ _ _ H)].
Qed.

(** ... and when the fuel was not exhausted the next value of the progression is beyond the bound *)
Lemma range_s_stop fuel : forall x to st, st <> 0 ->
  (length (range_s fuel x to st) < fuel)%nat ->
  let e := x + Z.of_nat (length (range_s fuel x to st)) * st in
  (0 < st -> to <= e) /\ (st < 0 -> e <= to).
Proof.
  induction fuel as [|f IH]; intros x to st Hst; [cbn; lia|].
  cbn [range_s]. destruct (0 <? st) eqn:E1.
  - destruct (x <? to) eqn:E2.
    + cbn [length]. intros Hl. specialize (IH (x + st) to st Hst ltac:(lia)). cbv zeta in *. lia.
    + cbn [length]. intros _. cbv zeta. lia.
  - replace (st <? 0) with true by lia. destruct (to <? x) eqn:E2.
    + cbn [length]. intros Hl. specialize (IH (x + st) to st Hst ltac:(lia)). cbv zeta in *. lia.
    + cbn [length]. intros _. cbv zeta. lia.
Qed.

Lemma range_s_length_le fuel : forall x to st, (length (range_s fuel x to st) <= fuel)%nat.
Proof.
  induction fuel as [|f IH]; intros x to st; [cbn; lia|]. cbn [range_s].
  destruct (0 <? st); [destruct (x <? to); cbn [length]; [specialize (IH (x + st) to st)|]; lia|].
  destruct (st <? 0); [destruct (to <? x); cbn [length]; [specialize (IH (x + st) to st)|]; lia|].
  cbn; lia.
Qed.

Lemma range_s_nth_in fuel x to st k : (k < length (range_s fuel x to st))%nat ->
  In (x + Z.of_nat k * st) (range_s fuel x to st).
Proof.
  intros Hk. rewrite range_s_progression. apply in_map_iff. exists k. split; [reflexivity|].
  apply in_seq. lia.
Qed.

(** the fuel chosen by [range_values] is never exhausted *)
Lemma range_s_fuel_enough x to st : st <> 0 ->
  let n := Z.abs (to - x) / Z.abs st + 2 in
  (length (range_s (Z.to_nat n) x to st) < Z.to_nat n)%nat.
Proof.
  intros Hst n. set (l := range_s (Z.to_nat n) x to st).
  assert (Hq : 0 <= Z.abs (to - x) / Z.abs st) by (apply Z.div_pos; lia).
  destruct (length l) as [|m] eqn:El; [lia|].
  assert (Hin : In (x + Z.of_nat m * st) l) by (apply range_s_nth_in; fold l; lia).
  apply range_s_bound in Hin.
  assert (Hm : Z.of_nat m <= Z.abs (to - x) / Z.abs st).
  { apply Z.div_le_lower_bound; [lia|]. nia. }
  lia.
Qed.

(** signed range with an explicit step: exactly from, from+step, ... strictly before [to] *)
Theorem range_values_pos_step from to st l : 0 < st ->
  range_values TS from to (Some st) = Ok l ->
  l = map (fun k => from + Z.of_nat k * st) (seq 0 (length l)) /\
  forall x, In x l <-> exists k, 0 <= k /\ x = from + k * st /\ x < to.
Proof.
  intros Hst. unfold range_values. replace (st =? 0) with false by lia.
  cbv zeta. destruct (4096 <? _); [discriminate|].
  destruct (in_s _); [|discriminate]. intros [= <-].
  split; [apply range_s_progression|].
  pose proof (range_s_fuel_enough from to st ltac:(lia)) as Hf. cbv zeta in Hf.
  pose proof (range_s_stop _ from to st ltac:(lia) Hf) as [Hstop _]. specialize (Hstop Hst).
  set (r := range_s _ from to st) in *. intros x. split.
  - intros Hin. pose proof (range_s_bound _ _ _ _ _ Hin) as Hb.
    unfold r in Hin. rewrite range_s_progression in Hin. apply in_map_iff in Hin as (k & <- & _).
    exists (Z.of_nat k). split; [lia|]. split; [reflexivity | lia].
  - intros (k & Hk & -> & Hlt).
    assert (k < Z.of_nat (length r)) by nia.
    replace k with (Z.of_nat (Z.to_nat k)) by lia. apply range_s_nth_in. fold r. lia.
Qed.

(** mirror image for a negative step: from, from+step, ... strictly above [to] *)
Theorem range_values_neg_step from to st l : st < 0 ->
  range_values TS from to (Some st) = Ok l ->
  l = map (fun k => from + Z.of_nat k * st) (seq 0 (length l)) /\
  forall x, In x l <-> exists k, 0 <= k /\ x = from + k * st /\ to < x.
Proof.
  intros Hst. unfold range_values. replace (st =? 0) with false by lia.
  cbv zeta. destruct (4096 <? _); [discriminate|].
  destruct (in_s _); [|discriminate]. intros [= <-].
  split; [apply range_s_progression|].
  pose proof (range_s_fuel_enough from to st ltac:(lia)) as Hf. cbv zeta in Hf.
  pose proof (range_s_stop _ from to st ltac:(lia) Hf) as [_ Hstop]. specialize (Hstop Hst).
  set (r := range_s _ from to st) in *. intros x. split.
  - intros Hin. pose proof (range_s_bound _ _ _ _ _ Hin) as Hb.
    unfold r in Hin. rewrite range_s_progression in Hin. apply in_map_iff in Hin as (k & <- & _).
    exists (Z.of_nat k). split; [lia|]. split; [reflexivity | lia].
  - intros (k & Hk & -> & Hlt).
    assert (k < Z.of_nat (length r)) by nia.
    replace k with (Z.of_nat (Z.to_nat k)) by lia. apply range_s_nth_in. fold r. lia.
Qed.

(** step 0: the single value [from], unless the range is empty *)
Theorem range_values_zero_step from to :
  range_values TS from to (Some 0) = Ok (if from =? to then [] else [from]).
Proof. reflexivity. Qed.

(** no step given: +1 when from <= to, -1 otherwise *)
Theorem range_values_default_step from to :
  range_values TS from to None = range_values TS from to (Some (if from <=? to then 1 else -1)).
Proof. reflexivity. Qed.

(** every produced value is a 32-bit value, and the C++ loop variable never overflowed *)
Theorem range_values_in_s from to st l : in_s from = true -> in_s to = true ->
  range_values TS from to st = Ok l -> Forall (fun x => in_s x = true) l.
Proof.
  intros Hf Ht H. apply Forall_forall. intros x Hx.
  apply in_s_iff in Hf. apply in_s_iff in Ht. apply in_s_iff.
  destruct st as [st|]; [|rewrite range_values_default_step in H; set (st := if from <=? to then 1 else -1) in *].
  all: destruct (Z.lt_trichotomy st 0) as [Hs | [Hs | Hs]].
  all: try (destruct (range_values_neg_step _ _ _ _ Hs H) as [_ Hin]; apply Hin in Hx as (k & Hk & -> & Hlt); nia).
  all: try (destruct (range_values_pos_step _ _ _ _ Hs H) as [_ Hin]; apply Hin in Hx as (k & Hk & -> & Hlt); nia).
  - subst st. rewrite range_values_zero_step in H. injection H as <-.
    destruct (from =? to); [destruct Hx | destruct Hx as [<- | []]; lia].
  - unfold st in Hs. destruct (from <=? to); discriminate.
Qed.

Example ex_range : range_values TS 1 10 (Some 3) = Ok [1; 4; 7] /\ range_values TS 10 6 None = Ok [10; 9; 8; 7]
  /\ range_values TS 3 3 None = Ok [] /\ range_values TS 5 6 (Some 0) = Ok [5] /\ range_values TS 5 5 (Some 0) = Ok []
  /\ range_values TS 1 10 (Some (-1)) = Ok [] /\ range_values TS 10 1 (Some (-4)) = Ok [10; 6; 2]
  /\ range_values TS 2147483646 2147483647 (Some 2) = Undef.
Proof. vm_compute. auto 10. Qed.

(** * 13. Family statements (used verbatim by Properties_C24.v) *)

Theorem closure_family a b : in_s a = true -> in_s b = true ->
  (forall r, In (Some r) [sadd a b; ssub a b; smul a b; sdiv a b; smod a b; sneg a;
                          udiv a b; umod a b; sexp a b; uexp a b] -> in_s r = true) /\
  Forall (fun r => in_s r = true)
    [uadd a b; usub a b; umul a b; band a b; bor a b; bxor a b; bnot a; shl a b; shr_s a b; shr_u a b;
     land a b; lor a b; lxor a b; lnot a; smax a b; smin a b; umax a b; umin a b].
Proof.
  intros Ha Hb. split.
  - intros r H. cbn [In] in H. decompose [or] H; clear H; try contradiction.
    + eapply sadd_in_s; eauto.
    + eapply ssub_in_s; eauto.
    + eapply smul_in_s; eauto.
    + eapply sdiv_in_s; eauto.
    + eapply (smod_in_s a b); eauto.
    + eapply sneg_in_s; eauto.
    + match goal with H : udiv _ _ = _ |- _ => apply udiv_spec in H; tauto end.
    + match goal with H : umod _ _ = _ |- _ => apply umod_spec in H; tauto end.
    + eapply sexp_in_s; eauto.
    + eapply uexp_in_s; eauto.
  - repeat constructor.
    + apply uadd_in_s. + apply usub_in_s. + apply umul_in_s.
    + apply band_in_s; assumption. + apply bor_in_s; assumption. + apply bxor_in_s; assumption.
    + apply bnot_in_s; assumption.
    + apply shl_in_s. + apply shr_s_in_s; assumption. + apply shr_u_in_s.
    + apply land_in_s. + apply lor_in_s. + apply lxor_in_s. + apply lnot_in_s.
    + apply smax_in_s; assumption. + apply smin_in_s; assumption.
    + apply umax_in_s; assumption. + apply umin_in_s; assumption.
Qed.

Theorem wrap_family z :
  (- 2 ^ 31 <= wrap z < 2 ^ 31 /\ (wrap z - z) mod 2 ^ 32 = 0 /\
   forall r, - 2 ^ 31 <= r < 2 ^ 31 -> (r - z) mod 2 ^ 32 = 0 -> r = wrap z) /\
  (0 <= u z < 2 ^ 32 /\ (u z - z) mod 2 ^ 32 = 0) /\
  u (wrap z) = z mod 2 ^ 32 /\
  (- 2 ^ 31 <= z < 2 ^ 31 -> wrap (u z) = z /\ wrap z = z).
Proof.
  split; [|split; [apply u_spec | split; [apply u_wrap|]]].
  - destruct (wrap_spec z) as [H1 H2]. apply in_s_iff in H1. split; [exact H1|]. split; [exact H2|].
    intros r Hr. apply wrap_unique, in_s_iff, Hr.
  - intros H. apply in_s_iff in H. split; [apply wrap_u | apply wrap_id]; exact H.
Qed.

Theorem unsigned_arith_family a b :
  u (uadd a b) = (u a + u b) mod 2 ^ 32 /\
  u (usub a b) = (u a - u b) mod 2 ^ 32 /\
  u (umul a b) = (u a * u b) mod 2 ^ 32 /\
  (forall r, udiv a b = Some r <-> (u b <> 0 /\ in_s r = true /\ u r = u a / u b)) /\
  (forall r, umod a b = Some r <-> (u b <> 0 /\ in_s r = true /\ u r = u a mod u b)) /\
  (udiv a b = None <-> u b = 0) /\ (umod a b = None <-> u b = 0).
Proof.
  split; [apply uadd_spec|]. split; [apply usub_spec|]. split; [apply umul_spec|].
  split; [intros r; apply udiv_spec|]. split; [intros r; apply umod_spec|].
  split; [apply udiv_defined_iff | apply umod_defined_iff].
Qed.

Theorem signed_arith_family a b : in_s a = true -> in_s b = true ->
  (forall r, sadd a b = Some r <-> (r = a + b /\ - 2 ^ 31 <= a + b < 2 ^ 31)) /\
  (forall r, ssub a b = Some r <-> (r = a - b /\ - 2 ^ 31 <= a - b < 2 ^ 31)) /\
  (forall r, smul a b = Some r <-> (r = a * b /\ - 2 ^ 31 <= a * b < 2 ^ 31)) /\
  (forall r, sneg a = Some r <-> (r = - a /\ a <> MIN_S)) /\
  (forall r, sdiv a b = Some r <-> (b <> 0 /\ ~ (a = MIN_S /\ b = -1) /\ r = Z.quot a b)) /\
  (forall r, smod a b = Some r <-> (b <> 0 /\ ~ (a = MIN_S /\ b = -1) /\ r = Z.rem a b)) /\
  (forall r, sadd a b = Some r -> uadd a b = r) /\
  (forall r, ssub a b = Some r -> usub a b = r) /\
  (forall r, smul a b = Some r -> umul a b = r).
Proof.
  intros Ha Hb.
  split; [intros r; apply sadd_spec|]. split; [intros r; apply ssub_spec|].
  split; [intros r; apply smul_spec|].
  split. { intros r. rewrite sneg_spec. apply in_s_iff in Ha. unfold MIN_S. rewrite pow2_31 in *. lia. }
  split; [intros r; apply sdiv_spec; assumption|]. split; [intros r; apply smod_spec|].
  split; [apply sadd_uadd|]. split; [apply ssub_usub | apply smul_umul].
Qed.

Theorem bitwise_family a b :
  u (band a b) = Z.land (u a) (u b) /\ u (bor a b) = Z.lor (u a) (u b) /\
  u (bxor a b) = Z.lxor (u a) (u b) /\ bnot a = - a - 1 /\ u (bnot a) = 2 ^ 32 - 1 - u a /\
  forall i, 0 <= i < 32 ->
    Z.testbit (u (band a b)) i = Z.testbit (u a) i && Z.testbit (u b) i /\
    Z.testbit (u (bor a b)) i = Z.testbit (u a) i || Z.testbit (u b) i /\
    Z.testbit (u (bxor a b)) i = xorb (Z.testbit (u a) i) (Z.testbit (u b) i) /\
    Z.testbit (u (bnot a)) i = negb (Z.testbit (u a) i).
Proof.
  split; [apply band_spec|]. split; [apply bor_spec|]. split; [apply bxor_spec|].
  split; [apply bnot_eq|]. split; [apply bnot_spec|]. intros i Hi.
  split; [apply band_bits, Hi|]. split; [apply bor_bits, Hi|]. split; [apply bxor_bits, Hi | apply bnot_bits, Hi].
Qed.

Theorem shift_family a b :
  let k := u b mod 32 in
  shcount b = k /\
  u (shl a b) = (u a * 2 ^ k) mod 2 ^ 32 /\
  shr_s a b = a / 2 ^ k /\
  u (shr_u a b) = u a / 2 ^ k /\
  (forall b', u b' mod 32 = k -> shl a b' = shl a b /\ shr_s a b' = shr_s a b /\ shr_u a b' = shr_u a b).
Proof.
  cbv zeta. rewrite <- shcount_spec.
  split; [reflexivity|]. split; [apply shl_spec|]. split; [apply shr_s_spec|]. split; [apply shr_u_spec|].
  intros b' H. apply shift_count_mod. rewrite H, shcount_spec. reflexivity.
Qed.

Theorem logical_family a b :
  (land a b = 1 <-> (a <> 0 /\ b <> 0)) /\ (land a b = 0 \/ land a b = 1) /\
  (lor a b = 1 <-> (a <> 0 \/ b <> 0)) /\ (lor a b = 0 \/ lor a b = 1) /\
  (lnot a = 1 <-> a = 0) /\ (lnot a = 0 \/ lnot a = 1) /\
  (lxor a b = 0 \/ lxor a b = 1) /\
  lxor a b = b2z ((truthy a || truthy b) && negb (Bool.eqb (negb (truthy a)) (negb (truthy b)))).
Proof.
  pose proof (logical_01 a b) as (H1 & H2 & H3 & H4).
  split; [apply land_spec|]. split; [exact H1|]. split; [apply lor_spec|]. split; [exact H2|].
  split; [apply lnot_spec|]. split; [exact H4|]. split; [exact H3 | apply lxor_spec].
Qed.

Theorem minmax_family a b :
  smax a b = Z.max a b /\ smin a b = Z.min a b /\
  u (umax a b) = Z.max (u a) (u b) /\ u (umin a b) = Z.min (u a) (u b) /\
  (umax a b = a \/ umax a b = b) /\ (umin a b = a \/ umin a b = b).
Proof.
  split; [reflexivity|]. split; [reflexivity|]. split; [apply umax_spec|]. split; [apply umin_spec|].
  split; [apply umax_choice | apply umin_choice].
Qed.

Theorem compare_family a b : in_s a = true -> in_s b = true ->
  slt a b = (a <? b) /\ sle a b = (a <=? b) /\ ult a b = (u a <? u b) /\ ule a b = (u a <=? u b) /\
  ult a b = xorb (slt a b) (xorb (a <? 0) (b <? 0)) /\
  ult a a = false /\ (ult a b = false -> ult b a = false -> a = b) /\
  (forall c, ult a b = true -> ult b c = true -> ult a c = true).
Proof.
  intros Ha Hb. split; [reflexivity|]. split; [reflexivity|]. split; [reflexivity|]. split; [reflexivity|].
  split; [apply ult_slt; assumption|]. split; [apply ult_irrefl|]. split; [apply ult_total; assumption|].
  intros c. apply ult_trans.
Qed.

Theorem exp_family a b :
  (0 <= b -> forall r, sexp a b = Some r <-> (r = a ^ b /\ - 2 ^ 31 <= a ^ b < 2 ^ 31)) /\
  (b < 0 -> sexp a b = if a =? 0 then None else Some (Z.quot 1 (a ^ (- b)))) /\
  (forall r, uexp a b = Some r <-> (u a ^ u b < 2 ^ 32 /\ in_s r = true /\ u r = u a ^ u b)).
Proof.
  split; [intros Hb r; apply sexp_spec, Hb|]. split; [apply sexp_neg_spec | intros r; apply uexp_spec].
Qed.

Theorem string_order_family a b c :
  (bytes_ltb a b = true <-> lex_lt a b) /\ bytes_ltb a a = false /\
  (bytes_ltb a b = true -> bytes_ltb b c = true -> bytes_ltb a c = true) /\
  (bytes_ltb a b = false -> bytes_ltb b a = false -> a = b).
Proof.
  split; [apply bytes_ltb_lex|]. split; [apply bytes_ltb_irrefl|].
  split; [apply bytes_ltb_trans | apply bytes_ltb_total].
Qed.

Theorem substr_family s idx len :
  (0 <= idx <= Z.of_nat (length s) -> 0 <= len ->
     substr s idx len = firstn (Z.to_nat len) (skipn (Z.to_nat idx) s)) /\
  (0 <= idx <= Z.of_nat (length s) -> len < 0 -> substr s idx len = skipn (Z.to_nat idx) s) /\
  (idx < 0 \/ Z.of_nat (length s) < idx -> substr s idx len = []) /\
  (length (substr s idx len) <= length s)%nat.
Proof.
  split; [apply substr_spec|]. split; [apply substr_neg_len|].
  split; [apply substr_out_of_range | apply substr_length_le].
Qed.

Theorem to_string_family z : in_s z = true ->
  fact_signed (dec_of_Z z) = Some z /\ to_number (dec_of_Z z) = Some z.
Proof. intros H. split; [apply dec_of_Z_fact_signed | apply to_number_dec_of_Z]; exact H. Qed.

(** * 14. Concrete instances of the hypotheses used above (non-vacuity) *)
Ltac ex_triv :=
  repeat match goal with |- _ /\ _ => split end;
  first [ reflexivity | discriminate | lia | (vm_compute; reflexivity) | (vm_compute; discriminate)
        | (intros [? ?]; discriminate) ].
Example ex_hyp_in_s : in_s MIN_S = true /\ in_s MAX_S = true /\ in_s (-7) = true /\ in_s 2 = true
  /\ in_s (2 ^ 31) = false /\ in_s (- 2 ^ 31 - 1) = false.
Proof. ex_triv. Qed.
Example ex_hyp_wrap_unique : in_s (-1) = true /\ (-1 - 4294967295) mod 2 ^ 32 = 0 /\ wrap 4294967295 = -1.
Proof. ex_triv. Qed.
Example ex_hyp_sdiv : in_s (-7) = true /\ in_s 2 = true /\ 2 <> 0 /\ ~ (-7 = MIN_S /\ 2 = -1)
  /\ sdiv (-7) 2 = Some (Z.quot (-7) 2) /\ smod (-7) 2 = Some (Z.rem (-7) 2).
Proof. ex_triv. Qed.
Example ex_hyp_sadd_uadd : sadd 2147483646 1 = Some 2147483647 /\ uadd 2147483646 1 = 2147483647.
Proof. ex_triv. Qed.
Example ex_hyp_sexp : 0 <= 10 /\ - 2 ^ 31 <= 2 ^ 10 < 2 ^ 31 /\ (-3 < 0) /\ 2 <= Z.abs (-3) /\ 32 <= 40
  /\ u 3 ^ u 4 < 2 ^ 32 /\ 2 <= u (-1) /\ 32 <= u (-1).
Proof. ex_triv. Qed.
Example ex_hyp_ult : in_s (-1) = true /\ in_s 1 = true /\ ((-1 <? 0) <> (1 <? 0)) /\ ((3 <? 0) = (4 <? 0))
  /\ ult 5 5 = false /\ ult 1 2 = true /\ ult 2 (-1) = true /\ ult 1 (-1) = true.
Proof. ex_triv. Qed.
Example ex_hyp_strings : (0 <= 1 <= Z.of_nat (length [1;2;3;4;5]%N) /\ 0 <= 3 /\ -1 < 0
  /\ (1 <= 12)%nat /\ 0 <= 907 < 10 ^ Z.of_nat 12 /\ in_s (-42) = true
  /\ bytes_ltb [1]%N [2]%N = true /\ bytes_ltb [2]%N [2;0]%N = true /\ bytes_ltb [1]%N [2;0]%N = true).
Proof. ex_triv. Qed.
Example ex_hyp_range : 0 < 3 /\ range_values TS 1 10 (Some 3) = Ok [1; 4; 7]
  /\ -4 < 0 /\ range_values TS 10 1 (Some (-4)) = Ok [10; 6; 2] /\ in_s 1 = true /\ in_s 10 = true.
Proof. ex_triv. Qed.
Example ex_hyp_bits : in_s (-5) = true /\ 31 <= 40 /\ Z.testbit (-5) 40 = Z.testbit (-5) 31 /\ 0 <= 7 < 32.
Proof. ex_triv. Qed.

(* NOT PROVED / NOT COVERED in this file:
   - range_values for the unsigned type (TU): only the signed generator is characterised above
     (the unsigned branch wraps each value and has a different default-step rule: runRangeBackward).
   - sexp / uexp are specified against exact integer exponentiation; that glibc's double-precision
     std::pow returns exactly a^b whenever a^b is an integer below 2^53 is an assumption of the model
     (Word32Defs.sexp), validated only by the correspondence check, not proved here.
   - Outside the defined domain the interpreter (direct double -> int32 cast, undefined) and the
     synthesised code (cast through int64_t, wraps) differ for EXP/UEXP; the model returns None there.
   - The string conversions of floats (to_string(float), to_float) and FEXP (std::pow on floats) are not
     modelled. *)
