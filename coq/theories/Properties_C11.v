(** C11 -- subsumption: the final relation holds no tuple dominated by another final tuple, only
    tuples of the unsubsumed result, and (minimal mode) exactly its non-dominated tuples. Only
    statements; definitions in ContractDefs.v, proofs in ContractLemmas.v. The validator
    [subsume_ok] is run by `./check C11` on the final database printed by Souffle; [unsub] is the
    relation in the model of the program without its subsumptive clauses (computed by the C01
    oracle); a subsumptive clause `R(pa) <= R(pb) :- body.` is the record [dom].

    Reading guide: [dominates d dm t1 t2] = one valuation makes [d_pa dm] denote [t1], [d_pb dm]
    denote [t2] and satisfies [d_body dm] in [d] (t1 is deleted in favour of t2);
    [dominates_any] = by some clause of the list; [dom_free d doms R] = no tuple of [R] is
    dominated by a different tuple of [R]; [covered d doms R unsub] = every tuple of [unsub] is in
    [R] or dominated by a tuple of [R]. [dom_ok] (computed by the driver, [subsume_hyps]) = the
    aggregates of the body are well scoped and no unsigned min/max aggregate occurs. *)
From SV Require Import DatalogDefs DatalogSem DatalogLemmas ContractDefs ContractLemmas.

Theorem C11_dominated_spec : forall d dm t1 t2 b,
  db_nodup d -> dom_ok dm = true -> dominated d dm t1 t2 = Ok b ->
  (b = true <-> dominates d dm t1 t2).
Proof. exact dominated_spec. Qed.
Print Assumptions C11_dominated_spec.

Theorem C11_subsume_ok_iff : forall d r doms unsub minimal res,
  db_nodup d -> forallb dom_ok doms = true ->
  subsume_ok d r doms unsub minimal = Ok res ->
  (res = SOk <->
   dom_free d doms (rel_of d r) /\ incl (rel_of d r) unsub /\
   (minimal = true -> covered d doms (rel_of d r) unsub)).
Proof. exact subsume_ok_iff. Qed.
Print Assumptions C11_subsume_ok_iff.

Theorem C11_subsume_dominated_witness : forall d r doms unsub minimal t1 t2,
  db_nodup d -> forallb dom_ok doms = true ->
  subsume_ok d r doms unsub minimal = Ok (SDominated t1 t2) ->
  In t1 (rel_of d r) /\ In t2 (rel_of d r) /\ t1 <> t2 /\ dominates_any d doms t1 t2.
Proof. exact subsume_dominated_witness. Qed.
Print Assumptions C11_subsume_dominated_witness.

Theorem C11_subsume_notderivable_witness : forall d r doms unsub minimal t,
  subsume_ok d r doms unsub minimal = Ok (SNotDerivable t) -> In t (rel_of d r) /\ ~ In t unsub.
Proof. exact subsume_notderivable_witness. Qed.
Print Assumptions C11_subsume_notderivable_witness.

Theorem C11_subsume_notminimal_witness : forall d r doms unsub minimal u,
  db_nodup d -> forallb dom_ok doms = true ->
  subsume_ok d r doms unsub minimal = Ok (SNotMinimal u) ->
  In u unsub /\ ~ In u (rel_of d r) /\ forall t, In t (rel_of d r) -> ~ dominates_any d doms u t.
Proof. exact subsume_notminimal_witness. Qed.
Print Assumptions C11_subsume_notminimal_witness.

Theorem C11_subsume_hyps_spec : forall d doms, subsume_hyps d doms = true ->
  db_nodup d /\ forallb dom_ok doms = true.
Proof. exact subsume_hyps_spec. Qed.
Print Assumptions C11_subsume_hyps_spec.

(** when dominance is a strict partial order, the three checks determine the relation: any two
    relations that pass them against the same unsubsumed result hold the same tuples *)
Theorem C11_subsume_minimal_unique : forall d doms unsub R R',
  (forall a, ~ dominates_any d doms a a) ->
  (forall a b c, dominates_any d doms a b -> dominates_any d doms b c -> dominates_any d doms a c) ->
  dom_free d doms R -> incl R unsub -> covered d doms R unsub ->
  dom_free d doms R' -> incl R' unsub -> covered d doms R' unsub ->
  forall t, In t R <-> In t R'.
Proof. exact subsume_minimal_unique. Qed.
Print Assumptions C11_subsume_minimal_unique.

(** the non-recursive deletion on a finite list under a decidable strict partial order
    ([lt a b] = [a] is dominated by [b]): removing every element dominated by an element of the
    ORIGINAL list leaves exactly the non-dominated elements, no survivor is dominated by a
    survivor, and every removed element is dominated by a (different) survivor *)
Theorem C11_nonrec_delete_maximal : forall (A : Type) (lt : A -> A -> bool) (l : list A),
  irreflexive lt -> transitive lt ->
  (forall a, In a (survivors lt l) <-> maximal_in lt l a) /\
  (forall a b, In a (survivors lt l) -> In b (survivors lt l) -> lt a b = false) /\
  (forall a, In a l -> ~ In a (survivors lt l) ->
             exists s, In s (survivors lt l) /\ s <> a /\ lt a s = true).
Proof. intros A lt l. exact (nonrec_delete_maximal lt l). Qed.
Print Assumptions C11_nonrec_delete_maximal.

(** the non-dominated elements are the only sub-collection that is dominance-free and
    dominates-or-contains every element *)
Theorem C11_minimal_unique : forall (A : Type) (lt : A -> A -> bool) (l S : list A),
  transitive lt -> incl S l ->
  (forall a b, In a S -> In b S -> lt a b = false) ->
  (forall x, In x l -> In x S \/ exists s, In s S /\ lt x s = true) ->
  forall a, In a S <-> In a (survivors lt l).
Proof. intros A lt l S. exact (minimal_unique lt l S). Qed.
Print Assumptions C11_minimal_unique.
