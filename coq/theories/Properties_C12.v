(** C12 -- lattice-typed attribute: at most one tuple per key, and its lattice value is the join of
    all values derivable for that key given the final database (the least upper bound).
    Only statements; definitions in LatticeDefs.v, proofs in LatticeLemmas.v. The validator
    [lattice_ok] is run by `./check C12` on the final database printed by Souffle.

    Reading guide: the LAST column of the relation is the lattice value ([lat_of t], a record with
    one number, [lat x]), the other columns are the key ([key_of t]); [join j] is the signed max,
    signed min or bitwise or of the number; [le j a b := join j a b = Ok b];
    [derives d cs k v] = some clause of [cs] has an instance ([fires], everything read in the final
    database [d]) with key [k] and lattice value [v]; [functional_keys], [joined], [supported] are
    the three parts of the property. Hypotheses: those of [fire_clause_spec] (C01), computed by the
    driver as [choice_hyps] (C10_choice_hyps_spec). *)
From SV Require Import DatalogDefs DatalogSem DatalogLemmas ContractDefs ContractLemmas LatticeDefs LatticeLemmas.
Require Import Permutation.

Theorem C12_lattice_ok_iff : forall d r cs j res,
  db_nodup d -> clauses_ok cs = true -> forallb clause_det cs = true ->
  lattice_ok d r cs j = Ok res ->
  (res = LOk <->
   (forall t1 t2, In t1 (rel_of d r) -> In t2 (rel_of d r) -> key_of t1 = key_of t2 -> t1 = t2) /\
   (forall k, (exists v, derives d cs k v) ->
      exists t, In t (rel_of d r) /\ key_of t = k /\
                (forall v, derives d cs k v -> le j v (lat_of t)) /\
                (exists v0 vs, derives d cs k v0 /\ Forall (derives d cs k) vs /\
                               fold_join j v0 vs = Ok (lat_of t))) /\
   (forall t, In t (rel_of d r) -> exists v, derives d cs (key_of t) v)).
Proof. exact lattice_ok_iff. Qed.
Print Assumptions C12_lattice_ok_iff.

(** a value that is an upper bound of the derivable values and a join of finitely many of them is
    their LEAST upper bound *)
Theorem C12_joined_least : forall d cs j k (t : tuple) v0 vs,
  derives d cs k v0 -> Forall (derives d cs k) vs -> fold_join j v0 vs = Ok (lat_of t) ->
  forall u, (forall v, derives d cs k v -> le j v u) -> le j (lat_of t) u.
Proof. exact joined_least. Qed.
Print Assumptions C12_joined_least.

(** the rejecting verdicts are witnessed *)
Theorem C12_lattice_reject_witness : forall d r cs j res,
  db_nodup d -> clauses_ok cs = true -> forallb clause_det cs = true ->
  lattice_ok d r cs j = Ok res ->
  match res with
  | LOk => True
  | LDuplicateKey a b => In a (rel_of d r) /\ In b (rel_of d r) /\ a <> b /\ key_of a = key_of b
  | LUnderivable t => In t (rel_of d r) /\ forall v, ~ derives d cs (key_of t) v
  | LMissingKey k => (exists v, derives d cs k v) /\ forall t, In t (rel_of d r) -> key_of t <> k
  | LNotJoin k e a =>
      (exists t, In t (rel_of d r) /\ key_of t = k /\ lat_of t = a) /\ a <> e /\
      (forall v, derives d cs k v -> le j v e) /\
      (exists v0 vs, derives d cs k v0 /\ Forall (derives d cs k) vs /\ fold_join j v0 vs = Ok e)
  end.
Proof. exact lattice_reject_witness. Qed.
Print Assumptions C12_lattice_reject_witness.

(** algebra of the three joins (on all integers, hence on 32-bit values) *)
Theorem C12_jop_aci : forall j,
  (forall a b c, jop j a (jop j b c) = jop j (jop j a b) c) /\
  (forall a b, jop j a b = jop j b a) /\ (forall a, jop j a a = a).
Proof. exact jop_aci. Qed.
Print Assumptions C12_jop_aci.

(** [le] is a partial order on lattice values *)
Theorem C12_le_partial_order : forall j,
  (forall x, le j (lat x) (lat x)) /\
  (forall a b c, le j a b -> le j b c -> le j a c) /\
  (forall a b, le j a b -> le j b a -> a = b).
Proof. intro j. split; [apply le_refl|]. split; [apply le_trans|apply le_antisym]. Qed.
Print Assumptions C12_le_partial_order.

(** the fold of the join over a non-empty list is its least upper bound ... *)
Theorem C12_fold_join_lub : forall j v0 vs w, fold_join j v0 vs = Ok w ->
  (forall v, In v (v0 :: vs) -> le j v w) /\
  (forall u, (forall v, In v (v0 :: vs) -> le j v u) -> le j w u).
Proof. exact fold_join_lub. Qed.
Print Assumptions C12_fold_join_lub.

(** ... independent of the order of the list *)
Theorem C12_fold_join_perm : forall j v0 vs w0 ws a,
  Permutation (v0 :: vs) (w0 :: ws) -> fold_join j v0 vs = Ok a -> fold_join j w0 ws = Ok a.
Proof. exact fold_join_perm. Qed.
Print Assumptions C12_fold_join_perm.

(** abstract update loop over any semilattice: merging batches of new values into the stored value,
    replacing it only when the merge differs, ends -- whatever the batches and their order -- in
    the join of the start value with all the values, which is their least upper bound *)
Theorem C12_lub_sequence_step : forall (A : Type) (op : A -> A -> A), aci op ->
  forall (eqb : A -> A -> bool), (forall a b, eqb a b = true -> a = b) ->
  forall s batches batches',
  Permutation (concat batches') (concat batches) ->
  run_batches op eqb s batches' = run_batches op eqb s batches /\
  run_batches op eqb s batches = fold_left op (concat batches) s /\
  le_op op s (run_batches op eqb s batches) /\
  (forall x, In x (concat batches) -> le_op op x (run_batches op eqb s batches)) /\
  (forall u, le_op op s u -> (forall x, In x (concat batches) -> le_op op x u) ->
             le_op op (run_batches op eqb s batches) u).
Proof. intros A op H eqb He. exact (lub_sequence_step op H eqb He). Qed.
Print Assumptions C12_lub_sequence_step.
