(** C07 -- Query plans preserve results: the abstract obligation.
    Only statements here; definitions and proofs are in SemiNaiveAbs.v.  Two descriptions
    [fire1], [fire2] of the same rules that differ only by a rearrangement of the body atoms
    ([p r] maps a combination for [fire1] to the rearranged combination for [fire2], [q r] back;
    both are permutations) have the same consequence operator, the same naive rounds and the
    same least fixpoint. *)
From Coq Require Import List Permutation.
From SV Require Import SemiNaiveAbs.
Import ListNotations.

Theorem C07_fire_perm_invariant :
  forall (fact rule : Type) (rules : list rule) (arity : rule -> nat)
         (fire1 fire2 : rule -> list fact -> fact -> Prop)
         (p q : rule -> list fact -> list fact),
    (forall r ts, In r rules -> length ts = arity r -> Permutation ts (p r ts)) ->
    (forall r ts, In r rules -> length ts = arity r -> Permutation ts (q r ts)) ->
    (forall r ts h, In r rules -> length ts = arity r -> fire1 r ts h -> fire2 r (p r ts) h) ->
    (forall r ts h, In r rules -> length ts = arity r -> fire2 r ts h -> fire1 r (q r ts) h) ->
    (forall I h, T rules arity fire1 I h <-> T rules arity fire2 I h) /\
    (forall R0 k h, naiveR rules arity fire1 R0 k h <-> naiveR rules arity fire2 R0 k h) /\
    (forall R0 h, lfp rules arity fire1 R0 h <-> lfp rules arity fire2 R0 h).
Proof. exact fire_perm_invariant. Qed.
Print Assumptions C07_fire_perm_invariant.

(** The same with one rearrangement [p] and its inverse [q]. *)
Theorem C07_fire_perm_invariant_iff :
  forall (fact rule : Type) (rules : list rule) (arity : rule -> nat)
         (fire1 fire2 : rule -> list fact -> fact -> Prop)
         (p q : rule -> list fact -> list fact),
    (forall r ts, In r rules -> length ts = arity r -> Permutation ts (p r ts)) ->
    (forall r ts, In r rules -> length ts = arity r -> Permutation ts (q r ts)) ->
    (forall r ts, In r rules -> length ts = arity r -> p r (q r ts) = ts) ->
    (forall r ts h, In r rules -> length ts = arity r -> (fire2 r (p r ts) h <-> fire1 r ts h)) ->
    (forall I h, T rules arity fire1 I h <-> T rules arity fire2 I h) /\
    (forall R0 k h, naiveR rules arity fire1 R0 k h <-> naiveR rules arity fire2 R0 k h) /\
    (forall R0 h, lfp rules arity fire1 R0 h <-> lfp rules arity fire2 R0 h).
Proof. exact fire_perm_invariant_iff. Qed.
Print Assumptions C07_fire_perm_invariant_iff.
