(** Executable model of Souffle's B-tree node graphs
    (src/include/souffle/datastructure/BTree.h, class [detail::btree]: [node], [inner_node],
     [leaf_node]; BTreeDelete.h has the same node layout and the same query code).

    The tie to the real code is a verified validator: the harness (cpp/btree_harness.cpp) dumps
    the real node graph after every operation,
        leaf   (L k1 ... kn)          inner  (I c0 k1 c1 ... kn cn)          empty tree  E
    [wf] below must accept the dump, [elements] gives its in-order key list, and the query
    functions ([find], [contains], [lower_bound], [upper_bound], [size], [next_after]) walk the
    dumped tree the way the C++ walks the real one; their answers are compared with the real
    API results. Separator keys of inner nodes are elements of the set (B-tree, not B+-tree).

    Definitions only; the proofs are in BTreeLemmas.v. *)
From Coq Require Export ZArith List Bool.
Export ListNotations.
Local Open Scope Z_scope.

(** * Node graphs

    An inner node with n keys and n+1 children [c0 k1 c1 ... kn cn] is stored as the n pairs
    [(c0,k1); (c1,k2); ...; (c(n-1),kn)] and the last child [cn]: every key is paired with the
    child to its LEFT. This is the shape in which the C++ searches a node: it scans the keys for
    the first position [pos] with [keys[pos] >= k] and then descends into [getChild(pos)], the
    child left of that key; when the scan runs off the end it descends into the last child.
    The empty tree ([root == nullptr], dumped as [E]) is represented by [Leaf []]. *)
Inductive tree : Type :=
| Leaf (ks : list Z)
| Inner (cs : list (tree * Z)) (last : tree).

(** number of keys of the top node ([numElements]) *)
Definition nkeys (t : tree) : nat :=
  match t with Leaf ks => length ks | Inner cs _ => length cs end.

Definition is_empty (t : tree) : bool :=
  match t with Leaf [] => true | _ => false end.

(** In-order traversal: child0, k1, child1, k2, ... (what the iterator visits). *)
Fixpoint elements (t : tree) : list Z :=
  match t with
  | Leaf ks => ks
  | Inner cs last =>
      flat_map (fun p : tree * Z => let (c, s) := p in elements c ++ [s]) cs ++ elements last
  end.

(** [node::countEntries] / [btree::size]: numElements plus the entries of all children. *)
Fixpoint size (t : tree) : nat :=
  match t with
  | Leaf ks => length ks
  | Inner cs last =>
      (length cs + list_sum (map (fun p : tree * Z => let (c, _) := p in size c) cs) + size last)%nat
  end.

(** * Well-formedness

    [node::check] of BTree.h verifies only: numElements <= maxKeys, parent/position links, the
    FIRST key of a child is above the separator on its left and the LAST key of a child is below
    the separator on its right, and keys inside a node ascend. (BTreeDelete.h's check adds
    numElements >= minKeys for non-root nodes.) [wf] is stronger: it checks EVERY key of the
    whole subtree against both enclosing separators, a lower fill bound, and uniform depth. *)

(** Optional strict bounds: [None] = unbounded. *)
Definition above (lo : option Z) (x : Z) : bool :=
  match lo with None => true | Some l => l <? x end.
Definition below (x : Z) (hi : option Z) : bool :=
  match hi with None => true | Some h => x <? h end.

(** keys of one node: strictly ascending and strictly inside (lo, hi) *)
Fixpoint asc (lo hi : option Z) (ks : list Z) : bool :=
  match ks with
  | [] => true
  | x :: r => above lo x && below x hi && asc (Some x) hi r
  end.

(** Local ordering check: every key of the subtree lies strictly between the separators that
    enclose the subtree in its ancestors, node keys ascend strictly (it is a set). *)
Fixpoint ord (lo hi : option Z) (t : tree) : bool :=
  match t with
  | Leaf ks => asc lo hi ks
  | Inner cs last =>
      (fix go (lo : option Z) (cs : list (tree * Z)) {struct cs} : bool :=
         match cs with
         | [] => ord lo hi last
         | (c, s) :: cs' => ord lo (Some s) c && above lo s && below s hi && go (Some s) cs'
         end) lo cs
  end.

(** depth along the right spine *)
Fixpoint height (t : tree) : nat :=
  match t with Leaf _ => 0%nat | Inner _ last => S (height last) end.

(** every leaf of [t] is exactly [d] levels below the top *)
Fixpoint depth_ok (d : nat) (t : tree) {struct t} : bool :=
  match t with
  | Leaf _ => Nat.eqb d 0
  | Inner cs last =>
      match d with
      | O => false
      | S d' => forallb (fun p : tree * Z => let (c, _) := p in depth_ok d' c) cs && depth_ok d' last
      end
  end.

(** Fill bounds. BTree.h [getSplitPoint]: a full node (maxKeys keys) is split at
    [split_point = min(3*maxKeys/4, maxKeys-2)]: the left part keeps [split_point] keys, key
    number [split_point] moves up, the right part gets [maxKeys - split_point - 1] keys, and then
    the new key is added to one of the parts. [rebalance_or_split] moves
    [min(maxKeys - left->numElements, idx)] keys to the left sibling, which leaves at least
    [left->numElements] keys behind. Hence every non-root node of a tree built by insertions has
    at least [min_keys] keys, where [min_keys = min(maxKeys-(split_point+1), split_point+1)] is
    literally BTreeDelete.h's [node::minKeys] (which its erase maintains by merge/rebalance and
    its [check] enforces). For maxKeys = 3,4 this is 1 (not half full!); for maxKeys = 16 it is
    3; in general about maxKeys/4. The root only needs 1 key. *)
Definition split_point (m : nat) : nat := Nat.min (3 * m / 4) (m - 2).
Definition min_keys (m : nat) : nat := Nat.min (m - (split_point m + 1)) (split_point m + 1).

(** [top] is the lower bound for the top node, [mn] for all nodes below it. *)
Fixpoint fill (top mn mx : nat) (t : tree) : bool :=
  match t with
  | Leaf ks => Nat.leb top (length ks) && Nat.leb (length ks) mx
  | Inner cs last =>
      Nat.leb top (length cs) && Nat.leb (length cs) mx
      && forallb (fun p : tree * Z => let (c, _) := p in fill mn mn mx c) cs && fill mn mn mx last
  end.

Definition ordered (t : tree) : bool := ord None None t.
Definition balanced (t : tree) : bool := depth_ok (height t) t.
Definition filled (m : nat) (t : tree) : bool := is_empty t || fill 1 (min_keys m) m t.

(** The validator run on every dump; [m] = [node::maxKeys] of the instantiation. *)
Definition wf (m : nat) (t : tree) : bool := ordered t && balanced t && filled m t.

(** * Queries *)

(** [linear_search::lower_bound] on the keys of one node: first key with comp(key,k) >= 0.
    (For distinct ascending keys binary_search returns the same position, and
    [search(k,a,b)] = [operator()] returns this position as well or an equal key.) *)
Fixpoint search_lower (k : Z) (ks : list Z) : option Z :=
  match ks with
  | [] => None
  | x :: r => if x <? k then search_lower k r else Some x
  end.

(** [linear_search::upper_bound]: first key with comp(key,k) > 0. *)
Fixpoint search_upper (k : Z) (ks : list Z) : option Z :=
  match ks with
  | [] => None
  | x :: r => if k <? x then Some x else search_upper k r
  end.

(** [btree::find] (without hints: start at the root). In every node: pos = search(k, keys);
    if pos < end and keys[pos] == k: found; if leaf: end(); else descend into getChild(pos).
    The result is the key the returned iterator points at, [None] for end(). *)
Fixpoint find (t : tree) (k : Z) : option Z :=
  match t with
  | Leaf ks =>
      match search_lower k ks with
      | Some x => if x =? k then Some x else None
      | None => None
      end
  | Inner cs last =>
      (fix go (cs : list (tree * Z)) : option Z :=
         match cs with
         | [] => find last k                       (* pos == b: last child *)
         | (c, s) :: cs' =>
             if s <? k then go cs'                  (* keep scanning the keys *)
             else if s =? k then Some s             (* pos < b && keys[pos] == k *)
             else find c k                          (* getChild(pos) *)
         end) cs
  end.

(** [btree::contains]: find(k) != end() *)
Definition contains (t : tree) (k : Z) : bool :=
  match find t k with Some _ => true | None => false end.

(** [btree::lower_bound]: [res] is the candidate remembered from the ancestors
    ([iterator res = end()], updated with [iterator(cur,idx)] whenever pos != b before
    descending); inner nodes return early on an equal separator (isSet). *)
Fixpoint lower_bound_from (res : option Z) (t : tree) (k : Z) : option Z :=
  match t with
  | Leaf ks =>
      match search_lower k ks with Some x => Some x | None => res end
  | Inner cs last =>
      (fix go (cs : list (tree * Z)) : option Z :=
         match cs with
         | [] => lower_bound_from res last k
         | (c, s) :: cs' =>
             if s <? k then go cs'
             else if s =? k then Some s
             else lower_bound_from (Some s) c k
         end) cs
  end.
Definition lower_bound (t : tree) (k : Z) : option Z := lower_bound_from None t k.

(** [btree::upper_bound]: the same walk with search.upper_bound and no early exit. *)
Fixpoint upper_bound_from (res : option Z) (t : tree) (k : Z) : option Z :=
  match t with
  | Leaf ks =>
      match search_upper k ks with Some x => Some x | None => res end
  | Inner cs last =>
      (fix go (cs : list (tree * Z)) : option Z :=
         match cs with
         | [] => upper_bound_from res last k
         | (c, s) :: cs' =>
             if k <? s then upper_bound_from (Some s) c k else go cs'
         end) cs
  end.
Definition upper_bound (t : tree) (k : Z) : option Z := upper_bound_from None t k.

(** [btree::begin]: the first key of the leftmost leaf. [first_from res t] also covers the
    fall-back of [iterator::operator++] ("nodes may be empty"): when the leftmost leaf below is
    empty the iterator climbs to the first ancestor key, [res] being the key it would reach
    above [t]. *)
Fixpoint first_from (res : option Z) (t : tree) : option Z :=
  match t with
  | Leaf [] => res
  | Leaf (x :: _) => Some x
  | Inner [] last => first_from res last
  | Inner ((c, s) :: _) _ => first_from (Some s) c
  end.
Definition first (t : tree) : option Z := first_from None t.

(** [iterator::operator++] applied to the iterator standing on key [k]:
    - in a leaf with keys left: the next key of the leaf;
    - on key number pos of an inner node: leftmost leaf of child pos+1, its first key;
    - at the right end of a leaf: climb ([getParent]/[getPositionInParent]) to the first ancestor
      in which the subtree just left is not the last child; the key right of it is [res].
    The model has no parent pointers: it locates [k] from the root like [find] and carries the
    climb target [res] down. *)
Fixpoint next_from (res : option Z) (t : tree) (k : Z) : option Z :=
  match t with
  | Leaf ks => match search_upper k ks with Some x => Some x | None => res end
  | Inner cs last =>
      (fix go (cs : list (tree * Z)) : option Z :=
         match cs with
         | [] => next_from res last k
         | (c, s) :: cs' =>
             if k <? s then next_from (Some s) c k
             else if s =? k then
               match cs' with
               | [] => first_from res last
               | (c', s') :: _ => first_from (Some s') c'
               end
             else go cs'
         end) cs
  end.
Definition next_after (t : tree) (k : Z) : option Z := next_from None t k.

(** Full iteration [for (x : tree)]: begin(), then ++ until end(); fuel = number of steps. *)
Fixpoint iter_from (fuel : nat) (t : tree) (cur : option Z) : list Z :=
  match fuel, cur with
  | S f, Some x => x :: iter_from f t (next_after t x)
  | _, _ => []
  end.
Definition iterate (t : tree) : list Z := iter_from (size t) t (first t).

(** * Sequential insertion

    [btree::insert] (the sequential branch; the parallel branch performs the same node updates
    under locks): descend with search.lower_bound in inner nodes (early exit [false] on an equal
    separator) and search.upper_bound in the leaf (early exit when keys[idx-1] == k); a full leaf
    is split ([node::split]) and the separator is pushed into the parent by [grow_parent] /
    [insert_inner], which splits full ancestors on the way; a split root gets a new root.

    Not mirrored: option A of [rebalance_or_split] (moving keys into the left sibling instead of
    splitting). The model always takes option B, which is also what the real code does for a
    first child and, in the parallel version, whenever the left sibling's lock is taken. Real
    post-states are therefore tied by the validator, not by equality with this model.

    [split] works on the full node (maxKeys keys) BEFORE the new key goes in: left part
    keys[0..sp), separator keys[sp], right part keys(sp..maxKeys); then the new key (position
    idx in the old node) is placed in the left part if idx <= sp and in the right part at
    idx-sp-1 otherwise. The model first builds the over-full node (maxKeys+1 keys) and then cuts
    it at [sp+1] when idx <= sp and at [sp] otherwise, which yields the same two nodes and the
    same separator. *)
Inductive ins_result : Type :=
| Done (t : tree) (fresh : bool)
| Split (l : tree) (sep : Z) (r : tree).

Definition cut_point (m idx : nat) : nat :=
  if Nat.leb idx (split_point m) then S (split_point m) else split_point m.

(** search.upper_bound position in a leaf *)
Fixpoint leaf_pos (k : Z) (ks : list Z) : nat :=
  match ks with
  | [] => 0%nat
  | x :: r => if k <? x then 0%nat else S (leaf_pos k r)
  end.

Definition insert_at (i : nat) (x : Z) (l : list Z) : list Z := firstn i l ++ x :: skipn i l.

Definition ins_leaf (m : nat) (ks : list Z) (k : Z) : ins_result :=
  let idx := leaf_pos k ks in
  if match idx with O => false | S j => nth j ks 0 =? k end
  then Done (Leaf ks) false                          (* pos != a && keys[idx-1] == k *)
  else
    let ks' := insert_at idx k ks in
    if Nat.leb (length ks') m then Done (Leaf ks') true
    else
      let c := cut_point m idx in
      match skipn c ks' with
      | sep :: r => Split (Leaf (firstn c ks')) sep (Leaf r)
      | [] => Done (Leaf ks') true                   (* not reached when length ks = m >= 3 *)
      end.

(** [insert_inner] + [split] of an inner node whose over-full content is [cs'] / [last'],
    the new key having gone to key position [pos]. *)
Definition mk_inner (m : nat) (cs' : list (tree * Z)) (last' : tree) (pos : nat) : ins_result :=
  if Nat.leb (length cs') m then Done (Inner cs' last') true
  else
    let c := cut_point m pos in
    match skipn c cs' with
    | (cm, sep) :: rr => Split (Inner (firstn c cs') cm) sep (Inner rr last')
    | [] => Done (Inner cs' last') true              (* not reached *)
    end.

(** What happens below one inner node: the new pair list, last child, fresh flag, whether a
    child was split, and the key position of the pushed-up separator. *)
Fixpoint ins (m : nat) (t : tree) (k : Z) : ins_result :=
  match t with
  | Leaf ks => ins_leaf m ks k
  | Inner cs last =>
      let '(cs', last', fresh, grew, pos) :=
        (fix go (cs : list (tree * Z)) : list (tree * Z) * tree * bool * bool * nat :=
           match cs with
           | [] =>
               match ins m last k with
               | Done last' f => ([], last', f, false, 0%nat)
               | Split l s r => ([(l, s)], r, true, true, 0%nat)
               end
           | (c, s) :: cs' =>
               if s <? k then
                 let '(cs'', last', f, g, p) := go cs' in ((c, s) :: cs'', last', f, g, S p)
               else if s =? k then (cs, last, false, false, 0%nat)   (* early exit for sets *)
               else
                 match ins m c k with
                 | Done c' f => ((c', s) :: cs', last, f, false, 0%nat)
                 | Split l s' r => ((l, s') :: (r, s) :: cs', last, true, true, 0%nat)
                 end
           end) cs in
      if grew then mk_inner m cs' last' pos else Done (Inner cs' last') fresh
  end.

(** [btree::insert]: first element creates a leaf; a split root gets a new root with one key
    ([grow_parent] with parent == nullptr). Returns the new tree and the reported result. *)
Definition insert (m : nat) (t : tree) (k : Z) : tree * bool :=
  if is_empty t then (Leaf [k], true)
  else
    match ins m t k with
    | Done t' f => (t', f)
    | Split l s r => (Inner [(l, s)] r, true)
    end.

(** a whole sequential history from the empty tree: final tree and the reported results *)
Fixpoint insert_all (m : nat) (t : tree) (ks : list Z) : tree * list bool :=
  match ks with
  | [] => (t, [])
  | k :: r => let (t', f) := insert m t k in let (t'', fs) := insert_all m t' r in (t'', f :: fs)
  end.

(** Sorted-list specification of set insertion (used only in statements). *)
Fixpoint sinsert (k : Z) (l : list Z) : list Z :=
  match l with
  | [] => [k]
  | x :: r => if k <? x then k :: l else if k =? x then l else x :: sinsert k r
  end.

(** Specification of the results reported by a history of insertions: an insertion reports
    success iff its key is neither in the initial set nor inserted earlier in the history. *)
Definition memz (k : Z) (l : list Z) : bool := existsb (Z.eqb k) l.
Fixpoint fresh_flags (seen : list Z) (ks : list Z) : list bool :=
  match ks with
  | [] => []
  | k :: r => negb (memz k seen) :: fresh_flags (k :: seen) r
  end.
(** how often the insertion of key [x] reported success in a history *)
Definition successes (x : Z) (ks : list Z) (flags : list bool) : nat :=
  length (filter (fun p : Z * bool => (fst p =? x) && snd p) (combine ks flags)).

(** Sorted-list specification of set removal (statements about erase steps). *)
Definition sremove (k : Z) (l : list Z) : list Z := filter (fun x => negb (x =? k)) l.

(** * Operation hints
    [btree::find/lower_bound/upper_bound] with [operation_hints] start the descent at a cached
    node when [covers] ([coversUpperBound] for upper_bound) accepts it instead of at the root. *)
Definition node_keys (t : tree) : list Z :=
  match t with Leaf ks => ks | Inner cs _ => map snd cs end.

(** [btree::covers] for sets: node not empty, !(k < keys[0]) and !(keys[n-1] < k) *)
Definition covers (h : tree) (k : Z) : bool :=
  match node_keys h with
  | [] => false
  | x :: r => negb (k <? x) && negb (List.last r x <? k)
  end.
(** [btree::coversUpperBound]: !(k < keys[0]) and k < keys[n-1] *)
Definition covers_upper (h : tree) (k : Z) : bool :=
  match node_keys h with
  | [] => false
  | x :: r => negb (k <? x) && (k <? List.last r x)
  end.

(** [h] is a node of the tree [t] (the hint caches hold pointers to nodes of the tree) *)
Inductive subtree (h : tree) : tree -> Prop :=
| sub_here : subtree h h
| sub_child cs last c s : In (c, s) cs -> subtree h c -> subtree h (Inner cs last)
| sub_last cs last : subtree h last -> subtree h (Inner cs last).

(** * The implementers' own check, [node::check] of BTree.h (without the pointer links, which
    the dump does not show): numElements <= maxKeys; for a non-first child the separator on the
    left is below keys[0]; for a non-last child keys[n-1] is below the separator on the right;
    node keys ascend; recursively for the children. *)
Definition first_above (lo : option Z) (ks : list Z) : bool :=
  match ks with [] => true | x :: _ => above lo x end.
Definition last_below (ks : list Z) (hi : option Z) : bool :=
  match ks with [] => true | x :: r => below (List.last r x) hi end.

Fixpoint check (mx : nat) (lo hi : option Z) (t : tree) : bool :=
  match t with
  | Leaf ks => Nat.leb (length ks) mx && first_above lo ks && last_below ks hi && asc None None ks
  | Inner cs last =>
      Nat.leb (length cs) mx && first_above lo (map snd cs) && last_below (map snd cs) hi
      && asc None None (map snd cs)
      && (fix go (lo : option Z) (cs : list (tree * Z)) {struct cs} : bool :=
            match cs with
            | [] => check mx lo None last
            | (c, s) :: cs' => check mx lo (Some s) c && go (Some s) cs'
            end) None cs
  end.
