From Coq Require Import List ZArith.
From SV Require Import EqRelDefs.
Import ListNotations.
Local Open Scope Z_scope.
Definition ex_h : list op :=
  [OInsert RA 1 2; OInsert RA 3 4; OInsert RA 5 6; OInsert RA MIN_RAM_SIGNED MAX_RAM_SIGNED;
   OInsert RA 9 9; OSize RA;
   OInsert RA 2 3; OInsert RA 6 MIN_RAM_SIGNED;
   OContains RA 1 4; OContains RA 1 5; OContains RA MAX_RAM_SIGNED 5; OContains RA 77 77; OSize RA; OClasses RA;
   OAnterior RA MIN_RAM_SIGNED; OAntpost RA MAX_RAM_SIGNED 5; OAntpost RA 1 5; OPartition RA 3;
   OInsert RB 4 10; OInsert RB 20 21; OExtend RA; OSize RA; OSize RB; OClasses RA; OClasses RB;
   OInsertAll RA; OSize RA].
Eval vm_compute in (snd (run ex_h)).
Eval vm_compute in (spec_pairs ex_h).
Definition st1 := fst (fst (run [OInsert RA 1 2; OSize RA])).
Eval vm_compute in (snd (antpost_it st1 5 6), snd (contains (fst (antpost_it st1 5 6)) 5 5), snd (size (fst (antpost_it st1 5 6))), snd (iter_all (fst (antpost_it st1 5 6))), snd (anterior_it (fst (antpost_it st1 5 6)) 5)).
Definition st2 := fst (fst (run [OInsert RA MIN_RAM_SIGNED 5; OInsert RA 7 8])).
Eval vm_compute in (snd (lower_bound st2 MIN_RAM_SIGNED MIN_RAM_SIGNED), snd (lower_bound st2 MIN_RAM_SIGNED 5), snd (iter_anterior st2 MIN_RAM_SIGNED)).
