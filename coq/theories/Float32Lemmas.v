(** Proofs about the binary32 model of Float32Defs.v (Souffle's FADD .. F2U, I2F, U2F, FMAX/FMIN and the
    float comparisons of src/interpreter/Engine.cpp on RamDomain bit patterns). The model runs on the
    proof-free operations of Coq's Floats.SpecFloat.
    Part 1 (closed under the global context: only computation on Z / spec_float): closure in the signed
      32-bit range; commutativity of fadd / fmul; associativity and the argument order of std::max with
      NaN / signed zeros fail (refuted with concrete witnesses); comparisons with NaN; bit-level examples.
    Part 2 (tie to Flocq): the model coincides with Flocq's verified BinarySingleNaN operations at
      precision 24 / emax 128 / round to nearest even (bridge lemmas sdec_fdec, senc_u_B2SF, B2SF_f_plus ..),
      hence: the encoding round trips, and each operation is the correctly rounded (format FLT(-149, 24))
      real operation while the result stays below 2^128; comparisons are the real comparisons; int -> float
      is exact up to 2^24 and float -> int truncates toward zero. Part 2 goes through Flocq's B2R and its
      validity proofs, hence depends on the real-number statements assumed by the Coq standard library. *)
From Coq Require Import ZArith Bool Reals Lia Lra Floats.SpecFloat.
From Flocq Require Import Core IEEE754.BinarySingleNaN IEEE754.Binary IEEE754.Bits.
From SV Require Word32Defs.
From SV Require Import Float32Defs.
Local Open Scope Z_scope.

(** * Part 1: computational facts, closed under the global context *)

(** ** 32-bit words *)
Lemma in_s_iff : forall z, Word32Defs.in_s z = true <-> - 2 ^ 31 <= z < 2 ^ 31.
Proof.
  intros z. unfold Word32Defs.in_s, Word32Defs.MIN_S, Word32Defs.MAX_S.
  rewrite andb_true_iff, !Z.leb_le. lia.
Qed.

Lemma wrap_in_s : forall z, Word32Defs.in_s (Word32Defs.wrap z) = true.
Proof.
  intros z. apply in_s_iff. unfold Word32Defs.wrap.
  pose proof (Z.mod_pos_bound (z + 2 ^ 31) (2 ^ 32) eq_refl). lia.
Qed.

Lemma u_wrap : forall z, 0 <= z < 2 ^ 32 -> Word32Defs.u (Word32Defs.wrap z) = z.
Proof.
  intros z Hz. unfold Word32Defs.u, Word32Defs.wrap.
  rewrite Zminus_mod_idemp_l.
  replace (z + 2 ^ 31 - 2 ^ 31) with z by ring.
  apply Z.mod_small; exact Hz.
Qed.

Lemma wrap_u : forall a, Word32Defs.in_s a = true -> Word32Defs.wrap (Word32Defs.u a) = a.
Proof.
  intros a Ha. apply in_s_iff in Ha. unfold Word32Defs.u, Word32Defs.wrap.
  rewrite Zplus_mod_idemp_l.
  rewrite Z.mod_small by lia. ring.
Qed.

Lemma u_range : forall a, 0 <= Word32Defs.u a < 2 ^ 32.
Proof. intros a. unfold Word32Defs.u. apply Z.mod_pos_bound. reflexivity. Qed.

Lemma chk_Some : forall t r, Word32Defs.chk t = Some r -> t = r /\ Word32Defs.in_s r = true.
Proof.
  intros t r. unfold Word32Defs.chk. destruct (Word32Defs.in_s t) eqn:E; intros H.
  - injection H as <-. split; [reflexivity | exact E].
  - discriminate H.
Qed.

(** ** Closure *)
Lemma fenc_in_s : forall x, Word32Defs.in_s (fenc x) = true.
Proof. intros x. apply wrap_in_s. Qed.
Lemma fenc_nan : fenc S754_nan = QNAN.
Proof. vm_compute. reflexivity. Qed.

Lemma fadd_in_s : forall a b, Word32Defs.in_s (fadd a b) = true.
Proof. intros. apply fenc_in_s. Qed.
Lemma fsub_in_s : forall a b, Word32Defs.in_s (fsub a b) = true.
Proof. intros. apply fenc_in_s. Qed.
Lemma fmul_in_s : forall a b, Word32Defs.in_s (fmul a b) = true.
Proof. intros. apply fenc_in_s. Qed.
Lemma fdiv_in_s : forall a b, Word32Defs.in_s (fdiv a b) = true.
Proof. intros. apply fenc_in_s. Qed.
Lemma fneg_in_s : forall a, Word32Defs.in_s (fneg a) = true.
Proof. intros. apply fenc_in_s. Qed.
Lemma i2f_in_s : forall a, Word32Defs.in_s (i2f a) = true.
Proof. intros. apply fenc_in_s. Qed.
Lemma u2f_in_s : forall a, Word32Defs.in_s (u2f a) = true.
Proof. intros. apply fenc_in_s. Qed.

Lemma f2i_in_s : forall a r, f2i a = Some r -> Word32Defs.in_s r = true.
Proof.
  intros a r. unfold f2i. destruct (sf_trunc (sdec a)) as [t|]; intros H.
  - apply chk_Some in H. apply H.
  - discriminate H.
Qed.

Lemma f2u_in_s : forall a r, f2u a = Some r -> Word32Defs.in_s r = true.
Proof.
  intros a r. unfold f2u. destruct (sf_trunc (sdec a)) as [t|]; intros H.
  - destruct ((0 <=? t) && (t <? 2 ^ 32)); [|discriminate H].
    injection H as <-. apply wrap_in_s.
  - discriminate H.
Qed.

Lemma fmax_choice : forall a b, fmax a b = a \/ fmax a b = b.
Proof. intros a b. unfold fmax. destruct (flt a b); [right|left]; reflexivity. Qed.
Lemma fmin_choice : forall a b, fmin a b = a \/ fmin a b = b.
Proof. intros a b. unfold fmin. destruct (flt b a); [right|left]; reflexivity. Qed.

Lemma fmax_in_s : forall a b, Word32Defs.in_s a = true -> Word32Defs.in_s b = true ->
  Word32Defs.in_s (fmax a b) = true.
Proof. intros a b Ha Hb. destruct (fmax_choice a b) as [-> | ->]; assumption. Qed.
Lemma fmin_in_s : forall a b, Word32Defs.in_s a = true -> Word32Defs.in_s b = true ->
  Word32Defs.in_s (fmin a b) = true.
Proof. intros a b Ha Hb. destruct (fmin_choice a b) as [-> | ->]; assumption. Qed.

(** ** Algebra *)
Lemma SFadd_comm : forall x y, SFadd 24 128 x y = SFadd 24 128 y x.
Proof.
  intros [sx|sx| |sx mx ex] [sy|sy| |sy my ey]; try reflexivity.
  - destruct sx, sy; reflexivity.
  - destruct sx, sy; reflexivity.
  - unfold SFadd.
    rewrite (Z.min_comm ey ex).
    rewrite (Z.add_comm (cond_Zopp sy _)).
    reflexivity.
Qed.

Lemma fadd_comm : forall a b, fadd a b = fadd b a.
Proof. intros a b. unfold fadd. rewrite SFadd_comm. reflexivity. Qed.

Lemma SFmul_comm : forall x y, SFmul 24 128 x y = SFmul 24 128 y x.
Proof.
  intros [sx|sx| |sx mx ex] [sy|sy| |sy my ey]; try reflexivity;
    try (destruct sx, sy; reflexivity).
  unfold SFmul.
  rewrite (xorb_comm sy sx), (Pos.mul_comm my mx), (Z.add_comm ey ex).
  reflexivity.
Qed.

Lemma fmul_comm : forall a b, fmul a b = fmul b a.
Proof. intros a b. unfold fmul. rewrite SFmul_comm. reflexivity. Qed.

Theorem fadd_not_associative_refuted :
  exists a b c, Word32Defs.in_s a = true /\ Word32Defs.in_s b = true /\ Word32Defs.in_s c = true /\
    f_is_finite a = true /\ f_is_finite b = true /\ f_is_finite c = true /\
    fadd (fadd a b) c <> fadd a (fadd b c).
Proof.
  exists 0x4b800000, 0x3f800000, 0x3f800000.
  vm_compute. repeat split; try reflexivity. discriminate.
Qed.

Theorem fmax_nan_order_refuted :
  exists a b, Word32Defs.in_s a = true /\ Word32Defs.in_s b = true /\ fmax a b <> fmax b a.
Proof.
  exists QNAN, 0x40a00000.
  vm_compute. repeat split; try reflexivity. discriminate.
Qed.

Theorem fmax_signed_zero_order_refuted :
  exists a b, Word32Defs.in_s a = true /\ Word32Defs.in_s b = true /\
    f_is_nan a = false /\ f_is_nan b = false /\ fmax a b <> fmax b a.
Proof.
  exists 0, (Word32Defs.wrap 0x80000000).
  vm_compute. repeat split; try reflexivity. discriminate.
Qed.

Theorem i2f_rounds_refuted : exists z, Word32Defs.in_s z = true /\ f2i (i2f z) <> Some z.
Proof. exists 16777217. vm_compute. split; [reflexivity | discriminate]. Qed.

(** ** comparisons: NaN, argument order of fmax *)
Lemma flt_nan : forall a b, f_is_nan a = true \/ f_is_nan b = true ->
  flt a b = false /\ fle a b = false /\ feq a b = false.
Proof.
  intros a b. unfold f_is_nan, flt, fle, feq.
  generalize (sdec a) (sdec b). intros x y [H|H].
  - destruct x; try discriminate H. repeat split; reflexivity.
  - destruct y; try discriminate H. destruct x; repeat split; reflexivity.
Qed.

Lemma SFcompare_swap : forall x y,
  SFcompare y x = match SFcompare x y with Some c => Some (CompOpp c) | None => None end.
Proof.
  intros [sx|[]| |[] mx ex] [sy|[]| |[] my ey]; simpl; try reflexivity.
  - rewrite <- (Zcompare_antisym ex ey). destruct (ex ?= ey); try reflexivity.
    simpl. rewrite (Pcompare_antisym mx my). reflexivity.
  - rewrite <- (Zcompare_antisym ex ey). destruct (ex ?= ey); try reflexivity.
    simpl. rewrite (Pcompare_antisym mx my). reflexivity.
Qed.

Lemma SFcompare_not_nan : forall x y, is_nan_SF x = false -> is_nan_SF y = false ->
  exists c, SFcompare x y = Some c.
Proof.
  intros [sx|sx| |sx mx ex] [sy|sy| |sy my ey] Nx Ny;
    try discriminate Nx; try discriminate Ny; eexists; reflexivity.
Qed.

Lemma SFeqb_refl : forall x, SFeqb x x = negb (is_nan_SF x).
Proof.
  intros [sx|[]| |[] mx ex]; try reflexivity; unfold SFeqb, SFcompare;
    rewrite Z.compare_refl, Pos.compare_cont_refl; reflexivity.
Qed.

Lemma SFltb_trichotomy : forall x y, is_nan_SF x = false -> is_nan_SF y = false ->
  (SFltb x y = true /\ SFltb y x = false) \/
  (SFltb x y = false /\ SFltb y x = true) \/
  (SFltb x y = false /\ SFltb y x = false /\ SFeqb x y = true).
Proof.
  intros x y Nx Ny. unfold SFltb, SFeqb.
  rewrite (SFcompare_swap x y).
  destruct (SFcompare_not_nan x y Nx Ny) as [c ->].
  destruct c; simpl; auto.
Qed.

(** Without NaNs [fmax a b] and [fmax b a] are equal *as floats* ([feq]); they can still differ as
    bit patterns (+0 / -0, see [fmax_signed_zero_order_refuted]): that part is what is missing from
    full commutativity. *)
Lemma fmax_comm_no_nan_partial : forall a b, f_is_nan a = false -> f_is_nan b = false ->
  feq (fmax a b) (fmax b a) = true.
Proof.
  intros a b Na Nb. unfold fmax, flt. unfold f_is_nan in Na, Nb.
  destruct (SFltb_trichotomy _ _ Na Nb) as [[E1 E2]|[[E1 E2]|[E1 [E2 E3]]]]; rewrite E1, E2; unfold feq.
  - rewrite SFeqb_refl, Nb. reflexivity.
  - rewrite SFeqb_refl, Na. reflexivity.
  - exact E3.
Qed.

(** ** Examples (bit level, by computation) *)
Example ex_fadd_1_2 : fadd 0x3f800000 0x40000000 = 0x40400000.
Proof. vm_compute. reflexivity. Qed.
Example ex_fadd_2p24 : fadd 0x4b800000 0x3f800000 = 0x4b800000.
Proof. vm_compute. reflexivity. Qed.
Example ex_fdiv_third : fdiv 0x3f800000 0x40400000 = 0x3eaaaaab.
Proof. vm_compute. reflexivity. Qed.
Example ex_i2f_round : i2f 16777217 = 0x4b800000.
Proof. vm_compute. reflexivity. Qed.
Example ex_f2i_trunc : f2i (Word32Defs.wrap 0xbfc00000) = Some (-1).
Proof. vm_compute. reflexivity. Qed.
Example ex_fdiv_zero : fdiv 0x3f800000 0 = 0x7f800000.
Proof. vm_compute. reflexivity. Qed.
Example ex_f2i_undef : f2i 0x4f000000 = None.
Proof. vm_compute. reflexivity. Qed.
Example ex_f2i_nan : f2i QNAN = None.
Proof. vm_compute. reflexivity. Qed.
Example ex_f2u_big : f2u 0x4f000000 = Some (Word32Defs.wrap 0x80000000).
Proof. vm_compute. reflexivity. Qed.
Example ex_f2u_neg : f2u (Word32Defs.wrap 0xbfc00000) = None.
Proof. vm_compute. reflexivity. Qed.
Example ex_fmul : fmul 0x40400000 (Word32Defs.wrap 0xbf000000) = Word32Defs.wrap 0xbfc00000.
Proof. vm_compute. reflexivity. Qed.
Example ex_fsub_inf_inf : fsub 0x7f800000 0x7f800000 = QNAN.
Proof. vm_compute. reflexivity. Qed.
Example ex_fsub_denormal : fsub 0x00800000 0x00000001 = 0x007fffff.
Proof. vm_compute. reflexivity. Qed.
Example ex_fadd_overflow : fadd 0x7f7fffff 0x7f7fffff = 0x7f800000.
Proof. vm_compute. reflexivity. Qed.
Example ex_fmax_nan_left : fmax QNAN 0x40a00000 = QNAN /\ fmax 0x40a00000 QNAN = 0x40a00000.
Proof. vm_compute. split; reflexivity. Qed.

(** instances satisfying the hypotheses of the theorems of this file *)
Example ex_fenc_sdec_hyp :
  Word32Defs.in_s (Word32Defs.wrap 0xbfc00000) = true /\ f_is_nan (Word32Defs.wrap 0xbfc00000) = false /\
  fneg (Word32Defs.wrap 0xbfc00000) = 0x3fc00000.
Proof. vm_compute. repeat split; reflexivity. Qed.
Example ex_fenc_sdec_nan_needed : (* another NaN is not preserved: the no-NaN premise is needed *)
  Word32Defs.in_s 0x7fc00001 = true /\ f_is_nan 0x7fc00001 = true /\ fenc (sdec 0x7fc00001) <> 0x7fc00001.
Proof. vm_compute. repeat split; try reflexivity. discriminate. Qed.
Example ex_f2i_in_s_hyp : f2i 0x4effffff = Some 2147483520.
Proof. vm_compute. reflexivity. Qed.
Example ex_f2u_in_s_hyp : f2u 0x4f7fffff = Some (Word32Defs.wrap 4294967040).
Proof. vm_compute. reflexivity. Qed.
Example ex_fmax_in_s_hyp :
  Word32Defs.in_s 0x3f800000 = true /\ Word32Defs.in_s (Word32Defs.wrap 0xbfc00000) = true /\
  fmax 0x3f800000 (Word32Defs.wrap 0xbfc00000) = 0x3f800000 /\
  fmin 0x3f800000 (Word32Defs.wrap 0xbfc00000) = Word32Defs.wrap 0xbfc00000.
Proof. vm_compute. repeat split; reflexivity. Qed.
Example ex_fmax_no_nan_hyp : f_is_nan 0 = false /\ f_is_nan (Word32Defs.wrap 0x80000000) = false.
Proof. vm_compute. split; reflexivity. Qed.
Example ex_flt_nan_hyp : f_is_nan QNAN = true /\ f_is_nan (Word32Defs.wrap 0xffc00001) = true.
Proof. vm_compute. split; reflexivity. Qed.
Example ex_i2f_exact_hyp : Z.abs (-16777216) <= 2 ^ 24 /\ i2f (-16777216) = Word32Defs.wrap 0xcb800000.
Proof. vm_compute. split; [discriminate | reflexivity]. Qed.
Example ex_i2f_spec_hyp : Word32Defs.in_s 2147483647 = true /\ i2f 2147483647 = 0x4f000000.
Proof. vm_compute. split; reflexivity. Qed.

(** * Part 2: tie to Flocq's verified BinarySingleNaN operations and to real numbers
    (specification side; the proofs below use Flocq's B2R, hence the real-number axioms of the
    Coq standard library) *)

Definition prec32_gt_0 : Prec_gt_0 24 := eq_refl.
Definition prec32_lt_emax : Prec_lt_emax 24 128 := eq_refl.

(** floats with a single NaN, carrying their validity proof *)
Definition f32 : Set := BinarySingleNaN.binary_float 24 128.
Definition fdec (a : Z) : f32 := B2BSN 24 128 (b32_of_bits (Word32Defs.u a)).
Definition fenc_u (x : f32) : Z := bits_of_b32 (BSN2B 24 128 default_nan_pl32 x).
Definition f_plus : f32 -> f32 -> f32 := @BinarySingleNaN.Bplus 24 128 prec32_gt_0 prec32_lt_emax mode_NE.
Definition f_minus : f32 -> f32 -> f32 := @BinarySingleNaN.Bminus 24 128 prec32_gt_0 prec32_lt_emax mode_NE.
Definition f_mult : f32 -> f32 -> f32 := @BinarySingleNaN.Bmult 24 128 prec32_gt_0 prec32_lt_emax mode_NE.
Definition f_div : f32 -> f32 -> f32 := @BinarySingleNaN.Bdiv 24 128 prec32_gt_0 prec32_lt_emax mode_NE.
Definition f_opp : f32 -> f32 := @BinarySingleNaN.Bopp 24 128.
Definition f_of_Z (z : Z) : f32 :=
  BinarySingleNaN.binary_normalize 24 128 prec32_gt_0 prec32_lt_emax mode_NE z 0 false.
Definition f_trunc (x : f32) : option Z :=
  match x with
  | BinarySingleNaN.B754_nan => None
  | BinarySingleNaN.B754_infinity _ => None
  | _ => Some (BinarySingleNaN.Btrunc x)
  end.

(** ** the bridge: the proof-free model computes Flocq's operations *)
Lemma sdec_fdec : forall a, sdec a = BinarySingleNaN.B2SF (fdec a).
Proof.
  intros a. unfold sdec, fdec, b32_of_bits, binary_float_of_bits.
  rewrite B2SF_B2BSN, B2SF_FF2B. reflexivity.
Qed.

Lemma senc_u_B2SF : forall x : f32, senc_u (BinarySingleNaN.B2SF x) = fenc_u x.
Proof.
  intros [s|s| |s m e H]; try reflexivity.
  unfold fenc_u, bits_of_b32, bits_of_binary_float, BSN2B, BinarySingleNaN.B2SF, senc_u.
  change (SpecFloat.emin (23 + 1) (2 ^ (8 - 1))) with (-149).
  replace (e - -149 + 1) with (e + 150) by ring.
  reflexivity.
Qed.

Lemma fenc_B2SF : forall x : f32, fenc (BinarySingleNaN.B2SF x) = Word32Defs.wrap (fenc_u x).
Proof. intros x. unfold fenc. rewrite senc_u_B2SF. reflexivity. Qed.

Lemma round_nearest_even_equiv : forall s m l,
  round_nearest_even m l = choice_mode mode_NE s m l.
Proof.
  intros s m l. destruct l as [|c]; [reflexivity|].
  destruct c; try reflexivity.
  simpl. unfold Round.cond_incr. destruct (Z.even m); reflexivity.
Qed.

Lemma binary_round_aux_equiv : forall sx mx ex lx,
  SpecFloat.binary_round_aux 24 128 sx mx ex lx
  = BinarySingleNaN.binary_round_aux 24 128 mode_NE sx mx ex lx.
Proof.
  intros sx mx ex lx.
  unfold SpecFloat.binary_round_aux, BinarySingleNaN.binary_round_aux.
  destruct (shr_fexp 24 128 mx ex lx) as [mrs' e'].
  rewrite (round_nearest_even_equiv sx).
  reflexivity.
Qed.

Lemma binary_round_equiv : forall s m e,
  SpecFloat.binary_round 24 128 s m e = BinarySingleNaN.binary_round 24 128 mode_NE s m e.
Proof.
  intros s m e.
  unfold SpecFloat.binary_round, BinarySingleNaN.binary_round, BinarySingleNaN.shl_align_fexp.
  destruct (shl_align m e (fexp 24 128 (Z.pos (digits2_pos m) + e))) as [mz ez].
  apply binary_round_aux_equiv.
Qed.

Lemma binary_normalize_equiv : forall m e szero,
  SpecFloat.binary_normalize 24 128 m e szero
  = BinarySingleNaN.B2SF
      (BinarySingleNaN.binary_normalize 24 128 prec32_gt_0 prec32_lt_emax mode_NE m e szero).
Proof.
  intros [|p|p] e szero.
  - reflexivity.
  - simpl. rewrite BinarySingleNaN.B2SF_SF2B. apply binary_round_equiv.
  - simpl. rewrite BinarySingleNaN.B2SF_SF2B. apply binary_round_equiv.
Qed.

Lemma B2SF_f_plus : forall x y : f32,
  BinarySingleNaN.B2SF (f_plus x y) = SFadd 24 128 (BinarySingleNaN.B2SF x) (BinarySingleNaN.B2SF y).
Proof.
  intros [sx|sx| |sx mx ex Hx] [sy|sy| |sy my ey Hy]; try reflexivity;
    try (simpl; destruct (Bool.eqb sx sy); reflexivity).
  symmetry. apply binary_normalize_equiv.
Qed.

Lemma B2SF_f_minus : forall x y : f32,
  BinarySingleNaN.B2SF (f_minus x y) = SFsub 24 128 (BinarySingleNaN.B2SF x) (BinarySingleNaN.B2SF y).
Proof.
  intros [sx|sx| |sx mx ex Hx] [sy|sy| |sy my ey Hy]; try reflexivity;
    try (simpl; destruct (Bool.eqb sx (negb sy)); reflexivity).
  symmetry. unfold f_minus, BinarySingleNaN.Bminus, Fplus_naive.
  cbn [BinarySingleNaN.B2SF SFsub]. unfold Z.sub.
  rewrite <- cond_Zopp_negb.
  apply binary_normalize_equiv.
Qed.

Lemma B2SF_f_mult : forall x y : f32,
  BinarySingleNaN.B2SF (f_mult x y) = SFmul 24 128 (BinarySingleNaN.B2SF x) (BinarySingleNaN.B2SF y).
Proof.
  intros [sx|sx| |sx mx ex Hx] [sy|sy| |sy my ey Hy]; try reflexivity.
  unfold f_mult, BinarySingleNaN.Bmult. rewrite BinarySingleNaN.B2SF_SF2B.
  symmetry. apply binary_round_aux_equiv.
Qed.

Lemma B2SF_f_div : forall x y : f32,
  BinarySingleNaN.B2SF (f_div x y) = SFdiv 24 128 (BinarySingleNaN.B2SF x) (BinarySingleNaN.B2SF y).
Proof.
  intros [sx|sx| |sx mx ex Hx] [sy|sy| |sy my ey Hy]; try reflexivity.
  unfold f_div, BinarySingleNaN.Bdiv. rewrite BinarySingleNaN.B2SF_SF2B.
  cbn [BinarySingleNaN.B2SF SFdiv].
  destruct (SFdiv_core_binary 24 128 (Z.pos mx) ex (Z.pos my) ey) as [[mz ez] lz].
  symmetry. apply binary_round_aux_equiv.
Qed.

Lemma B2SF_f_opp : forall x : f32,
  BinarySingleNaN.B2SF (f_opp x) = SFopp (BinarySingleNaN.B2SF x).
Proof. intros [s|s| |s m e H]; reflexivity. Qed.

Lemma B2SF_f_of_Z : forall z, BinarySingleNaN.B2SF (f_of_Z z) = sf_of_Z z.
Proof. intros z. symmetry. apply binary_normalize_equiv. Qed.

Lemma sf_trunc_B2SF : forall x : f32, sf_trunc (BinarySingleNaN.B2SF x) = f_trunc x.
Proof. intros [s|s| |s m e H]; reflexivity. Qed.

(** the operations on bit patterns, seen through the bridge *)
Lemma fadd_B : forall a b, fadd a b = fenc (BinarySingleNaN.B2SF (f_plus (fdec a) (fdec b))).
Proof. intros. unfold fadd. rewrite !sdec_fdec, B2SF_f_plus. reflexivity. Qed.
Lemma fsub_B : forall a b, fsub a b = fenc (BinarySingleNaN.B2SF (f_minus (fdec a) (fdec b))).
Proof. intros. unfold fsub. rewrite !sdec_fdec, B2SF_f_minus. reflexivity. Qed.
Lemma fmul_B : forall a b, fmul a b = fenc (BinarySingleNaN.B2SF (f_mult (fdec a) (fdec b))).
Proof. intros. unfold fmul. rewrite !sdec_fdec, B2SF_f_mult. reflexivity. Qed.
Lemma fdiv_B : forall a b, fdiv a b = fenc (BinarySingleNaN.B2SF (f_div (fdec a) (fdec b))).
Proof. intros. unfold fdiv. rewrite !sdec_fdec, B2SF_f_div. reflexivity. Qed.
Lemma fneg_B : forall a, fneg a = fenc (BinarySingleNaN.B2SF (f_opp (fdec a))).
Proof. intros. unfold fneg. rewrite sdec_fdec, B2SF_f_opp. reflexivity. Qed.
Lemma i2f_B : forall z, i2f z = fenc (BinarySingleNaN.B2SF (f_of_Z z)).
Proof. intros. unfold i2f. rewrite B2SF_f_of_Z. reflexivity. Qed.
Lemma u2f_B : forall a, u2f a = fenc (BinarySingleNaN.B2SF (f_of_Z (Word32Defs.u a))).
Proof. intros. unfold u2f. rewrite B2SF_f_of_Z. reflexivity. Qed.
Lemma flt_B : forall a b, flt a b = BinarySingleNaN.Bltb (fdec a) (fdec b).
Proof. intros. unfold flt, BinarySingleNaN.Bltb. rewrite !sdec_fdec. reflexivity. Qed.
Lemma fle_B : forall a b, fle a b = BinarySingleNaN.Bleb (fdec a) (fdec b).
Proof. intros. unfold fle, BinarySingleNaN.Bleb. rewrite !sdec_fdec. reflexivity. Qed.
Lemma feq_B : forall a b, feq a b = BinarySingleNaN.Beqb (fdec a) (fdec b).
Proof. intros. unfold feq, BinarySingleNaN.Beqb. rewrite !sdec_fdec. reflexivity. Qed.
Lemma f_is_nan_B : forall a, f_is_nan a = BinarySingleNaN.is_nan (fdec a).
Proof. intros. unfold f_is_nan. rewrite sdec_fdec. apply is_nan_SF_B2SF. Qed.
Lemma f_is_finite_B : forall a, f_is_finite a = BinarySingleNaN.is_finite (fdec a).
Proof. intros. unfold f_is_finite. rewrite sdec_fdec. apply is_finite_SF_B2SF. Qed.
Lemma f2i_B : forall a, f2i a = match f_trunc (fdec a) with Some t => Word32Defs.chk t | None => None end.
Proof. intros. unfold f2i. rewrite sdec_fdec, sf_trunc_B2SF. reflexivity. Qed.
Lemma f2u_B : forall a, f2u a =
  match f_trunc (fdec a) with
  | Some t => if (0 <=? t) && (t <? 2 ^ 32) then Some (Word32Defs.wrap t) else None
  | None => None
  end.
Proof. intros. unfold f2u. rewrite sdec_fdec, sf_trunc_B2SF. reflexivity. Qed.

(** ** round trips of the encoding *)
Lemma fenc_u_range : forall x, 0 <= fenc_u x < 2 ^ 32.
Proof.
  intros x. unfold fenc_u, bits_of_b32.
  exact (bits_of_binary_float_range 23 8 eq_refl eq_refl (BSN2B 24 128 default_nan_pl32 x)).
Qed.

Lemma fdec_fenc : forall x : f32, fdec (fenc (BinarySingleNaN.B2SF x)) = x.
Proof.
  intros x. rewrite fenc_B2SF. unfold fdec. rewrite u_wrap by apply fenc_u_range.
  unfold fenc_u, b32_of_bits, bits_of_b32.
  rewrite binary_float_of_bits_of_binary_float.
  apply B2BSN_BSN2B.
Qed.

Lemma sdec_fenc : forall x : f32, sdec (fenc (BinarySingleNaN.B2SF x)) = BinarySingleNaN.B2SF x.
Proof. intros x. rewrite sdec_fdec, fdec_fenc. reflexivity. Qed.

Lemma BSN2B_B2BSN_not_nan :
  forall nan (y : Binary.binary_float 24 128),
    Binary.is_nan 24 128 y = false -> BSN2B 24 128 nan (B2BSN 24 128 y) = y.
Proof. intros nan [s|s|s pl H|s m e H] Hn; try reflexivity. discriminate Hn. Qed.

Lemma fenc_sdec : forall a, Word32Defs.in_s a = true -> f_is_nan a = false -> fenc (sdec a) = a.
Proof.
  intros a Ha Hn. rewrite f_is_nan_B in Hn. unfold fdec in Hn. rewrite is_nan_B2BSN in Hn.
  rewrite sdec_fdec, fenc_B2SF. unfold fenc_u, fdec.
  rewrite BSN2B_B2BSN_not_nan by exact Hn.
  unfold bits_of_b32, b32_of_bits.
  rewrite bits_of_binary_float_of_bits by (apply u_range).
  apply wrap_u, Ha.
Qed.

Lemma fneg_involutive : forall a, Word32Defs.in_s a = true -> f_is_nan a = false -> fneg (fneg a) = a.
Proof.
  intros a Ha Hn. rewrite (fneg_B (fneg a)), (fneg_B a), fdec_fenc. unfold f_opp.
  rewrite BinarySingleNaN.Bopp_involutive. rewrite <- sdec_fdec. apply fenc_sdec; assumption.
Qed.

(** ** specification against real numbers *)
Definition fval (a : Z) : R := BinarySingleNaN.B2R (fdec a).
Definition rnd32 (r : R) : R := round radix2 (FLT_exp (-149) 24) ZnearestE r.

Lemma rnd32_eq : forall r,
  round radix2 (SpecFloat.fexp 24 128) (round_mode mode_NE) r = rnd32 r.
Proof. reflexivity. Qed.

Lemma fadd_spec : forall a b, f_is_finite a = true -> f_is_finite b = true ->
  (Rabs (rnd32 (fval a + fval b)) < bpow radix2 128)%R ->
  fval (fadd a b) = rnd32 (fval a + fval b) /\ f_is_finite (fadd a b) = true.
Proof.
  intros a b Fa Fb H. rewrite f_is_finite_B in *. rewrite fadd_B. unfold fval in *. rewrite fdec_fenc.
  generalize (BinarySingleNaN.Bplus_correct 24 128 prec32_gt_0 prec32_lt_emax mode_NE _ _ Fa Fb).
  rewrite rnd32_eq. rewrite Rlt_bool_true by exact H.
  intros [H1 [H2 _]]. split; assumption.
Qed.

(** overflow: the rounded sum does not fit, the result is an infinity (neither finite nor NaN) *)
Lemma fadd_overflow_spec : forall a b, f_is_finite a = true -> f_is_finite b = true ->
  (bpow radix2 128 <= Rabs (rnd32 (fval a + fval b)))%R ->
  f_is_finite (fadd a b) = false /\ f_is_nan (fadd a b) = false.
Proof.
  intros a b Fa Fb H. rewrite f_is_finite_B in *. rewrite f_is_nan_B. rewrite fadd_B.
  unfold fval in *. rewrite fdec_fenc.
  generalize (BinarySingleNaN.Bplus_correct 24 128 prec32_gt_0 prec32_lt_emax mode_NE _ _ Fa Fb).
  rewrite rnd32_eq. rewrite Rlt_bool_false by exact H.
  intros [H1 _]. unfold f_plus.
  rewrite <- BinarySingleNaN.is_finite_SF_B2SF, <- BinarySingleNaN.is_nan_SF_B2SF, H1.
  split; reflexivity.
Qed.

Lemma fsub_spec : forall a b, f_is_finite a = true -> f_is_finite b = true ->
  (Rabs (rnd32 (fval a - fval b)) < bpow radix2 128)%R ->
  fval (fsub a b) = rnd32 (fval a - fval b) /\ f_is_finite (fsub a b) = true.
Proof.
  intros a b Fa Fb H. rewrite f_is_finite_B in *. rewrite fsub_B. unfold fval in *. rewrite fdec_fenc.
  generalize (BinarySingleNaN.Bminus_correct 24 128 prec32_gt_0 prec32_lt_emax mode_NE _ _ Fa Fb).
  rewrite rnd32_eq. rewrite Rlt_bool_true by exact H.
  intros [H1 [H2 _]]. split; assumption.
Qed.

Lemma fmul_spec : forall a b, f_is_finite a = true -> f_is_finite b = true ->
  (Rabs (rnd32 (fval a * fval b)) < bpow radix2 128)%R ->
  fval (fmul a b) = rnd32 (fval a * fval b) /\ f_is_finite (fmul a b) = true.
Proof.
  intros a b Fa Fb H. rewrite f_is_finite_B in *. rewrite fmul_B. unfold fval in *. rewrite fdec_fenc.
  generalize (BinarySingleNaN.Bmult_correct 24 128 prec32_gt_0 prec32_lt_emax mode_NE (fdec a) (fdec b)).
  rewrite rnd32_eq. rewrite Rlt_bool_true by exact H.
  intros [H1 [H2 _]]. split; [exact H1|]. unfold f_mult. rewrite H2, Fa, Fb. reflexivity.
Qed.

Lemma fdiv_spec : forall a b, f_is_finite a = true -> f_is_finite b = true ->
  fval b <> 0%R ->
  (Rabs (rnd32 (fval a / fval b)) < bpow radix2 128)%R ->
  fval (fdiv a b) = rnd32 (fval a / fval b) /\ f_is_finite (fdiv a b) = true.
Proof.
  intros a b Fa Fb Hb H. rewrite f_is_finite_B in *. rewrite fdiv_B. unfold fval in *. rewrite fdec_fenc.
  generalize (BinarySingleNaN.Bdiv_correct 24 128 prec32_gt_0 prec32_lt_emax mode_NE (fdec a) (fdec b) Hb).
  rewrite rnd32_eq. rewrite Rlt_bool_true by exact H.
  intros [H1 [H2 _]]. split; [exact H1|]. unfold f_div. rewrite H2. exact Fa.
Qed.

Lemma flt_spec : forall a b, f_is_finite a = true -> f_is_finite b = true ->
  flt a b = Rlt_bool (fval a) (fval b).
Proof.
  intros a b Fa Fb. rewrite f_is_finite_B in *. rewrite flt_B.
  apply BinarySingleNaN.Bltb_correct; assumption.
Qed.
Lemma fle_spec : forall a b, f_is_finite a = true -> f_is_finite b = true ->
  fle a b = Rle_bool (fval a) (fval b).
Proof.
  intros a b Fa Fb. rewrite f_is_finite_B in *. rewrite fle_B.
  apply BinarySingleNaN.Bleb_correct; assumption.
Qed.
Lemma feq_spec : forall a b, f_is_finite a = true -> f_is_finite b = true ->
  feq a b = Req_bool (fval a) (fval b).
Proof.
  intros a b Fa Fb. rewrite f_is_finite_B in *. rewrite feq_B.
  apply BinarySingleNaN.Beqb_correct; assumption.
Qed.

(** ** integer conversions *)
Lemma F2R_exp0 : forall z, F2R (Float radix2 z 0) = IZR z.
Proof. intros z. unfold F2R. simpl. apply Rmult_1_r. Qed.

Lemma bpow_IZR : forall e, 0 <= e -> bpow radix2 e = IZR (2 ^ e).
Proof. intros e He. symmetry. exact (IZR_Zpower radix2 e He). Qed.

Lemma valid_flt32 : Valid_exp (FLT_exp (-149) 24).
Proof. apply FLT_exp_valid. reflexivity. Qed.

Lemma Rabs_IZR_le : forall z n, Z.abs z <= n -> (Rabs (IZR z) <= IZR n)%R.
Proof. intros z n H. rewrite <- abs_IZR. apply IZR_le, H. Qed.

Lemma small_int_format : forall z, Z.abs z <= 2 ^ 24 ->
  generic_format radix2 (FLT_exp (-149) 24) (IZR z).
Proof.
  intros z Hz.
  apply generic_format_abs_inv. rewrite <- abs_IZR.
  destruct (Z.eq_dec (Z.abs z) (2 ^ 24)) as [E|E].
  - rewrite E. rewrite <- bpow_IZR by lia.
    apply generic_format_bpow. unfold FLT_exp. lia.
  - apply generic_format_FLT.
    apply (FLT_spec radix2 (-149) 24 _ (Float radix2 (Z.abs z) 0)).
    + symmetry. apply F2R_exp0.
    + simpl. change (Z.pow_pos 2 24) with (2 ^ 24). lia.
    + simpl. lia.
Qed.

Lemma rnd32_no_overflow : forall r, (Rabs r <= bpow radix2 127)%R ->
  (Rabs (rnd32 r) < bpow radix2 128)%R.
Proof.
  intros r Hr. apply Rle_lt_trans with (bpow radix2 127).
  - unfold rnd32. apply abs_round_le_generic.
    + apply valid_flt32.
    + apply valid_rnd_N.
    + apply generic_format_bpow. unfold FLT_exp. lia.
    + exact Hr.
  - apply bpow_lt. lia.
Qed.

Lemma int32_no_overflow : forall z, Z.abs z <= 2 ^ 32 ->
  (Rabs (rnd32 (IZR z)) < bpow radix2 128)%R.
Proof.
  intros z Hz. apply rnd32_no_overflow. rewrite bpow_IZR by lia. apply Rabs_IZR_le. lia.
Qed.

Lemma f_of_Z_spec : forall z, Z.abs z <= 2 ^ 32 ->
  BinarySingleNaN.B2R (f_of_Z z) = rnd32 (IZR z) /\ BinarySingleNaN.is_finite (f_of_Z z) = true.
Proof.
  intros z Hz.
  generalize (BinarySingleNaN.binary_normalize_correct 24 128 prec32_gt_0 prec32_lt_emax mode_NE z 0 false).
  cbv zeta. rewrite F2R_exp0, rnd32_eq.
  rewrite Rlt_bool_true by (apply int32_no_overflow, Hz).
  intros [H1 [H2 _]]. split; assumption.
Qed.

Lemma i2f_spec : forall z, Word32Defs.in_s z = true -> fval (i2f z) = rnd32 (IZR z).
Proof.
  intros z Hz. apply in_s_iff in Hz. unfold fval. rewrite i2f_B, fdec_fenc.
  apply f_of_Z_spec. lia.
Qed.

Lemma i2f_finite : forall z, Word32Defs.in_s z = true -> f_is_finite (i2f z) = true.
Proof.
  intros z Hz. apply in_s_iff in Hz. rewrite f_is_finite_B, i2f_B, fdec_fenc.
  apply f_of_Z_spec. lia.
Qed.

Lemma u2f_spec : forall a,
  fval (u2f a) = rnd32 (IZR (Word32Defs.u a)) /\ f_is_finite (u2f a) = true.
Proof.
  intros a. rewrite f_is_finite_B. unfold fval. rewrite u2f_B, fdec_fenc.
  apply f_of_Z_spec. pose proof (u_range a). lia.
Qed.

Lemma i2f_exact : forall z, Z.abs z <= 2 ^ 24 ->
  fval (i2f z) = IZR z /\ f_is_finite (i2f z) = true.
Proof.
  intros z Hz. rewrite f_is_finite_B. unfold fval. rewrite i2f_B, fdec_fenc.
  destruct (f_of_Z_spec z) as [H1 H2]; [lia|]. split; [|exact H2].
  rewrite H1. unfold rnd32. apply round_generic.
  - apply valid_rnd_N.
  - apply small_int_format, Hz.
Qed.

Lemma f_trunc_finite : forall x : f32, BinarySingleNaN.is_finite x = true ->
  f_trunc x = Some (BinarySingleNaN.Btrunc x).
Proof. intros [s|s| |s m e H] F; try discriminate F; reflexivity. Qed.

Lemma f_trunc_Some : forall (x : f32) t, f_trunc x = Some t ->
  BinarySingleNaN.is_finite x = true /\ t = BinarySingleNaN.Btrunc x.
Proof.
  intros [s|s| |s m e H] t E; try discriminate E; injection E as <-; split; reflexivity.
Qed.

Lemma trunc_IZR : forall z, round radix2 (FIX_exp 0) Ztrunc (IZR z) = IZR z.
Proof.
  intros z. apply round_generic.
  - apply valid_rnd_ZR.
  - apply generic_format_FIX. apply (FIX_spec radix2 0 _ (Float radix2 z 0)).
    + symmetry. apply F2R_exp0.
    + reflexivity.
Qed.

Lemma f2i_i2f : forall z, Z.abs z <= 2 ^ 24 -> f2i (i2f z) = Some z.
Proof.
  intros z Hz. destruct (i2f_exact z Hz) as [H1 H2].
  rewrite f2i_B. unfold fval in H1. rewrite f_is_finite_B in H2.
  rewrite (f_trunc_finite _ H2).
  assert (E : BinarySingleNaN.Btrunc (fdec (i2f z)) = z).
  { apply eq_IZR. rewrite BinarySingleNaN.Btrunc_correct, H1. apply trunc_IZR.
    exact prec32_lt_emax. }
  rewrite E. unfold Word32Defs.chk.
  replace (Word32Defs.in_s z) with true; [reflexivity|].
  symmetry. apply in_s_iff. lia.
Qed.

Lemma f2i_spec : forall a r, f2i a = Some r <->
  (f_is_finite a = true /\ IZR r = round radix2 (FIX_exp 0) Ztrunc (fval a) /\ Word32Defs.in_s r = true).
Proof.
  intros a r. rewrite f2i_B, f_is_finite_B. unfold fval. split.
  - destruct (f_trunc (fdec a)) as [t|] eqn:E; [|discriminate].
    intros H. apply chk_Some in H. destruct H as [<- Hr].
    apply f_trunc_Some in E. destruct E as [F ->].
    repeat split; try assumption.
    apply BinarySingleNaN.Btrunc_correct. exact prec32_lt_emax.
  - intros [F [H Hr]]. rewrite (f_trunc_finite _ F).
    rewrite <- BinarySingleNaN.Btrunc_correct in H by exact prec32_lt_emax.
    apply eq_IZR in H. rewrite <- H. unfold Word32Defs.chk. rewrite Hr. reflexivity.
Qed.

Lemma f2u_spec : forall a r, f2u a = Some r <->
  exists t, f_is_finite a = true /\ IZR t = round radix2 (FIX_exp 0) Ztrunc (fval a) /\
            0 <= t < 2 ^ 32 /\ r = Word32Defs.wrap t.
Proof.
  intros a r. rewrite f2u_B, f_is_finite_B. unfold fval. split.
  - destruct (f_trunc (fdec a)) as [t|] eqn:E; [|discriminate].
    destruct ((0 <=? t) && (t <? 2 ^ 32)) eqn:B; [|discriminate].
    intros H. injection H as <-. exists t.
    apply f_trunc_Some in E. destruct E as [F ->].
    apply andb_true_iff in B. destruct B as [B1 B2].
    apply Z.leb_le in B1. apply Z.ltb_lt in B2.
    repeat split; try assumption.
    apply BinarySingleNaN.Btrunc_correct. exact prec32_lt_emax.
  - intros [t [F [H [[B1 B2] ->]]]]. rewrite (f_trunc_finite _ F).
    rewrite <- BinarySingleNaN.Btrunc_correct in H by exact prec32_lt_emax.
    apply eq_IZR in H. rewrite <- H.
    apply Z.leb_le in B1. apply Z.ltb_lt in B2. rewrite B1, B2. reflexivity.
Qed.

(** ** the real-number premises of fadd_spec .. fdiv_spec, flt_spec .. hold for 1.0f = i2f 1, 3.0f = i2f 3 *)
Example ex_arith_spec_hyp :
  let a := 0x3f800000 in let b := 0x40400000 in
  f_is_finite a = true /\ f_is_finite b = true /\ fval b <> 0%R /\
  (Rabs (rnd32 (fval a + fval b)) < bpow radix2 128)%R /\
  (Rabs (rnd32 (fval a - fval b)) < bpow radix2 128)%R /\
  (Rabs (rnd32 (fval a * fval b)) < bpow radix2 128)%R /\
  (Rabs (rnd32 (fval a / fval b)) < bpow radix2 128)%R.
Proof.
  intros a b.
  assert (Ea : a = i2f 1) by (vm_compute; reflexivity).
  assert (Eb : b = i2f 3) by (vm_compute; reflexivity).
  destruct (i2f_exact 1) as [Va Fa]; [vm_compute; discriminate|].
  destruct (i2f_exact 3) as [Vb Fb]; [vm_compute; discriminate|].
  rewrite <- Ea in Va, Fa. rewrite <- Eb in Vb, Fb. rewrite Va, Vb.
  assert (B : (4 <= bpow radix2 127)%R).
  { rewrite bpow_IZR by lia. apply (IZR_le 4). lia. }
  repeat split; try assumption; try (apply rnd32_no_overflow, Rabs_le; lra).
  lra.
Qed.

Example ex_fadd_overflow_hyp :
  let a := 0x7f7fffff in
  f_is_finite a = true /\ (bpow radix2 128 <= Rabs (rnd32 (fval a + fval a)))%R.
Proof.
  intros a. split; [vm_compute; reflexivity|].
  assert (V : fval a = (16777215 * bpow radix2 104)%R).
  { unfold fval. rewrite <- BinarySingleNaN.SF2R_B2SF. rewrite <- sdec_fdec.
    replace (sdec a) with (S754_finite false 16777215 104) by (vm_compute; reflexivity).
    reflexivity. }
  rewrite V.
  apply Rle_trans with (2 := Rle_abs _).
  unfold rnd32. apply round_ge_generic.
  - apply valid_flt32.
  - apply valid_rnd_N.
  - apply generic_format_bpow. unfold FLT_exp. lia.
  - change 128 with (24 + 104). rewrite bpow_plus, (bpow_IZR 24) by lia.
    change (2 ^ 24) with 16777216.
    pose proof (bpow_gt_0 radix2 104). lra.
Qed.

(** negation flips the sign of the value (NaN has value 0 by convention of [B2R]) *)
Lemma fneg_spec : forall a, fval (fneg a) = (- fval a)%R /\ f_is_nan (fneg a) = f_is_nan a /\
  f_is_finite (fneg a) = f_is_finite a.
Proof.
  intros a. rewrite !f_is_nan_B, !f_is_finite_B. unfold fval. rewrite fneg_B, fdec_fenc. unfold f_opp.
  split; [apply BinarySingleNaN.B2R_Bopp|].
  split; [apply BinarySingleNaN.is_nan_Bopp | apply BinarySingleNaN.is_finite_Bopp].
Qed.

(** * Family statements (used verbatim by Properties_C24.v) *)

Theorem float_closure_family : forall a b, Word32Defs.in_s a = true -> Word32Defs.in_s b = true ->
  List.Forall (fun r => Word32Defs.in_s r = true)
    (fadd a b :: fsub a b :: fmul a b :: fdiv a b :: fneg a :: i2f a :: u2f a :: fmax a b :: fmin a b :: nil) /\
  (forall r, f2i a = Some r -> Word32Defs.in_s r = true) /\
  (forall r, f2u a = Some r -> Word32Defs.in_s r = true).
Proof.
  intros a b Ha Hb. split; [|split; [apply f2i_in_s | apply f2u_in_s]].
  repeat constructor.
  - apply fadd_in_s. - apply fsub_in_s. - apply fmul_in_s. - apply fdiv_in_s. - apply fneg_in_s.
  - apply i2f_in_s. - apply u2f_in_s. - apply fmax_in_s; assumption. - apply fmin_in_s; assumption.
Qed.

Theorem float_arith_family : forall a b, f_is_finite a = true -> f_is_finite b = true ->
  ((Rabs (rnd32 (fval a + fval b)) < bpow radix2 128)%R ->
     fval (fadd a b) = rnd32 (fval a + fval b) /\ f_is_finite (fadd a b) = true) /\
  ((Rabs (rnd32 (fval a - fval b)) < bpow radix2 128)%R ->
     fval (fsub a b) = rnd32 (fval a - fval b) /\ f_is_finite (fsub a b) = true) /\
  ((Rabs (rnd32 (fval a * fval b)) < bpow radix2 128)%R ->
     fval (fmul a b) = rnd32 (fval a * fval b) /\ f_is_finite (fmul a b) = true) /\
  (fval b <> 0%R -> (Rabs (rnd32 (fval a / fval b)) < bpow radix2 128)%R ->
     fval (fdiv a b) = rnd32 (fval a / fval b) /\ f_is_finite (fdiv a b) = true) /\
  ((bpow radix2 128 <= Rabs (rnd32 (fval a + fval b)))%R ->
     f_is_finite (fadd a b) = false /\ f_is_nan (fadd a b) = false).
Proof.
  intros a b Fa Fb.
  split; [apply fadd_spec; assumption|]. split; [apply fsub_spec; assumption|].
  split; [apply fmul_spec; assumption|]. split; [apply fdiv_spec; assumption|].
  apply fadd_overflow_spec; assumption.
Qed.

Theorem float_comm_family : forall a b, fadd a b = fadd b a /\ fmul a b = fmul b a.
Proof. intros a b. split; [apply fadd_comm | apply fmul_comm]. Qed.

Theorem float_compare_family : forall a b,
  (f_is_finite a = true -> f_is_finite b = true ->
     flt a b = Rlt_bool (fval a) (fval b) /\ fle a b = Rle_bool (fval a) (fval b) /\
     feq a b = Req_bool (fval a) (fval b)) /\
  (f_is_nan a = true \/ f_is_nan b = true -> flt a b = false /\ fle a b = false /\ feq a b = false).
Proof.
  intros a b. split; [|apply flt_nan].
  intros Fa Fb. split; [apply flt_spec; assumption|]. split; [apply fle_spec | apply feq_spec]; assumption.
Qed.

Theorem float_minmax_family : forall a b,
  (fmax a b = a \/ fmax a b = b) /\ (fmin a b = a \/ fmin a b = b) /\
  (flt (fmax a b) a = false /\ flt (fmax a b) b = false) /\
  (flt a (fmin a b) = false /\ flt b (fmin a b) = false) /\
  (f_is_nan a = false -> f_is_nan b = false -> feq (fmax a b) (fmax b a) = true).
Proof.
  intros a b. split; [apply fmax_choice|]. split; [apply fmin_choice|].
  assert (Irr : forall x, flt x x = false).
  { intros x. unfold flt, SFltb. generalize (sdec x). intros y.
    destruct (is_nan_SF y) eqn:N.
    - destruct y; try discriminate N. reflexivity.
    - pose proof (SFeqb_refl y) as R. rewrite N in R. unfold SFeqb in R.
      destruct (SFcompare y y) as [[| |]|]; try discriminate R. reflexivity. }
  assert (Asym : forall x y, flt x y = true -> flt y x = false).
  { intros x y. unfold flt, SFltb. rewrite (SFcompare_swap (sdec x) (sdec y)).
    destruct (SFcompare (sdec x) (sdec y)) as [[| |]|]; simpl; intros H; try discriminate H; reflexivity. }
  split; [|split; [|apply fmax_comm_no_nan_partial]].
  - unfold fmax. destruct (flt a b) eqn:E.
    + split; [apply Asym, E | apply Irr].
    + split; [apply Irr | exact E].
  - unfold fmin. destruct (flt b a) eqn:E.
    + split; [apply Asym, E | apply Irr].
    + split; [apply Irr | exact E].
Qed.

Theorem float_of_int_family : forall z, Word32Defs.in_s z = true ->
  fval (i2f z) = rnd32 (IZR z) /\ f_is_finite (i2f z) = true /\
  fval (u2f z) = rnd32 (IZR (Word32Defs.u z)) /\ f_is_finite (u2f z) = true /\
  (Z.abs z <= 2 ^ 24 -> fval (i2f z) = IZR z /\ f2i (i2f z) = Some z).
Proof.
  intros z Hz. split; [apply i2f_spec, Hz|]. split; [apply i2f_finite, Hz|].
  destruct (u2f_spec z) as [H1 H2]. split; [exact H1|]. split; [exact H2|].
  intros Hs. split; [apply i2f_exact, Hs | apply f2i_i2f, Hs].
Qed.

Theorem float_to_int_family : forall a r,
  (f2i a = Some r <->
     (f_is_finite a = true /\ IZR r = round radix2 (FIX_exp 0) Ztrunc (fval a) /\ Word32Defs.in_s r = true)) /\
  (f2u a = Some r <->
     exists t, f_is_finite a = true /\ IZR t = round radix2 (FIX_exp 0) Ztrunc (fval a) /\
               0 <= t < 2 ^ 32 /\ r = Word32Defs.wrap t).
Proof. intros a r. split; [apply f2i_spec | apply f2u_spec]. Qed.

Theorem float_neg_family : forall a,
  fval (fneg a) = (- fval a)%R /\ f_is_nan (fneg a) = f_is_nan a /\ f_is_finite (fneg a) = f_is_finite a /\
  (Word32Defs.in_s a = true -> f_is_nan a = false -> fneg (fneg a) = a).
Proof.
  intros a. destruct (fneg_spec a) as (H1 & H2 & H3). split; [exact H1|]. split; [exact H2|].
  split; [exact H3 | apply fneg_involutive].
Qed.

(* NOT PROVED / NOT COVERED in this file:
   - Every statement planned for this file is proved. The theorems of Part 2 (those mentioning [fval],
     [rnd32], [fdec] or proved through them: *_spec, i2f_exact, f2i_i2f, fenc_sdec, fneg_involutive,
     fneg_spec and the families built from them) depend on the four standard-library statements behind
     Coq's real numbers (ClassicalDedekindReals.sig_not_dec, sig_forall_dec,
     FunctionalExtensionality.functional_extensionality_dep, Classical_Prop.classic), because Flocq's
     verified operations embed validity proofs that use reals. Part 1 is closed.
   - fenc_sdec / fneg_involutive could be given closed proofs from Bits.split_join_bits /
     join_split_bits; not done.
   - FEXP (std::pow on floats), float <-> string conversions and frange are not modelled.
   - The sign/payload of NaN results is canonicalised (QNAN); the real x86 code yields 0xffc00000 for
     invalid operations and propagates payloads, which C++ leaves unspecified. *)
