(** Proofs about the binary32 model of Float32Defs.v (Souffle's FADD .. F2U, I2F, U2F, FMAX/FMIN and the
    float comparisons of src/interpreter/Engine.cpp on RamDomain bit patterns).
    A. the bit encoding loses nothing except the payload of NaNs;  B. closure in the signed 32-bit range;
    C. algebra (commutativity holds, associativity and the argument order of std::max with NaN / signed
       zeros do not: refuted with concrete witnesses);
    D. specification against real numbers: each operation is the correctly rounded (to nearest even,
       format FLT(-149, 24)) real operation as long as the result stays below 2^128; comparisons are the
       real comparisons; int -> float is exact up to 2^24 and float -> int truncates toward zero;
    E. examples, including instances of the hypotheses of the theorems.
    Section D uses Flocq's B2R, hence the real-number axioms of the Coq standard library. *)
From Coq Require Import ZArith Bool Reals Lia Lra.
From Flocq Require Import Core IEEE754.BinarySingleNaN IEEE754.Binary IEEE754.Bits.
From SV Require Word32Defs.
From SV Require Import Float32Defs.
Local Open Scope Z_scope.

(** * A. Encoding *)

Lemma fenc_u_range : forall x, 0 <= fenc_u x < 2 ^ 32.
Proof.
  intros x. unfold fenc_u, bits_of_b32.
  exact (bits_of_binary_float_range 23 8 eq_refl eq_refl (BSN2B 24 128 default_nan_pl32 x)).
Qed.

Lemma in_s_iff : forall z, Word32Defs.in_s z = true <-> - 2 ^ 31 <= z < 2 ^ 31.
Proof.
  intros z. unfold Word32Defs.in_s, Word32Defs.MIN_S, Word32Defs.MAX_S.
  rewrite andb_true_iff, !Z.leb_le. lia.
Qed.

Lemma wrap_in_s : forall z, Word32Defs.in_s (Word32Defs.wrap z) = true.
Proof.
  intros z. apply in_s_iff. unfold Word32Defs.wrap.
  pose proof (Z.mod_pos_bound (z + 2 ^ 31) (2 ^ 32) eq_refl). lia.
Qed.

Lemma u_wrap : forall z, 0 <= z < 2 ^ 32 -> Word32Defs.u (Word32Defs.wrap z) = z.
Proof.
  intros z Hz. unfold Word32Defs.u, Word32Defs.wrap.
  rewrite Zminus_mod_idemp_l.
  replace (z + 2 ^ 31 - 2 ^ 31) with z by ring.
  apply Z.mod_small; exact Hz.
Qed.

Lemma wrap_u : forall a, Word32Defs.in_s a = true -> Word32Defs.wrap (Word32Defs.u a) = a.
Proof.
  intros a Ha. apply in_s_iff in Ha. unfold Word32Defs.u, Word32Defs.wrap.
  rewrite Zplus_mod_idemp_l.
  rewrite Z.mod_small by lia. ring.
Qed.

Lemma u_range : forall a, 0 <= Word32Defs.u a < 2 ^ 32.
Proof. intros a. unfold Word32Defs.u. apply Z.mod_pos_bound. reflexivity. Qed.

Lemma fenc_in_s : forall x, Word32Defs.in_s (fenc x) = true.
Proof. intros x. apply wrap_in_s. Qed.

Lemma u_fenc : forall x, Word32Defs.u (fenc x) = fenc_u x.
Proof. intros x. apply u_wrap, fenc_u_range. Qed.

Lemma fdec_fenc : forall x, fdec (fenc x) = x.
Proof.
  intros x. unfold fdec. rewrite u_fenc. unfold fenc_u, b32_of_bits, bits_of_b32.
  rewrite binary_float_of_bits_of_binary_float.
  apply B2BSN_BSN2B.
Qed.

Lemma BSN2B_B2BSN_not_nan :
  forall nan (y : Binary.binary_float 24 128),
    Binary.is_nan 24 128 y = false -> BSN2B 24 128 nan (B2BSN 24 128 y) = y.
Proof. intros nan [s|s|s pl H|s m e H] Hn; try reflexivity. discriminate Hn. Qed.

Lemma fenc_fdec : forall a, Word32Defs.in_s a = true -> f_is_nan a = false -> fenc (fdec a) = a.
Proof.
  intros a Ha Hn. unfold f_is_nan, fdec in Hn. rewrite is_nan_B2BSN in Hn.
  unfold fenc, fenc_u, fdec.
  rewrite BSN2B_B2BSN_not_nan by exact Hn.
  unfold bits_of_b32, b32_of_bits.
  rewrite bits_of_binary_float_of_bits by (apply u_range).
  apply wrap_u, Ha.
Qed.

Lemma fenc_nan : fenc BinarySingleNaN.B754_nan = QNAN.
Proof. vm_compute. reflexivity. Qed.

(** * B. Closure *)
Lemma fadd_in_s : forall a b, Word32Defs.in_s (fadd a b) = true.
Proof. intros. apply fenc_in_s. Qed.
Lemma fsub_in_s : forall a b, Word32Defs.in_s (fsub a b) = true.
Proof. intros. apply fenc_in_s. Qed.
Lemma fmul_in_s : forall a b, Word32Defs.in_s (fmul a b) = true.
Proof. intros. apply fenc_in_s. Qed.
Lemma fdiv_in_s : forall a b, Word32Defs.in_s (fdiv a b) = true.
Proof. intros. apply fenc_in_s. Qed.
Lemma fneg_in_s : forall a, Word32Defs.in_s (fneg a) = true.
Proof. intros. apply fenc_in_s. Qed.
Lemma i2f_in_s : forall a, Word32Defs.in_s (i2f a) = true.
Proof. intros. apply fenc_in_s. Qed.
Lemma u2f_in_s : forall a, Word32Defs.in_s (u2f a) = true.
Proof. intros. apply fenc_in_s. Qed.

Lemma chk_Some : forall t r, Word32Defs.chk t = Some r -> t = r /\ Word32Defs.in_s r = true.
Proof.
  intros t r. unfold Word32Defs.chk. destruct (Word32Defs.in_s t) eqn:E; intros H.
  - injection H as <-. split; [reflexivity | exact E].
  - discriminate H.
Qed.

Lemma f2i_in_s : forall a r, f2i a = Some r -> Word32Defs.in_s r = true.
Proof.
  intros a r. unfold f2i. destruct (f_trunc (fdec a)) as [t|]; intros H.
  - apply chk_Some in H. apply H.
  - discriminate H.
Qed.

Lemma f2u_in_s : forall a r, f2u a = Some r -> Word32Defs.in_s r = true.
Proof.
  intros a r. unfold f2u. destruct (f_trunc (fdec a)) as [t|]; intros H.
  - destruct ((0 <=? t) && (t <? 2 ^ 32)); [|discriminate H].
    injection H as <-. apply wrap_in_s.
  - discriminate H.
Qed.

Lemma fmax_choice : forall a b, fmax a b = a \/ fmax a b = b.
Proof. intros a b. unfold fmax. destruct (flt a b); [right|left]; reflexivity. Qed.
Lemma fmin_choice : forall a b, fmin a b = a \/ fmin a b = b.
Proof. intros a b. unfold fmin. destruct (flt b a); [right|left]; reflexivity. Qed.

Lemma fmax_in_s : forall a b, Word32Defs.in_s a = true -> Word32Defs.in_s b = true ->
  Word32Defs.in_s (fmax a b) = true.
Proof. intros a b Ha Hb. destruct (fmax_choice a b) as [-> | ->]; assumption. Qed.
Lemma fmin_in_s : forall a b, Word32Defs.in_s a = true -> Word32Defs.in_s b = true ->
  Word32Defs.in_s (fmin a b) = true.
Proof. intros a b Ha Hb. destruct (fmin_choice a b) as [-> | ->]; assumption. Qed.

(** * C. Algebra *)
Lemma f_plus_comm : forall x y : f32, f_plus x y = f_plus y x.
Proof.
  intros [sx|sx| |sx mx ex Hx] [sy|sy| |sy my ey Hy]; try reflexivity.
  - destruct sx, sy; reflexivity.
  - destruct sx, sy; reflexivity.
  - unfold f_plus, BinarySingleNaN.Bplus, Fplus_naive.
    rewrite (Z.min_comm ey ex).
    rewrite (Z.add_comm (cond_Zopp sy _)).
    reflexivity.
Qed.

Lemma fadd_comm : forall a b, fadd a b = fadd b a.
Proof. intros a b. unfold fadd. rewrite f_plus_comm. reflexivity. Qed.

Lemma f_mult_comm : forall x y : f32, f_mult x y = f_mult y x.
Proof.
  intros [sx|sx| |sx mx ex Hx] [sy|sy| |sy my ey Hy]; try reflexivity;
    try (destruct sx, sy; reflexivity).
  unfold f_mult, BinarySingleNaN.Bmult.
  apply BinarySingleNaN.B2SF_inj. rewrite !BinarySingleNaN.B2SF_SF2B.
  rewrite (xorb_comm sy sx), (Pos.mul_comm my mx), (Z.add_comm ey ex).
  reflexivity.
Qed.

Lemma fmul_comm : forall a b, fmul a b = fmul b a.
Proof. intros a b. unfold fmul. rewrite f_mult_comm. reflexivity. Qed.

Theorem fadd_not_associative_refuted :
  exists a b c, Word32Defs.in_s a = true /\ Word32Defs.in_s b = true /\ Word32Defs.in_s c = true /\
    f_is_finite a = true /\ f_is_finite b = true /\ f_is_finite c = true /\
    fadd (fadd a b) c <> fadd a (fadd b c).
Proof.
  exists 0x4b800000, 0x3f800000, 0x3f800000.
  vm_compute. repeat split; try reflexivity. discriminate.
Qed.

Theorem fmax_nan_order_refuted :
  exists a b, Word32Defs.in_s a = true /\ Word32Defs.in_s b = true /\ fmax a b <> fmax b a.
Proof.
  exists QNAN, 0x40a00000.
  vm_compute. repeat split; try reflexivity. discriminate.
Qed.

Lemma fneg_involutive : forall a, Word32Defs.in_s a = true -> f_is_nan a = false -> fneg (fneg a) = a.
Proof.
  intros a Ha Hn. unfold fneg. rewrite fdec_fenc. unfold f_opp.
  rewrite BinarySingleNaN.Bopp_involutive. apply fenc_fdec; assumption.
Qed.

(** ** fmax / fmin and argument order *)
Lemma Bcompare_not_nan : forall x y : f32,
  BinarySingleNaN.is_nan x = false -> BinarySingleNaN.is_nan y = false ->
  exists c, BinarySingleNaN.Bcompare x y = Some c.
Proof.
  intros [sx|sx| |sx mx ex Hx] [sy|sy| |sy my ey Hy] Nx Ny;
    try discriminate Nx; try discriminate Ny; eexists; reflexivity.
Qed.

Lemma Bltb_trichotomy : forall x y : f32,
  BinarySingleNaN.is_nan x = false -> BinarySingleNaN.is_nan y = false ->
  (BinarySingleNaN.Bltb x y = true /\ BinarySingleNaN.Bltb y x = false) \/
  (BinarySingleNaN.Bltb x y = false /\ BinarySingleNaN.Bltb y x = true) \/
  (BinarySingleNaN.Bltb x y = false /\ BinarySingleNaN.Bltb y x = false /\
   BinarySingleNaN.Beqb x y = true).
Proof.
  intros x y Nx Ny.
  unfold BinarySingleNaN.Bltb, BinarySingleNaN.Beqb, SpecFloat.SFltb, SpecFloat.SFeqb.
  change (SpecFloat.SFcompare (BinarySingleNaN.B2SF x) (BinarySingleNaN.B2SF y))
    with (BinarySingleNaN.Bcompare x y).
  change (SpecFloat.SFcompare (BinarySingleNaN.B2SF y) (BinarySingleNaN.B2SF x))
    with (BinarySingleNaN.Bcompare y x).
  rewrite (BinarySingleNaN.Bcompare_swap 24 128 x y).
  destruct (Bcompare_not_nan x y Nx Ny) as [c ->].
  destruct c; simpl; auto.
Qed.

(** Without NaNs [fmax a b] and [fmax b a] are equal *as floats* ([feq]); they can still differ as
    bit patterns (+0 / -0, see [fmax_signed_zero_order_refuted]): that part is what is missing from
    full commutativity. *)
Lemma fmax_comm_no_nan_partial : forall a b, f_is_nan a = false -> f_is_nan b = false ->
  feq (fmax a b) (fmax b a) = true.
Proof.
  intros a b Na Nb. unfold fmax, flt. unfold f_is_nan in Na, Nb.
  destruct (Bltb_trichotomy _ _ Na Nb) as [[E1 E2]|[[E1 E2]|[E1 [E2 E3]]]]; rewrite E1, E2; unfold feq.
  - rewrite BinarySingleNaN.Beqb_refl, Nb. reflexivity.
  - rewrite BinarySingleNaN.Beqb_refl, Na. reflexivity.
  - exact E3.
Qed.

Theorem fmax_signed_zero_order_refuted :
  exists a b, Word32Defs.in_s a = true /\ Word32Defs.in_s b = true /\
    f_is_nan a = false /\ f_is_nan b = false /\ fmax a b <> fmax b a.
Proof.
  exists 0, (Word32Defs.wrap 0x80000000).
  vm_compute. repeat split; try reflexivity. discriminate.
Qed.

(** * D. Specification against real numbers *)
Definition fval (a : Z) : R := BinarySingleNaN.B2R (fdec a).
Definition rnd32 (r : R) : R := round radix2 (FLT_exp (-149) 24) ZnearestE r.

Lemma rnd32_eq : forall r,
  round radix2 (SpecFloat.fexp 24 128) (round_mode mode_NE) r = rnd32 r.
Proof. reflexivity. Qed.

Lemma fadd_spec : forall a b, f_is_finite a = true -> f_is_finite b = true ->
  (Rabs (rnd32 (fval a + fval b)) < bpow radix2 128)%R ->
  fval (fadd a b) = rnd32 (fval a + fval b) /\ f_is_finite (fadd a b) = true.
Proof.
  intros a b Fa Fb H. unfold fadd, fval, f_is_finite in *. rewrite fdec_fenc.
  generalize (BinarySingleNaN.Bplus_correct 24 128 prec32_gt_0 prec32_lt_emax mode_NE _ _ Fa Fb).
  rewrite rnd32_eq. rewrite Rlt_bool_true by exact H.
  intros [H1 [H2 _]]. split; assumption.
Qed.

(** overflow: the rounded sum does not fit, the result is an infinity (neither finite nor NaN) *)
Lemma fadd_overflow_spec : forall a b, f_is_finite a = true -> f_is_finite b = true ->
  (bpow radix2 128 <= Rabs (rnd32 (fval a + fval b)))%R ->
  f_is_finite (fadd a b) = false /\ f_is_nan (fadd a b) = false.
Proof.
  intros a b Fa Fb H. unfold fadd, fval, f_is_finite, f_is_nan in *. rewrite fdec_fenc.
  generalize (BinarySingleNaN.Bplus_correct 24 128 prec32_gt_0 prec32_lt_emax mode_NE _ _ Fa Fb).
  rewrite rnd32_eq. rewrite Rlt_bool_false by exact H.
  intros [H1 _]. unfold f_plus.
  rewrite <- BinarySingleNaN.is_finite_SF_B2SF, <- BinarySingleNaN.is_nan_SF_B2SF, H1.
  split; reflexivity.
Qed.

Lemma fsub_spec : forall a b, f_is_finite a = true -> f_is_finite b = true ->
  (Rabs (rnd32 (fval a - fval b)) < bpow radix2 128)%R ->
  fval (fsub a b) = rnd32 (fval a - fval b) /\ f_is_finite (fsub a b) = true.
Proof.
  intros a b Fa Fb H. unfold fsub, fval, f_is_finite in *. rewrite fdec_fenc.
  generalize (BinarySingleNaN.Bminus_correct 24 128 prec32_gt_0 prec32_lt_emax mode_NE _ _ Fa Fb).
  rewrite rnd32_eq. rewrite Rlt_bool_true by exact H.
  intros [H1 [H2 _]]. split; assumption.
Qed.

Lemma fmul_spec : forall a b, f_is_finite a = true -> f_is_finite b = true ->
  (Rabs (rnd32 (fval a * fval b)) < bpow radix2 128)%R ->
  fval (fmul a b) = rnd32 (fval a * fval b) /\ f_is_finite (fmul a b) = true.
Proof.
  intros a b Fa Fb H. unfold fmul, fval, f_is_finite in *. rewrite fdec_fenc.
  generalize (BinarySingleNaN.Bmult_correct 24 128 prec32_gt_0 prec32_lt_emax mode_NE (fdec a) (fdec b)).
  rewrite rnd32_eq. rewrite Rlt_bool_true by exact H.
  intros [H1 [H2 _]]. split; [exact H1|]. unfold f_mult. rewrite H2, Fa, Fb. reflexivity.
Qed.

Lemma fdiv_spec : forall a b, f_is_finite a = true -> f_is_finite b = true ->
  fval b <> 0%R ->
  (Rabs (rnd32 (fval a / fval b)) < bpow radix2 128)%R ->
  fval (fdiv a b) = rnd32 (fval a / fval b) /\ f_is_finite (fdiv a b) = true.
Proof.
  intros a b Fa Fb Hb H. unfold fdiv, fval, f_is_finite in *. rewrite fdec_fenc.
  generalize (BinarySingleNaN.Bdiv_correct 24 128 prec32_gt_0 prec32_lt_emax mode_NE (fdec a) (fdec b) Hb).
  rewrite rnd32_eq. rewrite Rlt_bool_true by exact H.
  intros [H1 [H2 _]]. split; [exact H1|]. unfold f_div. rewrite H2. exact Fa.
Qed.

Lemma flt_spec : forall a b, f_is_finite a = true -> f_is_finite b = true ->
  flt a b = Rlt_bool (fval a) (fval b).
Proof. intros a b Fa Fb. apply BinarySingleNaN.Bltb_correct; assumption. Qed.
Lemma fle_spec : forall a b, f_is_finite a = true -> f_is_finite b = true ->
  fle a b = Rle_bool (fval a) (fval b).
Proof. intros a b Fa Fb. apply BinarySingleNaN.Bleb_correct; assumption. Qed.
Lemma feq_spec : forall a b, f_is_finite a = true -> f_is_finite b = true ->
  feq a b = Req_bool (fval a) (fval b).
Proof. intros a b Fa Fb. apply BinarySingleNaN.Beqb_correct; assumption. Qed.

Lemma flt_nan : forall a b, f_is_nan a = true \/ f_is_nan b = true ->
  flt a b = false /\ fle a b = false /\ feq a b = false.
Proof.
  intros a b. unfold f_is_nan, flt, fle, feq.
  generalize (fdec a) (fdec b). intros x y [H|H].
  - destruct x; try discriminate H. repeat split; reflexivity.
  - destruct y; try discriminate H. destruct x; repeat split; reflexivity.
Qed.

(** ** integer conversions *)
Lemma F2R_exp0 : forall z, F2R (Float radix2 z 0) = IZR z.
Proof. intros z. unfold F2R. simpl. apply Rmult_1_r. Qed.

Lemma bpow_IZR : forall e, 0 <= e -> bpow radix2 e = IZR (2 ^ e).
Proof. intros e He. symmetry. exact (IZR_Zpower radix2 e He). Qed.

Lemma valid_flt32 : Valid_exp (FLT_exp (-149) 24).
Proof. apply FLT_exp_valid. reflexivity. Qed.

Lemma Rabs_IZR_lt : forall z n, Z.abs z < n -> (Rabs (IZR z) < IZR n)%R.
Proof. intros z n H. rewrite <- abs_IZR. apply IZR_lt, H. Qed.
Lemma Rabs_IZR_le : forall z n, Z.abs z <= n -> (Rabs (IZR z) <= IZR n)%R.
Proof. intros z n H. rewrite <- abs_IZR. apply IZR_le, H. Qed.

Lemma small_int_format : forall z, Z.abs z <= 2 ^ 24 ->
  generic_format radix2 (FLT_exp (-149) 24) (IZR z).
Proof.
  intros z Hz.
  apply generic_format_abs_inv. rewrite <- abs_IZR.
  destruct (Z.eq_dec (Z.abs z) (2 ^ 24)) as [E|E].
  - rewrite E. rewrite <- bpow_IZR by lia.
    apply generic_format_bpow. unfold FLT_exp. lia.
  - apply generic_format_FLT.
    apply (FLT_spec radix2 (-149) 24 _ (Float radix2 (Z.abs z) 0)).
    + symmetry. apply F2R_exp0.
    + simpl. change (Z.pow_pos 2 24) with (2 ^ 24). lia.
    + simpl. lia.
Qed.

Lemma int32_no_overflow : forall z, Z.abs z <= 2 ^ 32 ->
  (Rabs (rnd32 (IZR z)) < bpow radix2 128)%R.
Proof.
  intros z Hz.
  apply Rle_lt_trans with (bpow radix2 32).
  - unfold rnd32. apply abs_round_le_generic.
    + apply valid_flt32.
    + apply valid_rnd_N.
    + apply generic_format_bpow. unfold FLT_exp. lia.
    + rewrite bpow_IZR by lia. apply Rabs_IZR_le, Hz.
  - apply bpow_lt. lia.
Qed.

Lemma f_of_Z_spec : forall z, Z.abs z <= 2 ^ 32 ->
  BinarySingleNaN.B2R (f_of_Z z) = rnd32 (IZR z) /\ BinarySingleNaN.is_finite (f_of_Z z) = true.
Proof.
  intros z Hz.
  generalize (BinarySingleNaN.binary_normalize_correct 24 128 prec32_gt_0 prec32_lt_emax mode_NE z 0 false).
  cbv zeta. rewrite F2R_exp0, rnd32_eq.
  rewrite Rlt_bool_true by (apply int32_no_overflow, Hz).
  intros [H1 [H2 _]]. split; assumption.
Qed.

Lemma i2f_spec : forall z, Word32Defs.in_s z = true -> fval (i2f z) = rnd32 (IZR z).
Proof.
  intros z Hz. apply in_s_iff in Hz. unfold fval, i2f. rewrite fdec_fenc.
  apply f_of_Z_spec. lia.
Qed.

Lemma i2f_finite : forall z, Word32Defs.in_s z = true -> f_is_finite (i2f z) = true.
Proof.
  intros z Hz. apply in_s_iff in Hz. unfold f_is_finite, i2f. rewrite fdec_fenc.
  apply f_of_Z_spec. lia.
Qed.

Lemma u2f_spec : forall a,
  fval (u2f a) = rnd32 (IZR (Word32Defs.u a)) /\ f_is_finite (u2f a) = true.
Proof.
  intros a. unfold fval, f_is_finite, u2f. rewrite fdec_fenc.
  apply f_of_Z_spec. pose proof (u_range a). lia.
Qed.

Lemma i2f_exact : forall z, Z.abs z <= 2 ^ 24 ->
  fval (i2f z) = IZR z /\ f_is_finite (i2f z) = true.
Proof.
  intros z Hz. unfold fval, f_is_finite, i2f. rewrite fdec_fenc.
  destruct (f_of_Z_spec z) as [H1 H2]; [lia|]. split; [|exact H2].
  rewrite H1. unfold rnd32. apply round_generic.
  - apply valid_rnd_N.
  - apply small_int_format, Hz.
Qed.

Lemma f_trunc_finite : forall x : f32, BinarySingleNaN.is_finite x = true ->
  f_trunc x = Some (BinarySingleNaN.Btrunc x).
Proof. intros [s|s| |s m e H] F; try discriminate F; reflexivity. Qed.

Lemma f_trunc_Some : forall (x : f32) t, f_trunc x = Some t ->
  BinarySingleNaN.is_finite x = true /\ t = BinarySingleNaN.Btrunc x.
Proof.
  intros [s|s| |s m e H] t E; try discriminate E; injection E as <-; split; reflexivity.
Qed.

Lemma trunc_IZR : forall z, round radix2 (FIX_exp 0) Ztrunc (IZR z) = IZR z.
Proof.
  intros z. apply round_generic.
  - apply valid_rnd_ZR.
  - apply generic_format_FIX. apply (FIX_spec radix2 0 _ (Float radix2 z 0)).
    + symmetry. apply F2R_exp0.
    + reflexivity.
Qed.

Lemma f2i_i2f : forall z, Z.abs z <= 2 ^ 24 -> f2i (i2f z) = Some z.
Proof.
  intros z Hz. destruct (i2f_exact z Hz) as [H1 H2].
  unfold f2i. unfold fval in H1. unfold f_is_finite in H2.
  rewrite (f_trunc_finite _ H2).
  assert (E : BinarySingleNaN.Btrunc (fdec (i2f z)) = z).
  { apply eq_IZR. rewrite BinarySingleNaN.Btrunc_correct, H1. apply trunc_IZR.
    exact prec32_lt_emax. }
  rewrite E. unfold Word32Defs.chk.
  replace (Word32Defs.in_s z) with true; [reflexivity|].
  symmetry. apply in_s_iff. lia.
Qed.

Theorem i2f_rounds_refuted : exists z, Word32Defs.in_s z = true /\ f2i (i2f z) <> Some z.
Proof. exists 16777217. vm_compute. split; [reflexivity | discriminate]. Qed.

Lemma f2i_spec : forall a r, f2i a = Some r <->
  (f_is_finite a = true /\ IZR r = round radix2 (FIX_exp 0) Ztrunc (fval a) /\ Word32Defs.in_s r = true).
Proof.
  intros a r. unfold f2i, f_is_finite, fval. split.
  - destruct (f_trunc (fdec a)) as [t|] eqn:E; [|discriminate].
    intros H. apply chk_Some in H. destruct H as [<- Hr].
    apply f_trunc_Some in E. destruct E as [F ->].
    repeat split; try assumption.
    apply BinarySingleNaN.Btrunc_correct. exact prec32_lt_emax.
  - intros [F [H Hr]]. rewrite (f_trunc_finite _ F).
    rewrite <- BinarySingleNaN.Btrunc_correct in H by exact prec32_lt_emax.
    apply eq_IZR in H. rewrite <- H. unfold Word32Defs.chk. rewrite Hr. reflexivity.
Qed.

Lemma f2u_spec : forall a r, f2u a = Some r <->
  exists t, f_is_finite a = true /\ IZR t = round radix2 (FIX_exp 0) Ztrunc (fval a) /\
            0 <= t < 2 ^ 32 /\ r = Word32Defs.wrap t.
Proof.
  intros a r. unfold f2u, f_is_finite, fval. split.
  - destruct (f_trunc (fdec a)) as [t|] eqn:E; [|discriminate].
    destruct ((0 <=? t) && (t <? 2 ^ 32)) eqn:B; [|discriminate].
    intros H. injection H as <-. exists t.
    apply f_trunc_Some in E. destruct E as [F ->].
    apply andb_true_iff in B. destruct B as [B1 B2].
    apply Z.leb_le in B1. apply Z.ltb_lt in B2.
    repeat split; try assumption.
    apply BinarySingleNaN.Btrunc_correct. exact prec32_lt_emax.
  - intros [t [F [H [[B1 B2] ->]]]]. rewrite (f_trunc_finite _ F).
    rewrite <- BinarySingleNaN.Btrunc_correct in H by exact prec32_lt_emax.
    apply eq_IZR in H. rewrite <- H.
    apply Z.leb_le in B1. apply Z.ltb_lt in B2. rewrite B1, B2. reflexivity.
Qed.

(** * E. Examples *)
Example ex_fadd_1_2 : fadd 0x3f800000 0x40000000 = 0x40400000.
Proof. vm_compute. reflexivity. Qed.
Example ex_fadd_2p24 : fadd 0x4b800000 0x3f800000 = 0x4b800000.
Proof. vm_compute. reflexivity. Qed.
Example ex_fdiv_third : fdiv 0x3f800000 0x40400000 = 0x3eaaaaab.
Proof. vm_compute. reflexivity. Qed.
Example ex_i2f_round : i2f 16777217 = 0x4b800000.
Proof. vm_compute. reflexivity. Qed.
Example ex_f2i_trunc : f2i (Word32Defs.wrap 0xbfc00000) = Some (-1).
Proof. vm_compute. reflexivity. Qed.
Example ex_fdiv_zero : fdiv 0x3f800000 0 = 0x7f800000.
Proof. vm_compute. reflexivity. Qed.
Example ex_f2i_undef : f2i 0x4f000000 = None.
Proof. vm_compute. reflexivity. Qed.
Example ex_f2i_nan : f2i QNAN = None.
Proof. vm_compute. reflexivity. Qed.
Example ex_f2u_big : f2u 0x4f000000 = Some (Word32Defs.wrap 0x80000000).
Proof. vm_compute. reflexivity. Qed.
Example ex_f2u_neg : f2u (Word32Defs.wrap 0xbfc00000) = None.
Proof. vm_compute. reflexivity. Qed.
Example ex_fmul : fmul 0x40400000 (Word32Defs.wrap 0xbf000000) = Word32Defs.wrap 0xbfc00000.
Proof. vm_compute. reflexivity. Qed.
Example ex_fsub_inf_inf : fsub 0x7f800000 0x7f800000 = QNAN.
Proof. vm_compute. reflexivity. Qed.
Example ex_fadd_overflow : fadd 0x7f7fffff 0x7f7fffff = 0x7f800000.
Proof. vm_compute. reflexivity. Qed.
Example ex_fmax_nan_left : fmax QNAN 0x40a00000 = QNAN /\ fmax 0x40a00000 QNAN = 0x40a00000.
Proof. vm_compute. split; reflexivity. Qed.

(** instances satisfying the hypotheses of the theorems above *)
Example ex_fenc_fdec_hyp :
  Word32Defs.in_s (Word32Defs.wrap 0xbfc00000) = true /\ f_is_nan (Word32Defs.wrap 0xbfc00000) = false /\
  fneg (Word32Defs.wrap 0xbfc00000) = 0x3fc00000.
Proof. vm_compute. repeat split; reflexivity. Qed.
Example ex_fenc_fdec_nan_needed : (* a signalling/other NaN is not preserved: the hypothesis is needed *)
  Word32Defs.in_s 0x7fc00001 = true /\ f_is_nan 0x7fc00001 = true /\ fenc (fdec 0x7fc00001) <> 0x7fc00001.
Proof. vm_compute. repeat split; try reflexivity. discriminate. Qed.
Example ex_f2i_in_s_hyp : f2i 0x4effffff = Some 2147483520.
Proof. vm_compute. reflexivity. Qed.
Example ex_f2u_in_s_hyp : f2u 0x4f7fffff = Some (Word32Defs.wrap 4294967040).
Proof. vm_compute. reflexivity. Qed.
Example ex_fmax_in_s_hyp :
  Word32Defs.in_s 0x3f800000 = true /\ Word32Defs.in_s (Word32Defs.wrap 0xbfc00000) = true /\
  fmax 0x3f800000 (Word32Defs.wrap 0xbfc00000) = 0x3f800000 /\
  fmin 0x3f800000 (Word32Defs.wrap 0xbfc00000) = Word32Defs.wrap 0xbfc00000.
Proof. vm_compute. repeat split; reflexivity. Qed.
Example ex_fmax_no_nan_hyp : f_is_nan 0 = false /\ f_is_nan (Word32Defs.wrap 0x80000000) = false.
Proof. vm_compute. split; reflexivity. Qed.
Example ex_flt_nan_hyp : f_is_nan QNAN = true /\ f_is_nan (Word32Defs.wrap 0xffc00001) = true.
Proof. vm_compute. split; reflexivity. Qed.
Example ex_i2f_exact_hyp : Z.abs (-16777216) <= 2 ^ 24 /\ i2f (-16777216) = Word32Defs.wrap 0xcb800000.
Proof. vm_compute. split; [discriminate | reflexivity]. Qed.
Example ex_i2f_spec_hyp : Word32Defs.in_s 2147483647 = true /\ i2f 2147483647 = 0x4f000000.
Proof. vm_compute. split; reflexivity. Qed.

(** the real-number hypotheses of fadd_spec .. fdiv_spec, flt_spec .. hold for 1.0f = i2f 1,
    2.0f = i2f 2, 3.0f = i2f 3 *)
Lemma rnd32_no_overflow : forall r, (Rabs r <= bpow radix2 127)%R ->
  (Rabs (rnd32 r) < bpow radix2 128)%R.
Proof.
  intros r Hr. apply Rle_lt_trans with (bpow radix2 127).
  - unfold rnd32. apply abs_round_le_generic.
    + apply valid_flt32.
    + apply valid_rnd_N.
    + apply generic_format_bpow. unfold FLT_exp. lia.
    + exact Hr.
  - apply bpow_lt. lia.
Qed.

Example ex_arith_spec_hyp :
  let a := 0x3f800000 in let b := 0x40400000 in
  f_is_finite a = true /\ f_is_finite b = true /\ fval b <> 0%R /\
  (Rabs (rnd32 (fval a + fval b)) < bpow radix2 128)%R /\
  (Rabs (rnd32 (fval a - fval b)) < bpow radix2 128)%R /\
  (Rabs (rnd32 (fval a * fval b)) < bpow radix2 128)%R /\
  (Rabs (rnd32 (fval a / fval b)) < bpow radix2 128)%R.
Proof.
  intros a b.
  assert (Ea : a = i2f 1) by (vm_compute; reflexivity).
  assert (Eb : b = i2f 3) by (vm_compute; reflexivity).
  destruct (i2f_exact 1) as [Va Fa]; [vm_compute; discriminate|].
  destruct (i2f_exact 3) as [Vb Fb]; [vm_compute; discriminate|].
  rewrite <- Ea in Va, Fa. rewrite <- Eb in Vb, Fb. rewrite Va, Vb.
  assert (B : (4 <= bpow radix2 127)%R).
  { rewrite bpow_IZR by lia. apply (IZR_le 4). lia. }
  repeat split; try assumption; try (apply rnd32_no_overflow, Rabs_le; lra).
  lra.
Qed.

Example ex_fadd_overflow_hyp :
  let a := 0x7f7fffff in
  f_is_finite a = true /\ (bpow radix2 128 <= Rabs (rnd32 (fval a + fval a)))%R.
Proof.
  intros a. split; [vm_compute; reflexivity|].
  assert (V : fval a = (16777215 * bpow radix2 104)%R).
  { unfold fval. rewrite <- BinarySingleNaN.SF2R_B2SF.
    replace (BinarySingleNaN.B2SF (fdec a)) with (SpecFloat.S754_finite false 16777215 104)
      by (vm_compute; reflexivity).
    reflexivity. }
  rewrite V.
  apply Rle_trans with (2 := Rle_abs _).
  unfold rnd32. apply round_ge_generic.
  - apply valid_flt32.
  - apply valid_rnd_N.
  - apply generic_format_bpow. unfold FLT_exp. lia.
  - change 128 with (24 + 104). rewrite bpow_plus, (bpow_IZR 24) by lia.
    change (2 ^ 24) with 16777216.
    pose proof (bpow_gt_0 radix2 104). lra.
Qed.

(* Every statement requested for this file is proved above; nothing is left out. *)
