(** Specification and proofs for the proof-tree validator of ProofTreeDefs.v. *)
From SV Require Import DatalogDefs DatalogSem DatalogLemmas StratLemmas ProofTreeDefs.

(** * What a valid proof tree is (declaratively) *)
Definition concl (t : ptree) : option (nat * tuple) :=
  match t with PNode r tup _ _ | PFact r tup => Some (r, tup) | _ => None end.
(** the atoms proven by the children of a node *)
Definition children_interp (chs : list ptree) : interp :=
  fun r t => exists ch, In ch chs /\ concl ch = Some (r, t).
(** every node instantiates the cited clause: positive body atoms are conclusions of children,
    negated atoms / constraints / aggregates hold in the final database [d]; fact leaves are in [d] *)
Fixpoint valid (d : db) (cs : list clause) (t : ptree) {struct t} : Prop :=
  match t with
  | PNode r tup k chs =>
      (exists c, nth_error (clauses_for cs r) k = Some c /\ fires (children_interp chs) (holds d) c tup) /\
      (fix all (l : list ptree) : Prop := match l with [] => True | ch :: l' => valid d cs ch /\ all l' end) chs
  | PFact r tup => In tup (rel_of d r)
  | PNeg _ | PCons => True
  end.
Lemma valid_node d cs r tup k chs :
  valid d cs (PNode r tup k chs) <->
  (exists c, nth_error (clauses_for cs r) k = Some c /\ fires (children_interp chs) (holds d) c tup) /\
  Forall (valid d cs) chs.
Proof.
  simpl. apply and_iff_compat_l. induction chs as [|ch chs IH]; [split; auto|].
  rewrite IH. split; [intros [A B]; constructor; auto|intro H; inversion H; auto].
Qed.

Lemma ptree_ind' (P : ptree -> Prop) :
  (forall r t k chs, Forall P chs -> P (PNode r t k chs)) -> (forall r t, P (PFact r t)) ->
  (forall r, P (PNeg r)) -> P PCons -> forall t, P t.
Proof.
  intros Hn Hf Hg Hc. fix IH 1. intros [r t k chs|r t|r|].
  - apply Hn. induction chs as [|ch chs IHc]; constructor; [apply IH|apply IHc].
  - apply Hf.
  - apply Hg.
  - apply Hc.
Qed.

Lemma children_interp_cons ch chs : isub (children_interp chs) (children_interp (ch :: chs)).
Proof. intros r t (c & Hc & H). exists c. simpl; auto. Qed.

(** literals that are not positive atoms do not depend on [P] *)
Lemma sat_lit_anyP (P P' N : interp) outer e l : lit_pos l = [] -> sat_lit P N outer e l -> sat_lit P' N outer e l.
Proof. intro H. apply sat_lit_change; [rewrite H; intros r t []|intros; tauto]. Qed.
Lemma sat_lits_monoP (P P' N : interp) outer e ls : isub P P' ->
  Forall (sat_lit P N outer e) ls -> Forall (sat_lit P' N outer e) ls.
Proof.
  intros Hs H. eapply Forall_impl; [|exact H]. intros l Hl.
  eapply sat_lit_change; [| |exact Hl]; [intros; apply Hs; auto|intros; tauto].
Qed.

(** * Soundness of the walk over body literals and children *)
Lemma walk_sound d cs outer r0 t0 : db_nodup d -> forall ls chs i e B,
  Forall (fun ch => check_tree d cs ch = Ok TOk -> valid d cs ch) chs ->
  scoped outer B ls = true -> incl (flat_map lit_outer_vars ls) outer -> env_ok outer B e ->
  walk (fun ch => check_tree d cs ch) d r0 t0 i ls chs e = Ok TOk ->
  Forall (valid d cs) chs /\
  exists e', ext e e' /\ forall s, ext e' s -> Forall (sat_lit (children_interp chs) (holds d) outer s) ls.
Proof.
  intro Hnd. induction ls as [|l ls IH]; intros chs i e B HIH Hsc Hi Hok H.
  - destruct chs; [|discriminate]. split; [constructor|]. exists e. split; [apply ext_refl|constructor].
  - destruct chs as [|ch chs]; [destruct l as [[| |]| |]; discriminate|].
    simpl in Hsc. apply andb_true_iff in Hsc as [Hl Hsc].
    simpl in Hi. apply incl_app_inv in Hi as [Hi1 Hi2]. inversion HIH as [|? ? Hch HIH']; subst.
    (* common continuation *)
    assert (Hcont : forall e1 j, ext e e1 -> bound_after e e1 (lit_binds l) ->
              walk (fun ch => check_tree d cs ch) d r0 t0 j ls chs e1 = Ok TOk ->
              valid d cs ch ->
              (forall s, ext e1 s -> sat_lit (children_interp (ch :: chs)) (holds d) outer s l) ->
              Forall (valid d cs) (ch :: chs) /\
              exists e', ext e e' /\ forall s, ext e' s ->
                Forall (sat_lit (children_interp (ch :: chs)) (holds d) outer s) (l :: ls)).
    { intros e1 j Hx Hb Hw Hv Hsat.
      destruct (IH chs j e1 (lit_binds l ++ B) HIH' Hsc Hi2 (env_ok_step _ _ _ _ _ Hi1 Hok Hx Hb) Hw)
        as (Hvs & e' & Hx' & Hs').
      split; [constructor; auto|]. exists e'. split; [eapply ext_trans; eauto|].
      intros s Hs. constructor.
      - apply Hsat. eapply ext_trans; eauto.
      - eapply sat_lits_monoP; [apply children_interp_cons|]. auto. }
    destruct Hok as [HB Ho].
    destruct l as [[r args|r args|c a b]|x k ty target body|x ty from to step].
    + (* positive atom *)
      destruct ch as [r' tup k' chs'|r' tup|r'|]; try discriminate; cbn [walk] in H;
        (destruct (Nat.eqb r r') eqn:Er; [apply Nat.eqb_eq in Er; subst r'|discriminate]).
      * apply bind_ok in H as (o & Hm & H). destruct o as [e1|]; [|discriminate].
        apply bind_ok in H as (res & Hres & H). destruct res; try discriminate.
        apply match_terms_post in Hm. destruct Hm as (Hx & Hd & Hb & _).
        apply (Hcont e1 (S i) Hx Hb H (Hch Hres)). intros s Hs. constructor.
        apply (SatPos _ _ _ r args tup); [|eapply dens_mono; eauto].
        exists (PNode r tup k' chs'). simpl; auto.
      * destruct (mem_tuple tup (rel_of d r)) eqn:Hmem; [|discriminate].
        apply bind_ok in H as (o & Hm & H). destruct o as [e1|]; [|discriminate].
        apply match_terms_post in Hm. destruct Hm as (Hx & Hd & Hb & _).
        apply (Hcont e1 (S i) Hx Hb H). { simpl. now apply mem_tuple_spec. }
        intros s Hs. constructor. apply (SatPos _ _ _ r args tup); [|eapply dens_mono; eauto].
        exists (PFact r tup). simpl; auto.
    + (* negated atom *)
      destruct ch as [r' tup k' chs'|r' tup|r'|]; try discriminate; cbn [walk] in H.
      destruct (Nat.eqb r r'); [|discriminate].
      destruct (ground_or_anon e args) eqn:Hg; [|discriminate].
      apply bind_ok in H as (bb & Hb & H). destruct bb; [discriminate|].
      assert (Hst : step_slit d (SNeg r args) e = Ok [e]) by (simpl; rewrite Hg, Hb; reflexivity).
      destruct (step_slit_sound _ _ _ _ e Hst (or_introl eq_refl)) as (_ & _ & Hs).
      apply (Hcont e (S i) (ext_refl e) (bound_after_refl e) H I).
      intros s Hes. apply (sat_lit_anyP (holds d)); [reflexivity|]. constructor. now apply Hs.
    + (* constraint *)
      destruct ch as [r' tup k' chs'|r' tup|r'|]; try discriminate; cbn [walk] in H.
      apply bind_ok in H as (es & Hst & H). destruct es as [|e1 [|e2 es]]; try discriminate.
      destruct (step_lit_sound d outer B _ e [e1] e1 Hnd Hl HB Ho Hst (or_introl eq_refl)) as (Hx & Hb & Hs).
      apply (Hcont e1 (S i) Hx Hb H I). intros s Hes. apply (sat_lit_anyP (holds d)); [reflexivity|]. now apply Hs.
    + (* aggregate *)
      destruct ch as [r' tup k' chs'|r' tup|r'|]; try discriminate; cbn [walk] in H.
      apply bind_ok in H as (es & Hst & H). destruct es as [|e1 [|e2 es]]; try discriminate.
      destruct (step_lit_sound d outer B _ e [e1] e1 Hnd Hl HB Ho Hst (or_introl eq_refl)) as (Hx & Hb & Hs).
      apply (Hcont e1 (S i) Hx Hb H I). intros s Hes. apply (sat_lit_anyP (holds d)); [reflexivity|]. now apply Hs.
    + (* range *)
      destruct ch as [r' tup k' chs'|r' tup|r'|]; try discriminate; cbn [walk] in H.
      apply bind_ok in H as (es & Hst & H). destruct es as [|e1 [|e2 es]]; try discriminate.
      destruct (step_lit_sound d outer B _ e [e1] e1 Hnd Hl HB Ho Hst (or_introl eq_refl)) as (Hx & Hb & Hs).
      apply (Hcont e1 (S i) Hx Hb H I). intros s Hes. apply (sat_lit_anyP (holds d)); [reflexivity|]. now apply Hs.
Qed.

Lemma clauses_for_in cs r k c : nth_error (clauses_for cs r) k = Some c -> In c cs /\ c_rel c = r.
Proof.
  intro H. apply nth_error_In in H. unfold clauses_for in H. apply filter_In in H as [H1 H2].
  split; [exact H1|now apply Nat.eqb_eq].
Qed.

(** (a) an accepted tree is valid: every node is an instance of the clause it cites *)
Theorem check_tree_valid d cs t :
  db_nodup d -> clauses_ok cs = true -> check_tree d cs t = Ok TOk -> valid d cs t.
Proof.
  intros Hnd Hok. induction t as [r tup k chs IH|r tup|r|] using ptree_ind'; intro H.
  - apply valid_node. cbn [check_tree] in H.
    destruct (nth_error (clauses_for cs r) k) as [c|] eqn:Hc; [|discriminate].
    apply bind_ok in H as (o & Hm & H). destruct o as [e|]; [|discriminate].
    destruct (clauses_for_in _ _ _ _ Hc) as [Hin Hr].
    pose proof (clauses_ok_in _ _ Hok Hin) as Hcok. unfold clause_ok in Hcok.
    apply match_terms_post in Hm. destruct Hm as (_ & Hd & Hb & _).
    destruct (walk_sound d cs (clause_outer c) r tup Hnd (c_body c) chs 0 e [] IH Hcok (clause_outer_incl c))
      as (Hv & e' & Hx & Hs); [|exact H|].
    { split; [intros y []|]. intros y Hy. apply Hb in Hy as [Hy|Hy]; [now apply bound_nil in Hy|].
      unfold clause_outer. apply in_or_app. auto. }
    split; [|exact Hv]. exists c. split; [reflexivity|]. exists e'. split.
    + apply Hs. apply ext_refl.
    + eapply dens_mono; eauto.
  - simpl in H. simpl. destruct (mem_tuple tup (rel_of d r)) eqn:M; [now apply mem_tuple_spec|discriminate].
  - exact I.
  - exact I.
Qed.

(** * The stratified model is closed under every clause, reading everything in the model itself *)
Lemma least_model_unchanged L cs r t : ~ In r (defined_in cs) -> (least_model L cs r t <-> L r t).
Proof.
  intro Hr. split; [|apply least_model_lower].
  intro H. specialize (H (fun r' t' => L r' t' \/ In r' (defined_in cs))). simpl in H.
  destruct H as [H|H]; [intros r' t'; auto| |exact H|tauto].
  intros c t' Hc _. right. now apply in_map.
Qed.
Lemma strat_model_extensive ss : forall L, isub L (strat_model L ss).
Proof.
  induction ss as [|cs ss IH]; intros L r t H; simpl; [exact H|]. apply IH. now apply least_model_lower.
Qed.
Lemma strat_model_unchanged ss : forall L r t,
  ~ In r (flat_map defined_in ss) -> (strat_model L ss r t <-> L r t).
Proof.
  induction ss as [|cs ss IH]; intros L r t Hr; simpl; [tauto|]. simpl in Hr.
  rewrite IH by (intro; apply Hr, in_or_app; auto).
  apply least_model_unchanged. intro; apply Hr, in_or_app; auto.
Qed.

Theorem strat_model_closed ss : forall E L, SOK E ss ->
  forall c t, In c (concat ss) -> fires (strat_model L ss) (strat_model L ss) c t -> strat_model L ss (c_rel c) t.
Proof.
  induction ss as [|cs ss IH]; intros E L H c t Hc Hf; [destruct Hc|].
  destruct H as (H1 & H2 & H3). simpl concat in Hc. simpl strat_model in *.
  apply in_app_or in Hc as [Hc|Hc]; [|eapply IH; eauto].
  apply strat_model_extensive. apply least_model_closed; [exact Hc|].
  eapply fires_change; [| |exact Hf].
  - intros l r t' Hl Hr Hm. destruct (H1 c l Hc Hl) as [_ Hpos].
    apply (strat_model_unchanged ss _ r t' (Hpos r Hr)). exact Hm.
  - intros l r t' Hl Hr. destruct (H1 c l Hc Hl) as [Hlow _]. destruct (Hlow r Hr) as [A B].
    rewrite (strat_model_unchanged ss _ r t' B). now apply least_model_unchanged.
Qed.

(** * (b) the root of an accepted tree is in the stratified model *)
Lemma program_ok_concat ss : program_ok ss = true -> clauses_ok (concat ss) = true.
Proof.
  unfold program_ok, clauses_ok. rewrite !forallb_forall. intros H c Hc.
  apply in_concat in Hc as (cs & Hcs & Hc). specialize (H cs Hcs). unfold clauses_ok in H.
  rewrite forallb_forall in H. auto.
Qed.

Theorem valid_in_model edb ss d t :
  strata_ok [] ss = true ->
  (forall r tup, In tup (rel_of d r) <-> strat_model (holds edb) ss r tup) ->
  valid d (concat ss) t ->
  forall r tup, concl t = Some (r, tup) -> strat_model (holds edb) ss r tup.
Proof.
  intros Hst Hd. apply strata_ok_SOK in Hst.
  induction t as [r0 tup0 k chs IH|r0 tup0|r0|] using ptree_ind'; intros Hv r tup Hc; try discriminate.
  - inversion Hc; subst. apply valid_node in Hv as [(c & Hnth & Hf) Hvs].
    destruct (clauses_for_in _ _ _ _ Hnth) as [Hin <-].
    eapply strat_model_closed; eauto.
    eapply fires_change; [| |exact Hf].
    + intros l r' t' _ _ (ch & Hch & Hcc). rewrite Forall_forall in IH, Hvs. eapply IH; eauto.
    + intros l r' t' _ _. apply Hd.
  - inversion Hc; subst. apply Hd. exact Hv.
Qed.

Theorem check_tree_sound edb ss d t :
  strata_ok [] ss = true -> program_ok ss = true -> db_nodup d ->
  (forall r tup, In tup (rel_of d r) <-> strat_model (holds edb) ss r tup) ->
  check_tree d (concat ss) t = Ok TOk ->
  valid d (concat ss) t /\
  forall r tup, concl t = Some (r, tup) -> strat_model (holds edb) ss r tup.
Proof.
  intros Hst Hok Hnd Hd H.
  assert (Hv : valid d (concat ss) t) by (apply check_tree_valid; auto using program_ok_concat).
  split; [exact Hv|]. eapply valid_in_model; eauto.
Qed.

(** * The rejecting verdicts that name a defect of the tree itself are witnessed *)
Definition res_valid (d : db) (cs : list clause) (res : tree_result) : Prop :=
  match res with
  | TFactAbsent r t => ~ In t (rel_of d r)
  | TBadRule r t k => nth_error (clauses_for cs r) k = None
  | THeadMismatch r t k =>
      exists c, nth_error (clauses_for cs r) k = Some c /\ forall s, ~ Forall2 (den s) (c_args c) t
  | _ => True
  end.

Lemma walk_reject d cs r0 t0 : forall ls chs i e res,
  Forall (fun ch => forall res, check_tree d cs ch = Ok res -> res_valid d cs res) chs ->
  walk (fun ch => check_tree d cs ch) d r0 t0 i ls chs e = Ok res -> res_valid d cs res.
Proof.
  induction ls as [|l ls IH]; intros chs i e res HIH H.
  - destruct chs; inversion H; exact I.
  - destruct chs as [|ch chs]; [destruct l as [[| |]| |]; inversion H; exact I|].
    inversion HIH as [|? ? Hch HIH']; subst.
    destruct l as [[r args|r args|c a b]|x k ty target body|x ty from to step];
      destruct ch as [r' tup k' chs'|r' tup|r'|]; cbn [walk] in H; try (inversion H; exact I).
    + destruct (Nat.eqb r r'); [|inversion H; exact I].
      apply bind_ok in H as (o & Hm & H). destruct o as [e1|]; [|inversion H; exact I].
      apply bind_ok in H as (res' & Hres & H). apply Hch in Hres.
      destruct res'; try (inversion H; subst; exact Hres). eapply IH; eauto.
    + destruct (Nat.eqb r r') eqn:Er; [|inversion H; exact I]. apply Nat.eqb_eq in Er. subst r'.
      destruct (mem_tuple tup (rel_of d r)) eqn:M.
      * apply bind_ok in H as (o & Hm & H). destruct o as [e1|]; [|inversion H; exact I]. eapply IH; eauto.
      * inversion H; subst. simpl. intro Hin. apply mem_tuple_spec in Hin. congruence.
    + destruct (Nat.eqb r r'); [|inversion H; exact I].
      destruct (ground_or_anon e args); [|discriminate].
      apply bind_ok in H as (bb & Hb & H). destruct bb; [inversion H; exact I|]. eapply IH; eauto.
    + apply bind_ok in H as (es & Hst & H). destruct es as [|e1 [|e2 es]]; try (inversion H; exact I). eapply IH; eauto.
    + apply bind_ok in H as (es & Hst & H). destruct es as [|e1 [|e2 es]]; try (inversion H; exact I). eapply IH; eauto.
    + apply bind_ok in H as (es & Hst & H). destruct es as [|e1 [|e2 es]]; try (inversion H; exact I). eapply IH; eauto.
Qed.

Theorem check_tree_reject_witness d cs t res : check_tree d cs t = Ok res -> res_valid d cs res.
Proof.
  revert res. induction t as [r tup k chs IH|r tup|r|] using ptree_ind'; intros res H.
  - cbn [check_tree] in H. destruct (nth_error (clauses_for cs r) k) as [c|] eqn:Hc.
    + apply bind_ok in H as (o & Hm & H). destruct o as [e|].
      * eapply walk_reject; eauto.
      * inversion H; subst. simpl. exists c. split; [exact Hc|]. intros s Hd.
        apply match_terms_post in Hm. exact (Hm s (ext_nil s) Hd).
    + inversion H; subst. exact Hc.
  - simpl in H. inversion H. destruct (mem_tuple tup (rel_of d r)) eqn:M; simpl; [exact I|].
    intro Hin. apply mem_tuple_spec in Hin. congruence.
  - inversion H. exact I.
  - inversion H. exact I.
Qed.

(** * "Tuple not found" *)
Theorem not_found_correct d r t : absent d r t = true <-> ~ In t (rel_of d r).
Proof.
  unfold absent. rewrite negb_true_iff. split.
  - intros H Hin. apply mem_tuple_spec in Hin. congruence.
  - intro H. destruct (mem_tuple t (rel_of d r)) eqn:M; [|reflexivity]. apply mem_tuple_spec in M. tauto.
Qed.
(** against the model: for the final database of a correct run, "not found" is answered exactly
    for the tuples outside the stratified model *)
Corollary not_found_model edb ss d r t :
  (forall r tup, In tup (rel_of d r) <-> strat_model (holds edb) ss r tup) ->
  (absent d r t = true <-> ~ strat_model (holds edb) ss r t).
Proof. intro Hd. rewrite not_found_correct, (Hd r t). tauto. Qed.

Lemma tuples_nodup_spec l : tuples_nodup l = true -> NoDup l.
Proof.
  induction l as [|x l IH]; simpl; intro H; constructor; apply andb_true_iff in H as [H1 H2]; auto.
  intro Hin. apply mem_tuple_spec in Hin. rewrite Hin in H1. discriminate.
Qed.
Lemma tree_hyps_spec d cs : tree_hyps d cs = true -> db_nodup d /\ clauses_ok cs = true.
Proof.
  unfold tree_hyps. intro H. apply andb_true_iff in H as [H1 H2]. split; [|exact H2].
  intro r. unfold db_nodup_b in H1. induction d as [|[r' ts] d IH]; simpl; [constructor|].
  simpl in H1. apply andb_true_iff in H1 as [A B]. destruct (Nat.eqb r r'); [now apply tuples_nodup_spec|auto].
Qed.

(** * Examples:  p(x,y) :- e(x,y).   p(x,z) :- p(x,y), e(y,z), x != z.   q(x,y) :- e(x,y), !e(y,x).
    (0 = e, 1 = p, 2 = q) *)
Local Open Scope Z_scope.
Definition tp (a b : Z) : tuple := [VNum a; VNum b].
Definition pt_c1 : clause := {| c_rel := 1; c_args := [TVar 0; TVar 1]; c_body := [LS (SPos 0 [TVar 0; TVar 1])] |}.
Definition pt_c2 : clause :=
  {| c_rel := 1; c_args := [TVar 0; TVar 2];
     c_body := [LS (SPos 1 [TVar 0; TVar 1]); LS (SPos 0 [TVar 1; TVar 2]); LS (SCmp CNe (TVar 0) (TVar 2))] |}.
Definition pt_c3 : clause :=
  {| c_rel := 2; c_args := [TVar 0; TVar 1];
     c_body := [LS (SPos 0 [TVar 0; TVar 1]); LS (SNeg 0 [TVar 1; TVar 0])] |}.
Definition pt_ss : list (list clause) := [[pt_c1; pt_c2]; [pt_c3]].
Definition pt_cs : list clause := concat pt_ss.
Definition pt_edb : db := [(0%nat, [tp 1 2; tp 2 3; tp 3 4])].
Definition pt_d : db :=
  pt_edb ++ [(1%nat, [tp 1 2; tp 2 3; tp 3 4; tp 1 3; tp 2 4; tp 1 4]); (2%nat, [tp 1 2; tp 2 3; tp 3 4])].
Example pt_run : run_program 10 pt_edb pt_ss = Ok (Some (pt_d, [3; 1]%nat)).
Proof. vm_compute. reflexivity. Qed.

(** the tree printed by `explain p(1,4)` *)
Definition pt_tree : ptree :=
  PNode 1 (tp 1 4) 1
    [ PNode 1 (tp 1 3) 1 [ PNode 1 (tp 1 2) 0 [PFact 0 (tp 1 2)]; PFact 0 (tp 2 3); PCons ];
      PFact 0 (tp 3 4); PCons ].
Example pt_accept : check_tree pt_d pt_cs pt_tree = Ok TOk.
Proof. vm_compute. reflexivity. Qed.
Example pt_accept_neg : check_tree pt_d pt_cs (PNode 2 (tp 1 2) 0 [PFact 0 (tp 1 2); PNeg 0]) = Ok TOk.
Proof. vm_compute. reflexivity. Qed.
(** mutations *)
Example pt_wrong_rule :
  check_tree pt_d pt_cs (PNode 1 (tp 1 2) 7 [PFact 0 (tp 1 2)]) = Ok (TBadRule 1 (tp 1 2) 7) /\
  check_tree pt_d pt_cs (PNode 1 (tp 1 2) 1 [PFact 0 (tp 1 2)]) = Ok (TBadChild 1 (tp 1 2) 0).
Proof. vm_compute. auto. Qed.
Example pt_join_mismatch :
  check_tree pt_d pt_cs
    (PNode 1 (tp 1 4) 1 [ PNode 1 (tp 2 3) 1 [ PNode 1 (tp 2 3) 0 [PFact 0 (tp 2 3)] ]; PFact 0 (tp 3 4); PCons ])
  = Ok (TBadChild 1 (tp 1 4) 0).
Proof. vm_compute. reflexivity. Qed.
Example pt_neg_present :
  check_tree ((0%nat, [tp 1 2; tp 2 1]) :: nil) pt_cs (PNode 2 (tp 1 2) 0 [PFact 0 (tp 1 2); PNeg 0])
  = Ok (TNegPresent 2 (tp 1 2) 1).
Proof. vm_compute. reflexivity. Qed.
Example pt_false_constraint :
  check_tree ((0%nat, [tp 3 4; tp 4 3]) :: nil) pt_cs
    (PNode 1 (tp 3 3) 1 [ PNode 1 (tp 3 4) 0 [PFact 0 (tp 3 4)]; PFact 0 (tp 4 3); PCons ])
  = Ok (TConstraintFalse 1 (tp 3 3) 2).
Proof. vm_compute. reflexivity. Qed.
Example pt_fact_absent :
  check_tree pt_d pt_cs (PNode 1 (tp 9 9) 0 [PFact 0 (tp 9 9)]) = Ok (TFactAbsent 0 (tp 9 9)).
Proof. vm_compute. reflexivity. Qed.
Example pt_head_mismatch :
  check_tree pt_d pt_cs (PNode 1 [VNum 1] 0 [PFact 0 (tp 1 2)]) = Ok (THeadMismatch 1 [VNum 1] 0).
Proof. vm_compute. reflexivity. Qed.
Example pt_absent : absent pt_d 1 (tp 4 1) = true /\ absent pt_d 1 (tp 1 4) = false.
Proof. vm_compute. auto. Qed.

(** the hypotheses of [check_tree_sound] hold for this instance; hence p(1,4) is in the model *)
Example pt_hyps : strata_ok [] pt_ss = true /\ program_ok pt_ss = true /\ program_det pt_ss = true /\
                  tree_hyps pt_d pt_cs = true.
Proof. vm_compute. auto. Qed.
Example pt_d_is_model : forall r tup, In tup (rel_of pt_d r) <-> strat_model (holds pt_edb) pt_ss r tup.
Proof.
  destruct pt_hyps as (_ & H2 & H3 & _).
  apply (run_program_correct 10 pt_edb pt_ss pt_d [3; 1]%nat H2 H3); [|exact pt_run].
  apply db_nodup_check. vm_compute. reflexivity.
Qed.
Example pt_root_in_model : strat_model (holds pt_edb) pt_ss 1%nat (tp 1 4).
Proof.
  destruct pt_hyps as (H1 & H2 & _ & H4). destruct (tree_hyps_spec _ _ H4) as [Hnd _].
  destruct (check_tree_sound pt_edb pt_ss pt_d pt_tree H1 H2 Hnd pt_d_is_model pt_accept) as [_ H].
  apply H. reflexivity.
Qed.

(* NOT PROVED:
   - check_tree_complete_partial (every tuple of the model has an accepted tree of height bounded by
     the number of rounds): not attempted.
   - Witnesses for TBadChild / TConstraintFalse / TNegPresent / TAmbiguous are not stated: they
     depend on the bindings accumulated along the body, which the verdict does not carry. *)
