(** Specification and proofs for the proof-tree validator of ProofTreeDefs.v. *)
From SV Require Import DatalogDefs DatalogSem DatalogLemmas StratLemmas ProofTreeDefs.

(** * What a valid proof tree is (declaratively) *)
Definition concl (t : ptree) : option (nat * tuple) :=
  match t with PNode r tup _ _ | PFact r tup => Some (r, tup) | _ => None end.
(** the atoms proven by the children of a node *)
Definition children_interp (chs : list ptree) : interp :=
  fun r t => exists ch, In ch chs /\ concl ch = Some (r, t).
(** every node instantiates the cited clause: positive body atoms are conclusions of children,
    negated atoms / constraints / aggregates hold in the final database [d]; fact leaves are in [d] *)
Fixpoint valid (d : db) (cs : list clause) (t : ptree) {struct t} : Prop :=
  match t with
  | PNode r tup k chs =>
      (exists c, nth_error (clauses_for cs r) k = Some c /\ fires (children_interp chs) (holds d) c tup) /\
      (fix all (l : list ptree) : Prop := match l with [] => True | ch :: l' => valid d cs ch /\ all l' end) chs
  | PFact r tup => In tup (rel_of d r)
  | PNeg _ | PCons => True
  end.
Lemma valid_node d cs r tup k chs :
  valid d cs (PNode r tup k chs) <->
  (exists c, nth_error (clauses_for cs r) k = Some c /\ fires (children_interp chs) (holds d) c tup) /\
  Forall (valid d cs) chs.
Proof.
  simpl. apply and_iff_compat_l. induction chs as [|ch chs IH]; [split; auto|].
  rewrite IH. split; [intros [A B]; constructor; auto|intro H; inversion H; auto].
Qed.

Lemma ptree_ind' (P : ptree -> Prop) :
  (forall r t k chs, Forall P chs -> P (PNode r t k chs)) -> (forall r t, P (PFact r t)) ->
  (forall r, P (PNeg r)) -> P PCons -> forall t, P t.
Proof.
  intros Hn Hf Hg Hc. fix IH 1. intros [r t k chs|r t|r|].
  - apply Hn. induction chs as [|ch chs IHc]; constructor; [apply IH|apply IHc].
  - apply Hf.
  - apply Hg.
  - apply Hc.
Qed.

Lemma children_interp_cons ch chs : isub (children_interp chs) (children_interp (ch :: chs)).
Proof. intros r t (c & Hc & H). exists c. simpl; auto. Qed.

(** literals that are not positive atoms do not depend on [P] *)
Lemma sat_lit_anyP (P P' N : interp) outer e l : lit_pos l = [] -> sat_lit P N outer e l -> sat_lit P' N outer e l.
Proof. intro H. apply sat_lit_change; [rewrite H; intros r t []|intros; tauto]. Qed.
Lemma sat_lits_monoP (P P' N : interp) outer e ls : isub P P' ->
  Forall (sat_lit P N outer e) ls -> Forall (sat_lit P' N outer e) ls.
Proof.
  intros Hs H. eapply Forall_impl; [|exact H]. intros l Hl.
  eapply sat_lit_change; [| |exact Hl]; [intros; apply Hs; auto|intros; tauto].
Qed.

(** * Soundness of the walk over body literals and children *)
Lemma walk_sound d cs outer r0 t0 : db_nodup d -> forall ls chs i e B,
  Forall (fun ch => check_tree d cs ch = Ok TOk -> valid d cs ch) chs ->
  scoped outer B ls = true -> incl (flat_map lit_outer_vars ls) outer -> env_ok outer B e ->
  walk (fun ch => check_tree d cs ch) d r0 t0 i ls chs e = Ok TOk ->
  Forall (valid d cs) chs /\
  exists e', ext e e' /\ forall s, ext e' s -> Forall (sat_lit (children_interp chs) (holds d) outer s) ls.
Proof.
  intro Hnd. induction ls as [|l ls IH]; intros chs i e B HIH Hsc Hi Hok H.
  - destruct chs; [|discriminate]. split; [constructor|]. exists e. split; [apply ext_refl|constructor].
  - destruct chs as [|ch chs]; [destruct l as [[| |]| |]; discriminate|].
    simpl in Hsc. apply andb_true_iff in Hsc as [Hl Hsc].
    simpl in Hi. apply incl_app_inv in Hi as [Hi1 Hi2]. inversion HIH as [|? ? Hch HIH']; subst.
    (* common continuation *)
    assert (Hcont : forall e1 j, ext e e1 -> bound_after e e1 (lit_binds l) ->
              walk (fun ch => check_tree d cs ch) d r0 t0 j ls chs e1 = Ok TOk ->
              valid d cs ch ->
              (forall s, ext e1 s -> sat_lit (children_interp (ch :: chs)) (holds d) outer s l) ->
              Forall (valid d cs) (ch :: chs) /\
              exists e', ext e e' /\ forall s, ext e' s ->
                Forall (sat_lit (children_interp (ch :: chs)) (holds d) outer s) (l :: ls)).
    { intros e1 j Hx Hb Hw Hv Hsat.
      destruct (IH chs j e1 (lit_binds l ++ B) HIH' Hsc Hi2 (env_ok_step _ _ _ _ _ Hi1 Hok Hx Hb) Hw)
        as (Hvs & e' & Hx' & Hs').
      split; [constructor; auto|]. exists e'. split; [eapply ext_trans; eauto|].
      intros s Hs. constructor.
      - apply Hsat. eapply ext_trans; eauto.
      - eapply sat_lits_monoP; [apply children_interp_cons|]. auto. }
    destruct Hok as [HB Ho].
    destruct l as [[r args|r args|c a b]|x k ty target body|x ty from to step].
    + (* positive atom *)
      destruct ch as [r' tup k' chs'|r' tup|r'|]; try discriminate; cbn [walk] in H;
        (destruct (Nat.eqb r r') eqn:Er; [apply Nat.eqb_eq in Er; subst r'|discriminate]).
      * apply bind_ok in H as (o & Hm & H). destruct o as [e1|]; [|discriminate].
        apply bind_ok in H as (res & Hres & H). destruct res; try discriminate.
        apply match_terms_post in Hm. destruct Hm as (Hx & Hd & Hb & _).
        apply (Hcont e1 (S i) Hx Hb H (Hch Hres)). intros s Hs. constructor.
        apply (SatPos _ _ _ r args tup); [|eapply dens_mono; eauto].
        exists (PNode r tup k' chs'). simpl; auto.
      * destruct (mem_tuple tup (rel_of d r)) eqn:Hmem; [|discriminate].
        apply bind_ok in H as (o & Hm & H). destruct o as [e1|]; [|discriminate].
        apply match_terms_post in Hm. destruct Hm as (Hx & Hd & Hb & _).
        apply (Hcont e1 (S i) Hx Hb H). { simpl. now apply mem_tuple_spec. }
        intros s Hs. constructor. apply (SatPos _ _ _ r args tup); [|eapply dens_mono; eauto].
        exists (PFact r tup). simpl; auto.
    + (* negated atom *)
      destruct ch as [r' tup k' chs'|r' tup|r'|]; try discriminate; cbn [walk] in H.
      destruct (Nat.eqb r r'); [|discriminate].
      destruct (ground_or_anon e args) eqn:Hg; [|discriminate].
      apply bind_ok in H as (bb & Hb & H). destruct bb; [discriminate|].
      assert (Hst : step_slit d (SNeg r args) e = Ok [e]) by (simpl; rewrite Hg, Hb; reflexivity).
      destruct (step_slit_sound _ _ _ _ e Hst (or_introl eq_refl)) as (_ & _ & Hs).
      apply (Hcont e (S i) (ext_refl e) (bound_after_refl e) H I).
      intros s Hes. apply (sat_lit_anyP (holds d)); [reflexivity|]. constructor. now apply Hs.
    + (* constraint *)
      destruct ch as [r' tup k' chs'|r' tup|r'|]; try discriminate; cbn [walk] in H.
      apply bind_ok in H as (es & Hst & H). destruct es as [|e1 [|e2 es]]; try discriminate.
      destruct (step_lit_sound d outer B _ e [e1] e1 Hnd Hl HB Ho Hst (or_introl eq_refl)) as (Hx & Hb & Hs).
      apply (Hcont e1 (S i) Hx Hb H I). intros s Hes. apply (sat_lit_anyP (holds d)); [reflexivity|]. now apply Hs.
    + (* aggregate *)
      destruct ch as [r' tup k' chs'|r' tup|r'|]; try discriminate; cbn [walk] in H.
      apply bind_ok in H as (es & Hst & H). destruct es as [|e1 [|e2 es]]; try discriminate.
      destruct (step_lit_sound d outer B _ e [e1] e1 Hnd Hl HB Ho Hst (or_introl eq_refl)) as (Hx & Hb & Hs).
      apply (Hcont e1 (S i) Hx Hb H I). intros s Hes. apply (sat_lit_anyP (holds d)); [reflexivity|]. now apply Hs.
    + (* range *)
      destruct ch as [r' tup k' chs'|r' tup|r'|]; try discriminate; cbn [walk] in H.
      apply bind_ok in H as (es & Hst & H). destruct es as [|e1 [|e2 es]]; try discriminate.
      destruct (step_lit_sound d outer B _ e [e1] e1 Hnd Hl HB Ho Hst (or_introl eq_refl)) as (Hx & Hb & Hs).
      apply (Hcont e1 (S i) Hx Hb H I). intros s Hes. apply (sat_lit_anyP (holds d)); [reflexivity|]. now apply Hs.
Qed.

Lemma clauses_for_in cs r k c : nth_error (clauses_for cs r) k = Some c -> In c cs /\ c_rel c = r.
Proof.
  intro H. apply nth_error_In in H. unfold clauses_for in H. apply filter_In in H as [H1 H2].
  split; [exact H1|now apply Nat.eqb_eq].
Qed.

(** (a) an accepted tree is valid: every node is an instance of the clause it cites *)
Theorem check_tree_valid d cs t :
  db_nodup d -> clauses_ok cs = true -> check_tree d cs t = Ok TOk -> valid d cs t.
Proof.
  intros Hnd Hok. induction t as [r tup k chs IH|r tup|r|] using ptree_ind'; intro H.
  - apply valid_node. cbn [check_tree] in H.
    destruct (nth_error (clauses_for cs r) k) as [c|] eqn:Hc; [|discriminate].
    apply bind_ok in H as (o & Hm & H). destruct o as [e|]; [|discriminate].
    destruct (clauses_for_in _ _ _ _ Hc) as [Hin Hr].
    pose proof (clauses_ok_in _ _ Hok Hin) as Hcok. unfold clause_ok in Hcok.
    apply match_terms_post in Hm. destruct Hm as (_ & Hd & Hb & _).
    destruct (walk_sound d cs (clause_outer c) r tup Hnd (c_body c) chs 0 e [] IH Hcok (clause_outer_incl c))
      as (Hv & e' & Hx & Hs); [|exact H|].
    { split; [intros y []|]. intros y Hy. apply Hb in Hy as [Hy|Hy]; [now apply bound_nil in Hy|].
      unfold clause_outer. apply in_or_app. auto. }
    split; [|exact Hv]. exists c. split; [reflexivity|]. exists e'. split.
    + apply Hs. apply ext_refl.
    + eapply dens_mono; eauto.
  - simpl in H. simpl. destruct (mem_tuple tup (rel_of d r)) eqn:M; [now apply mem_tuple_spec|discriminate].
  - exact I.
  - exact I.
Qed.

(** * The stratified model is closed under every clause, reading everything in the model itself *)
Lemma least_model_unchanged L cs r t : ~ In r (defined_in cs) -> (least_model L cs r t <-> L r t).
Proof.
  intro Hr. split; [|apply least_model_lower].
  intro H. specialize (H (fun r' t' => L r' t' \/ In r' (defined_in cs))). simpl in H.
  destruct H as [H|H]; [intros r' t'; auto| |exact H|tauto].
  intros c t' Hc _. right. now apply in_map.
Qed.
Lemma strat_model_extensive ss : forall L, isub L (strat_model L ss).
Proof.
  induction ss as [|cs ss IH]; intros L r t H; simpl; [exact H|]. apply IH. now apply least_model_lower.
Qed.
Lemma strat_model_unchanged ss : forall L r t,
  ~ In r (flat_map defined_in ss) -> (strat_model L ss r t <-> L r t).
Proof.
  induction ss as [|cs ss IH]; intros L r t Hr; simpl; [tauto|]. simpl in Hr.
  rewrite IH by (intro; apply Hr, in_or_app; auto).
  apply least_model_unchanged. intro; apply Hr, in_or_app; auto.
Qed.

Theorem strat_model_closed ss : forall E L, SOK E ss ->
  forall c t, In c (concat ss) -> fires (strat_model L ss) (strat_model L ss) c t -> strat_model L ss (c_rel c) t.
Proof.
  induction ss as [|cs ss IH]; intros E L H c t Hc Hf; [destruct Hc|].
  destruct H as (H1 & H2 & H3). simpl concat in Hc. simpl strat_model in *.
  apply in_app_or in Hc as [Hc|Hc]; [|eapply IH; eauto].
  apply strat_model_extensive. apply least_model_closed; [exact Hc|].
  eapply fires_change; [| |exact Hf].
  - intros l r t' Hl Hr Hm. destruct (H1 c l Hc Hl) as [_ Hpos].
    apply (strat_model_unchanged ss _ r t' (Hpos r Hr)). exact Hm.
  - intros l r t' Hl Hr. destruct (H1 c l Hc Hl) as [Hlow _]. destruct (Hlow r Hr) as [A B].
    rewrite (strat_model_unchanged ss _ r t' B). now apply least_model_unchanged.
Qed.

(** * (b) the root of an accepted tree is in the stratified model *)
Lemma program_ok_concat ss : program_ok ss = true -> clauses_ok (concat ss) = true.
Proof.
  unfold program_ok, clauses_ok. rewrite !forallb_forall. intros H c Hc.
  apply in_concat in Hc as (cs & Hcs & Hc). specialize (H cs Hcs). unfold clauses_ok in H.
  rewrite forallb_forall in H. auto.
Qed.

Theorem valid_in_model edb ss d t :
  strata_ok [] ss = true ->
  (forall r tup, In tup (rel_of d r) <-> strat_model (holds edb) ss r tup) ->
  valid d (concat ss) t ->
  forall r tup, concl t = Some (r, tup) -> strat_model (holds edb) ss r tup.
Proof.
  intros Hst Hd. apply strata_ok_SOK in Hst.
  induction t as [r0 tup0 k chs IH|r0 tup0|r0|] using ptree_ind'; intros Hv r tup Hc; try discriminate.
  - inversion Hc; subst. apply valid_node in Hv as [(c & Hnth & Hf) Hvs].
    destruct (clauses_for_in _ _ _ _ Hnth) as [Hin <-].
    eapply strat_model_closed; eauto.
    eapply fires_change; [| |exact Hf].
    + intros l r' t' _ _ (ch & Hch & Hcc). rewrite Forall_forall in IH, Hvs. eapply IH; eauto.
    + intros l r' t' _ _. apply Hd.
  - inversion Hc; subst. apply Hd. exact Hv.
Qed.

Theorem check_tree_sound edb ss d t :
  strata_ok [] ss = true -> program_ok ss = true -> db_nodup d ->
  (forall r tup, In tup (rel_of d r) <-> strat_model (holds edb) ss r tup) ->
  check_tree d (concat ss) t = Ok TOk ->
  valid d (concat ss) t /\
  forall r tup, concl t = Some (r, tup) -> strat_model (holds edb) ss r tup.
Proof.
  intros Hst Hok Hnd Hd H.
  assert (Hv : valid d (concat ss) t) by (apply check_tree_valid; auto using program_ok_concat).
  split; [exact Hv|]. eapply valid_in_model; eauto.
Qed.
