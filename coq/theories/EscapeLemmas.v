From SV Require Import EscapeDefs.
Require Import ZifyBool ZifyN.
Local Open Scope N_scope.
Arguments N.eqb : simpl never.

Lemma esc_unesc c e : esc_char c = Some e -> unesc_char e = Some c /\ e <> 10.
Proof.
  unfold esc_char, unesc_char. intros H.
  repeat match type of H with
  | (if ?b then _ else _) = _ => destruct b eqn:?
  end; inversion H; subst; split; try reflexivity; try lia;
  repeat match goal with E : (_ =? _) = true |- _ => apply N.eqb_eq in E; subst end; reflexivity.
Qed.

Lemma esc_none c : esc_char c = None -> c <> 92 /\ c <> 34.
Proof.
  unfold esc_char. intros H.
  destruct (c =? 34) eqn:E1; [discriminate|]. destruct (c =? 92) eqn:E2; [discriminate|]. lia.
Qed.

(** printing then lexing is the identity, for EVERY byte string, and the printed text is one STRING token *)
Theorem reparse_escape s : reparse (escape s) = Some s.
Proof.
  unfold reparse.
  assert (H : token_body_ok (escape s) = true /\ lex_string (escape s) = Some s).
  { induction s as [|c r [IHt IHl]]; [split; reflexivity|].
    cbn [escape]. destruct (esc_char c) as [e|] eqn:E.
    - destruct (esc_unesc c e E) as [Hu Hn].
      cbn [token_body_ok lex_string]. change (92 =? 92) with true. cbv iota.
      rewrite Hu, IHl, IHt. split; [|reflexivity].
      apply N.eqb_neq in Hn. rewrite Hn. reflexivity.
    - destruct (esc_none c E) as [H92 H34].
      cbn [token_body_ok lex_string]. apply N.eqb_neq in H92, H34. rewrite H92, H34, IHl, IHt. split; reflexivity. }
  destruct H as [Ht Hl]. rewrite Ht. exact Hl.
Qed.

(** the printer before the fix does not have this property: the constant a, double quote, b *)
Theorem print_raw_refuted : exists s, reparse (print_raw s) <> Some s.
Proof. exists [97; 34; 98]. vm_compute. discriminate. Qed.
(** ... nor for a backslash followed by a letter that is an escape: the constant \n (two characters) comes back as one newline *)
Theorem print_raw_refuted_backslash : exists s s', reparse (print_raw s) = Some s' /\ s' <> s.
Proof. exists [92; 110], [10]. vm_compute. split; [reflexivity | discriminate]. Qed.

(** escape is injective (two constants never print the same) *)
Theorem escape_injective a b : escape a = escape b -> a = b.
Proof.
  intros H. assert (Ha := reparse_escape a). assert (Hb := reparse_escape b). rewrite H in Ha. congruence.
Qed.

Example tricky : reparse (escape [34; 92; 10; 9; 39; 0; 255; 92]) = Some [34; 92; 10; 9; 39; 0; 255; 92].
Proof. vm_compute. reflexivity. Qed.
