(** C09 (part b) -- the RAM that Souffle emits for a recursive stratum is an instance of the abstract
    semi-naive scheme.  Only statements here; definitions and proofs are in SemiNaiveRam.v.

    [stratum_check : stratum -> result] is the extracted validator (ocaml/snram_driver.ml); a [stratum]
    is the skeleton of one [LOOP] of [souffle --show=initial-ram] (produced by harness/ramparse.py):
      st_scc / st_preamble / st_exit / st_limits / st_update   the frame
      st_nullary                the relations whose copy statements have the form for arity 0
                                ([IF (NOT ISEMPTY(src)) INSERT () INTO dst])
      st_clauses : list clause;  c_versions : list version      one version per QUERY of the clause
      v_scans (tuple id, relation, kind) / v_eqs / v_negs / v_ins_rel, v_ins_kind, v_ins_args
      v_tests     [IF (NOT ISEMPTY(rel))] of the atoms without a scan (arity 0, or only unnamed arguments)
      v_empties   [IF ISEMPTY(rel)]: negated delta of an atom of arity 0, guard of a head of arity 0,
                  negated atom of arity 0, the test in front of [INSERT () INTO @new_H]
      v_breaks    [IF (NOT ISEMPTY(@new_H)) BREAK]
      kind: KMain = R, KDelta = @delta_R, KNew = @new_R;  elem: EComp t i = t.i, EOther n = other expression
    Semantics (R, D, Nw : relation id -> tuple -> Prop are the main, @delta, @new relations):
      ev asg kenv x           value of element x; asg binds the tuple ids, kenv the other expressions
      sat_eqs asg kenv eqs    all equality filters hold
      scan_sat asg s          the tuple bound to s_tup s is in the relation selected by s_kind s
      neg_sat asg kenv n      [NOT (args) IN rel] holds
      test_sat e / empt_sat e the relation selected by e_kind e is not empty / is empty
      typed_version arity asg v   scanned tuples and existence checks have the arity of their relation
      fset_of scc X (r, t)    := In r scc /\ X r t      (the SCC facts of a relation family)
      scc_scans scc v         the scans of SCC relations;  delta_negs v: the [NOT .. IN @delta_] filters
      scc_atoms scc v         the SCC atoms: the SCC scans, then the SCC relations of v_tests (no tuple id)
      atom_sat asg a          scan_sat for an atom with a scan, else: its relation is not empty
      delta_empties v         the [ISEMPTY(@delta_r)] filters
      clause_facts scc c asg w  the facts bound to the SCC atoms, in the order of the versions (version i
                              has its delta on the i-th of them; = scan order unless the SIPS moved atoms);
                              an atom without a scan contributes (its relation, w p), p its position in scc_atoms
      head_fact asg kenv v    (v_ins_rel v, values of v_ins_args v)
      state = (stR, stD, stN); run_preamble, run_updates, exit_cond, limits_hit: the frame statements
      new_nullary nul st      the @new relations of [nul] hold at most the empty tuple
      ram_loop s body st res  the emitted loop with loop body [body], started in [st], leaves [res]
      version_emits .. v h    the QUERY of version v inserts h;  body_emitted: union over all QUERYs
      fire_clause c ts h      the clause without its SCC atoms: lower-stratum scans, negations and
                              emptiness tests, equalities, other filters ([others_sat], per clause), head
    [version_ok], [New], [loop_run], [size_ge] are those of SemiNaiveAbs.v / Properties_C09.v. *)
From Coq Require Import List NArith.
From SV Require Import SemiNaiveAbs SemiNaiveRam.
Import ListNotations.

(** Version [i] of an accepted clause enumerates exactly the combinations of SCC facts that the
    abstract scheme assigns to version [i].  An atom without a scan (arity 0, or only unnamed
    arguments) stands for some tuple of its relation, supplied by [w]; its negated delta is
    [ISEMPTY(@delta_r)], accepted only for the relations of [st_nullary], which hold at most the empty
    tuple. *)
Theorem C09_emitted_version_is_scheme_instance :
  forall (val : Type) (dflt : val) (s : stratum) (R D Nw : rel_interp val) (arity : N -> nat)
         (c : clause) (i : nat) (v : version) (asg : N -> tuple val) (kenv : N -> val),
    stratum_check s = OkResult -> In c (st_clauses s) -> nth_error (c_versions c) i = Some v ->
    typed_version arity asg v -> sat_eqs dflt asg kenv (v_eqs v) ->
    (forall r t, In r (st_scc s) -> D r t -> R r t) ->
    (forall r t, In r (st_nullary s) -> R r t -> t = []) ->
    (forall w, i < length (clause_facts (st_scc s) c asg w)) /\
    ((Forall (atom_sat R D Nw asg) (scc_atoms (st_scc s) v) /\
      Forall (neg_sat dflt R D Nw asg kenv) (delta_negs v) /\
      Forall (empt_sat R D Nw) (delta_empties v)) <->
     exists w, version_ok (fset_of (st_scc s) R) (fset_of (st_scc s) D) i (clause_facts (st_scc s) c asg w)).
Proof. exact stratum_version_sound. Qed.
Print Assumptions C09_emitted_version_is_scheme_instance.

(** The same for a version whose SCC atoms all have scans: the statement about the scans alone; the
    facts do not depend on [w]. *)
Theorem C09_emitted_version_is_scheme_instance_scans :
  forall (val : Type) (dflt : val) (s : stratum) (R D Nw : rel_interp val) (arity : N -> nat)
         (c : clause) (i : nat) (v : version) (asg : N -> tuple val) (kenv : N -> val)
         (w : nat -> tuple val),
    stratum_check s = OkResult -> In c (st_clauses s) -> nth_error (c_versions c) i = Some v ->
    scc_tests (st_scc s) v = [] ->
    typed_version arity asg v -> sat_eqs dflt asg kenv (v_eqs v) ->
    (forall r t, In r (st_scc s) -> D r t -> R r t) ->
    i < length (clause_facts (st_scc s) c asg w) /\
    ((Forall (scan_sat R D Nw asg) (scc_scans (st_scc s) v) /\
      Forall (neg_sat dflt R D Nw asg kenv) (delta_negs v)) <->
     version_ok (fset_of (st_scc s) R) (fset_of (st_scc s) D) i (clause_facts (st_scc s) c asg w)).
Proof. exact stratum_version_sound_scans. Qed.
Print Assumptions C09_emitted_version_is_scheme_instance_scans.

(** Every version inserts into @new of an SCC relation, and only facts that are not in the main
    relation ([NOT (args) IN H], or [ISEMPTY(H)] for a head without arguments). *)
Theorem C09_emitted_head_guard :
  forall (val : Type) (dflt : val) (s : stratum) (R D Nw : rel_interp val)
         (c : clause) (i : nat) (v : version),
    stratum_check s = OkResult -> In c (st_clauses s) -> nth_error (c_versions c) i = Some v ->
    v_ins_kind v = KNew /\ In (v_ins_rel v) (st_scc s) /\
    forall asg kenv, Forall (neg_sat dflt R D Nw asg kenv) (v_negs v) ->
                     Forall (empt_sat R D Nw) (v_empties v) ->
                     ~ fset_of (st_scc s) R (head_fact dflt asg kenv v).
Proof. exact stratum_head_guard_sound. Qed.
Print Assumptions C09_emitted_head_guard.

(** The frame of an accepted stratum is the loop of SemiNaiveAbs: preamble, limit exits, one pass
    (emptiness exit and table updates) against the abstract step, and the whole loop against
    [loop_run] for any loop body that computes [New].  The relations with the arity-0 copy
    statements are assumed to hold at most the empty tuple. *)
Theorem C09_emitted_frame_is_loop :
  forall (val rule : Type) (rules : list rule) (arity : rule -> nat)
         (fire : rule -> list (fact val) -> fact val -> Prop) (s : stratum),
    stratum_check s = OkResult ->
    let scc := st_scc s in
    let nul := st_nullary s in
    let NewF := New rules arity fire in
    (forall st : state val, (forall r t, In r scc -> ~ stD st r t) ->
       (forall r t, In r nul -> stR st r t -> t = []) ->
       forall f, fset_of scc (stD (run_preamble nul (st_preamble s) st)) f <-> fset_of scc (stR st) f) /\
    (forall st : state val, limits_hit (st_limits s) st <-> limit_hit_of val s (fset_of scc (stR st))) /\
    (forall st : state val,
       let Rf := fset_of scc (stR st) in
       let Df := fset_of scc (stD st) in
       let st' := run_updates nul (st_update s) st in
       new_nullary nul st ->
       (forall f, fset_of scc (stN st) f <-> NewF Rf Df f) ->
       (exit_cond (st_exit s) st <-> (forall h, ~ NewF Rf Df h)) /\
       (forall f, fset_of scc (stR st') f <-> (Rf f \/ NewF Rf Df f)) /\
       (forall f, fset_of scc (stD st') f <-> NewF Rf Df f) /\
       (forall f, ~ fset_of scc (stN st') f) /\
       (forall r t, ~ In r scc -> (stR st' r t <-> stR st r t))) /\
    (forall (body : rel_interp val -> rel_interp val -> rel_interp val) (Good : state val -> Prop),
       (forall st, Good st -> forall f,
          fset_of scc (body (stR st) (stD st)) f <-> NewF (fset_of scc (stR st)) (fset_of scc (stD st)) f) ->
       (forall st, Good st -> forall r t, In r nul -> body (stR st) (stD st) r t -> t = []) ->
       (forall st, Good st -> (forall f, ~ fset_of scc (stN st) f) ->
          Good (run_updates nul (st_update s) (run_body val body st))) ->
       forall st res, ram_loop val s body st res -> Good st -> (forall f, ~ fset_of scc (stN st) f) ->
       exists res', loop_run rules arity fire (limit_hit_of val s)
                             (fset_of scc (stR st)) (fset_of scc (stD st)) res' /\
                    forall f, res' f <-> fset_of scc res f).
Proof. exact frame_ok_sound. Qed.
Print Assumptions C09_emitted_frame_is_loop.

(** The three statements composed.  One QUERY: version [i] of clause [c] inserts [h] iff [h] is new
    and some combination accepted by the abstract version [i] fires the clause.  ([empties_nullary]:
    the relations under [ISEMPTY(@delta_r)] have arity 0; the @new relation tested in front of
    [INSERT () INTO @new_H] is empty.) *)
Theorem C09_emitted_version_emits :
  forall (val : Type) (dflt : val) (scc : list N) (arity : N -> nat)
         (kv : (N -> tuple val) -> N -> val) (others_sat : N -> (N -> tuple val) -> Prop)
         (L R D Nw : rel_interp val),
    (forall r t, R r t -> length t = arity r) ->
    (forall r t, In r scc -> D r t -> R r t) ->
    (forall r t, ~ In r scc -> (R r t <-> L r t)) ->
    forall (c : clause) (i : nat) (v : version) (h : fact val),
      clause_check scc c = OkResult -> nth_error (c_versions c) i = Some v ->
      static_typed arity c -> empties_nullary arity c ->
      (forall e, In e (v_empties v) -> e_kind e = KNew -> forall t, ~ Nw (e_rel e) t) ->
      (version_emits dflt kv others_sat R D Nw (c_id c) v h <->
       ~ fset_of scc R h /\
       exists ts, version_ok (fset_of scc R) (fset_of scc D) i ts /\
                  fire_clause dflt scc arity kv others_sat L c ts h).
Proof. exact version_emits_iff. Qed.
Print Assumptions C09_emitted_version_emits.

(** The test [IF ISEMPTY(@new_H)] in front of [INSERT () INTO @new_H] (head of arity 0) does not change
    what @new holds after the QUERY: run on the @new relations [Nw] it finds, the QUERY leaves the
    same tuples in @new as run on empty @new relations (as [body_emitted] takes it). *)
Theorem C09_emitted_self_test_redundant :
  forall (val : Type) (dflt : val) (scc : list N)
         (kv : (N -> tuple val) -> N -> val) (others_sat : N -> (N -> tuple val) -> Prop)
         (R D Nw : rel_interp val) (c : clause) (i : nat) (v : version),
    clause_check scc c = OkResult -> nth_error (c_versions c) i = Some v ->
    (forall t, Nw (v_ins_rel v) t -> t = []) ->
    (exists t, Nw (v_ins_rel v) t) \/ (forall t, ~ Nw (v_ins_rel v) t) ->
    forall f, (Nw (fst f) (snd f) \/ version_emits dflt kv others_sat R D Nw (c_id c) v f) <->
              (Nw (fst f) (snd f) \/ version_emits dflt kv others_sat R D (fun _ _ => False) (c_id c) v f).
Proof. exact self_test_redundant. Qed.
Print Assumptions C09_emitted_self_test_redundant.

(** The whole stratum: preamble and loop of an accepted skeleton, with the QUERYs as loop body, run
    as [loop_run] with the clauses as rules, from the main relations [R0] left by the non-recursive
    rules; heads and SCC atoms of arity 0 included.  (So C09_step_eq_naive, C09_seminaive_complete,
    C23_* ... speak about the emitted RAM; their premise on rules without SCC atoms holds by
    [emitted_arity_pos].) *)
Theorem C09_emitted_stratum_is_loop_run :
  forall (val : Type) (dflt : val) (arity : N -> nat)
         (kv : (N -> tuple val) -> N -> val) (others_sat : N -> (N -> tuple val) -> Prop)
         (L : rel_interp val) (s : stratum),
    stratum_check s = OkResult ->
    (forall c, In c (st_clauses s) -> static_typed arity c) ->
    (forall r, In r (st_nullary s) -> arity r = 0) ->
    forall (st : state val) (res : rel_interp val),
      (forall r t, stR st r t -> length t = arity r) ->
      (forall r t, ~ In r (st_scc s) -> (stR st r t <-> L r t)) ->
      (forall r t, In r (st_scc s) -> ~ stD st r t) ->
      (forall r t, In r (st_scc s) -> ~ stN st r t) ->
      ram_loop val s (body_emitted val dflt kv others_sat s)
               (run_preamble (st_nullary s) (st_preamble s) st) res ->
      exists res' : fset (fact val),
        loop_run (st_clauses s) clause_arity (fire_clause dflt (st_scc s) arity kv others_sat L)
                 (limit_hit_of val s) (fset_of (st_scc s) (stR st)) (fset_of (st_scc s) (stR st)) res' /\
        forall f, res' f <-> fset_of (st_scc s) res f.
Proof. exact emitted_stratum_sound. Qed.
Print Assumptions C09_emitted_stratum_is_loop_run.

Theorem C09_emitted_arity_pos :
  forall s : stratum, stratum_check s = OkResult ->
    forall c, In c (st_clauses s) -> 0 < clause_arity c.
Proof. exact emitted_arity_pos. Qed.
Print Assumptions C09_emitted_arity_pos.
