(** Executable model of Souffle's concurrent flyweight (symbol table / record table core) at
    the granularity of its atomic steps.

    Subject: src/include/souffle/datastructure/ConcurrentFlyweight.h
             ([ConcurrentFlyweight::findOrInsert], [tryGrow], [fetch], [Iterator]) on top of
             src/include/souffle/utility/ParallelUtil.h ([MutexConcurrentLanes]).
    Users:   datastructure/SymbolTableImpl.h (encode = findOrInsert(..).first, decode = fetch;
             not reserve-first) and datastructure/RecordTableImpl.h (pack = findOrInsert(..).first,
             unpack = fetch, enumerate = begin()..end(); reserve-first: index 0 is the nil record).

    One thread per lane (lane id = thread id). A thread's program is a list of operations
    [OIns key] (findOrInsert) and [OFetch index] (fetch). Every constructor of [fpc] is a program
    point in front of one atomic operation (a mutex operation, an atomic load / fetch_add, a plain
    store to the shared slot array, the call of [Mapping.get]); [fstep st t] executes that
    operation together with the thread-local code up to the next one, or returns [None] when the
    thread is finished or the operation blocks.

    The hash map [Mapping] is abstract here: [Mapping.get(H, Node, key)] is ONE step that either
    finds the published node carrying [key] (result: that node's index, false) or publishes the
    caller's node for [key] (result: own slot, true). This is what HashMapLemmas.get_unique_node
    (Properties_C31.C31_get_unique_node) provides for the concrete map: per key exactly one
    caller inserts, all others receive the inserter's node; a node can be received only after its
    publication, and the inserter has executed [Slots[Slot] = &Node->value()] before it calls
    [get] (program order), which is the only ordering fact the flyweight relies on. The mapping's
    own lanes and growth are internal to [get] and do not touch the flyweight's fields.

    The slot-array growth in [tryGrow] is one step because it runs while the grower holds every
    flyweight lane, and every access to [Slots] happens inside a lane
    ([FlyweightLemmas.fgrow_exclusive] proves that the others are outside their lanes).

    Definitions only; the proofs are in FlyweightLemmas.v. *)
From SV Require Export HashMapDefs.
Local Open Scope N_scope.

(** [slot_type] sentinels: NONE = max, END = NONE - 1 (64-bit). *)
Definition W64 : N := 2 ^ 64.
Definition NONE : N := W64 - 1.
Definition END : N := W64 - 2.

(** A node of the mapping: its key (default-constructed, here [None], until [get] stores the key
    when it inserts the node) and its mapped value, the index. *)
Record fnode := mkFNode { fkey : option N; fval : N }.
Definition dfnode : fnode := mkFNode None 0.

(** [Handle]: the lane's reserved slot and node ([NONE] / [nullptr] = [None]). *)
Record handle := mkHandle { hslot : option N; hnode : option nat }.
Definition dhandle : handle := mkHandle None None.
Definition hval (h : handle) : N := match hslot h with Some s => s | None => NONE end.

Inductive op := OIns (k : N) | OFetch (i : N).

Inductive fresponse :=
| RIns (k : N) (idx : N) (inserted : bool)       (* findOrInsert(k) = (idx, inserted) *)
| RFetch (i : N) (r : option N).                 (* fetch(i) = r; None: null slot (precondition violated) *)

Inductive fpc : Type :=
| FIdle                          (* before  Lanes.guard(H)   (findOrInsert or fetch) *)
| FReserve                       (* before  Slot = NextSlot++ *)
| FCheck (s : N)                 (* before  if (Slot >= SlotCount.load()) *)
| FTryBLA                        (* tryGrow/beforeLockAllBut: BeforeLockAll.try_lock() *)
| FYield                         (* beforeLockAllBut: unlock(Lane) *)
| FWaitBLA                       (* beforeLockAllBut: BeforeLockAll.lock() *)
| FRelock                        (* beforeLockAllBut: lock(Lane) *)
| FRecheck                       (* tryGrow: if (NextSlot < SlotCount) *)
| FNoGrow                        (* tryGrow, size is fine: beforeUnlockAllBut *)
| FAcquire (i : nat)             (* lockAllBut: Lanes[i].Access.lock() *)
| FGrow                          (* safe section of tryGrow *)
| FRelBLA                        (* beforeUnlockAllBut *)
| FRelease (i : nat)             (* unlockAllBut: Lanes[i].Access.unlock() *)
| FWrite (s : N)                 (* before  Slots[Slot] = &Node->value() *)
| FGet (s : N)                   (* before  Mapping.get(H, Node, key) *)
| FClear (s : N) (idx : N)       (* before  Slots[Slot] = nullptr  (get returned (idx,false)) *)
| FUnlock (idx : N) (ins : bool) (* guard destructor: unlock(H); return (idx, ins) *)
| TRead (i : N)                  (* fetch: before reading Slots[Idx]->first *)
| TUnlock (i : N) (r : option N). (* fetch: guard destructor *)

Record fthread := mkFThread { ftodo : list op; ftpc : fpc }.
Definition dfthread : fthread := mkFThread [] FIdle.

Record fstate := mkFState {
  fslots   : list (option nat);    (* Slots[0 .. SlotCount-1]: pointer to a node or null *)
  fnodes   : list fnode;           (* all nodes ever allocated (Mapping.node), by allocation number *)
  fmap     : list nat;             (* abstract Mapping: the published nodes, newest first *)
  fnext    : N;                    (* NextSlot *)
  fcount   : N;                    (* SlotCount *)
  fhandles : list handle;          (* Handles[lane] *)
  flanes   : list (option nat);    (* Lanes[i].Access, with ghost owner *)
  fbla     : option nat;           (* BeforeLockAll *)
  fthreads : list fthread }.

Definition fset_thr (st : fstate) (t : nat) (th : fthread) : fstate :=
  mkFState (fslots st) (fnodes st) (fmap st) (fnext st) (fcount st) (fhandles st) (flanes st)
           (fbla st) (setn (fthreads st) t th).
Definition fset_lane (st : fstate) (i : nat) (v : option nat) : fstate :=
  mkFState (fslots st) (fnodes st) (fmap st) (fnext st) (fcount st) (fhandles st)
           (setn (flanes st) i v) (fbla st) (fthreads st).
Definition fset_bla (st : fstate) (v : option nat) : fstate :=
  mkFState (fslots st) (fnodes st) (fmap st) (fnext st) (fcount st) (fhandles st) (flanes st) v
           (fthreads st).
Definition fset_slots (st : fstate) (s : list (option nat)) : fstate :=
  mkFState s (fnodes st) (fmap st) (fnext st) (fcount st) (fhandles st) (flanes st) (fbla st)
           (fthreads st).

Definition flane_free (st : fstate) (i : nat) : bool :=
  match nth i (flanes st) None with None => true | Some _ => false end.

Definition facq_next (nl t i : nat) : fpc :=
  let j := skip t i in if Nat.ltb j nl then FAcquire j else FGrow.

(** After [tryGrow] returns: [Slot = Handles[H].NextSlot] and back to the top of the loop. *)
Definition after_grow (st : fstate) (t : nat) : fpc :=
  match hslot (nth t (fhandles st) dhandle) with
  | Some s => FCheck s
  | None => FReserve
  end.

Definition frel_next (st : fstate) (nl t i : nat) : fpc :=
  let j := skip t i in if Nat.ltb j nl then FRelease j else after_grow st t.

(** [NewSize = CurrentSize << 1; while (NewSize < NextSlot) NewSize <<= 1;] ([fuel] doublings at
    most; with CurrentSize = 0 the C++ loop does not terminate, the model then returns 0). *)
Fixpoint dbl (fuel : nat) (sz next : N) : N :=
  match fuel with
  | O => sz
  | S f => if sz <? next then dbl f (2 * sz) next else sz
  end.

Definition dbl_fuel : nat := 64.

(** The abstract [Mapping]: the published node whose key is [k]. *)
Definition map_find (st : fstate) (k : N) : option nat :=
  find (fun id => match fkey (nth id (fnodes st) dfnode) with
                  | Some k' => N.eqb k' k
                  | None => false
                  end) (fmap st).

(** What [fetch(H, Idx)] reads: [Slots[Idx]->first] ([None]: out of range, null slot, or a node
    whose key is not yet constructed). *)
Definition fetch_now (st : fstate) (i : N) : option N :=
  if i <? fcount st then
    match nth (N.to_nat i) (fslots st) None with
    | Some nd => fkey (nth nd (fnodes st) dfnode)
    | None => None
    end
  else None.

Section FModel.
  (** [rf]: FirstSlotIsReserved. *)
  Context (rf : bool).

  Definition fstep (st : fstate) (t : nat) : option (fstate * list fresponse) :=
    match nth_error (fthreads st) t with
    | None => None
    | Some th =>
      match ftodo th with
      | [] => None
      | o :: rest =>
        let goto s p := fset_thr s t (mkFThread (o :: rest) p) in
        let nl := length (flanes st) in
        let hd := nth t (fhandles st) dhandle in
        match ftpc th, o with
        | FIdle, OIns _ =>                       (* Lanes.guard(H); Slot = Handles[H].NextSlot *)
            if flane_free st t then
              Some (goto (fset_lane st t (Some t))
                         (match hslot hd with Some s => FCheck s | None => FReserve end), [])
            else None
        | FIdle, OFetch i =>                     (* Lanes.guard(H) *)
            if flane_free st t then Some (goto (fset_lane st t (Some t)) (TRead i), []) else None
        | FReserve, _ =>                         (* Slot = NextSlot++; handle := (Slot, node(Slot)) *)
            let s := fnext st in
            let nd := length (fnodes st) in
            Some (goto (mkFState (fslots st) (fnodes st ++ [mkFNode None s]) (fmap st) (s + 1)
                                 (fcount st) (setn (fhandles st) t (mkHandle (Some s) (Some nd)))
                                 (flanes st) (fbla st) (fthreads st))
                       (FCheck s), [])
        | FCheck s, _ =>                         (* if (Slot >= SlotCount) tryGrow else break *)
            if fcount st <=? s then Some (goto st FTryBLA, []) else Some (goto st (FWrite s), [])
        | FTryBLA, _ =>
            match fbla st with
            | None => Some (goto (fset_bla st (Some t)) FRecheck, [])
            | Some _ => Some (goto st FYield, [])
            end
        | FYield, _ => Some (goto (fset_lane st t None) FWaitBLA, [])
        | FWaitBLA, _ =>
            match fbla st with
            | None => Some (goto (fset_bla st (Some t)) FRelock, [])
            | Some _ => None
            end
        | FRelock, _ =>
            if flane_free st t then Some (goto (fset_lane st t (Some t)) FRecheck, []) else None
        | FRecheck, _ =>                         (* if (NextSlot < SlotCount) *)
            if fnext st <? fcount st then Some (goto st FNoGrow, [])
            else Some (goto st (facq_next nl t 0), [])
        | FNoGrow, _ =>                          (* beforeUnlockAllBut; return; Slot = Handles[H].NextSlot *)
            Some (goto (fset_bla st None) (after_grow st t), [])
        | FAcquire i, _ =>
            if flane_free st i then Some (goto (fset_lane st i (Some t)) (facq_next nl t (S i)), [])
            else None
        | FGrow, _ =>                            (* double the slot array, memcpy the old content *)
            let ns := dbl dbl_fuel (2 * fcount st) (fnext st) in
            Some (goto (mkFState (fslots st ++ repeat None (N.to_nat ns - N.to_nat (fcount st)))
                                 (fnodes st) (fmap st) (fnext st) ns (fhandles st) (flanes st)
                                 (fbla st) (fthreads st))
                       FRelBLA, [])
        | FRelBLA, _ => Some (goto (fset_bla st None) (frel_next st nl t 0), [])
        | FRelease i, _ => Some (goto (fset_lane st i None) (frel_next st nl t (S i)), [])
        | FWrite s, _ =>                         (* Node = Handles[H].NextNode; Slots[Slot] = &Node->value() *)
            Some (goto (fset_slots st (setn (fslots st) (N.to_nat s) (hnode hd))) (FGet s), [])
        | FGet s, OIns k =>                      (* Mapping.get(H, Node, k) *)
            match map_find st k with
            | Some ex =>
                Some (goto st (FClear s (fval (nth ex (fnodes st) dfnode))), [])
            | None =>
                match hnode hd with
                | Some nd =>                     (* inserted: Handles[H].clear() *)
                    Some (goto (mkFState (fslots st) (setn (fnodes st) nd (mkFNode (Some k) s))
                                         (nd :: fmap st) (fnext st) (fcount st)
                                         (setn (fhandles st) t dhandle) (flanes st) (fbla st)
                                         (fthreads st))
                               (FUnlock s true), [])
                | None => None                   (* null node: not reachable *)
                end
            end
        | FClear s idx, _ =>                     (* Slots[Slot] = nullptr *)
            Some (goto (fset_slots st (setn (fslots st) (N.to_nat s) None)) (FUnlock idx false), [])
        | FUnlock idx ins, OIns k =>
            Some (fset_thr (fset_lane st t None) t (mkFThread rest FIdle), [RIns k idx ins])
        | TRead i, _ =>
            Some (goto st (TUnlock i (fetch_now st i)), [])
        | TUnlock i r, _ =>
            Some (fset_thr (fset_lane st t None) t (mkFThread rest FIdle), [RFetch i r])
        | _, _ => None                           (* program point / operation mismatch: not reachable *)
        end
      end
    end.

  (** Initial state: capacity [cap0] (InitialCapacity), NextSlot = 1 if reserve-first else 0. *)
  Definition finit (cap0 : N) (progs : list (list op)) : fstate :=
    mkFState (repeat None (N.to_nat cap0)) [] [] (if rf then 1 else 0) cap0
             (map (fun _ => dhandle) progs) (map (fun _ => None) progs) None
             (map (fun p => mkFThread p FIdle) progs).

  Fixpoint fexec (st : fstate) (sched : list nat) : fstate * list (nat * fresponse) * list nat :=
    match sched with
    | [] => (st, [], [])
    | t :: r =>
        match fstep st t with
        | None => fexec st r
        | Some (st', rs) =>
            let '(s, out, stp) := fexec st' r in (s, map (pair t) rs ++ out, t :: stp)
        end
    end.

  Definition frun (cap0 : N) (progs : list (list op)) (sched : list nat)
    : fstate * list (nat * fresponse) :=
    fst (fexec (finit cap0 progs) sched).

  (** ** The iterator (begin() .. end()), as executed in a quiescent state *)

  (** FindNextMaybeUnassignedSlot: the smallest reserved slot above [slot] (any, if [slot] is
      NONE) and the handle owning it; otherwise (NextSlot, NONE). *)
  Definition find_next (st : fstate) (slot : N) : N * option nat :=
    let '(s, h, _) :=
      fold_left (fun (acc : N * option nat * nat) hd =>
                   let '(nmus, nmuh, i) := acc in
                   let v := hval hd in
                   if ((slot =? NONE) || (slot <? v)) && (v <? nmus) then (v, Some i, S i)
                   else (nmus, nmuh, S i))
                (fhandles st) (END, None, O) in
    if s =? END then (fnext st, None) else (s, h).

  (** MoveToNextAssignedSlot; result: the new (Slot, NextMaybeUnassignedSlot, ..Handle). *)
  Fixpoint move_next (st : fstate) (fuel : nat) (slot nmus : N) (nmuh : option nat)
    : N * N * option nat :=
    match fuel with
    | O => (END, END, None)
    | S f =>
        if slot =? END then (slot, nmus, nmuh)
        else
          let s1 := (slot + 1) mod W64 in
          if s1 <? nmus then
            if (s1 =? 0) && rf then move_next st f s1 nmus nmuh else (s1, nmus, nmuh)
          else
            match nmuh with
            | None => (END, END, None)
            | Some h =>
                let assigned := s1 <? hval (nth h (fhandles st) dhandle) in
                let (nmus', nmuh') := find_next st s1 in
                if assigned then (s1, nmus', nmuh') else move_next st f s1 nmus' nmuh'
            end
    end.

  Fixpoint iter_loop (st : fstate) (fuel fuel2 : nat) (slot nmus : N) (nmuh : option nat) : list N :=
    match fuel with
    | O => []
    | S f =>
        if slot =? END then []
        else slot :: (let '(s', a, b) := move_next st fuel2 slot nmus nmuh in
                      iter_loop st f fuel2 s' a b)
    end.

  (** [for (It = begin(); It != end(); ++It) yield It.Slot]. *)
  Definition iterate (st : fstate) : list N :=
    let fuel := (N.to_nat (fnext st) + length (fhandles st) + 3)%nat in
    let (a, b) := find_next st NONE in
    let '(s, a', b') := move_next st fuel NONE a b in
    iter_loop st fuel fuel s a' b'.

  (** ** Executable monitor *)

  Definition is_ins (r : nat * fresponse) : bool := match snd r with RIns _ _ _ => true | _ => false end.
  Definition ikey (r : nat * fresponse) : N := match snd r with RIns k _ _ => k | RFetch i _ => i end.
  Definition iidx (r : nat * fresponse) : N := match snd r with RIns _ i _ => i | RFetch i _ => i end.
  Definition iins (r : nat * fresponse) : bool := match snd r with RIns _ _ b => b | _ => false end.

  Definition fquiescent (st : fstate) : bool :=
    forallb (fun th => match ftodo th with [] => true | _ => false end) (fthreads st).

  Definition published_pairs (st : fstate) : list (N * option N) :=
    map (fun id => (fval (nth id (fnodes st) dfnode), fkey (nth id (fnodes st) dfnode))) (fmap st).

  Definition opt_eqb (a b : option N) : bool :=
    match a, b with Some x, Some y => N.eqb x y | None, None => true | _, _ => false end.

  (** Bijection between keys and indices over the responses, decode after encode, nil never
      handed out, fetch never returns a wrong key, and at quiescence the iterator lists exactly
      the published indices, each once. *)
  Definition fmon (st : fstate) (rs : list (nat * fresponse)) : bool :=
    let ins := filter is_ins rs in
    forallb (fun r1 => forallb (fun r2 => Bool.eqb (N.eqb (ikey r1) (ikey r2)) (N.eqb (iidx r1) (iidx r2))) ins) ins
    && forallb (fun r => opt_eqb (fetch_now st (iidx r)) (Some (ikey r))) ins
    && forallb (fun r => negb (rf && (iidx r =? 0))) ins
    && forallb (fun r => match snd r with
                         | RFetch i (Some k) => existsb (fun p => (fst p =? i) && opt_eqb (snd p) (Some k))
                                                        (published_pairs st)
                         | _ => true
                         end) rs
    && nodupb N.eqb (map fst (published_pairs st))
    && (negb (fquiescent st)
        || (let it := iterate st in
            nodupb N.eqb it
            && forallb (fun i => existsb (fun p => fst p =? i) (published_pairs st)) it
            && forallb (fun p => existsb (N.eqb (fst p)) it) (published_pairs st))).

  (** ** Exhaustive exploration *)
  Definition fconfig := (fstate * list (nat * fresponse))%type.

  Definition fsuccs (c : fconfig) : list fconfig :=
    let (st, rs) := c in
    flat_map (fun t => match fstep st t with
                       | Some (st', out) => [(st', rs ++ map (pair t) out)]
                       | None => []
                       end) (seq 0 (length (fthreads st))).

  Definition fstuck (c : fconfig) : bool :=
    negb (fquiescent (fst c)) && match fsuccs c with [] => true | _ => false end.
End FModel.

Definition opt_N_eq_dec (a b : option N) : {a = b} + {a <> b}.
Proof. decide equality; apply N.eq_dec. Defined.
Definition fnode_eq_dec (a b : fnode) : {a = b} + {a <> b}.
Proof. decide equality; [apply N.eq_dec | apply opt_N_eq_dec]. Defined.
Definition handle_eq_dec (a b : handle) : {a = b} + {a <> b}.
Proof. decide equality; [apply opt_nat_eq_dec | apply opt_N_eq_dec]. Defined.
Definition op_eq_dec (a b : op) : {a = b} + {a <> b}.
Proof. decide equality; apply N.eq_dec. Defined.
Definition fpc_eq_dec (a b : fpc) : {a = b} + {a <> b}.
Proof.
  decide equality; try apply N.eq_dec; try apply Nat.eq_dec; try apply Bool.bool_dec;
    apply opt_N_eq_dec.
Defined.
Definition fthread_eq_dec (a b : fthread) : {a = b} + {a <> b}.
Proof. decide equality; [apply fpc_eq_dec | apply list_eq_dec, op_eq_dec]. Defined.
Definition fresponse_eq_dec (a b : fresponse) : {a = b} + {a <> b}.
Proof. decide equality; try apply N.eq_dec; try apply Bool.bool_dec; apply opt_N_eq_dec. Defined.
Definition fstate_eq_dec (a b : fstate) : {a = b} + {a <> b}.
Proof.
  decide equality; try apply N.eq_dec; try apply opt_nat_eq_dec;
    apply list_eq_dec;
    first [apply fthread_eq_dec | apply opt_nat_eq_dec | apply fnode_eq_dec | apply handle_eq_dec
          | apply Nat.eq_dec].
Defined.
Definition fconfig_eq_dec (a b : fconfig) : {a = b} + {a <> b}.
Proof.
  decide equality; [apply list_eq_dec; decide equality; [apply fresponse_eq_dec | apply Nat.eq_dec]
                   | apply fstate_eq_dec].
Defined.

Definition finsert_new (c : fconfig) (l : list fconfig) : list fconfig :=
  if existsb (fun c' => if fconfig_eq_dec c c' then true else false) l then l else c :: l.
Definition fdedup (l : list fconfig) : list fconfig := fold_right finsert_new [] l.

Section FExplore.
  Context (rf : bool).
  Definition fnext_layer (l : list fconfig) : list fconfig := fdedup (flat_map fsuccs l).

  Fixpoint fexplore (fuel : nat) (layer : list fconfig) : bool :=
    forallb (fun c => fmon rf (fst c) (snd c) && negb (fstuck c)) layer
    && match layer with
       | [] => true
       | _ => match fuel with O => false | S f => fexplore f (fnext_layer layer) end
       end.
End FExplore.
