(** C23 -- A size limit truncates recursion soundly.
    Only statements here; definitions and proofs are in SemiNaiveAbs.v.
    [loop_run rules arity fire limit_hit R D res]: the fixpoint loop of
    UnitTranslator.cpp [generateRecursiveStratum] started in state (R, D) returns main relations
    [res]; per round: loop body, [EXIT (all @new empty)], [EXIT limit_hit(main relations)]
    ([generateStratumExitSequence]: the size test reads the main relation BEFORE this round's
    @new is merged, and that @new is dropped when it fires), then merge/swap/clear.
    [size_ge sel n R] := exists l, NoDup l /\ length l = n /\ forall x, In x l -> sel x /\ R x
    ([sel] selects the facts of the relation carrying the [.limitsize]). *)
From Coq Require Import List.
From SV Require Import SemiNaiveAbs.
Import ListNotations.

(** The limited result is a subset of the unlimited result (for any exit predicate). *)
Theorem C23_limit_subset :
  forall (fact rule : Type) (rules : list rule) (arity : rule -> nat)
         (fire : rule -> list fact -> fact -> Prop) (R0 : fset fact)
         (limit_hit : fset fact -> Prop) (res : fset fact),
    loop_run rules arity fire limit_hit R0 R0 res ->
    forall h, res h -> lfp rules arity fire R0 h.
Proof. exact limit_subset. Qed.
Print Assumptions C23_limit_subset.

(** The result of the loop is the semi-naive state of the first round in which an exit fires. *)
Theorem C23_loop_run_first_exit :
  forall (fact rule : Type) (rules : list rule) (arity : rule -> nat)
         (fire : rule -> list fact -> fact -> Prop) (R0 : fset fact)
         (limit_hit : fset fact -> Prop) (res : fset fact),
    loop_run rules arity fire limit_hit R0 R0 res ->
    exists k, first_exit rules arity fire R0 limit_hit k /\ res = iterR rules arity fire R0 k.
Proof. exact loop_run_first_exit. Qed.
Print Assumptions C23_loop_run_first_exit.

(** If the unlimited result holds fewer than n selected facts, the limit changes nothing. *)
Theorem C23_limit_noop :
  forall (fact rule : Type) (rules : list rule) (arity : rule -> nat)
         (fire : rule -> list fact -> fact -> Prop) (R0 : fset fact),
    (forall r h, In r rules -> arity r = 0 -> fire r [] h -> R0 h) ->
    (forall k, dec_set (iterD rules arity fire R0 k)) ->
    forall (sel : fset fact) (n : nat) (res : fset fact),
      (forall l, NoDup l -> (forall x, In x l -> sel x /\ lfp rules arity fire R0 x) -> length l < n) ->
      loop_run rules arity fire (size_ge sel n) R0 R0 res ->
      forall h, res h <-> lfp rules arity fire R0 h.
Proof. exact limit_noop. Qed.
Print Assumptions C23_limit_noop.

(** Otherwise: the result is the unlimited result, or it holds at least n selected facts. *)
Theorem C23_limit_reached :
  forall (fact rule : Type) (rules : list rule) (arity : rule -> nat)
         (fire : rule -> list fact -> fact -> Prop) (R0 : fset fact),
    (forall r h, In r rules -> arity r = 0 -> fire r [] h -> R0 h) ->
    (forall k, dec_set (iterD rules arity fire R0 k)) ->
    forall (sel : fset fact) (n : nat) (res : fset fact),
      loop_run rules arity fire (size_ge sel n) R0 R0 res ->
      (forall h, res h <-> lfp rules arity fire R0 h) \/ size_ge sel n res.
Proof. exact limit_reached. Qed.
Print Assumptions C23_limit_reached.

(** In particular an incomplete result holds at least n selected facts. *)
Theorem C23_limit_reached_incomplete :
  forall (fact rule : Type) (rules : list rule) (arity : rule -> nat)
         (fire : rule -> list fact -> fact -> Prop) (R0 : fset fact),
    (forall r h, In r rules -> arity r = 0 -> fire r [] h -> R0 h) ->
    (forall k, dec_set (iterD rules arity fire R0 k)) ->
    forall (sel : fset fact) (n : nat) (res : fset fact),
      loop_run rules arity fire (size_ge sel n) R0 R0 res ->
      ~ (forall h, lfp rules arity fire R0 h -> res h) -> size_ge sel n res.
Proof. exact limit_reached_incomplete. Qed.
Print Assumptions C23_limit_reached_incomplete.
