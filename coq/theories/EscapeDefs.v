(** String-constant escaping: the printer (src/ast/StringConstant.cpp, StringConstant::print, after fix
    "printing a program did not re-escape string constants") and the scanner
    (src/parser/scanner.ll: the STRING token regex -- a double quote, then any number of escaped characters or characters other than double quote and backslash, then a double quote -- and lexString). Definitions only. *)
From SV Require Export Bytes.
Local Open Scope N_scope.

(** character that follows the backslash for a byte that must be escaped *)
Definition esc_char (c : N) : option N :=
  if c =? 34 then Some 34          (* double quote *)
  else if c =? 92 then Some 92     (* \  *)
  else if c =? 7 then Some 97      (* \a *)
  else if c =? 8 then Some 98      (* \b *)
  else if c =? 12 then Some 102    (* \f *)
  else if c =? 10 then Some 110    (* \n *)
  else if c =? 13 then Some 114    (* \r *)
  else if c =? 9 then Some 116     (* \t *)
  else if c =? 11 then Some 118    (* \v *)
  else None.

(** StringConstant::print: the text between the quotes *)
Fixpoint escape (s : bytes) : bytes :=
  match s with
  | [] => []
  | c :: r => match esc_char c with Some e => 92 :: e :: escape r | None => c :: escape r end
  end.
(** the printer before the fix: raw constant *)
Definition print_raw (s : bytes) : bytes := s.

(** lexString's switch on the character after a backslash *)
Definition unesc_char (e : N) : option N :=
  if e =? 34 then Some 34
  else if e =? 39 then Some 39     (* \' *)
  else if e =? 92 then Some 92
  else if e =? 97 then Some 7
  else if e =? 98 then Some 8
  else if e =? 102 then Some 12
  else if e =? 110 then Some 10
  else if e =? 114 then Some 13
  else if e =? 116 then Some 9
  else if e =? 118 then Some 11
  else None.

(** lexString on the text between the quotes: None = "Unknown escape sequence" *)
Fixpoint lex_string (t : bytes) : option bytes :=
  match t with
  | [] => Some []
  | c :: r =>
      if c =? 92 then
        match r with
        | e :: r' => match unesc_char e, lex_string r' with
                     | Some x, Some y => Some (x :: y)
                     | _, _ => None
                     end
        | [] => Some [92]                      (* `i + 1 < end` fails: the backslash is kept *)
        end
      else match lex_string r with Some y => Some (c :: y) | None => None end
  end.

(** the body of a STRING token must match the regex above: no bare double quote, no dangling backslash;
    the dot of the regex does not match a newline in flex *)
Fixpoint token_body_ok (t : bytes) : bool :=
  match t with
  | [] => true
  | c :: r =>
      if c =? 92 then match r with e :: r' => negb (e =? 10) && token_body_ok r' | [] => false end
      else negb (c =? 34) && token_body_ok r
  end.

(** reading back what was printed: the token must be well formed and lex to a string *)
Definition reparse (printed : bytes) : option bytes :=
  if token_body_ok printed then lex_string printed else None.
