(** Declarative semantics of the Datalog fragment of DatalogDefs.v: valuations, denotation of
    terms, satisfaction of literals, rule instances, the least model of a stratum and the
    stratified model of a program. Nothing here refers to the evaluator ([solve], [scan],
    [step_*], [iterate] ...): only the abstract syntax, the value-level operations ([eval_op],
    [eval_cmp], [range_values]) and [rel_of]/[lookup] are used. The proofs that the evaluator
    computes this semantics are in DatalogLemmas.v. *)
From SV Require Export DatalogDefs.
Local Open Scope Z_scope.

(** * Valuations: an [env] is read as a partial map *)
Definition ext (e e' : env) : Prop := forall x v, lookup e x = Some v -> lookup e' x = Some v.
Definition bound (e : env) (x : nat) : Prop := lookup e x <> None.

(** * Denotation of a term under a valuation. [_] denotes any value. *)
Inductive den (e : env) : term -> value -> Prop :=
| DVar x v : lookup e x = Some v -> den e (TVar x) v
| DAnon v : den e TAnon v
| DConst v : den e (TConst v) v
| DOp o args vs v : Forall2 (den e) args vs -> eval_op o vs = Ok v -> den e (TOp o args) v
| DRecord args vs : Forall2 (den e) args vs -> den e (TRecord args) (VRec vs)
| DAdt b args vs : Forall2 (den e) args vs -> den e (TAdtC b args) (VAdt b vs).

(** * Interpretations: which tuples each relation holds *)
Definition interp := nat -> tuple -> Prop.
Definition holds (d : db) : interp := fun r t => In t (rel_of d r).
Definition isub (I J : interp) : Prop := forall r t, I r t -> J r t.
Definition ieq (I J : interp) : Prop := forall r t, I r t <-> J r t.

(** * Simple literals. Positive atoms are read in [P], negated atoms in [N] (inside a stratum
    [N] is the database below the stratum; for a finished database both are the same). *)
Inductive sat_slit (P N : interp) (e : env) : slit -> Prop :=
| SatPos r args t : P r t -> Forall2 (den e) args t -> sat_slit P N e (SPos r args)
| SatNeg r args : ~ (exists t, N r t /\ Forall2 (den e) args t) -> sat_slit P N e (SNeg r args)
| SatCmp c a b va vb : den e a va -> den e b vb -> eval_cmp c va vb = Ok true ->
                       sat_slit P N e (SCmp c a b).

(** * Syntax: the vars of terms and literals *)
Fixpoint term_vars (t : term) : list nat :=
  match t with
  | TVar x => [x]
  | TAnon | TConst _ => []
  | TOp _ args | TRecord args | TAdtC _ args => flat_map term_vars args
  end.
Definition terms_vars (ts : list term) : list nat := flat_map term_vars ts.
Definition slit_vars (l : slit) : list nat :=
  match l with
  | SPos _ args | SNeg _ args => terms_vars args
  | SCmp _ a b => term_vars a ++ term_vars b
  end.
Definition slits_vars (ls : list slit) : list nat := flat_map slit_vars ls.
Definition oterm_vars (o : option term) : list nat := match o with Some t => term_vars t | None => [] end.
(** variables occurring in a literal *outside* an aggregate body *)
Definition lit_outer_vars (l : lit) : list nat :=
  match l with
  | LS s => slit_vars s
  | LAgg x _ _ _ _ => [x]
  | LRange x _ from to step => x :: term_vars from ++ term_vars to ++ oterm_vars step
  end.
(** the outer scope of a clause: variables of the head and of the body outside aggregates; every
    other variable of an aggregate is local to that aggregate (as in Souffle) *)
Definition clause_outer (c : clause) : list nat :=
  terms_vars (c_args c) ++ flat_map lit_outer_vars (c_body c).

(** * Aggregates.
    [V] = the variables of the aggregate (body and target), [outer] = the outer scope of the
    clause. A list [es] *enumerates the solutions* of [body] under [e] when
    (1) every element satisfies the body, gives a value to every variable of [V], and agrees
        with [e] on the non-local variables of [V];
    (2) every valuation that satisfies the body and agrees with [e] on the non-local variables of
        [V] is represented in [es], i.e. some element agrees with it on [V] wherever bound;
    (3) no two elements (at different positions) give the same values to the variables of [V]:
        the projections [map (lookup e') V] are pairwise different.
    So [es] is, up to order, the *set* of assignments to the aggregate's variables satisfying
    the body. For bodies whose positive atoms contain no [_] this is also the multiset Souffle
    aggregates over (one solution per combination of matched tuples), because then different
    tuples give different assignments; with [_] in a positive atom Souffle counts tuples, not
    assignments, and that sub-case is outside the theorems (see [agg_body_ok]). *)
Definition agrees_on (V : list nat) (outer : list nat) (e e' : env) : Prop :=
  forall x, In x V -> In x outer -> lookup e' x = lookup e x.
Definition ext_on (V : list nat) (e e' : env) : Prop :=
  forall x v, In x V -> lookup e x = Some v -> lookup e' x = Some v.
Definition proj (V : list nat) (e : env) : list (option value) := map (lookup e) V.

Definition enumerates (N : interp) (outer V : list nat) (e : env) (body : list slit) (es : list env) : Prop :=
  (forall e', In e' es -> agrees_on V outer e e' /\ (forall x, In x V -> bound e' x) /\
                          Forall (sat_slit N N e') body) /\
  (forall s, agrees_on V outer e s -> Forall (sat_slit N N s) body -> exists e', In e' es /\ ext_on V e' s) /\
  NoDup (map (proj V) es).

Definition zsum (zs : list Z) : Z := fold_right Z.add 0 zs.
(** the aggregate value of the list of target values [zs] *)
Definition agg_of (k : aggk) (t : nty) (zs : list Z) (z : Z) : Prop :=
  match k, t with
  | ACount, _ => z = Z.of_nat (length zs)
  | ASum, TS => z = zsum zs
  | ASum, TU => z = wrap (zsum (map u zs))
  | AMin, TS => In z zs /\ forall z', In z' zs -> z <= z'
  | AMax, TS => In z zs /\ forall z', In z' zs -> z' <= z
  | AMin, TU => In z zs /\ forall z', In z' zs -> u z <= u z'
  | AMax, TU => In z zs /\ forall z', In z' zs -> u z' <= u z
  end.
(** target values of the solutions ([count] does not look at the target) *)
Definition targets (k : aggk) (target : term) (es : list env) (zs : list Z) : Prop :=
  match k with
  | ACount => length zs = length es
  | _ => Forall2 (fun e' z => den e' target (VNum z)) es zs
  end.

(** * Literals *)
Inductive sat_lit (P N : interp) (outer : list nat) (e : env) : lit -> Prop :=
| SatLS s : sat_slit P N e s -> sat_lit P N outer e (LS s)
| SatAgg x k t target body es zs z :
    enumerates N outer (term_vars target ++ slits_vars body) e body es ->
    targets k target es zs -> agg_of k t zs z -> lookup e x = Some (VNum z) ->
    sat_lit P N outer e (LAgg x k t target body)
| SatRange x t from to step vf vt vs zs z :
    den e from (VNum vf) -> den e to (VNum vt) ->
    match step, vs with
    | Some s, Some v => den e s (VNum v)
    | None, None => True
    | _, _ => False
    end ->
    range_values t vf vt vs = Ok zs -> In z zs -> lookup e x = Some (VNum z) ->
    sat_lit P N outer e (LRange x t from to step).

(** * Rule instances *)
Definition fires (P N : interp) (c : clause) (t : tuple) : Prop :=
  exists e, Forall (sat_lit P N (clause_outer c) e) (c_body c) /\ Forall2 (den e) (c_args c) t.

(** * The model of one stratum over the database [lower] below it: negation and aggregation are
    read in [lower], positive atoms in the set being defined. *)
Definition closed (I lower : interp) (cs : list clause) : Prop :=
  forall c t, In c cs -> fires I lower c t -> I (c_rel c) t.

(** primary definition: the least interpretation that contains [lower] and is closed *)
Definition least_model (lower : interp) (cs : list clause) : interp :=
  fun r t => forall I : interp, isub lower I -> closed I lower cs -> I r t.

(** the same, as a specification of an interpretation [M] *)
Definition is_least (lower : interp) (cs : list clause) (M : interp) : Prop :=
  isub lower M /\ closed M lower cs /\ forall I, isub lower I -> closed I lower cs -> isub M I.

(** equivalent inductive presentation: derivations *)
Inductive derived (lower : interp) (cs : list clause) : nat -> tuple -> Prop :=
| DerBase r t : lower r t -> derived lower cs r t
| DerRule c t : In c cs -> fires (derived lower cs) lower c t -> derived lower cs (c_rel c) t.

(** * Stratified model of a program = list of strata *)
Fixpoint strat_model (lower : interp) (ss : list (list clause)) : interp :=
  match ss with
  | [] => lower
  | cs :: ss' => strat_model (least_model lower cs) ss'
  end.
(** as a specification of an interpretation: there are intermediate least models *)
Fixpoint is_strat_model (lower : interp) (ss : list (list clause)) (M : interp) : Prop :=
  match ss with
  | [] => ieq lower M
  | cs :: ss' => exists mid, is_least lower cs mid /\ is_strat_model mid ss' M
  end.

(** * Accepted programs: static side conditions of the theorems (all checked by computation).
    - [agg_body_ok]: positive atoms of aggregate bodies contain no [_] (see [enumerates]);
    - [scoped]: when an aggregate is reached, each of its variables is either already bound by
      an earlier literal (list [B]) or local to the aggregate (not in the clause's outer scope)
      and grounded by a positive atom or an equation of the aggregate body.
      The evaluator does not detect a literal order that violates this (it would aggregate over
      an outer variable that is bound only later), so the condition is a hypothesis.
    - [lit_det]: no [min]/[max] aggregate at unsigned type. Needed only for completeness: on
      numbers outside the 32-bit range two different representatives of the same unsigned value
      tie, and which one [umin]/[umax] return depends on the enumeration order. *)
Fixpoint anon_free (t : term) : bool :=
  match t with
  | TAnon => false
  | TVar _ | TConst _ => true
  | TOp _ args | TRecord args | TAdtC _ args => forallb anon_free args
  end.
Definition agg_body_ok (body : list slit) : bool :=
  forallb (fun l => match l with SPos _ args => forallb anon_free args | _ => true end) body.
Definition slit_binds (l : slit) : list nat :=
  match l with
  | SPos _ args => terms_vars args
  | SNeg _ _ => []
  | SCmp _ a b => term_vars a ++ term_vars b
  end.
Definition lit_binds (l : lit) : list nat :=
  match l with LS s => slit_binds s | _ => lit_outer_vars l end.
Definition lit_scoped (outer B : list nat) (l : lit) : bool :=
  match l with
  | LAgg _ _ _ target body =>
      agg_body_ok body &&
      forallb (fun y => memb y B || (negb (memb y outer) && memb y (flat_map slit_binds body)))
              (term_vars target ++ slits_vars body)
  | _ => true
  end.
Definition lit_det (l : lit) : bool :=
  match l with
  | LAgg _ AMin TU _ _ | LAgg _ AMax TU _ _ => false
  | _ => true
  end.
Definition clause_det (c : clause) : bool := forallb lit_det (c_body c).
Definition program_det (ss : list (list clause)) : bool := forallb (forallb clause_det) ss.
Fixpoint scoped (outer B : list nat) (ls : list lit) : bool :=
  match ls with
  | [] => true
  | l :: ls' => lit_scoped outer B l && scoped outer (lit_binds l ++ B) ls'
  end.
Definition clause_ok (c : clause) : bool := scoped (clause_outer c) [] (c_body c).
Definition clauses_ok (cs : list clause) : bool := forallb clause_ok cs.
Definition program_ok (ss : list (list clause)) : bool := forallb clauses_ok ss.

(** stratification of one stratum, as a Prop: nothing read under negation or aggregation is
    defined in the stratum (implied by [strata_ok]) *)
Definition stratum_ok (cs : list clause) : Prop :=
  forall c l r, In c cs -> In l (c_body c) -> In r (lit_low l) -> ~ In r (defined_in cs).

Definition db_nodup (d : db) : Prop := forall r, NoDup (rel_of d r).
