(** Executable model of Souffle's numeric-literal parsing
    (src/include/souffle/utility/StringUtil.h: RamSignedFromString, RamUnsignedFromString;
     src/include/souffle/io/ReadStreamCSV.h: readRamUnsigned and the
     `charactersRead == element.size()` completeness check), on top of a model of the
    C library's strtol/strtoul and libstdc++'s std::stoi/std::stoul wrappers.
    Definitions only: the proofs are in NumParseLemmas.v. *)
From SV Require Export Bytes.
Local Open Scope N_scope.

(** isspace in the "C" locale: space, \t \n \v \f \r. *)
Definition isspace (c : N) : bool := (c =? 32) || ((9 <=? c) && (c <=? 13)).

(** Value of an alphanumeric character as a digit (strtol: 0-9, a-z, A-Z). *)
Definition digit_val (c : N) : option N :=
  if (48 <=? c) && (c <=? 57) then Some (c - 48)
  else if (97 <=? c) && (c <=? 122) then Some (c - 87)
  else if (65 <=? c) && (c <=? 90) then Some (c - 55)
  else None.

Definition digit_in (base c : N) : option N :=
  match digit_val c with
  | Some d => if d <? base then Some d else None
  | None => None
  end.

Fixpoint skip_ws (s : bytes) : nat * bytes :=
  match s with
  | c :: r => if isspace c then let (n, t) := skip_ws r in (S n, t) else (0%nat, s)
  | [] => (0%nat, [])
  end.

(** Longest prefix of base-[base] digits: accumulated value and number of digits. *)
Fixpoint take_digits (base : N) (s : bytes) (acc : N) (n : nat) : N * nat :=
  match s with
  | c :: r => match digit_in base c with
              | Some d => take_digits base r (acc * base + d) (S n)
              | None => (acc, n)
              end
  | [] => (acc, n)
  end.

(** What strtol/strtoul scan: optional whitespace, optional sign, for base 16 an optional
    0x/0X (only taken when a hex digit follows -- glibc backs up to the '0' otherwise),
    then the longest digit sequence. [sc_any = false] means "no conversion". *)
Record scan := { sc_any : bool; sc_neg : bool; sc_mag : N; sc_used : nat }.

Definition scan_sign (s : bytes) : bool * nat * bytes :=
  match s with
  | c :: r => if c =? 45 then (true, 1%nat, r) else if c =? 43 then (false, 1%nat, r) else (false, 0%nat, s)
  | [] => (false, 0%nat, s)
  end.

Definition scan_prefix (base : N) (s : bytes) : nat * bytes :=
  if base =? 16 then
    match s with
    | z :: x :: d :: r =>
        if (z =? 48) && ((x =? 120) || (x =? 88)) && is_some (digit_in 16 d) then (2%nat, d :: r) else (0%nat, s)
    | _ => (0%nat, s)
    end
  else (0%nat, s).

Definition strto_scan (base : N) (s : bytes) : scan :=
  let (nws, s1) := skip_ws s in
  let '(neg, nsign, s2) := scan_sign s1 in
  let (npre, s3) := scan_prefix base s2 in
  let (mag, nd) := take_digits base s3 0 0%nat in
  match nd with
  | O => {| sc_any := false; sc_neg := neg; sc_mag := 0; sc_used := 0%nat |}
  | _ => {| sc_any := true; sc_neg := neg; sc_mag := mag; sc_used := (nws + nsign + npre + nd)%nat |}
  end.

(** Result of std::stoi / std::stoul: the two exceptions, or the value and *pos. *)
Inductive pres := PInvalid | PRange | POk (v : Z) (used : nat).

Local Open Scope Z_scope.

(** std::stoi = strtol (64-bit long, saturating with ERANGE) + range check into int. *)
Definition stoi (base : N) (s : bytes) : pres :=
  let sc := strto_scan base s in
  if negb (sc_any sc) then PInvalid
  else
    let m := Z.of_N (sc_mag sc) in
    if (if sc_neg sc then m >? 2 ^ 63 else m >? 2 ^ 63 - 1) then PRange
    else
      let v := if sc_neg sc then - m else m in
      if (v <? - 2 ^ 31) || (v >? 2 ^ 31 - 1) then PRange else POk v (sc_used sc).

(** std::stoul = strtoul (64-bit unsigned long; a minus sign negates modulo 2^64). *)
Definition stoul (base : N) (s : bytes) : pres :=
  let sc := strto_scan base s in
  if negb (sc_any sc) then PInvalid
  else
    let m := Z.of_N (sc_mag sc) in
    if m >? 2 ^ 64 - 1 then PRange
    else POk (if sc_neg sc then (2 ^ 64 - m) mod 2 ^ 64 else m) (sc_used sc).

Definition bump (k : nat) (r : pres) : pres :=
  match r with POk v u => POk v (u + k) | _ => r end.

Definition B_MINUS : bytes := [45%N].
Definition B_0b : bytes := [48%N; 98%N].
Definition B_0x : bytes := [48%N; 120%N].
Definition B_M0b : bytes := [45%N; 48%N; 98%N].
Definition B_M0x : bytes := [45%N; 48%N; 120%N].

(** RamSignedFromString(str, &position, base) for base in {2,10,16} and the base-0 dispatch. *)
Definition ram_signed_base (base : N) (s : bytes) : pres :=
  if (base =? 2)%N then
    let tmp := if is_prefix B_M0b s then 45%N :: skipn 3 s
               else if is_prefix B_0b s then skipn 2 s else [] in
    bump 2 (stoi 2 tmp)
  else stoi base s.

Definition ram_signed_auto (s : bytes) : pres :=
  if is_prefix B_M0b s || is_prefix B_0b s then ram_signed_base 2 s
  else if is_prefix B_M0x s || is_prefix B_0x s then ram_signed_base 16 s
  else ram_signed_base 10 s.

(** First non-whitespace character is '-' (the check added by the F9 fix). *)
Definition minus_after_ws (s : bytes) : bool :=
  match snd (skip_ws s) with c :: _ => (c =? 45)%N | [] => false end.

(** RamUnsignedFromString(str, &position, base) (after the fix: commits for F2 and F9). *)
Definition ram_unsigned_base (base : N) (s : bytes) : pres :=
  if is_prefix B_MINUS s then PInvalid
  else
    let bin := (base =? 2)%N && is_prefix B_0b s in
    let tmp := if bin then skipn 2 s else s in
    if minus_after_ws tmp then PInvalid
    else
      match stoul base tmp with
      | POk v u => if v >? 2 ^ 32 - 1 then PInvalid else POk v (if bin then u + 2 else u)
      | r => r
      end.

Definition ram_unsigned_auto (s : bytes) : pres :=
  if is_prefix B_MINUS s then PInvalid
  else if is_prefix B_0b s then ram_unsigned_base 2 s
  else if is_prefix B_0x s then ram_unsigned_base 16 s
  else ram_unsigned_base 10 s.

(** ReadStreamCSV::readRamUnsigned: dispatch on the first two characters. *)
Definition read_ram_unsigned (s : bytes) : pres :=
  if is_prefix B_0b s then ram_unsigned_base 2 s
  else if is_prefix B_0x s then ram_unsigned_base 16 s
  else ram_unsigned_base 10 s.

(** The fact-file column readers with the completeness check
    (`charactersRead != element.size()` => error). [None] = the loader reports an error. *)
Definition complete (s : bytes) (r : pres) : option Z :=
  match r with
  | POk v u => if Nat.eqb u (length s) then Some v else None
  | _ => None
  end.

Definition fact_signed (s : bytes) : option Z := complete s (ram_signed_base 10 s).
Definition fact_unsigned (s : bytes) : option Z := complete s (read_ram_unsigned s).
(** canBeParsedAsRamSigned / canBeParsedAsRamUnsigned + value: numeric constants in program text. *)
Definition const_signed (s : bytes) : option Z := complete s (ram_signed_auto s).
Definition const_unsigned (s : bytes) : option Z := complete s (ram_unsigned_auto s).

(** The version of RamUnsignedFromString before the F2/F9 repairs (kept to state what was wrong). *)
Definition ram_unsigned_base_prefix (base : N) (s : bytes) : pres :=
  if is_prefix B_MINUS s then PInvalid
  else
    let bin := (base =? 2)%N && is_prefix B_0b s in
    let tmp := if bin then skipn 2 s else s in
    match stoul base tmp with
    | POk v u => POk (v mod 2 ^ 32) (if bin then u + 2 else u)   (* truncated before the check *)
    | r => r
    end.
Definition fact_unsigned_prefix (s : bytes) : option Z :=
  complete s (if is_prefix B_0b s then ram_unsigned_base_prefix 2 s
              else if is_prefix B_0x s then ram_unsigned_base_prefix 16 s
              else ram_unsigned_base_prefix 10 s).

(** ** Specification side: what a literal *denotes*. *)
Fixpoint digits_value (base : N) (ds : bytes) (acc : N) : option N :=
  match ds with
  | [] => Some acc
  | c :: r => match digit_in base c with
              | Some d => digits_value base r (acc * base + d)%N
              | None => None
              end
  end.
