(** Auto-increment counter (src/interpreter/Engine.cpp `Engine::incCounter` = `counter++` on a
    std::atomic<RamDomain>; synthesised code `(ctr++)` on a std::atomic<RamDomain> field): every
    use is one atomic fetch-and-add. Model: a shared counter; a schedule is a list of thread ids,
    each entry = that thread performs one fetch_add(1) and obtains the previous value. *)
From Coq Require Export List ZArith Lia.
Export ListNotations.
Local Open Scope Z_scope.

Definition wrap32 (z : Z) : Z := (z + 2 ^ 31) mod 2 ^ 32 - 2 ^ 31.

(** run a schedule from counter value [c]: the values handed out, tagged with the thread *)
Fixpoint run (c : Z) (sched : list nat) : list (nat * Z) * Z :=
  match sched with
  | [] => ([], c)
  | t :: s => let (r, c') := run (wrap32 (c + 1)) s in ((t, c) :: r, c')
  end.

Definition values (c : Z) (sched : list nat) : list Z := map snd (fst (run c sched)).
