(** C26 -- Deletable B-trees (BTreeDelete.h: insert, erase) behave as sorted sets.
    Only statements here; proofs are in BTreeLemmas.v. BTreeDelete.h has the node layout and the
    query code of BTree.h, so the model and the validator [wf] of BTreeDefs.v are shared with
    C25. `./check C26` dumps the REAL node graph after every insert and erase of mixed
    histories; the extracted [wf] must accept every dump ([wf]'s lower fill bound [min_keys] is
    literally BTreeDelete.h's node::minKeys, which erase maintains), the dump's [elements] must
    equal the sorted-set model, and the real API results must equal the extracted query walks.
    The validator theorems do not depend on how a dumped tree was produced, so they cover trees
    produced by erase histories. The real erase (merge_or_rebalance) is NOT modelled. *)
From Coq Require Import Sorted.
From SV Require Import BTreeDefs BTreeLemmas.
Local Open Scope Z_scope.

(** (a) iteration order strictly ascending *)
Theorem C26_wf_elements_sorted : forall m t,
  wf m t = true -> StronglySorted Z.lt (elements t).
Proof. exact wf_elements_sorted. Qed.
Print Assumptions C26_wf_elements_sorted.

Theorem C26_wf_iterate : forall m t, wf m t = true -> iterate t = elements t.
Proof. exact wf_iterate. Qed.
Print Assumptions C26_wf_iterate.

(** (b) find / contains *)
Theorem C26_wf_find_iff : forall m t k,
  wf m t = true -> (contains t k = true <-> In k (elements t)).
Proof. exact wf_find_iff. Qed.
Print Assumptions C26_wf_find_iff.

(** (c) lower_bound / upper_bound *)
Theorem C26_wf_lower_bound : forall m t k,
  wf m t = true -> lower_bound t k = List.find (fun x => k <=? x) (elements t).
Proof. exact wf_lower_bound. Qed.
Print Assumptions C26_wf_lower_bound.

Theorem C26_wf_upper_bound : forall m t k,
  wf m t = true -> upper_bound t k = List.find (fun x => k <? x) (elements t).
Proof. exact wf_upper_bound. Qed.
Print Assumptions C26_wf_upper_bound.

(** (d) size *)
Theorem C26_wf_size : forall m t, wf m t = true -> size t = length (elements t).
Proof. exact wf_size. Qed.
Print Assumptions C26_wf_size.

(** An erase step between two validated dumps whose sets differ by the removal of [k]: the new
    in-order list is the old one without [k] and contains answers accordingly. *)
Theorem C26_validated_erase_step : forall m t t' k, wf m t = true -> wf m t' = true ->
  (forall x, In x (elements t') <-> x <> k /\ In x (elements t)) ->
  elements t' = sremove k (elements t) /\
  (forall q, contains t' q = negb (q =? k) && contains t q).
Proof. exact validated_erase_step. Qed.
Print Assumptions C26_validated_erase_step.

(** An insert step likewise. *)
Theorem C26_validated_insert_step : forall m t t' k, wf m t = true -> wf m t' = true ->
  (forall x, In x (elements t') <-> x = k \/ In x (elements t)) ->
  elements t' = sinsert k (elements t) /\
  (forall q, contains t' q = (q =? k) || contains t q) /\
  size t' = (if contains t k then size t else S (size t)).
Proof. exact validated_insert_step. Qed.
Print Assumptions C26_validated_insert_step.

(** Two validated dumps with the same set answer every query identically (an erase of an absent
    key, or any internal rebalancing, is unobservable). *)
Theorem C26_validated_same_set : forall m t t', wf m t = true -> wf m t' = true ->
  (forall x, In x (elements t') <-> In x (elements t)) ->
  elements t' = elements t /\ size t' = size t /\
  forall q, contains t' q = contains t q /\ lower_bound t' q = lower_bound t q /\
            upper_bound t' q = upper_bound t q.
Proof. exact validated_same_set. Qed.
Print Assumptions C26_validated_same_set.
