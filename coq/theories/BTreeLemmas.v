(** Proofs about the B-tree model of BTreeDefs.v: for EVERY tree accepted by the validator [wf]
    (any depth, any maxKeys) the in-order key list is strictly ascending and the query walks
    ([find]/[contains], [lower_bound], [upper_bound], [size], [next_after], [iterate]) agree with
    the sorted-list model; the sequential model [insert] refines set insertion and keeps [wf]
    (maxKeys >= 3). *)
From Coq Require Import Lia ZifyBool ZifyNat Sorted.
From SV Require Export BTreeDefs.
Local Open Scope Z_scope.

(** * Nested induction principle for [tree] *)
Lemma tree_ind' (P : tree -> Prop) :
  (forall ks, P (Leaf ks)) ->
  (forall cs last, Forall (fun p => P (fst p)) cs -> P last -> P (Inner cs last)) ->
  forall t, P t.
Proof.
  intros HL HI. fix IH 1. intros [ks | cs last].
  - apply HL.
  - apply HI; [| apply IH].
    induction cs as [| [c s] cs IHcs]; constructor; [apply IH | exact IHcs].
Qed.

(** * Unfolding of the nested fixpoints *)
Definition elems_cs (cs : list (tree * Z)) (last : tree) : list Z :=
  flat_map (fun p : tree * Z => let (c, s) := p in elements c ++ [s]) cs ++ elements last.

Lemma elements_Inner cs last : elements (Inner cs last) = elems_cs cs last.
Proof. reflexivity. Qed.
Lemma elems_cs_nil last : elems_cs [] last = elements last.
Proof. reflexivity. Qed.
Lemma elems_cs_cons c s cs last : elems_cs ((c, s) :: cs) last = elements c ++ s :: elems_cs cs last.
Proof. unfold elems_cs. cbn [flat_map]. rewrite <- !app_assoc. reflexivity. Qed.
Lemma elems_cs_app cs1 cs2 last :
  elems_cs (cs1 ++ cs2) last = flat_map (fun p : tree * Z => let (c, s) := p in elements c ++ [s]) cs1 ++ elems_cs cs2 last.
Proof. unfold elems_cs. rewrite flat_map_app, <- app_assoc. reflexivity. Qed.

Definition ord_cs (hi : option Z) (last : tree) :=
  fix go (lo : option Z) (cs : list (tree * Z)) {struct cs} : bool :=
    match cs with
    | [] => ord lo hi last
    | (c, s) :: cs' => ord lo (Some s) c && above lo s && below s hi && go (Some s) cs'
    end.
Lemma ord_Inner lo hi cs last : ord lo hi (Inner cs last) = ord_cs hi last lo cs.
Proof. reflexivity. Qed.
Lemma ord_cs_cons hi last lo c s cs :
  ord_cs hi last lo ((c, s) :: cs) = ord lo (Some s) c && above lo s && below s hi && ord_cs hi last (Some s) cs.
Proof. reflexivity. Qed.

(** * Bounds and sorted lists *)
Definition bounded (lo hi : option Z) (x : Z) : Prop := above lo x = true /\ below x hi = true.

Lemma above_Some l x : above (Some l) x = true <-> l < x.
Proof. unfold above. lia. Qed.
Lemma below_Some x h : below x (Some h) = true <-> x < h.
Proof. unfold below. lia. Qed.

Lemma above_trans lo x y : above lo x = true -> x < y -> above lo y = true.
Proof. destruct lo; cbn; [lia | auto]. Qed.
Lemma below_trans hi x y : below y hi = true -> x < y -> below x hi = true.
Proof. destruct hi; cbn; [lia | auto]. Qed.

Lemma sorted_app l1 l2 :
  StronglySorted Z.lt (l1 ++ l2) <->
  StronglySorted Z.lt l1 /\ StronglySorted Z.lt l2 /\ (forall x y, In x l1 -> In y l2 -> x < y).
Proof.
  induction l1 as [| a l1 IH]; cbn.
  - split; [intros H; repeat split; [constructor | exact H | intros ? ? []] | tauto].
  - split.
    + intros H. inversion H as [| ? ? H1 H2]; subst. apply IH in H1 as (S1 & S2 & C).
      rewrite Forall_app in H2. destruct H2 as [F1 F2]. rewrite Forall_forall in F2.
      repeat split; [constructor; assumption | assumption |].
      intros x y [-> | Hx] Hy; [apply F2, Hy | apply C; assumption].
    + intros (S1 & S2 & C). inversion S1 as [| ? ? H1 H2]; subst.
      constructor; [apply IH; repeat split; auto |].
      rewrite Forall_app. split; [assumption |]. rewrite Forall_forall. intros y Hy. apply C; auto.
Qed.

Lemma sorted_cons x l :
  StronglySorted Z.lt (x :: l) <-> StronglySorted Z.lt l /\ (forall y, In y l -> x < y).
Proof.
  split.
  - intros H. inversion H; subst. rewrite Forall_forall in *. auto.
  - intros [S C]. constructor; [assumption | rewrite Forall_forall; assumption].
Qed.

(** [asc] = sorted and bounded *)
Lemma asc_spec ks : forall lo hi,
  asc lo hi ks = true <-> StronglySorted Z.lt ks /\ (forall x, In x ks -> bounded lo hi x).
Proof.
  induction ks as [| a ks IH]; intros lo hi; cbn [asc].
  - split; [intros _; split; [constructor | intros ? []] | reflexivity].
  - rewrite !andb_true_iff, IH, sorted_cons. unfold bounded. split.
    + intros [[A B] [S C]]. repeat split.
      * exact S.
      * intros y Hy. apply above_Some, (C y Hy).
      * destruct H as [<- | H]; [exact A | eapply above_trans; [exact A |]; apply above_Some, (C x H)].
      * destruct H as [<- | H]; [exact B | apply (C x H)].
    + intros [[S C] Bd]. repeat split.
      * apply (Bd a); left; reflexivity.
      * apply (Bd a); left; reflexivity.
      * exact S.
      * apply above_Some, C, H.
      * apply (Bd x); right; exact H.
Qed.

Lemma glue_spec lo hi A s B :
  ((StronglySorted Z.lt A /\ (forall x, In x A -> bounded lo (Some s) x)) /\
   above lo s = true /\ below s hi = true /\
   (StronglySorted Z.lt B /\ (forall x, In x B -> bounded (Some s) hi x)))
  <-> (StronglySorted Z.lt (A ++ s :: B) /\ (forall x, In x (A ++ s :: B) -> bounded lo hi x)).
Proof.
  rewrite sorted_app, sorted_cons. unfold bounded. split.
  - intros ((SA & BA) & Ls & Sh & SB & BB). repeat split.
    + exact SA.
    + exact SB.
    + intros y Hy. apply above_Some, (BB y Hy).
    + intros x y Hx [<- | Hy].
      * apply below_Some, (BA x Hx).
      * pose proof (proj2 (BA x Hx)) as H1. pose proof (proj1 (BB y Hy)) as H2.
        apply below_Some in H1. apply above_Some in H2. lia.
    + apply in_app_or in H. destruct H as [H | [<- | H]].
      * apply (BA x H).
      * exact Ls.
      * eapply above_trans; [exact Ls | apply above_Some, (BB x H)].
    + apply in_app_or in H. destruct H as [H | [<- | H]].
      * eapply below_trans; [exact Sh | apply below_Some, (BA x H)].
      * exact Sh.
      * apply (BB x H).
  - intros ((SA & (SB & CB) & CAB) & Bd).
    assert (Bs : above lo s = true /\ below s hi = true) by (apply Bd, in_or_app; right; left; reflexivity).
    repeat split; try tauto.
    + apply (Bd x), in_or_app; left; exact H.
    + apply below_Some, CAB; [exact H | left; reflexivity].
    + apply above_Some, CB, H.
    + apply (Bd x), in_or_app; right; right; exact H.
Qed.

(** The local check [ord] is exactly: in-order list strictly ascending and inside the bounds. *)
Lemma ord_spec t : forall lo hi,
  ord lo hi t = true <->
  StronglySorted Z.lt (elements t) /\ (forall x, In x (elements t) -> bounded lo hi x).
Proof.
  induction t as [ks | cs last IHcs IHlast] using tree_ind'; intros lo hi.
  - apply asc_spec.
  - rewrite ord_Inner, elements_Inner. revert lo.
    induction cs as [| [c s] cs IH]; intros lo.
    + apply IHlast.
    + inversion IHcs as [| ? ? Hc Hcs]; subst. cbn [fst] in Hc.
      rewrite ord_cs_cons, elems_cs_cons, !andb_true_iff, Hc, (IH Hcs), <- glue_spec. tauto.
Qed.

Lemma ord_cs_spec hi last cs lo :
  ord_cs hi last lo cs = true <->
  StronglySorted Z.lt (elems_cs cs last) /\ (forall x, In x (elems_cs cs last) -> bounded lo hi x).
Proof. rewrite <- ord_Inner, ord_spec. reflexivity. Qed.

Lemma wf_ordered m t : wf m t = true -> ordered t = true.
Proof. unfold wf. rewrite !andb_true_iff. tauto. Qed.

(** (a) iteration order of a validated tree is strictly ascending (hence duplicate free) *)
Lemma ordered_elements_sorted t : ordered t = true -> StronglySorted Z.lt (elements t).
Proof. intros H. apply ord_spec in H. apply H. Qed.

Lemma wf_elements_sorted m t : wf m t = true -> StronglySorted Z.lt (elements t).
Proof. intros H. apply ordered_elements_sorted, (wf_ordered m), H. Qed.

Lemma sorted_NoDup l : StronglySorted Z.lt l -> NoDup l.
Proof.
  induction 1 as [| a l S IH F]; constructor; [| exact IH].
  intros Hin. rewrite Forall_forall in F. specialize (F a Hin). lia.
Qed.

Lemma wf_elements_NoDup m t : wf m t = true -> NoDup (elements t).
Proof. intros H. apply sorted_NoDup, (wf_elements_sorted m), H. Qed.

(** Conversely every strictly ascending in-order list passes the ordering check: the check
    rejects nothing that the set semantics allows. *)
Lemma sorted_elements_ordered t : StronglySorted Z.lt (elements t) -> ordered t = true.
Proof. intros H. apply ord_spec. split; [exact H | intros; split; reflexivity]. Qed.

(** * Queries against the sorted-list model *)
Definition orelse (o res : option Z) : option Z := match o with Some x => Some x | None => res end.

Lemma find_app (f : Z -> bool) l1 l2 :
  List.find f (l1 ++ l2) = match List.find f l1 with Some x => Some x | None => List.find f l2 end.
Proof. induction l1 as [| a l1 IH]; cbn; [reflexivity | destruct (f a); auto]. Qed.

Lemma find_all_false (f : Z -> bool) l : (forall x, In x l -> f x = false) -> List.find f l = None.
Proof.
  induction l as [| a l IH]; cbn; intros H; [reflexivity |].
  rewrite (H a) by (left; reflexivity). apply IH. intros x Hx. apply H. right. exact Hx.
Qed.

Lemma find_all_true (f : Z -> bool) l : (forall x, In x l -> f x = true) -> List.find f l = hd_error l.
Proof. destruct l as [| a l]; cbn; intros H; [reflexivity |]. rewrite (H a) by (left; reflexivity). reflexivity. Qed.

(** facts about [A ++ s :: B] sorted *)
Lemma sorted_mid A s B :
  StronglySorted Z.lt (A ++ s :: B) ->
  StronglySorted Z.lt A /\ StronglySorted Z.lt B /\
  (forall x, In x A -> x < s) /\ (forall y, In y B -> s < y).
Proof.
  rewrite sorted_app, sorted_cons. intros (SA & (SB & CB) & CAB). repeat split; auto.
  intros x Hx. apply CAB; [exact Hx | left; reflexivity].
Qed.

(** one step of a node scan: the three cases of the comparison of [k] with separator [s] *)
Lemma find_step_lt (f : Z -> bool) A s B :
  (forall x, In x A -> f x = false) -> f s = false ->
  List.find f (A ++ s :: B) = List.find f B.
Proof. intros HA Hs. rewrite find_app, (find_all_false f A HA). cbn. rewrite Hs. reflexivity. Qed.

Lemma find_step_hit (f : Z -> bool) A s B :
  f s = true -> List.find f (A ++ s :: B) = orelse (List.find f A) (Some s).
Proof. intros Hs. rewrite find_app. cbn. rewrite Hs. reflexivity. Qed.

Lemma find_step_gt (f : Z -> bool) A s B :
  f s = false -> (forall x, In x B -> f x = false) ->
  List.find f (A ++ s :: B) = List.find f A.
Proof.
  intros Hs HB. rewrite find_app. cbn. rewrite Hs, (find_all_false f B HB).
  destruct (List.find f A); reflexivity.
Qed.

(** in-node searches are List.find *)
Lemma search_lower_spec k ks : search_lower k ks = List.find (fun x => k <=? x) ks.
Proof.
  induction ks as [| a ks IH]; cbn; [reflexivity |].
  destruct (a <? k) eqn:E; destruct (k <=? a) eqn:E'; try lia; auto.
Qed.

Lemma search_upper_spec k ks : search_upper k ks = List.find (fun x => k <? x) ks.
Proof. induction ks as [| a ks IH]; cbn; [reflexivity |]. destruct (k <? a); auto. Qed.

(** ** find / contains *)
Definition find_cs (k : Z) (last : tree) :=
  fix go (cs : list (tree * Z)) : option Z :=
    match cs with
    | [] => find last k
    | (c, s) :: cs' => if s <? k then go cs' else if s =? k then Some s else find c k
    end.
Lemma find_Inner cs last k : find (Inner cs last) k = find_cs k last cs.
Proof. reflexivity. Qed.

Lemma find_spec t : forall k,
  StronglySorted Z.lt (elements t) -> find t k = List.find (fun x => x =? k) (elements t).
Proof.
  induction t as [ks | cs last IHcs IHlast] using tree_ind'; intros k S.
  - cbn [find elements] in *. induction ks as [| a ks IH]; cbn; [reflexivity |].
    apply sorted_cons in S. destruct S as [S C].
    destruct (a <? k) eqn:E.
    + destruct (a =? k) eqn:E'; [lia | apply IH, S].
    + destruct (a =? k) eqn:E'; [reflexivity |].
      symmetry. apply find_all_false. intros x Hx. specialize (C x Hx). lia.
  - rewrite find_Inner, elements_Inner in *.
    induction cs as [| [c s] cs IH].
    + apply IHlast, S.
    + inversion IHcs as [| ? ? Hc Hcs]; subst. cbn [fst] in Hc.
      rewrite elems_cs_cons in *. cbn [find_cs].
      destruct (sorted_mid _ _ _ S) as (SA & SB & CA & CB).
      destruct (s <? k) eqn:E; [| destruct (s =? k) eqn:E'].
      * rewrite find_step_lt; [apply (IH Hcs SB) | | lia].
        intros x Hx. specialize (CA x Hx). lia.
      * rewrite find_step_hit by exact E'.
        rewrite find_all_false; [reflexivity |]. intros x Hx. specialize (CA x Hx). lia.
      * rewrite find_step_gt; [apply (Hc k SA) | exact E' |].
        intros x Hx. specialize (CB x Hx). lia.
Qed.

Lemma find_eqb_In k l : (exists x, List.find (fun x => x =? k) l = Some x) <-> In k l.
Proof.
  split.
  - intros [x H]. apply find_some in H. destruct H as [H1 H2]. assert (x = k) by lia. subst. exact H1.
  - intros H. destruct (List.find (fun x => x =? k) l) eqn:E; [eauto |].
    exfalso. pose proof (find_none _ _ E k H) as H1. cbn in H1. lia.
Qed.

Lemma ordered_find_iff t k : ordered t = true -> (contains t k = true <-> In k (elements t)).
Proof.
  intros H. apply ordered_elements_sorted in H. unfold contains. rewrite (find_spec t k H).
  rewrite <- find_eqb_In. destruct (List.find _ _); split; intros; eauto; try discriminate.
  destruct H0 as [? ?]; discriminate.
Qed.

(** (b) *)
Lemma wf_find_iff m t k : wf m t = true -> (contains t k = true <-> In k (elements t)).
Proof. intros H. apply ordered_find_iff, (wf_ordered m), H. Qed.

(** [find] returns the key itself *)
Lemma wf_find_value m t k : wf m t = true ->
  find t k = if contains t k then Some k else None.
Proof.
  intros H. unfold contains. apply wf_elements_sorted in H. rewrite (find_spec t k H).
  destruct (List.find _ _) eqn:E; [| reflexivity]. apply find_some in E. f_equal. lia.
Qed.

(** ** lower_bound *)
Definition lower_cs (res : option Z) (k : Z) (last : tree) :=
  fix go (cs : list (tree * Z)) : option Z :=
    match cs with
    | [] => lower_bound_from res last k
    | (c, s) :: cs' =>
        if s <? k then go cs' else if s =? k then Some s else lower_bound_from (Some s) c k
    end.
Lemma lower_Inner res cs last k : lower_bound_from res (Inner cs last) k = lower_cs res k last cs.
Proof. reflexivity. Qed.

Lemma lower_bound_from_spec t : forall res k,
  StronglySorted Z.lt (elements t) ->
  lower_bound_from res t k = orelse (List.find (fun x => k <=? x) (elements t)) res.
Proof.
  induction t as [ks | cs last IHcs IHlast] using tree_ind'; intros res k S.
  - cbn [lower_bound_from elements]. rewrite search_lower_spec. reflexivity.
  - rewrite lower_Inner, elements_Inner in *.
    induction cs as [| [c s] cs IH].
    + apply IHlast, S.
    + inversion IHcs as [| ? ? Hc Hcs]; subst. cbn [fst] in Hc.
      rewrite elems_cs_cons in *. cbn [lower_cs].
      destruct (sorted_mid _ _ _ S) as (SA & SB & CA & CB).
      destruct (s <? k) eqn:E; [| destruct (s =? k) eqn:E'].
      * rewrite find_step_lt; [apply (IH Hcs SB) | | lia].
        intros x Hx. specialize (CA x Hx). lia.
      * rewrite find_step_hit by lia.
        rewrite find_all_false; [reflexivity |]. intros x Hx. specialize (CA x Hx). lia.
      * rewrite find_step_hit by lia. rewrite (Hc _ k SA).
        destruct (List.find _ (elements c)); reflexivity.
Qed.

Lemma ordered_lower_bound t k : ordered t = true ->
  lower_bound t k = List.find (fun x => k <=? x) (elements t).
Proof.
  intros H. unfold lower_bound. rewrite lower_bound_from_spec by (apply ordered_elements_sorted, H).
  destruct (List.find _ _); reflexivity.
Qed.

(** (c) lower_bound = first element >= k of the in-order list, [None] = end() *)
Lemma wf_lower_bound m t k : wf m t = true ->
  lower_bound t k = List.find (fun x => k <=? x) (elements t).
Proof. intros H. apply ordered_lower_bound, (wf_ordered m), H. Qed.

(** ** upper_bound *)
Definition upper_cs (res : option Z) (k : Z) (last : tree) :=
  fix go (cs : list (tree * Z)) : option Z :=
    match cs with
    | [] => upper_bound_from res last k
    | (c, s) :: cs' => if k <? s then upper_bound_from (Some s) c k else go cs'
    end.
Lemma upper_Inner res cs last k : upper_bound_from res (Inner cs last) k = upper_cs res k last cs.
Proof. reflexivity. Qed.

Lemma upper_bound_from_spec t : forall res k,
  StronglySorted Z.lt (elements t) ->
  upper_bound_from res t k = orelse (List.find (fun x => k <? x) (elements t)) res.
Proof.
  induction t as [ks | cs last IHcs IHlast] using tree_ind'; intros res k S.
  - cbn [upper_bound_from elements]. rewrite search_upper_spec. reflexivity.
  - rewrite upper_Inner, elements_Inner in *.
    induction cs as [| [c s] cs IH].
    + apply IHlast, S.
    + inversion IHcs as [| ? ? Hc Hcs]; subst. cbn [fst] in Hc.
      rewrite elems_cs_cons in *. cbn [upper_cs].
      destruct (sorted_mid _ _ _ S) as (SA & SB & CA & CB).
      destruct (k <? s) eqn:E.
      * rewrite find_step_hit by lia. rewrite (Hc _ k SA).
        destruct (List.find _ (elements c)); reflexivity.
      * rewrite find_step_lt; [apply (IH Hcs SB) | | lia].
        intros x Hx. specialize (CA x Hx). lia.
Qed.

Lemma ordered_upper_bound t k : ordered t = true ->
  upper_bound t k = List.find (fun x => k <? x) (elements t).
Proof.
  intros H. unfold upper_bound. rewrite upper_bound_from_spec by (apply ordered_elements_sorted, H).
  destruct (List.find _ _); reflexivity.
Qed.

(** (c') upper_bound = first element > k *)
Lemma wf_upper_bound m t k : wf m t = true ->
  upper_bound t k = List.find (fun x => k <? x) (elements t).
Proof. intros H. apply ordered_upper_bound, (wf_ordered m), H. Qed.

(** ** size *)
Lemma size_elements t : size t = length (elements t).
Proof.
  induction t as [ks | cs last IHcs IHlast] using tree_ind'; [reflexivity |].
  cbn [size]. rewrite elements_Inner. unfold elems_cs. rewrite app_length, IHlast. f_equal. clear IHlast.
  induction cs as [| [c s] cs IH]; [reflexivity |].
  inversion IHcs as [| ? ? Hc Hcs]; subst. cbn [fst] in Hc.
  cbn [length map list_sum flat_map]. rewrite !app_length, <- (IH Hcs), Hc. cbn [length]. cbn [list_sum fold_right]. fold (list_sum (map (fun p : tree * Z => let (c0, _) := p in size c0) cs)). lia.
Qed.

(** (d) holds for every tree, well-formed or not *)
Lemma wf_size m t : wf m t = true -> size t = length (elements t).
Proof. intros _. apply size_elements. Qed.

(** ** begin(), operator++, full iteration *)
Lemma hd_error_mid A (s : Z) B : hd_error (A ++ s :: B) = orelse (hd_error A) (Some s).
Proof. destruct A; reflexivity. Qed.

Lemma first_from_spec t : forall res, first_from res t = orelse (hd_error (elements t)) res.
Proof.
  induction t as [ks | cs last IHcs IHlast] using tree_ind'; intros res.
  - destruct ks; reflexivity.
  - destruct cs as [| [c s] cs].
    + cbn [first_from]. rewrite IHlast. reflexivity.
    + inversion IHcs as [| ? ? Hc Hcs]; subst. cbn [fst] in Hc.
      cbn [first_from]. rewrite Hc, elements_Inner, elems_cs_cons, hd_error_mid.
      destruct (hd_error (elements c)); reflexivity.
Qed.

Lemma first_spec t : first t = hd_error (elements t).
Proof. unfold first. rewrite first_from_spec. destruct (hd_error _); reflexivity. Qed.

Definition next_cs (res : option Z) (k : Z) (last : tree) :=
  fix go (cs : list (tree * Z)) : option Z :=
    match cs with
    | [] => next_from res last k
    | (c, s) :: cs' =>
        if k <? s then next_from (Some s) c k
        else if s =? k then
          match cs' with
          | [] => first_from res last
          | (c', s') :: _ => first_from (Some s') c'
          end
        else go cs'
    end.
Lemma next_Inner res cs last k : next_from res (Inner cs last) k = next_cs res k last cs.
Proof. reflexivity. Qed.

Lemma next_from_spec t : forall res k,
  StronglySorted Z.lt (elements t) ->
  next_from res t k = orelse (List.find (fun x => k <? x) (elements t)) res.
Proof.
  induction t as [ks | cs last IHcs IHlast] using tree_ind'; intros res k S.
  - cbn [next_from elements]. rewrite search_upper_spec. reflexivity.
  - rewrite next_Inner, elements_Inner in *.
    induction cs as [| [c s] cs IH].
    + apply IHlast, S.
    + inversion IHcs as [| ? ? Hc Hcs]; subst. cbn [fst] in Hc.
      rewrite elems_cs_cons in *. cbn [next_cs].
      destruct (sorted_mid _ _ _ S) as (SA & SB & CA & CB).
      destruct (k <? s) eqn:E; [| destruct (s =? k) eqn:E'].
      * rewrite find_step_hit by lia. rewrite (Hc _ k SA).
        destruct (List.find _ (elements c)); reflexivity.
      * rewrite find_step_lt; [| intros x Hx; specialize (CA x Hx); lia | lia].
        rewrite find_all_true by (intros x Hx; specialize (CB x Hx); lia).
        destruct cs as [| [c' s'] cs'].
        -- rewrite elems_cs_nil. apply first_from_spec.
        -- rewrite elems_cs_cons, hd_error_mid, first_from_spec.
           destruct (hd_error (elements c')); reflexivity.
      * rewrite find_step_lt; [apply (IH Hcs SB) | | lia].
        intros x Hx. specialize (CA x Hx). lia.
Qed.

(** ++ from the position of [k] reaches the first element above [k] *)
Lemma ordered_next_after t k : ordered t = true ->
  next_after t k = List.find (fun x => k <? x) (elements t).
Proof.
  intros H. unfold next_after. rewrite next_from_spec by (apply ordered_elements_sorted, H).
  destruct (List.find _ _); reflexivity.
Qed.

Lemma wf_next_after m t k : wf m t = true ->
  next_after t k = List.find (fun x => k <? x) (elements t).
Proof. intros H. apply ordered_next_after, (wf_ordered m), H. Qed.

Lemma iter_from_suffix t : ordered t = true ->
  forall l2 l1 n, elements t = l1 ++ l2 -> (length l2 <= n)%nat ->
  iter_from n t (hd_error l2) = l2.
Proof.
  intros H l2. induction l2 as [| x l2 IH]; intros l1 n E L.
  - destruct n; reflexivity.
  - destruct n as [| n]; [cbn in L; lia |]. cbn [hd_error iter_from]. f_equal.
    rewrite (ordered_next_after t x H), E.
    pose proof (ordered_elements_sorted t H) as S. rewrite E in S.
    destruct (sorted_mid _ _ _ S) as (_ & _ & CA & CB).
    rewrite find_step_lt; [| intros y Hy; specialize (CA y Hy); lia | lia].
    rewrite find_all_true by (intros y Hy; specialize (CB y Hy); lia).
    apply (IH (l1 ++ [x])); [rewrite <- app_assoc; exact E | cbn in L; lia].
Qed.

(** begin() and repeated ++ enumerate exactly the in-order list, then reach end() *)
Lemma ordered_iterate t : ordered t = true -> iterate t = elements t.
Proof.
  intros H. unfold iterate. rewrite first_spec.
  apply (iter_from_suffix t H (elements t) []); [reflexivity | rewrite size_elements; lia].
Qed.

Lemma wf_iterate m t : wf m t = true -> iterate t = elements t.
Proof. intros H. apply ordered_iterate, (wf_ordered m), H. Qed.

(** * Insertion *)

(** ** the sorted-list specification [sinsert] *)
Lemma sinsert_In k l x : In x (sinsert k l) <-> x = k \/ In x l.
Proof.
  induction l as [| a l IH]; cbn.
  - intuition.
  - destruct (k <? a) eqn:E; [cbn; intuition |].
    destruct (k =? a) eqn:E'; cbn; [assert (k = a) by lia; subst; intuition |].
    rewrite IH. intuition.
Qed.

Lemma sinsert_sorted k l : StronglySorted Z.lt l -> StronglySorted Z.lt (sinsert k l).
Proof.
  induction l as [| a l IH]; cbn; intros S.
  - constructor; constructor.
  - apply sorted_cons in S as S'. destruct S' as [S1 C].
    destruct (k <? a) eqn:E.
    + apply sorted_cons. split; [exact S |]. intros y [<- | Hy]; [lia | specialize (C y Hy); lia].
    + destruct (k =? a) eqn:E'; [exact S |].
      apply sorted_cons. split; [apply IH, S1 |].
      intros y Hy. apply sinsert_In in Hy. destruct Hy as [-> | Hy]; [lia | apply C, Hy].
Qed.

Lemma sinsert_below k A s B :
  k < s -> (forall x, In x A -> x < s) -> sinsert k (A ++ s :: B) = sinsert k A ++ s :: B.
Proof.
  intros Hk. induction A as [| a A IH]; intros HA; cbn.
  - destruct (k <? s) eqn:E; [reflexivity | lia].
  - destruct (k <? a); [reflexivity |]. destruct (k =? a); [reflexivity |].
    cbn. f_equal. apply IH. intros x Hx. apply HA. right. exact Hx.
Qed.

Lemma sinsert_above k A L :
  (forall x, In x A -> x < k) -> sinsert k (A ++ L) = A ++ sinsert k L.
Proof.
  induction A as [| a A IH]; intros HA; cbn; [reflexivity |].
  pose proof (HA a (or_introl eq_refl)).
  destruct (k <? a) eqn:E; [lia |]. destruct (k =? a) eqn:E'; [lia |].
  f_equal. apply IH. intros x Hx. apply HA. right. exact Hx.
Qed.

Lemma sinsert_here k B : sinsert k (k :: B) = k :: B.
Proof. cbn. destruct (k <? k) eqn:E; [lia |]. destruct (k =? k) eqn:E'; [reflexivity | lia]. Qed.

(** ** leaf level *)
Lemma insert_at_0 k l : insert_at 0 k l = k :: l.
Proof. reflexivity. Qed.
Lemma insert_at_S i k a l : insert_at (S i) k (a :: l) = a :: insert_at i k l.
Proof. reflexivity. Qed.
Lemma insert_at_length i k l : length (insert_at i k l) = S (length l).
Proof.
  unfold insert_at. rewrite app_length. cbn [length].
  rewrite <- (firstn_skipn i l) at 3. rewrite app_length. lia.
Qed.

Definition present (k : Z) (ks : list Z) : bool :=
  match leaf_pos k ks with O => false | S j => nth j ks 0 =? k end.

Lemma leaf_ins_spec k ks : StronglySorted Z.lt ks ->
  sinsert k ks = (if present k ks then ks else insert_at (leaf_pos k ks) k ks) /\
  (present k ks = true <-> In k ks).
Proof.
  unfold present. induction ks as [| a ks IH]; intros S.
  - cbn. split; [reflexivity | intuition discriminate].
  - apply sorted_cons in S. destruct S as [S C]. specialize (IH S). destruct IH as [IH1 IH2].
    cbn [sinsert leaf_pos]. destruct (k <? a) eqn:E.
    + split; [reflexivity |]. split; [discriminate |].
      intros [-> | H]; [lia | specialize (C k H); lia].
    + destruct (k =? a) eqn:E'.
      * assert (k = a) by lia. subst a.
        assert (L : leaf_pos k ks = 0%nat).
        { destruct ks as [| b ks]; [reflexivity |]. cbn.
          specialize (C b (or_introl eq_refl)). destruct (k <? b) eqn:E2; [reflexivity | lia]. }
        rewrite L. cbn [nth]. rewrite Z.eqb_refl. split; [reflexivity |]. split; [left; reflexivity | reflexivity].
      * destruct (leaf_pos k ks) as [| j] eqn:L.
        -- cbn [nth]. replace (a =? k) with false by lia.
           rewrite insert_at_S, IH1. split; [reflexivity |].
           split; [discriminate |]. intros [-> | H]; [lia | apply IH2 in H; discriminate].
        -- cbn [nth]. rewrite insert_at_S, IH1.
           destruct (nth j ks 0 =? k) eqn:N; (split; [reflexivity |]).
           ++ split; [intros _; right; apply IH2; reflexivity | reflexivity].
           ++ split; [discriminate |]. intros [-> | H]; [lia | apply IH2 in H; discriminate].
Qed.

Definition ins_elems (r : ins_result) : list Z :=
  match r with Done t _ => elements t | Split l s r => elements l ++ s :: elements r end.
Definition ins_fresh (r : ins_result) : bool :=
  match r with Done _ f => f | Split _ _ _ => true end.

Lemma firstn_skipn_cons {A} c (l : list A) x r : skipn c l = x :: r -> l = firstn c l ++ x :: r.
Proof. intros H. rewrite <- H. symmetry. apply firstn_skipn. Qed.

Lemma ins_leaf_spec m ks k : StronglySorted Z.lt ks ->
  ins_elems (ins_leaf m ks k) = sinsert k ks /\
  (ins_fresh (ins_leaf m ks k) = true <-> ~ In k ks).
Proof.
  intros S. destruct (leaf_ins_spec k ks S) as [E P]. unfold ins_leaf.
  fold (present k ks). rewrite E. destruct (present k ks) eqn:Pr.
  - cbn. split; [reflexivity |]. split; [discriminate | intros H; exfalso; apply H, P; reflexivity].
  - assert (N : ~ In k ks) by (intros H; apply P in H; discriminate).
    destruct (Nat.leb _ m); [cbn; tauto |].
    destruct (skipn _ _) as [| sep r] eqn:Sk; [cbn; tauto |].
    cbn. split; [symmetry; apply firstn_skipn_cons, Sk | tauto].
Qed.

(** ** inner level *)
Definition ins_cs (m : nat) (k : Z) (last : tree) :=
  fix go (cs : list (tree * Z)) : list (tree * Z) * tree * bool * bool * nat :=
    match cs with
    | [] =>
        match ins m last k with
        | Done last' f => ([], last', f, false, 0%nat)
        | Split l s r => ([(l, s)], r, true, true, 0%nat)
        end
    | (c, s) :: cs' =>
        if s <? k then
          let '(cs'', last', f, g, p) := go cs' in ((c, s) :: cs'', last', f, g, S p)
        else if s =? k then (cs, last, false, false, 0%nat)
        else
          match ins m c k with
          | Done c' f => ((c', s) :: cs', last, f, false, 0%nat)
          | Split l s' r => ((l, s') :: (r, s) :: cs', last, true, true, 0%nat)
          end
    end.

Lemma ins_Inner m cs last k :
  ins m (Inner cs last) k =
  let '(cs', last', fresh, grew, pos) := ins_cs m k last cs in
  if grew then mk_inner m cs' last' pos else Done (Inner cs' last') fresh.
Proof. reflexivity. Qed.

Lemma mk_inner_elems m cs last pos : ins_elems (mk_inner m cs last pos) = elems_cs cs last.
Proof.
  unfold mk_inner. destruct (Nat.leb _ m); [reflexivity |].
  destruct (skipn _ _) as [| [cm sep] rr] eqn:Sk; [reflexivity |].
  cbn [ins_elems]. rewrite !elements_Inner.
  pose proof (firstn_skipn_cons _ _ _ _ Sk) as Ecs.
  set (pre := firstn (cut_point m pos) cs) in *. rewrite Ecs.
  rewrite elems_cs_app, elems_cs_cons. unfold elems_cs at 1. rewrite <- !app_assoc. reflexivity.
Qed.

Lemma mk_inner_fresh m cs last pos : ins_fresh (mk_inner m cs last pos) = true.
Proof.
  unfold mk_inner. destruct (Nat.leb _ m); [reflexivity |].
  destruct (skipn _ _) as [| [cm sep] rr]; reflexivity.
Qed.

Definition ins_ok (m : nat) (t : tree) : Prop :=
  forall k, StronglySorted Z.lt (elements t) ->
    ins_elems (ins m t k) = sinsert k (elements t) /\
    (ins_fresh (ins m t k) = true <-> ~ In k (elements t)).

Lemma ins_cs_spec m k last cs :
  Forall (fun p => ins_ok m (fst p)) cs -> ins_ok m last ->
  StronglySorted Z.lt (elems_cs cs last) ->
  forall cs' last' f g p, ins_cs m k last cs = (cs', last', f, g, p) ->
    elems_cs cs' last' = sinsert k (elems_cs cs last) /\
    (f = true <-> ~ In k (elems_cs cs last)) /\ (g = true -> f = true).
Proof.
  intros IHcs IHlast. induction cs as [| [c s] cs IH]; intros S cs' last' f g p E.
  - cbn [ins_cs] in E. rewrite elems_cs_nil in *. destruct (IHlast k S) as [E1 E2].
    destruct (ins m last k) as [t' f' | l s r]; inversion E; subst; clear E.
    + cbn in E1, E2. rewrite elems_cs_nil. repeat split; try tauto; discriminate.
    + cbn in E1, E2. rewrite elems_cs_cons. unfold elems_cs. cbn [flat_map app]. tauto.
  - inversion IHcs as [| ? ? Hc Hcs]; subst. cbn [fst] in Hc.
    rewrite elems_cs_cons in *. cbn [ins_cs] in E.
    destruct (sorted_mid _ _ _ S) as (SA & SB & CA & CB).
    destruct (s <? k) eqn:L; [| destruct (s =? k) eqn:L'].
    + destruct (ins_cs m k last cs) as [[[[cs1 last1] f1] g1] p1] eqn:E1.
      inversion E; subst; clear E.
      destruct (IH Hcs SB _ _ _ _ _ eq_refl) as (I1 & I2 & I3).
      rewrite elems_cs_cons, I1.
      replace (elements c ++ s :: elems_cs cs last) with ((elements c ++ [s]) ++ elems_cs cs last)
        by (rewrite <- app_assoc; reflexivity).
      assert (Lt : forall x, In x (elements c ++ [s]) -> x < k).
      { intros x Hx. apply in_app_or in Hx. destruct Hx as [Hx | [<- | []]]; [specialize (CA x Hx) |]; lia. }
      rewrite sinsert_above by exact Lt. rewrite <- app_assoc. repeat split; try tauto.
      * intros Hf Hin. apply in_app_or in Hin. destruct Hin as [Hin | Hin]; [specialize (Lt _ Hin); lia | tauto].
      * intros Hn. apply I2. intros Hin. apply Hn, in_or_app. right. exact Hin.
    + inversion E; subst; clear E. assert (s = k) by lia. subst s.
      rewrite elems_cs_cons. rewrite sinsert_above by (intros x Hx; apply CA, Hx).
      rewrite sinsert_here. repeat split; try discriminate.
      intros H. exfalso. apply H, in_or_app. right. left. reflexivity.
    + assert (Lk : k < s) by lia.
      destruct (Hc k SA) as [E1 E2].
      assert (InA : In k (elements c ++ s :: elems_cs cs last) <-> In k (elements c)).
      { split; [| intros; apply in_or_app; left; assumption].
        intros Hin. apply in_app_or in Hin. destruct Hin as [Hin | [-> | Hin]]; [exact Hin | lia | specialize (CB _ Hin); lia]. }
      rewrite (sinsert_below k _ s _ Lk CA), InA, <- E1.
      destruct (ins m c k) as [c' f' | l s' r]; inversion E; subst; clear E; cbn [ins_elems ins_fresh] in E2 |- *.
      * rewrite elems_cs_cons. repeat split; try tauto; discriminate.
      * rewrite !elems_cs_cons, <- app_assoc. cbn. tauto.
Qed.

Lemma ins_spec m t : ins_ok m t.
Proof.
  induction t as [ks | cs last IHcs IHlast] using tree_ind'; intros k S.
  - apply ins_leaf_spec, S.
  - rewrite ins_Inner. rewrite elements_Inner in *.
    destruct (ins_cs m k last cs) as [[[[cs1 last1] f1] g1] p1] eqn:E.
    destruct (ins_cs_spec m k last cs IHcs IHlast S _ _ _ _ _ E) as (I1 & I2 & I3).
    destruct g1.
    + rewrite mk_inner_elems, mk_inner_fresh. split; [exact I1 |]. rewrite <- I2. split; auto.
    + cbn [ins_elems ins_fresh]. rewrite elements_Inner. tauto.
Qed.

(** ** shape (uniform depth, fill bounds) is preserved *)
Lemma forallb_fst (f : tree -> bool) (cs : list (tree * Z)) :
  forallb (fun p : tree * Z => let (c, _) := p in f c) cs = true <-> Forall (fun p => f (fst p) = true) cs.
Proof.
  induction cs as [| [c s] cs IH]; cbn.
  - split; [constructor | reflexivity].
  - rewrite andb_true_iff, IH. split.
    + intros [H1 H2]. constructor; assumption.
    + intros H. inversion H; subst. split; assumption.
Qed.

Lemma split_point_facts m : (3 <= m)%nat ->
  (min_keys m <= split_point m /\ min_keys m <= m - split_point m - 1 /\ split_point m + 2 <= m /\ 1 <= min_keys m)%nat.
Proof.
  intros Hm. unfold min_keys, split_point.
  pose proof (Nat.div_mod (3 * m) 4 ltac:(lia)) as D.
  pose proof (Nat.mod_upper_bound (3 * m) 4 ltac:(lia)) as U.
  lia.
Qed.

Section Shape.
  Variables m mn : nat.
  Hypothesis Hsp1 : (mn <= split_point m)%nat.
  Hypothesis Hsp2 : (mn <= m - split_point m - 1)%nat.
  Hypothesis Hsp3 : (split_point m + 2 <= m)%nat.

  Definition good (d : nat) (c : tree) : Prop := depth_ok d c = true /\ fill mn mn m c = true.

  Lemma shape_Inner d top cs last :
    (depth_ok (S d) (Inner cs last) = true /\ fill top mn m (Inner cs last) = true) <->
    ((top <= length cs <= m)%nat /\ Forall (fun p => good d (fst p)) cs /\ good d last).
  Proof.
    cbn [depth_ok fill]. rewrite !andb_true_iff, !forallb_fst. unfold good.
    rewrite !Nat.leb_le. split.
    - intros ((F1 & L1) & ((T1 & T2) & F2) & L2). repeat split; try assumption.
      rewrite Forall_forall in *. intros p Hp. split; [apply F1, Hp | apply F2, Hp].
    - intros ((T1 & T2) & F & L1 & L2). rewrite Forall_forall in F.
      repeat split; try assumption; rewrite Forall_forall; intros p Hp; apply (F p Hp).
  Qed.

  Lemma cut_point_range idx : (split_point m <= cut_point m idx <= split_point m + 1)%nat.
  Proof. unfold cut_point. destruct (Nat.leb idx (split_point m)); lia. Qed.

  Definition shape_res (d top : nat) (r : ins_result) : Prop :=
    match r with
    | Done t' _ => depth_ok d t' = true /\ fill top mn m t' = true
    | Split l _ r => good d l /\ good d r
    end.

  Definition shape_ok (t : tree) : Prop :=
    forall d top k, depth_ok d t = true -> fill top mn m t = true -> shape_res d top (ins m t k).

  Lemma ins_leaf_shape ks : shape_ok (Leaf ks).
  Proof.
    intros d top k D F. cbn [ins]. cbn [depth_ok fill] in D, F.
    apply andb_true_iff in F. destruct F as [F1 F2]. apply Nat.leb_le in F1, F2.
    unfold ins_leaf. destruct (match leaf_pos k ks with O => false | S j => nth j ks 0 =? k end).
    - cbn. split; [exact D |]. apply andb_true_iff. split; apply Nat.leb_le; assumption.
    - pose proof (insert_at_length (leaf_pos k ks) k ks) as L.
      set (ks' := insert_at (leaf_pos k ks) k ks) in *.
      destruct (Nat.leb (length ks') m) eqn:Le.
      + apply Nat.leb_le in Le. cbn. split; [exact D |].
        apply andb_true_iff. split; apply Nat.leb_le; lia.
      + apply Nat.leb_gt in Le.
        pose proof (cut_point_range (leaf_pos k ks)) as C.
        set (c := cut_point m (leaf_pos k ks)) in *.
        pose proof (skipn_length c ks') as SL. pose proof (firstn_length c ks') as FL.
        destruct (skipn c ks') as [| sep r] eqn:Sk; cbn [length] in SL; [lia |].
        cbn [shape_res]. unfold good. cbn [depth_ok fill]. rewrite D.
        repeat split; apply andb_true_iff; split; apply Nat.leb_le; lia.
  Qed.

  Lemma ins_cs_shape d k last cs :
    Forall (fun p => shape_ok (fst p)) cs -> shape_ok last ->
    Forall (fun p => good d (fst p)) cs -> good d last ->
    forall cs' last' f g p, ins_cs m k last cs = (cs', last', f, g, p) ->
      Forall (fun p => good d (fst p)) cs' /\ good d last' /\
      length cs' = (length cs + if g then 1 else 0)%nat.
  Proof.
    intros IHcs IHlast. induction cs as [| [c s] cs IH]; intros G Gl cs' last' f g p E.
    - cbn [ins_cs] in E. destruct Gl as [G1 G2]. specialize (IHlast d mn k G1 G2).
      destruct (ins m last k) as [t' f' | l s r]; inversion E; subst; clear E; cbn [shape_res] in IHlast.
      + repeat split; [constructor | apply IHlast | apply IHlast].
      + destruct IHlast as [Hl Hr]. repeat split; [constructor; [exact Hl | constructor] | apply Hr | apply Hr].
    - inversion IHcs as [| ? ? Hc Hcs]; subst. cbn [fst] in Hc.
      inversion G as [| ? ? Gc Gcs]; subst. cbn [fst] in Gc.
      cbn [ins_cs] in E. destruct (s <? k); [| destruct (s =? k)].
      + destruct (ins_cs m k last cs) as [[[[cs1 last1] f1] g1] p1] eqn:E1.
        inversion E; subst; clear E.
        destruct (IH Hcs Gcs Gl _ _ _ _ _ eq_refl) as (I1 & I2 & I3).
        repeat split; [constructor; assumption | apply I2 | apply I2 | cbn [length]; lia].
      + inversion E; subst; clear E. repeat split; [exact G | apply Gl | apply Gl | lia].
      + destruct Gc as [G1 G2]. specialize (Hc d mn k G1 G2).
        destruct (ins m c k) as [c' f' | l s' r]; inversion E; subst; clear E; cbn [shape_res] in Hc.
        * repeat split; [constructor; [exact Hc | exact Gcs] | apply Gl | apply Gl | cbn [length]; lia].
        * destruct Hc as [Hl Hr].
          repeat split; [constructor; [exact Hl | constructor; [exact Hr | exact Gcs]] | apply Gl | apply Gl | cbn [length]; lia].
  Qed.

  Lemma mk_inner_shape d top cs last pos :
    Forall (fun p => good d (fst p)) cs -> good d last -> (top <= length cs <= m + 1)%nat ->
    shape_res (S d) top (mk_inner m cs last pos).
  Proof.
    intros G Gl L. unfold mk_inner. destruct (Nat.leb (length cs) m) eqn:Le.
    - apply Nat.leb_le in Le. cbn [shape_res]. apply shape_Inner. split; [lia | split; assumption].
    - apply Nat.leb_gt in Le.
      pose proof (cut_point_range pos) as C. set (c := cut_point m pos) in *.
      pose proof (skipn_length c cs) as SL. pose proof (firstn_length c cs) as FL.
      destruct (skipn c cs) as [| [cm sep] rr] eqn:Sk; cbn [length] in SL; [lia |].
      pose proof (firstn_skipn_cons _ _ _ _ Sk) as Ecs. rewrite Ecs in G.
      apply Forall_app in G. destruct G as [Gpre Grest].
      inversion Grest as [| ? ? Gcm Grr]; subst. cbn [fst] in Gcm.
      cbn [shape_res]. split; apply shape_Inner; (split; [lia | split; assumption]).
  Qed.

  Lemma ins_shape t : shape_ok t.
  Proof.
    induction t as [ks | cs last IHcs IHlast] using tree_ind'.
    - apply ins_leaf_shape.
    - intros d top k D F. destruct d as [| d]; [discriminate D |].
      destruct (proj1 (shape_Inner d top cs last) (conj D F)) as (L & G & Gl).
      rewrite ins_Inner.
      destruct (ins_cs m k last cs) as [[[[cs1 last1] f1] g1] p1] eqn:E.
      destruct (ins_cs_shape d k last cs IHcs IHlast G Gl _ _ _ _ _ E) as (I1 & I2 & I3).
      destruct g1.
      + apply mk_inner_shape; [assumption | assumption | lia].
      + cbn [shape_res]. apply shape_Inner. repeat split; try assumption; try apply I2; lia.
  Qed.
End Shape.

Lemma depth_ok_height d t : depth_ok d t = true -> height t = d.
Proof.
  revert d. induction t as [ks | cs last IHcs IHlast] using tree_ind'; intros d D.
  - cbn in *. apply Nat.eqb_eq in D. auto.
  - destruct d as [| d]; [discriminate D |]. cbn [depth_ok] in D.
    apply andb_true_iff in D. destruct D as [_ D]. cbn [height]. f_equal. apply IHlast, D.
Qed.

Lemma contains_fresh t k (f : bool) : ordered t = true ->
  (f = true <-> ~ In k (elements t)) -> f = negb (contains t k).
Proof.
  intros O H. pose proof (ordered_find_iff t k O) as C.
  destruct (contains t k); destruct f; cbn; try reflexivity.
  - exfalso. apply (proj1 H eq_refl), C. reflexivity.
  - assert (true = false) as X; [| discriminate X]. symmetry. apply H. intros Hin. apply C in Hin. discriminate.
Qed.

(** (e) the sequential model insert refines set insertion and keeps the validator's invariant *)
Lemma insert_refines_sorted m t k : (3 <= m)%nat -> wf m t = true ->
  wf m (fst (insert m t k)) = true /\
  elements (fst (insert m t k)) = sinsert k (elements t) /\
  snd (insert m t k) = negb (contains t k).
Proof.
  intros Hm W. pose proof (wf_ordered m t W) as O.
  pose proof (ordered_elements_sorted t O) as Srt.
  unfold wf in W. rewrite !andb_true_iff in W. destruct W as [[_ B] Fl].
  destruct (split_point_facts m Hm) as (A1 & A2 & A3 & A4).
  unfold insert. destruct (is_empty t) eqn:Em.
  - destruct t as [[| ? ?] | ? ?]; try discriminate Em. cbn [fst snd elements sinsert].
    repeat split. unfold wf, ordered, balanced, filled. cbn.
    replace (Nat.leb m 0) with false by (symmetry; apply Nat.leb_gt; lia).
    destruct m as [| m']; [lia | reflexivity].
  - unfold filled in Fl. rewrite Em in Fl. cbn [orb] in Fl. unfold balanced in B.
    pose proof (ins_shape m (min_keys m) A1 A2 A3 t (height t) 1%nat k B Fl) as Sh.
    destruct (ins_spec m t k Srt) as [E1 E2].
    destruct (ins m t k) as [t' f | l s r]; cbn [fst snd]; cbn [shape_res ins_elems ins_fresh] in *.
    + destruct Sh as [D F]. repeat split.
      * unfold wf. rewrite !andb_true_iff. repeat split.
        -- apply sorted_elements_ordered. rewrite E1. apply sinsert_sorted, Srt.
        -- unfold balanced. rewrite (depth_ok_height _ _ D). exact D.
        -- unfold filled. rewrite F. apply orb_true_r.
      * exact E1.
      * apply contains_fresh; assumption.
    + destruct Sh as [Gl Gr].
      assert (E : elements (Inner [(l, s)] r) = elements l ++ s :: elements r).
      { rewrite elements_Inner, elems_cs_cons. reflexivity. }
      assert (DF : depth_ok (S (height t)) (Inner [(l, s)] r) = true /\ fill 1 (min_keys m) m (Inner [(l, s)] r) = true).
      { apply shape_Inner. repeat split; try apply Gr; [cbn; lia | cbn; lia |].
        constructor; [exact Gl | constructor]. }
      destruct DF as [D F]. repeat split.
      * unfold wf. rewrite !andb_true_iff. repeat split.
        -- apply sorted_elements_ordered. rewrite E, E1. apply sinsert_sorted, Srt.
        -- unfold balanced. rewrite (depth_ok_height _ _ D). exact D.
        -- unfold filled. rewrite F. apply orb_true_r.
      * rewrite E. exact E1.
      * apply contains_fresh; assumption.
Qed.

Lemma insert_refines_set m t k : (3 <= m)%nat -> wf m t = true ->
  let (t', fresh) := insert m t k in
  wf m t' = true /\ (forall x, In x (elements t') <-> x = k \/ In x (elements t)) /\
  fresh = negb (contains t k).
Proof.
  intros Hm W. destruct (insert_refines_sorted m t k Hm W) as (H1 & H2 & H3).
  destruct (insert m t k) as [t' fresh]. cbn [fst snd] in *.
  repeat split; try assumption; rewrite H2; apply sinsert_In.
Qed.

(** ** whole insertion histories *)
Lemma memz_In k l : memz k l = true <-> In k l.
Proof.
  unfold memz. rewrite existsb_exists. split.
  - intros [x [H1 H2]]. assert (k = x) by lia. subst. exact H1.
  - intros H. exists k. split; [exact H | lia].
Qed.

Lemma memz_ext k l1 l2 : (forall x, In x l1 <-> In x l2) -> memz k l1 = memz k l2.
Proof.
  intros H. destruct (memz k l1) eqn:E1; destruct (memz k l2) eqn:E2; try reflexivity.
  - apply memz_In, H, memz_In in E1. congruence.
  - apply memz_In, H, memz_In in E2. congruence.
Qed.

Lemma fresh_flags_ext ks : forall s1 s2, (forall x, In x s1 <-> In x s2) -> fresh_flags s1 ks = fresh_flags s2 ks.
Proof.
  induction ks as [| k ks IH]; intros s1 s2 H; cbn; [reflexivity |].
  rewrite (memz_ext k s1 s2 H). f_equal. apply IH. intros x. cbn. rewrite H. reflexivity.
Qed.

Lemma ordered_contains_memz t k : ordered t = true -> contains t k = memz k (elements t).
Proof.
  intros O. pose proof (ordered_find_iff t k O) as C. pose proof (memz_In k (elements t)) as M.
  destruct (contains t k); destruct (memz k (elements t)); try reflexivity.
  - symmetry. apply M, C. reflexivity.
  - apply C, M. reflexivity.
Qed.

Lemma insert_all_spec m ks : (3 <= m)%nat -> forall t, wf m t = true ->
  wf m (fst (insert_all m t ks)) = true /\
  (forall x, In x (elements (fst (insert_all m t ks))) <-> In x ks \/ In x (elements t)) /\
  snd (insert_all m t ks) = fresh_flags (elements t) ks.
Proof.
  intros Hm. induction ks as [| k ks IH]; intros t W.
  - cbn. repeat split; [exact W | tauto | tauto].
  - cbn [insert_all fresh_flags].
    destruct (insert_refines_sorted m t k Hm W) as (W1 & E1 & F1).
    destruct (insert m t k) as [t' f]. cbn [fst snd] in *.
    destruct (IH t' W1) as (W2 & E2 & F2).
    destruct (insert_all m t' ks) as [t'' fs]. cbn [fst snd] in *.
    repeat split.
    + exact W2.
    + intros H. apply E2 in H. rewrite E1, sinsert_In in H. cbn [In].
      destruct H as [H | [-> | H]]; auto.
    + intros H. apply E2. rewrite E1, sinsert_In. cbn [In] in H.
      destruct H as [[<- | H] | H]; auto.
    + f_equal.
      * rewrite F1. f_equal. apply ordered_contains_memz, (wf_ordered m), W.
      * rewrite F2. apply fresh_flags_ext. intros x. rewrite E1, sinsert_In. cbn. intuition.
Qed.

Lemma insert_history m ks : (3 <= m)%nat ->
  wf m (fst (insert_all m (Leaf []) ks)) = true /\
  (forall x, In x (elements (fst (insert_all m (Leaf []) ks))) <-> In x ks) /\
  snd (insert_all m (Leaf []) ks) = fresh_flags [] ks.
Proof.
  intros Hm. destruct (insert_all_spec m ks Hm (Leaf []) eq_refl) as (H1 & H2 & H3).
  split; [exact H1 |]. split; [| exact H3].
  intros x. rewrite H2. cbn [elements In]. tauto.
Qed.

Lemma ordered_iff_sorted t : ordered t = true <-> StronglySorted Z.lt (elements t).
Proof. split; [apply ordered_elements_sorted | apply sorted_elements_ordered]. Qed.

(** every distinct key reports success exactly once (never, if it was in the set before) *)
Lemma successes_seen x ks : forall seen, In x seen -> successes x ks (fresh_flags seen ks) = 0%nat.
Proof.
  unfold successes. induction ks as [| k ks IH]; intros seen H; cbn; [reflexivity |].
  destruct (k =? x) eqn:E.
  - assert (k = x) by lia. subst k. replace (memz x seen) with true by (symmetry; apply memz_In, H).
    cbn. apply IH. left. reflexivity.
  - cbn. apply IH. right. exact H.
Qed.

Lemma successes_once x ks : forall seen, ~ In x seen -> In x ks ->
  successes x ks (fresh_flags seen ks) = 1%nat.
Proof.
  induction ks as [| k ks IH]; intros seen N H; [destruct H |].
  unfold successes in *. cbn. destruct (k =? x) eqn:E.
  - assert (k = x) by lia. subst k.
    destruct (memz x seen) eqn:M; [apply memz_In in M; contradiction |].
    cbn. f_equal. apply (successes_seen x ks (x :: seen)). left. reflexivity.
  - cbn. apply IH.
    + intros [-> | H1]; [lia | contradiction].
    + destruct H as [-> | H]; [lia | exact H].
Qed.

Lemma insert_all_once m ks x : (3 <= m)%nat -> In x ks ->
  successes x ks (snd (insert_all m (Leaf []) ks)) = 1%nat.
Proof.
  intros Hm H. destruct (insert_all_spec m ks Hm (Leaf []) eq_refl) as (_ & _ & F).
  rewrite F. apply successes_once; [intros [] | exact H].
Qed.

(** * Operation hints: starting at a covering node gives the answer of a root descent *)
Lemma subtree_elements h t : subtree h t -> exists pre post, elements t = pre ++ elements h ++ post.
Proof.
  induction 1 as [| cs last c s Hin Hsub IH | cs last Hsub IH].
  - exists [], []. rewrite app_nil_r. reflexivity.
  - destruct IH as (pre & post & E). apply in_split in Hin. destruct Hin as (l1 & l2 & ->).
    rewrite elements_Inner, elems_cs_app, elems_cs_cons, E.
    exists (flat_map (fun p : tree * Z => let (c, s) := p in elements c ++ [s]) l1 ++ pre),
           (post ++ s :: elems_cs l2 last).
    rewrite <- !app_assoc. reflexivity.
  - destruct IH as (pre & post & E). rewrite elements_Inner. unfold elems_cs. rewrite E.
    exists (flat_map (fun p : tree * Z => let (c, s) := p in elements c ++ [s]) cs ++ pre), post.
    rewrite <- !app_assoc. reflexivity.
Qed.

Lemma node_keys_elements h x : In x (node_keys h) -> In x (elements h).
Proof.
  destruct h as [ks | cs last]; cbn [node_keys]; [auto |].
  rewrite elements_Inner. induction cs as [| [c s] cs IH]; cbn [map]; [intros [] |].
  rewrite elems_cs_cons. intros [<- | H]; apply in_or_app; right; [left; reflexivity | right; apply IH, H].
Qed.

Lemma last_cons (r : list Z) : forall a x, List.last (a :: r) x = List.last r a.
Proof.
  induction r as [| b r IH]; intros a x; [reflexivity |].
  change (List.last (a :: b :: r) x) with (List.last (b :: r) x). rewrite !IH. reflexivity.
Qed.

Lemma last_In (r : list Z) : forall x, In (List.last r x) (x :: r).
Proof.
  induction r as [| a r IH]; intros x; [left; reflexivity |].
  rewrite last_cons. right. apply IH.
Qed.

Lemma find_frame (f : Z -> bool) pre mid post :
  (forall x, In x pre -> f x = false) ->
  ((forall x, In x post -> f x = false) \/ (exists y, In y mid /\ f y = true)) ->
  List.find f (pre ++ mid ++ post) = List.find f mid.
Proof.
  intros Hpre H. rewrite find_app, (find_all_false f pre Hpre), find_app.
  destruct H as [Hpost | (y & Hy & Fy)].
  - rewrite (find_all_false f post Hpost). destruct (List.find f mid); reflexivity.
  - destruct (List.find f mid) eqn:E; [reflexivity |].
    pose proof (find_none _ _ E y Hy). congruence.
Qed.

Section Hints.
  Variables (t h : tree) (k : Z).
  Hypothesis Hord : ordered t = true.
  Hypothesis Hsub : subtree h t.

  Lemma hint_frame :
    exists pre post, elements t = pre ++ elements h ++ post /\
      StronglySorted Z.lt (elements h) /\
      (forall x y, In x pre -> In y (elements h) -> x < y) /\
      (forall x y, In x (elements h) -> In y post -> x < y).
  Proof.
    destruct (subtree_elements h t Hsub) as (pre & post & E). exists pre, post.
    pose proof (ordered_elements_sorted t Hord) as S. rewrite E in S.
    apply sorted_app in S. destruct S as (S1 & S2 & C1).
    apply sorted_app in S2. destruct S2 as (S2 & S3 & C2).
    repeat split; try assumption.
    intros x y Hx Hy. apply C1; [exact Hx | apply in_or_app; left; exact Hy].
  Qed.

  Lemma covers_keys x r : node_keys h = x :: r ->
    In x (elements h) /\ In (List.last r x) (elements h).
  Proof.
    intros E. split; apply node_keys_elements; rewrite E; [left; reflexivity | apply last_In].
  Qed.

  Lemma hint_find : covers h k = true -> find h k = find t k.
  Proof.
    unfold covers. destruct (node_keys h) as [| x r] eqn:E; [discriminate |]. intros C.
    destruct (covers_keys x r E) as [I1 I2].
    destruct hint_frame as (pre & post & Et & Sh & C1 & C2).
    rewrite (find_spec h k Sh), (find_spec t k (ordered_elements_sorted t Hord)), Et.
    symmetry. apply find_frame.
    - intros y Hy. specialize (C1 y x Hy I1). lia.
    - left. intros y Hy. specialize (C2 _ y I2 Hy). lia.
  Qed.

  Lemma hint_lower_bound : covers h k = true -> lower_bound h k = lower_bound t k.
  Proof.
    unfold covers. destruct (node_keys h) as [| x r] eqn:E; [discriminate |]. intros C.
    destruct (covers_keys x r E) as [I1 I2].
    destruct hint_frame as (pre & post & Et & Sh & C1 & C2).
    rewrite (ordered_lower_bound t k Hord), (ordered_lower_bound h k (sorted_elements_ordered h Sh)), Et.
    symmetry. apply find_frame.
    - intros y Hy. specialize (C1 y x Hy I1). lia.
    - right. exists (List.last r x). split; [exact I2 | lia].
  Qed.

  Lemma hint_upper_bound : covers_upper h k = true -> upper_bound h k = upper_bound t k.
  Proof.
    unfold covers_upper. destruct (node_keys h) as [| x r] eqn:E; [discriminate |]. intros C.
    destruct (covers_keys x r E) as [I1 I2].
    destruct hint_frame as (pre & post & Et & Sh & C1 & C2).
    rewrite (ordered_upper_bound t k Hord), (ordered_upper_bound h k (sorted_elements_ordered h Sh)), Et.
    symmetry. apply find_frame.
    - intros y Hy. specialize (C1 y x Hy I1). lia.
    - right. exists (List.last r x). split; [exact I2 | lia].
  Qed.
End Hints.

(** * Chunk partitioning (specification level)
    [getChunks] returns iterator ranges; the harness renders every range as the list of keys it
    iterates over. If these lists, in order, concatenate to the in-order list of a validated
    tree, then they partition the set: every element is in some chunk, chunks contain only
    elements, and no key occurs twice (neither inside one chunk nor in two chunks). *)
Lemma chunks_partition m t (cks : list (list Z)) : wf m t = true -> concat cks = elements t ->
  (forall x, In x (elements t) <-> exists c, In c cks /\ In x c) /\ NoDup (concat cks).
Proof.
  intros W E. split.
  - intros x. rewrite <- E, in_concat. split; intros (c & H1 & H2); exists c; tauto.
  - rewrite E. apply (wf_elements_NoDup m), W.
Qed.

(** * [wf] is at least as strong as the implementers' [node::check] *)
Definition check_cs (mx : nat) (last : tree) :=
  fix go (lo : option Z) (cs : list (tree * Z)) {struct cs} : bool :=
    match cs with
    | [] => check mx lo None last
    | (c, s) :: cs' => check mx lo (Some s) c && go (Some s) cs'
    end.
Lemma check_Inner mx lo hi cs last :
  check mx lo hi (Inner cs last) =
  Nat.leb (length cs) mx && first_above lo (map snd cs) && last_below (map snd cs) hi
  && asc None None (map snd cs) && check_cs mx last None cs.
Proof. reflexivity. Qed.

Lemma seps_in_elems cs last x : In x (map snd cs) -> In x (elems_cs cs last).
Proof. intros H. apply (node_keys_elements (Inner cs last)), H. Qed.

Lemma seps_sorted cs last : StronglySorted Z.lt (elems_cs cs last) -> StronglySorted Z.lt (map snd cs).
Proof.
  induction cs as [| [c s] cs IH]; intros S; [constructor |].
  rewrite elems_cs_cons in S. destruct (sorted_mid _ _ _ S) as (_ & SB & _ & CB).
  cbn [map snd]. apply sorted_cons. split; [apply IH, SB |].
  intros y Hy. apply CB, seps_in_elems, Hy.
Qed.

Lemma first_last_bounded lo hi ks :
  (forall x, In x ks -> bounded lo hi x) -> first_above lo ks = true /\ last_below ks hi = true.
Proof.
  intros H. destruct ks as [| x r]; [split; reflexivity |]. cbn [first_above last_below]. split.
  - apply (H x). left. reflexivity.
  - apply (H (List.last r x)), last_In.
Qed.

Lemma check_of_sorted mx t : forall lo hi top mn,
  StronglySorted Z.lt (elements t) -> (forall x, In x (elements t) -> bounded lo hi x) ->
  fill top mn mx t = true -> check mx lo hi t = true.
Proof.
  induction t as [ks | cs last IHcs IHlast] using tree_ind'; intros lo hi top mn S Bd F.
  - cbn [check elements fill] in *. apply andb_true_iff in F. destruct F as [_ F].
    destruct (first_last_bounded lo hi ks Bd) as [B1 B2]. rewrite F, B1, B2. cbn [andb].
    apply asc_spec. split; [exact S | intros; split; reflexivity].
  - rewrite check_Inner. rewrite elements_Inner in *. cbn [fill] in F.
    rewrite !andb_true_iff, forallb_fst in F. destruct F as (((_ & F1) & F2) & F3).
    assert (Bk : forall x, In x (map snd cs) -> bounded lo hi x) by (intros x Hx; apply Bd, seps_in_elems, Hx).
    destruct (first_last_bounded lo hi _ Bk) as [B1 B2]. rewrite F1, B1, B2. cbn [andb].
    apply andb_true_iff. split.
    + apply asc_spec. split; [apply (seps_sorted cs last), S | intros; split; reflexivity].
    + clear B1 B2 Bk F1.
      assert (Ab : forall x, In x (elems_cs cs last) -> above None x = true) by reflexivity.
      clear Bd. revert Ab. generalize (@None Z) as lo'.
      induction cs as [| [c s] cs IH]; intros lo' Ab.
      * cbn [check_cs]. apply (IHlast lo' None mn mn); [exact S | | exact F3].
        intros x Hx. split; [apply Ab, Hx | reflexivity].
      * inversion IHcs as [| ? ? Hc Hcs]; subst. cbn [fst] in Hc.
        inversion F2 as [| ? ? Fc Fcs]; subst. cbn [fst] in Fc.
        rewrite elems_cs_cons in *. destruct (sorted_mid _ _ _ S) as (SA & SB & CA & CB).
        cbn [check_cs]. apply andb_true_iff. split.
        -- apply (Hc lo' (Some s) mn mn); [exact SA | | exact Fc].
           intros x Hx. split; [apply Ab, in_or_app; left; exact Hx | apply below_Some, CA, Hx].
        -- apply (IH Hcs SB Fcs). intros x Hx. apply above_Some, CB, Hx.
Qed.

Lemma wf_implies_check m t : wf m t = true -> check m None None t = true.
Proof.
  intros W. pose proof (wf_elements_sorted m t W) as S.
  unfold wf in W. rewrite !andb_true_iff in W. destruct W as [_ Fl]. unfold filled in Fl.
  destruct (is_empty t) eqn:Em.
  - destruct t as [[| ? ?] | ? ?]; try discriminate Em. reflexivity.
  - cbn [orb] in Fl. apply (check_of_sorted m t None None 1%nat (min_keys m)); [exact S | | exact Fl].
    intros; split; reflexivity.
Qed.

(** * Validated steps: what acceptance of two consecutive dumps implies
    The harness compares the element list of every dump with a sorted-set model; these lemmas
    say that a validated dump is determined, as far as every query is concerned, by its set. *)
Lemma sorted_unique l1 : forall l2, StronglySorted Z.lt l1 -> StronglySorted Z.lt l2 ->
  (forall x, In x l1 <-> In x l2) -> l1 = l2.
Proof.
  induction l1 as [| a l1 IH]; intros l2 S1 S2 H.
  - destruct l2 as [| b l2]; [reflexivity |]. exfalso. apply (H b). left. reflexivity.
  - destruct l2 as [| b l2]; [exfalso; apply (H a); left; reflexivity |].
    apply sorted_cons in S1. destruct S1 as [S1 C1]. apply sorted_cons in S2. destruct S2 as [S2 C2].
    assert (a = b).
    { pose proof (proj1 (H a) (or_introl eq_refl)) as Ha. pose proof (proj2 (H b) (or_introl eq_refl)) as Hb.
      destruct Ha as [Ha | Ha]; [auto |]. destruct Hb as [Hb | Hb]; [auto |].
      specialize (C1 b Hb). specialize (C2 a Ha). lia. }
    subst b. f_equal. apply IH; [exact S1 | exact S2 |]. intros x. split; intros Hx.
    + pose proof (proj1 (H x) (or_intror Hx)) as [Hx' | Hx']; [specialize (C1 x Hx); lia | exact Hx'].
    + pose proof (proj2 (H x) (or_intror Hx)) as [Hx' | Hx']; [specialize (C2 x Hx); lia | exact Hx'].
Qed.

Lemma bool_iff_eq (a b : bool) : (a = true <-> b = true) -> a = b.
Proof. destruct a, b; intuition. Qed.

Lemma sremove_In k l x : In x (sremove k l) <-> x <> k /\ In x l.
Proof. unfold sremove. rewrite filter_In. split; intros [H1 H2]; split; auto; lia. Qed.

Lemma sremove_sorted k l : StronglySorted Z.lt l -> StronglySorted Z.lt (sremove k l).
Proof.
  unfold sremove. induction l as [| a l IH]; intros S; [constructor |].
  apply sorted_cons in S. destruct S as [S C]. cbn [filter].
  destruct (negb (a =? k)); [| apply IH, S].
  apply sorted_cons. split; [apply IH, S |]. intros y Hy. apply filter_In in Hy. apply C, Hy.
Qed.

Lemma validated_same_set m t t' : wf m t = true -> wf m t' = true ->
  (forall x, In x (elements t') <-> In x (elements t)) ->
  elements t' = elements t /\ size t' = size t /\
  forall q, contains t' q = contains t q /\ lower_bound t' q = lower_bound t q /\
            upper_bound t' q = upper_bound t q.
Proof.
  intros W W' H.
  assert (E : elements t' = elements t)
    by (apply sorted_unique; [apply (wf_elements_sorted m), W' | apply (wf_elements_sorted m), W | exact H]).
  split; [exact E |]. split; [rewrite !size_elements, E; reflexivity |]. intros q.
  rewrite !(ordered_contains_memz _ _ (wf_ordered m _ W)), !(ordered_contains_memz _ _ (wf_ordered m _ W')).
  rewrite !(wf_lower_bound m _ _ W), !(wf_lower_bound m _ _ W'), !(wf_upper_bound m _ _ W), !(wf_upper_bound m _ _ W'), E.
  repeat split.
Qed.

Lemma validated_insert_step m t t' k : wf m t = true -> wf m t' = true ->
  (forall x, In x (elements t') <-> x = k \/ In x (elements t)) ->
  elements t' = sinsert k (elements t) /\
  (forall q, contains t' q = (q =? k) || contains t q) /\
  size t' = (if contains t k then size t else S (size t)).
Proof.
  intros W W' H. pose proof (wf_elements_sorted m t W) as S.
  assert (E : elements t' = sinsert k (elements t)).
  { apply sorted_unique; [apply (wf_elements_sorted m), W' | apply sinsert_sorted, S |].
    intros x. rewrite H, sinsert_In. reflexivity. }
  split; [exact E |]. split.
  - intros q. pose proof (wf_find_iff m t' q W') as C'. pose proof (wf_find_iff m t q W) as C.
    rewrite H in C'. apply bool_iff_eq. rewrite orb_true_iff, Z.eqb_eq, C', C. reflexivity.
  - rewrite !size_elements, E. pose proof (wf_find_iff m t k W) as C. clear E H.
    induction (elements t) as [| a l IH].
    + destruct (contains t k); [exfalso; apply C; reflexivity | reflexivity].
    + apply sorted_cons in S. destruct S as [S1 C1]. cbn [sinsert].
      destruct (k <? a) eqn:E1.
      * destruct (contains t k); [| reflexivity].
        exfalso. destruct (proj1 C eq_refl) as [-> | Hk]; [lia | specialize (C1 k Hk); lia].
      * destruct (k =? a) eqn:E2.
        -- destruct (contains t k); [reflexivity |].
           assert (false = true) as X; [apply C; left; lia | discriminate].
        -- cbn [length]. destruct (contains t k) eqn:Ck.
           ++ f_equal. apply (IH S1). split; [intros _ | reflexivity].
              destruct (proj1 C eq_refl) as [-> | Hk]; [lia | exact Hk].
           ++ f_equal. apply (IH S1). split; [discriminate |].
              intros Hk. apply C. right. exact Hk.
Qed.

Lemma validated_erase_step m t t' k : wf m t = true -> wf m t' = true ->
  (forall x, In x (elements t') <-> x <> k /\ In x (elements t)) ->
  elements t' = sremove k (elements t) /\
  (forall q, contains t' q = negb (q =? k) && contains t q).
Proof.
  intros W W' H. pose proof (wf_elements_sorted m t W) as S.
  assert (E : elements t' = sremove k (elements t)).
  { apply sorted_unique; [apply (wf_elements_sorted m), W' | apply sremove_sorted, S |].
    intros x. rewrite H, sremove_In. reflexivity. }
  split; [exact E |].
  intros q. pose proof (wf_find_iff m t' q W') as C'. pose proof (wf_find_iff m t q W) as C.
  rewrite H in C'. apply bool_iff_eq. rewrite andb_true_iff, negb_true_iff, Z.eqb_neq, C', C. reflexivity.
Qed.

(** * Examples *)
Definition ex_I1 : tree := Inner [(Leaf [1; 2], 3); (Leaf [4], 5)] (Leaf [6; 7; 8]).
Definition ex_I2 : tree := Inner [(Leaf [10], 11)] (Leaf [12; 13]).
Definition ex_I3 : tree := Inner [(Leaf [15], 16)] (Leaf [17; 18]).
(** three levels, maxKeys = 3 (the harness' block size), dump
    (I (I (L 1 2) 3 (L 4) 5 (L 6 7 8)) 9 (I (L 10) 11 (L 12 13)) 14 (I (L 15) 16 (L 17 18))) *)
Definition ex_tree : tree := Inner [(ex_I1, 9); (ex_I2, 14)] ex_I3.

Example ex_tree_wf : wf 3 ex_tree = true.
Proof. vm_compute. reflexivity. Qed.
Example ex_tree_height : height ex_tree = 2%nat.
Proof. reflexivity. Qed.
Example ex_tree_elements : elements ex_tree = [1; 2; 3; 4; 5; 6; 7; 8; 9; 10; 11; 12; 13; 14; 15; 16; 17; 18].
Proof. vm_compute. reflexivity. Qed.
Example ex_tree_queries :
  (contains ex_tree 9, contains ex_tree 13, contains ex_tree 0, contains ex_tree 19,
   lower_bound ex_tree 9, lower_bound ex_tree (-5), lower_bound ex_tree 19,
   upper_bound ex_tree 8, upper_bound ex_tree 13, upper_bound ex_tree 18,
   next_after ex_tree 8, next_after ex_tree 9, next_after ex_tree 18, size ex_tree, first ex_tree)
  = (true, true, false, false, Some 9, Some 1, None, Some 9, Some 14, None,
     Some 9, Some 10, None, 18%nat, Some 1).
Proof. vm_compute. reflexivity. Qed.
Example ex_tree_iterate : iterate ex_tree = elements ex_tree.
Proof. vm_compute. reflexivity. Qed.

(** rejected: the separator 8 is not strictly above the keys of the child on its left *)
Example ex_bad_separator : wf 3 (Inner [(ex_I1, 8); (ex_I2, 14)] ex_I3) = false.
Proof. vm_compute. reflexivity. Qed.
(** rejected: separators of the root not ascending *)
Example ex_bad_order : wf 3 (Inner [(ex_I2, 14); (ex_I1, 9)] ex_I3) = false.
Proof. vm_compute. reflexivity. Qed.
(** rejected: leaves at different depths / node too full / empty non-root node *)
Example ex_bad_depth : wf 3 (Inner [(Leaf [1], 2)] ex_I2) = false.
Proof. vm_compute. reflexivity. Qed.
Example ex_bad_full : wf 3 (Inner [(Leaf [1; 2; 3; 4], 5)] (Leaf [6])) = false.
Proof. vm_compute. reflexivity. Qed.
Example ex_bad_empty_leaf : wf 3 (Inner [(Leaf [], 5)] (Leaf [6])) = false.
Proof. vm_compute. reflexivity. Qed.
Example ex_empty_wf : wf 3 (Leaf []) = true.
Proof. reflexivity. Qed.

(** [node::check] is strictly weaker than [wf]: it only compares the first/last key of a node
    with the parent's separators, so it accepts this tree in which key 100 sits left of
    separator 10, and in which [find] misses 100. *)
Definition ex_deep : tree := Inner [(Inner [(Leaf [1], 2)] (Leaf [100]), 10)] (Inner [(Leaf [20], 30)] (Leaf [40])).
Example ex_check_weaker :
  check 3 None None ex_deep = true /\ wf 3 ex_deep = false /\
  In 100 (elements ex_deep) /\ contains ex_deep 100 = false.
Proof. vm_compute. intuition. Qed.

(** the fill bound: maxKeys 3 -> split point 1, min 1; maxKeys 16 -> split point 12, min 3 *)
Example ex_min_keys : (split_point 3, min_keys 3, split_point 4, min_keys 4, split_point 16, min_keys 16, split_point 28, min_keys 28)
  = (1, 1, 2, 1, 12, 3, 21, 6)%nat.
Proof. vm_compute. reflexivity. Qed.

(** model insertion: ascending, descending and mixed histories with duplicates *)
Example ex_insert_asc :
  let (t, fs) := insert_all 3 (Leaf []) [1; 2; 3; 4; 5; 6; 7; 8; 9; 10; 11; 12] in
  wf 3 t = true /\ height t = 2%nat /\ elements t = [1; 2; 3; 4; 5; 6; 7; 8; 9; 10; 11; 12] /\
  fs = repeat true 12.
Proof. vm_compute. intuition. Qed.
Example ex_insert_mixed :
  let (t, fs) := insert_all 3 (Leaf []) [50; -3; 50; 7; 7; 18446744073709551616; 0; -3; 9; 8; 6; 5] in
  wf 3 t = true /\ elements t = [-3; 0; 5; 6; 7; 8; 9; 50; 18446744073709551616] /\
  fs = [true; true; false; true; false; true; true; false; true; true; true; true].
Proof. vm_compute. intuition. Qed.
(** the split of a full leaf (maxKeys 4: split point 2) equals split()-then-insert of the C++:
    left keeps keys[0..2) plus the new key when idx <= 2, keys[2] moves up *)
Example ex_split_left : ins 4 (Leaf [10; 20; 30; 40]) 15 = Split (Leaf [10; 15; 20]) 30 (Leaf [40]).
Proof. vm_compute. reflexivity. Qed.
Example ex_split_right : ins 4 (Leaf [10; 20; 30; 40]) 35 = Split (Leaf [10; 20]) 30 (Leaf [35; 40]).
Proof. vm_compute. reflexivity. Qed.
Example ex_insert_instance : (3 <= 3)%nat /\ wf 3 ex_tree = true /\
  elements (fst (insert 3 ex_tree 100)) = elements ex_tree ++ [100] /\ insert 3 ex_tree 9 = (ex_tree, false).
Proof. vm_compute. intuition. Qed.

(** hints: the node [ex_I2] covers 10..11 (its keys), a root descent gives the same answers *)
Example ex_hint : subtree ex_I2 ex_tree /\ covers ex_I2 11 = true /\
  find ex_I2 11 = find ex_tree 11 /\ lower_bound ex_I2 11 = lower_bound ex_tree 11.
Proof.
  split; [| vm_compute; intuition].
  apply (sub_child _ _ _ ex_I2 14); [right; left; reflexivity | apply sub_here].
Qed.

(** instances of the hypotheses of the validated-step lemmas: two valid dumps whose sets differ
    by one inserted / one removed key (the second tree is a different shape of the same set) *)
Definition ex_tree_plus : tree := fst (insert 3 ex_tree 100).
Definition ex_tree_minus : tree :=
  Inner [(Inner [(Leaf [1; 2], 3); (Leaf [4], 5)] (Leaf [6; 7; 8]), 9); (Inner [(Leaf [10], 11)] (Leaf [12]), 14)] ex_I3.
Example ex_steps :
  wf 3 ex_tree_plus = true /\ elements ex_tree_plus = sinsert 100 (elements ex_tree) /\
  wf 3 ex_tree_minus = true /\ elements ex_tree_minus = sremove 13 (elements ex_tree) /\
  covers_upper ex_I1 4 = true /\ upper_bound ex_I1 4 = upper_bound ex_tree 4.
Proof. vm_compute. intuition. Qed.

(** chunks: three iterator ranges rendered as lists *)
Example ex_chunks : concat [[1; 2; 3; 4; 5; 6; 7; 8]; [9; 10; 11; 12; 13]; [14; 15; 16; 17; 18]] = elements ex_tree.
Proof. vm_compute. reflexivity. Qed.

(* NOT PROVED:
   - Linearizability of the real concurrent insert (optimistic locks, retries): outside this model.
     Concurrent histories are covered only by the validator on the quiescent real tree (this file:
     every accepted dump has the query/iteration properties) plus schedule exploration.
   - Option A of rebalance_or_split (moving keys into the left sibling) is not mirrored by the
     model [insert]; the model always splits. Real post-states are tied by [wf] + element-list
     comparison, not by equality with the model tree.
   - No model of BTreeDelete.h's erase (merge_or_rebalance); C26 rests on the validator theorems,
     which do not depend on how a dumped tree was produced, plus the step lemmas
     [validated_insert_step] / [validated_erase_step].
   - collectChunks itself is not modelled (only the specification-level [chunks_partition]).
   - Insertion hints (weak_covers on last_insert) are not modelled; find/lower_bound/upper_bound
     hints are ([hint_find], [hint_lower_bound], [hint_upper_bound]).
   - binary_search is not modelled separately; on strictly ascending keys it returns the
     positions of linear_search, which the model uses.
   - btree::load (bulk load) builds trees whose leaves need not be at one depth (buildSubTree
     recurses on ranges of different length); such trees fail [balanced]. The query theorems only
     need [ordered] (lemmas [ordered_...]), so they still apply to them. *)
