(** Proofs about the B-tree model of BTreeDefs.v: for EVERY tree accepted by the validator [wf]
    (any depth, any maxKeys) the in-order key list is strictly ascending and the query walks
    ([find]/[contains], [lower_bound], [upper_bound], [size], [next_after], [iterate]) agree with
    the sorted-list model; the sequential model [insert] refines set insertion and keeps [wf]
    (maxKeys >= 3). *)
From Coq Require Import Lia ZifyBool ZifyNat Sorted.
From SV Require Export BTreeDefs.
Local Open Scope Z_scope.

(** * Nested induction principle for [tree] *)
Lemma tree_ind' (P : tree -> Prop) :
  (forall ks, P (Leaf ks)) ->
  (forall cs last, Forall (fun p => P (fst p)) cs -> P last -> P (Inner cs last)) ->
  forall t, P t.
Proof.
  intros HL HI. fix IH 1. intros [ks | cs last].
  - apply HL.
  - apply HI; [| apply IH].
    induction cs as [| [c s] cs IHcs]; constructor; [apply IH | exact IHcs].
Qed.

(** * Unfolding of the nested fixpoints *)
Definition elems_cs (cs : list (tree * Z)) (last : tree) : list Z :=
  flat_map (fun p : tree * Z => let (c, s) := p in elements c ++ [s]) cs ++ elements last.

Lemma elements_Inner cs last : elements (Inner cs last) = elems_cs cs last.
Proof. reflexivity. Qed.
Lemma elems_cs_nil last : elems_cs [] last = elements last.
Proof. reflexivity. Qed.
Lemma elems_cs_cons c s cs last : elems_cs ((c, s) :: cs) last = elements c ++ s :: elems_cs cs last.
Proof. unfold elems_cs. cbn [flat_map]. rewrite <- !app_assoc. reflexivity. Qed.
Lemma elems_cs_app cs1 cs2 last :
  elems_cs (cs1 ++ cs2) last = flat_map (fun p : tree * Z => let (c, s) := p in elements c ++ [s]) cs1 ++ elems_cs cs2 last.
Proof. unfold elems_cs. rewrite flat_map_app, <- app_assoc. reflexivity. Qed.

Definition ord_cs (hi : option Z) (last : tree) :=
  fix go (lo : option Z) (cs : list (tree * Z)) {struct cs} : bool :=
    match cs with
    | [] => ord lo hi last
    | (c, s) :: cs' => ord lo (Some s) c && above lo s && below s hi && go (Some s) cs'
    end.
Lemma ord_Inner lo hi cs last : ord lo hi (Inner cs last) = ord_cs hi last lo cs.
Proof. reflexivity. Qed.
Lemma ord_cs_cons hi last lo c s cs :
  ord_cs hi last lo ((c, s) :: cs) = ord lo (Some s) c && above lo s && below s hi && ord_cs hi last (Some s) cs.
Proof. reflexivity. Qed.

(** * Bounds and sorted lists *)
Definition bounded (lo hi : option Z) (x : Z) : Prop := above lo x = true /\ below x hi = true.

Lemma above_Some l x : above (Some l) x = true <-> l < x.
Proof. unfold above. lia. Qed.
Lemma below_Some x h : below x (Some h) = true <-> x < h.
Proof. unfold below. lia. Qed.

Lemma above_trans lo x y : above lo x = true -> x < y -> above lo y = true.
Proof. destruct lo; cbn; [lia | auto]. Qed.
Lemma below_trans hi x y : below y hi = true -> x < y -> below x hi = true.
Proof. destruct hi; cbn; [lia | auto]. Qed.

Lemma sorted_app l1 l2 :
  StronglySorted Z.lt (l1 ++ l2) <->
  StronglySorted Z.lt l1 /\ StronglySorted Z.lt l2 /\ (forall x y, In x l1 -> In y l2 -> x < y).
Proof.
  induction l1 as [| a l1 IH]; cbn.
  - split; [intros H; repeat split; [constructor | exact H | intros ? ? []] | tauto].
  - split.
    + intros H. inversion H as [| ? ? H1 H2]; subst. apply IH in H1 as (S1 & S2 & C).
      rewrite Forall_app in H2. destruct H2 as [F1 F2]. rewrite Forall_forall in F2.
      repeat split; [constructor; assumption | assumption |].
      intros x y [-> | Hx] Hy; [apply F2, Hy | apply C; assumption].
    + intros (S1 & S2 & C). inversion S1 as [| ? ? H1 H2]; subst.
      constructor; [apply IH; repeat split; auto |].
      rewrite Forall_app. split; [assumption |]. rewrite Forall_forall. intros y Hy. apply C; auto.
Qed.

Lemma sorted_cons x l :
  StronglySorted Z.lt (x :: l) <-> StronglySorted Z.lt l /\ (forall y, In y l -> x < y).
Proof.
  split.
  - intros H. inversion H; subst. rewrite Forall_forall in *. auto.
  - intros [S C]. constructor; [assumption | rewrite Forall_forall; assumption].
Qed.

(** [asc] = sorted and bounded *)
Lemma asc_spec ks : forall lo hi,
  asc lo hi ks = true <-> StronglySorted Z.lt ks /\ (forall x, In x ks -> bounded lo hi x).
Proof.
  induction ks as [| a ks IH]; intros lo hi; cbn [asc].
  - split; [intros _; split; [constructor | intros ? []] | reflexivity].
  - rewrite !andb_true_iff, IH, sorted_cons. unfold bounded. split.
    + intros [[A B] [S C]]. repeat split.
      * exact S.
      * intros y Hy. apply above_Some, (C y Hy).
      * destruct H as [<- | H]; [exact A | eapply above_trans; [exact A |]; apply above_Some, (C x H)].
      * destruct H as [<- | H]; [exact B | apply (C x H)].
    + intros [[S C] Bd]. repeat split.
      * apply (Bd a); left; reflexivity.
      * apply (Bd a); left; reflexivity.
      * exact S.
      * apply above_Some, C, H.
      * apply (Bd x); right; exact H.
Qed.

Lemma glue_spec lo hi A s B :
  ((StronglySorted Z.lt A /\ (forall x, In x A -> bounded lo (Some s) x)) /\
   above lo s = true /\ below s hi = true /\
   (StronglySorted Z.lt B /\ (forall x, In x B -> bounded (Some s) hi x)))
  <-> (StronglySorted Z.lt (A ++ s :: B) /\ (forall x, In x (A ++ s :: B) -> bounded lo hi x)).
Proof.
  rewrite sorted_app, sorted_cons. unfold bounded. split.
  - intros ((SA & BA) & Ls & Sh & SB & BB). repeat split.
    + exact SA.
    + exact SB.
    + intros y Hy. apply above_Some, (BB y Hy).
    + intros x y Hx [<- | Hy].
      * apply below_Some, (BA x Hx).
      * pose proof (proj2 (BA x Hx)) as H1. pose proof (proj1 (BB y Hy)) as H2.
        apply below_Some in H1. apply above_Some in H2. lia.
    + apply in_app_or in H. destruct H as [H | [<- | H]].
      * apply (BA x H).
      * exact Ls.
      * eapply above_trans; [exact Ls | apply above_Some, (BB x H)].
    + apply in_app_or in H. destruct H as [H | [<- | H]].
      * eapply below_trans; [exact Sh | apply below_Some, (BA x H)].
      * exact Sh.
      * apply (BB x H).
  - intros ((SA & (SB & CB) & CAB) & Bd).
    assert (Bs : above lo s = true /\ below s hi = true) by (apply Bd, in_or_app; right; left; reflexivity).
    repeat split; try tauto.
    + apply (Bd x), in_or_app; left; exact H.
    + apply below_Some, CAB; [exact H | left; reflexivity].
    + apply above_Some, CB, H.
    + apply (Bd x), in_or_app; right; right; exact H.
Qed.

(** The local check [ord] is exactly: in-order list strictly ascending and inside the bounds. *)
Lemma ord_spec t : forall lo hi,
  ord lo hi t = true <->
  StronglySorted Z.lt (elements t) /\ (forall x, In x (elements t) -> bounded lo hi x).
Proof.
  induction t as [ks | cs last IHcs IHlast] using tree_ind'; intros lo hi.
  - apply asc_spec.
  - rewrite ord_Inner, elements_Inner. revert lo.
    induction cs as [| [c s] cs IH]; intros lo.
    + apply IHlast.
    + inversion IHcs as [| ? ? Hc Hcs]; subst. cbn [fst] in Hc.
      rewrite ord_cs_cons, elems_cs_cons, !andb_true_iff, Hc, (IH Hcs), <- glue_spec. tauto.
Qed.

Lemma ord_cs_spec hi last cs lo :
  ord_cs hi last lo cs = true <->
  StronglySorted Z.lt (elems_cs cs last) /\ (forall x, In x (elems_cs cs last) -> bounded lo hi x).
Proof. rewrite <- ord_Inner, ord_spec. reflexivity. Qed.

Lemma wf_ordered m t : wf m t = true -> ordered t = true.
Proof. unfold wf. rewrite !andb_true_iff. tauto. Qed.

(** (a) iteration order of a validated tree is strictly ascending (hence duplicate free) *)
Lemma ordered_elements_sorted t : ordered t = true -> StronglySorted Z.lt (elements t).
Proof. intros H. apply ord_spec in H. apply H. Qed.

Lemma wf_elements_sorted m t : wf m t = true -> StronglySorted Z.lt (elements t).
Proof. intros H. apply ordered_elements_sorted, (wf_ordered m), H. Qed.

Lemma sorted_NoDup l : StronglySorted Z.lt l -> NoDup l.
Proof.
  induction 1 as [| a l S IH F]; constructor; [| exact IH].
  intros Hin. rewrite Forall_forall in F. specialize (F a Hin). lia.
Qed.

Lemma wf_elements_NoDup m t : wf m t = true -> NoDup (elements t).
Proof. intros H. apply sorted_NoDup, (wf_elements_sorted m), H. Qed.

(** Conversely every strictly ascending in-order list passes the ordering check: the check
    rejects nothing that the set semantics allows. *)
Lemma sorted_elements_ordered t : StronglySorted Z.lt (elements t) -> ordered t = true.
Proof. intros H. apply ord_spec. split; [exact H | intros; split; reflexivity]. Qed.

(** * Queries against the sorted-list model *)
Definition orelse (o res : option Z) : option Z := match o with Some x => Some x | None => res end.

Lemma find_app (f : Z -> bool) l1 l2 :
  List.find f (l1 ++ l2) = match List.find f l1 with Some x => Some x | None => List.find f l2 end.
Proof. induction l1 as [| a l1 IH]; cbn; [reflexivity | destruct (f a); auto]. Qed.

Lemma find_all_false (f : Z -> bool) l : (forall x, In x l -> f x = false) -> List.find f l = None.
Proof.
  induction l as [| a l IH]; cbn; intros H; [reflexivity |].
  rewrite (H a) by (left; reflexivity). apply IH. intros x Hx. apply H. right. exact Hx.
Qed.

Lemma find_all_true (f : Z -> bool) l : (forall x, In x l -> f x = true) -> List.find f l = hd_error l.
Proof. destruct l as [| a l]; cbn; intros H; [reflexivity |]. rewrite (H a) by (left; reflexivity). reflexivity. Qed.

(** facts about [A ++ s :: B] sorted *)
Lemma sorted_mid A s B :
  StronglySorted Z.lt (A ++ s :: B) ->
  StronglySorted Z.lt A /\ StronglySorted Z.lt B /\
  (forall x, In x A -> x < s) /\ (forall y, In y B -> s < y).
Proof.
  rewrite sorted_app, sorted_cons. intros (SA & (SB & CB) & CAB). repeat split; auto.
  intros x Hx. apply CAB; [exact Hx | left; reflexivity].
Qed.

(** one step of a node scan: the three cases of the comparison of [k] with separator [s] *)
Lemma find_step_lt (f : Z -> bool) A s B :
  (forall x, In x A -> f x = false) -> f s = false ->
  List.find f (A ++ s :: B) = List.find f B.
Proof. intros HA Hs. rewrite find_app, (find_all_false f A HA). cbn. rewrite Hs. reflexivity. Qed.

Lemma find_step_hit (f : Z -> bool) A s B :
  f s = true -> List.find f (A ++ s :: B) = orelse (List.find f A) (Some s).
Proof. intros Hs. rewrite find_app. cbn. rewrite Hs. reflexivity. Qed.

Lemma find_step_gt (f : Z -> bool) A s B :
  f s = false -> (forall x, In x B -> f x = false) ->
  List.find f (A ++ s :: B) = List.find f A.
Proof.
  intros Hs HB. rewrite find_app. cbn. rewrite Hs, (find_all_false f B HB).
  destruct (List.find f A); reflexivity.
Qed.

(** in-node searches are List.find *)
Lemma search_lower_spec k ks : search_lower k ks = List.find (fun x => k <=? x) ks.
Proof.
  induction ks as [| a ks IH]; cbn; [reflexivity |].
  destruct (a <? k) eqn:E; destruct (k <=? a) eqn:E'; try lia; auto.
Qed.

Lemma search_upper_spec k ks : search_upper k ks = List.find (fun x => k <? x) ks.
Proof. induction ks as [| a ks IH]; cbn; [reflexivity |]. destruct (k <? a); auto. Qed.

(** ** find / contains *)
Definition find_cs (k : Z) (last : tree) :=
  fix go (cs : list (tree * Z)) : option Z :=
    match cs with
    | [] => find last k
    | (c, s) :: cs' => if s <? k then go cs' else if s =? k then Some s else find c k
    end.
Lemma find_Inner cs last k : find (Inner cs last) k = find_cs k last cs.
Proof. reflexivity. Qed.

Lemma find_spec t : forall k,
  StronglySorted Z.lt (elements t) -> find t k = List.find (fun x => x =? k) (elements t).
Proof.
  induction t as [ks | cs last IHcs IHlast] using tree_ind'; intros k S.
  - cbn [find elements] in *. induction ks as [| a ks IH]; cbn; [reflexivity |].
    apply sorted_cons in S. destruct S as [S C].
    destruct (a <? k) eqn:E.
    + destruct (a =? k) eqn:E'; [lia | apply IH, S].
    + destruct (a =? k) eqn:E'; [reflexivity |].
      symmetry. apply find_all_false. intros x Hx. specialize (C x Hx). lia.
  - rewrite find_Inner, elements_Inner in *.
    induction cs as [| [c s] cs IH].
    + apply IHlast, S.
    + inversion IHcs as [| ? ? Hc Hcs]; subst. cbn [fst] in Hc.
      rewrite elems_cs_cons in *. cbn [find_cs].
      destruct (sorted_mid _ _ _ S) as (SA & SB & CA & CB).
      destruct (s <? k) eqn:E; [| destruct (s =? k) eqn:E'].
      * rewrite find_step_lt; [apply (IH Hcs SB) | | lia].
        intros x Hx. specialize (CA x Hx). lia.
      * rewrite find_step_hit by exact E'.
        rewrite find_all_false; [reflexivity |]. intros x Hx. specialize (CA x Hx). lia.
      * rewrite find_step_gt; [apply (Hc k SA) | exact E' |].
        intros x Hx. specialize (CB x Hx). lia.
Qed.

Lemma find_eqb_In k l : (exists x, List.find (fun x => x =? k) l = Some x) <-> In k l.
Proof.
  split.
  - intros [x H]. apply find_some in H. destruct H as [H1 H2]. assert (x = k) by lia. subst. exact H1.
  - intros H. destruct (List.find (fun x => x =? k) l) eqn:E; [eauto |].
    exfalso. pose proof (find_none _ _ E k H) as H1. cbn in H1. lia.
Qed.

Lemma ordered_find_iff t k : ordered t = true -> (contains t k = true <-> In k (elements t)).
Proof.
  intros H. apply ordered_elements_sorted in H. unfold contains. rewrite (find_spec t k H).
  rewrite <- find_eqb_In. destruct (List.find _ _); split; intros; eauto; try discriminate.
  destruct H0 as [? ?]; discriminate.
Qed.

(** (b) *)
Lemma wf_find_iff m t k : wf m t = true -> (contains t k = true <-> In k (elements t)).
Proof. intros H. apply ordered_find_iff, (wf_ordered m), H. Qed.

(** [find] returns the key itself *)
Lemma wf_find_value m t k : wf m t = true ->
  find t k = if contains t k then Some k else None.
Proof.
  intros H. unfold contains. apply wf_elements_sorted in H. rewrite (find_spec t k H).
  destruct (List.find _ _) eqn:E; [| reflexivity]. apply find_some in E. f_equal. lia.
Qed.

(** ** lower_bound *)
Definition lower_cs (res : option Z) (k : Z) (last : tree) :=
  fix go (cs : list (tree * Z)) : option Z :=
    match cs with
    | [] => lower_bound_from res last k
    | (c, s) :: cs' =>
        if s <? k then go cs' else if s =? k then Some s else lower_bound_from (Some s) c k
    end.
Lemma lower_Inner res cs last k : lower_bound_from res (Inner cs last) k = lower_cs res k last cs.
Proof. reflexivity. Qed.

Lemma lower_bound_from_spec t : forall res k,
  StronglySorted Z.lt (elements t) ->
  lower_bound_from res t k = orelse (List.find (fun x => k <=? x) (elements t)) res.
Proof.
  induction t as [ks | cs last IHcs IHlast] using tree_ind'; intros res k S.
  - cbn [lower_bound_from elements]. rewrite search_lower_spec. reflexivity.
  - rewrite lower_Inner, elements_Inner in *.
    induction cs as [| [c s] cs IH].
    + apply IHlast, S.
    + inversion IHcs as [| ? ? Hc Hcs]; subst. cbn [fst] in Hc.
      rewrite elems_cs_cons in *. cbn [lower_cs].
      destruct (sorted_mid _ _ _ S) as (SA & SB & CA & CB).
      destruct (s <? k) eqn:E; [| destruct (s =? k) eqn:E'].
      * rewrite find_step_lt; [apply (IH Hcs SB) | | lia].
        intros x Hx. specialize (CA x Hx). lia.
      * rewrite find_step_hit by lia.
        rewrite find_all_false; [reflexivity |]. intros x Hx. specialize (CA x Hx). lia.
      * rewrite find_step_hit by lia. rewrite (Hc _ k SA).
        destruct (List.find _ (elements c)); reflexivity.
Qed.

Lemma ordered_lower_bound t k : ordered t = true ->
  lower_bound t k = List.find (fun x => k <=? x) (elements t).
Proof.
  intros H. unfold lower_bound. rewrite lower_bound_from_spec by (apply ordered_elements_sorted, H).
  destruct (List.find _ _); reflexivity.
Qed.

(** (c) lower_bound = first element >= k of the in-order list, [None] = end() *)
Lemma wf_lower_bound m t k : wf m t = true ->
  lower_bound t k = List.find (fun x => k <=? x) (elements t).
Proof. intros H. apply ordered_lower_bound, (wf_ordered m), H. Qed.

(** ** upper_bound *)
Definition upper_cs (res : option Z) (k : Z) (last : tree) :=
  fix go (cs : list (tree * Z)) : option Z :=
    match cs with
    | [] => upper_bound_from res last k
    | (c, s) :: cs' => if k <? s then upper_bound_from (Some s) c k else go cs'
    end.
Lemma upper_Inner res cs last k : upper_bound_from res (Inner cs last) k = upper_cs res k last cs.
Proof. reflexivity. Qed.

Lemma upper_bound_from_spec t : forall res k,
  StronglySorted Z.lt (elements t) ->
  upper_bound_from res t k = orelse (List.find (fun x => k <? x) (elements t)) res.
Proof.
  induction t as [ks | cs last IHcs IHlast] using tree_ind'; intros res k S.
  - cbn [upper_bound_from elements]. rewrite search_upper_spec. reflexivity.
  - rewrite upper_Inner, elements_Inner in *.
    induction cs as [| [c s] cs IH].
    + apply IHlast, S.
    + inversion IHcs as [| ? ? Hc Hcs]; subst. cbn [fst] in Hc.
      rewrite elems_cs_cons in *. cbn [upper_cs].
      destruct (sorted_mid _ _ _ S) as (SA & SB & CA & CB).
      destruct (k <? s) eqn:E.
      * rewrite find_step_hit by lia. rewrite (Hc _ k SA).
        destruct (List.find _ (elements c)); reflexivity.
      * rewrite find_step_lt; [apply (IH Hcs SB) | | lia].
        intros x Hx. specialize (CA x Hx). lia.
Qed.

Lemma ordered_upper_bound t k : ordered t = true ->
  upper_bound t k = List.find (fun x => k <? x) (elements t).
Proof.
  intros H. unfold upper_bound. rewrite upper_bound_from_spec by (apply ordered_elements_sorted, H).
  destruct (List.find _ _); reflexivity.
Qed.

(** (c') upper_bound = first element > k *)
Lemma wf_upper_bound m t k : wf m t = true ->
  upper_bound t k = List.find (fun x => k <? x) (elements t).
Proof. intros H. apply ordered_upper_bound, (wf_ordered m), H. Qed.

(** ** size *)
Lemma size_elements t : size t = length (elements t).
Proof.
  induction t as [ks | cs last IHcs IHlast] using tree_ind'; [reflexivity |].
  cbn [size]. rewrite elements_Inner. unfold elems_cs. rewrite app_length, IHlast. f_equal. clear IHlast.
  induction cs as [| [c s] cs IH]; [reflexivity |].
  inversion IHcs as [| ? ? Hc Hcs]; subst. cbn [fst] in Hc.
  cbn [length map list_sum flat_map]. rewrite !app_length, <- (IH Hcs), Hc. cbn [length]. cbn [list_sum fold_right]. fold (list_sum (map (fun p : tree * Z => let (c0, _) := p in size c0) cs)). lia.
Qed.

(** (d) holds for every tree, well-formed or not *)
Lemma wf_size m t : wf m t = true -> size t = length (elements t).
Proof. intros _. apply size_elements. Qed.

(** ** begin(), operator++, full iteration *)
Lemma hd_error_mid A (s : Z) B : hd_error (A ++ s :: B) = orelse (hd_error A) (Some s).
Proof. destruct A; reflexivity. Qed.

Lemma first_from_spec t : forall res, first_from res t = orelse (hd_error (elements t)) res.
Proof.
  induction t as [ks | cs last IHcs IHlast] using tree_ind'; intros res.
  - destruct ks; reflexivity.
  - destruct cs as [| [c s] cs].
    + cbn [first_from]. rewrite IHlast. reflexivity.
    + inversion IHcs as [| ? ? Hc Hcs]; subst. cbn [fst] in Hc.
      cbn [first_from]. rewrite Hc, elements_Inner, elems_cs_cons, hd_error_mid.
      destruct (hd_error (elements c)); reflexivity.
Qed.

Lemma first_spec t : first t = hd_error (elements t).
Proof. unfold first. rewrite first_from_spec. destruct (hd_error _); reflexivity. Qed.

Definition next_cs (res : option Z) (k : Z) (last : tree) :=
  fix go (cs : list (tree * Z)) : option Z :=
    match cs with
    | [] => next_from res last k
    | (c, s) :: cs' =>
        if k <? s then next_from (Some s) c k
        else if s =? k then
          match cs' with
          | [] => first_from res last
          | (c', s') :: _ => first_from (Some s') c'
          end
        else go cs'
    end.
Lemma next_Inner res cs last k : next_from res (Inner cs last) k = next_cs res k last cs.
Proof. reflexivity. Qed.

Lemma next_from_spec t : forall res k,
  StronglySorted Z.lt (elements t) ->
  next_from res t k = orelse (List.find (fun x => k <? x) (elements t)) res.
Proof.
  induction t as [ks | cs last IHcs IHlast] using tree_ind'; intros res k S.
  - cbn [next_from elements]. rewrite search_upper_spec. reflexivity.
  - rewrite next_Inner, elements_Inner in *.
    induction cs as [| [c s] cs IH].
    + apply IHlast, S.
    + inversion IHcs as [| ? ? Hc Hcs]; subst. cbn [fst] in Hc.
      rewrite elems_cs_cons in *. cbn [next_cs].
      destruct (sorted_mid _ _ _ S) as (SA & SB & CA & CB).
      destruct (k <? s) eqn:E; [| destruct (s =? k) eqn:E'].
      * rewrite find_step_hit by lia. rewrite (Hc _ k SA).
        destruct (List.find _ (elements c)); reflexivity.
      * rewrite find_step_lt; [| intros x Hx; specialize (CA x Hx); lia | lia].
        rewrite find_all_true by (intros x Hx; specialize (CB x Hx); lia).
        destruct cs as [| [c' s'] cs'].
        -- rewrite elems_cs_nil. apply first_from_spec.
        -- rewrite elems_cs_cons, hd_error_mid, first_from_spec.
           destruct (hd_error (elements c')); reflexivity.
      * rewrite find_step_lt; [apply (IH Hcs SB) | | lia].
        intros x Hx. specialize (CA x Hx). lia.
Qed.

(** ++ from the position of [k] reaches the first element above [k] *)
Lemma ordered_next_after t k : ordered t = true ->
  next_after t k = List.find (fun x => k <? x) (elements t).
Proof.
  intros H. unfold next_after. rewrite next_from_spec by (apply ordered_elements_sorted, H).
  destruct (List.find _ _); reflexivity.
Qed.

Lemma wf_next_after m t k : wf m t = true ->
  next_after t k = List.find (fun x => k <? x) (elements t).
Proof. intros H. apply ordered_next_after, (wf_ordered m), H. Qed.

Lemma iter_from_suffix t : ordered t = true ->
  forall l2 l1 n, elements t = l1 ++ l2 -> (length l2 <= n)%nat ->
  iter_from n t (hd_error l2) = l2.
Proof.
  intros H l2. induction l2 as [| x l2 IH]; intros l1 n E L.
  - destruct n; reflexivity.
  - destruct n as [| n]; [cbn in L; lia |]. cbn [hd_error iter_from]. f_equal.
    rewrite (ordered_next_after t x H), E.
    pose proof (ordered_elements_sorted t H) as S. rewrite E in S.
    destruct (sorted_mid _ _ _ S) as (_ & _ & CA & CB).
    rewrite find_step_lt; [| intros y Hy; specialize (CA y Hy); lia | lia].
    rewrite find_all_true by (intros y Hy; specialize (CB y Hy); lia).
    apply (IH (l1 ++ [x])); [rewrite <- app_assoc; exact E | cbn in L; lia].
Qed.

(** begin() and repeated ++ enumerate exactly the in-order list, then reach end() *)
Lemma ordered_iterate t : ordered t = true -> iterate t = elements t.
Proof.
  intros H. unfold iterate. rewrite first_spec.
  apply (iter_from_suffix t H (elements t) []); [reflexivity | rewrite size_elements; lia].
Qed.

Lemma wf_iterate m t : wf m t = true -> iterate t = elements t.
Proof. intros H. apply ordered_iterate, (wf_ordered m), H. Qed.

(** * Insertion *)

(** ** the sorted-list specification [sinsert] *)
Lemma sinsert_In k l x : In x (sinsert k l) <-> x = k \/ In x l.
Proof.
  induction l as [| a l IH]; cbn.
  - intuition.
  - destruct (k <? a) eqn:E; [cbn; intuition |].
    destruct (k =? a) eqn:E'; cbn; [assert (k = a) by lia; subst; intuition |].
    rewrite IH. intuition.
Qed.

Lemma sinsert_sorted k l : StronglySorted Z.lt l -> StronglySorted Z.lt (sinsert k l).
Proof.
  induction l as [| a l IH]; cbn; intros S.
  - constructor; constructor.
  - apply sorted_cons in S as S'. destruct S' as [S1 C].
    destruct (k <? a) eqn:E.
    + apply sorted_cons. split; [exact S |]. intros y [<- | Hy]; [lia | specialize (C y Hy); lia].
    + destruct (k =? a) eqn:E'; [exact S |].
      apply sorted_cons. split; [apply IH, S1 |].
      intros y Hy. apply sinsert_In in Hy. destruct Hy as [-> | Hy]; [lia | apply C, Hy].
Qed.

Lemma sinsert_below k A s B :
  k < s -> (forall x, In x A -> x < s) -> sinsert k (A ++ s :: B) = sinsert k A ++ s :: B.
Proof.
  intros Hk. induction A as [| a A IH]; intros HA; cbn.
  - destruct (k <? s) eqn:E; [reflexivity | lia].
  - destruct (k <? a); [reflexivity |]. destruct (k =? a); [reflexivity |].
    cbn. f_equal. apply IH. intros x Hx. apply HA. right. exact Hx.
Qed.

Lemma sinsert_above k A L :
  (forall x, In x A -> x < k) -> sinsert k (A ++ L) = A ++ sinsert k L.
Proof.
  induction A as [| a A IH]; intros HA; cbn; [reflexivity |].
  pose proof (HA a (or_introl eq_refl)).
  destruct (k <? a) eqn:E; [lia |]. destruct (k =? a) eqn:E'; [lia |].
  f_equal. apply IH. intros x Hx. apply HA. right. exact Hx.
Qed.

Lemma sinsert_here k B : sinsert k (k :: B) = k :: B.
Proof. cbn. destruct (k <? k) eqn:E; [lia |]. destruct (k =? k) eqn:E'; [reflexivity | lia]. Qed.

(** ** leaf level *)
Lemma insert_at_0 k l : insert_at 0 k l = k :: l.
Proof. reflexivity. Qed.
Lemma insert_at_S i k a l : insert_at (S i) k (a :: l) = a :: insert_at i k l.
Proof. reflexivity. Qed.
Lemma insert_at_length i k l : length (insert_at i k l) = S (length l).
Proof.
  unfold insert_at. rewrite app_length. cbn [length].
  rewrite <- (firstn_skipn i l) at 3. rewrite app_length. lia.
Qed.

Definition present (k : Z) (ks : list Z) : bool :=
  match leaf_pos k ks with O => false | S j => nth j ks 0 =? k end.

Lemma leaf_ins_spec k ks : StronglySorted Z.lt ks ->
  sinsert k ks = (if present k ks then ks else insert_at (leaf_pos k ks) k ks) /\
  (present k ks = true <-> In k ks).
Proof.
  unfold present. induction ks as [| a ks IH]; intros S.
  - cbn. split; [reflexivity | intuition discriminate].
  - apply sorted_cons in S. destruct S as [S C]. specialize (IH S). destruct IH as [IH1 IH2].
    cbn [sinsert leaf_pos]. destruct (k <? a) eqn:E.
    + split; [reflexivity |]. split; [discriminate |].
      intros [-> | H]; [lia | specialize (C k H); lia].
    + destruct (k =? a) eqn:E'.
      * assert (k = a) by lia. subst a.
        assert (L : leaf_pos k ks = 0%nat).
        { destruct ks as [| b ks]; [reflexivity |]. cbn.
          specialize (C b (or_introl eq_refl)). destruct (k <? b) eqn:E2; [reflexivity | lia]. }
        rewrite L. cbn [nth]. rewrite Z.eqb_refl. split; [reflexivity |]. split; [left; reflexivity | reflexivity].
      * destruct (leaf_pos k ks) as [| j] eqn:L.
        -- cbn [nth]. replace (a =? k) with false by lia.
           rewrite insert_at_S, IH1. split; [reflexivity |].
           split; [discriminate |]. intros [-> | H]; [lia | apply IH2 in H; discriminate].
        -- cbn [nth]. rewrite insert_at_S, IH1.
           destruct (nth j ks 0 =? k) eqn:N; (split; [reflexivity |]).
           ++ split; [intros _; right; apply IH2; reflexivity | reflexivity].
           ++ split; [discriminate |]. intros [-> | H]; [lia | apply IH2 in H; discriminate].
Qed.

Definition ins_elems (r : ins_result) : list Z :=
  match r with Done t _ => elements t | Split l s r => elements l ++ s :: elements r end.
Definition ins_fresh (r : ins_result) : bool :=
  match r with Done _ f => f | Split _ _ _ => true end.

Lemma firstn_skipn_cons {A} c (l : list A) x r : skipn c l = x :: r -> l = firstn c l ++ x :: r.
Proof. intros H. rewrite <- H. symmetry. apply firstn_skipn. Qed.

Lemma ins_leaf_spec m ks k : StronglySorted Z.lt ks ->
  ins_elems (ins_leaf m ks k) = sinsert k ks /\
  (ins_fresh (ins_leaf m ks k) = true <-> ~ In k ks).
Proof.
  intros S. destruct (leaf_ins_spec k ks S) as [E P]. unfold ins_leaf.
  fold (present k ks). rewrite E. destruct (present k ks) eqn:Pr.
  - cbn. split; [reflexivity |]. split; [discriminate | intros H; exfalso; apply H, P; reflexivity].
  - assert (N : ~ In k ks) by (intros H; apply P in H; discriminate).
    destruct (Nat.leb _ m); [cbn; tauto |].
    destruct (skipn _ _) as [| sep r] eqn:Sk; [cbn; tauto |].
    cbn. split; [symmetry; apply firstn_skipn_cons, Sk | tauto].
Qed.

(** ** inner level *)
Definition ins_cs (m : nat) (k : Z) (last : tree) :=
  fix go (cs : list (tree * Z)) : list (tree * Z) * tree * bool * bool * nat :=
    match cs with
    | [] =>
        match ins m last k with
        | Done last' f => ([], last', f, false, 0%nat)
        | Split l s r => ([(l, s)], r, true, true, 0%nat)
        end
    | (c, s) :: cs' =>
        if s <? k then
          let '(cs'', last', f, g, p) := go cs' in ((c, s) :: cs'', last', f, g, S p)
        else if s =? k then (cs, last, false, false, 0%nat)
        else
          match ins m c k with
          | Done c' f => ((c', s) :: cs', last, f, false, 0%nat)
          | Split l s' r => ((l, s') :: (r, s) :: cs', last, true, true, 0%nat)
          end
    end.

Lemma ins_Inner m cs last k :
  ins m (Inner cs last) k =
  let '(cs', last', fresh, grew, pos) := ins_cs m k last cs in
  if grew then mk_inner m cs' last' pos else Done (Inner cs' last') fresh.
Proof. reflexivity. Qed.

Lemma mk_inner_elems m cs last pos : ins_elems (mk_inner m cs last pos) = elems_cs cs last.
Proof.
  unfold mk_inner. destruct (Nat.leb _ m); [reflexivity |].
  destruct (skipn _ _) as [| [cm sep] rr] eqn:Sk; [reflexivity |].
  cbn [ins_elems]. rewrite !elements_Inner.
  pose proof (firstn_skipn_cons _ _ _ _ Sk) as Ecs.
  set (pre := firstn (cut_point m pos) cs) in *. rewrite Ecs.
  rewrite elems_cs_app, elems_cs_cons. unfold elems_cs at 1. rewrite <- !app_assoc. reflexivity.
Qed.

Lemma mk_inner_fresh m cs last pos : ins_fresh (mk_inner m cs last pos) = true.
Proof.
  unfold mk_inner. destruct (Nat.leb _ m); [reflexivity |].
  destruct (skipn _ _) as [| [cm sep] rr]; reflexivity.
Qed.

Definition ins_ok (m : nat) (t : tree) : Prop :=
  forall k, StronglySorted Z.lt (elements t) ->
    ins_elems (ins m t k) = sinsert k (elements t) /\
    (ins_fresh (ins m t k) = true <-> ~ In k (elements t)).

Lemma ins_cs_spec m k last cs :
  Forall (fun p => ins_ok m (fst p)) cs -> ins_ok m last ->
  StronglySorted Z.lt (elems_cs cs last) ->
  forall cs' last' f g p, ins_cs m k last cs = (cs', last', f, g, p) ->
    elems_cs cs' last' = sinsert k (elems_cs cs last) /\
    (f = true <-> ~ In k (elems_cs cs last)) /\ (g = true -> f = true).
Proof.
  intros IHcs IHlast. induction cs as [| [c s] cs IH]; intros S cs' last' f g p E.
  - cbn [ins_cs] in E. rewrite elems_cs_nil in *. destruct (IHlast k S) as [E1 E2].
    destruct (ins m last k) as [t' f' | l s r]; inversion E; subst; clear E.
    + cbn in E1, E2. rewrite elems_cs_nil. repeat split; try tauto; discriminate.
    + cbn in E1, E2. Show. rewrite elems_cs_cons, elems_cs_nil. tauto.
  - inversion IHcs as [| ? ? Hc Hcs]; subst. cbn [fst] in Hc.
    rewrite elems_cs_cons in *. cbn [ins_cs] in E.
    destruct (sorted_mid _ _ _ S) as (SA & SB & CA & CB).
    destruct (s <? k) eqn:L; [| destruct (s =? k) eqn:L'].
    + destruct (ins_cs m k last cs) as [[[[cs1 last1] f1] g1] p1] eqn:E1.
      inversion E; subst; clear E.
      destruct (IH Hcs SB _ _ _ _ _ eq_refl) as (I1 & I2 & I3).
      rewrite elems_cs_cons, I1.
      replace (elements c ++ s :: elems_cs cs last) with ((elements c ++ [s]) ++ elems_cs cs last)
        by (rewrite <- app_assoc; reflexivity).
      assert (Lt : forall x, In x (elements c ++ [s]) -> x < k).
      { intros x Hx. apply in_app_or in Hx. destruct Hx as [Hx | [<- | []]]; [specialize (CA x Hx) |]; lia. }
      rewrite sinsert_above by exact Lt. rewrite <- app_assoc. repeat split; try tauto.
      * intros Hf Hin. apply in_app_or in Hin. destruct Hin as [Hin | Hin]; [specialize (Lt _ Hin); lia | tauto].
      * intros Hn. apply I2. intros Hin. apply Hn, in_or_app. right. exact Hin.
    + inversion E; subst; clear E. assert (s = k) by lia. subst s.
      rewrite elems_cs_cons. rewrite sinsert_above by (intros x Hx; apply CA, Hx).
      rewrite sinsert_here. repeat split; try discriminate.
      intros H. exfalso. apply H, in_or_app. right. left. reflexivity.
    + assert (Lk : k < s) by lia.
      destruct (Hc k SA) as [E1 E2].
      assert (InA : In k (elements c ++ s :: elems_cs cs last) <-> In k (elements c)).
      { split; [| intros; apply in_or_app; left; assumption].
        intros Hin. apply in_app_or in Hin. destruct Hin as [Hin | [-> | Hin]]; [exact Hin | lia | specialize (CB _ Hin); lia]. }
      rewrite (sinsert_below k _ s _ Lk CA), InA, <- E1.
      destruct (ins m c k) as [c' f' | l s' r]; inversion E; subst; clear E; cbn in E2 |- *.
      * rewrite elems_cs_cons. repeat split; try tauto; discriminate.
      * rewrite !elems_cs_cons, <- app_assoc. cbn. tauto.
Qed.

Lemma ins_spec m t : ins_ok m t.
Proof.
  induction t as [ks | cs last IHcs IHlast] using tree_ind'; intros k S.
  - apply ins_leaf_spec, S.
  - rewrite ins_Inner. rewrite elements_Inner in *.
    destruct (ins_cs m k last cs) as [[[[cs1 last1] f1] g1] p1] eqn:E.
    destruct (ins_cs_spec m k last cs IHcs IHlast S _ _ _ _ _ E) as (I1 & I2 & I3).
    destruct g1.
    + rewrite mk_inner_elems, mk_inner_fresh. split; [exact I1 |]. rewrite <- I2. split; auto.
    + cbn. rewrite elements_Inner. tauto.
Qed.
