(** Executable model of Souffle's optimistic read/write lock
    (src/include/souffle/utility/ParallelUtil.h, class OptimisticReadWriteLock, the
    IS_PARALLEL version): one shared [std::atomic<int> version] and the methods start_read,
    validate, end_read, start_write, try_start_write, try_upgrade_to_write, abort_write,
    end_write.  The granularity of the model is one *atomic operation* of the C++ code per step
    (each [load], [fetch_or], [fetch_add], [fetch_sub]); the local computation between two atomic
    operations of one thread touches only thread-local data ([v], the lease) and is folded into
    the step of the preceding atomic operation.
    Definitions only: the proofs are in LockLemmas.v. *)
From Coq Require Export List ZArith Bool.
Export ListNotations.
Local Open Scope Z_scope.

(** ** The shared word: a 32-bit two's complement [int] *)

(** [std::atomic<int>] arithmetic wraps modulo 2^32 into [-2^31, 2^31). *)
Definition wrap32 (z : Z) : Z := (z + 2 ^ 31) mod 2 ^ 32 - 2 ^ 31.
Definition in_range32 (v : Z) : Prop := - 2 ^ 31 <= v < 2 ^ 31.

(** [(v & 0x1) == 1], the test used by start_read, start_write, try_start_write,
    try_upgrade_to_write. *)
Definition low_bit (v : Z) : bool := Z.land v 1 =? 1.

(** The four atomic operations the class performs on [version]. Each returns the old value. *)
Inductive atomic := ALoad | AFetchOr | AFetchAdd | AFetchSub.

(** New content of [version] after the operation: [load], [fetch_or(0x1)], [fetch_add(1)],
    [fetch_sub(1)]. *)
Definition apply_atomic (a : atomic) (v : Z) : Z :=
  match a with
  | ALoad => v
  | AFetchOr => Z.lor v 1
  | AFetchAdd => wrap32 (v + 1)
  | AFetchSub => wrap32 (v - 1)
  end.

(** ** Clients *)

(** A client runs a script: a list of blocks, each a fixed call sequence on the lock.
    - [BRead]    : start_read ; validate ; end_read
    - [BWrite e] : start_write ; (end_write if [e], abort_write otherwise)
    - [BTry e]   : try_start_write ; if it returned true: (end_write if [e] else abort_write)
    - [BUpg e]   : start_read ; try_upgrade_to_write ; if true: (end_write if [e] else abort_write) *)
Inductive block := BRead | BWrite (e : bool) | BTry (e : bool) | BUpg (e : bool).
Definition script := list block.

Inductive method :=
  MStartRead | MValidate | MEndRead | MStartWrite | MTryStartWrite | MTryUpgrade | MAbortWrite | MEndWrite.
Inductive response := RLease (v : Z) | RBool (b : bool) | RUnit.
(** What a completed method call returned. *)
Definition reply := (method * response)%type.
(** ... and who called it. *)
Definition event := (nat * method * response)%type.

(** [c_script]: blocks still to run (head = current block); [c_pc]: program point inside the
    current block = number of the next atomic operation of that block (see [next_atomic]);
    [c_lease]: the client's [Lease] variable ([Lease(int version = 0)]). *)
Record client := mkClient { c_script : script; c_pc : nat; c_lease : Z }.

Definition release_atomic (e : bool) : atomic := if e then AFetchAdd else AFetchSub.
Definition release_method (e : bool) : method := if e then MEndWrite else MAbortWrite.

(** The atomic operation executed at program point [pc] of block [b].
    BRead:  0 = the load of start_read (re-executed while spinning), 1 = validate's load,
            2 = end_read's load (end_read calls validate).
    BWrite: 0 = start_write's fetch_or (re-executed while spinning), 1 = fetch_add of end_write
            or fetch_sub of abort_write.
    BTry:   0 = try_start_write's fetch_or, 1 = as BWrite 1.
    BUpg:   0 = start_read's load, 1 = try_upgrade_to_write's fetch_or, 2 = end_write/abort_write
            after a successful upgrade, 3 = the fetch_sub of the abort_write() that
            try_upgrade_to_write calls itself when the lease is stale. *)
Definition next_atomic (b : block) (pc : nat) : atomic :=
  match b, pc with
  | BRead, _ => ALoad
  | BWrite _, O => AFetchOr
  | BWrite e, _ => release_atomic e
  | BTry _, O => AFetchOr
  | BTry e, _ => release_atomic e
  | BUpg _, O => ALoad
  | BUpg _, S O => AFetchOr
  | BUpg e, S (S O) => release_atomic e
  | BUpg _, _ => AFetchSub
  end.

(** start_read: [v = version.load(); while ((v & 1) == 1) { wait(); v = version.load(); } return Lease(v)].
    One load per step; the client stays at the same program point while the loaded value is odd. *)
Definition adv_start_read (b : block) (rest : script) (lease old : Z) : client * list reply :=
  if low_bit old then (mkClient (b :: rest) 0 lease, [])
  else (mkClient (b :: rest) 1 old, [(MStartRead, RLease old)]).

(** end_write / abort_write: one fetch_add / fetch_sub, the block is finished. *)
Definition adv_release (e : bool) (rest : script) (lease : Z) : client * list reply :=
  (mkClient rest 0 lease, [(release_method e, RUnit)]).

(** Thread-local continuation after the atomic operation at [pc] of block [b] returned [old]:
    the new client state and the method calls that completed. *)
Definition advance (b : block) (rest : script) (pc : nat) (lease old : Z) : client * list reply :=
  match b, pc with
  | BRead, O => adv_start_read b rest lease old
  (* validate: [return lease.version == version.load()] *)
  | BRead, S O => (mkClient (b :: rest) 2 lease, [(MValidate, RBool (lease =? old))])
  (* end_read: [return validate(lease)] *)
  | BRead, _ => (mkClient rest 0 lease, [(MEndRead, RBool (lease =? old))])
  (* start_write: [v = fetch_or(1); while ((v & 1) == 1) { wait(); v = fetch_or(1); }] *)
  | BWrite _, O =>
      if low_bit old then (mkClient (b :: rest) 0 lease, [])
      else (mkClient (b :: rest) 1 lease, [(MStartWrite, RUnit)])
  | BWrite e, _ => adv_release e rest lease
  (* try_start_write: [v = fetch_or(1); return !(v & 1)] *)
  | BTry _, O =>
      if low_bit old then (mkClient rest 0 lease, [(MTryStartWrite, RBool false)])
      else (mkClient (b :: rest) 1 lease, [(MTryStartWrite, RBool true)])
  | BTry e, _ => adv_release e rest lease
  | BUpg _, O => adv_start_read b rest lease old
  (* try_upgrade_to_write: [v = fetch_or(1); if (v & 1) return false;
     if (lease.version == v) return true; abort_write(); return false] *)
  | BUpg _, S O =>
      if low_bit old then (mkClient rest 0 lease, [(MTryUpgrade, RBool false)])
      else if lease =? old then (mkClient (b :: rest) 2 lease, [(MTryUpgrade, RBool true)])
      else (mkClient (b :: rest) 3 lease, [])
  | BUpg e, S (S O) => adv_release e rest lease
  (* the internal abort_write() has run; try_upgrade_to_write returns false *)
  | BUpg _, _ => (mkClient rest 0 lease, [(MTryUpgrade, RBool false)])
  end.

(** Phase of a client, read off its program point: [Reading] between the successful load of
    start_read and the last use of that lease in the block; [Writing] between the atomic step
    that acquired write permission (a fetch_or that returned an even value) and the
    fetch_add/fetch_sub that gives it up. *)
Inductive phase := Idle | Reading | Writing.

Definition phase_at (b : block) (pc : nat) : phase :=
  match b, pc with
  | BRead, O => Idle
  | BRead, _ => Reading
  | BWrite _, O => Idle
  | BWrite _, _ => Writing
  | BTry _, O => Idle
  | BTry _, _ => Writing
  | BUpg _, O => Idle
  | BUpg _, S O => Reading
  | BUpg _, _ => Writing
  end.

Definition c_phase (c : client) : phase :=
  match c_script c with
  | [] => Idle
  | b :: _ => phase_at b (c_pc c)
  end.

Definition is_writing (c : client) : bool :=
  match c_phase c with Writing => true | _ => false end.

(** ** Global state and steps *)

Record state := mkState { s_version : Z; s_clients : list client }.

Fixpoint set_nth {A} (n : nat) (x : A) (l : list A) : list A :=
  match l, n with
  | [], _ => []
  | _ :: r, O => x :: r
  | y :: r, S k => y :: set_nth k x r
  end.

Definition client_at (st : state) (t : nat) : option client := nth_error (s_clients st) t.

Definition phase_of (st : state) (t : nat) : phase :=
  match client_at st t with Some c => c_phase c | None => Idle end.

Definition lease_of (st : state) (t : nat) : Z :=
  match client_at st t with Some c => c_lease c | None => 0 end.

(** Number of clients in a write phase. *)
Fixpoint count_writing (l : list client) : nat :=
  match l with
  | [] => O
  | c :: r => ((if is_writing c then 1 else 0) + count_writing r)%nat
  end.
Definition writers (st : state) : nat := count_writing (s_clients st).

(** The atomic operation client [t] executes next ([None]: no such client or script finished). *)
Definition step_atomic (st : state) (t : nat) : option atomic :=
  match client_at st t with
  | None => None
  | Some c => match c_script c with
              | [] => None
              | b :: _ => Some (next_atomic b (c_pc c))
              end
  end.

(** Client [t] performs its next atomic operation on [version]. *)
Definition step (st : state) (t : nat) : option (state * list reply) :=
  match client_at st t with
  | None => None
  | Some c =>
      match c_script c with
      | [] => None
      | b :: rest =>
          let old := s_version st in
          let (c', rs) := advance b rest (c_pc c) (c_lease c) old in
          Some (mkState (apply_atomic (next_atomic b (c_pc c)) old) (set_nth t c' (s_clients st)), rs)
      end
  end.

Definition tag (t : nat) (rs : list reply) : list event := map (fun mr => (t, fst mr, snd mr)) rs.

(** Run a schedule from a state: entries naming a finished (or non-existent) client are skipped. *)
Fixpoint exec (st : state) (sched : list nat) : state * list event :=
  match sched with
  | [] => (st, [])
  | t :: r =>
      match step st t with
      | None => exec st r
      | Some (st', rs) => let (stf, evs) := exec st' r in (stf, tag t rs ++ evs)
      end
  end.

Definition init (v0 : Z) (scripts : list script) : state :=
  mkState v0 (map (fun s => mkClient s 0 0) scripts).

Definition run_from (v0 : Z) (scripts : list script) (sched : list nat) : state * list event :=
  exec (init v0 scripts) sched.

(** [std::atomic<int> version{0}] *)
Definition run (scripts : list script) (sched : list nat) : state * list event :=
  run_from 0 scripts sched.

(** States reachable from a fresh lock whose version is [v0] (the lock starts at 0; the theorems
    hold from every even representable [v0], i.e. from every quiescent lock). *)
Definition reachable_from (v0 : Z) (st : state) : Prop :=
  exists scripts sched, st = fst (run_from v0 scripts sched).
Definition reachable (st : state) : Prop := exists scripts sched, st = fst (run scripts sched).

(** Number of completed end_write calls in a trace. *)
Definition is_end_write (ev : event) : bool :=
  match ev with (_, MEndWrite, _) => true | _ => false end.
Fixpoint count_end_write (evs : list event) : Z :=
  match evs with
  | [] => 0
  | ev :: r => (if is_end_write ev then 1 else 0) + count_end_write r
  end.

(** Client [t] obtained a new lease in this trace. *)
Definition is_start_read_of (t : nat) (ev : event) : bool :=
  match ev with (t', MStartRead, RLease _) => Nat.eqb t t' | _ => false end.

(** Progress measure of a client (at most 5 per remaining block): every step that is not a
    spin strictly decreases it (LockLemmas.no_spin_without_writer). *)
Definition client_measure (c : client) : nat :=
  5 * length (c_script c) - Nat.min (c_pc c) 4.

(** Low-level trace of a run: which client executed which atomic operation on [version] and
    what the operation returned. *)
Definition op_event := (nat * atomic * Z)%type.

Fixpoint exec_ops (st : state) (sched : list nat) : list op_event :=
  match sched with
  | [] => []
  | t :: r =>
      match step st t, step_atomic st t with
      | Some (st', _), Some a => (t, a, s_version st) :: exec_ops st' r
      | _, _ => exec_ops st r
      end
  end.

(** "Client [t] holds the write permission after this trace", read off the atomic operations
    alone: [t] gains it with a fetch_or that returned an even value and gives it up with its next
    fetch_add / fetch_sub. ([phase_of .. = Writing] is proved equivalent in LockLemmas.) *)
Definition holds_after (t : nat) (h : bool) (o : op_event) : bool :=
  let '(t', a, old) := o in
  if Nat.eqb t t' then
    match a with
    | ALoad => h
    | AFetchOr => if Z.odd old then h else true
    | AFetchAdd | AFetchSub => false
    end
  else h.
Definition holds_write (t : nat) (ops : list op_event) : bool := fold_left (holds_after t) ops false.

(** ** Monitor *)

(** The monitor observes a run from outside (it never feeds back into [step]). It counts the
    completed write phases ([m_done]: end_write calls so far) and remembers for each client the
    value of that counter when the client obtained its current lease ([m_snap]). *)
Record mon := mkMon { m_done : Z; m_snap : list Z }.

Definition mon_init (n : nat) : mon := mkMon 0 (repeat (-1) n).

(** At most one writer, and version odd <-> there is a writer. *)
Definition state_ok (st : state) : bool :=
  (writers st <=? 1)%nat && Bool.eqb (Z.odd (s_version st)) (writers st =? 1)%nat.

(** A successful validate / end_read / try_upgrade_to_write of client [t], issued in state [st]:
    no write phase completed since the lease was taken and no write phase is active. *)
Definition reply_ok (st : state) (m : mon) (t : nat) (mr : reply) : bool :=
  match mr with
  | (MValidate, RBool true) | (MEndRead, RBool true) | (MTryUpgrade, RBool true) =>
      (nth t (m_snap m) (-1) =? m_done m) && (writers st =? 0)%nat
  | _ => true
  end.

Definition mon_update (t : nat) (m : mon) (mr : reply) : mon :=
  match mr with
  | (MStartRead, _) => mkMon (m_done m) (set_nth t (m_done m) (m_snap m))
  | (MEndWrite, _) => mkMon (m_done m + 1) (m_snap m)
  | _ => m
  end.

(** Monitor transition for the step [st --t--> st'] that completed the calls [rs]:
    new monitor state and verdict for this step. *)
Definition mon_step (st : state) (m : mon) (t : nat) (st' : state) (rs : list reply) : mon * bool :=
  (fold_left (mon_update t) rs m, forallb (reply_ok st m t) rs && state_ok st').

Fixpoint mon_exec (st : state) (m : mon) (sched : list nat) : bool :=
  match sched with
  | [] => true
  | t :: r =>
      match step st t with
      | None => mon_exec st m r
      | Some (st', rs) => let (m', ok) := mon_step st m t st' rs in ok && mon_exec st' m' r
      end
  end.

(** Verdict of the monitor along the whole run of [sched]. *)
Definition mon_ok (v0 : Z) (scripts : list script) (sched : list nat) : bool :=
  state_ok (init v0 scripts) && mon_exec (init v0 scripts) (mon_init (length scripts)) sched.

(** ** Exhaustive exploration of all schedules *)

Fixpoint list_eqb {A} (eqb : A -> A -> bool) (a b : list A) : bool :=
  match a, b with
  | [], [] => true
  | x :: a', y :: b' => eqb x y && list_eqb eqb a' b'
  | _, _ => false
  end.

Definition block_eqb (a b : block) : bool :=
  match a, b with
  | BRead, BRead => true
  | BWrite e, BWrite f | BTry e, BTry f | BUpg e, BUpg f => Bool.eqb e f
  | _, _ => false
  end.

Definition client_eqb (a b : client) : bool :=
  Nat.eqb (c_pc a) (c_pc b) && (c_lease a =? c_lease b) && list_eqb block_eqb (c_script a) (c_script b).

Definition state_eqb (a b : state) : bool :=
  (s_version a =? s_version b) && list_eqb client_eqb (s_clients a) (s_clients b).

Definition mon_eqb (a b : mon) : bool :=
  (m_done a =? m_done b) && list_eqb Z.eqb (m_snap a) (m_snap b).

(** Explored nodes: model state together with monitor state. *)
Definition xstate := (state * mon)%type.
Definition xstate_eqb (a b : xstate) : bool := state_eqb (fst a) (fst b) && mon_eqb (snd a) (snd b).
Definition xmem (x : xstate) (V : list xstate) : bool := existsb (xstate_eqb x) V.

(** All successors of a node (one per client that can still move) with the monitor's verdict
    for that transition. *)
Definition xsuccs (x : xstate) : list (xstate * bool) :=
  flat_map (fun t =>
      match step (fst x) t with
      | None => []
      | Some (st', rs) => let (m', ok) := mon_step (fst x) (snd x) t st' rs in [((st', m'), ok)]
      end)
    (seq 0 (length (s_clients (fst x)))).

(** Depth-first search with a visited list; [None] when the fuel runs out. *)
Fixpoint explore_loop (fuel : nat) (todo V : list xstate) : option (list xstate) :=
  match fuel with
  | O => None
  | S f =>
      match todo with
      | [] => Some V
      | x :: todo' =>
          if xmem x V then explore_loop f todo' V
          else explore_loop f (map fst (xsuccs x) ++ todo') (x :: V)
      end
  end.

(** [V] is closed under all transitions and the monitor accepts every transition leaving [V]'s
    nodes. This is what is proved sound (LockLemmas.closed_check_sound); [explore_loop] only has
    to come up with a suitable [V]. *)
Definition closed_check (V : list xstate) : bool :=
  forallb (fun x => forallb (fun sb => snd sb && xmem (fst sb) V) (xsuccs x)) V.

Definition explore_ok (fuel : nat) (v0 : Z) (scripts : list script) : bool :=
  let x0 := (init v0 scripts, mon_init (length scripts)) in
  state_ok (fst x0) &&
  match explore_loop fuel [x0] [] with
  | None => false
  | Some V => xmem x0 V && closed_check V
  end.

Definition all_blocks : list block :=
  [BRead; BWrite true; BWrite false; BTry true; BTry false; BUpg true; BUpg false].

(** Every assignment of one block to each of three clients, and of two blocks to each of two. *)
Definition configs3 : list (list script) :=
  flat_map (fun a => flat_map (fun b => map (fun c => [[a]; [b]; [c]]) all_blocks) all_blocks) all_blocks.
Definition scripts2 : list script :=
  flat_map (fun a => map (fun b => [a; b]) all_blocks) all_blocks.
Definition configs2x2 : list (list script) :=
  flat_map (fun a => map (fun b => [a; b]) scripts2) scripts2.

Definition explore_fuel : nat := 4000.
