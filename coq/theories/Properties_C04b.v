(** C04 (rewrites) -- turning an optional program-level optimisation pass on or off does not
    change the contents of the output relations: each *rewrite the pass announces* preserves the
    stratified least model of DatalogSem.v. Only statements here; the proofs, the definitions of
    the rewrites and one [Example] per theorem are in TransformLemmas.v. The C++ passes
    (src/ast/transform/MinimiseProgram.cpp, RemoveRelationCopies.cpp, RemoveEmptyRelations.cpp,
    RemoveRedundantRelations.cpp, InlineRelations.cpp, SimplifyConstantBinaryConstraints.cpp,
    RemoveBooleanConstraints.cpp) are NOT modelled; that they perform these rewrites is tied per
    program by the correspondence run `./check C04`.

    Reading guide. [least_model lower cs] = model of one stratum [cs] over the database [lower]
    below it (negation and aggregation read [lower]); [strat_model L ss] = model of the strata
    [ss] over the input [L]; [ieq I J] = the interpretations hold the same tuples;
    [fires P N c t] = [t] is the head of an instance of clause [c] (positive atoms read in [P],
    negated atoms and aggregate bodies in [N]).
    [same_instances N cs1 cs2] = for every interpretation, relation and tuple, some clause of
    [cs1] with that head relation fires on the tuple iff some clause of [cs2] does.
    [rename_vars f c] = [c] with every variable [x] replaced by [f x];
    [bij_equiv f c1 c2] = [c2] is [rename_vars f c1] up to the order of the body literals.
    [uses_pos e c] = the body of [c] has a positive atom over [e] (outside aggregates);
    [drop_neg e c] = [c] without its negated atoms over [e]; [remove_empty e cs] = drop the
    clauses that use [e] positively, then [drop_neg e] on the others.
    [agg_scope_kept c c'] = every variable of an aggregate of [c] that is in the outer scope of
    [c] is still in the outer scope of [c'] (trivial without aggregates, and when the variables
    of the dropped literals also occur in the head or in a kept literal).
    [needed cs outs r] = some relation of [outs] reaches [r] in the dependency graph of [cs]
    ([reaches], StratLemmas.v). [copy_clause a b xs] = [a(xs) :- b(xs)];
    [remove_copy a b cs] = drop the clauses of [a], replace positive atoms over [a] (outside
    aggregates) by atoms over [b]; [arity_ok a n c] = positive atoms over [a] in [c] have [n]
    arguments. [drop_true_consts c] = [c] without its constraints between two constants that
    evaluate to true; [has_false_const c] = [c] has a constraint between two constants that
    does not evaluate to true. [inline_at f cq c l1 args l2] = the clause [c], whose body is
    [l1 ++ q(args) :: l2], with [q(args)] replaced by the body of [cq] renamed by [f] and the
    constraints [args_i = f(head_i of cq)]; [fresh_for f c] = no [f x] is a variable of [c]. *)
From SV Require Import DatalogDefs DatalogSem DatalogLemmas StratLemmas TransformLemmas.
Require Import Permutation.

(** * 1. MinimiseProgram *)

(** Clause lists with the same rule instances have the same least model ... *)
Theorem C04_clauses_equiv : forall lower cs1 cs2,
  (forall (P : interp) r t,
     (exists c, In c cs1 /\ c_rel c = r /\ fires P lower c t) <->
     (exists c, In c cs2 /\ c_rel c = r /\ fires P lower c t)) ->
  forall r t, least_model lower cs1 r t <-> least_model lower cs2 r t.
Proof. exact clauses_equiv. Qed.
Print Assumptions C04_clauses_equiv.

(** ... and, stratum by stratum, the same stratified model. *)
Theorem C04_clauses_equiv_strat : forall ss ss' L,
  Forall2 (fun cs cs' => forall N, same_instances N cs cs') ss ss' ->
  forall r t, strat_model L ss r t <-> strat_model L ss' r t.
Proof. exact clauses_equiv_strat. Qed.
Print Assumptions C04_clauses_equiv_strat.

(** Adding a clause that is already present changes nothing ... *)
Theorem C04_dup_clause_idem : forall lower c cs,
  In c cs -> forall r t, least_model lower (c :: cs) r t <-> least_model lower cs r t.
Proof. exact dup_clause_idem. Qed.
Print Assumptions C04_dup_clause_idem.

(** ... nor does removing one of two identical clauses. *)
Theorem C04_dup_clause_remove : forall lower c cs1 cs2 cs3 r t,
  least_model lower (cs1 ++ c :: cs2 ++ c :: cs3) r t <-> least_model lower (cs1 ++ c :: cs2 ++ cs3) r t.
Proof. exact dup_clause_remove. Qed.
Print Assumptions C04_dup_clause_remove.

(** The rule instances of a clause do not depend on the order of its body literals. *)
Theorem C04_fires_body_perm : forall (P N : interp) c1 c2 t,
  c_args c1 = c_args c2 -> Permutation (c_body c1) (c_body c2) ->
  (fires P N c1 t <-> fires P N c2 t).
Proof. exact fires_body_perm. Qed.
Print Assumptions C04_fires_body_perm.

(** ... nor on the names of its variables: [f] is a renaming with left inverse [g]. *)
Theorem C04_fires_rename_vars : forall (f g : nat -> nat), (forall x, g (f x) = x) ->
  forall (P N : interp) c t, fires P N c t <-> fires P N (rename_vars f c) t.
Proof. exact fires_rename_vars. Qed.
Print Assumptions C04_fires_rename_vars.

(** A clause that equals a clause of the program up to variable renaming and literal order
    (MinimiseProgram::areBijectivelyEquivalent) can be removed
    (MinimiseProgram::reduceLocallyEquivalentClauses). *)
Theorem C04_minimise_clause_remove : forall (f g : nat -> nat), (forall x, g (f x) = x) ->
  forall lower c1 c2 cs,
  In c1 cs ->
  c_rel c2 = c_rel c1 /\ c_args c2 = map (ren_term f) (c_args c1) /\
    Permutation (c_body c2) (map (ren_lit f) (c_body c1)) ->
  forall r t, least_model lower (c2 :: cs) r t <-> least_model lower cs r t.
Proof. exact minimise_clause_remove. Qed.
Print Assumptions C04_minimise_clause_remove.

(** A clause whose own head atom occurs in its body can be removed
    (MinimiseProgram::removeRedundantClauses). *)
Theorem C04_tautology_clause_elim : forall lower c cs1 cs2,
  forallb anon_free (c_args c) = true -> In (LS (SPos (c_rel c) (c_args c))) (c_body c) ->
  forall r t, least_model lower (cs1 ++ c :: cs2) r t <-> least_model lower (cs1 ++ cs2) r t.
Proof. exact tautology_clause_elim. Qed.
Print Assumptions C04_tautology_clause_elim.

(** * 2. RemoveEmptyRelations: [e] has no tuples below the stratum and no clause in it *)

(** (a) A clause with a positive atom over a relation that is empty never fires ... *)
Theorem C04_dead_clause_never_fires : forall (P N : interp) e c t,
  (forall t', ~ P e t') -> uses_pos e c -> ~ fires P N c t.
Proof. exact dead_clause_never_fires. Qed.
Print Assumptions C04_dead_clause_never_fires.

(** ... so such clauses can be removed ([cs'] = [cs] minus some clauses that use [e]). *)
Theorem C04_dead_clause_elim : forall lower cs cs' e,
  (forall t, ~ lower e t) -> (forall c, In c cs -> c_rel c <> e) ->
  incl cs' cs -> (forall c, In c cs -> In c cs' \/ uses_pos e c) ->
  forall r t, least_model lower cs r t <-> least_model lower cs' r t.
Proof. exact dead_clause_elim. Qed.
Print Assumptions C04_dead_clause_elim.

(** (b) A negated atom over a relation that is empty in the database read by negation can be
    dropped. No evaluability condition on its arguments is needed in the declarative semantics;
    the side condition is about the scope of aggregates ([agg_scope_kept], see above). *)
Theorem C04_fires_drop_neg : forall (P N : interp) e c t,
  (forall t', ~ N e t') -> agg_scope_kept c (drop_neg e c) ->
  (fires P N c t <-> fires P N (drop_neg e c) t).
Proof. exact fires_drop_neg. Qed.
Print Assumptions C04_fires_drop_neg.

(** Both rewrites together, for one stratum ... *)
Theorem C04_empty_relation_elim : forall lower cs e,
  (forall t, ~ lower e t) -> (forall c, In c cs -> c_rel c <> e) ->
  (forall c, In c cs -> agg_scope_kept c (drop_neg e c)) ->
  forall r t, least_model lower cs r t <-> least_model lower (remove_empty e cs) r t.
Proof. exact empty_relation_elim. Qed.
Print Assumptions C04_empty_relation_elim.

(** ... and for a whole program in which [e] has no input tuples and no clause. *)
Theorem C04_empty_relation_elim_strat : forall L ss e,
  (forall t, ~ L e t) -> (forall c, In c (concat ss) -> c_rel c <> e) ->
  (forall c, In c (concat ss) -> agg_scope_kept c (drop_neg e c)) ->
  forall r t, strat_model L ss r t <-> strat_model L (map (remove_empty e) ss) r t.
Proof. exact empty_relation_elim_strat. Qed.
Print Assumptions C04_empty_relation_elim_strat.

(** * 3. RemoveRedundantRelations: only the clauses of relations that an output needs are kept *)
Theorem C04_redundant_relation_elim : forall lower cs cs' outs,
  (forall c, In c cs' <-> In c cs /\ needed cs outs (c_rel c)) ->
  forall r t, needed cs outs r -> (least_model lower cs r t <-> least_model lower cs' r t).
Proof. exact redundant_relation_elim. Qed.
Print Assumptions C04_redundant_relation_elim.

(** whole program: every needed relation, in particular every output, keeps its tuples *)
Theorem C04_redundant_relation_elim_strat : forall L ss ss' outs,
  Forall2 (fun cs cs' => forall c, In c cs' <-> In c cs /\ needed (concat ss) outs (c_rel c)) ss ss' ->
  forall r t, needed (concat ss) outs r -> (strat_model L ss r t <-> strat_model L ss' r t).
Proof. exact redundant_relation_elim_strat. Qed.
Print Assumptions C04_redundant_relation_elim_strat.

Theorem C04_redundant_relation_elim_outputs : forall L ss ss' outs,
  Forall2 (fun cs cs' => forall c, In c cs' <-> In c cs /\ needed (concat ss) outs (c_rel c)) ss ss' ->
  forall o t, In o outs -> (strat_model L ss o t <-> strat_model L ss' o t).
Proof. exact redundant_relation_elim_outputs. Qed.
Print Assumptions C04_redundant_relation_elim_outputs.

(** * 4. RemoveRelationCopies: [a(xs) :- b(xs)] is the only clause of [a], [a] has no input *)

(** the copy holds the tuples of [b] (of the right length) ... *)
Theorem C04_copy_same_tuples : forall lower cs a b xs,
  NoDup xs -> (forall t, ~ lower a t) -> In (copy_clause a b xs) cs ->
  (forall c, In c cs -> c_rel c = a -> c = copy_clause a b xs) ->
  forall t, least_model lower cs a t <-> (least_model lower cs b t /\ length t = length xs).
Proof. exact copy_same_tuples. Qed.
Print Assumptions C04_copy_same_tuples.

(** ... and replacing [a] by [b] preserves every other relation of the stratum. *)
Theorem C04_copy_relation_elim : forall lower cs a b xs,
  NoDup xs -> (forall t, ~ lower a t) -> In (copy_clause a b xs) cs ->
  (forall c, In c cs -> c_rel c = a -> c = copy_clause a b xs) ->
  (forall c, In c cs -> arity_ok a (length xs) c) ->
  forall r t, r <> a -> (least_model lower cs r t <-> least_model lower (remove_copy a b cs) r t).
Proof. exact copy_relation_elim. Qed.
Print Assumptions C04_copy_relation_elim.

(** * 5. SimplifyConstantBinaryConstraints / RemoveBooleanConstraints *)

(** a constraint between constants that evaluates to true can be removed from a body ... *)
Theorem C04_fires_drop_const : forall (P N : interp) r args l1 l2 cm v1 v2 t,
  eval_cmp cm v1 v2 = Ok true ->
  (fires P N {| c_rel := r; c_args := args; c_body := l1 ++ LS (SCmp cm (TConst v1) (TConst v2)) :: l2 |} t <->
   fires P N (drop_true_consts {| c_rel := r; c_args := args; c_body := l1 ++ l2 |}) t).
Proof. exact fires_drop_const. Qed.
Print Assumptions C04_fires_drop_const.

(** ... one that does not evaluate to true makes the clause dead ... *)
Theorem C04_const_false_never_fires : forall (P N : interp) c cm v1 v2 t,
  In (LS (SCmp cm (TConst v1) (TConst v2))) (c_body c) -> eval_cmp cm v1 v2 <> Ok true ->
  ~ fires P N c t.
Proof. exact const_false_never_fires. Qed.
Print Assumptions C04_const_false_never_fires.

(** ... hence: drop (some of) the dead clauses, simplify the others. *)
Theorem C04_const_constraint_simplify : forall lower cs cs',
  incl cs' cs -> (forall c, In c cs -> In c cs' \/ has_false_const c) ->
  forall r t, least_model lower cs r t <-> least_model lower (map drop_true_consts cs') r t.
Proof. exact const_constraint_simplify. Qed.
Print Assumptions C04_const_constraint_simplify.

Theorem C04_const_constraint_simplify_strat : forall L ss ss',
  Forall2 (fun cs cs' => incl cs' cs /\ forall c, In c cs -> In c cs' \/ has_false_const c) ss ss' ->
  forall r t, strat_model L ss r t <-> strat_model L (map (map drop_true_consts) ss') r t.
Proof. exact const_constraint_simplify_strat. Qed.
Print Assumptions C04_const_constraint_simplify_strat.

(** * 6. InlineRelations (partial: one positive occurrence of a relation defined by one clause;
    head unification by added equality constraints; see TransformLemmas.v) *)
Theorem C04_inline_unfold_partial : forall (f g : nat -> nat), (forall x, g (f x) = x) ->
  forall cq c l1 l2 q args,
  c_body c = l1 ++ LS (SPos q args) :: l2 -> length args = length (c_args cq) -> fresh_for f c ->
  forall (P N : interp) t,
  (forall t', P q t' <-> fires P N cq t') ->
  (fires P N c t <-> fires P N (inline_at f cq c l1 args l2) t).
Proof. exact inline_unfold_partial. Qed.
Print Assumptions C04_inline_unfold_partial.

Theorem C04_inline_model_partial : forall f g lower cq c l1 l2 args cs1 cs2,
  (forall x, g (f x) = x) ->
  c_body c = l1 ++ LS (SPos (c_rel cq) args) :: l2 -> length args = length (c_args cq) -> fresh_for f c ->
  c_rel c <> c_rel cq -> (forall t, ~ lower (c_rel cq) t) ->
  In cq (cs1 ++ cs2) -> (forall c0, In c0 (cs1 ++ cs2) -> c_rel c0 = c_rel cq -> c0 = cq) ->
  forall r t, least_model lower (cs1 ++ c :: cs2) r t <->
              least_model lower (cs1 ++ inline_at f cq c l1 args l2 :: cs2) r t.
Proof. exact inline_model. Qed.
Print Assumptions C04_inline_model_partial.

(** * Lifting: a stratum may be replaced by one with the same model over what is below it *)
Theorem C04_strat_replace_stratum : forall L ss1 cs cs' ss2,
  (forall r t, least_model (strat_model L ss1) cs r t <-> least_model (strat_model L ss1) cs' r t) ->
  forall r t, strat_model L (ss1 ++ cs :: ss2) r t <-> strat_model L (ss1 ++ cs' :: ss2) r t.
Proof. exact strat_replace_stratum. Qed.
Print Assumptions C04_strat_replace_stratum.
