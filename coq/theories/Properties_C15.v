(** C15 -- Printing a parsed program and reparsing it is lossless: the string-constant codec (partial: the
    grammar-level round trip of whole programs is tied by correspondence only). Statements only. *)
From SV Require Import EscapeDefs EscapeLemmas.

Theorem C15_string_constant_roundtrip : forall s, reparse (escape s) = Some s.
Proof. exact reparse_escape. Qed.
Print Assumptions C15_string_constant_roundtrip.

Theorem C15_string_constant_print_injective : forall a b, escape a = escape b -> a = b.
Proof. exact escape_injective. Qed.
Print Assumptions C15_string_constant_print_injective.

Theorem C15_raw_print_before_fix_refuted : exists s, reparse (print_raw s) <> Some s.
Proof. exact print_raw_refuted. Qed.
Print Assumptions C15_raw_print_before_fix_refuted.

Theorem C15_raw_print_before_fix_changes_value_refuted : exists s s', reparse (print_raw s) = Some s' /\ s' <> s.
Proof. exact print_raw_refuted_backslash. Qed.
Print Assumptions C15_raw_print_before_fix_changes_value_refuted.
