(** C13 -- the stratification check [strata_ok] of DatalogDefs.v decides stratifiability.
    The dependency graph of a clause list is defined declaratively (edges, paths, "depends on
    itself through negation or aggregation"); [strata_ok] is proved sound (accepted strata have a
    level function, hence no such cycle), complete (strata that follow a level function are
    accepted) and order-independent on unstratifiable programs (every arrangement is rejected). *)
From SV Require Import DatalogDefs DatalogSem DatalogLemmas.
Require Import Permutation.

(** * The dependency graph of a (flat) list of clauses *)
(** [a] uses [b] positively: a clause with head [a] has a positive atom of [b] outside aggregates *)
Definition pos_edge (cs : list clause) (a b : nat) : Prop :=
  exists c l, In c cs /\ c_rel c = a /\ In l (c_body c) /\ In b (lit_pos l).
(** [a] uses [b] under negation or inside an aggregate body *)
Definition neg_edge (cs : list clause) (a b : nat) : Prop :=
  exists c l, In c cs /\ c_rel c = a /\ In l (c_body c) /\ In b (lit_low l).
Definition dep (cs : list clause) (a b : nat) : Prop := pos_edge cs a b \/ neg_edge cs a b.
Inductive reaches (cs : list clause) : nat -> nat -> Prop :=
| R_refl a : reaches cs a a
| R_step a b c : dep cs a b -> reaches cs b c -> reaches cs a c.
(** [a] depends on itself through negation or aggregation *)
Definition neg_cycle (cs : list clause) (a : nat) : Prop :=
  exists b c, reaches cs a b /\ neg_edge cs b c /\ reaches cs c a.

(** a level function respects the graph: positive edges do not go up, negative edges go down *)
Definition respects (lvl : nat -> nat) (cs : list clause) : Prop :=
  (forall a b, pos_edge cs a b -> lvl b <= lvl a) /\ (forall a b, neg_edge cs a b -> lvl b < lvl a).
(** ... and is consistent with the proposed strata: a relation with a clause in stratum number [i]
    (from 0) has level [i + 1]; level 0 is left for relations without clauses (pure inputs) *)
Definition consistent (lvl : nat -> nat) (ss : list (list clause)) : Prop :=
  forall i cs r, nth_error ss i = Some cs -> In r (defined_in cs) -> lvl r = S i.

(** the level function read off the strata: index of the first stratum defining [r], plus one *)
Fixpoint level_from (i : nat) (ss : list (list clause)) (r : nat) : nat :=
  match ss with
  | [] => 0
  | cs :: ss' => if memb r (defined_in cs) then S i else level_from (S i) ss' r
  end.
Definition level_of (ss : list (list clause)) : nat -> nat := level_from 0 ss.

(** * Levels exclude cycles through negation *)
Lemma reaches_trans cs a b c : reaches cs a b -> reaches cs b c -> reaches cs a c.
Proof. induction 1; intro H2; [exact H2|]. econstructor; eauto. Qed.
Lemma reaches_level lvl cs a b : respects lvl cs -> reaches cs a b -> lvl b <= lvl a.
Proof.
  intros [Hp Hn] H. induction H as [a|a b c Hd _ IH]; [lia|].
  destruct Hd as [Hd|Hd]; [apply Hp in Hd|apply Hn in Hd]; lia.
Qed.
Theorem respects_no_neg_cycle lvl cs : respects lvl cs -> forall a, ~ neg_cycle cs a.
Proof.
  intros Hr a (b & c & H1 & H2 & H3).
  pose proof (reaches_level _ _ _ _ Hr H1). pose proof (reaches_level _ _ _ _ Hr H3).
  destruct Hr as [_ Hn]. apply Hn in H2. lia.
Qed.

(** * [strata_ok] as a proposition *)
Fixpoint SOK (earlier : list nat) (ss : list (list clause)) : Prop :=
  match ss with
  | [] => True
  | cs :: ss' =>
      (forall c l, In c cs -> In l (c_body c) ->
         (forall r, In r (lit_low l) -> ~ In r (defined_in cs) /\ ~ In r (flat_map defined_in ss')) /\
         (forall r, In r (lit_pos l) -> ~ In r (flat_map defined_in ss'))) /\
      (forall r, In r (defined_in cs) -> ~ In r earlier) /\
      SOK (earlier ++ defined_in cs) ss'
  end.

Lemma nmemb_in x l : negb (memb x l) = true <-> ~ In x l.
Proof.
  rewrite negb_true_iff. split.
  - intros H Hin. apply memb_in in Hin. congruence.
  - intro H. destruct (memb x l) eqn:E; [|reflexivity]. apply memb_in in E. tauto.
Qed.

Lemma strata_ok_SOK ss : forall earlier, strata_ok earlier ss = true <-> SOK earlier ss.
Proof.
  induction ss as [|cs ss IH]; intro earlier; simpl; [tauto|]. split.
  - intro H. apply andb_true_iff in H as [H H3]. apply andb_true_iff in H as [H1 H2].
    split; [|split; [|now apply IH]].
    + intros c l Hc Hl. rewrite forallb_forall in H1. specialize (H1 c Hc).
      rewrite forallb_forall in H1. specialize (H1 l Hl). apply andb_true_iff in H1 as [Hlow Hpos].
      rewrite forallb_forall in Hlow, Hpos. split.
      * intros r Hr. specialize (Hlow r Hr). apply andb_true_iff in Hlow as [A B].
        split; now apply nmemb_in.
      * intros r Hr. apply nmemb_in. auto.
    + intros r Hr. rewrite forallb_forall in H2. apply nmemb_in. auto.
  - intros (H1 & H2 & H3). apply andb_true_iff. split; [apply andb_true_iff; split|now apply IH].
    + apply forallb_forall. intros c Hc. apply forallb_forall. intros l Hl.
      destruct (H1 c l Hc Hl) as [Hlow Hpos]. apply andb_true_iff. split.
      * apply forallb_forall. intros r Hr. destruct (Hlow r Hr). apply andb_true_iff. split; now apply nmemb_in.
      * apply forallb_forall. intros r Hr. apply nmemb_in. auto.
    + apply forallb_forall. intros r Hr. apply nmemb_in. auto.
Qed.

(** accepted strata define relations that were not defined earlier *)
Lemma SOK_fresh ss : forall E, SOK E ss -> forall r, In r (flat_map defined_in ss) -> ~ In r E.
Proof.
  induction ss as [|cs ss IH]; intros E H r Hr; simpl in *; [destruct Hr|].
  destruct H as (_ & H2 & H3). apply in_app_or in Hr as [Hr|Hr]; [auto|].
  intro HE. apply (IH _ H3 r Hr). apply in_or_app. auto.
Qed.

(** * The level function of the strata *)
Lemma level_from_undefined ss : forall i r, ~ In r (flat_map defined_in ss) -> level_from i ss r = 0.
Proof.
  induction ss as [|cs ss IH]; intros i r H; simpl in *; [reflexivity|].
  destruct (memb r (defined_in cs)) eqn:E.
  - apply memb_in in E. exfalso. apply H. apply in_or_app. auto.
  - apply IH. intro Hr. apply H. apply in_or_app. auto.
Qed.
Lemma level_from_defined ss : forall i r, In r (flat_map defined_in ss) -> i < level_from i ss r.
Proof.
  induction ss as [|cs ss IH]; intros i r H; simpl in *; [destruct H|].
  destruct (memb r (defined_in cs)) eqn:E; [lia|].
  apply in_app_or in H as [H|H]; [apply memb_in in H; congruence|].
  specialize (IH (S i) r H). lia.
Qed.
Lemma level_from_here cs ss i r : In r (defined_in cs) -> level_from i (cs :: ss) r = S i.
Proof. intro H. simpl. apply memb_in in H. now rewrite H. Qed.
Lemma level_from_later cs ss i r : ~ In r (defined_in cs) -> level_from i (cs :: ss) r = level_from (S i) ss r.
Proof. intro H. simpl. apply nmemb_in in H. apply negb_true_iff in H. now rewrite H. Qed.

Lemma level_from_consistent pre : forall ss E i cs suf r,
  SOK E ss -> ss = pre ++ cs :: suf -> In r (defined_in cs) -> level_from i ss r = S (i + length pre).
Proof.
  induction pre as [|p pre IH]; intros ss E i cs suf r H -> Hr.
  - simpl app. rewrite level_from_here by exact Hr. simpl. lia.
  - simpl app. destruct H as (_ & _ & H3). rewrite level_from_later.
    + rewrite (IH _ _ (S i) cs suf r H3 eq_refl Hr). simpl. lia.
    + intro Hp. apply (SOK_fresh _ _ H3 r); [|apply in_or_app; auto].
      rewrite flat_map_app. apply in_or_app. right. simpl. apply in_or_app. auto.
Qed.

Lemma SOK_respects ss : forall E i, SOK E ss ->
  forall c l, In c (concat ss) -> In l (c_body c) ->
    (forall r, In r (lit_pos l) -> level_from i ss r <= level_from i ss (c_rel c)) /\
    (forall r, In r (lit_low l) -> level_from i ss r < level_from i ss (c_rel c)).
Proof.
  induction ss as [|cs ss IH]; intros E i H c l Hc Hl; [destruct Hc|].
  destruct H as (H1 & H2 & H3). simpl concat in Hc. apply in_app_or in Hc as [Hc|Hc].
  - assert (Hh : In (c_rel c) (defined_in cs)) by (apply in_map; exact Hc).
    rewrite (level_from_here cs ss i _ Hh). destruct (H1 c l Hc Hl) as [Hlow Hpos]. split.
    + intros r Hr. specialize (Hpos r Hr). simpl. destruct (memb r (defined_in cs)); [lia|].
      rewrite level_from_undefined by exact Hpos. lia.
    + intros r Hr. destruct (Hlow r Hr) as [A B]. rewrite (level_from_later _ _ _ _ A).
      rewrite level_from_undefined by exact B. lia.
  - assert (Hh : In (c_rel c) (flat_map defined_in ss)).
    { apply in_concat in Hc as (cs' & Hcs' & Hc). apply in_flat_map. exists cs'. split; [exact Hcs'|].
      apply in_map; exact Hc. }
    assert (Hn : ~ In (c_rel c) (defined_in cs)).
    { intro Hin. apply (SOK_fresh _ _ H3 _ Hh). apply in_or_app. auto. }
    rewrite (level_from_later _ _ _ _ Hn). pose proof (level_from_defined ss (S i) _ Hh) as Hgt.
    destruct (IH _ (S i) H3 c l Hc Hl) as [Ip In']. split; intros r Hr; simpl;
      (destruct (memb r (defined_in cs)); [lia|auto]).
Qed.

(** * 2. Soundness of the check *)
Theorem strata_ok_sound ss :
  strata_ok [] ss = true ->
  consistent (level_of ss) ss /\ respects (level_of ss) (concat ss) /\
  forall a, ~ neg_cycle (concat ss) a.
Proof.
  intro H. apply strata_ok_SOK in H.
  assert (Hr : respects (level_of ss) (concat ss)).
  { split; intros a b (c & l & Hc & <- & Hl & Hb); destruct (SOK_respects ss [] 0 H c l Hc Hl) as [A B]; auto. }
  split; [|split; [exact Hr|now apply respects_no_neg_cycle with (lvl := level_of ss)]].
  intros i cs r Hn Hin. apply nth_error_split in Hn as (pre & suf & -> & <-).
  unfold level_of. now rewrite (level_from_consistent pre _ [] 0 cs suf r H eq_refl Hin).
Qed.

(** * 3. Completeness of the check along the proposed order *)
Lemma consistent_split lvl ss pre cs suf r :
  consistent lvl ss -> ss = pre ++ cs :: suf -> In r (defined_in cs) -> lvl r = S (length pre).
Proof.
  intros Hc -> Hr. apply (Hc (length pre) cs r); [|exact Hr].
  rewrite nth_error_app2 by lia. now rewrite Nat.sub_diag.
Qed.
Lemma in_flat_defined_split (suf : list (list clause)) r :
  In r (flat_map defined_in suf) -> exists s1 cs s2, suf = s1 ++ cs :: s2 /\ In r (defined_in cs).
Proof.
  intro H. apply in_flat_map in H as (cs & Hcs & Hr). apply in_split in Hcs as (s1 & s2 & ->). eauto.
Qed.

Lemma SOK_complete lvl ss : consistent lvl ss -> respects lvl (concat ss) ->
  forall suf pre, ss = pre ++ suf -> SOK (flat_map defined_in pre) suf.
Proof.
  intros Hc [Hp Hn]. induction suf as [|cs suf IH]; intros pre E; simpl; [exact I|].
  assert (Hin : forall c, In c cs -> In c (concat ss)).
  { intros c Hcc. rewrite E, concat_app. apply in_or_app. right. simpl. apply in_or_app. auto. }
  assert (Hhead : forall c, In c cs -> lvl (c_rel c) = S (length pre)).
  { intros c Hcc. eapply consistent_split; eauto. now apply in_map. }
  assert (Hlater : forall r, In r (flat_map defined_in suf) -> S (length pre) < lvl r).
  { intros r Hr. apply in_flat_defined_split in Hr as (s1 & cs' & s2 & -> & Hr).
    rewrite (consistent_split lvl ss (pre ++ cs :: s1) cs' s2 r Hc); [rewrite app_length; simpl; lia| |exact Hr].
    rewrite E, <- app_assoc. reflexivity. }
  split; [|split].
  - intros c l Hcc Hl. split.
    + intros r Hr. assert (Hlt : lvl r < S (length pre)).
      { rewrite <- (Hhead c Hcc). apply Hn. exists c, l. auto. }
      split.
      * intro Hd. rewrite (consistent_split lvl ss pre cs suf r Hc E Hd) in Hlt. lia.
      * intro Hd. apply Hlater in Hd. lia.
    + intros r Hr Hd. apply Hlater in Hd. assert (Hle : lvl r <= S (length pre)); [|lia].
      rewrite <- (Hhead c Hcc). apply Hp. exists c, l. auto.
  - intros r Hr Hearlier. apply in_flat_defined_split in Hearlier as (s1 & cs' & s2 & Epre & Hr').
    assert (E1 : lvl r = S (length pre)) by (eapply consistent_split; eauto).
    assert (E2 : lvl r = S (length s1)).
    { apply (consistent_split lvl ss s1 cs' (s2 ++ cs :: suf) r Hc); [|exact Hr'].
      rewrite E, Epre, <- app_assoc. reflexivity. }
    rewrite Epre, app_length in E1. simpl in E1. lia.
  - replace (flat_map defined_in pre ++ defined_in cs) with (flat_map defined_in (pre ++ [cs])).
    + apply IH. rewrite E, <- app_assoc. reflexivity.
    + rewrite flat_map_app. simpl. now rewrite app_nil_r.
Qed.

(** if some level function is consistent with the proposed strata and respects the dependency
    graph, the check accepts (so it rejects nothing that is stratified along the proposed order).
    Consistency already implies that each relation has its clauses in exactly one stratum. *)
Theorem strata_ok_complete ss lvl :
  consistent lvl ss -> respects lvl (concat ss) -> strata_ok [] ss = true.
Proof. intros Hc Hr. apply strata_ok_SOK. exact (SOK_complete lvl ss Hc Hr ss [] eq_refl). Qed.

Lemma consistent_one_stratum lvl ss i j cs cs' r :
  consistent lvl ss -> nth_error ss i = Some cs -> nth_error ss j = Some cs' ->
  In r (defined_in cs) -> In r (defined_in cs') -> i = j.
Proof. intros Hc Hi Hj Hr Hr'. pose proof (Hc i cs r Hi Hr). pose proof (Hc j cs' r Hj Hr'). lia. Qed.

(** the check decides exactly "the proposed strata follow a level function" *)
Theorem strata_ok_iff ss :
  strata_ok [] ss = true <-> exists lvl, consistent lvl ss /\ respects lvl (concat ss).
Proof.
  split.
  - intro H. exists (level_of ss). destruct (strata_ok_sound ss H) as (A & B & _). auto.
  - intros (lvl & A & B). eapply strata_ok_complete; eauto.
Qed.

(** * 4. Unstratifiable programs are rejected whatever strata are proposed *)
Lemma pos_edge_incl cs cs' a b : incl cs cs' -> pos_edge cs a b -> pos_edge cs' a b.
Proof. intros Hi (c & l & Hc & H). exists c, l. split; auto. Qed.
Lemma neg_edge_incl cs cs' a b : incl cs cs' -> neg_edge cs a b -> neg_edge cs' a b.
Proof. intros Hi (c & l & Hc & H). exists c, l. split; auto. Qed.
Lemma reaches_incl cs cs' a b : incl cs cs' -> reaches cs a b -> reaches cs' a b.
Proof.
  intros Hi H. induction H as [a|a b c Hd _ IH]; [constructor|].
  econstructor; [|exact IH]. destruct Hd; [left|right]; eauto using pos_edge_incl, neg_edge_incl.
Qed.
Lemma neg_cycle_incl cs cs' a : incl cs cs' -> neg_cycle cs a -> neg_cycle cs' a.
Proof.
  intros Hi (b & c & H1 & H2 & H3). exists b, c.
  split; [eapply reaches_incl; eauto|]. split; [eapply neg_edge_incl; eauto|eapply reaches_incl; eauto].
Qed.

Theorem unstratifiable_rejected ss a :
  neg_cycle (concat ss) a ->
  forall ss', Permutation (concat ss') (concat ss) -> strata_ok [] ss' = false.
Proof.
  intros Hcyc ss' Hp. destruct (strata_ok [] ss') eqn:E; [|reflexivity]. exfalso.
  destruct (strata_ok_sound ss' E) as (_ & _ & Hno). apply (Hno a).
  eapply neg_cycle_incl; [|exact Hcyc]. intros c Hc. eapply Permutation_in; [apply Permutation_sym; exact Hp|exact Hc].
Qed.
(** the same for any arrangement that merely contains the clauses *)
Theorem unstratifiable_rejected_incl ss a :
  neg_cycle (concat ss) a -> forall ss', incl (concat ss) (concat ss') -> strata_ok [] ss' = false.
Proof.
  intros Hcyc ss' Hi. destruct (strata_ok [] ss') eqn:E; [|reflexivity]. exfalso.
  destruct (strata_ok_sound ss' E) as (_ & _ & Hno). apply (Hno a). eapply neg_cycle_incl; eauto.
Qed.

(** * 5. Examples *)
(** p :- !q.  q :- !r.  r :- !p.   (relations 0, 1, 2) *)
Definition nc_p : clause := {| c_rel := 0; c_args := []; c_body := [LS (SNeg 1 [])] |}.
Definition nc_q : clause := {| c_rel := 1; c_args := []; c_body := [LS (SNeg 2 [])] |}.
Definition nc_r : clause := {| c_rel := 2; c_args := []; c_body := [LS (SNeg 0 [])] |}.
Example neg_cycle_rejected :
  strata_ok [] [[nc_p; nc_q; nc_r]] = false /\ strata_ok [] [[nc_p]; [nc_q]; [nc_r]] = false /\
  strata_ok [] [[nc_r]; [nc_q]; [nc_p]] = false /\ strata_ok [] [[nc_q; nc_r]; [nc_p]] = false.
Proof. vm_compute. auto. Qed.
Example neg_cycle_ex : neg_cycle [nc_p; nc_q; nc_r] 0.
Proof.
  assert (Epq : neg_edge [nc_p; nc_q; nc_r] 0 1) by (exists nc_p, (LS (SNeg 1 [])); simpl; auto).
  assert (Eqr : neg_edge [nc_p; nc_q; nc_r] 1 2) by (exists nc_q, (LS (SNeg 2 [])); simpl; auto 6).
  assert (Erp : neg_edge [nc_p; nc_q; nc_r] 2 0) by (exists nc_r, (LS (SNeg 0 [])); simpl; auto 6).
  exists 0, 1. split; [constructor|]. split; [exact Epq|].
  apply R_step with (b := 2); [right; exact Eqr|]. apply R_step with (b := 0); [right; exact Erp|constructor].
Qed.
(** hence every arrangement of these three clauses into strata is rejected *)
Example neg_cycle_always_rejected : forall ss',
  Permutation (concat ss') [nc_p; nc_q; nc_r] -> strata_ok [] ss' = false.
Proof. apply (unstratifiable_rejected [[nc_p; nc_q; nc_r]] 0). exact neg_cycle_ex. Qed.

(** the three-stratum program of DatalogLemmas.v (recursion, negation, aggregate) is accepted, its
    level function puts edge/node at 0, path at 1, unreach at 2, cnt at 3 *)
Example three_strata_accepted :
  strata_ok [] ex_prog = true /\ map (level_of ex_prog) [0; 1; 2; 3; 4] = [0; 0; 1; 2; 3].
Proof. vm_compute. auto. Qed.
Example three_strata_levels : respects (level_of ex_prog) (concat ex_prog) /\ consistent (level_of ex_prog) ex_prog.
Proof. destruct (strata_ok_sound ex_prog) as (A & B & _); [vm_compute; reflexivity|auto]. Qed.
(** hypotheses of [strata_ok_complete] on an instance with a hand-written level function *)
Example complete_hyps :
  let lvl := fun r => match r with 2 => 1 | 3 => 2 | 4 => 3 | _ => 0 end in
  consistent lvl ex_prog /\ respects lvl (concat ex_prog).
Proof.
  intro lvl. destruct three_strata_levels as [A B].
  assert (E : forall r, lvl r = level_of ex_prog r).
  { intros [|[|[|[|[|r]]]]]; reflexivity. }
  split.
  - intros i cs r H1 H2. rewrite E. eauto.
  - destruct A as [A1 A2]. split; intros a b H; rewrite !E; auto.
Qed.
