(** Proofs about the equivalence-relation model of EqRelDefs.v
    (src/include/souffle/datastructure/EquivalenceRelation.h on top of UnionFind.h).
    All statements are for arbitrary histories (no bound on length or number of elements); the
    only hypothesis is that inserted elements are 32-bit signed integers (so that the uint8_t
    ranks of UnionFind.h cannot wrap around).  The forest lemmas of UnionFindLemmas.v
    (halve_ok, link_ok, bump_ok: the repaired linking) are reused for the sequential reading. *)
From Coq Require Import List ZArith Bool Arith PeanoNat Lia Permutation.
From SV Require Import UnionFindDefs UnionFindLemmas EqRelDefs.
Import ListNotations.

(** * Part 1: the forest (dense indices) *)
Ltac split4 := split; [|split; [|split]].

Lemma root_of_root m r : is_root m r -> root m r = r.
Proof. intros R. unfold root. now apply iter_parent_root. Qed.

Lemma root_char n m a r : minv n m -> is_root m r -> anc m a r -> root m a = r.
Proof.
  intros M R A. destruct (root_is_root n m a M) as [R' A'].
  eapply root_unique; eauto.
Qed.

Lemma root_lt n m a : minv n m -> a < n -> root m a < n.
Proof. intros M H. destruct (root_is_root n m a M) as [_ A]. eapply anc_lt; eauto. Qed.

Lemma root_idem n m a : minv n m -> root m (root m a) = root m a.
Proof. intros M. apply root_of_root. eapply root_is_root; eauto. Qed.

Lemma root_is_root' n m a : minv n m -> is_root m (root m a).
Proof. intros M. eapply root_is_root; eauto. Qed.

Lemma is_root_iff n m a : minv n m -> (is_root m a <-> root m a = a).
Proof.
  intros M. split; [apply root_of_root|]. intros E. rewrite <- E. eapply root_is_root'; eauto.
Qed.

(** Writes that never split a class and keep every root a root leave [root] unchanged. *)
Lemma root_preserved n m m' :
  minv n m -> minv n m' -> mext m m' -> (forall r, is_root m r -> is_root m' r) ->
  forall a, root m' a = root m a.
Proof.
  intros M M' [_ E] R a.
  destruct (root_is_root n m a M) as [Rr A].
  assert (SA : sameroot m a (root m a)) by (exists (root m a); repeat split; auto; apply anc_refl).
  apply E in SA. apply (sameroot_root n m' _ _ M') in SA. rewrite SA. apply root_of_root. auto.
Qed.

Lemma above_ext n m m' z : (forall a, rank m' a = rank m a) -> above n m' z = above n m z.
Proof.
  intros E. unfold above. f_equal. apply filter_ext. intros a. now rewrite !E.
Qed.

Lemma cas_same m x b d : rd m x = b -> cas m x b d = (wr m x d, true).
Proof.
  intros E. unfold cas. rewrite E.
  assert (H : block_eqb b b = true) by now apply block_eqb_eq. now rewrite H.
Qed.

(** findNode returns the root and changes neither the partition nor any rank. *)
Lemma find_node_spec n fuel : forall m x,
  minv n m -> x < n -> above n m x < fuel ->
  minv n (fst (find_node fuel m x)) /\
  snd (find_node fuel m x) = root m x /\
  (forall a, root (fst (find_node fuel m x)) a = root m a) /\
  (forall a, rank (fst (find_node fuel m x)) a = rank m a).
Proof.
  induction fuel as [|f IH]; intros m x M Hx Hf; [lia|].
  cbn [find_node]. destruct (rd m x) as [xp xr] eqn:R. cbn [fst snd].
  assert (Pm : parent m x = xp) by (unfold parent; now rewrite R).
  assert (Rm : rank m x = xr) by (unfold rank; now rewrite R).
  destruct (xp =? x) eqn:E.
  - apply Nat.eqb_eq in E. cbn [fst snd]. split4; auto.
    symmetry. apply root_of_root. unfold is_root. congruence.
  - apply Nat.eqb_neq in E.
    rewrite (cas_same m x (xp, xr)) by exact R. cbn [fst].
    set (np := parent m xp).
    destruct (proj2 M x Hx) as [Hp Hl]. rewrite Pm in Hp, Hl. specialize (Hl E).
    destruct (proj2 M xp Hp) as [Hnp Hl2]. fold np in Hnp, Hl2.
    assert (L : lexlt xr x (rank m np) np).
    { rewrite Rm in Hl. destruct (Nat.eq_dec np xp) as [Enp|Enp].
      - rewrite Enp. exact Hl.
      - eapply lexlt_trans; [exact Hl|]. apply Hl2. exact Enp. }
    assert (SR : sameroot m x np).
    { unfold np. rewrite <- Pm. apply sameroot_parent. apply sameroot_parent.
      eapply sameroot_refl; eauto. }
    destruct (halve_ok n m x xp xr np M Hx R E Hnp L SR) as [M' X].
    set (m' := wr m x (np, xr)) in *.
    assert (Ln : length m = n) by apply M.
    assert (Rk : forall a, rank m' a = rank m a).
    { intros a. unfold m'. destruct (Nat.eq_dec x a) as [<-|Na].
      - rewrite rank_wr_eq by lia. auto.
      - now rewrite rank_wr_neq. }
    assert (Rt : forall a, root m' a = root m a).
    { apply (root_preserved n); auto. intros r Rr. unfold is_root, m'.
      assert (x <> r) by (intros ->; unfold is_root in Rr; congruence).
      rewrite parent_wr_neq; auto. }
    assert (Ab : above n m' np < f).
    { rewrite (above_ext n m m') by exact Rk.
      assert (above n m np < above n m x); [|lia].
      apply above_lt; auto. now rewrite Rm. }
    destruct (IH m' np M' Hnp Ab) as [I1 [I2 [I3 I4]]].
    split4; auto.
    + rewrite I2, Rt. symmetry. apply (sameroot_root n); auto.
    + intros a. now rewrite I3.
    + intros a. now rewrite I4.
Qed.

Lemma ds_find_spec n m x :
  minv n m -> x < n ->
  minv n (fst (ds_find m x)) /\
  snd (ds_find m x) = root m x /\
  (forall a, root (fst (ds_find m x)) a = root m a) /\
  (forall a, rank (fst (ds_find m x)) a = rank m a).
Proof.
  intros M Hx. apply find_node_spec; auto.
  unfold find_fuel. assert (length m = n) by apply M. pose proof (above_le n m x). lia.
Qed.

(** sameSet answers whether the roots coincide; same side conditions as findNode. *)
Lemma same_set_spec n m x y :
  minv n m -> x < n -> y < n ->
  minv n (fst (same_set loop_fuel m x y)) /\
  snd (same_set loop_fuel m x y) = (root m x =? root m y) /\
  (forall a, root (fst (same_set loop_fuel m x y)) a = root m a) /\
  (forall a, rank (fst (same_set loop_fuel m x y)) a = rank m a).
Proof.
  intros M Hx Hy. unfold loop_fuel. cbn [same_set].
  destruct (ds_find_spec n m x M Hx) as [M1 [E1 [R1 K1]]].
  destruct (ds_find m x) as [m1 x1]. cbn [fst snd] in *.
  destruct (ds_find_spec n m1 y M1 Hy) as [M2 [E2 [R2 K2]]].
  destruct (ds_find m1 y) as [m2 y1]. cbn [fst snd] in *.
  assert (RR : forall a, root m2 a = root m a) by (intros; now rewrite R2, R1).
  assert (KK : forall a, rank m2 a = rank m a) by (intros; now rewrite K2, K1).
  rewrite R1 in E2. subst x1 y1.
  destruct (root m x =? root m y) eqn:E; cbn [fst snd]; [split4; auto|].
  assert (Rx : is_root m2 (root m x)).
  { apply (is_root_iff n); auto. rewrite RR. eapply root_idem; eauto. }
  unfold is_root in Rx. rewrite Rx, Nat.eqb_refl. cbn [fst snd]. split4; auto.
Qed.

(** ** Class sizes and the rank bound *)
Definition csize (n : nat) (m : mem) (r : nat) : nat :=
  length (filter (fun a => root m a =? r) (seq 0 n)).

Definition minv2 (n : nat) (m : mem) : Prop :=
  minv n m /\ forall r, r < n -> is_root m r -> 2 ^ rank m r <= csize n m r.

Lemma csize_ext n m m' r : (forall a, root m' a = root m a) -> csize n m' r = csize n m r.
Proof. intros E. unfold csize. f_equal. apply filter_ext. intros a. now rewrite E. Qed.

Lemma csize_le n m r : csize n m r <= n.
Proof. unfold csize. rewrite <- (seq_length n 0) at 2. apply filter_len_le. Qed.

Lemma pow2_bound r n : 2 ^ r <= n -> (Z.of_nat n <= 2 ^ 32)%Z -> r <= 32.
Proof.
  intros H B. destruct (le_lt_dec r 32) as [|G]; auto. exfalso.
  assert (H1 : (Z.of_nat (2 ^ r) <= Z.of_nat n)%Z) by lia.
  rewrite Nat2Z.inj_pow in H1. change (Z.of_nat 2) with 2%Z in H1.
  assert (H2 : (2 ^ 32 < 2 ^ Z.of_nat r)%Z) by (apply Z.pow_lt_mono_r; lia).
  lia.
Qed.

Lemma root_rank_small n m r :
  minv2 n m -> (Z.of_nat n <= 2 ^ 32)%Z -> r < n -> is_root m r -> rank m r <= 32.
Proof.
  intros [M SZ] B Hr R. apply (pow2_bound _ n); auto.
  specialize (SZ r Hr R). pose proof (csize_le n m r). lia.
Qed.

Lemma filter_merge_count (f : nat -> nat) w l s : w <> l ->
  length (filter (fun a => (if f a =? l then w else f a) =? w) s) =
  length (filter (fun a => f a =? w) s) + length (filter (fun a => f a =? l) s).
Proof.
  intros Hwl. induction s as [|a s IH]; cbn [filter]; auto.
  destruct (f a =? l) eqn:El.
  - rewrite Nat.eqb_refl. apply Nat.eqb_eq in El.
    assert (Ew : f a =? w = false) by (apply Nat.eqb_neq; lia). rewrite Ew. cbn [length]. lia.
  - destruct (f a =? w); cbn [length]; lia.
Qed.

Lemma filter_merge_other (f : nat -> nat) w l r s : r <> w -> r <> l ->
  filter (fun a => (if f a =? l then w else f a) =? r) s = filter (fun a => f a =? r) s.
Proof.
  intros Hw Hl. apply filter_ext. intros a. destruct (f a =? l) eqn:El; auto.
  apply Nat.eqb_eq in El. transitivity false; [|symmetry]; apply Nat.eqb_neq; lia.
Qed.

Lemma update_root_ok m x xr y nr : rd m x = (x, xr) -> update_root m x xr y nr = (wr m x (y, nr), true).
Proof.
  intros R. unfold update_root. rewrite R. cbn [fst snd]. rewrite !Nat.eqb_refl. cbn [andb negb].
  apply cas_same. exact R.
Qed.

Lemma rd_root m r : is_root m r -> rd m r = (r, rank m r).
Proof. unfold is_root, parent, rank. destruct (rd m r); cbn. intros ->. auto. Qed.

(** unionNodes: the two classes are merged, the class of one root absorbing the other;
    nothing else changes; the retry branch is not taken. *)
Lemma union_nodes_spec n m x y :
  minv2 n m -> (Z.of_nat n <= 2 ^ 32)%Z -> x < n -> y < n ->
  let m' := union_nodes loop_fuel m x y in
  minv2 n m' /\
  exists w l, ((w = root m x /\ l = root m y) \/ (w = root m y /\ l = root m x)) /\
              forall a, root m' a = if root m a =? l then w else root m a.
Proof.
  intros [M SZ] B Hx Hy. unfold loop_fuel. cbn [union_nodes].
  destruct (ds_find_spec n m x M Hx) as [M1 [E1 [R1 K1]]].
  destruct (ds_find m x) as [m1 x1]. cbn [fst snd] in *.
  destruct (ds_find_spec n m1 y M1 Hy) as [M2 [E2 [R2 K2]]].
  destruct (ds_find m1 y) as [m2 y1]. cbn [fst snd] in *.
  assert (RR : forall a, root m2 a = root m a) by (intros; now rewrite R2, R1).
  assert (KK : forall a, rank m2 a = rank m a) by (intros; now rewrite K2, K1).
  rewrite R1 in E2. subst x1 y1.
  assert (S2 : minv2 n m2).
  { split; auto. intros r Hr Rr. rewrite KK, (csize_ext n m m2) by exact RR. apply SZ; auto.
    apply (is_root_iff n) in Rr; auto. apply (is_root_iff n); auto. now rewrite <- RR. }
  set (rx := root m x) in *. set (ry := root m y) in *.
  assert (Hrx : rx < n) by (apply (root_lt n); auto).
  assert (Hry : ry < n) by (apply (root_lt n); auto).
  assert (Rx : is_root m2 rx).
  { apply (is_root_iff n); auto. rewrite RR. eapply root_idem; eauto. }
  assert (Ry : is_root m2 ry).
  { apply (is_root_iff n); auto. rewrite RR. eapply root_idem; eauto. }
  destruct (rx =? ry) eqn:Exy.
  - apply Nat.eqb_eq in Exy. split; auto. exists rx, ry. split; auto.
    intros a. rewrite RR. destruct (root m a =? ry) eqn:Ea; auto.
    apply Nat.eqb_eq in Ea. congruence.
  - apply Nat.eqb_neq in Exy.
    (* the link *)
    set (sw := (rank m2 ry <? rank m2 rx) || ((rank m2 rx =? rank m2 ry) && (ry <? rx))).
    set (lo := if sw then ry else rx). set (hi := if sw then rx else ry).
    assert (Ord : lexlt (rank m2 lo) lo (rank m2 hi) hi /\ lo <> hi /\ is_root m2 lo /\ is_root m2 hi /\
                  lo < n /\ hi < n /\ ((hi = rx /\ lo = ry) \/ (hi = ry /\ lo = rx))).
    { unfold lo, hi, sw. unfold lexlt.
      destruct (rank m2 ry <? rank m2 rx) eqn:C1; cbn [orb].
      - apply Nat.ltb_lt in C1. repeat split; auto; try lia.
      - apply Nat.ltb_ge in C1. destruct (rank m2 rx =? rank m2 ry) eqn:C2; cbn [andb].
        + apply Nat.eqb_eq in C2. destruct (ry <? rx) eqn:C3.
          * apply Nat.ltb_lt in C3. repeat split; auto; try lia.
          * apply Nat.ltb_ge in C3. repeat split; auto; try lia.
        + apply Nat.eqb_neq in C2. repeat split; auto; try lia. }
    destruct Ord as [Ol [One [Rlo [Rhi [Hlo [Hhi Cases]]]]]].
    replace (if sw then rank m2 ry else rank m2 rx) with (rank m2 lo) by (unfold lo; now destruct sw).
    replace (if sw then rank m2 rx else rank m2 ry) with (rank m2 hi) by (unfold hi; now destruct sw).
    rewrite (update_root_ok m2 lo (rank m2 lo) hi (rank m2 lo)) by (now apply rd_root).
    destruct (link_ok n m2 lo (rank m2 lo) hi M2 Hlo Hhi (rd_root _ _ Rlo) Ol) as [M3 [X3 SR3]].
    set (m3 := wr m2 lo (hi, rank m2 lo)) in *.
    assert (Ln : length m2 = n) by apply M2.
    assert (P3 : forall r, r <> lo -> parent m3 r = parent m2 r).
    { intros r Hr. unfold m3. apply parent_wr_neq. auto. }
    assert (K3 : forall a, rank m3 a = rank m2 a).
    { intros a. unfold m3. destruct (Nat.eq_dec lo a) as [<-|Na].
      - rewrite rank_wr_eq by lia. auto.
      - now rewrite rank_wr_neq. }
    assert (Rhi3 : is_root m3 hi) by (unfold is_root; rewrite P3; auto).
    assert (Rt3 : forall a, root m3 a = if root m2 a =? lo then hi else root m2 a).
    { intros a. destruct (root_is_root n m2 a M2) as [Ra Aa].
      assert (Sa : sameroot m2 a (root m2 a))
        by (exists (root m2 a); repeat split; auto; apply anc_refl).
      apply (proj2 X3) in Sa.
      destruct (root m2 a =? lo) eqn:Ea.
      - apply Nat.eqb_eq in Ea. rewrite Ea in Sa.
        assert (Sb : sameroot m3 a hi) by (eapply sameroot_trans; eauto).
        apply (sameroot_root n m3 _ _ M3) in Sb. rewrite Sb. now apply root_of_root.
      - apply Nat.eqb_neq in Ea.
        apply (sameroot_root n m3 _ _ M3) in Sa. rewrite Sa. apply root_of_root.
        unfold is_root. rewrite P3; auto. }
    assert (Fin : forall m4, minv n m4 -> (forall a, root m4 a = root m3 a) ->
                  (forall a, a <> hi -> rank m4 a = rank m3 a) ->
                  (rank m4 hi = rank m2 hi \/
                   (rank m2 lo = rank m2 hi /\ rank m4 hi = S (rank m2 hi))) ->
                  minv2 n m4 /\
                  exists w l, ((w = rx /\ l = ry) \/ (w = ry /\ l = rx)) /\
                    forall a, root m4 a = if root m a =? l then w else root m a).
    { intros m4 M4 R4 K4 Khi. split; [split; auto|].
      - intros r Hr Rr.
        assert (Rr3 : root m3 r = r) by (rewrite <- R4; apply (is_root_iff n); auto).
        rewrite Rt3 in Rr3.
        assert (Rlo2 : root m2 lo = lo) by now apply root_of_root.
        assert (Hrlo : r <> lo).
        { intros ->. rewrite Rlo2, Nat.eqb_refl in Rr3. congruence. }
        destruct (Nat.eq_dec r hi) as [->|Hrhi].
        + (* the winner: sizes add up *)
          assert (Cs : csize n m4 hi = csize n m2 hi + csize n m2 lo).
          { unfold csize. erewrite filter_ext; [apply (filter_merge_count (root m2) hi lo); auto|].
            intros a. cbn beta. now rewrite R4, Rt3. }
          rewrite Cs. pose proof (proj2 S2 hi Hhi Rhi) as Phi. pose proof (proj2 S2 lo Hlo Rlo) as Plo.
          destruct Khi as [Kh|[Keq Kh]]; rewrite Kh.
          * lia.
          * rewrite Nat.pow_succ_r'. rewrite Keq in Plo. lia.
        + assert (Rr2 : is_root m2 r).
          { apply (is_root_iff n); auto. destruct (root m2 r =? lo) eqn:Er; [congruence|auto]. }
          rewrite K4, K3 by auto.
          assert (Cs : csize n m4 r = csize n m2 r).
          { unfold csize. f_equal. erewrite filter_ext; [apply (filter_merge_other (root m2) hi lo); auto|].
            intros a. cbn beta. now rewrite R4, Rt3. }
          rewrite Cs. apply S2; auto.
      - exists hi, lo. split; [tauto|]. intros a. rewrite R4, Rt3, RR. auto. }
    destruct (rank m2 lo =? rank m2 hi) eqn:Erk.
    + (* equal ranks: the winner's rank is raised *)
      apply Nat.eqb_eq in Erk.
      assert (Rd3 : rd m3 hi = (hi, rank m2 hi)).
      { rewrite (rd_root m3 hi Rhi3). now rewrite K3. }
      rewrite (update_root_ok m3 hi (rank m2 hi) hi (rank_succ (rank m2 hi))) by exact Rd3.
      cbn [fst].
      assert (Sm : rank m2 hi <= 32) by (apply (root_rank_small n m2); auto).
      assert (Rs : rank_succ (rank m2 hi) = S (rank m2 hi)).
      { unfold rank_succ. rewrite Nat.mod_small; lia. }
      rewrite Rs.
      destruct (bump_ok n m3 hi (rank m2 hi) M3 Hhi Rd3) as [M4 X4].
      set (m4 := wr m3 hi (hi, S (rank m2 hi))) in *.
      assert (L3 : length m3 = n) by apply M3.
      apply Fin; auto.
      * apply (root_preserved n); auto. intros r Rr. unfold is_root, m4.
        destruct (Nat.eq_dec hi r) as [<-|Nr].
        -- rewrite parent_wr_eq by lia. auto.
        -- rewrite parent_wr_neq by auto. auto.
      * intros a Ha. unfold m4. rewrite rank_wr_neq by auto. auto.
      * right. split; auto. unfold m4. rewrite rank_wr_eq by lia. auto.
    + apply Fin; auto.
Qed.

(** makeNode: a fresh isolated root; [rd] does not change at all (out-of-range reads default
    to an isolated root in UnionFindDefs). *)
Lemma rd_snoc m z : rd (m ++ [(length m, 0)]) z = rd m z.
Proof.
  unfold rd. destruct (Nat.lt_ge_cases z (length m)) as [H|H].
  - now rewrite app_nth1.
  - rewrite app_nth2 by lia. rewrite (nth_overflow m) by lia.
    destruct (z - length m) as [|k] eqn:E.
    + cbn. f_equal. lia.
    + cbn. destruct k; reflexivity.
Qed.

Lemma root_snoc n m a : minv n m -> root (m ++ [(length m, 0)]) a = root m a.
Proof.
  intros M. unfold root. rewrite app_length. cbn [length]. rewrite Nat.add_1_r.
  assert (P : forall z, parent (m ++ [(length m, 0)]) z = parent m z)
    by (intros; unfold parent; now rewrite rd_snoc).
  assert (I : forall k z, Nat.iter k (parent (m ++ [(length m, 0)])) z = Nat.iter k (parent m) z).
  { induction k; intros z; [reflexivity|]. rewrite !iter_S. now rewrite IHk, P. }
  rewrite I. rewrite iter_S. fold (root m a). apply (root_is_root' n); auto.
Qed.

Lemma minv2_snoc n m : minv2 n m -> minv2 (S n) (m ++ [(length m, 0)]).
Proof.
  intros [M SZ]. assert (L : length m = n) by apply M.
  set (m' := m ++ [(length m, 0)]).
  assert (P : forall z, parent m' z = parent m z) by (intros; unfold parent, m'; now rewrite rd_snoc).
  assert (K : forall z, rank m' z = rank m z) by (intros; unfold rank, m'; now rewrite rd_snoc).
  assert (M' : minv (S n) m').
  { split; [unfold m'; rewrite app_length; cbn; lia|].
    intros x Hx. rewrite P, !K.
    destruct (Nat.eq_dec x n) as [->|Hn].
    - destruct (minv_out n m n M (le_n n)) as [Pn _]. rewrite Pn. split; [lia|congruence].
    - destruct (proj2 M x ltac:(lia)) as [A C]. split; [lia|auto]. }
  split; auto. intros r Hr Rr.
  assert (Rt : forall a, root m' a = root m a) by (intros; apply (root_snoc n); auto).
  rewrite K. unfold csize. rewrite seq_S, filter_app, app_length. cbn [plus filter].
  rewrite Rt.
  assert (Rn : root m n = n).
  { apply root_of_root. unfold is_root. apply (minv_out n m n M). lia. }
  rewrite Rn.
  destruct (Nat.eq_dec r n) as [->|Hn].
  - rewrite Nat.eqb_refl. cbn [length].
    destruct (minv_out n m n M (le_n n)) as [_ Kn]. rewrite Kn. change (2 ^ 0) with 1. lia.
  - assert (Rr' : is_root m r) by (unfold is_root in *; now rewrite <- P).
    specialize (SZ r ltac:(lia) Rr').
    rewrite (filter_ext (fun a => root m' a =? r) (fun a => root m a =? r))
      by (intros a; now rewrite Rt).
    unfold csize in SZ. lia.
Qed.

(** * Part 2: the specification side *)
(** [eqc]: the equivalence generated by the pairs, reflexive on every integer; [closure] is its
    restriction to the mentioned elements ([closure_eqc]). *)
Inductive eqc (ps : list (Z * Z)) : Z -> Z -> Prop :=
| eqc_refl x : eqc ps x x
| eqc_base x y : In (x, y) ps -> eqc ps x y
| eqc_sym x y : eqc ps x y -> eqc ps y x
| eqc_trans x y z : eqc ps x y -> eqc ps y z -> eqc ps x z.

Lemma eqc_least ps (R : Z -> Z -> Prop) :
  (forall x, R x x) -> (forall x y, R x y -> R y x) -> (forall x y z, R x y -> R y z -> R x z) ->
  (forall x y, In (x, y) ps -> R x y) -> forall a b, eqc ps a b -> R a b.
Proof. intros Rr Rs Rt Rb a b H. induction H; eauto. Qed.

Lemma eqc_mono ps ps' a b : incl ps ps' -> eqc ps a b -> eqc ps' a b.
Proof.
  intros I. apply eqc_least; intros.
  - apply eqc_refl.
  - now apply eqc_sym.
  - eapply eqc_trans; eauto.
  - apply eqc_base. auto.
Qed.

Definition join3 (R : Z -> Z -> Prop) (x y a b : Z) : Prop :=
  R a b \/ (R a x /\ R y b) \/ (R a y /\ R x b).

Lemma join3_equiv (R : Z -> Z -> Prop) x y :
  (forall a, R a a) -> (forall a b, R a b -> R b a) -> (forall a b c, R a b -> R b c -> R a c) ->
  (forall a, join3 R x y a a) /\
  (forall a b, join3 R x y a b -> join3 R x y b a) /\
  (forall a b c, join3 R x y a b -> join3 R x y b c -> join3 R x y a c).
Proof.
  intros Rr Rs Rt. unfold join3. split; [|split].
  - intros a. left. auto.
  - intros a b [H|[[H1 H2]|[H1 H2]]]; [left; auto | right; right; split; auto | right; left; split; auto].
  - intros a b c [H|[[H1 H2]|[H1 H2]]] [G|[[G1 G2]|[G1 G2]]].
    + left. apply (Rt a b c); auto.
    + right; left. split; [apply (Rt a b x); auto | auto].
    + right; right. split; [apply (Rt a b y); auto | auto].
    + right; left. split; [auto | apply (Rt y b c); auto].
    + left. apply (Rt a x c); auto. apply (Rt x b c); auto. apply (Rt b y c); auto.
    + left. apply (Rt a x c); auto.
    + right; right. split; [auto | apply (Rt x b c); auto].
    + left. apply (Rt a y c); auto.
    + left. apply (Rt a y c); auto. apply (Rt y b c); auto. apply (Rt b x c); auto.
Qed.

Lemma eqc_cons ps x y a b : eqc ((x, y) :: ps) a b <-> join3 (eqc ps) x y a b.
Proof.
  split.
  - destruct (join3_equiv (eqc ps) x y (eqc_refl ps) (eqc_sym ps) (eqc_trans ps)) as [Jr [Js Jt]].
    apply (eqc_least _ (join3 (eqc ps) x y)); [exact Jr | exact Js | exact Jt |].
    intros u v [E|I].
    + inversion E; subst. right; left. split; apply eqc_refl.
    + left. now apply eqc_base.
  - assert (Mo : forall u v, eqc ps u v -> eqc ((x, y) :: ps) u v).
    { intros u v. apply eqc_mono. intros p Hp. now right. }
    assert (XY : eqc ((x, y) :: ps) x y) by (apply eqc_base; now left).
    intros [H|[[H1 H2]|[H1 H2]]].
    + auto.
    + eapply eqc_trans; [apply Mo; exact H1|]. eapply eqc_trans; [exact XY|]. auto.
    + eapply eqc_trans; [apply Mo; exact H1|]. eapply eqc_trans; [apply eqc_sym; exact XY|]. auto.
Qed.

Lemma eqc_ext ps ps' a b : (forall p, In p ps <-> In p ps') -> (eqc ps a b <-> eqc ps' a b).
Proof. intros E. split; apply eqc_mono; intros p Hp; apply E; auto. Qed.

Lemma eqc_snoc ps x y a b : eqc (ps ++ [(x, y)]) a b <-> join3 (eqc ps) x y a b.
Proof.
  rewrite <- eqc_cons. apply eqc_ext. intros p. rewrite in_app_iff. cbn. tauto.
Qed.

(** replacing a part of the pairs by pairs generating the same equivalence *)
Lemma eqc_app_congr p q q' a b :
  (forall u v, eqc q u v <-> eqc q' u v) -> (eqc (p ++ q) a b <-> eqc (p ++ q') a b).
Proof.
  assert (K : forall q q', (forall u v, eqc q u v -> eqc q' u v) ->
              forall a b, eqc (p ++ q) a b -> eqc (p ++ q') a b).
  { intros r r' H. apply eqc_least.
    - apply eqc_refl.
    - apply eqc_sym.
    - apply eqc_trans.
    - intros u v I. apply in_app_iff in I. destruct I as [I|I].
      + apply eqc_base. apply in_app_iff. auto.
      + apply (eqc_mono r'); [apply incl_appr, incl_refl|]. apply H. now apply eqc_base. }
  intros H. split; apply K; intros u v; apply H.
Qed.

Lemma eqc_app_congr_l p p' q a b :
  (forall u v, eqc p u v <-> eqc p' u v) -> (eqc (p ++ q) a b <-> eqc (p' ++ q) a b).
Proof.
  intros H. rewrite (eqc_ext (p ++ q) (q ++ p)), (eqc_ext (p' ++ q) (q ++ p')).
  - now apply eqc_app_congr.
  - intros z. rewrite !in_app_iff. tauto.
  - intros z. rewrite !in_app_iff. tauto.
Qed.

Lemma dom_app p q : dom (p ++ q) = dom p ++ dom q.
Proof. unfold dom. apply flat_map_app. Qed.

Lemma in_dom ps a : In a (dom ps) <-> exists b, In (a, b) ps \/ In (b, a) ps.
Proof.
  unfold dom. rewrite in_flat_map. split.
  - intros [[u v] [I [E|[E|[]]]]]; cbn in E; subst; eauto.
  - intros [b [I|I]]; eexists; (split; [exact I|]); cbn; auto.
Qed.

Lemma eqc_dom ps a b : eqc ps a b -> a = b \/ (In a (dom ps) /\ In b (dom ps)).
Proof.
  revert a b. apply (eqc_least ps (fun a b => a = b \/ (In a (dom ps) /\ In b (dom ps)))).
  - auto.
  - intros x y [->|[]]; auto.
  - intros x y z [->|[]] [->|[]]; auto.
  - intros x y I. right. split; apply in_dom; eauto.
Qed.

Lemma closure_dom ps a b : closure ps a b -> In a (dom ps) /\ In b (dom ps).
Proof.
  induction 1; try tauto.
  split; apply in_dom; eauto.
Qed.

Theorem closure_eqc ps a b :
  closure ps a b <-> In a (dom ps) /\ In b (dom ps) /\ eqc ps a b.
Proof.
  split.
  - intros H. destruct (closure_dom _ _ _ H) as [Da Db]. repeat split; auto.
    induction H.
    + apply eqc_refl.
    + now apply eqc_base.
    + apply eqc_sym. apply IHclosure; auto.
    + destruct (closure_dom _ _ _ H). destruct (closure_dom _ _ _ H0).
      eapply eqc_trans; eauto.
  - intros [Da [Db H]].
    assert (K : a = b \/ closure ps a b).
    { clear Da Db. revert a b H. apply (eqc_least ps (fun a b => a = b \/ closure ps a b)).
      - auto.
      - intros x y [->|C]; auto. right. now apply ecl_sym.
      - intros x y z [->|C] [->|D]; auto. right. eapply ecl_trans; eauto.
      - intros x y I. right. now apply ecl_base. }
    destruct K as [->|K]; auto. now apply ecl_refl.
Qed.

Lemma eqc_nil a b : eqc [] a b -> a = b.
Proof.
  revert a b. apply (eqc_least [] (fun a b => a = b)); auto; try congruence. intros x y [].
Qed.

Lemma label_spec ps : forall x y, label ps x = label ps y <-> eqc ps x y.
Proof.
  induction ps as [|[a b] r IH]; intros x y.
  - cbn. split; [intros ->; apply eqc_refl | apply eqc_nil].
  - rewrite eqc_cons. unfold join3. rewrite <- !IH. cbn [label].
    destruct (Z.eqb_spec (label r x) (label r a)) as [Ex|Ex];
    destruct (Z.eqb_spec (label r y) (label r a)) as [Ey|Ey]; split; intros H.
    + left. congruence.
    + reflexivity.
    + right; left. split; congruence.
    + destruct H as [H|[[H1 H2]|[H1 H2]]]; congruence.
    + right; right. split; congruence.
    + destruct H as [H|[[H1 H2]|[H1 H2]]]; congruence.
    + left. congruence.
    + destruct H as [H|[[H1 H2]|[H1 H2]]]; congruence.
Qed.

Lemma mem_z_In x l : mem_z x l = true <-> In x l.
Proof.
  unfold mem_z. rewrite existsb_exists. split.
  - intros [y [I E]]. apply Z.eqb_eq in E. now subst.
  - intros I. exists x. split; auto. apply Z.eqb_refl.
Qed.

Lemma label_tab_spec ps : forall els, label_tab ps els = map (label ps) els.
Proof.
  induction ps as [|[a b] r IH]; intros els; cbn [label_tab label].
  - now rewrite map_id.
  - rewrite IH. cbn [map]. rewrite map_map. reflexivity.
Qed.

(** The executable closure decides the specification. *)
Theorem closure_b_spec ps x y : closure_b ps x y = true <-> closure ps x y.
Proof.
  unfold closure_b. rewrite label_tab_spec. cbn [map].
  rewrite !andb_true_iff, !mem_z_In, Z.eqb_eq, label_spec, closure_eqc. tauto.
Qed.

(** * Part 3: the sparse layer *)
Lemma NoDup_app_intro {A} (l l' : list A) :
  NoDup l -> NoDup l' -> (forall x, In x l -> ~ In x l') -> NoDup (l ++ l').
Proof.
  induction 1 as [|a l Na ND IH]; intros N' D; cbn; auto.
  constructor.
  - rewrite in_app_iff. intros [H|H]; [auto|]. apply (D a); cbn; auto.
  - apply IH; auto. intros x Hx. apply D. now right.
Qed.

Lemma NoDup_snoc {A} (l : list A) x : NoDup l -> ~ In x l -> NoDup (l ++ [x]).
Proof.
  intros ND N. apply NoDup_app_intro; auto.
  - constructor; [intros []|constructor].
  - intros y Hy [->|[]]. auto.
Qed.

Lemma index_of_Some x l : forall i, index_of x l = Some i -> i < length l /\ nth i l 0%Z = x.
Proof.
  induction l as [|y r IH]; intros i; cbn; [discriminate|].
  destruct (Z.eqb_spec x y) as [->|N].
  - intros E. inversion E; subst. split; [lia|auto].
  - destruct (index_of x r) as [j|]; [|discriminate]. intros E. inversion E; subst.
    destruct (IH j eq_refl). split; [lia|auto].
Qed.

Lemma index_of_None x l : index_of x l = None <-> ~ In x l.
Proof.
  induction l as [|y r IH]; cbn; [tauto|].
  destruct (Z.eqb_spec x y) as [->|N].
  - split; [discriminate|]. intros H. exfalso. auto.
  - destruct (index_of x r) as [j|].
    + split; [discriminate|]. intros H. exfalso. apply H. right. apply Decidable.not_not.
      * destruct (in_dec Z.eq_dec x r); [left|right]; auto.
      * intros G. apply IH in G. discriminate.
    + split; auto. intros _ [E|I]; [congruence|]. now apply IH.
Qed.

Lemma index_of_In x l : In x l <-> exists i, index_of x l = Some i.
Proof.
  split.
  - intros I. destruct (index_of x l) as [i|] eqn:E; eauto. apply index_of_None in E. tauto.
  - intros [i E]. destruct (in_dec Z.eq_dec x l) as [|N]; auto.
    apply index_of_None in N. congruence.
Qed.

Lemma index_of_app_l x l t i : index_of x l = Some i -> index_of x (l ++ t) = Some i.
Proof.
  revert i. induction l as [|y r IH]; intros i; cbn; [discriminate|].
  destruct (Z.eqb x y); auto.
  destruct (index_of x r) as [j|]; [|discriminate]. intros E. now rewrite (IH j eq_refl).
Qed.

Lemma index_of_app_new x l : ~ In x l -> index_of x (l ++ [x]) = Some (length l).
Proof.
  induction l as [|y r IH]; cbn; intros N.
  - now rewrite Z.eqb_refl.
  - destruct (Z.eqb_spec x y) as [->|Ne]; [tauto|]. rewrite IH; auto.
Qed.

Lemma index_of_app_other a x l : a <> x -> index_of a (l ++ [x]) = index_of a l.
Proof.
  intros N. induction l as [|y r IH]; cbn.
  - destruct (Z.eqb_spec a x); [congruence|auto].
  - destruct (Z.eqb a y); auto. now rewrite IH.
Qed.

Lemma index_of_nth l : NoDup l -> forall i, i < length l -> index_of (nth i l 0%Z) l = Some i.
Proof.
  induction 1 as [|y r Ny ND IH]; intros i Hi; cbn in Hi; [lia|].
  destruct i as [|i]; cbn.
  - now rewrite Z.eqb_refl.
  - destruct (Z.eqb_spec (nth i r 0%Z) y) as [E|_].
    + exfalso. apply Ny. rewrite <- E. apply nth_In. lia.
    + rewrite IH by lia. auto.
Qed.

Lemma range_count_gen (lo : Z) (N : nat) l :
  NoDup l -> (forall x, In x l -> (lo <= x < lo + Z.of_nat N)%Z) -> length l <= N.
Proof.
  intros ND F.
  assert (I : incl l (map (fun i => (lo + Z.of_nat i)%Z) (seq 0 N))).
  { intros x Hx. specialize (F x Hx).
    apply in_map_iff. exists (Z.to_nat (x - lo)). split; [lia|]. apply in_seq. lia. }
  pose proof (NoDup_incl_length ND I) as L. now rewrite map_length, seq_length in L.
Qed.

Lemma range_count l : NoDup l -> Forall in_range l -> (Z.of_nat (length l) <= 2 ^ 32)%Z.
Proof.
  intros ND F. change (2 ^ 32)%Z with 4294967296%Z.
  assert (E : exists N, Z.of_nat N = 4294967296%Z).
  { exists (Z.to_nat 4294967296). apply Z2Nat.id. discriminate. }
  destruct E as [N EN].
  assert (L : length l <= N).
  { apply (range_count_gen MIN_RAM_SIGNED); auto. intros x Hx.
    rewrite Forall_forall in F. specialize (F x Hx).
    unfold in_range, MIN_RAM_SIGNED, MAX_RAM_SIGNED in *. lia. }
  lia.
Qed.

Definition sinv (s : sds) : Prop :=
  minv2 (length (d2s s)) (fmem s) /\ NoDup (d2s s) /\ Forall in_range (d2s s).

(** the class of a sparse value: the root of its dense index *)
Definition cls (s : sds) (a : Z) : option nat :=
  match index_of a (d2s s) with Some i => Some (root (fmem s) i) | None => None end.
(** the relation stored in the structure, and its reflexive extension to all integers *)
Definition rel (s : sds) (a b : Z) : Prop := exists r, cls s a = Some r /\ cls s b = Some r.
Definition semR (s : sds) (a b : Z) : Prop := a = b \/ rel s a b.
(** same sparse/dense numbering and same partition (states that differ by path halving) *)
Definition seqv (s s' : sds) : Prop :=
  d2s s' = d2s s /\ forall a, root (fmem s') a = root (fmem s) a.

Lemma seqv_refl s : seqv s s.
Proof. split; auto. Qed.
Lemma seqv_trans s1 s2 s3 : seqv s1 s2 -> seqv s2 s3 -> seqv s1 s3.
Proof. intros [A B] [C D]. split; [congruence|]. intros a. now rewrite D, B. Qed.

Lemma cls_seqv s s' a : seqv s s' -> cls s' a = cls s a.
Proof. intros [A B]. unfold cls. rewrite A. destruct (index_of a (d2s s)); auto. Qed.
Lemma rel_seqv s s' a b : seqv s s' -> (rel s' a b <-> rel s a b).
Proof. intros E. unfold rel. now setoid_rewrite (cls_seqv s s' _ E). Qed.
Lemma semR_seqv s s' a b : seqv s s' -> (semR s' a b <-> semR s a b).
Proof. intros E. unfold semR. now rewrite (rel_seqv s s' a b E). Qed.

Lemma sinv_len s : sinv s -> length (fmem s) = length (d2s s).
Proof. intros [[[L _] _] _]. exact L. Qed.
Lemma sinv_bound s : sinv s -> (Z.of_nat (length (d2s s)) <= 2 ^ 32)%Z.
Proof. intros [_ [ND F]]. now apply range_count. Qed.
Lemma sinv_minv s : sinv s -> minv (length (d2s s)) (fmem s).
Proof. intros [[M _] _]. exact M. Qed.

Lemma cls_Some s a : (exists r, cls s a = Some r) <-> In a (d2s s).
Proof.
  rewrite index_of_In. unfold cls. split.
  - intros [r E]. destruct (index_of a (d2s s)); [eauto|discriminate].
  - intros [i E]. rewrite E. eauto.
Qed.

Lemma cls_lt s a r : sinv s -> cls s a = Some r -> r < length (d2s s).
Proof.
  intros I. unfold cls. destruct (index_of a (d2s s)) as [i|] eqn:E; [|discriminate].
  intros H. inversion H; subst. apply (root_lt _ _ _ (sinv_minv s I)).
  now apply index_of_Some in E.
Qed.

Lemma rel_refl s a : In a (d2s s) -> rel s a a.
Proof. intros I. apply cls_Some in I. destruct I as [r E]. exists r; auto. Qed.
Lemma rel_dom s a b : rel s a b -> In a (d2s s) /\ In b (d2s s).
Proof. intros [r [A B]]. split; apply cls_Some; eauto. Qed.
Lemma rel_semR s a b : rel s a b <-> In a (d2s s) /\ In b (d2s s) /\ semR s a b.
Proof.
  split.
  - intros H. destruct (rel_dom _ _ _ H). repeat split; auto. now right.
  - intros [A [B [->|H]]]; auto. now apply rel_refl.
Qed.

Lemma semR_equiv s :
  (forall a, semR s a a) /\ (forall a b, semR s a b -> semR s b a) /\
  (forall a b c, semR s a b -> semR s b c -> semR s a c).
Proof.
  unfold semR, rel. split; [|split].
  - auto.
  - intros a b [->|[r [A B]]]; eauto.
  - intros a b c [->|[r [A B]]] [->|[r' [C D]]]; eauto.
    right. exists r. split; auto. congruence.
Qed.

(** toDense *)
Lemma to_dense_spec s x s' i :
  sinv s -> in_range x -> to_dense s x = (s', i) ->
  sinv s' /\ index_of x (d2s s') = Some i /\
  (forall a, In a (d2s s') <-> In a (d2s s) \/ a = x) /\
  (forall a b, semR s' a b <-> semR s a b) /\
  (In x (d2s s) -> s' = s) /\
  (forall a k, index_of a (d2s s) = Some k -> index_of a (d2s s') = Some k).
Proof.
  intros I Rx. unfold to_dense. destruct (index_of x (d2s s)) as [j|] eqn:E.
  - intros H. inversion H; subst. split; [exact I|]. split; [exact E|].
    split; [|split; [tauto|auto]].
    intros a. split; [tauto|]. intros [G| ->]; auto. apply index_of_In. eauto.
  - intros H. inversion H; subst. clear H. cbn [d2s fmem].
    apply index_of_None in E.
    pose proof (sinv_len s I) as L. rewrite L.
    destruct I as [M2 [ND F]].
    assert (I' : sinv (mkSds (d2s s ++ [x]) (fmem s ++ [(length (d2s s), 0)]))).
    { split; [|split]; cbn [d2s fmem].
      - rewrite app_length. cbn [length]. rewrite Nat.add_1_r. rewrite <- L.
        apply minv2_snoc. rewrite L. exact M2.
      - apply NoDup_snoc; auto.
      - apply Forall_app. split; auto. }
    assert (C : forall a, cls (mkSds (d2s s ++ [x]) (fmem s ++ [(length (d2s s), 0)])) a =
                          if Z.eqb a x then Some (length (d2s s)) else cls s a).
    { intros a. unfold cls. cbn [d2s fmem]. destruct (Z.eqb_spec a x) as [->|N].
      - rewrite index_of_app_new by auto. f_equal. rewrite <- L.
        rewrite (root_snoc (length (d2s s))) by apply M2.
        apply root_of_root. unfold is_root. apply (minv_out (length (d2s s))); [apply M2|lia].
      - rewrite index_of_app_other by auto. destruct (index_of a (d2s s)); auto.
        f_equal. rewrite <- L. apply (root_snoc (length (d2s s))). apply M2. }
    assert (Lt : forall a r, cls s a = Some r -> r < length (d2s s) /\ a <> x).
    { intros a r H. split; [apply (cls_lt s a r); auto; split; [|split]; auto|].
      intros ->. apply E. apply cls_Some. eauto. }
    split; [exact I'|]. split; [now apply index_of_app_new|].
    split; [|split; [|split; [intros G; exfalso; exact (E G)|intros a k; apply index_of_app_l]]].
    { intros a. rewrite in_app_iff. cbn. intuition congruence. }
    intros a b. split.
    + intros [->|[r [A B]]]; [left; auto|]. rewrite !C in A, B.
      destruct (Z.eqb_spec a x) as [->|Na]; destruct (Z.eqb_spec b x) as [->|Nb].
      * left; auto.
      * inversion A; subst. destruct (Lt _ _ B). lia.
      * inversion B; subst. destruct (Lt _ _ A). lia.
      * right. exists r. auto.
    + intros [->|[r [A B]]]; [left; auto|]. right. exists r. rewrite !C.
      destruct (Lt _ _ A) as [_ Na]. destruct (Lt _ _ B) as [_ Nb].
      destruct (Z.eqb_spec a x); [congruence|]. destruct (Z.eqb_spec b x); [congruence|]. auto.
Qed.

Lemma minv2_pres n m m' :
  minv2 n m -> minv n m' -> (forall a, root m' a = root m a) -> (forall a, rank m' a = rank m a) ->
  minv2 n m'.
Proof.
  intros [M SZ] M' R K. split; auto. intros r Hr Rr.
  rewrite K, (csize_ext n m m') by exact R. apply SZ; auto.
  apply (is_root_iff n) in Rr; auto. apply (is_root_iff n); auto. now rewrite <- R.
Qed.

Lemma to_dense_existing s x : In x (d2s s) -> exists i, to_dense s x = (s, i) /\ index_of x (d2s s) = Some i.
Proof.
  intros I. apply index_of_In in I. destruct I as [i E]. exists i. unfold to_dense. now rewrite E.
Qed.

(** SparseDisjointSet::findNode on an existing element *)
Lemma sds_find_spec s x s' rep :
  sinv s -> In x (d2s s) -> sds_find s x = (s', rep) ->
  sinv s' /\ seqv s s' /\ exists r, cls s x = Some r /\ rep = to_sparse s r.
Proof.
  intros I Hx. unfold sds_find. destruct (to_dense_existing s x Hx) as [i [T E]]. rewrite T.
  pose proof (sinv_len s I) as L. destruct I as [M2 [ND F]].
  destruct (index_of_Some _ _ _ E) as [Hi _].
  destruct (ds_find_spec _ (fmem s) i (proj1 M2) Hi) as [M' [Er [R K]]].
  destruct (ds_find (fmem s) i) as [m r]. cbn [fst snd] in *.
  intros H. inversion H; subst. clear H.
  split; [|split].
  - split; [|split]; cbn [d2s fmem]; auto. apply (minv2_pres _ (fmem s)); auto.
  - split; cbn [d2s fmem]; auto.
  - exists (root (fmem s) i). unfold cls. rewrite E. split; auto.
Qed.

(** SparseDisjointSet::contains *)
Lemma sds_contains_spec s x y s' b :
  sinv s -> sds_contains s x y = (s', b) ->
  sinv s' /\ seqv s s' /\ (b = true <-> rel s x y).
Proof.
  intros I. unfold sds_contains, node_exists.
  destruct (index_of x (d2s s)) as [i|] eqn:Ex; cbn [andb];
    [destruct (index_of y (d2s s)) as [j|] eqn:Ey; cbn [andb]|].
  - unfold sds_same_set.
    assert (Hx : In x (d2s s)) by (apply index_of_In; eauto).
    assert (Hy : In y (d2s s)) by (apply index_of_In; eauto).
    destruct (to_dense_existing s y Hy) as [j' [Ty Ey']]. rewrite Ty.
    destruct (to_dense_existing s x Hx) as [i' [Tx Ex']]. rewrite Tx.
    assert (i' = i) by congruence. assert (j' = j) by congruence. subst i' j'.
    pose proof (sinv_len s I) as L. destruct I as [M2 [ND F]].
    destruct (index_of_Some _ _ _ Ex) as [Hi _]. destruct (index_of_Some _ _ _ Ey) as [Hj _].
    destruct (same_set_spec _ (fmem s) i j (proj1 M2) Hi Hj) as [M' [Eb [R K]]].
    destruct (same_set loop_fuel (fmem s) i j) as [m bb]. cbn [fst snd] in *.
    intros H. inversion H; subst. clear H.
    split; [|split].
    + split; [|split]; cbn [d2s fmem]; auto. apply (minv2_pres _ (fmem s)); auto.
    + split; cbn [d2s fmem]; auto.
    + unfold rel, cls. rewrite Ex, Ey. rewrite Nat.eqb_eq. split.
      * intros E. exists (root (fmem s) i). split; [reflexivity|now rewrite E].
      * intros [r [A B]]. congruence.
  - intros H. inversion H; subst. split; auto. split; [apply seqv_refl|].
    split; [discriminate|]. intros [r [_ B]]. unfold cls in B. now rewrite Ey in B.
  - intros H. inversion H; subst. split; auto. split; [apply seqv_refl|].
    split; [discriminate|]. intros [r [A _]]. unfold cls in A. now rewrite Ex in A.
Qed.

Lemma join3_iff (R R' : Z -> Z -> Prop) x y a b :
  (forall u v, R u v <-> R' u v) -> (join3 R x y a b <-> join3 R' x y a b).
Proof. intros H. unfold join3. now rewrite !H. Qed.

(** SparseDisjointSet::unionNodes: the stored relation becomes the join with (x, y). *)
Lemma sds_union_spec s x y :
  sinv s -> in_range x -> in_range y ->
  sinv (sds_union s x y) /\
  (forall a, In a (d2s (sds_union s x y)) <-> In a (d2s s) \/ a = x \/ a = y) /\
  (forall a b, semR (sds_union s x y) a b <-> join3 (semR s) x y a b).
Proof.
  intros I Rx Ry. unfold sds_union.
  destruct (to_dense s y) as [s1 j] eqn:T1.
  destruct (to_dense_spec s y s1 j I Ry T1) as [I1 [Ej [D1 [S1 [_ _]]]]].
  destruct (to_dense s1 x) as [s2 i] eqn:T2.
  destruct (to_dense_spec s1 x s2 i I1 Rx T2) as [I2 [Ei [D2 [S2 [_ Mo]]]]].
  apply Mo in Ej.
  pose proof (sinv_len s2 I2) as L. pose proof (sinv_bound s2 I2) as B.
  destruct (index_of_Some _ _ _ Ei) as [Hi _]. destruct (index_of_Some _ _ _ Ej) as [Hj _].
  destruct I2 as [M2 [ND F]].
  destruct (union_nodes_spec _ (fmem s2) i j M2 B Hi Hj) as [M' [w [l [WL R]]]].
  set (m' := union_nodes loop_fuel (fmem s2) i j) in *.
  set (rx := root (fmem s2) i) in *. set (ry := root (fmem s2) j) in *.
  assert (Cx : cls s2 x = Some rx) by (unfold cls; now rewrite Ei).
  assert (Cy : cls s2 y = Some ry) by (unfold cls; now rewrite Ej).
  set (phi := fun r => if r =? l then w else r).
  assert (C : forall a, cls (mkSds (d2s s2) m') a =
                        match cls s2 a with Some r => Some (phi r) | None => None end).
  { intros a. unfold cls. cbn [d2s fmem]. destruct (index_of a (d2s s2)); auto. now rewrite R. }
  assert (Pxy : phi rx = w /\ phi ry = w).
  { unfold phi. destruct WL as [[-> ->]|[-> ->]].
    - rewrite Nat.eqb_refl. destruct (rx =? ry) eqn:E; auto.
    - rewrite Nat.eqb_refl. destruct (ry =? rx) eqn:E; auto. }
  split; [|split].
  - split; [|split]; cbn [d2s fmem]; auto.
  - intros a. cbn [d2s]. rewrite D2, D1. tauto.
  - intros a b.
    rewrite <- (join3_iff (semR s2) (semR s) x y a b) by (intros; now rewrite S2, S1).
    unfold join3. split.
    + intros [->|[r [A Bb]]]; [left; left; auto|]. rewrite C in A, Bb.
      destruct (cls s2 a) as [ra|] eqn:Ca; [|discriminate].
      destruct (cls s2 b) as [rb|] eqn:Cb; [|discriminate].
      inversion A; inversion Bb; subst. clear A Bb. unfold phi in H1.
      assert (Rl : forall u v ru, cls s2 u = Some ru -> cls s2 v = Some ru -> semR s2 u v)
        by (intros u v ru U V; right; exists ru; auto).
      destruct (Nat.eqb_spec ra l) as [Ea|Ea]; destruct (Nat.eqb_spec rb l) as [Eb|Eb].
      * left. apply (Rl _ _ ra); congruence.
      * subst ra rb. destruct WL as [[-> ->]|[-> ->]].
        -- right; right. split; [apply (Rl _ _ ry)|apply (Rl _ _ rx)]; auto.
        -- right; left. split; [apply (Rl _ _ rx)|apply (Rl _ _ ry)]; auto.
      * subst ra rb. destruct WL as [[-> ->]|[-> ->]].
        -- right; left. split; [apply (Rl _ _ rx)|apply (Rl _ _ ry)]; auto.
        -- right; right. split; [apply (Rl _ _ ry)|apply (Rl _ _ rx)]; auto.
      * left. apply (Rl _ _ ra); congruence.
    + assert (Cl : forall u v rv, semR s2 u v -> cls s2 v = Some rv -> cls s2 u = Some rv).
      { intros u v rv [->|[r [A Bb]]] V; auto. congruence. }
      assert (Cr : forall u v ru, semR s2 u v -> cls s2 u = Some ru -> cls s2 v = Some ru).
      { intros u v rv [->|[r [A Bb]]] V; auto. congruence. }
      intros [[->|[r [A Bb]]]|[[H1 H2]|[H1 H2]]].
      * left; auto.
      * right. exists (phi r). rewrite !C, A, Bb. auto.
      * right. exists w. rewrite !C. rewrite (Cl _ _ _ H1 Cx), (Cr _ _ _ H2 Cy).
        destruct Pxy as [-> ->]. auto.
      * right. exists w. rewrite !C. rewrite (Cl _ _ _ H1 Cy), (Cr _ _ _ H2 Cx).
        destruct Pxy as [-> ->]. auto.
Qed.

(** * Part 4: the cached partition *)
Lemma map_nth_seq {A} (l : list A) d : map (fun i => nth i l d) (seq 0 (length l)) = l.
Proof.
  induction l as [|a l IH]; cbn [length seq map]; auto.
  f_equal. rewrite <- seq_shift, map_map. exact IH.
Qed.

Lemma NoDup_list_prod {A B} (l : list A) (l' : list B) :
  NoDup l -> NoDup l' -> NoDup (list_prod l l').
Proof.
  induction 1 as [|a l Na ND IH]; intros N'; cbn [list_prod]; [constructor|].
  apply NoDup_app_intro; auto.
  - apply FinFun.Injective_map_NoDup; auto. intros u v E. now inversion E.
  - intros [u v] H1 H2. apply in_map_iff in H1. destruct H1 as [w [E _]]. inversion E; subst.
    apply in_prod_iff in H2. tauto.
Qed.

Fixpoint sorted_keys (c : cache) : Prop :=
  match c with
  | [] => True
  | kl :: r => (forall k' l', In (k', l') r -> (fst kl < k')%Z) /\ sorted_keys r
  end.

Lemma cache_add_keys k0 v c k l :
  In (k, l) (cache_add k0 v c) -> k = k0 \/ exists l', In (k, l') c.
Proof.
  induction c as [|[k1 l1] r IH]; cbn [cache_add].
  - intros [E|[]]. inversion E; auto.
  - destruct (Z.ltb_spec k0 k1).
    + intros [E|I]; [inversion E; auto|]. right. eauto.
    + destruct (Z.eqb_spec k0 k1) as [->|N].
      * intros [E|I]; [inversion E; auto|]. right. exists l. now right.
      * intros [E|I]; [inversion E; subst; right; exists l; now left|].
        destruct (IH I) as [->|[l' I']]; auto. right. exists l'. now right.
Qed.

Lemma cache_add_sorted k0 v c : sorted_keys c -> sorted_keys (cache_add k0 v c).
Proof.
  induction c as [|[k1 l1] r IH]; cbn [cache_add sorted_keys].
  - intros _. split; auto. intros ? ? [].
  - intros [H S]. cbn [fst] in H. destruct (Z.ltb_spec k0 k1).
    + cbn [sorted_keys fst]. split; [|split; auto].
      intros k' l' [E|I]; [inversion E; subst; auto|]. specialize (H _ _ I). lia.
    + destruct (Z.eqb_spec k0 k1) as [->|N]; cbn [sorted_keys fst]; split; auto.
      intros k' l' I. destruct (cache_add_keys _ _ _ _ _ I) as [->|[l'' I']]; [lia|eauto].
Qed.

Lemma cache_find_none k c : sorted_keys c -> (forall k' l', In (k', l') c -> (k < k')%Z) -> cache_find k c = None.
Proof.
  induction c as [|[k1 l1] r IH]; cbn [cache_find sorted_keys]; auto.
  intros [_ S] H. destruct (Z.eqb_spec k k1) as [->|N].
  - specialize (H k1 l1 (or_introl eq_refl)). lia.
  - apply IH; auto. intros k' l' I. apply (H k' l'). now right.
Qed.

Lemma cache_find_add k k0 v c : sorted_keys c ->
  cache_find k (cache_add k0 v c) =
  if Z.eqb k k0 then Some (match cache_find k0 c with Some l => l ++ [v] | None => [v] end)
  else cache_find k c.
Proof.
  induction c as [|[k1 l1] r IH]; cbn [cache_add cache_find sorted_keys].
  - intros _. destruct (Z.eqb k k0); auto.
  - intros [H S]. cbn [fst] in H. destruct (Z.ltb_spec k0 k1) as [Lt|Ge].
    + cbn [cache_find]. destruct (Z.eqb_spec k k0) as [->|N]; auto.
      destruct (Z.eqb_spec k0 k1); [lia|].
      rewrite (cache_find_none k0 r); auto. intros k' l' I. specialize (H _ _ I). lia.
    + destruct (Z.eqb_spec k0 k1) as [->|N]; cbn [cache_find].
      * destruct (Z.eqb_spec k k1); auto.
      * rewrite IH by auto. destruct (Z.eqb_spec k k1) as [->|N1]; auto.
        destruct (Z.eqb_spec k1 k0); [congruence|auto].
Qed.

Lemma cache_find_In k l c : sorted_keys c -> (cache_find k c = Some l <-> In (k, l) c).
Proof.
  induction c as [|[k1 l1] r IH]; cbn [cache_find sorted_keys In].
  - intros _. split; [discriminate|tauto].
  - intros [H S]. cbn [fst] in H. destruct (Z.eqb_spec k k1) as [->|N].
    + split.
      * intros E. inversion E. auto.
      * intros [E|I]; [inversion E; auto|]. specialize (H _ _ I). lia.
    + rewrite IH by auto. split; auto. intros [E|I]; auto. inversion E. congruence.
Qed.

Section Cache.
Variable rep : Z -> Z.
Definition filt (vs : list Z) (k : Z) : list Z := filter (fun v => Z.eqb (rep v) k) vs.
Definition build (vs : list Z) (c : cache) : cache := fold_left (fun c v => cache_add (rep v) v c) vs c.

Lemma build_snoc vs v c : build (vs ++ [v]) c = cache_add (rep v) v (build vs c).
Proof. unfold build. now rewrite fold_left_app. Qed.

Lemma build_spec vs :
  sorted_keys (build vs []) /\
  forall k, cache_find k (build vs []) = match filt vs k with [] => None | l => Some l end.
Proof.
  induction vs as [|v vs IH] using rev_ind.
  - cbn. auto.
  - destruct IH as [S F]. rewrite build_snoc. split; [now apply cache_add_sorted|].
    intros k. rewrite cache_find_add by auto. unfold filt in *. rewrite filter_app. cbn [filter].
    destruct (Z.eqb_spec k (rep v)) as [->|N].
    + rewrite Z.eqb_refl. rewrite F. destruct (filter _ vs); auto.
    + rewrite F. destruct (Z.eqb_spec (rep v) k); [congruence|]. now rewrite app_nil_r.
Qed.

Lemma build_In vs k l : In (k, l) (build vs []) <-> l = filt vs k /\ l <> [].
Proof.
  destruct (build_spec vs) as [S F]. rewrite <- cache_find_In by auto. rewrite F.
  destruct (filt vs k) eqn:E; split.
  - discriminate.
  - intros [-> H]. congruence.
  - intros H. inversion H; subst. split; auto. discriminate.
  - intros [-> _]. auto.
Qed.

Lemma filt_In vs k v : In v (filt vs k) <-> In v vs /\ rep v = k.
Proof. unfold filt. rewrite filter_In, Z.eqb_eq. tauto. Qed.

Lemma build_members vs a b :
  In (a, b) (flat_map (fun kl => class_pairs (snd kl)) (build vs [])) <->
  In a vs /\ In b vs /\ rep a = rep b.
Proof.
  rewrite in_flat_map. split.
  - intros [[k l] [I P]]. cbn [snd] in P. apply in_prod_iff in P. apply build_In in I.
    destruct I as [-> _]. rewrite !filt_In in P. intuition congruence.
  - intros [A [B E]]. exists (rep a, filt vs (rep a)). split.
    + apply build_In. split; auto. intros N.
      assert (I : In a (filt vs (rep a))) by (apply filt_In; auto). rewrite N in I. destruct I.
    + cbn [snd]. apply in_prod_iff. rewrite !filt_In. auto.
Qed.

Lemma flat_pairs_NoDup (c : cache) :
  sorted_keys c -> (forall k l, In (k, l) c -> NoDup l /\ forall v, In v l -> rep v = k) ->
  NoDup (flat_map (fun kl => class_pairs (snd kl)) c).
Proof.
  induction c as [|[k l] r IH]; cbn [flat_map sorted_keys]; [constructor|].
  intros [H S] G. cbn [fst snd] in *.
  destruct (G k l (or_introl eq_refl)) as [Nl Rl].
  apply NoDup_app_intro.
  - now apply NoDup_list_prod.
  - apply IH; auto. intros k' l' I. apply G. now right.
  - intros [a b] P Q. apply in_prod_iff in P. apply in_flat_map in Q.
    destruct Q as [[k' l'] [I Q]]. cbn [snd] in Q. apply in_prod_iff in Q.
    destruct (G k' l' (or_intror I)) as [_ Rl']. specialize (H _ _ I).
    rewrite <- (Rl a), <- (Rl' a) in H; tauto || lia.
Qed.

Lemma build_good vs k l : NoDup vs -> In (k, l) (build vs []) -> NoDup l /\ forall v, In v l -> rep v = k.
Proof.
  intros ND I. apply build_In in I. destruct I as [-> _]. split.
  - now apply NoDup_filter.
  - intros v H. now apply filt_In in H.
Qed.

Lemma build_NoDup vs : NoDup vs -> NoDup (flat_map (fun kl => class_pairs (snd kl)) (build vs [])).
Proof.
  intros ND. apply flat_pairs_NoDup; [apply build_spec|]. intros k l. now apply build_good.
Qed.

(** the cached lists form a partition of [vs] *)
Lemma concat_classes_NoDup (c : cache) :
  sorted_keys c -> (forall k l, In (k, l) c -> NoDup l /\ forall v, In v l -> rep v = k) ->
  NoDup (concat (map snd c)).
Proof.
  induction c as [|[k l] r IH]; cbn [map concat sorted_keys]; [constructor|].
  intros [H S] G. cbn [fst snd] in *.
  destruct (G k l (or_introl eq_refl)) as [Nl Rl].
  apply NoDup_app_intro; auto.
  - apply IH; auto. intros k' l' I. apply G. now right.
  - intros a P Q. apply in_concat in Q. destruct Q as [l' [I Q]]. apply in_map_iff in I.
    destruct I as [[k' l''] [E I]]. cbn [snd] in E. subst l''.
    destruct (G k' l' (or_intror I)) as [_ Rl']. specialize (H _ _ I).
    rewrite <- (Rl a), <- (Rl' a) in H; tauto || lia.
Qed.

Lemma build_classes vs a b :
  (exists cl, In cl (map snd (build vs [])) /\ In a cl /\ In b cl) <->
  In a vs /\ In b vs /\ rep a = rep b.
Proof.
  rewrite <- build_members, in_flat_map. split.
  - intros [cl [I [A B]]]. apply in_map_iff in I. destruct I as [[k l] [E I]]. cbn [snd] in E. subst.
    exists (k, cl). split; auto. cbn [snd]. apply in_prod_iff. auto.
  - intros [[k l] [I P]]. cbn [snd] in P. apply in_prod_iff in P. exists l. split; [|tauto].
    apply in_map_iff. exists (k, l). auto.
Qed.
End Cache.

(** the representative (sparse value of the root) of an element, and the canonical cache *)
Definition rep_of (s : sds) (v : Z) : Z :=
  match cls s v with Some r => to_sparse s r | None => v end.
Definition cpart (s : sds) : cache := build (rep_of s) (d2s s) [].
Definition cache_ok (st : eqrel) : Prop := e_stale st = false -> e_cache st = cpart (e_sds st).

Lemma rep_of_seqv s s' v : seqv s s' -> rep_of s' v = rep_of s v.
Proof.
  intros E. unfold rep_of. rewrite (cls_seqv s s' v E). unfold to_sparse. now rewrite (proj1 E).
Qed.

Lemma build_ext (f g : Z -> Z) vs : (forall v, f v = g v) -> forall c, build f vs c = build g vs c.
Proof.
  intros H. induction vs as [|v vs IH]; intros c; cbn; auto. unfold build in IH. now rewrite H, IH.
Qed.

Lemma cpart_seqv s s' : seqv s s' -> cpart s' = cpart s.
Proof.
  intros E. unfold cpart. rewrite (proj1 E). apply build_ext. intros v. now apply rep_of_seqv.
Qed.

Lemma to_sparse_in s i : i < length (d2s s) -> In (to_sparse s i) (d2s s).
Proof. intros H. unfold to_sparse. now apply nth_In. Qed.

Lemma gen_loop_spec is : forall s c s' c',
  sinv s -> (forall i, In i is -> i < length (d2s s)) -> gen_loop is s c = (s', c') ->
  sinv s' /\ seqv s s' /\ c' = build (rep_of s) (map (to_sparse s) is) c.
Proof.
  induction is as [|i r IH]; intros s c s' c' I B; cbn [gen_loop map].
  - intros H. inversion H; subst. split; auto. split; [apply seqv_refl|reflexivity].
  - destruct (sds_find s (to_sparse s i)) as [s1 rp] eqn:F.
    assert (Hi : In (to_sparse s i) (d2s s)) by (apply to_sparse_in, B; now left).
    destruct (sds_find_spec s _ s1 rp I Hi F) as [I1 [E1 [rr [C ->]]]].
    intros H. apply IH in H; auto.
    + destruct H as [I' [E' ->]]. split; auto. split; [eapply seqv_trans; eauto|].
      cbn [build fold_left]. unfold build.
      assert (Rp : to_sparse s rr = rep_of s (to_sparse s i)) by (unfold rep_of; now rewrite C).
      rewrite Rp.
      replace (map (to_sparse s1) r) with (map (to_sparse s) r)
        by (apply map_ext; intros; unfold to_sparse; now rewrite (proj1 E1)).
      apply (build_ext (rep_of s1) (rep_of s)). intros v. now apply rep_of_seqv.
    + intros j Hj. rewrite (proj1 E1). apply B. now right.
Qed.

(** genAllDisjointSetLists *)
Lemma gen_spec st :
  sinv (e_sds st) -> cache_ok st ->
  sinv (e_sds (gen st)) /\ seqv (e_sds st) (e_sds (gen st)) /\
  e_stale (gen st) = false /\ e_cache (gen st) = cpart (e_sds st).
Proof.
  intros I C. unfold gen. destruct (e_stale st) eqn:St; cbn [negb].
  - destruct (gen_loop _ _ _) as [s' c] eqn:G.
    apply gen_loop_spec in G; auto.
    + destruct G as [I' [E ->]]. cbn [e_sds e_stale e_cache].
      split; [exact I'|]. split; [exact E|]. split; [reflexivity|].
      rewrite (sinv_len _ I). unfold cpart. f_equal. apply map_nth_seq.
    + intros i Hi. apply in_seq in Hi. rewrite (sinv_len _ I) in Hi. lia.
  - split; auto. split; [apply seqv_refl|]. split; auto.
Qed.

(** elements of the same stored class have the same representative, and conversely *)
Lemma rep_of_eq s a b : sinv s -> In a (d2s s) -> In b (d2s s) -> (rep_of s a = rep_of s b <-> rel s a b).
Proof.
  intros I A B. apply cls_Some in A. apply cls_Some in B. destruct A as [ra Ca]. destruct B as [rb Cb].
  unfold rep_of, rel. rewrite Ca, Cb. split.
  - intros E. exists ra. split; auto. f_equal.
    pose proof (cls_lt _ _ _ I Ca). pose proof (cls_lt _ _ _ I Cb).
    destruct I as [_ [ND _]]. unfold to_sparse in E.
    symmetry. apply (proj1 (NoDup_nth (d2s s) 0%Z) ND); auto.
  - intros [r [E1 E2]]. congruence.
Qed.

Lemma rep_of_in s a : sinv s -> In a (d2s s) -> In (rep_of s a) (d2s s) /\ rel s a (rep_of s a).
Proof.
  intros I A. apply cls_Some in A. destruct A as [ra Ca].
  pose proof (cls_lt _ _ _ I Ca) as Lt.
  unfold rep_of. rewrite Ca. split; [now apply to_sparse_in|].
  exists ra. split; auto. unfold cls, to_sparse.
  destruct I as [M2 [ND _]]. rewrite index_of_nth by auto. f_equal.
  unfold cls in Ca. destruct (index_of a (d2s s)); [|discriminate]. inversion Ca.
  apply (root_idem _ _ _ (proj1 M2)).
Qed.

(** * Part 5: EquivalenceRelation operations against the specification *)
Definition agree (s : sds) (ps : list (Z * Z)) : Prop :=
  (forall a, In a (d2s s) <-> In a (dom ps)) /\ (forall a b, semR s a b <-> eqc ps a b).
(** the representation invariant, relative to the list of pairs inserted so far *)
Definition good (st : eqrel) (ps : list (Z * Z)) : Prop :=
  sinv (e_sds st) /\ cache_ok st /\ agree (e_sds st) ps.

Lemma agree_seqv s s' ps : seqv s s' -> agree s ps -> agree s' ps.
Proof.
  intros E [D S]. split.
  - intros a. rewrite (proj1 E). apply D.
  - intros a b. rewrite (semR_seqv s s' a b E). apply S.
Qed.

Lemma agree_rel s ps a b : agree s ps -> (rel s a b <-> closure ps a b).
Proof. intros [D S]. rewrite rel_semR, closure_eqc, !D, S. tauto. Qed.

Lemma agree_ext s ps ps' :
  agree s ps -> (forall a, In a (dom ps) <-> In a (dom ps')) ->
  (forall a b, eqc ps a b <-> eqc ps' a b) -> agree s ps'.
Proof.
  intros [D S] D' E. split.
  - intros a. now rewrite D, D'.
  - intros a b. now rewrite S, E.
Qed.

Lemma good_seqv st s' ps :
  good st ps -> sinv s' -> seqv (e_sds st) s' -> good (mkEq s' (e_cache st) (e_stale st)) ps.
Proof.
  intros [I [C A]] I' E. split; [|split]; cbn [e_sds]; auto.
  - intros St. cbn [e_cache e_stale e_sds] in *. rewrite (cpart_seqv _ _ E). auto.
  - eapply agree_seqv; eauto.
Qed.

Lemma good_empty : good eq_empty [].
Proof.
  split; [|split].
  - split; [|split]; cbn.
    + split; [split; [reflexivity|intros x Hx; lia]|intros r Hr; lia].
    + constructor.
    + constructor.
  - intros _. reflexivity.
  - split; [cbn; tauto|]. intros a b. unfold semR, rel, cls. cbn. split.
    + intros [->|[r [H _]]]; [apply eqc_refl|discriminate].
    + intros H. left. now apply eqc_nil.
Qed.

Lemma good_range st ps a : good st ps -> In a (dom ps) -> in_range a.
Proof.
  intros [[_ [_ F]] [_ [D _]]] H. rewrite Forall_forall in F. apply F. now apply D.
Qed.

(** insert(x, y) *)
Lemma insert_good st ps x y :
  good st ps -> in_range x -> in_range y ->
  good (fst (insert st x y)) (ps ++ [(x, y)]) /\
  e_stale (fst (insert st x y)) = true /\
  (snd (insert st x y) = true <-> ~ closure ps x y).
Proof.
  intros [I [C A]] Rx Ry. unfold insert.
  destruct (sds_contains (e_sds st) x y) as [s1 b] eqn:E.
  destruct (sds_contains_spec _ _ _ _ _ I E) as [I1 [E1 Hb]].
  cbn [fst snd]. destruct (sds_union_spec s1 x y I1 Rx Ry) as [I2 [D2 S2]].
  split; [split; [|split]|split]; cbn [e_sds e_stale e_cache]; auto.
  - intros St. discriminate.
  - pose proof (agree_seqv _ _ _ E1 A) as [D S]. split.
    + intros a. rewrite D2, D, dom_app, in_app_iff. cbn. intuition congruence.
    + intros u v. rewrite S2, eqc_snoc. apply join3_iff. exact S.
  - rewrite <- (agree_rel _ _ x y A), <- Hb. destruct b; cbn; split; congruence.
Qed.

(** contains(x, y) *)
Lemma contains_good st ps x y :
  good st ps ->
  good (fst (contains st x y)) ps /\ (snd (contains st x y) = true <-> closure ps x y).
Proof.
  intros G. pose proof G as [I [C A]]. unfold contains.
  destruct (sds_contains (e_sds st) x y) as [s1 b] eqn:E.
  destruct (sds_contains_spec _ _ _ _ _ I E) as [I1 [E1 Hb]].
  cbn [fst snd]. split; [now apply good_seqv|]. now rewrite <- (agree_rel _ _ x y A).
Qed.

Lemma gen_good st ps :
  good st ps ->
  good (gen st) ps /\ e_stale (gen st) = false /\ e_cache (gen st) = cpart (e_sds (gen st)).
Proof.
  intros [I [C A]]. destruct (gen_spec st I C) as [I' [E [St Ca]]].
  rewrite <- (cpart_seqv _ _ E) in Ca.
  split; [split; [|split]|split]; auto.
  - intros _. exact Ca.
  - eapply agree_seqv; eauto.
Qed.

Lemma gen_idle st : e_stale st = false -> gen st = st.
Proof. intros H. unfold gen. now rewrite H. Qed.

(** A settled state: invariant, and the cache is current. *)
Definition settled (st : eqrel) (ps : list (Z * Z)) : Prop :=
  good st ps /\ e_stale st = false.

Lemma settled_cache st ps : settled st ps -> e_cache st = cpart (e_sds st).
Proof. intros [[_ [C _]] St]. auto. Qed.

Lemma gen_settled st ps : good st ps -> settled (gen st) ps.
Proof. intros G. destruct (gen_good st ps G) as [G' [St _]]. split; auto. Qed.

Definition all_pairs (c : cache) : list (Z * Z) := flat_map (fun kl => class_pairs (snd kl)) c.

Lemma settled_all_pairs st ps :
  settled st ps ->
  NoDup (all_pairs (e_cache st)) /\
  forall a b, In (a, b) (all_pairs (e_cache st)) <-> closure ps a b.
Proof.
  intros S. rewrite (settled_cache st ps S). destruct S as [[I [_ A]] _]. unfold cpart, all_pairs.
  split.
  - apply build_NoDup. apply I.
  - intros a b. rewrite build_members. rewrite <- (agree_rel _ _ a b A). split.
    + intros [Ha [Hb E]]. now apply rep_of_eq.
    + intros R. destruct (rel_dom _ _ _ R) as [Ha Hb]. repeat split; auto. now apply rep_of_eq.
Qed.

Lemma size_fold (c : cache) : forall acc,
  fold_left (fun acc kl => let s := N.of_nat (length (snd kl)) in (acc + s * s)%N) c acc =
  (acc + N.of_nat (length (all_pairs c)))%N.
Proof.
  induction c as [|[k l] r IH]; intros acc; cbn [fold_left all_pairs flat_map].
  - cbn. lia.
  - rewrite IH. fold (all_pairs r). rewrite app_length. unfold class_pairs. rewrite prod_length.
    cbn [snd]. lia.
Qed.

Definition sum_squares (cls : list (list Z)) : nat :=
  list_sum (map (fun cl => length cl * length cl) cls).

Lemma all_pairs_length c : length (all_pairs c) = sum_squares (map snd c).
Proof.
  unfold sum_squares. induction c as [|[k l] r IH]; cbn [all_pairs flat_map map list_sum]; auto.
  fold (all_pairs r). rewrite app_length, IH. unfold class_pairs. now rewrite prod_length.
Qed.

(** the classes held by a settled cache are the classes of the closure *)
Lemma settled_classes st ps :
  settled st ps ->
  let P := map snd (e_cache st) in
  NoDup (concat P) /\ (forall cl, In cl P -> cl <> []) /\
  (forall a b, closure ps a b <-> exists cl, In cl P /\ In a cl /\ In b cl).
Proof.
  intros S. cbn zeta. rewrite (settled_cache st ps S). destruct S as [[I [_ A]] _]. unfold cpart.
  split; [|split].
  - apply (concat_classes_NoDup (rep_of (e_sds st))); [apply build_spec|].
    intros k l. apply build_good. apply I.
  - intros cl H. apply in_map_iff in H. destruct H as [[k l] [E H]]. cbn [snd] in E. subst l.
    apply build_In in H. tauto.
  - intros a b. rewrite build_classes. rewrite <- (agree_rel _ _ a b A). split.
    + intros R. destruct (rel_dom _ _ _ R) as [Ha Hb]. repeat split; auto. now apply rep_of_eq.
    + intros [Ha [Hb E]]. now apply rep_of_eq.
Qed.

(** size(), begin()..end(), and the cached classes *)
Lemma size_good st ps :
  good st ps ->
  settled (fst (size st)) ps /\
  snd (size st) = N.of_nat (length (all_pairs (e_cache (fst (size st))))).
Proof.
  intros G. unfold size. cbn [fst snd]. split; [now apply gen_settled|].
  rewrite size_fold. lia.
Qed.

Lemma iter_all_good st ps :
  good st ps ->
  settled (fst (iter_all st)) ps /\ snd (iter_all st) = all_pairs (e_cache (fst (iter_all st))).
Proof. intros G. unfold iter_all. cbn [fst snd]. split; [now apply gen_settled|reflexivity]. Qed.

Lemma classes_good st ps :
  good st ps ->
  settled (fst (classes st)) ps /\ snd (classes st) = map snd (e_cache (fst (classes st))).
Proof. intros G. unfold classes. cbn [fst snd]. split; [now apply gen_settled|reflexivity]. Qed.

(** entries of a settled cache *)
Lemma settled_entry st ps k l :
  settled st ps -> In (k, l) (e_cache st) ->
  l = filt (rep_of (e_sds st)) (d2s (e_sds st)) k /\ l <> [] /\
  In k (d2s (e_sds st)) /\ rep_of (e_sds st) k = k /\
  cache_find k (e_cache st) = Some l.
Proof.
  intros S H. pose proof (settled_cache st ps S) as Ca. destruct S as [[I _] _].
  assert (Sk : sorted_keys (e_cache st)) by (rewrite Ca; apply build_spec).
  split; [|split; [|split; [|split]]].
  - rewrite Ca in H. now apply build_In in H.
  - rewrite Ca in H. now apply build_In in H.
  - rewrite Ca in H. apply build_In in H. destruct H as [-> N].
    destruct (filt _ _ k) as [|v t] eqn:F; [congruence|].
    assert (Hv : In v (filt (rep_of (e_sds st)) (d2s (e_sds st)) k)) by (rewrite F; now left).
    apply filt_In in Hv. destruct Hv as [Hv <-]. now apply rep_of_in.
  - rewrite Ca in H. apply build_In in H. destruct H as [-> N].
    destruct (filt _ _ k) as [|v t] eqn:F; [congruence|].
    assert (Hv : In v (filt (rep_of (e_sds st)) (d2s (e_sds st)) k)) by (rewrite F; now left).
    apply filt_In in Hv. destruct Hv as [Hv <-].
    destruct (rep_of_in _ _ I Hv) as [Hr R]. symmetry. apply rep_of_eq; auto.
  - now apply cache_find_In.
Qed.

Lemma settled_find st ps x :
  settled st ps -> In x (d2s (e_sds st)) ->
  exists l, In (rep_of (e_sds st) x, l) (e_cache st) /\ In x l.
Proof.
  intros S Hx. rewrite (settled_cache st ps S). unfold cpart.
  exists (filt (rep_of (e_sds st)) (d2s (e_sds st)) (rep_of (e_sds st) x)).
  assert (In x (filt (rep_of (e_sds st)) (d2s (e_sds st)) (rep_of (e_sds st) x)))
    by (apply filt_In; auto).
  split; auto. apply build_In. split; auto. intros N. rewrite N in H. destruct H.
Qed.

(** the three iterators that look a class up through sds.findNode *)
Lemma lookup_settled st ps x k l :
  settled st ps -> In (k, l) (e_cache st) -> In x l ->
  forall s2 rp, sds_find (e_sds (gen st)) x = (s2, rp) ->
  settled (mkEq s2 (e_cache (gen st)) (e_stale (gen st))) ps /\
  e_cache (gen st) = e_cache st /\ cache_find rp (e_cache (gen st)) = Some l.
Proof.
  intros S H Hx s2 rp F. rewrite (gen_idle st (proj2 S)) in *.
  destruct (settled_entry st ps k l S H) as [El [Nl [Hk [Rk Fk]]]].
  pose proof S as [[I GG] St].
  assert (Hx' : In x (d2s (e_sds st)) /\ rep_of (e_sds st) x = k)
    by (rewrite El in Hx; now apply filt_In in Hx).
  destruct Hx' as [Hx' Rx].
  destruct (sds_find_spec _ _ _ _ I Hx' F) as [I2 [E2 [r [C ->]]]].
  split; [|split]; auto.
  - split; [apply good_seqv; auto; apply S|exact St].
  - replace (to_sparse (e_sds st) r) with k; auto. rewrite <- Rx. unfold rep_of. now rewrite C.
Qed.

Lemma anterior_settled st ps x k l :
  settled st ps -> In (k, l) (e_cache st) -> In x l ->
  settled (fst (anterior_it st x)) ps /\ e_cache (fst (anterior_it st x)) = e_cache st /\
  snd (anterior_it st x) = Some (map (pair x) l).
Proof.
  intros S H Hx. unfold anterior_it.
  destruct (sds_find (e_sds (gen st)) x) as [s2 rp] eqn:F.
  destruct (lookup_settled st ps x k l S H Hx s2 rp F) as [S2 [Ca Fi]].
  cbn [fst snd]. rewrite Fi. auto.
Qed.

Lemma within_settled st ps k l :
  settled st ps -> In (k, l) (e_cache st) ->
  settled (fst (within_it st k)) ps /\ e_cache (fst (within_it st k)) = e_cache st /\
  snd (within_it st k) = Some (class_pairs l).
Proof.
  intros S H. unfold within_it.
  destruct (sds_find (e_sds (gen st)) k) as [s2 rp] eqn:F.
  assert (Hk : In k l).
  { destruct (settled_entry st ps k l S H) as [El [_ [Hk [Rk _]]]]. rewrite El. now apply filt_In. }
  destruct (lookup_settled st ps k k l S H Hk s2 rp F) as [S2 [Ca Fi]].
  cbn [fst snd]. rewrite Fi. auto.
Qed.

(** getBoundaries<1>: all pairs (x, _) *)
Lemma iter_anterior_good st ps x :
  good st ps ->
  good (fst (iter_anterior st x)) ps /\
  NoDup (snd (iter_anterior st x)) /\
  forall a b, In (a, b) (snd (iter_anterior st x)) <-> a = x /\ closure ps x b.
Proof.
  intros G. unfold iter_anterior, node_exists.
  destruct (index_of x (d2s (e_sds st))) as [i|] eqn:E; cbn [negb].
  - assert (Hx : In x (d2s (e_sds st))) by (apply index_of_In; eauto).
    assert (S1 : settled (gen st) ps) by now apply gen_settled.
    assert (Hx1 : In x (d2s (e_sds (gen st)))).
    { destruct G as [I [C _]]. destruct (gen_spec st I C) as [_ [Eq _]]. now rewrite (proj1 Eq). }
    destruct (settled_find _ _ x S1 Hx1) as [l [Hl Hxl]].
    assert (An : anterior_it (gen st) x = anterior_it st x).
    { unfold anterior_it. now rewrite (gen_idle (gen st) (proj2 S1)). }
    destruct (anterior_settled _ _ x _ l S1 Hl Hxl) as [S2 [Ca R]]. rewrite An in *.
    destruct (anterior_it st x) as [st2 o]. cbn [fst snd] in *. subst o. cbn [olist_pairs].
    split; [apply S2|]. split.
    + apply FinFun.Injective_map_NoDup; [intros u v Q; now inversion Q|].
      destruct (settled_entry _ _ _ _ S1 Hl) as [-> _]. apply NoDup_filter. apply S1.
    + intros a b. rewrite in_map_iff. destruct S1 as [[I1 [_ A1]] _].
      destruct (settled_entry (gen st) ps _ l (conj (conj I1 (conj (proj1 (proj2 (proj1 (gen_settled st ps G)))) A1)) (proj2 (gen_settled st ps G))) Hl) as [El _].
      rewrite <- (agree_rel _ _ x b A1). split.
      * intros [b' [Q Hb]]. inversion Q; subst a b'. split; auto.
        rewrite El in Hb. apply filt_In in Hb. destruct Hb as [Hb Rb].
        apply rep_of_eq; auto.
      * intros [-> R]. exists b. split; auto. rewrite El. apply filt_In.
        destruct (rel_dom _ _ _ R). split; auto. symmetry. apply rep_of_eq; auto.
  - split; auto. split; [constructor|]. intros a b. split; [intros []|].
    intros [_ C]. apply closure_dom in C. destruct C as [C _].
    destruct G as [_ [_ [D _]]]. apply D in C. apply index_of_In in C. destruct C. congruence.
Qed.

(** getBoundaries<2>: the pair (x, y) if it is there *)
Lemma iter_antpost_good st ps x y :
  good st ps ->
  good (fst (iter_antpost st x y)) ps /\
  (closure ps x y -> snd (iter_antpost st x y) = [(x, y)]) /\
  (~ closure ps x y -> snd (iter_antpost st x y) = []).
Proof.
  intros G. unfold iter_antpost.
  destruct (contains_good st ps x y G) as [G1 Hb].
  destruct (contains st x y) as [st1 b]. cbn [fst snd] in *.
  destruct b; cbn [negb].
  - assert (Cl : closure ps x y) by now apply Hb.
    destruct (closure_dom _ _ _ Cl) as [Dx Dy].
    pose proof G1 as [I1 [C1 A1]]. apply A1 in Dx. apply A1 in Dy.
    unfold antpost_it.
    assert (SC : sds_contains (e_sds st1) x y = sds_same_set (e_sds st1) x y).
    { unfold sds_contains, node_exists. apply index_of_In in Dx. apply index_of_In in Dy.
      destruct Dx as [? ->]. destruct Dy as [? ->]. reflexivity. }
    destruct (sds_same_set (e_sds st1) x y) as [s1 same] eqn:SS.
    destruct (sds_contains_spec _ _ _ _ _ I1 SC) as [I1' [E1 Hs]].
    assert (same = true) by (apply Hs; now apply (agree_rel _ _ x y A1)). subst same. cbn [negb].
    set (st1' := mkEq s1 (e_cache st1) (e_stale st1)).
    assert (G1' : good st1' ps) by (apply good_seqv; auto).
    assert (S2 : settled (gen st1') ps) by now apply gen_settled.
    assert (Dy2 : In y (d2s (e_sds (gen st1')))).
    { destruct S2 as [[_ [_ A2]] _]. apply A2. apply (closure_dom _ _ _ Cl). }
    destruct (settled_find _ _ y S2 Dy2) as [l [Hl Hyl]].
    destruct (sds_find (e_sds (gen st1')) y) as [s3 rp] eqn:F.
    assert (F' : sds_find (e_sds (gen (gen st1'))) y = (s3, rp))
      by (now rewrite (gen_idle (gen st1') (proj2 S2))).
    destruct (lookup_settled _ ps y _ l S2 Hl Hyl s3 rp F') as [S3 [Ca Fi]].
    rewrite (gen_idle (gen st1') (proj2 S2)) in S3, Fi.
    cbn [fst snd]. rewrite Fi. cbn [olist_pairs]. split; [apply S3|].
    split; [|tauto]. intros _. destruct l; [destruct Hyl|reflexivity].
  - cbn [fst snd]. split; auto. split; auto. intros Cl. apply Hb in Cl. discriminate.
Qed.

(** partition(chunks) *)
Lemma concat_map_pair (l l' : list Z) : concat (map (fun i => map (pair i) l') l) = list_prod l l'.
Proof. induction l as [|a l IH]; cbn; auto. now rewrite IH. Qed.

Lemma ranges_within_spec ps c : forall st,
  settled st ps -> incl c (e_cache st) ->
  settled (fst (ranges_within st c)) ps /\ e_cache (fst (ranges_within st c)) = e_cache st /\
  concat (snd (ranges_within st c)) = all_pairs c.
Proof.
  induction c as [|[k l] r IH]; intros st S In_; cbn [ranges_within].
  - cbn. auto.
  - destruct (within_settled st ps k l S (In_ _ (or_introl eq_refl))) as [S1 [C1 R1]].
    destruct (within_it st k) as [st1 o]. cbn [fst snd] in *. subst o.
    assert (In1 : incl r (e_cache st1)) by (rewrite C1; intros z Hz; apply In_; now right).
    destruct (IH st1 S1 In1) as [S2 [C2 R2]].
    destruct (ranges_within st1 r) as [st2 rest]. cbn [fst snd] in *.
    split; auto. split; [congruence|]. cbn [olist_pairs concat all_pairs flat_map snd].
    now rewrite R2.
Qed.

Lemma ranges_anterior_spec ps k l l' : forall st,
  settled st ps -> In (k, l) (e_cache st) -> incl l' l ->
  settled (fst (ranges_anterior st l')) ps /\ e_cache (fst (ranges_anterior st l')) = e_cache st /\
  snd (ranges_anterior st l') = map (fun i => map (pair i) l) l'.
Proof.
  induction l' as [|i r IH]; intros st S H In_; cbn [ranges_anterior].
  - cbn. auto.
  - destruct (anterior_settled st ps i k l S H (In_ _ (or_introl eq_refl))) as [S1 [C1 R1]].
    destruct (anterior_it st i) as [st1 o]. cbn [fst snd] in *. subst o.
    assert (H1 : In (k, l) (e_cache st1)) by now rewrite C1.
    assert (In1 : incl r l) by (intros z Hz; apply In_; now right).
    destruct (IH st1 S1 H1 In1) as [S2 [C2 R2]].
    destruct (ranges_anterior st1 r) as [st2 rest]. cbn [fst snd] in *.
    split; auto. split; [congruence|]. cbn [olist_pairs map]. now rewrite R2.
Qed.

Lemma ranges_mixed_spec ps perchunk c : forall st,
  settled st ps -> incl c (e_cache st) ->
  settled (fst (ranges_mixed st perchunk c)) ps /\
  e_cache (fst (ranges_mixed st perchunk c)) = e_cache st /\
  concat (snd (ranges_mixed st perchunk c)) = all_pairs c.
Proof.
  induction c as [|[k l] r IH]; intros st S In_; cbn [ranges_mixed].
  - cbn. auto.
  - destruct (N.ltb perchunk _).
    + destruct (ranges_anterior_spec ps k l l st S (In_ _ (or_introl eq_refl)) (incl_refl l))
        as [S1 [C1 R1]].
      destruct (ranges_anterior st l) as [st1 a]. cbn [fst snd] in *. subst a.
      assert (In1 : incl r (e_cache st1)) by (rewrite C1; intros z Hz; apply In_; now right).
      destruct (IH st1 S1 In1) as [S2 [C2 R2]].
      destruct (ranges_mixed st1 perchunk r) as [st2 rest]. cbn [fst snd] in *.
      split; auto. split; [congruence|]. rewrite concat_app, R2, concat_map_pair. reflexivity.
    + destruct (within_settled st ps k l S (In_ _ (or_introl eq_refl))) as [S1 [C1 R1]].
      destruct (within_it st k) as [st1 o]. cbn [fst snd] in *. subst o.
      assert (In1 : incl r (e_cache st1)) by (rewrite C1; intros z Hz; apply In_; now right).
      destruct (IH st1 S1 In1) as [S2 [C2 R2]].
      destruct (ranges_mixed st1 perchunk r) as [st2 rest]. cbn [fst snd] in *.
      split; auto. split; [congruence|]. cbn [olist_pairs concat all_pairs flat_map snd].
      now rewrite R2.
Qed.

Lemma partition_good st ps chunks :
  good st ps ->
  settled (fst (partition st chunks)) ps /\
  concat (snd (partition st chunks)) = all_pairs (e_cache (fst (partition st chunks))).
Proof.
  intros G. unfold partition.
  assert (S0 : settled (gen st) ps) by now apply gen_settled.
  destruct (size_good (gen st) ps (proj1 S0)) as [S1 Z1].
  destruct (size (gen st)) as [st1 numPairs]. cbn [fst snd] in *.
  destruct (N.eqb_spec numPairs 0) as [E0|N0].
  - cbn [fst snd]. split; auto. cbn [concat].
    destruct (all_pairs (e_cache st1)); auto. cbn [length] in Z1. lia.
  - destruct (N.eqb numPairs 1 || N.leb chunks 1).
    + destruct (iter_all_good st1 ps (proj1 S1)) as [S2 R2].
      destruct (iter_all st1) as [st2 l]. cbn [fst snd] in *. split; auto. cbn [concat].
      now rewrite app_nil_r.
    + destruct (N.leb chunks _).
      * destruct (ranges_within_spec ps (e_cache st1) st1 S1 (incl_refl _)) as [S2 [C2 R2]].
        split; auto. now rewrite C2.
      * destruct (ranges_mixed_spec ps (numPairs / chunks)%N (e_cache st1) st1 S1 (incl_refl _))
          as [S2 [C2 R2]].
        split; auto. now rewrite C2.
Qed.

(** lower_bound only dispatches to the iterators above *)
Lemma lower_bound_good st ps x y : good st ps -> good (fst (lower_bound st x y)) ps.
Proof.
  intros G. unfold lower_bound.
  destruct (_ && _); [apply (iter_all_good st ps G)|].
  destruct (_ && _); [apply (iter_anterior_good st ps x G)|].
  destruct (_ && _); [apply (iter_antpost_good st ps x y G)|auto].
Qed.

(** * Part 6: insertAll and extendAndInsert *)
Lemma sds_union_agree s ps x y :
  sinv s -> agree s ps -> in_range x -> in_range y ->
  sinv (sds_union s x y) /\ agree (sds_union s x y) (ps ++ [(x, y)]).
Proof.
  intros I [D S] Rx Ry. destruct (sds_union_spec s x y I Rx Ry) as [I2 [D2 S2]].
  split; auto. split.
  - intros a. rewrite D2, D, dom_app, in_app_iff. cbn. intuition congruence.
  - intros u v. rewrite S2, eqc_snoc. apply join3_iff. exact S.
Qed.

Lemma union_all_spec L : forall s ps,
  sinv s -> agree s ps -> (forall p, In p L -> in_range (fst p) /\ in_range (snd p)) ->
  sinv (union_all s L) /\ agree (union_all s L) (ps ++ L).
Proof.
  induction L as [|[x y] L IH]; intros s ps I A R; cbn [union_all fold_left].
  - rewrite app_nil_r. auto.
  - destruct (R (x, y) (or_introl eq_refl)) as [Rx Ry]. cbn [fst snd] in *.
    destruct (sds_union_agree s ps x y I A Rx Ry) as [I1 A1].
    replace (ps ++ (x, y) :: L) with ((ps ++ [(x, y)]) ++ L) by (now rewrite <- app_assoc).
    apply IH; auto. intros p Hp. apply R. now right.
Qed.

(** A list of pairs (element, its representative) in either orientation, covering every stored
    element, generates exactly the stored relation. *)
Lemma rep_pairs_eqc s ps L :
  sinv s -> agree s ps ->
  (forall u v, In (u, v) L -> rel s u v) ->
  (forall v, In v (d2s s) -> In (rep_of s v, v) L \/ In (v, rep_of s v) L) ->
  (forall a, In a (dom L) <-> In a (dom ps)) /\ (forall a b, eqc L a b <-> eqc ps a b).
Proof.
  intros I [D S] H1 H2. split.
  - intros a. rewrite <- D, in_dom. split.
    + intros [b [Hb|Hb]]; apply H1, rel_dom in Hb; tauto.
    + intros Ha. destruct (H2 a Ha); eauto.
  - intros a b. rewrite <- S. destruct (semR_equiv s) as [Sr [Ss St]]. split.
    + revert a b. apply (eqc_least L (semR s)); [exact Sr | exact Ss | exact St |].
      intros x y Hxy. right. now apply H1.
    + intros [->|R]; [apply eqc_refl|].
      destruct (rel_dom _ _ _ R) as [Ha Hb].
      assert (E : rep_of s a = rep_of s b) by now apply rep_of_eq.
      assert (Ka : eqc L a (rep_of s a)).
      { destruct (H2 a Ha); [apply eqc_sym|]; now apply eqc_base. }
      assert (Kb : eqc L (rep_of s b) b).
      { destruct (H2 b Hb); [|apply eqc_sym]; now apply eqc_base. }
      rewrite E in Ka. eapply eqc_trans; eauto.
Qed.

Lemma in_cache_pairs c k v : In (k, v) (cache_pairs c) <-> exists l, In (k, l) c /\ In v l.
Proof.
  unfold cache_pairs. rewrite in_flat_map. split.
  - intros [[k' l] [H P]]. cbn [fst snd] in P. apply in_map_iff in P. destruct P as [w [E P]].
    inversion E; subst. eauto.
  - intros [l [H P]]. exists (k, l). split; auto. cbn [fst snd]. apply in_map_iff. eauto.
Qed.

Lemma sinv_range s a : sinv s -> In a (d2s s) -> in_range a.
Proof. intros [_ [_ F]] H. rewrite Forall_forall in F. auto. Qed.

Lemma settled_cache_pairs st ps :
  settled st ps ->
  let L := cache_pairs (e_cache st) in
  (forall a, In a (dom L) <-> In a (dom ps)) /\ (forall a b, eqc L a b <-> eqc ps a b) /\
  (forall p, In p L -> in_range (fst p) /\ in_range (snd p)).
Proof.
  intros S. cbn zeta. pose proof S as [[I [_ A]] _].
  assert (K : forall k v, In (k, v) (cache_pairs (e_cache st)) <->
                          In v (d2s (e_sds st)) /\ rep_of (e_sds st) v = k).
  { intros k v. rewrite in_cache_pairs. split.
    - intros [l [H P]]. destruct (settled_entry st ps k l S H) as [-> _]. now apply filt_In in P.
    - intros [Hv <-]. destruct (settled_find st ps v S Hv) as [l [H P]]. eauto. }
  assert (R1 : forall u v, In (u, v) (cache_pairs (e_cache st)) -> rel (e_sds st) u v).
  { intros u v H. apply K in H. destruct H as [Hv <-].
    destruct (rep_of_in _ _ I Hv) as [_ [r [X Y]]]. exists r. auto. }
  destruct (rep_pairs_eqc (e_sds st) ps _ I A R1) as [D E].
  { intros v Hv. left. apply K. auto. }
  split; auto. split; auto.
  intros [u v] H. apply R1 in H. destruct (rel_dom _ _ _ H). cbn [fst snd].
  split; eapply sinv_range; eauto.
Qed.

(** this.insertAll(other) *)
Lemma insert_all_good this other pa pb :
  good this pa -> good other pb ->
  good (fst (insert_all this other)) (pa ++ pb) /\
  e_stale (fst (insert_all this other)) = true /\
  settled (snd (insert_all this other)) pb.
Proof.
  intros [I [C A]] Go. unfold insert_all. cbn [fst snd].
  assert (So : settled (gen other) pb) by now apply gen_settled.
  destruct (settled_cache_pairs _ _ So) as [D [E R]].
  destruct (union_all_spec _ _ _ I A R) as [I' A'].
  split; [|split]; auto.
  split; [|split]; cbn [e_sds e_cache e_stale]; auto.
  - intros St. discriminate.
  - apply (agree_ext _ _ _ A').
    + intros a. rewrite !dom_app, !in_app_iff, D. tauto.
    + intros a b. now apply eqc_app_congr.
Qed.

Lemma insert_sorted_In x y l : In x (insert_sorted y l) <-> x = y \/ In x l.
Proof.
  induction l as [|z l IH]; cbn [insert_sorted].
  - cbn. intuition congruence.
  - destruct (Z.leb y z); cbn [In]; [intuition congruence|]. rewrite IH. intuition congruence.
Qed.

Lemma sort_z_In x l : In x (sort_z l) <-> In x l.
Proof.
  induction l as [|z l IH]; cbn [sort_z fold_right]; [tauto|].
  fold (sort_z l). rewrite insert_sorted_In, IH. cbn. intuition congruence.
Qed.

Lemma dedup_In x l : In x (dedup l) <-> In x l.
Proof.
  induction l as [|z l IH]; cbn [dedup]; [tauto|].
  destruct (mem_z z l) eqn:E.
  - rewrite IH. cbn. split; auto. intros [->|H]; auto. now apply mem_z_In.
  - cbn. rewrite IH. tauto.
Qed.

Lemma elements_In x ps : In x (elements ps) <-> In x (dom ps).
Proof. apply dedup_In. Qed.

Lemma node_exists_In s x : node_exists s x = true <-> In x (d2s s).
Proof.
  unfold node_exists. rewrite index_of_In. destruct (index_of x (d2s s)) as [i|].
  - split; eauto.
  - split; [discriminate|]. intros [i E]. discriminate.
Qed.

Lemma sds_find_rep s x s' rep :
  sinv s -> In x (d2s s) -> sds_find s x = (s', rep) ->
  sinv s' /\ seqv s s' /\ rep = rep_of s x.
Proof.
  intros I Hx F. destruct (sds_find_spec s x s' rep I Hx F) as [I' [E [r [C ->]]]].
  split; auto. split; auto. unfold rep_of. now rewrite C.
Qed.

(** first loop of extendAndInsert *)
Lemma ext_collect_spec els : forall this other cov ti this' other' cov' ti',
  sinv this -> sinv other -> incl els (d2s this) ->
  ext_collect els this other cov ti = (this', other', cov', ti') ->
  sinv this' /\ seqv this this' /\ sinv other' /\ seqv other other' /\
  (forall k, In k cov' <->
             In k cov \/ exists el, In el els /\ In el (d2s other) /\ rep_of other el = k) /\
  ti' = ti ++ map (fun el => (el, rep_of this el)) els.
Proof.
  induction els as [|el r IH]; intros this other cov ti this' other' cov' ti' It Io In_;
    cbn [ext_collect].
  - intros H. inversion H; subst. split; auto. split; [apply seqv_refl|]. split; auto.
    split; [apply seqv_refl|]. split; [|now rewrite app_nil_r].
    intros k. split; auto. intros [H1|[el [[] _]]]; auto.
  - assert (Hel : In el (d2s this)) by (apply In_; now left).
    assert (K : exists other1 cov1,
       (if node_exists other el
        then let (o1, rep) := sds_find other el in
             (o1, if mem_z rep cov then cov else rep :: cov)
        else (other, cov)) = (other1, cov1) /\
       sinv other1 /\ seqv other other1 /\
       (forall k, In k cov1 <-> In k cov \/ (In el (d2s other) /\ rep_of other el = k))).
    { destruct (node_exists other el) eqn:NE.
      - apply node_exists_In in NE. destruct (sds_find other el) as [o1 rep] eqn:F.
        destruct (sds_find_rep _ _ _ _ Io NE F) as [I1 [E1 ->]].
        eexists _, _. split; [reflexivity|]. split; auto. split; auto.
        intros k. destruct (mem_z (rep_of other el) cov) eqn:M.
        + apply mem_z_In in M. split; auto. intros [H|[_ <-]]; auto.
        + cbn [In]. intuition congruence.
      - exists other, cov. split; auto. split; auto. split; [apply seqv_refl|].
        intros k. split; auto. intros [H|[H _]]; auto. apply node_exists_In in H. congruence. }
    destruct K as [other1 [cov1 [-> [I1 [E1 C1]]]]].
    destruct (sds_find this el) as [this1 rep'] eqn:F.
    destruct (sds_find_rep _ _ _ _ It Hel F) as [It1 [Et1 ->]].
    intros H. apply IH in H; auto.
    + destruct H as [A [B [C [D [E ->]]]]]. split; auto.
      split; [eapply seqv_trans; eauto|]. split; auto. split; [eapply seqv_trans; eauto|].
      split.
      * intros k. rewrite E, C1. rewrite (proj1 E1).
        split.
        -- intros [[H|H]|[e [H1 [H2 H3]]]]; auto.
           ++ right. exists el. split; [now left|tauto].
           ++ right. exists e. split; [now right|]. split; auto.
              now rewrite <- (rep_of_seqv other other1 e E1).
        -- intros [H|[e [[<-|H1] [H2 H3]]]]; auto.
           right. exists e. split; auto. split; auto. now rewrite (rep_of_seqv other other1 e E1).
      * rewrite <- app_assoc. cbn [map app]. do 2 f_equal.
        apply map_ext. intros e. now rewrite (rep_of_seqv this this1 e Et1).
    + intros z Hz. rewrite (proj1 Et1). apply In_. now right.
Qed.

(** second loop *)
Lemma ext_extend_spec covered els : forall this other ps this' other',
  good this ps -> sinv other -> incl els (d2s other) ->
  ext_extend els this other covered = (this', other') ->
  good this' (ps ++ map (fun el => (el, rep_of other el))
                      (filter (fun el => mem_z (rep_of other el) covered) els)) /\
  sinv other' /\ seqv other other'.
Proof.
  induction els as [|el r IH]; intros this other ps this' other' G Io In_; cbn [ext_extend].
  - intros H. inversion H; subst. cbn. rewrite app_nil_r. split; auto. split; auto. apply seqv_refl.
  - assert (Hel : In el (d2s other)) by (apply In_; now left).
    destruct (sds_find other el) as [o1 rep] eqn:F.
    destruct (sds_find_rep _ _ _ _ Io Hel F) as [I1 [E1 ->]].
    set (this1 := if mem_z (rep_of other el) covered then fst (insert this el (rep_of other el)) else this).
    set (ps1 := if mem_z (rep_of other el) covered then ps ++ [(el, rep_of other el)] else ps).
    assert (G1 : good this1 ps1).
    { unfold this1, ps1. destruct (mem_z (rep_of other el) covered); auto.
      apply insert_good; auto.
      - apply (sinv_range other); auto.
      - apply (sinv_range other); auto. now apply rep_of_in. }
    intros H. apply IH with (ps := ps1) in H; auto.
    + destruct H as [A [B C]]. split; [|split; [auto|eapply seqv_trans; eauto]].
      cbn [filter].
      replace (filter (fun e => mem_z (rep_of other e) covered) r)
        with (filter (fun e => mem_z (rep_of o1 e) covered) r)
        by (apply filter_ext; intros e; now rewrite (rep_of_seqv other o1 e E1)).
      assert (ME : forall l0, map (fun e => (e, rep_of o1 e)) l0 = map (fun e => (e, rep_of other e)) l0).
      { intros l0. apply map_ext. intros e. now rewrite (rep_of_seqv other o1 e E1). }
      rewrite ME in A.
      unfold ps1 in A. destruct (mem_z (rep_of other el) covered); auto.
      cbn [map]. rewrite <- app_assoc in A. exact A.
    + intros z Hz. rewrite (proj1 E1). apply In_. now right.
Qed.

Lemma insert_list_good L : forall st ps,
  good st ps -> (forall p, In p L -> in_range (fst p) /\ in_range (snd p)) ->
  good (insert_list st L) (ps ++ L).
Proof.
  induction L as [|[x y] L IH]; intros st ps G R; cbn [insert_list fold_left].
  - now rewrite app_nil_r.
  - destruct (R (x, y) (or_introl eq_refl)) as [Rx Ry]. cbn [fst snd] in *.
    destruct (insert_good st ps x y G Rx Ry) as [G1 _].
    replace (ps ++ (x, y) :: L) with ((ps ++ [(x, y)]) ++ L) by (now rewrite <- app_assoc).
    apply IH; auto. intros p Hp. apply R. now right.
Qed.

(** ** The specification of extendAndInsert on lists of pairs *)
(** [Cov pa pb e]: the class of e in (the closure of) pb has an element that pa mentions. *)
Definition Cov (pa pb : list (Z * Z)) (e : Z) : Prop := exists c, In c (dom pa) /\ closure pb e c.
Definition QC (pa pb : list (Z * Z)) (a b : Z) : Prop := a = b \/ (closure pb a b /\ Cov pa pb a).

Lemma touches_spec pa pb p : touches pa pb p = true <-> Cov pa pb (fst p).
Proof.
  unfold touches, Cov. rewrite existsb_exists. split.
  - intros [e [H C]]. exists e. rewrite <- elements_In, <- closure_b_spec. auto.
  - intros [e [H C]]. exists e. rewrite elements_In, closure_b_spec. auto.
Qed.

Lemma Cov_closure pa pb a b : closure pb a b -> Cov pa pb a -> Cov pa pb b.
Proof. intros C [c [H K]]. exists c. split; auto. eapply ecl_trans; [apply ecl_sym|]; eauto. Qed.

Lemma QC_equiv pa pb :
  (forall a, QC pa pb a a) /\ (forall a b, QC pa pb a b -> QC pa pb b a) /\
  (forall a b c, QC pa pb a b -> QC pa pb b c -> QC pa pb a c).
Proof.
  unfold QC. split; [|split].
  - auto.
  - intros a b [->|[C K]]; auto. right. split; [now apply ecl_sym|]. eapply Cov_closure; eauto.
  - intros a b c [->|[C K]] [->|[C' K']]; auto. right. split; auto. eapply ecl_trans; eauto.
Qed.

Lemma eqc_filter_touches pa pb a b : eqc (filter (touches pa pb) pb) a b <-> QC pa pb a b.
Proof.
  destruct (QC_equiv pa pb) as [Qr [Qs Qt]]. split.
  - revert a b. apply (eqc_least _ (QC pa pb)); auto.
    intros x y H. apply filter_In in H. destruct H as [H T]. apply touches_spec in T.
    right. split; auto. now apply ecl_base.
  - intros [->|[C K]]; [apply eqc_refl|].
    apply closure_eqc in C. destruct C as [_ [_ C]].
    set (F := filter (touches pa pb) pb).
    assert (G : (Cov pa pb a -> Cov pa pb b /\ eqc F a b) /\ (Cov pa pb b -> Cov pa pb a /\ eqc F a b)).
    { clear K. revert a b C.
      apply (eqc_least pb (fun a b => (Cov pa pb a -> Cov pa pb b /\ eqc F a b) /\
                                      (Cov pa pb b -> Cov pa pb a /\ eqc F a b))).
      - intros x. split; intros H; split; auto; apply eqc_refl.
      - intros x y [H1 H2]. split; intros H.
        + destruct (H2 H). split; auto. now apply eqc_sym.
        + destruct (H1 H). split; auto. now apply eqc_sym.
      - intros x y z [H1 H2] [H3 H4]. split; intros H.
        + destruct (H1 H) as [Ky E1]. destruct (H3 Ky) as [Kz E2]. split; auto.
          eapply eqc_trans; eauto.
        + destruct (H4 H) as [Ky E1]. destruct (H2 Ky) as [Kx E2]. split; auto.
          eapply eqc_trans; eauto.
      - intros x y H. assert (Cxy : closure pb x y) by now apply ecl_base.
        assert (E : Cov pa pb x -> eqc F x y).
        { intros Kx. apply eqc_base. unfold F. apply filter_In. split; auto.
          now apply touches_spec. }
        split; intros Kx.
        + split; [eapply Cov_closure; eauto|auto].
        + assert (Cov pa pb x) by (eapply Cov_closure; [apply ecl_sym|]; eauto). auto. }
    destruct G as [G1 _]. destruct (G1 K) as [_ E]. exact E.
Qed.

Lemma dom_filter_touches pa pb a :
  In a (dom (filter (touches pa pb) pb)) <-> In a (dom pb) /\ Cov pa pb a.
Proof.
  rewrite !in_dom. split.
  - intros [b [H|H]]; apply filter_In in H; destruct H as [H T]; apply touches_spec in T; cbn [fst] in T.
    + split; eauto.
    + split; eauto. eapply Cov_closure; [|exact T]. now apply ecl_base.
  - intros [[b [H|H]] K].
    + exists b. left. apply filter_In. split; auto. now apply touches_spec.
    + exists b. right. apply filter_In. split; auto. apply touches_spec. cbn [fst].
      eapply Cov_closure; [|exact K]. apply ecl_sym. now apply ecl_base.
Qed.

(** the pairs (el, rep) inserted by the second loop generate the same relation *)
Lemma covered_pairs_eqc os pa pb L :
  sinv os -> agree os pb ->
  (forall u v, In (u, v) L <-> In u (d2s os) /\ Cov pa pb u /\ v = rep_of os u) ->
  (forall a, In a (dom L) <-> In a (dom pb) /\ Cov pa pb a) /\
  (forall a b, eqc L a b <-> QC pa pb a b).
Proof.
  intros I A HL. pose proof A as [D S].
  assert (Rp : forall u, In u (d2s os) -> closure pb u (rep_of os u)).
  { intros u Hu. apply (agree_rel _ _ _ _ A). now apply rep_of_in. }
  split.
  - intros a. rewrite in_dom. split.
    + intros [b [H|H]]; apply HL in H; destruct H as [Hu [K ->]].
      * split; auto. now apply D.
      * pose proof (Rp _ Hu) as C. split; [apply (closure_dom _ _ _ C)|].
        eapply Cov_closure; eauto.
    + intros [Ha K]. exists (rep_of os a). left. apply HL. split; auto. now apply D.
  - intros a b. destruct (QC_equiv pa pb) as [Qr [Qs Qt]]. split.
    + revert a b. apply (eqc_least _ (QC pa pb)); auto.
      intros x y H. apply HL in H. destruct H as [Hu [K ->]]. right. split; auto.
    + intros [->|[C K]]; [apply eqc_refl|].
      destruct (closure_dom _ _ _ C) as [Ha Hb]. apply D in Ha. apply D in Hb.
      assert (Kb : Cov pa pb b) by (eapply Cov_closure; eauto).
      assert (E : rep_of os a = rep_of os b).
      { apply rep_of_eq; auto. now apply (agree_rel _ _ _ _ A). }
      assert (E1 : eqc L a (rep_of os a)) by (apply eqc_base, HL; auto).
      assert (E2 : eqc L b (rep_of os b)) by (apply eqc_base, HL; auto).
      rewrite <- E in E2. eapply eqc_trans; [exact E1|now apply eqc_sym].
Qed.

Lemma s2d_keys_In x s : In x (s2d_keys s) <-> In x (d2s s).
Proof. apply sort_z_In. Qed.

Lemma ext_core_good this0 other0 pa pb :
  good this0 pa -> good other0 pb ->
  good (fst (ext_core this0 other0)) (pa ++ filter (touches pa pb) pb) /\
  good (snd (ext_core this0 other0)) (pb ++ pa).
Proof.
  intros Gt Go. unfold ext_core.
  destruct (ext_collect _ _ _ _ _) as [[[ts os] covered] toInsert] eqn:EC.
  pose proof Gt as [It [_ At]]. pose proof Go as [Io [_ Ao]].
  apply ext_collect_spec in EC; auto; [|intros z Hz; now apply s2d_keys_In in Hz].
  destruct EC as [Its [Et [Ios [Eo [Cv Ti]]]]]. cbn [app] in Ti.
  assert (G1 : good (mkEq ts (e_cache this0) (e_stale this0)) pa) by now apply good_seqv.
  destruct (ext_extend _ _ _ _) as [this2 os2] eqn:EE.
  apply ext_extend_spec with (ps := pa) in EE; auto; [|intros z Hz; now apply s2d_keys_In in Hz].
  destruct EE as [G2 [Ios2 Eo2]]. cbn [fst snd].
  assert (Aos : agree os pb) by (eapply agree_seqv; eauto).
  split.
  - (* this *)
    set (L2 := map (fun el => (el, rep_of os el))
                   (filter (fun el => mem_z (rep_of os el) covered) (s2d_keys os))) in *.
    assert (HL : forall u v, In (u, v) L2 <-> In u (d2s os) /\ Cov pa pb u /\ v = rep_of os u).
    { intros u v. unfold L2. rewrite in_map_iff. split.
      - intros [el [E H]]. inversion E; subst el v. clear E.
        apply filter_In in H. destruct H as [Hu M]. apply s2d_keys_In in Hu. apply mem_z_In in M.
        split; auto. split; auto. apply Cv in M. destruct M as [[]|[el [H1 [H2 H3]]]].
        apply s2d_keys_In in H1. exists el. split; [now apply At|].
        apply (agree_rel _ _ _ _ Ao). rewrite (proj1 Eo) in Hu.
        apply rep_of_eq; auto. rewrite H3. symmetry. now apply rep_of_seqv.
      - intros [Hu [[c [Hc C]] ->]]. exists u. split; auto. apply filter_In.
        split; [now apply s2d_keys_In|]. apply mem_z_In. apply Cv. right. exists c.
        split; [apply s2d_keys_In; now apply At|].
        apply (agree_rel _ _ _ _ Ao) in C. destruct (rel_dom _ _ _ C) as [Hu' Hc'].
        split; auto. rewrite (rep_of_seqv _ _ u Eo). symmetry. now apply rep_of_eq. }
    destruct (covered_pairs_eqc os pa pb L2 Ios Aos HL) as [D2 E2].
    destruct G2 as [I2 [C2 A2]]. split; [|split]; auto.
    apply (agree_ext _ _ _ A2).
    + intros a. rewrite !dom_app, !in_app_iff, D2, dom_filter_touches. tauto.
    + intros a b. apply eqc_app_congr. intros u v. now rewrite E2, eqc_filter_touches.
  - (* other *)
    subst toInsert.
    set (L3 := map (fun el => (el, rep_of (e_sds this0) el)) (s2d_keys (e_sds this0))).
    assert (G3 : good (mkEq os2 (e_cache other0) (e_stale other0)) pb).
    { apply good_seqv; auto. eapply seqv_trans; eauto. }
    assert (K : forall u v, In (u, v) L3 <-> In u (d2s (e_sds this0)) /\ v = rep_of (e_sds this0) u).
    { intros u v. unfold L3. rewrite in_map_iff. split.
      - intros [el [E H]]. inversion E; subst. apply s2d_keys_In in H. auto.
      - intros [H ->]. exists u. split; auto. now apply s2d_keys_In. }
    assert (R3 : forall u v, In (u, v) L3 -> rel (e_sds this0) u v).
    { intros u v H. apply K in H. destruct H as [H ->]. now apply rep_of_in. }
    destruct (rep_pairs_eqc (e_sds this0) pa L3 It At R3) as [D3 E3].
    { intros v Hv. right. apply K. auto. }
    assert (G4 : good (insert_list (mkEq os2 (e_cache other0) (e_stale other0)) L3) (pb ++ L3)).
    { apply insert_list_good; auto. intros [u v] H. apply R3 in H. destruct (rel_dom _ _ _ H).
      cbn [fst snd]. split; apply (sinv_range (e_sds this0)); auto. }
    destruct G4 as [I4 [C4 A4]]. split; [|split]; auto.
    apply (agree_ext _ _ _ A4).
    + intros a. rewrite !dom_app, !in_app_iff, D3. tauto.
    + intros a b. now apply eqc_app_congr.
Qed.

Lemma dom_nil_inv ps : dom ps = [] -> ps = [].
Proof. destruct ps as [|[x y] r]; auto. discriminate. Qed.

Lemma settled_empty st ps : settled st ps -> all_pairs (e_cache st) = [] -> ps = [].
Proof.
  intros S E. apply dom_nil_inv. destruct (dom ps) as [|x r] eqn:D; auto. exfalso.
  destruct (settled_all_pairs st ps S) as [_ H].
  assert (C : closure ps x x) by (apply ecl_refl; rewrite D; now left).
  apply H in C. rewrite E in C. destruct C.
Qed.

(** this.extendAndInsert(other) *)
Theorem extend_and_insert_good this other pa pb :
  good this pa -> good other pb ->
  good (fst (extend_and_insert this other)) (pa ++ filter (touches pa pb) pb) /\
  good (snd (extend_and_insert this other)) (pb ++ pa).
Proof.
  intros Gt Go. unfold extend_and_insert.
  destruct (size_good other pb Go) as [So Zo]. destruct (size other) as [other0 so]. cbn [fst snd] in *.
  destruct (N.eqb_spec so 0) as [E0|N0].
  - destruct (size_good this pa Gt) as [St Zt]. destruct (size this) as [this0 st]. cbn [fst snd] in *.
    destruct (N.eqb_spec st 0) as [E1|N1].
    + cbn [fst snd].
      assert (pb = []).
      { apply (settled_empty other0); auto. revert Zo. destruct (all_pairs (e_cache other0)); auto. cbn [length]. lia. }
      assert (pa = []).
      { apply (settled_empty this0); auto. revert Zt. destruct (all_pairs (e_cache this0)); auto. cbn [length]. lia. }
      subst. cbn. split; [apply St|apply So].
    + apply ext_core_good; [apply St|apply So].
  - apply ext_core_good; [auto|apply So].
Qed.

(** * Part 7: histories *)
Definition getp (pp : list (Z * Z) * list (Z * Z)) (r : rel_id) : list (Z * Z) :=
  match r with RA => fst pp | RB => snd pp end.
Definition hgood (ab : eqrel * eqrel) (pp : list (Z * Z) * list (Z * Z)) : Prop :=
  good (fst ab) (fst pp) /\ good (snd ab) (snd pp).

Lemma hgood_get ab pp r : hgood ab pp -> good (get ab r) (getp pp r).
Proof. intros [A B]. destruct r; auto. Qed.

Lemma hgood_set ab pp r st : hgood ab pp -> good st (getp pp r) -> hgood (set ab r st) pp.
Proof. intros [A B] G. destruct r; split; cbn; auto. Qed.

Lemma spec_exec_query pp o :
  match o with OInsert _ _ _ | OInsertAll _ | OExtend _ => False | _ => True end ->
  spec_exec pp o = pp.
Proof. destruct o; cbn; tauto. Qed.

Lemma exec_good ab pp o :
  hgood ab pp -> op_in_range o -> hgood (fst (exec ab o)) (spec_exec pp o).
Proof.
  intros H R. destruct o as [r x y|r|r|r x y|r|r|r x|r x y|r|r k|r x y]; cbn [exec].
  - destruct R as [Rx Ry]. cbn [fst].
    destruct (insert_good _ _ x y (hgood_get ab pp r H) Rx Ry) as [G _].
    destruct H as [A B]. destruct r; split; cbn; auto.
  - cbn [fst]. destruct H as [A B]. destruct r; cbn [get other_id set2 spec_exec fst snd].
    + destruct (insert_all_good _ _ _ _ A B) as [G1 [_ [G2 _]]]. split; auto.
    + destruct (insert_all_good _ _ _ _ B A) as [G1 [_ [G2 _]]]. split; auto.
  - cbn [fst]. destruct H as [A B]. destruct r; cbn [get other_id set2 spec_exec fst snd].
    + destruct (extend_and_insert_good _ _ _ _ A B) as [G1 G2]. split; auto.
    + destruct (extend_and_insert_good _ _ _ _ B A) as [G1 G2]. split; auto.
  - rewrite spec_exec_query by exact I.
    pose proof (contains_good _ _ x y (hgood_get ab pp r H)) as [G _].
    destruct (contains (get ab r) x y). cbn [fst] in *. now apply hgood_set.
  - rewrite spec_exec_query by exact I.
    pose proof (size_good _ _ (hgood_get ab pp r H)) as [[G _] _].
    destruct (size (get ab r)). cbn [fst] in *. now apply hgood_set.
  - rewrite spec_exec_query by exact I.
    pose proof (iter_all_good _ _ (hgood_get ab pp r H)) as [[G _] _].
    destruct (iter_all (get ab r)). cbn [fst] in *. now apply hgood_set.
  - rewrite spec_exec_query by exact I.
    pose proof (iter_anterior_good _ _ x (hgood_get ab pp r H)) as [G _].
    destruct (iter_anterior (get ab r) x). cbn [fst] in *. now apply hgood_set.
  - rewrite spec_exec_query by exact I.
    pose proof (iter_antpost_good _ _ x y (hgood_get ab pp r H)) as [G _].
    destruct (iter_antpost (get ab r) x y). cbn [fst] in *. now apply hgood_set.
  - rewrite spec_exec_query by exact I.
    pose proof (classes_good _ _ (hgood_get ab pp r H)) as [[G _] _].
    destruct (classes (get ab r)). cbn [fst] in *. now apply hgood_set.
  - rewrite spec_exec_query by exact I.
    pose proof (partition_good _ _ k (hgood_get ab pp r H)) as [[G _] _].
    destruct (partition (get ab r) k). cbn [fst] in *. now apply hgood_set.
  - rewrite spec_exec_query by exact I.
    pose proof (lower_bound_good _ _ x y (hgood_get ab pp r H)) as G.
    destruct (lower_bound (get ab r) x y). cbn [fst] in *. now apply hgood_set.
Qed.

Lemma run_from_good h : forall ab pp,
  hgood ab pp -> Forall op_in_range h -> hgood (fst (run_from ab h)) (fold_left spec_exec h pp).
Proof.
  induction h as [|o h IH]; intros ab pp H R; cbn [run_from fold_left]; auto.
  inversion R; subst.
  pose proof (exec_good ab pp o H H2) as H1.
  destruct (exec ab o) as [ab1 a]. cbn [fst] in H1.
  specialize (IH ab1 _ H1 H3). destruct (run_from ab1 h) as [ab2 b]. exact IH.
Qed.

(** The invariant behind every theorem below: after any history of in-range operations, both
    relations represent the closure of what the history inserted into them. *)
Theorem run_good h : Forall op_in_range h -> hgood (fst (run h)) (spec_pairs h).
Proof.
  intros R. apply run_from_good; auto. split; apply good_empty.
Qed.

Lemma Forall_in_rangeb h : forallb op_in_rangeb h = true -> Forall op_in_range h.
Proof.
  intros H. apply Forall_forall. intros o Ho. rewrite forallb_forall in H. specialize (H o Ho).
  destruct o; cbn in *; auto.
  apply andb_true_iff in H. destruct H as [H1 H2]. unfold in_rangeb in *.
  apply andb_true_iff in H1, H2. unfold in_range. rewrite !Z.leb_le in *. tauto.
Qed.

(** * Part 8: the properties, for every history *)
Definition rel_after (h : list op) (r : rel_id) : eqrel := get (fst (run h)) r.
Definition pairs_after (h : list op) (r : rel_id) : list (Z * Z) := getp (spec_pairs h) r.

Lemma after_good h r : Forall op_in_range h -> good (rel_after h r) (pairs_after h r).
Proof. intros R. apply hgood_get. now apply run_good. Qed.

(** (a) contains *)
Theorem contains_iff_closure h r a b :
  Forall op_in_range h ->
  (snd (contains (rel_after h r) a b) = true <-> closure (pairs_after h r) a b).
Proof. intros R. apply contains_good. now apply after_good. Qed.

Theorem contains_unmentioned h r a b :
  Forall op_in_range h ->
  ~ In a (dom (pairs_after h r)) \/ ~ In b (dom (pairs_after h r)) ->
  snd (contains (rel_after h r) a b) = false.
Proof.
  intros R N. destruct (snd (contains (rel_after h r) a b)) eqn:E; auto.
  apply contains_iff_closure in E; auto. apply closure_dom in E. tauto.
Qed.

Theorem insert_returns_new h r x y :
  Forall op_in_range h -> in_range x -> in_range y ->
  (snd (insert (rel_after h r) x y) = true <-> ~ closure (pairs_after h r) x y).
Proof. intros R Rx Ry. apply insert_good; auto. now apply after_good. Qed.

(** (b) size and full iteration *)
Lemma NoDup_dedup l : NoDup (dedup l).
Proof.
  induction l as [|x l IH]; cbn [dedup]; [constructor|].
  destruct (mem_z x l) eqn:E; auto. constructor; auto.
  rewrite dedup_In. intros H. apply mem_z_In in H. congruence.
Qed.

Theorem size_sum_squares h r :
  Forall op_in_range h ->
  let st := rel_after h r in let ps := pairs_after h r in
  snd (size st) = N.of_nat (length (snd (iter_all st))) /\
  snd (size st) = N.of_nat (sum_squares (snd (classes st))) /\
  NoDup (snd (iter_all st)) /\
  (forall a b, In (a, b) (snd (iter_all st)) <-> closure ps a b).
Proof.
  intros R st ps. pose proof (after_good h r R) as G. fold st ps in G.
  pose proof (gen_settled st ps G) as S.
  destruct (settled_all_pairs _ _ S) as [ND M].
  unfold size, iter_all, classes. cbn [fst snd]. rewrite size_fold.
  fold (all_pairs (e_cache (gen st))).
  split; [lia|]. split; [rewrite all_pairs_length; lia|]. split; auto.
Qed.

(** the size is the number of pairs of mentioned elements related by the closure *)
Theorem size_counts_closure h r :
  Forall op_in_range h ->
  let st := rel_after h r in let ps := pairs_after h r in
  snd (size st) =
  N.of_nat (length (filter (fun p => closure_b ps (fst p) (snd p))
                           (list_prod (elements ps) (elements ps)))).
Proof.
  intros R st ps. destruct (size_sum_squares h r R) as [E [_ [ND M]]]. fold st ps in E, ND, M.
  rewrite E. f_equal. apply Permutation_length. apply NoDup_Permutation; auto.
  - apply NoDup_filter. apply NoDup_list_prod; apply NoDup_dedup.
  - intros [a b]. rewrite M, filter_In, in_prod_iff, !elements_In. cbn [fst snd].
    rewrite closure_b_spec. split; [|tauto]. intros C. pose proof (closure_dom _ _ _ C). tauto.
Qed.

(** (c) the restricted iterators and the partition into classes *)
Theorem iter_anterior_correct h r x :
  Forall op_in_range h ->
  let l := snd (iter_anterior (rel_after h r) x) in
  NoDup l /\ forall a b, In (a, b) l <-> a = x /\ closure (pairs_after h r) x b.
Proof. intros R. apply iter_anterior_good. now apply after_good. Qed.

Theorem iter_antpost_correct h r x y :
  Forall op_in_range h ->
  let l := snd (iter_antpost (rel_after h r) x y) in
  NoDup l /\ forall p, In p l <-> p = (x, y) /\ closure (pairs_after h r) x y.
Proof.
  intros R l. destruct (iter_antpost_good _ _ x y (after_good h r R)) as [_ [Y N]]. fold l in Y, N.
  destruct (closure_b (pairs_after h r) x y) eqn:E.
  - apply closure_b_spec in E. rewrite (Y E). split.
    + constructor; [intros []|constructor].
    + intros p. cbn. intuition congruence.
  - assert (NC : ~ closure (pairs_after h r) x y) by (rewrite <- closure_b_spec; congruence).
    rewrite (N NC). split; [constructor|]. intros p. cbn. tauto.
Qed.

Theorem classes_correct h r :
  Forall op_in_range h ->
  let P := snd (classes (rel_after h r)) in
  NoDup (concat P) /\ (forall cl, In cl P -> cl <> []) /\
  (forall a b, closure (pairs_after h r) a b <-> exists cl, In cl P /\ In a cl /\ In b cl).
Proof.
  intros R. pose proof (gen_settled _ _ (after_good h r R)) as S.
  apply (settled_classes _ _ S).
Qed.

Theorem partition_chunks_correct h r chunks :
  Forall op_in_range h ->
  let l := concat (snd (partition (rel_after h r) chunks)) in
  NoDup l /\ forall a b, In (a, b) l <-> closure (pairs_after h r) a b.
Proof.
  intros R. destruct (partition_good _ _ chunks (after_good h r R)) as [S E].
  cbn zeta. rewrite E. now apply settled_all_pairs.
Qed.

(** (d) the cache *)
Theorem mutators_set_stale st x y other :
  e_stale (fst (insert st x y)) = true /\ e_stale (fst (insert_all st other)) = true.
Proof. unfold insert, insert_all. destruct (sds_contains _ _ _). auto. Qed.

Theorem cache_current_or_stale h r :
  Forall op_in_range h ->
  let st := rel_after h r in
  e_stale st = true \/ e_cache st = cpart (e_sds st).
Proof.
  intros R st. destruct (after_good h r R) as [_ [C _]]. fold st in C.
  destruct (e_stale st) eqn:E; [left; reflexivity | right; apply C; exact E].
Qed.

(** readers regenerate a stale cache: whatever the cached field holds while the flag is set,
    the answers are those computed from the forest alone *)
Theorem cache_regenerated_when_stale st ps junk :
  good st ps ->
  let st' := mkEq (e_sds st) junk true in
  good st' ps /\
  e_cache (gen st') = cpart (e_sds st) /\ e_cache (gen st) = cpart (e_sds st) /\
  snd (size st') = snd (size st) /\ snd (iter_all st') = snd (iter_all st) /\
  snd (classes st') = snd (classes st).
Proof.
  intros G st'. pose proof G as [I [C A]].
  assert (G' : good st' ps) by (split; [|split]; auto; intros X; discriminate).
  destruct (gen_spec st I C) as [_ [_ [_ E]]].
  destruct (gen_spec st' I (proj1 (proj2 G'))) as [_ [_ [_ E']]]. cbn [e_sds st'] in E'.
  split; auto. split; auto. split; auto.
  unfold size, iter_all, classes. cbn [fst snd]. rewrite E, E'. auto.
Qed.

(** (e) extendAndInsert, on states reached by any history *)
Theorem extend_and_insert_spec h r :
  Forall op_in_range h ->
  let this := rel_after h r in let other := rel_after h (other_id r) in
  let pa := pairs_after h r in let pb := pairs_after h (other_id r) in
  let this' := fst (extend_and_insert this other) in
  let other' := snd (extend_and_insert this other) in
  (forall a b, snd (contains this' a b) = true <->
               closure (pa ++ filter (touches pa pb) pb) a b) /\
  (forall a b, snd (contains other' a b) = true <-> closure (pb ++ pa) a b).
Proof.
  intros R. cbn zeta.
  destruct (extend_and_insert_good _ _ _ _ (after_good h r R) (after_good h (other_id r) R)) as [G1 G2].
  split; intros a b; now apply contains_good.
Qed.

(** what the two lists of pairs mean: [this'] is contained in [other'], and contains every pair
    of [other'] that was not already in [other] ("the implicitly new tuples") *)
Lemma dom_filter_incl (f : Z * Z -> bool) pb a : In a (dom (filter f pb)) -> In a (dom pb).
Proof.
  rewrite !in_dom. intros [b [H|H]]; apply filter_In in H; destruct H; eauto.
Qed.

Theorem extend_delta_sound pa pb a b :
  closure (pa ++ filter (touches pa pb) pb) a b -> closure (pb ++ pa) a b.
Proof.
  rewrite !closure_eqc, !dom_app, !in_app_iff. intros [Ha [Hb E]].
  split; [|split].
  - destruct Ha as [Ha|Ha]; auto. left. eapply dom_filter_incl; eauto.
  - destruct Hb as [Hb|Hb]; auto. left. eapply dom_filter_incl; eauto.
  - revert E. apply eqc_mono. intros p Hp. apply in_app_iff in Hp. apply in_app_iff.
    destruct Hp as [Hp|Hp]; auto. apply filter_In in Hp. tauto.
Qed.

Theorem extend_delta_complete pa pb a b :
  closure (pb ++ pa) a b -> ~ closure pb a b -> closure (pa ++ filter (touches pa pb) pb) a b.
Proof.
  set (F := filter (touches pa pb) pb). set (D := pa ++ F).
  intros C NC.
  set (Rr := fun a b => eqc pb a b \/ (eqc D a b /\ In a (dom D) /\ In b (dom D))).
  assert (DomD : forall z, In z (dom D) <-> In z (dom pa) \/ (In z (dom pb) /\ Cov pa pb z)).
  { intros z. unfold D, F. rewrite dom_app, in_app_iff, dom_filter_touches. tauto. }
  assert (Lift : forall x y, eqc pb x y -> In y (dom D) -> x = y \/ (eqc D x y /\ In x (dom D))).
  { intros x y E Hy. destruct (eqc_dom _ _ _ E) as [->|[Hx Hy']]; auto. right.
    assert (Cxy : closure pb x y) by (apply closure_eqc; auto).
    assert (Ky : Cov pa pb y).
    { apply DomD in Hy. destruct Hy as [Hy|[_ K]]; auto. exists y. split; auto.
      apply ecl_refl; auto. }
    assert (Kx : Cov pa pb x) by (eapply Cov_closure; [apply ecl_sym|]; eauto).
    split.
    - apply (eqc_mono F); [unfold D; apply incl_appr, incl_refl|].
      apply eqc_filter_touches. right. auto.
    - apply DomD. auto. }
  assert (K : forall a b, eqc (pb ++ pa) a b -> Rr a b).
  { apply eqc_least; unfold Rr.
    - intros x. left. apply eqc_refl.
    - intros x y [H|[H [H1 H2]]]; [left; now apply eqc_sym|right; split; [now apply eqc_sym|auto]].
    - intros x y z [H|[H [H1 H2]]] [G|[G [G1 G2]]].
      + left. eapply eqc_trans; eauto.
      + destruct (Lift x y H G1) as [->|[E Hx]]; [right; auto|].
        right. split; [eapply eqc_trans; eauto|auto].
      + destruct (Lift z y (eqc_sym _ _ _ G) H2) as [<-|[E Hz]]; [right; auto|].
        right. split; [eapply eqc_trans; [exact H|now apply eqc_sym]|auto].
      + right. split; [eapply eqc_trans; eauto|auto].
    - intros x y H. apply in_app_iff in H. destruct H as [H|H].
      + left. now apply eqc_base.
      + right. split; [apply eqc_base; unfold D; apply in_app_iff; auto|].
        split; apply DomD; left; apply in_dom; eauto. }
  apply closure_eqc in C. destruct C as [Ha [Hb E]].
  rewrite dom_app, in_app_iff in Ha, Hb.
  fold D. apply closure_eqc.
  destruct (K a b E) as [E1|[E1 [H1 H2]]]; auto.
  destruct (eqc_dom _ _ _ E1) as [->|[Ha' Hb']].
  - assert (Hn : ~ In b (dom pb)) by (intros Hn; apply NC; now apply ecl_refl).
    assert (In b (dom D)) by (apply DomD; tauto).
    split; auto. split; auto. apply eqc_refl.
  - exfalso. apply NC. apply closure_eqc. auto.
Qed.

(** * Part 9: examples (f) and behaviours of the code as it is *)
Local Open Scope Z_scope.

(** Five classes {1,2} {3,4} {5,6} {MIN,MAX} {9}, merged into three; then B = {4,10} {20,21},
    A.extendAndInsert(B), and finally A.insertAll(B). *)
Definition ex_h : list op :=
  [OInsert RA 1 2; OInsert RA 3 4; OInsert RA 5 6; OInsert RA MIN_RAM_SIGNED MAX_RAM_SIGNED;
   OInsert RA 9 9; OSize RA;
   OInsert RA 2 3; OInsert RA 6 MIN_RAM_SIGNED;
   OContains RA 1 4; OContains RA 1 5; OContains RA MAX_RAM_SIGNED 5; OContains RA 77 77;
   OSize RA; OClasses RA;
   OAnterior RA MIN_RAM_SIGNED; OAntpost RA MAX_RAM_SIGNED 5; OAntpost RA 1 5;
   OInsert RB 4 10; OInsert RB 20 21; OExtend RA; OSize RA; OSize RB; OClasses RA; OClasses RB;
   OInsertAll RA; OSize RA].

Example ex_h_in_range : Forall op_in_range ex_h.
Proof. apply Forall_in_rangeb. vm_compute. reflexivity. Qed.

Example ex_h_answers :
  snd (run ex_h) =
  [ASize 17; ABool true; ABool false; ABool true; ABool false; ASize 33;
   AClasses [[6; 5; 2147483647; -2147483648]; [2; 1; 4; 3]; [9]];
   APairs [(-2147483648, 6); (-2147483648, 5); (-2147483648, 2147483647); (-2147483648, -2147483648)];
   APairs [(2147483647, 5)]; APairs [];
   ASize 42; ASize 46;
   AClasses [[6; 5; 2147483647; -2147483648]; [2; 1; 4; 3; 10]; [9]];
   AClasses [[10; 4; 3; 1; 2]; [-2147483648; 5; 6; 2147483647]; [9]; [21; 20]];
   ASize 46].
Proof. vm_compute. reflexivity. Qed.

(** on this history the structure and the executable specification agree on every pair of
    mentioned elements (and on an unmentioned one), for both relations *)
Example ex_h_agrees :
  forallb (fun r =>
    let ps := pairs_after ex_h r in
    let els := 77 :: elements ps in
    forallb (fun p => Bool.eqb (snd (contains (rel_after ex_h r) (fst p) (snd p)))
                               (closure_b ps (fst p) (snd p)))
            (list_prod els els)) [RA; RB] = true.
Proof. vm_compute. reflexivity. Qed.

Example ex_good : good (rel_after ex_h RA) (pairs_after ex_h RA).
Proof. apply after_good. exact ex_h_in_range. Qed.

(** The public member function antpostit(x, y), called directly with elements the relation does
    not hold (its comment promises end() in that case): sds.sameSet creates both nodes without
    marking the cache stale.  Afterwards contains(x, x) is true, yet size() and the full
    iteration still come from the old cache, and anteriorIt(x) fails its lookup (the C++
    asserts).  getBoundaries/lower_bound guard the call with sds.contains, so Datalog programs
    do not reach this. *)
Theorem antpost_unguarded_refuted :
  exists h x y, Forall op_in_range h /\
    let st := rel_after h RA in
    let r := antpost_it st x y in
    snd (contains st x x) = false /\ snd r = Some [] /\
    snd (contains (fst r) x x) = true /\
    snd (size (fst r)) = snd (size st) /\
    ~ In (x, x) (snd (iter_all (fst r))) /\
    snd (anterior_it (fst r) x) = None.
Proof.
  exists [OInsert RA 1 2; OSize RA], 5, 6.
  split; [apply Forall_in_rangeb; vm_compute; reflexivity|].
  vm_compute. repeat split; auto.
  intros [H|[H|[H|[H|[]]]]]; discriminate.
Qed.

(** lower_bound reads MIN_RAM_SIGNED as "unbound" although it is a legal element: with
    (MIN, 5) stored, lower_bound((MIN, MIN)) yields every pair (instead of the pairs (MIN, _))
    and lower_bound((MIN, 5)) yields nothing (instead of (MIN, 5)); getBoundaries<1>/<2>
    ([iter_anterior], [iter_antpost]) answer correctly. *)
Theorem lower_bound_min_sentinel_refuted :
  exists h, Forall op_in_range h /\
    let st := rel_after h RA in let ps := pairs_after h RA in
    closure ps MIN_RAM_SIGNED 5 /\
    In (7, 8) (snd (lower_bound st MIN_RAM_SIGNED MIN_RAM_SIGNED)) /\
    snd (lower_bound st MIN_RAM_SIGNED 5) = [] /\
    snd (iter_anterior st MIN_RAM_SIGNED) = [(MIN_RAM_SIGNED, 5); (MIN_RAM_SIGNED, MIN_RAM_SIGNED)] /\
    snd (iter_antpost st MIN_RAM_SIGNED 5) = [(MIN_RAM_SIGNED, 5)].
Proof.
  exists [OInsert RA MIN_RAM_SIGNED 5; OInsert RA 7 8].
  split; [apply Forall_in_rangeb; vm_compute; reflexivity|].
  cbn zeta. split; [apply closure_b_spec; vm_compute; reflexivity|].
  vm_compute. repeat split; auto. tauto.
Qed.

(* NOT PROVED:
   - Concurrent insertions.  The model is the sequential reading of the code (every
     compare_exchange_strong succeeds on the value just loaded); interleavings of unionNodes /
     findNode are the subject of UnionFindDefs.v / Properties_C29.v, and makeNode/toDense racing
     (LambdaBTree insertion, PiggyList::createNode) is modelled nowhere.  In particular nothing is
     proved about a reader running between `statesMapStale.store(true)` and `sds.unionNodes` in
     insert (the flag is set before the union, so a concurrent genAllDisjointSetLists could
     clear it and cache the old partition).
   - The ORDER in which the iterators produce pairs (classes by increasing representative, members
     by dense index, anterior-major) is what the model computes and what the differential check
     compares, but no theorem characterises it; the theorems state membership and NoDup.
   - partition(chunks): only that the returned ranges, concatenated, list each pair of the closure
     once (partition_chunks_correct); nothing about how many ranges or how balanced.
   - lower_bound: only that it preserves the invariant, plus the sentinel behaviour above.
   - Independence from the cached field is proved as equalities for size / begin..end / the class
     lists (cache_regenerated_when_stale); for the per-element and per-pair iterators it follows
     from their correctness theorems holding for every state satisfying [good], which ignores the
     cached field while the flag is set.
   - extendAndInsert does not set this->statesMapStale when no class of other is covered; that is
     harmless (this is unchanged then) and covered by the invariant, not stated separately.
   - Elements outside the 32-bit range (hypothesis op_in_range): needed only to bound the
     uint8_t ranks (2^rank <= class size <= 2^32). *)
