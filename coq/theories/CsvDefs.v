(** Executable model of Souffle's delimiter-separated / RFC 4180 fact-file writer and reader.

    Writer:  src/include/souffle/io/WriteStreamCSV.h  (writeNextTupleCSV, writeNextTupleElement,
             outputSymbol(dest, value, fieldValue)) and src/include/souffle/io/WriteStream.h
             (outputRecord, outputADT).
    Reader:  src/include/souffle/io/ReadStreamCSV.h   (readNextLine, readNextTuple, nextElement)
             and src/include/souffle/io/ReadStream.h  (readRecord, readADT, readQualifiedName,
             readUntil, readQuotedSymbol, readSymbol, consumeChar, consumeWhiteSpace).
    Numbers inside fields go through NumParseDefs (fact_signed / fact_unsigned at the top level,
    ram_signed_base 10 / ram_unsigned_base 10 with the consumed length inside records and ADTs).

    Not modelled: float columns ('f'), the "columns" input map, gzip, arity-0 relations ("()").
    Types are finite trees ([cty]); recursive record types are outside this model.

    Everything works on [bytes]; text is kept in suffix form (the C++ [pos]/[start] index is the
    length of what has been dropped). Definitions only: the proofs are in CsvLemmas.v. *)
From SV Require Export Bytes.
From SV Require Import NumParseDefs.
From SV Require Word32Defs.
Local Open Scope N_scope.

(** * Values, column types, configuration *)

(** A RamDomain value together with the shape the type gives it. [CUns] carries the unsigned
    reading (0 .. 2^32-1), [CNum] the signed reading. [CNil] is the record reference 0. *)
Inductive cval :=
| CNum (z : Z)
| CUns (z : Z)
| CSym (s : bytes)
| CNil
| CRec (fs : list cval)
| CAdt (branch : bytes) (fs : list cval).

(** Type attributes: 'i', 'u', 's', 'r' with its field types, '+' with its branches in
    declaration order (name, argument types). *)
Inductive cty :=
| TyNum
| TyUns
| TySym
| TyRec (fs : list cty)
| TyAdt (branches : list (bytes * list cty)).

(** IO options that matter: "rfc4180" and "delimiter" (default TAB, or ',' under rfc4180). *)
Record cfg := { rfc4180 : bool; delim : bytes }.
Definition default_cfg : cfg := {| rfc4180 := false; delim := [9] |}.
Definition rfc_cfg : cfg := {| rfc4180 := true; delim := [44] |}.

Definition memb (c : N) (s : bytes) : bool := existsb (N.eqb c) s.

(** The constructors of WriteStreamCSV / ReadStreamCSV throw when rfc4180 is on and the
    delimiter contains DQUOTE. *)
Definition cfg_accepted (c : cfg) : bool := negb (rfc4180 c && memb 34 (delim c)).

(** * Writer *)

Definition dec (z : Z) : bytes := Word32Defs.dec_of_Z z.

(** [x0 ++ sep ++ x1 ++ sep ++ ...]: the loops `if (i > 0) destination << sep;`. *)
Definition join (sep : bytes) (l : list bytes) : bytes :=
  match l with
  | [] => []
  | x :: r => x ++ flat_map (fun y => sep ++ y) r
  end.

(** WriteStreamCSV::outputSymbol, the loop body: every DQUOTE is preceded by DQUOTE (field value) or
    by BACKSLASH DQUOTE (symbol nested in a record / ADT); in a nested symbol every BACKSLASH
    is preceded by a BACKSLASH (`else if (ch == BACKSLASH && !fieldValue)`). *)
Fixpoint esc_quotes (fieldValue : bool) (s : bytes) : bytes :=
  match s with
  | [] => []
  | c :: r =>
      (if c =? 34 then (if fieldValue then [34] else [92; 34])
       else if (c =? 92) && negb fieldValue then [92] else [])
      ++ c :: esc_quotes fieldValue r
  end.

(** WriteStreamCSV::outputSymbol(destination, value, fieldValue). *)
Definition output_symbol (rfc fieldValue : bool) (s : bytes) : bytes :=
  if rfc then
    let q := if fieldValue then [34] else [34; 34] in
    q ++ esc_quotes fieldValue s ++ q
  else s.

Definition B_NIL : bytes := [110; 105; 108].   (* "nil" *)
Definition B_SEP : bytes := [44; 32].          (* ", " *)

(** WriteStream::outputRecord / outputADT: the text of a value nested in a field. The value's
    constructor plays the role of the type attribute the C++ switches on. *)
Fixpoint write_value (rfc : bool) (v : cval) : bytes :=
  match v with
  | CNum z => dec z
  | CUns z => dec z
  | CSym s => output_symbol rfc false s
  | CNil => B_NIL
  | CRec fs => 91 :: join B_SEP (map (write_value rfc) fs) ++ [93]
  | CAdt b fs =>
      36 :: b ++
      match fs with
      | [] => []
      | _ => 40 :: join B_SEP (map (write_value rfc) fs) ++ [41]
      end
  end.

(** WriteStreamCSV::writeNextTupleElement. *)
Definition write_field (c : cfg) (ty : cty) (v : cval) : bytes :=
  match ty with
  | TySym => match v with CSym s => output_symbol (rfc4180 c) true s | _ => write_value (rfc4180 c) v end
  | TyNum | TyUns => write_value (rfc4180 c) v
  | TyRec _ | TyAdt _ =>
      if rfc4180 c then 34 :: write_value true v ++ [34] else write_value false v
  end.

Definition write_fields (c : cfg) (tys : list cty) (vs : list cval) : list bytes :=
  map (fun tv => write_field c (fst tv) (snd tv)) (combine tys vs).

(** WriteStreamCSV::writeNextTupleCSV. *)
Definition write_tuple (c : cfg) (tys : list cty) (vs : list cval) : bytes :=
  join (delim c) (write_fields c tys vs) ++ [10].

(** WriteStream::writeAll over the tuples in iteration order (arity > 0). *)
Definition write_file (c : cfg) (tys : list cty) (rows : list (list cval)) : bytes :=
  flat_map (write_tuple c tys) rows.

(** WriteFileCSV constructor with headers=true: `file << attributeNames << std::endl`. *)
Definition write_file_hdr (c : cfg) (hdr : bytes) (tys : list cty) (rows : list (list cval)) : bytes :=
  hdr ++ 10 :: write_file c tys rows.

(** * Reader: lines *)

(** The sequence of std::getline results on the content: split at '\n'; a final piece is a
    line only if it is non-empty. *)
Fixpoint split_lines (s : bytes) : list bytes :=
  match s with
  | [] => []
  | c :: s' =>
      if c =? 10 then [] :: split_lines s'
      else match split_lines s' with
           | [] => [[c]]
           | l :: ls => (c :: l) :: ls
           end
  end.

(** readNextLine: `isCRLF = !line.empty() && line.back() == '\r'; if (isCRLF) line.pop_back();` *)
Fixpoint strip_cr (l : bytes) : bytes * bool :=
  match l with
  | [] => ([], false)
  | c :: r =>
      match r with
      | [] => if c =? 13 then ([], true) else ([c], false)
      | _ => let (r', f) := strip_cr r in (c :: r', f)
      end
  end.

Definition file_lines (content : bytes) : list (bytes * bool) := map strip_cr (split_lines content).

(** Reader state inside readNextTuple: the current line from [start] on ([None]: start is
    beyond the end of the line), the CRLF flag of the current line, the lines not yet read. *)
Record rstate := { rs_pos : option bytes; rs_crlf : bool; rs_lines : list (bytes * bool) }.

(** std::string::find(d, 0) on a suffix. *)
Fixpoint find (d s : bytes) : option nat :=
  if is_prefix d s then Some 0%nat
  else match s with
       | [] => None
       | _ :: s' => option_map S (find d s')
       end.

(** `start = end + delimiter.size()` where [s] is the line from [end] on. *)
Definition advance (d s : bytes) : option bytes :=
  if Nat.leb (length d) (length s) then Some (skipn (length d) s) else None.

(** * Reader: nextElement *)

(** `end = min(line.find(delimiter, start), line.length())`, element, new start. *)
Definition elem_plain (d ls : bytes) : bytes * option bytes :=
  match find d ls with
  | Some k => (firstn k ls, advance d (skipn k ls))
  | None => (ls, advance d [])
  end.

Definition upd_parens (c : N) (p : Z) : Z :=
  if c =? 91 then (p + 1)%Z else if c =? 93 then (p - 1)%Z else p.

(** The loop "Find first delimiter after the record" of nextElement (delimiter contains ',').
    [s] is the line from [end] on, [e] = end - start, [p] = record_parens, [nd] =
    next_delimiter - start ([None] = npos). Result: end - start, or [None] for the error
    "Unbalanced record parenthesis".
    The loop stops at the end of the line (`end < line.length() && ...`, the repair of the
    overrun on an unmatched '['); record_parens != 0 there is the error. *)
Fixpoint bscan (d s : bytes) (e : nat) (p : Z) (nd : option nat) {struct s} : option nat :=
  match s with
  | [] => if (p =? 0)%Z then Some e else None
  | c :: s' =>
      if (match nd with Some k => Nat.ltb e k | None => true end) || negb (p =? 0)%Z then
        let p' := upd_parens c p in
        if (p' <? 0)%Z then None
        else
          let e' := S e in
          let nd' := if (match nd with Some k => Nat.eqb e' k | None => false end) && negb (p' =? 0)%Z
                     then option_map (Nat.add e') (find d s') else nd in
          bscan d s' e' p' nd'
      else Some e
  end.

Definition elem_comma (d ls : bytes) : option (bytes * option bytes) :=
  match bscan d ls 0%nat 0%Z (find d ls) with
  | Some e => Some (firstn e ls, advance d (skipn e ls))
  | None => None
  end.

Definition cons_elem (pre : bytes) (r : option (bytes * (bytes * bool * list (bytes * bool)))) :=
  match r with
  | Some (e, st) => Some (pre ++ e, st)
  | None => None
  end.

(** The `while (!foundEndQuote)` loop of nextElement for a quoted rfc4180 field. [ls] is the
    current line from [pos] on; result: element, the line from [pos] on after the closing
    quote, the CRLF flag of that line, the lines not yet read. [None] = "Unbalanced field quote". *)
Fixpoint quoted (lines : list (bytes * bool)) : bytes -> bool -> option (bytes * (bytes * bool * list (bytes * bool))) :=
  fix inner (ls : bytes) (crlf : bool) {struct ls} :=
    match ls with
    | [] =>
        match lines with
        | [] => None
        | (l, f) :: lines' => cons_elem ((if crlf then [13] else []) ++ [10]) (quoted lines' l f)
        end
    | c :: ls' =>
        if c =? 34 then
          match ls' with
          | c2 :: ls'' =>
              if c2 =? 34 then cons_elem [34] (inner ls'' crlf)
              else Some ([], (ls', crlf, lines))
          | [] => Some ([], ([], crlf, lines))
          end
        else cons_elem [c] (inner ls' crlf)
    end.

Definition is_nil {A} (l : list A) : bool := match l with [] => true | _ => false end.

(** ReadStreamCSV::nextElement. [None] = an exception (any of its error messages, or the
    std::out_of_range of substr when start is beyond the line). *)
Definition next_element (c : cfg) (st : rstate) : option (bytes * rstate) :=
  match rs_pos st with
  | None => None
  | Some ls =>
      let d := delim c in
      if rfc4180 c then
        match ls with
        | q :: ls1 =>
            if q =? 34 then
              match quoted (rs_lines st) ls1 (rs_crlf st) with
              | None => None
              | Some (e, (after, f, lines')) =>
                  if is_nil after || is_prefix d after
                  then Some (e, {| rs_pos := advance d after; rs_crlf := f; rs_lines := lines' |})
                  else None
              end
            else let (e, p) := elem_plain d ls in
                 Some (e, {| rs_pos := p; rs_crlf := rs_crlf st; rs_lines := rs_lines st |})
        | [] => let (e, p) := elem_plain d ls in
                Some (e, {| rs_pos := p; rs_crlf := rs_crlf st; rs_lines := rs_lines st |})
        end
      else if memb 44 d then
        match elem_comma d ls with
        | Some (e, p) => Some (e, {| rs_pos := p; rs_crlf := rs_crlf st; rs_lines := rs_lines st |})
        | None => None
        end
      else let (e, p) := elem_plain d ls in
           Some (e, {| rs_pos := p; rs_crlf := rs_crlf st; rs_lines := rs_lines st |})
  end.

(** * Reader: records and ADTs (ReadStream.h) *)

Definition ws_skip (s : bytes) : bytes := snd (skip_ws s).

(** consumeChar(str, c, pos). *)
Definition consume_char (c : N) (s : bytes) : option bytes :=
  match ws_skip s with
  | x :: r => if x =? c then Some r else None
  | [] => None
  end.

(** std::isalnum in the "C" locale || '_' || '?' || '.' *)
Definition is_ident (c : N) : bool :=
  ((48 <=? c) && (c <=? 57)) || ((65 <=? c) && (c <=? 90)) || ((97 <=? c) && (c <=? 122))
  || (c =? 95) || (c =? 63) || (c =? 46).

Fixpoint span (p : N -> bool) (s : bytes) : bytes * bytes :=
  match s with
  | c :: r => if p c then let (a, b) := span p r in (c :: a, b) else ([], s)
  | [] => ([], [])
  end.

(** readQualifiedName. *)
Definition read_qname (s : bytes) : option (bytes * bytes) :=
  match ws_skip s with
  | [] => None
  | s1 => Some (span is_ident s1)
  end.

(** readUntil(source, "," + closer, pos, &n): up to the first stop character, which must exist. *)
Definition read_until (closer : N) (s : bytes) : option (bytes * bytes) :=
  let (a, b) := span (fun c => negb ((c =? 44) || (c =? closer))) s in
  match b with [] => None | _ => Some (a, b) end.

(** readQuotedSymbol, after the opening quote: up to the first quote that is not preceded by
    an (unescaped) backslash; a backslash is dropped and the next character kept. *)
Fixpoint read_quoted (s : bytes) : option (bytes * bytes) :=
  match s with
  | [] => None
  | c :: s' =>
      if c =? 34 then Some ([], s')
      else if c =? 92 then
        match s' with
        | [] => None
        | e :: s'' => match read_quoted s'' with Some (a, b) => Some (e :: a, b) | None => None end
        end
      else match read_quoted s' with Some (a, b) => Some (c :: a, b) | None => None end
  end.

(** readSymbol(source, "," + closer, pos, &n). *)
Definition read_symbol (closer : N) (s : bytes) : option (bytes * bytes) :=
  match s with
  | c :: r => if c =? 34 then read_quoted r else read_until closer s
  | [] => read_until closer s
  end.

Definition of_pres (s : bytes) (mk : Z -> cval) (r : pres) : option (cval * bytes) :=
  match r with
  | POk v used => Some (mk v, skipn used s)
  | _ => None
  end.

(** The element loops of readRecord / readADT: `if (i > 0) consumeChar(',')`,
    consumeWhiteSpace, read one value, `pos += consumed`. *)
Definition read_args (rd : cty -> bytes -> option (cval * bytes)) :=
  fix go (tys : list cty) (first : bool) (s : bytes) {struct tys} : option (list cval * bytes) :=
    match tys with
    | [] => Some ([], s)
    | t :: tys' =>
        match (if first then Some s else consume_char 44 s) with
        | None => None
        | Some s1 =>
            match rd t (ws_skip s1) with
            | None => None
            | Some (v, s2) =>
                match go tys' false s2 with
                | None => None
                | Some (vs, s3) => Some (v :: vs, s3)
                end
            end
        end
    end.

(** readRecord / readADT / the type switch inside their loops. [closer] is the second stop
    character of a symbol at this position (']' in a record, ')' in an ADT). Result: value and
    the text after it. *)
Fixpoint read_value (closer : N) (ty : cty) (s : bytes) {struct ty} : option (cval * bytes) :=
  match ty with
  | TyNum => of_pres s CNum (ram_signed_base 10 s)
  | TyUns => of_pres s CUns (ram_unsigned_base 10 s)
  | TySym => match read_symbol closer s with Some (a, b) => Some (CSym a, b) | None => None end
  | TyRec tys =>
      let s0 := ws_skip s in
      if is_prefix B_NIL s0 then Some (CNil, skipn 3 s0)
      else
        match consume_char 91 s with
        | None => None
        | Some s1 =>
            match read_args (read_value 93) tys true s1 with
            | None => None
            | Some (vs, s2) =>
                match consume_char 93 s2 with
                | None => None
                | Some s3 => Some (CRec vs, s3)
                end
            end
        end
  | TyAdt brs =>
      match consume_char 36 s with
      | None => None
      | Some s1 =>
          match read_qname s1 with
          | None => None
          | Some (name, s2) =>
              (fix pick (brs : list (bytes * list cty)) : option (cval * bytes) :=
                 match brs with
                 | [] => None
                 | (nm, tys) :: brs' =>
                     if bytes_eqb nm name then
                       match tys with
                       | [] => Some (CAdt name [], s2)
                       | _ =>
                           match consume_char 40 s2 with
                           | None => None
                           | Some s3 =>
                               match read_args (read_value 41) tys true s3 with
                               | None => None
                               | Some (vs, s4) =>
                                   match consume_char 41 s4 with
                                   | None => None
                                   | Some s5 => Some (CAdt name vs, s5)
                                   end
                               end
                           end
                       end
                     else pick brs'
                 end) brs
          end
      end
  end.

(** The type switch of readNextTuple followed by `charactersRead != element.size()`.
    readRecord reports charactersRead = 3 for "nil" whatever white space it skipped, so the
    check passes only for the element "nil" itself. *)
Definition read_field (ty : cty) (e : bytes) : option cval :=
  match ty with
  | TySym => Some (CSym e)
  | TyNum => match fact_signed e with Some z => Some (CNum z) | None => None end
  | TyUns => match fact_unsigned e with Some z => Some (CUns z) | None => None end
  | TyRec _ =>
      if is_prefix B_NIL (ws_skip e) then (if Nat.eqb (length e) 3 then Some CNil else None)
      else match read_value 0 ty e with
           | Some (v, []) => Some v
           | _ => None
           end
  | TyAdt _ =>
      match read_value 0 ty e with
      | Some (v, []) => Some v
      | _ => None
      end
  end.

(** The column loop of readNextTuple (identity column map). *)
Fixpoint read_fields (c : cfg) (tys : list cty) (st : rstate) : option (list cval * rstate) :=
  match tys with
  | [] => Some ([], st)
  | t :: tys' =>
      match next_element c st with
      | None => None
      | Some (e, st1) =>
          match read_field t e with
          | None => None
          | Some v =>
              match read_fields c tys' st1 with
              | None => None
              | Some (vs, st2) => Some (v :: vs, st2)
              end
          end
      end
  end.

(** readAll: one readNextTuple per remaining line; each call consumes at least one line, so
    [fuel] = number of lines + 1 is enough ([None] when it runs out, which does not happen
    with the fuel [read_file] passes). *)
Fixpoint read_rows (fuel : nat) (c : cfg) (tys : list cty) (lines : list (bytes * bool)) : option (list (list cval)) :=
  match fuel with
  | O => None
  | S fuel' =>
      match lines with
      | [] => Some []
      | (l, f) :: rest =>
          match read_fields c tys {| rs_pos := Some l; rs_crlf := f; rs_lines := rest |} with
          | None => None
          | Some (vs, st) =>
              match read_rows fuel' c tys (rs_lines st) with
              | None => None
              | Some rows => Some (vs :: rows)
              end
          end
      end
  end.

(** ReadFileCSV + readAll on a file with the given content. [None]: the loader raises an error. *)
Definition read_file (c : cfg) (tys : list cty) (content : bytes) : option (list (list cval)) :=
  let lines := file_lines content in
  read_rows (S (length lines)) c tys lines.

(** The first tuple of a text (the text of one tuple may span several lines under rfc4180). *)
Definition read_tuple (c : cfg) (tys : list cty) (content : bytes) : option (list cval) :=
  match file_lines content with
  | [] => None
  | (l, f) :: rest =>
      match read_fields c tys {| rs_pos := Some l; rs_crlf := f; rs_lines := rest |} with
      | Some (vs, _) => Some vs
      | None => None
      end
  end.

(** ReadFileCSV constructor with headers=true: one std::getline is thrown away. *)
Fixpoint drop_line (s : bytes) : bytes :=
  match s with
  | [] => []
  | c :: s' => if c =? 10 then s' else drop_line s'
  end.

Definition read_file_hdr (c : cfg) (tys : list cty) (content : bytes) : option (list (list cval)) :=
  read_file c tys (drop_line content).

(** * Which values a format can represent *)

Definition forallb2 {A B} (p : A -> B -> bool) :=
  fix go (la : list A) (lb : list B) {struct lb} : bool :=
    match la, lb with
    | [], [] => true
    | a :: la', b :: lb' => p a b && go la' lb'
    | _, _ => false
    end.

(** First branch with that name (the search loop of readADT). *)
Fixpoint lookup_branch (b : bytes) (brs : list (bytes * list cty)) : option (list cty) :=
  match brs with
  | [] => None
  | (nm, tys) :: brs' => if bytes_eqb nm b then Some tys else lookup_branch b brs'
  end.

(** A symbol nested in a record (closer = ']') or an ADT (closer = ')').
    Plain formats write it as it is: it must contain neither ',' nor the closer, and must not
    begin with white space (skipped by the reader) or with DQUOTE (read as a quoted symbol).
    rfc4180 writes it quoted with DQUOTE and backslash escaped by a backslash, which the reader
    of a quoted symbol undoes: any byte string is fine. *)
Definition nested_sym_ok (rfc : bool) (closer : N) (s : bytes) : bool :=
  if rfc then true
  else negb (memb 44 s) && negb (memb closer s) &&
       match s with
       | [] => true
       | c :: _ => negb (isspace c) && negb (c =? 34)
       end.

Definition name_ok (b : bytes) : bool := negb (is_nil b) && forallb is_ident b.

(** The value has the type (32-bit ranges, record arity, the branch is the first one of that
    name and its name is an identifier) and every nested symbol is acceptable. *)
Fixpoint nested_ok (rfc : bool) (closer : N) (ty : cty) (v : cval) {struct v} : bool :=
  match v, ty with
  | CNum z, TyNum => ((- 2 ^ 31 <=? z) && (z <? 2 ^ 31))%Z
  | CUns z, TyUns => ((0 <=? z) && (z <? 2 ^ 32))%Z
  | CSym s, TySym => nested_sym_ok rfc closer s
  | CNil, TyRec _ => true
  | CRec fs, TyRec tys => forallb2 (nested_ok rfc 93) tys fs
  | CAdt b fs, TyAdt brs =>
      name_ok b &&
      match lookup_branch b brs with
      | Some tys => forallb2 (nested_ok rfc 41) tys fs
      | None => false
      end
  | _, _ => false
  end.

(** The delimiter occurs in [t ++ d] only at the very end. *)
Definition delim_fits (d t : bytes) : bool :=
  match find d (t ++ d) with
  | Some k => Nat.eqb k (length t)
  | None => false
  end.

(** Square brackets balanced: the running count never drops below 0 and ends at 0. *)
Fixpoint balanced_from (s : bytes) (p : Z) : bool :=
  match s with
  | [] => (p =? 0)%Z
  | c :: s' => let p' := upd_parens c p in (0 <=? p')%Z && balanced_from s' p'
  end.

(** One bracket group: the running count is positive after every byte but the last, and 0
    after the last. *)
Fixpoint tight_from (s : bytes) (p : Z) : bool :=
  match s with
  | [] => false
  | c :: s' =>
      let p' := upd_parens c p in
      match s' with
      | [] => (p' =? 0)%Z
      | _ => (0 <? p')%Z && tight_from s' p'
      end
  end.

(** Conditions on the written text [t] of a field.
    rfc4180: symbols, records and ADTs are quoted, nothing to ask; a number is unquoted and is
    cut at the first occurrence of the delimiter.
    Otherwise: no newline; the field is cut at the first occurrence of the delimiter; when the
    delimiter contains ',' the bracket-counting loop is in charge: either brackets are
    balanced and the delimiter does not occur early, or the text is one bracket group (that
    does not itself begin with the delimiter). *)
Definition text_ok (c : cfg) (ty : cty) (t : bytes) : bool :=
  if rfc4180 c then
    match ty with
    | TyNum | TyUns => delim_fits (delim c) t
    | _ => true
    end
  else
    negb (memb 10 t) &&
    (if memb 44 (delim c)
     then (balanced_from t 0 && delim_fits (delim c) t)
          || (tight_from t 0 && negb (is_prefix (delim c) (t ++ delim c)))
     else delim_fits (delim c) t).

Definition representable (c : cfg) (ty : cty) (v : cval) : bool :=
  match ty, v with
  | TySym, CSym _ => true
  | TySym, _ => false
  | _, _ => nested_ok (rfc4180 c) 0 ty v
  end && text_ok c ty (write_field c ty v).

Definition ends_cr (t : bytes) : bool := snd (strip_cr t).

(** A tuple: as many values as columns (at least one), every field representable and, in the
    formats without quoting, the last field must not end in '\r' (readNextLine strips it). *)
Definition representable_row (c : cfg) (tys : list cty) (vs : list cval) : bool :=
  negb (is_nil tys) && forallb2 (representable c) tys vs &&
  (rfc4180 c || negb (ends_cr (last (write_fields c tys vs) []))).

(** Delimiters this development covers: non-empty, without '\n', not ending in '\r', and
    without DQUOTE under rfc4180 (that one is rejected by the C++ constructors). *)
Definition cfg_ok (c : cfg) : bool :=
  negb (is_nil (delim c)) && negb (memb 10 (delim c)) && negb (ends_cr (delim c)) && cfg_accepted c.

(** * The writer before the first repair (BACKSLASH DQUOTE DQUOTE): the backslash was written
      for top-level symbol fields too. Kept to state what was wrong. *)
Fixpoint esc_quotes_old (s : bytes) : bytes :=
  match s with
  | [] => []
  | c :: r => (if c =? 34 then [92; 34] else []) ++ c :: esc_quotes_old r
  end.

Definition write_field_old (c : cfg) (ty : cty) (v : cval) : bytes :=
  match ty, v with
  | TySym, CSym s => if rfc4180 c then 34 :: esc_quotes_old s ++ [34] else s
  | _, _ => write_field c ty v
  end.

Definition write_tuple_old (c : cfg) (tys : list cty) (vs : list cval) : bytes :=
  join (delim c) (map (fun tv => write_field_old c (fst tv) (snd tv)) (combine tys vs)) ++ [10].

(** * The writer before the second repair: a symbol nested in a record / ADT under rfc4180 had
      its quotes escaped by a backslash ([esc_quotes_old]) but its backslashes left alone,
      although the reader of a quoted symbol removes one level of backslashes. *)
Fixpoint write_value_nested_old (v : cval) : bytes :=
  match v with
  | CNum z => dec z
  | CUns z => dec z
  | CSym s => [34; 34] ++ esc_quotes_old s ++ [34; 34]
  | CNil => B_NIL
  | CRec fs => 91 :: join B_SEP (map write_value_nested_old fs) ++ [93]
  | CAdt b fs =>
      36 :: b ++
      match fs with
      | [] => []
      | _ => 40 :: join B_SEP (map write_value_nested_old fs) ++ [41]
      end
  end.

Definition write_field_nested_old (c : cfg) (ty : cty) (v : cval) : bytes :=
  match ty with
  | TyRec _ | TyAdt _ => if rfc4180 c then 34 :: write_value_nested_old v ++ [34] else write_value false v
  | _ => write_field c ty v
  end.

Definition write_tuple_nested_old (c : cfg) (tys : list cty) (vs : list cval) : bytes :=
  join (delim c) (map (fun tv => write_field_nested_old c (fst tv) (snd tv)) (combine tys vs)) ++ [10].

(** * The fixed type environment of /verif/cpp/io_harness.cpp (used by the drivers and examples) *)
Definition ty_P : cty := TyRec [TyNum; TySym].
Definition ty_Q : cty := TyRec [ty_P; TyUns].
Definition ty_A : cty := TyAdt [([88], [TyNum]); ([89], [TySym; ty_P])].
Definition ty_E : cty := TyAdt [([66], []); ([71], []); ([82], [])].
