(** C31 -- Symbol and record interning is a bijection under concurrency.
    Only statements here; proofs are in HashMapLemmas.v (hash map) and FlyweightLemmas.v
    (flyweight = symbol table / record table core, second half of this file). The model
    (HashMapDefs.v) follows
    src/include/souffle/datastructure/ConcurrentInsertOnlyHashMap.h ([get], [tryGrow]) and
    src/include/souffle/utility/ParallelUtil.h ([MutexConcurrentLanes]) step by step; it is tied
    to the real code by the step-level correspondence run by `./check C31`.

    Reading guide. [run hash next_buckets next_max nb0 mx0 progs sched] executes the schedule
    [sched] (a list of thread ids; one atomic step of that thread per entry, entries of blocked or
    finished threads are skipped) from the empty map with [nb0] buckets, on one thread per lane
    where thread [t] calls [get] on the keys [nth t progs []] in order; it returns the final
    state and the responses [(thread, RGet key node inserted)] in global order. Every theorem
    quantifies over all [progs] and all [sched], i.e. over every number of lanes, every history
    and every interleaving of the atomic steps. [published st id]: node [id] is reachable from a
    bucket head through [Next] pointers. [policy_ok next_buckets]: the growth policy never asks
    for 0 buckets. *)
From SV Require Import HashMapDefs HashMapLemmas FlyweightDefs FlyweightLemmas.
Local Open Scope N_scope.

(** (a) In every reachable state no key occurs in two published nodes, a node reachable from
    bucket [b] carries a key that hashes to [b] under the current BucketCount, the bucket array
    has BucketCount entries and every bucket list is finite, null-terminated and repetition free. *)
Theorem C31_bucket_nodup :
  forall hash next_buckets next_max nb0 mx0 progs sched,
    policy_ok next_buckets -> nb0 <> 0 ->
    let st := fst (run hash next_buckets next_max nb0 mx0 progs sched) in
    (forall id1 id2, published st id1 -> published st id2 ->
                     keyof (store st) id1 = keyof (store st) id2 -> id1 = id2)
    /\ (forall b id, reach (store st) (nth b (buckets st) None) id ->
                     b = bucket_of hash (bcount st) (keyof (store st) id))
    /\ length (buckets st) = N.to_nat (bcount st)
    /\ (forall b, (b < length (buckets st))%nat ->
                  exists l, is_chain (store st) (nth b (buckets st) None) l /\ NoDup l).
Proof. exact run_shape_ok. Qed.
Print Assumptions C31_bucket_nodup.

(** (b) Over all responses of a run: equal keys got the same node and different keys different
    nodes; the node returned is published and carries the requested key; at most one response
    per key reports [inserted = true], and exactly one once every thread has finished. *)
Theorem C31_get_unique_node :
  forall hash next_buckets next_max nb0 mx0 progs sched,
    policy_ok next_buckets -> nb0 <> 0 ->
    let st := fst (run hash next_buckets next_max nb0 mx0 progs sched) in
    let h := snd (run hash next_buckets next_max nb0 mx0 progs sched) in
    (forall r1 r2, In r1 h -> In r2 h -> (rkey r1 = rkey r2 <-> rnode r1 = rnode r2))
    /\ (forall r, In r h -> published st (rnode r) /\ keyof (store st) (rnode r) = rkey r)
    /\ (forall r, In r h -> (ins_count h (rkey r) <= 1)%nat)
    /\ (quiescent st = true -> forall r, In r h -> ins_count h (rkey r) = 1%nat).
Proof. exact run_resp_ok. Qed.
Print Assumptions C31_get_unique_node.

(** The key reported in a response is the key the thread was asked for: thread [t]'s response
    keys, in order, followed by its remaining to-do list, are its program. *)
Theorem C31_responses_follow_program :
  forall hash next_buckets next_max nb0 mx0 progs sched t,
    let '(st, h) := run hash next_buckets next_max nb0 mx0 progs sched in
    map rkey (filter (of_thread t) h) ++ todo (nth t (threads st) dthread) = nth t progs [].
Proof. exact run_responses_follow_program. Qed.
Print Assumptions C31_responses_follow_program.

(** (c) Whenever a run reaches a state where thread [g] is about to execute the rehash of
    [tryGrow]: every other thread is outside its lock(H)..unlock(H) window (idle, or waiting in
    beforeLockAllBut after having released its lane) -- in particular nobody is between its head
    load and its CAS --, the rehash step keeps the set of published nodes and all keys, installs
    the new BucketCount, and the resulting state satisfies (a) again. *)
Theorem C31_grow_preserves :
  forall hash next_buckets next_max nb0 mx0 progs sched g id,
    policy_ok next_buckets -> nb0 <> 0 ->
    let st := fst (run hash next_buckets next_max nb0 mx0 progs sched) in
    (g < length (threads st))%nat -> pcof st g = PRehash id ->
    (forall t, (t < length (threads st))%nat -> t <> g -> outside (pcof st t))
    /\ exists st', step hash next_buckets next_max st g = Some (st', [])
         /\ (forall x, published st' x <-> published st x)
         /\ (forall x, keyof (store st') x = keyof (store st) x)
         /\ bcount st' = next_buckets (bcount st) (size st)
         /\ shape_ok hash st'.
Proof. exact run_grow_preserves. Qed.
Print Assumptions C31_grow_preserves.

(** (d) Size is the number of published nodes whenever no thread is between its successful CAS
    and its increment of Size. *)
Theorem C31_size_counts_published :
  forall hash next_buckets next_max nb0 mx0 progs sched,
    policy_ok next_buckets -> nb0 <> 0 ->
    let st := fst (run hash next_buckets next_max nb0 mx0 progs sched) in
    existsb is_inc (threads st) = false ->
    exists ids, NoDup ids /\ (forall x, In x ids <-> published st x)
                /\ N.to_nat (size st) = length ids.
Proof. exact run_size_counts_published. Qed.
Print Assumptions C31_size_counts_published.

(** (f) Bounded exhaustive checks of the executable monitor [mon] (= (a) and (b) and (d), as
    run by the driver) and of the absence of stuck configurations, over every schedule of the
    three instances below (hash k = k mod 4, growth to 2b+1 buckets / 2m+1 max size):
    2 threads x 2 gets with one growth; 2 threads x 3 gets with two growths and contention on
    BeforeLockAll; 3 threads x 1 get with growth. *)
Theorem C31_exhaustive_2x2_one_growth : forall sched,
  let '(st, rs) := run hash4 grow_b grow_m 1 1 [[5; 9]; [5; 13]] sched in
  mon hash4 st rs = true /\ stuck hash4 grow_b grow_m (st, rs) = false.
Proof. exact exhaustive_2x2_one_growth. Qed.
Print Assumptions C31_exhaustive_2x2_one_growth.

Theorem C31_exhaustive_2x3_contended_growth : forall sched,
  let '(st, rs) := run hash4 grow_b grow_m 1 0 [[5; 9; 13]; [9; 5; 13]] sched in
  mon hash4 st rs = true /\ stuck hash4 grow_b grow_m (st, rs) = false.
Proof. exact exhaustive_2x3_contended_growth. Qed.
Print Assumptions C31_exhaustive_2x3_contended_growth.

Theorem C31_exhaustive_3x1_growth : forall sched,
  let '(st, rs) := run hash4 grow_b grow_m 1 1 [[5]; [9]; [5]] sched in
  mon hash4 st rs = true /\ stuck hash4 grow_b grow_m (st, rs) = false.
Proof. exact exhaustive_3x1_growth. Qed.
Print Assumptions C31_exhaustive_3x1_growth.

(** ** The flyweight ([ConcurrentFlyweight]: SymbolTableImpl encode/decode, RecordTable pack/unpack)

    [frun rf cap0 progs sched]: same conventions as [run]; [rf] = FirstSlotIsReserved (true for
    record tables: index 0 is the nil record), [cap0] = InitialCapacity, a program is a list of
    [OIns key] (findOrInsert = encode / pack) and [OFetch index] (fetch = decode / unpack);
    responses are [RIns key index inserted] and [RFetch index result]. [Mapping.get] is one
    step of this model (see FlyweightDefs.v for why that is what the hash-map theorems give).
    [fetch_now st i] is what [fetch(i)] reads in state [st]. *)

(** Equal values get the same reference and different values different references; decoding a
    reference that was handed out returns the original value (in the final state of any run, hence
    at any later time); the nil index 0 is never handed out by a reserve-first table; a fetch
    that returned a value returned the value interned at that index. *)
Theorem C31_flyweight_bijection :
  forall rf cap0 progs sched, cap0 <> 0 ->
    let st := fst (frun rf cap0 progs sched) in
    let h := snd (frun rf cap0 progs sched) in
    (forall t1 t2 k1 k2 i1 i2 b1 b2,
        In (t1, RIns k1 i1 b1) h -> In (t2, RIns k2 i2 b2) h -> (k1 = k2 <-> i1 = i2))
    /\ (forall t k i b, In (t, RIns k i b) h -> fetch_now st i = Some k)
    /\ (rf = true -> forall t k i b, In (t, RIns k i b) h -> i <> 0)
    /\ (forall t i k, In (t, RFetch i (Some k)) h -> fetch_now st i = Some k).
Proof. exact frun_bijection. Qed.
Print Assumptions C31_flyweight_bijection.

(** In a quiescent state reached by any run (whatever slot-array growth happened on the way, and
    whatever reserved-but-unused slots the lanes still hold), the iterator begin()..end() yields
    exactly the assigned indices, each once, in increasing order (it is the list of indices
    below NextSlot that are neither a lane's reserved slot nor the nil index); the values it
    shows are pairwise distinct and include every value ever interned. *)
Theorem C31_iter_lists_each_once :
  forall rf cap0 progs sched, cap0 <> 0 ->
    let st := fst (frun rf cap0 progs sched) in
    let h := snd (frun rf cap0 progs sched) in
    fnext st < END -> fquiescent st = true ->
    iterate rf st = filter (asg rf st) (rangeN 0 (fnext st))
    /\ NoDup (iterate rf st)
    /\ (forall i, In i (iterate rf st) <-> assigned st i)
    /\ NoDup (map (fetch_now st) (iterate rf st))
    /\ (forall t k i b, In (t, RIns k i b) h -> In i (iterate rf st) /\ fetch_now st i = Some k).
Proof. exact frun_iter_lists_each_once. Qed.
Print Assumptions C31_iter_lists_each_once.

(** Slot-array growth: when lane [g] is in the safe section of [tryGrow], every other thread is
    outside its lane (idle or waiting in beforeLockAllBut), and the growth step keeps what every
    existing index decodes to and the set of interned values. *)
Theorem C31_flyweight_grow_preserves :
  forall rf cap0 progs sched g, cap0 <> 0 ->
    let st := fst (frun rf cap0 progs sched) in
    (g < length (fthreads st))%nat -> fpcof st g = FGrow ->
    (forall t, (t < length (fthreads st))%nat -> t <> g -> foutside (fpcof st t))
    /\ exists st', fstep st g = Some (st', [])
         /\ fcount st < fcount st'
         /\ (forall i, i < fcount st -> fetch_now st' i = fetch_now st i)
         /\ fmap st' = fmap st.
Proof. exact frun_grow_preserves. Qed.
Print Assumptions C31_flyweight_grow_preserves.

(** Bounded exhaustive checks of the executable monitor [fmon] (bijection over the responses,
    decode after encode, nil never handed out, fetch never wrong, iterator = assigned indices at
    quiescence) and of the absence of stuck configurations, over every schedule of: a
    reserve-first table of capacity 2 with 2 lanes x (2 inserts + 1 fetch), growth contended;
    a symbol-style table of capacity 1 with 2 lanes x 2 inserts of the same keys in opposite
    orders; 3 lanes x 1 insert with growth. *)
Theorem C31_fexhaustive_2x3_reserve_first : forall sched,
  let '(st, rs) := frun true 2 [[OIns 5; OIns 9; OFetch 1]; [OIns 5; OIns 13; OFetch 2]] sched in
  fmon true st rs = true /\ fstuck (st, rs) = false.
Proof. exact fexhaustive_2x3_reserve_first. Qed.
Print Assumptions C31_fexhaustive_2x3_reserve_first.

Theorem C31_fexhaustive_2x2_symbols : forall sched,
  let '(st, rs) := frun false 1 [[OIns 5; OIns 9]; [OIns 9; OIns 5]] sched in
  fmon false st rs = true /\ fstuck (st, rs) = false.
Proof. exact fexhaustive_2x2_symbols. Qed.
Print Assumptions C31_fexhaustive_2x2_symbols.

Theorem C31_fexhaustive_3x1_growth : forall sched,
  let '(st, rs) := frun true 1 [[OIns 5]; [OIns 9]; [OIns 5]] sched in
  fmon true st rs = true /\ fstuck (st, rs) = false.
Proof. exact fexhaustive_3x1_growth. Qed.
Print Assumptions C31_fexhaustive_3x1_growth.
