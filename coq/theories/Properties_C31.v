(** C31 -- Symbol and record interning is a bijection under concurrency (hash-map part).
    Only statements here; proofs are in HashMapLemmas.v. The model (HashMapDefs.v) follows
    src/include/souffle/datastructure/ConcurrentInsertOnlyHashMap.h ([get], [tryGrow]) and
    src/include/souffle/utility/ParallelUtil.h ([MutexConcurrentLanes]) step by step; it is tied
    to the real code by the step-level correspondence run by `./check C31`.

    Reading guide. [run hash next_buckets next_max nb0 mx0 progs sched] executes the schedule
    [sched] (a list of thread ids; one atomic step of that thread per entry, entries of blocked or
    finished threads are skipped) from the empty map with [nb0] buckets, on one thread per lane
    where thread [t] calls [get] on the keys [nth t progs []] in order; it returns the final
    state and the responses [(thread, RGet key node inserted)] in global order. Every theorem
    quantifies over all [progs] and all [sched], i.e. over every number of lanes, every history
    and every interleaving of the atomic steps. [published st id]: node [id] is reachable from a
    bucket head through [Next] pointers. [policy_ok next_buckets]: the growth policy never asks
    for 0 buckets. *)
From SV Require Import HashMapDefs HashMapLemmas.
Local Open Scope N_scope.

(** (a) In every reachable state no key occurs in two published nodes, a node reachable from
    bucket [b] carries a key that hashes to [b] under the current BucketCount, the bucket array
    has BucketCount entries and every bucket list is finite, null-terminated and repetition free. *)
Theorem C31_bucket_nodup :
  forall hash next_buckets next_max nb0 mx0 progs sched,
    policy_ok next_buckets -> nb0 <> 0 ->
    let st := fst (run hash next_buckets next_max nb0 mx0 progs sched) in
    (forall id1 id2, published st id1 -> published st id2 ->
                     keyof (store st) id1 = keyof (store st) id2 -> id1 = id2)
    /\ (forall b id, reach (store st) (nth b (buckets st) None) id ->
                     b = bucket_of hash (bcount st) (keyof (store st) id))
    /\ length (buckets st) = N.to_nat (bcount st)
    /\ (forall b, (b < length (buckets st))%nat ->
                  exists l, is_chain (store st) (nth b (buckets st) None) l /\ NoDup l).
Proof. exact run_shape_ok. Qed.
Print Assumptions C31_bucket_nodup.

(** (b) Over all responses of a run: equal keys got the same node and different keys different
    nodes; the node returned is published and carries the requested key; at most one response
    per key reports [inserted = true], and exactly one once every thread has finished. *)
Theorem C31_get_unique_node :
  forall hash next_buckets next_max nb0 mx0 progs sched,
    policy_ok next_buckets -> nb0 <> 0 ->
    let st := fst (run hash next_buckets next_max nb0 mx0 progs sched) in
    let h := snd (run hash next_buckets next_max nb0 mx0 progs sched) in
    (forall r1 r2, In r1 h -> In r2 h -> (rkey r1 = rkey r2 <-> rnode r1 = rnode r2))
    /\ (forall r, In r h -> published st (rnode r) /\ keyof (store st) (rnode r) = rkey r)
    /\ (forall r, In r h -> (ins_count h (rkey r) <= 1)%nat)
    /\ (quiescent st = true -> forall r, In r h -> ins_count h (rkey r) = 1%nat).
Proof. exact run_resp_ok. Qed.
Print Assumptions C31_get_unique_node.

(** The key reported in a response is the key the thread was asked for: thread [t]'s response
    keys, in order, followed by its remaining to-do list, are its program. *)
Theorem C31_responses_follow_program :
  forall hash next_buckets next_max nb0 mx0 progs sched t,
    let '(st, h) := run hash next_buckets next_max nb0 mx0 progs sched in
    map rkey (filter (of_thread t) h) ++ todo (nth t (threads st) dthread) = nth t progs [].
Proof. exact run_responses_follow_program. Qed.
Print Assumptions C31_responses_follow_program.

(** (c) Whenever a run reaches a state where thread [g] is about to execute the rehash of
    [tryGrow]: every other thread is outside its lock(H)..unlock(H) window (idle, or waiting in
    beforeLockAllBut after having released its lane) -- in particular nobody is between its head
    load and its CAS --, the rehash step keeps the set of published nodes and all keys, installs
    the new BucketCount, and the resulting state satisfies (a) again. *)
Theorem C31_grow_preserves :
  forall hash next_buckets next_max nb0 mx0 progs sched g id,
    policy_ok next_buckets -> nb0 <> 0 ->
    let st := fst (run hash next_buckets next_max nb0 mx0 progs sched) in
    (g < length (threads st))%nat -> pcof st g = PRehash id ->
    (forall t, (t < length (threads st))%nat -> t <> g -> outside (pcof st t))
    /\ exists st', step hash next_buckets next_max st g = Some (st', [])
         /\ (forall x, published st' x <-> published st x)
         /\ (forall x, keyof (store st') x = keyof (store st) x)
         /\ bcount st' = next_buckets (bcount st) (size st)
         /\ shape_ok hash st'.
Proof. exact run_grow_preserves. Qed.
Print Assumptions C31_grow_preserves.

(** (d) Size is the number of published nodes whenever no thread is between its successful CAS
    and its increment of Size. *)
Theorem C31_size_counts_published :
  forall hash next_buckets next_max nb0 mx0 progs sched,
    policy_ok next_buckets -> nb0 <> 0 ->
    let st := fst (run hash next_buckets next_max nb0 mx0 progs sched) in
    existsb is_inc (threads st) = false ->
    exists ids, NoDup ids /\ (forall x, In x ids <-> published st x)
                /\ N.to_nat (size st) = length ids.
Proof. exact run_size_counts_published. Qed.
Print Assumptions C31_size_counts_published.

(** (f) Bounded exhaustive checks of the executable monitor [mon] (= (a) and (b) and (d), as
    run by the driver) and of the absence of stuck configurations, over every schedule of the
    three instances below (hash k = k mod 4, growth to 2b+1 buckets / 2m+1 max size):
    2 threads x 2 gets with one growth; 2 threads x 3 gets with two growths and contention on
    BeforeLockAll; 3 threads x 1 get with growth. *)
Theorem C31_exhaustive_2x2_one_growth : forall sched,
  let '(st, rs) := run hash4 grow_b grow_m 1 1 [[5; 9]; [5; 13]] sched in
  mon hash4 st rs = true /\ stuck hash4 grow_b grow_m (st, rs) = false.
Proof. exact exhaustive_2x2_one_growth. Qed.
Print Assumptions C31_exhaustive_2x2_one_growth.

Theorem C31_exhaustive_2x3_contended_growth : forall sched,
  let '(st, rs) := run hash4 grow_b grow_m 1 0 [[5; 9; 13]; [9; 5; 13]] sched in
  mon hash4 st rs = true /\ stuck hash4 grow_b grow_m (st, rs) = false.
Proof. exact exhaustive_2x3_contended_growth. Qed.
Print Assumptions C31_exhaustive_2x3_contended_growth.

Theorem C31_exhaustive_3x1_growth : forall sched,
  let '(st, rs) := run hash4 grow_b grow_m 1 1 [[5]; [9]; [5]] sched in
  mon hash4 st rs = true /\ stuck hash4 grow_b grow_m (st, rs) = false.
Proof. exact exhaustive_3x1_growth. Qed.
Print Assumptions C31_exhaustive_3x1_growth.
