(** C30 -- The optimistic read-write lock protocol is safe.
    Only statements here; proofs are in LockLemmas.v, the model in LockDefs.v
    (src/include/souffle/utility/ParallelUtil.h, class OptimisticReadWriteLock; one model step =
    one atomic operation load / fetch_or / fetch_add / fetch_sub on [version], a 32-bit
    two's-complement word). All theorems but the two bounded ones quantify over any number of
    clients, any scripts and any schedule; [v0] is the (even) version of the quiescent lock the
    run starts from -- the constructor gives 0, and [reachable st = reachable_from 0 st]. *)
From SV Require Import LockDefs LockLemmas.
Local Open Scope Z_scope.

(** At most one writer: in every reachable state version is odd iff exactly one client is in a
    write phase, and two clients never are. *)
Theorem C30_at_most_one_writer : forall v0 st,
  in_range32 v0 -> Z.odd v0 = false -> reachable_from v0 st ->
  (Z.odd (s_version st) = true <-> writers st = 1%nat) /\
  (Z.odd (s_version st) = true <-> exists t, phase_of st t = Writing) /\
  (writers st <= 1)%nat /\
  (forall t1 t2, phase_of st t1 = Writing -> phase_of st t2 = Writing -> t1 = t2).
Proof. exact at_most_one_writer. Qed.
Print Assumptions C30_at_most_one_writer.

(** "In a write phase" ([phase_of .. = Writing], a program-counter range) is the same as the
    trace-level notion: the client's last fetch_or that returned an even value has not been
    followed by a fetch_add (end_write) or fetch_sub (abort_write) of that client. *)
Theorem C30_write_phase_spec : forall v0 scripts sched t,
  phase_of (fst (run_from v0 scripts sched)) t = Writing <->
  holds_write t (exec_ops (init v0 scripts) sched) = true.
Proof. exact write_phase_spec. Qed.
Print Assumptions C30_write_phase_spec.

(** Validation is sound. Client [t] obtains lease [l] by the step after [s1] (the successful load
    of start_read), the schedule [s2] runs (events [evs]; [t] takes no new lease in it), then a
    validate / end_read / try_upgrade_to_write of [t] succeeds. If fewer than 2^31 end_write calls
    completed in between, then none did, no write phase is active at the validation, version is
    again [l], and in between version was only ever [l] or [l+1] (write phases that were aborted). *)
Theorem C30_validate_sound :
  forall v0 scripts s1 t s2 st_i st_i' r_i l st_j evs st_j' r_j m,
  in_range32 v0 -> Z.odd v0 = false ->
  st_i = fst (run_from v0 scripts s1) ->
  step st_i t = Some (st_i', r_i) -> In (MStartRead, RLease l) r_i ->
  exec st_i' s2 = (st_j, evs) ->
  (forall l', ~ In (t, MStartRead, RLease l') evs) ->
  step st_j t = Some (st_j', r_j) -> In (m, RBool true) r_j ->
  m = MValidate \/ m = MEndRead \/ m = MTryUpgrade ->
  count_end_write evs < 2 ^ 31 ->
  count_end_write evs = 0 /\ writers st_j = 0%nat /\ s_version st_j = l /\
  (forall p q, s2 = p ++ q -> let v := s_version (fst (exec st_i' p)) in v = l \/ v = l + 1).
Proof. exact validate_sound. Qed.
Print Assumptions C30_validate_sound.

(** The bound is necessary: a run in which a validate succeeds although 2^31 write phases
    completed inside the read phase (the 32-bit version wrapped around to the lease's value). *)
Theorem C30_validate_unbounded_refuted :
  exists scripts s1 t s2 st_i' l st_j evs st_j',
    step (fst (run scripts s1)) t = Some (st_i', [(MStartRead, RLease l)]) /\
    exec st_i' s2 = (st_j, evs) /\
    (forall l', ~ In (t, MStartRead, RLease l') evs) /\
    step st_j t = Some (st_j', [(MValidate, RBool true)]) /\
    count_end_write evs = 2 ^ 31.
Proof. exact validate_unbounded_refuted. Qed.
Print Assumptions C30_validate_unbounded_refuted.

(** abort_write restores the version. The step of [t] after [s1] begins a write phase of [t]
    (from [st0] to [st1]); others run ([s2]); the next step of [t] is the fetch_sub of
    abort_write (called directly or from inside try_upgrade_to_write). Then version is back at
    its value before the write phase, was that value + 1 throughout, no client's lease changed,
    so every lease that was valid before the aborted write is valid after it. *)
Theorem C30_abort_restores :
  forall v0 scripts s1 t s2 st0 st1 r1 st2 st3 r3,
  in_range32 v0 -> Z.odd v0 = false ->
  st0 = fst (run_from v0 scripts s1) ->
  step st0 t = Some (st1, r1) -> phase_of st0 t <> Writing -> phase_of st1 t = Writing ->
  ~ In t s2 -> st2 = fst (exec st1 s2) ->
  step st2 t = Some (st3, r3) -> step_atomic st2 t = Some AFetchSub ->
  s_version st1 = s_version st0 + 1 /\ s_version st2 = s_version st0 + 1 /\
  s_version st3 = s_version st0 /\
  (forall t', lease_of st3 t' = lease_of st0 t') /\
  (forall t', lease_of st0 t' = s_version st0 -> lease_of st3 t' = s_version st3).
Proof. exact abort_restores. Qed.
Print Assumptions C30_abort_restores.

(** A step that leaves its client at the same program point (a spin of start_read or
    start_write) occurs only while version is odd, i.e. while another client is in a write phase. *)
Theorem C30_spin_only_under_writer : forall v0 st t st' rs,
  in_range32 v0 -> Z.odd v0 = false -> reachable_from v0 st ->
  step st t = Some (st', rs) -> client_at st' t = client_at st t ->
  rs = [] /\ Z.odd (s_version st) = true /\ exists t', t' <> t /\ phase_of st t' = Writing.
Proof. exact spin_only_under_writer. Qed.
Print Assumptions C30_spin_only_under_writer.

(** No livelock without a concurrent writer: if no other client is in a write phase, a step of
    [t] strictly decreases [t]'s progress measure (bounded by 5 per block of its script) and
    completes a method call at the first attempt -- except the fetch_or of
    try_upgrade_to_write with a stale lease, after which [t] itself holds the write bit and its
    very next step (the fetch_sub of the internal abort_write) completes the call. *)
Theorem C30_no_spin_without_writer : forall v0 st t st' rs,
  in_range32 v0 -> Z.odd v0 = false -> reachable_from v0 st ->
  (forall t', t' <> t -> phase_of st t' <> Writing) ->
  step st t = Some (st', rs) ->
  exists c c', client_at st t = Some c /\ client_at st' t = Some c' /\
    (client_measure c' < client_measure c)%nat /\
    (rs <> [] \/
     (phase_of st' t = Writing /\ step_atomic st' t = Some AFetchSub /\
      forall st2 st3 rs3, client_at st2 t = Some c' -> step st2 t = Some (st3, rs3) ->
                          rs3 = [(MTryUpgrade, RBool false)])).
Proof. exact no_spin_without_writer. Qed.
Print Assumptions C30_no_spin_without_writer.

(** Bounded exhaustive check (explorer over all interleavings with a visited set; its closure
    check is proved sound, LockLemmas.closed_check_sound). BOUND: 3 clients, one block each --
    every one of the 7^3 assignments of R, W+, W-, T+, T-, U+, U- -- from initial version 0,
    2^31-2 (fetch_add wraps to -2^31 during the run) and -2; every schedule of every length. The
    monitor [mon_ok] checks at each step: at most one writer, version odd <-> one writer, and for
    each successful validate / end_read / try_upgrade_to_write that no end_write completed since
    that client's start_read and no write phase is active. *)
Theorem C30_lock_bounded_exhaustive :
  forall (v0 : Z) (b0 b1 b2 : block) (sched : list nat),
    In v0 [0; 2 ^ 31 - 2; -2] ->
    mon_ok v0 [[b0]; [b1]; [b2]] sched = true.
Proof. exact lock_bounded_exhaustive. Qed.
Print Assumptions C30_lock_bounded_exhaustive.

(** BOUND: 2 clients, two blocks each (all 7^4 assignments), initial version 0, every schedule. *)
Theorem C30_lock_bounded_exhaustive_2x2 :
  forall (a0 a1 b0 b1 : block) (sched : list nat),
    mon_ok 0 [[a0; a1]; [b0; b1]] sched = true.
Proof. exact lock_bounded_exhaustive_2x2. Qed.
Print Assumptions C30_lock_bounded_exhaustive_2x2.

(** What an accepting verdict says about the states of the run. *)
Theorem C30_monitor_checks_states : forall v0 scripts sched,
  mon_ok v0 scripts sched = true ->
  forall p q, sched = p ++ q ->
    let st := fst (run_from v0 scripts p) in
    (writers st <= 1)%nat /\ (Z.odd (s_version st) = true <-> writers st = 1%nat).
Proof. exact mon_ok_states. Qed.
Print Assumptions C30_monitor_checks_states.

(** The same monitor, deductively: it accepts every run of any number of clients with any
    scripts under any schedule, as long as fewer than 2^31 end_write calls complete. *)
Theorem C30_monitor_accepts_all_runs : forall v0 scripts sched,
  in_range32 v0 -> Z.odd v0 = false ->
  count_end_write (snd (run_from v0 scripts sched)) < 2 ^ 31 ->
  mon_ok v0 scripts sched = true.
Proof. exact monitor_accepts_all_runs. Qed.
Print Assumptions C30_monitor_accepts_all_runs.
