(** Executable model of Souffle's Brie (C27).

    Subject: src/include/souffle/datastructure/Brie.h
      [SparseArray<T,BITS>]  ([getLeaf]/[getAtomic]/[update], [lookup], [find], [begin], the iterator
                              [SparseArrayIter::operator++], [raiseLevel], [inBoundaries], [getIndex],
                              [getLevelMask]),
      [SparseBitMap<4>]      ([set], [test], [find], [begin], [SparseBitMapIter::operator++], [size]),
      [Trie<Dim>]            ([insert], [contains], [begin]/[end], [iterator_core::inc], [size],
                              [getBoundaries<k>] with [fix_binding]/[fix_first]).

    Sequential semantics only: one operation after the other, each with a fresh [op_context] (the
    overloads without a context argument), so the "last node" shortcuts never fire. The lock-free
    CAS protocol of concurrent inserts is not modelled.

    Representation. The C++ tree of [Node]s (2^BITS cells per node, [levels]+1 node levels, leaf
    cells hold values) is represented by the list of its non-default leaf cells, each addressed by
    its *structural position*: the number whose base-2^BITS digits are the cell numbers on the path
    from the root to the cell (most significant digit = cell in the root). The list is kept sorted by
    position, which is the order in which the C++ code scans cells. An inner/leaf node exists iff
    some entry has the node's path as a prefix (in the operations modelled every [getLeaf] is
    followed by a store of a non-default value). The position is *not* assumed to agree with the
    index: it is computed digit by digit with [getIndex] exactly as [getLeaf]/[lookup] do, and
    [raiseLevel] prepends the digit it computes. That is what makes the defect visible.

    Shifts. A C++ shift by 64 or more is undefined. [shmode] selects what the model does with it:
    [UBexplicit] - the operation has no result ([None]); [X86] - the count is reduced mod 64 (what
    shl/shr do on x86-64, and what the binaries built from the unchanged header do).
    [None] also stands for a failed [assert] and for exhausted fuel.

    The switch [fx] selects the repaired header (see BrieLemmas.v, section "the repair"):
    [getIndex] takes the full 64-bit index (no [brie_element_type] narrowing at the call sites) and
    returns 0 instead of shifting by >= 64.

    Definitions only; proofs are in BrieLemmas.v. *)
From Coq Require Export List NArith ZArith Bool.
Export ListNotations.
Local Open Scope N_scope.

Notation "'do' x <- a ; b" := (match a with Some x => b | None => None end)
  (at level 200, x pattern, a at level 100, b at level 200, right associativity).

(** ** Index arithmetic *)

Definition W64 : N := 2 ^ 64.

(** [RamDomain] (int32) -> [index_type] (uint64_t): implicit conversion = sign extension. *)
Definition idx_of_key (k : Z) : N := Z.to_N (k mod 2 ^ 64)%Z.
(** [brie_element_type(i)]: narrowing uint64_t -> int32 (two's complement, low 32 bits). *)
Definition key_of_idx (i : N) : Z :=
  let r := Z.of_N (i mod 2 ^ 32) in if (r <? 2 ^ 31)%Z then r else (r - 2 ^ 32)%Z.
(** what [getIndex(brie_element_type(i), level)] sees of [i] once the int32 argument is converted
    back to uint64_t for the [&]. *)
Definition cast32 (i : N) : N := idx_of_key (key_of_idx i).

Inductive shmode := UBexplicit | X86.

(** the shift count actually used for a requested count [s] *)
Definition shcount (m : shmode) (s : N) : option N :=
  if s <? 64 then Some s else match m with X86 => Some (s mod 64) | UBexplicit => None end.

(** 64-bit left shift (count already < 64) *)
Definition shl64 (a s : N) : N := N.shiftl a s mod W64.

(** [INDEX_MASK = NUM_CELLS - 1], [NUM_CELLS = 1 << BITS] *)
Definition index_mask (b : N) : N := N.ones b.
Definition num_cells (b : N) : N := 2 ^ b.

(** [(a & (INDEX_MASK << s)) >> s] *)
Definition getIndex_at (b a s : N) : N := N.shiftr (N.land a (shl64 (index_mask b) s)) s.

(** Brie.h:1482 [getIndex(a, level)], [a] already converted to uint64_t. Undefined for
    [level * BITS >= 64]. *)
Definition getIndex (b a level : N) : option N :=
  if level * b <? 64 then Some (getIndex_at b a (level * b)) else None.
(** the same on x86-64 (shift counts are taken mod 64 by the hardware) *)
Definition getIndex_x86 (b a level : N) : N := getIndex_at b a ((level * b) mod 64).
Definition getIndexM (m : shmode) (b a level : N) : option N :=
  option_map (getIndex_at b a) (shcount m (level * b)).
(** the repaired [getIndex]: [if (level * BIT_PER_STEP >= 64) return 0;] in front *)
Definition getIndex_fx (b a level : N) : N :=
  if 64 <=? level * b then 0 else getIndex_at b a (level * b).

(** a call [getIndex(brie_element_type(i), level)] (unchanged header) resp. [getIndex(i, level)]
    (repaired header) *)
Definition gi (fx : bool) (m : shmode) (b i level : N) : option N :=
  if fx then Some (getIndex_fx b i level) else getIndexM m b (cast32 i) level.

(** Brie.h:1490 [getLevelMask(level)]: 0 above 64/BITS levels, else [~0 << (level * BITS)] *)
Definition getLevelMaskM (m : shmode) (b level : N) : option N :=
  if 64 / b <? level then Some 0 else option_map (shl64 (N.ones 64)) (shcount m (level * b)).

(** ** Sorted association lists: structural position -> value *)
Section Cells.
  Context {V : Type}.
  Fixpoint cells_get (p : N) (l : list (N * V)) : option V :=
    match l with [] => None | (q, v) :: r => if q =? p then Some v else cells_get p r end.
  Fixpoint cells_put (p : N) (v : V) (l : list (N * V)) : list (N * V) :=
    match l with
    | [] => [(p, v)]
    | (q, w) :: r => if p <? q then (p, v) :: (q, w) :: r
                     else if q =? p then (p, v) :: r else (q, w) :: cells_put p v r
    end.
  (** first entry at a position >= lo *)
  Fixpoint cells_from (lo : N) (l : list (N * V)) : option (N * V) :=
    match l with [] => None | (q, v) :: r => if lo <=? q then Some (q, v) else cells_from lo r end.
  Definition cells_shift (d : N) (l : list (N * V)) : list (N * V) :=
    map (fun e => (fst e + d, snd e)) l.
End Cells.

(** ** SparseArray *)
Record sa (V : Type) := mkSA {
  sa_levels : nat;            (* unsynced.levels *)
  sa_offset : N;              (* unsynced.offset *)
  sa_cells : list (N * V);    (* the non-default leaf cells by structural position; root == nullptr iff [] *)
  sa_first : N;               (* unsynced.first: the leaf node, as structural position / NUM_CELLS *)
  sa_firstOffset : N          (* unsynced.firstOffset *)
}.
Arguments mkSA {V}. Arguments sa_levels {V}. Arguments sa_offset {V}. Arguments sa_cells {V}.
Arguments sa_first {V}. Arguments sa_firstOffset {V}.

(** an iterator: [None] = end (node == nullptr), else (leaf node, value.first, value.second) *)
Definition sait (V : Type) : Type := option (N * N * V).

Section SA.
  Context {V : Type}.
  Variable fx : bool.
  Variable m : shmode.
  Variable b : N.             (* BITS *)

  (** [SparseArray()] : levels 0, offset 0, no root, firstOffset = max *)
  Definition sa_empty : sa V := mkSA 0 0 [] 0 (W64 - 1).

  (** [inBoundaries(i, levels, offset)] *)
  Definition sa_inb (s : sa V) (i : N) : option bool :=
    do mk <- getLevelMaskM m b (N.of_nat (sa_levels s) + 1);
    Some (N.land i mk =? sa_offset s).

  (** [raiseLevel]: the old root becomes cell [x] of a new root *)
  Definition sa_raise (s : sa V) : option (sa V) :=
    let L := N.of_nat (sa_levels s) in
    if 64 / b + 1 <=? L then None (* assert(levels < 64/BITS + 1) *) else
    do x <- gi fx m b (sa_offset s) (L + 1);
    do mk <- getLevelMaskM m b (L + 2);
    Some (mkSA (S (sa_levels s)) (N.land (sa_offset s) mk)
               (cells_shift (x * 2 ^ (b * (L + 1))) (sa_cells s))
               (sa_first s + x * 2 ^ (b * L)) (sa_firstOffset s)).

  (** [while (!inBoundaries(i, ...)) raiseLevel(...)] *)
  Fixpoint sa_raise_loop (fuel : nat) (s : sa V) (i : N) : option (sa V) :=
    match fuel with
    | O => None
    | S f => do inb <- sa_inb s i;
             if inb then Some s else do s' <- sa_raise s; sa_raise_loop f s' i
    end.

  (** the navigation loop [while (level != 0) { x = getIndex(i, level); --level; node = node->cell[x] }]
      followed by [cell[i & INDEX_MASK]]: the structural position addressed by [i] *)
  Fixpoint sa_nav (i : N) (level : nat) : option N :=
    match level with
    | O => Some (N.land i (index_mask b))
    | S l => do x <- gi fx m b i (N.of_nat level);
             do r <- sa_nav i l;
             Some (x * 2 ^ (b * N.of_nat level) + r)
    end.

  Definition leaf_exists (q : N) (cells : list (N * V)) : bool :=
    existsb (fun e => fst e / num_cells b =? q) cells.

  (** [getLeaf(i, ctxt)] with a fresh context: the array with the path to the cell created, and the
      structural position of the cell. *)
  Definition sa_locate (s : sa V) (i : N) : option (sa V * N) :=
    let off := N.ldiff i (index_mask b) in      (* i & ~INDEX_MASK *)
    match sa_cells s with
    | [] => (* root == nullptr: the new root is a leaf *)
        let upd := off <? sa_firstOffset s in
        Some (mkSA (sa_levels s) off [] (if upd then 0 else sa_first s)
                   (if upd then off else sa_firstOffset s),
              N.land i (index_mask b))
    | _ :: _ =>
        do s1 <- sa_raise_loop (N.to_nat (64 / b) + 3) s i;
        do pos <- sa_nav i (sa_levels s1);
        let q := pos / num_cells b in
        let upd := negb (leaf_exists q (sa_cells s1)) && (off <? sa_firstOffset s1) in
        Some (mkSA (sa_levels s1) (sa_offset s1) (sa_cells s1)
                   (if upd then q else sa_first s1) (if upd then off else sa_firstOffset s1),
              pos)
    end.

  (** the store through the reference returned by [getLeaf] *)
  Definition sa_put (s : sa V) (pos : N) (v : V) : sa V :=
    mkSA (sa_levels s) (sa_offset s) (cells_put pos v (sa_cells s)) (sa_first s) (sa_firstOffset s).

  (** [update(i, val)] *)
  Definition sa_update (s : sa V) (i : N) (v : V) : option (sa V) :=
    do (s1, pos) <- sa_locate s i; Some (sa_put s1 pos v).

  (** [lookup(i)]: [None] = the default value *)
  Definition sa_get (s : sa V) (i : N) : option (option V) :=
    match sa_cells s with
    | [] => Some None
    | _ :: _ => do inb <- sa_inb s i;
                if inb then do pos <- sa_nav i (sa_levels s); Some (cells_get pos (sa_cells s))
                else Some None
    end.

  (** [find(i)] *)
  Definition sa_find (s : sa V) (i : N) : option (sait V) :=
    match sa_cells s with
    | [] => Some None
    | _ :: _ => do inb <- sa_inb s i;
                if inb then
                  do pos <- sa_nav i (sa_levels s);
                  Some (match cells_get pos (sa_cells s) with
                        | Some v => Some (pos / num_cells b, i, v) | None => None end)
                else Some None
    end.

  (** the "going down" part of [operator++] towards the entry at position [p]: on every level
      [value.first &= getLevelMask(level + 1); value.first |= x << (BITS * level)], at the leaf
      [value.first |= x] *)
  Fixpoint sa_down (p : N) (level : nat) (vf : N) : option N :=
    match level with
    | O => Some (N.lor vf (p mod num_cells b))
    | S l => do mk <- getLevelMaskM m b (N.of_nat level + 1);
             do sh <- shcount m (b * N.of_nat level);
             let x := (p / 2 ^ (b * N.of_nat level)) mod num_cells b in
             sa_down p l (N.lor (N.land vf mk) (shl64 x sh))
    end.

  (** the loop [while (level > 0 && node)] of [operator++]; [pn] is the node (structural position
      divided by NUM_CELLS^(level+1)... i.e. the path to it), [x] the first cell to look at *)
  Fixpoint sa_up (s : sa V) (fuel : nat) (level : nat) (pn x vf : N) : option (sait V) :=
    match fuel with
    | O => None
    | S f =>
      if (sa_levels s <? level)%nat then Some None (* node == nullptr: end *) else
      let unit := 2 ^ (b * N.of_nat level) in
      let hit := if x <? num_cells b then cells_from ((pn * num_cells b + x) * unit) (sa_cells s)
                 else None in
      match hit with
      | Some (p, v) =>
          if p / (unit * num_cells b) =? pn then
            (* a child >= x exists: go down to its first entry *)
            do vf' <- sa_down p level vf; Some (Some (p / num_cells b, vf', v))
          else
            do xn <- gi fx m b vf (N.of_nat level + 1);
            sa_up s f (S level) (pn / num_cells b) (xn + 1) vf
      | None =>
          (* going up: node = node->parent; level++; x = getIndex(value.first, level) + 1
             (evaluated even when the parent is null) *)
          do xn <- gi fx m b vf (N.of_nat level + 1);
          sa_up s f (S level) (pn / num_cells b) (xn + 1) vf
      end
    end.

  (** [SparseArrayIter::operator++] from leaf node [q] with [value.first = vf] *)
  Definition sa_next (s : sa V) (q vf : N) : option (sait V) :=
    let x := N.land vf (index_mask b) in
    let same := match cells_from (q * num_cells b + x + 1) (sa_cells s) with
                | Some (p, v) => if p / num_cells b =? q then Some (p, v) else None
                | None => None end in
    match same with
    | Some (p, v) => Some (Some (q, N.lor (N.ldiff vf (index_mask b)) (p mod num_cells b), v))
    | None => do x1 <- gi fx m b vf 1;
              sa_up s (sa_levels s + 3) 1 (q / num_cells b) (x1 + 1) vf
    end.

  (** [begin()] = [iterator(first, firstOffset)] *)
  Definition sa_begin (s : sa V) : option (sait V) :=
    match sa_cells s with
    | [] => Some None
    | _ :: _ => match cells_get (sa_first s * num_cells b) (sa_cells s) with
                | Some v => Some (Some (sa_first s, sa_firstOffset s, v))
                | None => sa_next s (sa_first s) (sa_firstOffset s)
                end
    end.

  Fixpoint sa_iter_loop (s : sa V) (fuel : nat) (it : sait V) : option (list (N * V)) :=
    match it with
    | None => Some []
    | Some (q, vf, v) =>
        match fuel with
        | O => None
        | S f => do it' <- sa_next s q vf; do r <- sa_iter_loop s f it'; Some ((vf, v) :: r)
        end
    end.

  (** [for (auto it = begin(); it != end(); ++it)]: the pairs (index, value) as reported *)
  Definition sa_iter (s : sa V) : option (list (N * V)) :=
    do it <- sa_begin s; sa_iter_loop s (2 * length (sa_cells s) + 2) it.

  (** the same loop, collecting the iterators themselves (used by [partition]) *)
  Fixpoint sa_its_loop (s : sa V) (fuel : nat) (it : sait V) : option (list (N * N * V)) :=
    match it with
    | None => Some []
    | Some (q, vf, v) =>
        match fuel with
        | O => None
        | S f => do it' <- sa_next s q vf; do r <- sa_its_loop s f it'; Some ((q, vf, v) :: r)
        end
    end.
  Definition sa_its (s : sa V) : option (list (N * N * V)) :=
    do it <- sa_begin s; sa_its_loop s (2 * length (sa_cells s) + 2) it.
End SA.

(** ** SparseBitMap<4>: bit i lives in word [i >> 6] of a SparseArray<uint64_t, 4>, at bit [i & 63] *)
Definition BM_BITS : N := 4.
Definition SA_BITS : N := 6.

Fixpoint pos_ctz (p : positive) : N :=
  match p with xO q => 1 + pos_ctz q | _ => 0 end.
Definition ctz (w : N) : N := match w with N0 => 64 | Npos p => pos_ctz p end.
Fixpoint pos_popcount (p : positive) : N :=
  match p with xO q => pos_popcount q | xI q => 1 + pos_popcount q | xH => 1 end.
Definition popcount (w : N) : N := match w with N0 => 0 | Npos p => pos_popcount p end.

(** (iter, mask, value) *)
Definition bmit : Type := sait N * N * N.
Definition bmit_end : bmit := (None, 0, 0).

Section BM.
  Variable fx : bool.
  Variable m : shmode.

  (** [set(i)]: true iff the bit was not set before *)
  Definition bm_set (t : sa N) (i : N) : option (sa N * bool) :=
    do (s1, pos) <- sa_locate fx m BM_BITS t (N.shiftr i 6);
    let bit := N.shiftl 1 (N.land i 63) in
    let old := match cells_get pos (sa_cells s1) with Some w => w | None => 0 end in
    if N.land old bit =? 0 then Some (sa_put s1 pos (N.lor old bit), true) else Some (s1, false).

  (** [test(i)] *)
  Definition bm_test (t : sa N) (i : N) : option bool :=
    do r <- sa_get fx m BM_BITS t (N.shiftr i 6);
    Some (match r with Some w => negb (N.land w (N.shiftl 1 (N.land i 63)) =? 0) | None => false end).

  (** [moveToNextInMask] *)
  Definition bm_move (mask value : N) : option (N * N) :=
    if mask =? 0 then None
    else let p := ctz mask in Some (N.ldiff mask (N.shiftl 1 p), N.lor (N.ldiff value 63) p).

  (** [SparseBitMapIter(const nested_iterator&)] for a non-end nested iterator *)
  Definition bm_of_sait (it : sait N) : bmit :=
    match it with
    | Some (q, f, w) => let v := shl64 f 6 in
                        match bm_move w v with Some (mk, v') => (it, mk, v') | None => (it, w, v) end
    | None => bmit_end
    end.

  (** [begin()] *)
  Definition bm_begin (t : sa N) : option bmit :=
    do it <- sa_begin fx m BM_BITS t; Some (bm_of_sait it).

  (** [SparseBitMapIter::operator++] *)
  Definition bm_next (t : sa N) (it : bmit) : option bmit :=
    let '(si, mask, value) := it in
    match bm_move mask value with
    | Some (mk, v') => Some (si, mk, v')
    | None =>
        match si with
        | None => None (* assert(!isEnd()) in the nested ++ *)
        | Some (q, f, _) =>
            do si' <- sa_next fx m BM_BITS t q f;
            Some (match si' with
                  | Some (q', f', w') =>
                      let v := shl64 f' 6 in
                      match bm_move w' v with Some (mk, v') => (si', mk, v') | None => (si', w', v) end
                  | None => (None, mask, value)
                  end)
        end
    end.

  (** [find(i)] *)
  Definition bm_find (t : sa N) (i : N) : option bmit :=
    do it <- sa_find fx m BM_BITS t (N.shiftr i 6);
    match it with
    | None => Some bmit_end
    | Some (q, f, w) =>
        let bit := N.shiftl 1 (N.land i 63) in
        if N.land w bit =? 0 then Some bmit_end
        else Some (it, N.land w (bit - 1), i)     (* mask &= ((1ull << (i & 63)) - 1) *)
    end.

  (** [for (auto it = begin(); it != end(); ++it)] over the bits, collecting the iterators *)
  Fixpoint bm_its_loop (t : sa N) (fuel : nat) (it : bmit) : option (list bmit) :=
    match fst (fst it) with
    | None => Some []
    | Some _ =>
        match fuel with
        | O => None
        | S f => do it' <- bm_next t it; do r <- bm_its_loop t f it'; Some (it :: r)
        end
    end.

  (** [size()]: sum of the popcounts over the store's iteration *)
  Definition bm_size (t : sa N) : option N :=
    do l <- sa_iter fx m BM_BITS t; Some (fold_right (fun e acc => popcount (snd e) + acc) 0 l).

  (** [a == b] on bitmap iterators: [iter == other.iter && mask == other.mask] *)
  Definition sait_eqb {V} (a c : sait V) : bool :=
    match a, c with
    | None, None => true
    | Some (q, f, _), Some (q', f', _) => (q =? q') && (f =? f')
    | _, _ => false
    end.
  Definition bmit_eqb (a c : bmit) : bool :=
    let '(ia, ma, _) := a in let '(ic, mc, _) := c in sait_eqb ia ic && (ma =? mc).
End BM.

(** ** Trie<Dim>, Dim = d + 1 *)
Fixpoint trie (d : nat) : Type :=
  match d with O => sa N | S d' => sa (trie d') end.

Definition trie_empty (d : nat) : trie d :=
  match d return trie d with O => sa_empty | S _ => sa_empty end.

(** [iterator_core]: one store iterator per level *)
Fixpoint core (d : nat) : Type :=
  match d with O => bmit | S d' => (sait (trie d') * core d')%type end.

Fixpoint core_end (d : nat) : core d :=
  match d return core d with O => bmit_end | S d' => (None, core_end d') end.

Fixpoint core_eqb (d : nat) : core d -> core d -> bool :=
  match d return core d -> core d -> bool with
  | O => fun a c => bmit_eqb a c
  | S d' => fun a c => core_eqb d' (snd a) (snd c) && sait_eqb (fst a) (fst c)
  end.

(** [iter == store.end()] for the store iterator of the top level of a core *)
Definition core_at_end (d : nat) : core d -> bool :=
  match d return core d -> bool with
  | O => fun c => bmit_eqb c bmit_end
  | S _ => fun c => sait_eqb (fst c) None
  end.

Definition trie_is_empty (d : nat) : trie d -> bool :=
  match d return trie d -> bool with
  | O => fun t => match sa_cells t with [] => true | _ => false end
  | S _ => fun t => match sa_cells t with [] => true | _ => false end
  end.

Section TRIE.
  Variable fx : bool.
  Variable m : shmode.

  (** [Trie<Dim>::insert(tuple)]: (new trie, "was new") *)
  Fixpoint trie_insert (d : nat) : trie d -> list Z -> option (trie d * bool) :=
    match d return trie d -> list Z -> option (trie d * bool) with
    | O => fun t tup => match tup with [k] => bm_set fx m t (idx_of_key k) | _ => None end
    | S d' => fun t tup =>
        match tup with
        | k :: rest =>
            do (s1, pos) <- sa_locate fx m SA_BITS t (idx_of_key k);
            let nested := match cells_get pos (sa_cells s1) with
                          | Some n => n | None => trie_empty d' end in
            do (n', r) <- trie_insert d' nested rest;
            Some (sa_put s1 pos n', r)
        | [] => None
        end
    end.

  (** [Trie<Dim>::contains(tuple)] *)
  Fixpoint trie_contains (d : nat) : trie d -> list Z -> option bool :=
    match d return trie d -> list Z -> option bool with
    | O => fun t tup => match tup with [k] => bm_test fx m t (idx_of_key k) | _ => None end
    | S d' => fun t tup =>
        match tup with
        | k :: rest =>
            do r <- sa_get fx m SA_BITS t (idx_of_key k);
            match r with Some n => trie_contains d' n rest | None => Some false end
        | [] => None
        end
    end.

  (** [Trie<Dim>::size()] *)
  Fixpoint trie_size (d : nat) : trie d -> option N :=
    match d return trie d -> option N with
    | O => fun t => bm_size fx m t
    | S d' => fun t =>
        do l <- sa_iter fx m SA_BITS t;
        fold_right (fun e acc => do a <- acc; do n <- trie_size d' (snd e); Some (n + a)) (Some 0) l
    end.

  (** [iterator_core(store.begin(), entry)] resp. [fix_first]: the iterator at the first element of
      a (non-empty) store, with the tuple it shows *)
  Fixpoint iter_first (d : nat) : trie d -> option (list Z * core d) :=
    match d return trie d -> option (list Z * core d) with
    | O => fun t => do it <- bm_begin fx m t; Some ([key_of_idx (snd it)], it)
    | S d' => fun t =>
        do it <- sa_begin fx m SA_BITS t;
        match it with
        | Some (q, f, n) => do (vs, c) <- iter_first d' n; Some (key_of_idx f :: vs, (it, c))
        | None => None (* first->second->getStore() through a null pointer *)
        end
    end.

  (** [begin()] *)
  Definition trie_begin (d : nat) (t : trie d) : option (list Z * core d) :=
    if trie_is_empty d t then Some (repeat 0%Z (S d), core_end d) else iter_first d t.

  (** [iterator_core::inc(entry)]: (moved?, tuple, core). The trie is needed to evaluate [++] of
      the store iterators. *)
  Fixpoint core_inc (d : nat) : trie d -> list Z -> core d -> option (bool * list Z * core d) :=
    match d return trie d -> list Z -> core d -> option (bool * list Z * core d) with
    | O => fun t vs c =>
        do c' <- bm_next fx m t c;
        match fst (fst c') with
        | None => Some (false, vs, c')
        | Some _ => Some (true, [key_of_idx (snd c')], c')
        end
    | S d' => fun t vs c =>
        let '(it, nc) := c in
        match it with
        | None => None
        | Some (q, f, n) =>
            do (moved, nvs, nc') <- core_inc d' n (tl vs) nc;
            if moved then Some (true, hd 0%Z vs :: nvs, (it, nc'))
            else
              do it' <- sa_next fx m SA_BITS t q f;
              match it' with
              | None => Some (false, vs, (None, nc'))
              | Some (q', f', n') =>
                  do (vs', c') <- iter_first d' n'; Some (true, key_of_idx f' :: vs', (it', c'))
              end
        end
    end.

  (** [for (it = b; it != e; ++it)] collecting [*it] *)
  Fixpoint range_loop (d : nat) (t : trie d) (fuel : nat) (vs : list Z) (c e : core d)
    : option (list (list Z)) :=
    if core_eqb d c e then Some [] else
    match fuel with
    | O => None
    | S f => do (_, vs', c') <- core_inc d t vs c;
             do r <- range_loop d t f vs' c' e; Some (vs :: r)
    end.

  (** number of stored tuples according to the representation (fuel for loops only) *)
  Fixpoint trie_weight (d : nat) : trie d -> nat :=
    match d return trie d -> nat with
    | O => fun t => fold_right (fun e acc => (N.to_nat (popcount (snd e)) + acc)%nat) 0%nat (sa_cells t)
    | S d' => fun t => fold_right (fun e acc => (trie_weight d' (snd e) + acc)%nat) 0%nat (sa_cells t)
    end.

  (** full iteration [begin() .. end()] *)
  Definition trie_iter (d : nat) (t : trie d) : option (list (list Z)) :=
    do (vs, c) <- trie_begin d t;
    range_loop d t (2 * trie_weight d t + 2) vs c (core_end d).

  (** [fix_binding<len, Pos, Dim>(store, begin, end, entry)] on the sub-trie at level Pos:
      (begin tuple from Pos on, begin core, end core). [None] also when nothing matches. *)
  Fixpoint fix_binding (d : nat) (len : nat) : trie d -> list Z -> option (option (list Z * core d * core d)) :=
    match d return trie d -> list Z -> option (option (list Z * core d * core d)) with
    | O => fun t entry =>
        match len with
        | O => do a <- bm_begin fx m t; Some (Some ([key_of_idx (snd a)], a, bmit_end))
        | S _ =>
            do cur <- bm_find fx m t (idx_of_key (hd 0%Z entry));
            if bmit_eqb cur bmit_end then Some None
            else do nx <- bm_next fx m t cur; Some (Some ([hd 0%Z entry], cur, nx))
        end
    | S d' => fun t entry =>
        match len with
        | O =>
            do r <- iter_first (S d') t; let '(vs, c) := r in Some (Some (vs, c, core_end (S d')))
        | S len' =>
            do cur <- sa_find fx m SA_BITS t (idx_of_key (hd 0%Z entry));
            match cur with
            | None => Some None
            | Some (q, f, n) =>
                do sub <- fix_binding d' len' n (tl entry);
                match sub with
                | None => Some None
                | Some (vs, bc, ec) =>
                    (* if the nested end iterator is the nested store's end(): step to the next
                       entry of this level and start at its first element *)
                    if core_at_end d' ec then
                      do cur' <- sa_next fx m SA_BITS t q f;
                      match cur' with
                      | None => Some (Some (hd 0%Z entry :: vs, (cur, bc), (None, ec)))
                      | Some (_, _, n') =>
                          do (_, c') <- iter_first d' n';
                          Some (Some (hd 0%Z entry :: vs, (cur, bc), (cur', c')))
                      end
                    else Some (Some (hd 0%Z entry :: vs, (cur, bc), (cur, ec)))
                end
            end
        end
    end.

  (** [getBoundaries<len>(entry)] iterated: all tuples between the two iterators *)
  Definition trie_prefix (d : nat) (t : trie d) (prefix : list Z) : option (list (list Z)) :=
    match prefix with
    | [] => trie_iter d t
    | _ :: _ =>
        do r <- fix_binding d (length prefix) t prefix;
        match r with
        | None => Some []
        | Some (vs, bc, ec) => range_loop d t (2 * trie_weight d t + 2) vs bc ec
        end
    end.

  (** [iterator(it)] for every [it] of the top-level store's iteration: the tuple shown and the core *)
  Definition top_starts (d : nat) : trie d -> option (list (list Z * core d)) :=
    match d return trie d -> option (list (list Z * core d)) with
    | O => fun t =>
        do b <- bm_begin fx m t;
        do l <- bm_its_loop fx m t (trie_weight O t + 1) b;
        Some (map (fun it : bmit => ([key_of_idx (snd it)], it)) l)
    | S d' => fun t =>
        do l <- sa_its fx m SA_BITS t;
        fold_right (fun (e : N * N * trie d') acc =>
                      do a <- acc;
                      let '(q, f, n) := e in
                      do r <- iter_first d' n; let '(vs, c) := r in
                      Some ((key_of_idx f :: vs, (Some (q, f, n), c)) :: a)) (Some []) l
    end.

  (** the iterators [cur] at which [partition] cuts: those with running number [c] (from 1) such
      that [c % step == 0 && c != 1] *)
  Fixpoint cut_points {A} (step : N) (c : N) (l : list A) : list A :=
    match l with
    | [] => []
    | a :: r => if (c mod step =? 0) && negb (c =? 1) then a :: cut_points step (c + 1) r
                else cut_points step (c + 1) r
    end.

  Fixpoint chunks_loop (d : nat) (t : trie d) (fuel : nat) (vs : list Z) (c : core d)
           (cuts : list (list Z * core d)) : option (list (list (list Z))) :=
    match cuts with
    | [] => do l <- range_loop d t fuel vs c (core_end d); Some [l]
    | (vs1, c1) :: rest =>
        do l <- range_loop d t fuel vs c c1;
        do r <- chunks_loop d t fuel vs1 c1 rest; Some (l :: r)
    end.

  (** [partition(chunks)]: the contents of the returned ranges. [chunks = 0] divides by zero. *)
  Definition trie_partition (d : nat) (t : trie d) (chunks : N) : option (list (list (list Z))) :=
    if trie_is_empty d t then Some [] else
    if chunks =? 0 then None else
    do starts <- top_starts d t;
    let step := N.max (N.of_nat (length starts) / chunks) 1 in
    do b <- trie_begin d t; let '(vs, c) := b in
    chunks_loop d t (2 * trie_weight d t + 2) vs c (cut_points step 1 starts).
End TRIE.

(** ** Specification: finite sets of tuples, kept as sorted duplicate-free lists.
    Tuple order = lexicographic order of the 64-bit indices of the components (so the non-negative
    keys come before the negative ones), which is the order in which the C++ structure iterates. *)
Fixpoint tuple_ltb (a c : list Z) : bool :=
  match a, c with
  | [], [] => false
  | [], _ :: _ => true
  | _ :: _, [] => false
  | x :: a', y :: c' =>
      if idx_of_key x <? idx_of_key y then true
      else if idx_of_key x =? idx_of_key y then tuple_ltb a' c' else false
  end.
Fixpoint tuple_eqb (a c : list Z) : bool :=
  match a, c with
  | [], [] => true
  | x :: a', y :: c' => Z.eqb x y && tuple_eqb a' c'
  | _, _ => false
  end.
Fixpoint set_insert (t : list Z) (s : list (list Z)) : list (list Z) :=
  match s with
  | [] => [t]
  | u :: r => if tuple_ltb t u then t :: u :: r else if tuple_eqb t u then u :: r else u :: set_insert t r
  end.
Definition set_mem (t : list Z) (s : list (list Z)) : bool := existsb (tuple_eqb t) s.
Fixpoint is_prefix (p t : list Z) : bool :=
  match p, t with
  | [], _ => true
  | x :: p', y :: t' => Z.eqb x y && is_prefix p' t'
  | _ :: _, [] => false
  end.
Definition set_prefix (p : list Z) (s : list (list Z)) : list (list Z) := filter (is_prefix p) s.

(** [partition(chunks)] on the set model: the tuples are grouped by their first component (the
    top-level elements of the trie: [store.size()] of them); a new chunk starts at every group whose
    running number c (from 1) satisfies [c % step == 0 && c != 1], step = max(#groups / chunks, 1) *)
Fixpoint groups_by_hd (s : list (list Z)) : list (list (list Z)) :=
  match s with
  | [] => []
  | t :: r => match groups_by_hd r with
              | (u :: g) :: gs => if Z.eqb (hd 0%Z t) (hd 0%Z u) then (t :: u :: g) :: gs
                                  else [t] :: (u :: g) :: gs
              | _ => [[t]]
              end
  end.
Fixpoint merge_cut (step c : N) (gs : list (list (list Z))) (cur : list (list Z)) : list (list (list Z)) :=
  match gs with
  | [] => [cur]
  | g :: r => if (c mod step =? 0) && negb (c =? 1) then cur :: merge_cut step (c + 1) r g
              else merge_cut step (c + 1) r (cur ++ g)
  end.
Definition set_partition (s : list (list Z)) (chunks : N) : list (list (list Z)) :=
  match groups_by_hd s with
  | [] => []
  | g :: gs => merge_cut (N.max (N.of_nat (length (g :: gs)) / chunks) 1) 2 gs g
  end.

(** ** Histories (what the drivers run) *)
Inductive op :=
| OIns (t : list Z) | OMem (t : list Z) | OSize | OIter | OPrefix (p : list Z) | OPart (n : N).
Inductive ans :=
| ABool (r : bool) | ANum (n : N) | ATuples (l : list (list Z)) | AChunks (l : list (list (list Z))) | AUndef.

(** run a history on the model; [AUndef] = no defined result (state unchanged) *)
Fixpoint run_model (fx : bool) (m : shmode) (d : nat) (t : trie d) (h : list op) : list ans :=
  match h with
  | [] => []
  | o :: h' =>
      match o with
      | OIns tup => match trie_insert fx m d t tup with
                    | Some (t', r) => ABool r :: run_model fx m d t' h'
                    | None => AUndef :: run_model fx m d t h' end
      | OMem tup => (match trie_contains fx m d t tup with Some r => ABool r | None => AUndef end)
                    :: run_model fx m d t h'
      | OSize => (match trie_size fx m d t with Some n => ANum n | None => AUndef end)
                 :: run_model fx m d t h'
      | OIter => (match trie_iter fx m d t with Some l => ATuples l | None => AUndef end)
                 :: run_model fx m d t h'
      | OPrefix p => (match trie_prefix fx m d t p with Some l => ATuples l | None => AUndef end)
                     :: run_model fx m d t h'
      | OPart n => (match trie_partition fx m d t n with Some l => AChunks l | None => AUndef end)
                   :: run_model fx m d t h'
      end
  end.

(** the same history on the set model *)
Fixpoint run_spec (s : list (list Z)) (h : list op) : list ans :=
  match h with
  | [] => []
  | o :: h' =>
      match o with
      | OIns tup => ABool (negb (set_mem tup s)) :: run_spec (set_insert tup s) h'
      | OMem tup => ABool (set_mem tup s) :: run_spec s h'
      | OSize => ANum (N.of_nat (length s)) :: run_spec s h'
      | OIter => ATuples s :: run_spec s h'
      | OPrefix p => ATuples (set_prefix p s) :: run_spec s h'
      | OPart n => (match s with
                    | [] => AChunks []
                    | _ :: _ => if n =? 0 then AUndef else AChunks (set_partition s n)
                    end) :: run_spec s h'
      end
  end.
