(** Proofs about the numeric-literal parsing model (NumParseDefs.v). *)
From SV Require Import NumParseDefs.
Require Import ZifyBool ZifyNat ZifyN.
Local Open Scope N_scope.
Arguments N.eqb : simpl never.
Arguments N.leb : simpl never.
Arguments N.ltb : simpl never.
Arguments N.sub : simpl never.
Arguments N.mul : simpl never.
Arguments N.add : simpl never.
Arguments Z.pow : simpl never.

(** *** skip_ws *)
Lemma skip_ws_spec s :
  let (n, t) := skip_ws s in
  exists ws, s = ws ++ t /\ length ws = n /\ forallb isspace ws = true /\
             match t with c :: _ => isspace c = false | [] => True end.
Proof.
  induction s as [|c s IH]; simpl.
  - exists []. auto.
  - destruct (isspace c) eqn:Hc.
    + destruct (skip_ws s) as [n t]. destruct IH as (ws & -> & Hl & Hall & Hhd).
      exists (c :: ws). simpl. rewrite Hc, Hall, Hl. auto.
    + exists []. simpl. auto.
Qed.

Lemma skip_ws_app ws t :
  forallb isspace ws = true ->
  match t with c :: _ => isspace c = false | [] => True end ->
  skip_ws (ws ++ t) = (length ws, t).
Proof.
  induction ws as [|c ws IH]; simpl; intros Hall Hhd.
  - destruct t as [|c t]; simpl; [reflexivity | rewrite Hhd; reflexivity].
  - apply andb_true_iff in Hall as [Hc Hall]. rewrite Hc, IH; auto.
Qed.

(** *** take_digits vs digits_value *)
Lemma take_digits_le base s acc n :
  (n <= snd (take_digits base s acc n) <= n + length s)%nat.
Proof.
  revert acc n; induction s as [|c s IH]; intros acc n; simpl; [lia|].
  destruct (digit_in base c); simpl; [|lia].
  specialize (IH (acc * base + n0) (S n)). lia.
Qed.

Lemma take_digits_full base s acc n m :
  take_digits base s acc n = (m, (n + length s)%nat) -> digits_value base s acc = Some m.
Proof.
  revert acc n; induction s as [|c s IH]; intros acc n; simpl; intro H.
  - inversion H. reflexivity.
  - destruct (digit_in base c) as [d|] eqn:Hd.
    + apply (IH _ (S n)). rewrite H. f_equal. lia.
    + inversion H. lia.
Qed.

Lemma digits_value_take base s acc n m :
  digits_value base s acc = Some m -> take_digits base s acc n = (m, (n + length s)%nat).
Proof.
  revert acc n; induction s as [|c s IH]; intros acc n; simpl; intro H.
  - inversion H. f_equal. lia.
  - destruct (digit_in base c) as [d|] eqn:Hd; [|discriminate].
    rewrite (IH _ (S n) H). f_equal. lia.
Qed.

Lemma digit_not_space base c d : digit_in base c = Some d -> isspace c = false.
Proof.
  unfold digit_in, digit_val, isspace. intros H.
  destruct ((48 <=? c) && (c <=? 57)) eqn:E1; [lia|].
  destruct ((97 <=? c) && (c <=? 122)) eqn:E2; [lia|].
  destruct ((65 <=? c) && (c <=? 90)) eqn:E3; [lia|discriminate].
Qed.

Lemma digit10_range c d : digit_in 10 c = Some d -> 48 <= c <= 57 /\ d = c - 48.
Proof.
  unfold digit_in, digit_val. intros H.
  destruct ((48 <=? c) && (c <=? 57)) eqn:E1.
  - destruct (c - 48 <? 10) eqn:E; inversion H; lia.
  - destruct ((97 <=? c) && (c <=? 122)) eqn:E2.
    + destruct (c - 87 <? 10) eqn:E; [lia|discriminate].
    + destruct ((65 <=? c) && (c <=? 90)) eqn:E3; [|discriminate].
      destruct (c - 55 <? 10) eqn:E; [lia|discriminate].
Qed.

(** *** Denotation of a literal: [ws* sign? digits+] in a base, with its mathematical value. *)
Definition sign_ok (sg : bytes) : Prop := sg = [] \/ sg = [43] \/ sg = [45].
Definition sign_neg (sg : bytes) : bool := match sg with c :: _ => c =? 45 | [] => false end.

Definition literal (base : N) (allow_minus : bool) (s : bytes) (v : Z) : Prop :=
  exists ws sg ds m,
    s = ws ++ sg ++ ds /\ forallb isspace ws = true /\ sign_ok sg /\
    (allow_minus = false -> sg <> [45]) /\
    ds <> [] /\ digits_value base ds 0 = Some m /\
    v = (if sign_neg sg then - Z.of_N m else Z.of_N m)%Z.

Lemma scan_sign_spec s1 :
  match s1 with c :: _ => isspace c = false | [] => True end ->
  let '(neg, nsign, s2) := scan_sign s1 in
  exists sg, s1 = sg ++ s2 /\ length sg = nsign /\ sign_ok sg /\ sign_neg sg = neg /\
             (sg = [] -> match s2 with c :: _ => c <> 43 /\ c <> 45 | [] => True end).
Proof.
  intros _. unfold scan_sign.
  destruct s1 as [|c r]; [exists []; unfold sign_ok; simpl; auto 6|].
  destruct (c =? 45) eqn:E45.
  { apply N.eqb_eq in E45; subst c. exists [45]. unfold sign_ok. simpl. repeat split; auto. discriminate. }
  destruct (c =? 43) eqn:E43.
  { apply N.eqb_eq in E43; subst c. exists [43]. unfold sign_ok. simpl. repeat split; auto. discriminate. }
  exists []. unfold sign_ok. simpl. repeat split; auto; lia.
Qed.

(** The scan of a base-10 (or base-2) string that is consumed completely. *)
Lemma strto_scan_complete base s sc :
  base <> 16 ->
  strto_scan base s = sc -> sc_any sc = true -> sc_used sc = length s ->
  exists ws sg ds,
    s = ws ++ sg ++ ds /\ forallb isspace ws = true /\ sign_ok sg /\ sign_neg sg = sc_neg sc /\
    ds <> [] /\ digits_value base ds 0 = Some (sc_mag sc).
Proof.
  intros Hb Hsc Hany Hused. unfold strto_scan in Hsc.
  pose proof (skip_ws_spec s) as Hws. destruct (skip_ws s) as [nws s1].
  destruct Hws as (ws & Hs & Hlws & Hall & Hhd).
  pose proof (scan_sign_spec s1 Hhd) as Hsg. destruct (scan_sign s1) as [[neg nsign] s2].
  destruct Hsg as (sg & Hs1 & Hlsg & Hsok & Hneg & _).
  unfold scan_prefix in Hsc. apply N.eqb_neq in Hb. rewrite Hb in Hsc.
  pose proof (take_digits_le base s2 0 0%nat) as Hle.
  destruct (take_digits base s2 0 0%nat) as [mag nd] eqn:Htd. simpl in Hle.
  destruct nd as [|nd']; [subst sc; simpl in Hany; discriminate|].
  subst sc. simpl in *. exists ws, sg, s2.
  assert (Hlen : length s = (length ws + length sg + length s2)%nat).
  { rewrite Hs, Hs1, !app_length. lia. }
  assert (Hnd : S nd' = (0 + length s2)%nat) by lia.
  repeat split; auto.
  - rewrite Hs, Hs1. reflexivity.
  - intros ->. simpl in Hnd. lia.
  - apply (take_digits_full base s2 0 0%nat). rewrite Htd, Hnd. reflexivity.
Qed.

Lemma strto_scan_literal base ws sg ds m :
  base <> 16 ->
  forallb isspace ws = true -> sign_ok sg -> ds <> [] -> digits_value base ds 0 = Some m ->
  strto_scan base (ws ++ sg ++ ds) =
  {| sc_any := true; sc_neg := sign_neg sg; sc_mag := m;
     sc_used := length (ws ++ sg ++ ds) |}.
Proof.
  intros Hb Hall Hsg Hne Hdv. unfold strto_scan.
  destruct ds as [|d0 ds']; [congruence|].
  assert (Hd0 : exists d, digit_in base d0 = Some d).
  { simpl in Hdv. destruct (digit_in base d0) as [d|]; [eauto|discriminate]. }
  destruct Hd0 as [d Hd0].
  assert (Hd0s : isspace d0 = false) by (eapply digit_not_space; eauto).
  assert (Hd0n : d0 <> 43 /\ d0 <> 45).
  { unfold digit_in, digit_val in Hd0. split; intros ->; vm_compute in Hd0; discriminate. }
  rewrite skip_ws_app; auto.
  2:{ destruct Hsg as [->|[->| ->]]; simpl; auto. }
  assert (Hss : scan_sign (sg ++ d0 :: ds') = (sign_neg sg, length sg, d0 :: ds')).
  { destruct Hsg as [->|[->| ->]]; simpl; auto.
    destruct Hd0n as [H43 H45].
    apply N.eqb_neq in H43, H45. rewrite H43, H45. reflexivity. }
  rewrite Hss. unfold scan_prefix. apply N.eqb_neq in Hb. rewrite Hb.
  rewrite (digits_value_take base (d0 :: ds') 0 0%nat m Hdv). simpl length.
  cbn [Nat.add]. f_equal. rewrite !app_length. cbn [length]. lia.
Qed.

Local Open Scope Z_scope.

Lemma stoi_ok base s v u :
  stoi base s = POk v u <->
  (sc_any (strto_scan base s) = true /\
   v = (if sc_neg (strto_scan base s) then - Z.of_N (sc_mag (strto_scan base s)) else Z.of_N (sc_mag (strto_scan base s))) /\
   - 2 ^ 31 <= v <= 2 ^ 31 - 1 /\ u = sc_used (strto_scan base s)).
Proof.
  unfold stoi. set (sc := strto_scan base s).
  destruct (sc_any sc) eqn:Ha; cbn [negb].
  2:{ split; [discriminate | intros [? _]; discriminate]. }
  destruct (sc_neg sc) eqn:Hn.
  - destruct (Z.of_N (sc_mag sc) >? 2 ^ 63) eqn:H1.
    { split; [discriminate | intros (_ & -> & ? & _); lia]. }
    destruct ((- Z.of_N (sc_mag sc) <? - 2 ^ 31) || (- Z.of_N (sc_mag sc) >? 2 ^ 31 - 1)) eqn:H2.
    { split; [discriminate | intros (_ & -> & ? & _); lia]. }
    split; [intros H; inversion H; subst; repeat split; lia | intros (_ & -> & _ & ->); reflexivity].
  - destruct (Z.of_N (sc_mag sc) >? 2 ^ 63 - 1) eqn:H1.
    { split; [discriminate | intros (_ & -> & ? & _); lia]. }
    destruct ((Z.of_N (sc_mag sc) <? - 2 ^ 31) || (Z.of_N (sc_mag sc) >? 2 ^ 31 - 1)) eqn:H2.
    { split; [discriminate | intros (_ & -> & ? & _); lia]. }
    split; [intros H; inversion H; subst; repeat split; lia | intros (_ & -> & _ & ->); reflexivity].
Qed.

Lemma complete_some s r v : complete s r = Some v <-> r = POk v (length s).
Proof.
  unfold complete. destruct r as [| |v' u]; try (split; discriminate).
  destruct (Nat.eqb u (length s)) eqn:E.
  - apply Nat.eqb_eq in E. subst u. split; intros H; inversion H; reflexivity.
  - apply Nat.eqb_neq in E. split; [discriminate | intros H; inversion H; congruence].
Qed.

(** *** C18, signed columns: accepted iff a complete decimal literal whose value is in range;
    the stored value is the denoted value. *)
Theorem fact_signed_accept_iff s v :
  fact_signed s = Some v <-> (literal 10 true s v /\ - 2 ^ 31 <= v < 2 ^ 31).
Proof.
  unfold fact_signed. rewrite complete_some. unfold ram_signed_base.
  change ((10 =? 2)%N) with false. cbv iota. rewrite stoi_ok. split.
  - intros (Hany & Hv & Hrange & Hu).
    destruct (strto_scan_complete 10 s _ ltac:(discriminate) eq_refl Hany (eq_sym Hu))
      as (ws & sg & ds & Hs & Hall & Hsok & Hneg & Hne & Hdv).
    split; [|lia].
    exists ws, sg, ds, (sc_mag (strto_scan 10 s)).
    split; [exact Hs|]. split; [exact Hall|]. split; [exact Hsok|]. split; [discriminate|].
    split; [exact Hne|]. split; [exact Hdv|]. rewrite Hneg. exact Hv.
  - intros [(ws & sg & ds & m & Hs & Hall & Hsok & _ & Hne & Hdv & Hv) Hrange].
    subst s. rewrite (strto_scan_literal 10 ws sg ds m); auto; [|discriminate]. cbn [sc_any sc_neg sc_mag sc_used].
    repeat split; auto; lia.
Qed.

(** *** Unsigned columns (the code after the F2 and F9 repairs). *)
Lemma POk_inj v u v' u' : POk v u = POk v' u' -> v = v' /\ u = u'.
Proof. intros H; inversion H; auto. Qed.

Lemma stoul_ok base s v u :
  stoul base s = POk v u <->
  (sc_any (strto_scan base s) = true /\ Z.of_N (sc_mag (strto_scan base s)) <= 2 ^ 64 - 1 /\
   v = (if sc_neg (strto_scan base s) then (2 ^ 64 - Z.of_N (sc_mag (strto_scan base s))) mod 2 ^ 64
        else Z.of_N (sc_mag (strto_scan base s))) /\
   u = sc_used (strto_scan base s)).
Proof.
  unfold stoul. set (sc := strto_scan base s).
  destruct (sc_any sc) eqn:Ha; cbn [negb].
  2:{ split; [discriminate | intros [? _]; discriminate]. }
  destruct (Z.of_N (sc_mag sc) >? 2 ^ 64 - 1) eqn:H1.
  { split; [discriminate | intros (_ & ? & _); lia]. }
  split.
  - intros H. apply POk_inj in H as [Hv Hu]. split; [reflexivity|]. split; [lia|].
    split; [symmetry; exact Hv | symmetry; exact Hu].
  - intros (_ & _ & -> & ->); reflexivity.
Qed.

Lemma skip_ws_literal ws sg ds base m :
  forallb isspace ws = true -> sign_ok sg -> ds <> [] -> digits_value base ds 0 = Some m ->
  skip_ws (ws ++ sg ++ ds) = (length ws, sg ++ ds).
Proof.
  intros Hall Hsg Hne Hdv. apply skip_ws_app; auto.
  destruct Hsg as [->|[->| ->]]; simpl; auto.
  destruct ds as [|d0 ds']; [congruence|]. simpl in Hdv.
  destruct (digit_in base d0) as [d|] eqn:Hd; [|discriminate].
  eapply digit_not_space; eauto.
Qed.

Definition unsigned_literal (s : bytes) (v : Z) : Prop :=
  literal 10 false s v \/
  (exists t, s = B_0b ++ t /\ literal 2 false t v) \/
  (exists ds m, s = B_0x ++ ds /\ ds <> [] /\ digits_value 16 ds 0 = Some m /\ v = Z.of_N m).

(** Common core: [stoul] on a string with no minus sign after whitespace, fully consumed. *)
Lemma stoul_complete_literal base t v :
  base <> 16%N ->
  (minus_after_ws t = false /\ stoul base t = POk v (length t)) <-> (literal base false t v /\ v <= 2 ^ 64 - 1).
Proof.
  intros Hb. rewrite stoul_ok. split.
  - intros (Hm & Hany & Hmag & Hv & Hu).
    destruct (strto_scan_complete base t _ Hb eq_refl Hany (eq_sym Hu))
      as (ws & sg & ds & Hs & Hall & Hsok & Hneg & Hne & Hdv).
    assert (Hnm : sg <> [45%N]).
    { intros ->. unfold minus_after_ws in Hm. rewrite Hs in Hm.
      rewrite (skip_ws_literal ws [45%N] ds base _ Hall Hsok Hne Hdv) in Hm. simpl in Hm. discriminate. }
    assert (Hsn : sign_neg sg = false).
    { destruct Hsok as [->|[->| ->]]; try reflexivity. congruence. }
    rewrite <- Hneg, Hsn in Hv. split; [|lia].
    exists ws, sg, ds, (sc_mag (strto_scan base t)).
    split; [exact Hs|]. split; [exact Hall|]. split; [exact Hsok|]. split; [intros _; exact Hnm|].
    split; [exact Hne|]. split; [exact Hdv|]. rewrite Hsn. exact Hv.
  - intros [(ws & sg & ds & m & Hs & Hall & Hsok & Hnm & Hne & Hdv & Hv) Hrange].
    specialize (Hnm eq_refl).
    assert (Hsn : sign_neg sg = false).
    { destruct Hsok as [->|[->| ->]]; try reflexivity. congruence. }
    rewrite Hsn in Hv. subst t. split.
    + unfold minus_after_ws. rewrite (skip_ws_literal ws sg ds base m Hall Hsok Hne Hdv). simpl.
      destruct Hsok as [->|[->| ->]]; simpl; try reflexivity; try congruence.
      destruct ds as [|d0 ds']; [congruence|]. simpl in Hdv.
      destruct (digit_in base d0) as [d|] eqn:Hd; [|discriminate].
      destruct (d0 =? 45)%N eqn:E; [|reflexivity]. apply N.eqb_eq in E. subst d0.
      unfold digit_in, digit_val in Hd. vm_compute in Hd. discriminate.
    + rewrite (strto_scan_literal base ws sg ds m); auto. cbn [sc_any sc_neg sc_mag sc_used].
      rewrite Hsn. repeat split; auto; lia.
Qed.

Lemma literal10_first_digit_or_sign s v :
  literal 10 false s v -> is_prefix B_MINUS s = false /\ is_prefix B_0b s = false /\ is_prefix B_0x s = false.
Proof.
  intros (ws & sg & ds & m & Hs & Hall & Hsok & Hnm & Hne & Hdv & Hv).
  specialize (Hnm eq_refl).
  destruct ds as [|d0 ds']; [congruence|]. simpl in Hdv.
  destruct (digit_in 10 d0) as [d|] eqn:Hd; [|discriminate].
  apply digit10_range in Hd as [Hd0 _].
  assert (Hx : forall c, (c = 98 \/ c = 120)%N -> digit_in 10 c = None).
  { intros c [->| ->]; reflexivity. }
  subst s.
  destruct ws as [|w ws'].
  - destruct Hsok as [->|[->| ->]]; try congruence; simpl.
    + (* no sign: d0 :: ds' *)
      assert (E45 : (45 =? d0)%N = false) by lia. rewrite E45.
      destruct (48 =? d0)%N eqn:E48; simpl; auto.
      destruct ds' as [|d1 ds'']; simpl; auto.
      simpl in Hdv. destruct (digit_in 10 d1) as [d1v|] eqn:Hd1; [|discriminate].
      apply digit10_range in Hd1 as [Hd1 _].
      assert (E98 : (98 =? d1)%N = false) by lia. assert (E120 : (120 =? d1)%N = false) by lia.
      rewrite E98, E120. auto.
    + (* plus *) auto.
  - simpl in Hall. apply andb_true_iff in Hall as [Hw _]. simpl.
    assert (E45 : (45 =? w)%N = false) by (unfold isspace in Hw; lia).
    assert (E48 : (48 =? w)%N = false) by (unfold isspace in Hw; lia).
    rewrite E45, E48. auto.
Qed.

Lemma strto_scan_0x_nohex r :
  match r with d :: _ => digit_in 16 d = None | [] => True end ->
  sc_used (strto_scan 16 (B_0x ++ r)) = 1%nat.
Proof.
  intros Hr. unfold strto_scan, B_0x. simpl skip_ws. cbn [app scan_sign].
  change ((48 =? 45)%N) with false. change ((48 =? 43)%N) with false. cbv iota.
  unfold scan_prefix. change ((16 =? 16)%N) with true. cbv iota.
  destruct r as [|d r'].
  - vm_compute. reflexivity.
  - rewrite Hr. cbn [is_some]. rewrite andb_false_r.
    cbn [take_digits]. change (digit_in 16 48) with (Some 0%N). cbv iota.
    change (digit_in 16 120) with (@None N). reflexivity.
Qed.

Lemma strto_scan_0x_hex d r :
  is_some (digit_in 16 d) = true ->
  strto_scan 16 (B_0x ++ d :: r) =
  let (mag, nd) := take_digits 16 (d :: r) 0 0%nat in
  match nd with
  | O => {| sc_any := false; sc_neg := false; sc_mag := 0; sc_used := 0 |}
  | _ => {| sc_any := true; sc_neg := false; sc_mag := mag; sc_used := (0 + 0 + 2 + nd)%nat |}
  end.
Proof.
  intros Hd. unfold strto_scan, B_0x. simpl skip_ws. cbn [app scan_sign].
  change ((48 =? 45)%N) with false. change ((48 =? 43)%N) with false. cbv iota.
  unfold scan_prefix. change ((16 =? 16)%N) with true. cbv iota.
  rewrite Hd. change ((48 =? 48)%N) with true. change ((120 =? 120)%N) with true. cbn [orb andb].
  reflexivity.
Qed.

Theorem fact_unsigned_accept_iff s v :
  fact_unsigned s = Some v <-> (unsigned_literal s v /\ 0 <= v < 2 ^ 32).
Proof.
  unfold fact_unsigned. rewrite complete_some. unfold read_ram_unsigned.
  destruct (is_prefix B_0b s) eqn:P0b.
  { (* binary *)
    apply is_prefix_spec in P0b as [t ->].
    unfold ram_unsigned_base. change (is_prefix B_MINUS (B_0b ++ t)) with false. cbv iota.
    change ((2 =? 2)%N) with true. change (is_prefix B_0b (B_0b ++ t)) with true. cbn [andb]. cbv iota.
    change (skipn 2 (B_0b ++ t)) with t. change (length (B_0b ++ t)) with (S (S (length t))).
    pose proof (stoul_complete_literal 2 t v ltac:(discriminate)) as HL.
    split.
    - intros H. destruct (minus_after_ws t) eqn:Hm; [discriminate|].
      destruct (stoul 2 t) as [| |v' u] eqn:Hst; try discriminate.
      destruct (v' >? 2 ^ 32 - 1) eqn:Hr; [discriminate|]. inversion H; subst v'.
      assert (u = length t) by lia. subst u.
      destruct HL as [HL _]. destruct (HL (conj eq_refl eq_refl)) as [Hlit _].
      split; [right; left; exists t; auto|].
      split; [|lia]. destruct Hlit as (ws & sg & ds & m & _ & _ & Hsok & Hnm & _ & _ & Hv).
      specialize (Hnm eq_refl).
      assert (Hsn : sign_neg sg = false) by (destruct Hsok as [->|[->| ->]]; try reflexivity; congruence).
      rewrite Hsn in Hv. lia.
    - intros [[Hl|[(t' & Ht & Hl)|(ds & m & Hs & _)]] Hrange].
      + apply literal10_first_digit_or_sign in Hl as (_ & Hb & _).
        change (is_prefix B_0b (B_0b ++ t)) with true in Hb. discriminate.
      + apply app_inv_head in Ht. subst t'.
        destruct HL as [_ HL]. assert (Hv64 : v <= 2 ^ 64 - 1) by lia. destruct (HL (conj Hl Hv64)) as [Hm Hst].
        rewrite Hm, Hst. assert (E : (v >? 2 ^ 32 - 1) = false) by lia. rewrite E.
        f_equal. lia.
      + unfold B_0b, B_0x in Hs. simpl in Hs. inversion Hs. }
  destruct (is_prefix B_0x s) eqn:P0x.
  { (* hexadecimal *)
    apply is_prefix_spec in P0x as [r ->].
    unfold ram_unsigned_base. change (is_prefix B_MINUS (B_0x ++ r)) with false. cbv iota.
    change ((16 =? 2)%N) with false. cbn [andb]. cbv iota.
    assert (Hm : minus_after_ws (B_0x ++ r) = false) by reflexivity. rewrite Hm.
    change (length (B_0x ++ r)) with (S (S (length r))).
    split.
    - intros H. destruct (stoul 16 (B_0x ++ r)) as [| |v' u] eqn:Hst; try discriminate.
      destruct (v' >? 2 ^ 32 - 1) eqn:Hr; [discriminate|]. inversion H; subst v' u. clear H.
      apply stoul_ok in Hst as (Hany & Hmag & Hv & Hu).
      destruct r as [|d r'].
      { rewrite strto_scan_0x_nohex in Hu; [lia | exact I]. }
      destruct (digit_in 16 d) as [dv|] eqn:Hd.
      2:{ rewrite strto_scan_0x_nohex in Hu; [simpl in Hu; lia | exact Hd]. }
      rewrite strto_scan_0x_hex in Hany, Hmag, Hv, Hu by (rewrite Hd; reflexivity).
      pose proof (take_digits_le 16 (d :: r') 0 0%nat) as Hle.
      destruct (take_digits 16 (d :: r') 0 0%nat) as [mag nd] eqn:Htd. cbn [snd] in Hle.
      destruct nd as [|nd']; [simpl in Hany; discriminate|].
      cbn [sc_any sc_neg sc_mag sc_used] in *.
      assert (Hnd : S nd' = (0 + length (d :: r'))%nat) by lia.
      rewrite Hnd in Htd. apply take_digits_full in Htd.
      split; [|lia]. right; right. exists (d :: r'), mag. repeat split; auto. discriminate.
    - intros [[Hl|[(t' & Ht & _)|(ds & m & Hs & Hne & Hdv & Hv)]] Hrange].
      + apply literal10_first_digit_or_sign in Hl as (_ & _ & Hx).
        change (is_prefix B_0x (B_0x ++ r)) with true in Hx. discriminate.
      + unfold B_0b, B_0x in Ht. simpl in Ht. inversion Ht.
      + apply app_inv_head in Hs. subst r.
        destruct ds as [|d r']; [congruence|].
        assert (Hd : is_some (digit_in 16 d) = true).
        { simpl in Hdv. destruct (digit_in 16 d); [reflexivity|discriminate]. }
        assert (Hst : stoul 16 (B_0x ++ d :: r') = POk v (S (S (length (d :: r'))))).
        { apply stoul_ok. rewrite strto_scan_0x_hex by exact Hd.
          rewrite (digits_value_take 16 (d :: r') 0 0%nat m Hdv).
          cbn [length Nat.add sc_any sc_neg sc_mag sc_used]. repeat split; lia. }
        rewrite Hst. assert (E : (v >? 2 ^ 32 - 1) = false) by lia. rewrite E. reflexivity. }
  (* decimal *)
  unfold ram_unsigned_base. change ((10 =? 2)%N) with false. cbn [andb]. cbv iota.
  pose proof (stoul_complete_literal 10 s v ltac:(discriminate)) as HL.
  split.
  - intros H. destruct (is_prefix B_MINUS s); [discriminate|].
    destruct (minus_after_ws s) eqn:Hm; [discriminate|].
    destruct (stoul 10 s) as [| |v' u] eqn:Hst; try discriminate.
    destruct (v' >? 2 ^ 32 - 1) eqn:Hr; [discriminate|]. inversion H; subst v' u.
    destruct HL as [HL _]. destruct (HL (conj eq_refl eq_refl)) as [Hlit _].
    split; [left; exact Hlit|].
    split; [|lia]. destruct Hlit as (ws & sg & ds & m & _ & _ & Hsok & Hnm & _ & _ & Hv).
    specialize (Hnm eq_refl).
    assert (Hsn : sign_neg sg = false) by (destruct Hsok as [->|[->| ->]]; try reflexivity; congruence).
    rewrite Hsn in Hv. lia.
  - intros [[Hl|[(t' & Ht & _)|(ds & m & Hs & _)]] Hrange].
    + destruct (literal10_first_digit_or_sign s v Hl) as (Hmi & _ & _). rewrite Hmi.
      destruct HL as [_ HL]. assert (Hv64 : v <= 2 ^ 64 - 1) by lia. destruct (HL (conj Hl Hv64)) as [Hm Hst].
      rewrite Hm, Hst. assert (E : (v >? 2 ^ 32 - 1) = false) by lia. rewrite E. reflexivity.
    + subst s. change (is_prefix B_0b (B_0b ++ t')) with true in P0b. discriminate.
    + subst s. change (is_prefix B_0x (B_0x ++ ds)) with true in P0x. discriminate.
Qed.

(** The pre-repair reader accepted strings that are not literals of any value in range. *)
Theorem fact_unsigned_prefix_refuted :
  exists s v, fact_unsigned_prefix s = Some v /\ ~ (unsigned_literal s v /\ 0 <= v < 2 ^ 32).
Proof.
  exists [52; 50; 57; 52; 57; 54; 55; 50; 57; 54]%N, 0.   (* "4294967296" was stored as 0 *)
  split; [vm_compute; reflexivity|].
  rewrite <- fact_unsigned_accept_iff. vm_compute. discriminate.
Qed.

(** Program-text constants (base inferred from the prefix): whatever is accepted is in range. *)
Theorem const_signed_in_range s v : const_signed s = Some v -> - 2 ^ 31 <= v < 2 ^ 31.
Proof.
  unfold const_signed. rewrite complete_some. unfold ram_signed_auto, ram_signed_base.
  intros H.
  assert (G : forall b t u, bump 2 (stoi b t) = POk v u -> - 2 ^ 31 <= v < 2 ^ 31).
  { intros b t u Hb. destruct (stoi b t) as [| |v' u'] eqn:E; try discriminate.
    simpl in Hb. inversion Hb; subst. apply stoi_ok in E. lia. }
  destruct (is_prefix B_M0b s || is_prefix B_0b s).
  { change ((2 =? 2)%N) with true in H. cbv iota in H. eapply G; eauto. }
  destruct (is_prefix B_M0x s || is_prefix B_0x s).
  { change ((16 =? 2)%N) with false in H. cbv iota in H. apply stoi_ok in H. lia. }
  change ((10 =? 2)%N) with false in H. cbv iota in H. apply stoi_ok in H. lia.
Qed.

Theorem const_unsigned_in_range s v : const_unsigned s = Some v -> 0 <= v < 2 ^ 32.
Proof.
  unfold const_unsigned. rewrite complete_some. unfold ram_unsigned_auto.
  assert (G : forall b u, ram_unsigned_base b s = POk v u -> 0 <= v < 2 ^ 32).
  { intros b u. unfold ram_unsigned_base.
    destruct (is_prefix B_MINUS s); [discriminate|].
    destruct (minus_after_ws _) eqn:Hm; [discriminate|].
    destruct (stoul b _) as [| |v' u'] eqn:E; try discriminate.
    destruct (v' >? 2 ^ 32 - 1) eqn:Hr; [discriminate|]. intros H; inversion H; subst.
    apply stoul_ok in E as (_ & Hmag & Hv & _).
    destruct (sc_neg _); [|lia].
    pose proof (Z.mod_pos_bound (2 ^ 64 - Z.of_N (sc_mag (strto_scan b (if (b =? 2)%N && is_prefix B_0b s then skipn 2 s else s)))) (2 ^ 64) ltac:(lia)).
    lia. }
  destruct (is_prefix B_MINUS s); [discriminate|].
  destruct (is_prefix B_0b s); [apply G|].
  destruct (is_prefix B_0x s); apply G.
Qed.

(** Non-vacuity: concrete strings on both sides of each boundary. *)
Example signed_examples :
  fact_signed [45; 50; 49; 52; 55; 52; 56; 51; 54; 52; 56]%N = Some (- 2147483648) /\   (* "-2147483648" *)
  fact_signed [50; 49; 52; 55; 52; 56; 51; 54; 52; 56]%N = None /\                      (* "2147483648" *)
  fact_signed [32; 43; 55]%N = Some 7 /\                                                 (* " +7" *)
  fact_signed [55; 32]%N = None /\                                                       (* "7 " *)
  fact_unsigned [52; 50; 57; 52; 57; 54; 55; 50; 57; 53]%N = Some 4294967295 /\          (* "4294967295" *)
  fact_unsigned [52; 50; 57; 52; 57; 54; 55; 50; 57; 54]%N = None /\                     (* "4294967296" *)
  fact_unsigned [32; 45; 49]%N = None /\                                                 (* " -1" *)
  fact_unsigned [48; 120; 102; 70]%N = Some 255 /\                                       (* "0xfF" *)
  fact_unsigned [48; 98; 49; 48; 49]%N = Some 5 /\                                       (* "0b101" *)
  fact_unsigned []%N = None.
Proof. vm_compute. repeat split; reflexivity. Qed.
