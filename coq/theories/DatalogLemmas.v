(** Proofs that the reference evaluator of DatalogDefs.v computes the declarative semantics of
    DatalogSem.v. *)
From SV Require Import DatalogDefs DatalogSem.
Require Import Permutation.
Require Import ZifyBool ZifyNat ZifyN.
Local Open Scope Z_scope.
Arguments Z.pow : simpl never.
Arguments Z.eqb : simpl never.
Arguments Nat.eqb : simpl never.

(** * (a) equality tests *)
Lemma value_ind' (P : value -> Prop) :
  (forall z, P (VNum z)) -> (forall s, P (VSym s)) -> P VNil ->
  (forall fs, Forall P fs -> P (VRec fs)) -> (forall b fs, Forall P fs -> P (VAdt b fs)) ->
  forall v, P v.
Proof.
  intros Hn Hs Hnil Hr Ha. fix IH 1. intros [z|s| |fs|b fs].
  - apply Hn.
  - apply Hs.
  - apply Hnil.
  - apply Hr. induction fs as [|f fs IHfs]; constructor; [apply IH | apply IHfs].
  - apply Ha. induction fs as [|f fs IHfs]; constructor; [apply IH | apply IHfs].
Qed.

Lemma value_eqb_rec xs ys : value_eqb (VRec xs) (VRec ys) = tuple_eqb xs ys.
Proof.
  revert ys; induction xs as [|x xs IH]; intros [|y ys]; reflexivity.
Qed.
Lemma value_eqb_adt i j xs ys : value_eqb (VAdt i xs) (VAdt j ys) = Nat.eqb i j && tuple_eqb xs ys.
Proof.
  transitivity (Nat.eqb i j && value_eqb (VRec xs) (VRec ys)); [reflexivity|].
  now rewrite value_eqb_rec.
Qed.

Lemma tuple_eqb_spec_gen xs :
  Forall (fun x => forall y, value_eqb x y = true <-> x = y) xs ->
  forall ys, tuple_eqb xs ys = true <-> xs = ys.
Proof.
  induction 1 as [|x xs Hx _ IH]; intros [|y ys]; simpl; split; intro H; try congruence; try discriminate.
  - apply andb_true_iff in H as [H1 H2]. apply Hx in H1. apply IH in H2. congruence.
  - inversion H; subst. apply andb_true_iff. split; [now apply Hx | now apply IH].
Qed.

Theorem value_eqb_spec a b : value_eqb a b = true <-> a = b.
Proof.
  revert b; induction a as [z|s| |fs IH|i fs IH] using value_ind'; intros b.
  - destruct b; simpl; split; intro H; try discriminate; try congruence.
    + apply Z.eqb_eq in H. congruence.
    + inversion H. apply Z.eqb_refl.
  - destruct b; simpl; split; intro H; try discriminate; try congruence.
    + apply bytes_eqb_eq in H. congruence.
    + inversion H. now apply bytes_eqb_eq.
  - destruct b; simpl; split; intro H; try discriminate; try congruence.
  - destruct b as [| | |gs|]; try (split; intro H; [discriminate H|congruence]).
    rewrite value_eqb_rec, (tuple_eqb_spec_gen fs IH). split; congruence.
  - destruct b as [| | | |j gs]; try (split; intro H; [discriminate H|congruence]).
    rewrite value_eqb_adt, andb_true_iff, (tuple_eqb_spec_gen fs IH), Nat.eqb_eq. split.
    + intros [-> ->]; reflexivity.
    + intro H; inversion H; auto.
Qed.

Theorem tuple_eqb_spec a b : tuple_eqb a b = true <-> a = b.
Proof. apply tuple_eqb_spec_gen. apply Forall_forall. intros x _ y. apply value_eqb_spec. Qed.

Theorem mem_tuple_spec t l : mem_tuple t l = true <-> In t l.
Proof.
  induction l as [|x l IH]; simpl; [split; [discriminate|tauto]|].
  rewrite orb_true_iff, tuple_eqb_spec, IH. split; intros [H|H]; auto.
Qed.

Lemma value_eqb_refl v : value_eqb v v = true.
Proof. now apply value_eqb_spec. Qed.
Lemma value_eqb_false a b : value_eqb a b = false -> a <> b.
Proof. intros H E. apply value_eqb_spec in E. congruence. Qed.
Lemma value_eq_dec (a b : value) : {a = b} + {a <> b}.
Proof.
  destruct (value_eqb a b) eqn:E; [left; now apply value_eqb_spec | right; now apply value_eqb_false].
Qed.
Lemma tuple_eq_dec (a b : tuple) : {a = b} + {a <> b}.
Proof.
  destruct (tuple_eqb a b) eqn:E; [left; now apply tuple_eqb_spec|].
  right. intro H. apply tuple_eqb_spec in H. congruence.
Qed.

(** * Terms: nested induction, unfolding of the local fixpoints *)
Lemma term_ind' (P : term -> Prop) :
  (forall x, P (TVar x)) -> P TAnon -> (forall v, P (TConst v)) ->
  (forall o args, Forall P args -> P (TOp o args)) ->
  (forall args, Forall P args -> P (TRecord args)) ->
  (forall b args, Forall P args -> P (TAdtC b args)) ->
  forall t, P t.
Proof.
  intros Hv Ha Hc Ho Hr Hd. fix IH 1. intros [x| |v|o args|args|b args].
  - apply Hv.
  - apply Ha.
  - apply Hc.
  - apply Ho. induction args as [|f fs IHfs]; constructor; [apply IH | apply IHfs].
  - apply Hr. induction args as [|f fs IHfs]; constructor; [apply IH | apply IHfs].
  - apply Hd. induction args as [|f fs IHfs]; constructor; [apply IH | apply IHfs].
Qed.

Lemma eval_term_op e o args : eval_term e (TOp o args) = bind (eval_terms e args) (eval_op o).
Proof. cbn. f_equal. induction args as [|a args IH]; [reflexivity|]. simpl. rewrite IH. reflexivity. Qed.
Lemma eval_term_rec e args : eval_term e (TRecord args) = bind (eval_terms e args) (fun vs => Ok (VRec vs)).
Proof. cbn. f_equal. induction args as [|a args IH]; [reflexivity|]. simpl. rewrite IH. reflexivity. Qed.
Lemma eval_term_adt e b args : eval_term e (TAdtC b args) = bind (eval_terms e args) (fun vs => Ok (VAdt b vs)).
Proof. cbn. f_equal. induction args as [|a args IH]; [reflexivity|]. simpl. rewrite IH. reflexivity. Qed.
Lemma match_term_rec e ps v :
  match_term e (TRecord ps) v = match v with VRec vs => match_terms e ps vs | _ => Ok None end.
Proof. destruct v; reflexivity. Qed.
Lemma match_term_adt e b ps v :
  match_term e (TAdtC b ps) v =
  match v with VAdt b' vs => if Nat.eqb b b' then match_terms e ps vs else Ok None | _ => Ok None end.
Proof.
  destruct v; reflexivity.
Qed.
Lemma match_term_op e o args v :
  match_term e (TOp o args) v = bind (eval_term e (TOp o args)) (fun w => Ok (if value_eqb w v then Some e else None)).
Proof. reflexivity. Qed.

(** * ext, lookup *)
Lemma ext_refl e : ext e e.
Proof. intros x v H; exact H. Qed.
Lemma ext_trans a b c : ext a b -> ext b c -> ext a c.
Proof. intros H1 H2 x v H. auto. Qed.
Lemma ext_cons e x v : lookup e x = None -> ext e ((x, v) :: e).
Proof.
  intros H y w Hy. simpl. destruct (Nat.eqb y x) eqn:E; [|exact Hy].
  apply Nat.eqb_eq in E. subst. congruence.
Qed.
Lemma lookup_cons_eq e x v : lookup ((x, v) :: e) x = Some v.
Proof. simpl. now rewrite Nat.eqb_refl. Qed.
Lemma ext_nil e : ext [] e.
Proof. intros x v H; discriminate. Qed.

(** * den: monotone in the valuation *)
Lemma den_mono e s : ext e s -> forall p v, den e p v -> den s p v.
Proof.
  intros Hext p. induction p as [x| |c|o args IH|args IH|b args IH] using term_ind'; intros v H; inversion H; subst.
  - constructor. auto.
  - constructor.
  - constructor.
  - econstructor; [|eassumption]. clear H H4. revert vs H2. induction IH; intros vs H2; inversion H2; subst; constructor; auto.
  - constructor. clear H. revert vs H1. induction IH; intros vs H1; inversion H1; subst; constructor; auto.
  - constructor. clear H. revert vs H3. induction IH; intros vs H3; inversion H3; subst; constructor; auto.
Qed.
Lemma dens_mono e s : ext e s -> forall ps vs, Forall2 (den e) ps vs -> Forall2 (den s) ps vs.
Proof. intros H ps vs H2. induction H2; constructor; eauto using den_mono. Qed.

(** * eval_term versus den *)
Lemma bind_ok {A B} (r : res A) (f : A -> res B) b : bind r f = Ok b -> exists a, r = Ok a /\ f a = Ok b.
Proof. destruct r; simpl; intro H; try discriminate. eauto. Qed.

Lemma eval_terms_cons e p ps :
  eval_terms e (p :: ps) = bind (eval_term e p) (fun v => bind (eval_terms e ps) (fun vs => Ok (v :: vs))).
Proof. reflexivity. Qed.

Lemma eval_terms_den_gen e ps :
  Forall (fun p => forall v, eval_term e p = Ok v -> den e p v) ps ->
  forall vs, eval_terms e ps = Ok vs -> Forall2 (den e) ps vs.
Proof.
  induction 1 as [|p ps Hp _ IH]; intros vs H.
  - inversion H. constructor.
  - rewrite eval_terms_cons in H. apply bind_ok in H as (v & Hv & H). apply bind_ok in H as (vs' & Hvs & H).
    inversion H; subst. constructor; auto.
Qed.
Lemma eval_den e p : forall v, eval_term e p = Ok v -> den e p v.
Proof.
  induction p as [x| |c|o args IH|args IH|b args IH] using term_ind'; intros v H.
  - simpl in H. destruct (lookup e x) eqn:E; inversion H; subst. now constructor.
  - discriminate.
  - inversion H. constructor.
  - rewrite eval_term_op in H. apply bind_ok in H as (vs & Hvs & H).
    econstructor; [|exact H]. now apply eval_terms_den_gen.
  - rewrite eval_term_rec in H. apply bind_ok in H as (vs & Hvs & H). inversion H; subst.
    constructor. now apply eval_terms_den_gen.
  - rewrite eval_term_adt in H. apply bind_ok in H as (vs & Hvs & H). inversion H; subst.
    constructor. now apply eval_terms_den_gen.
Qed.
Lemma eval_terms_den e ps vs : eval_terms e ps = Ok vs -> Forall2 (den e) ps vs.
Proof. apply eval_terms_den_gen. apply Forall_forall. intros p _. apply eval_den. Qed.

(** whatever an extension denotes for a term that the evaluator can evaluate is the evaluated value;
    a term whose evaluation is [Undef] has no denotation *)
Definition agrees_eval {A} (r : res A) (a' : A) : Prop :=
  match r with Ok a => a' = a | Undef => False | Stuck => True end.
Lemma den_eval_terms_gen e s ps :
  Forall (fun p => forall v', den s p v' -> agrees_eval (eval_term e p) v') ps ->
  forall vs', Forall2 (den s) ps vs' -> agrees_eval (eval_terms e ps) vs'.
Proof.
  induction 1 as [|p ps Hp _ IH]; intros vs' H; inversion H; subst.
  - reflexivity.
  - rewrite eval_terms_cons. specialize (Hp _ H2). specialize (IH _ H4).
    destruct (eval_term e p); simpl in *; auto.
    destruct (eval_terms e ps); simpl in *; auto. congruence.
Qed.
Lemma den_eval e s : ext e s -> forall p v', den s p v' -> agrees_eval (eval_term e p) v'.
Proof.
  intros Hext p. induction p as [x| |c|o args IH|args IH|b args IH] using term_ind'; intros v' H; inversion H; subst.
  - simpl. destruct (lookup e x) eqn:E; simpl; auto. apply Hext in E. congruence.
  - exact I.
  - reflexivity.
  - rewrite eval_term_op. pose proof (den_eval_terms_gen e s args IH _ H2) as Hl.
    destruct (eval_terms e args); simpl in *; auto. subst. rewrite H4. reflexivity.
  - rewrite eval_term_rec. pose proof (den_eval_terms_gen e s args IH _ H1) as Hl.
    destruct (eval_terms e args); simpl in *; auto. congruence.
  - rewrite eval_term_adt. pose proof (den_eval_terms_gen e s args IH _ H3) as Hl.
    destruct (eval_terms e args); simpl in *; auto. congruence.
Qed.
Lemma den_eval_ok e s p v v' : ext e s -> eval_term e p = Ok v -> den s p v' -> v' = v.
Proof. intros He Hv Hd. pose proof (den_eval e s He p v' Hd) as H. now rewrite Hv in H. Qed.
Lemma den_eval_undef e s p v' : ext e s -> eval_term e p = Undef -> ~ den s p v'.
Proof. intros He Hv Hd. pose proof (den_eval e s He p v' Hd) as H. now rewrite Hv in H. Qed.
Lemma den_eval_terms e s ps vs' : ext e s -> Forall2 (den s) ps vs' -> agrees_eval (eval_terms e ps) vs'.
Proof. intros He. apply den_eval_terms_gen. apply Forall_forall. intros p _. now apply den_eval. Qed.

(** an evaluated term has all its variables bound *)
Lemma eval_terms_bound_gen e ps :
  Forall (fun p => forall v, eval_term e p = Ok v -> forall x, In x (term_vars p) -> bound e x) ps ->
  forall vs, eval_terms e ps = Ok vs -> forall x, In x (terms_vars ps) -> bound e x.
Proof.
  induction 1 as [|p ps Hp _ IH]; intros vs H x Hx; [destruct Hx|].
  rewrite eval_terms_cons in H. apply bind_ok in H as (v & Hv & H). apply bind_ok in H as (vs' & Hvs & H).
  unfold terms_vars in Hx. simpl in Hx. apply in_app_or in Hx as [Hx|Hx]; eauto.
Qed.
Lemma eval_bound e p : forall v, eval_term e p = Ok v -> forall x, In x (term_vars p) -> bound e x.
Proof.
  induction p as [x| |c|o args IH|args IH|b args IH] using term_ind'; intros v H y Hy.
  - simpl in *. destruct Hy as [<-|[]]. unfold bound. destruct (lookup e x); congruence.
  - destruct Hy.
  - destruct Hy.
  - rewrite eval_term_op in H. apply bind_ok in H as (vs & Hvs & H). eapply eval_terms_bound_gen; eauto.
  - rewrite eval_term_rec in H. apply bind_ok in H as (vs & Hvs & H). eapply eval_terms_bound_gen; eauto.
  - rewrite eval_term_adt in H. apply bind_ok in H as (vs & Hvs & H). eapply eval_terms_bound_gen; eauto.
Qed.

(** * (b) match_term: soundness, completeness, failure *)
Definition bound_after (e e' : env) (vars : list nat) : Prop :=
  forall x, bound e' x <-> bound e x \/ In x vars.

(** what is true of a result [o] of matching patterns against values; stated once for a single
    pattern ([D] = den, [r] = the evaluation result of the pattern) and for lists *)
Definition match_post {T V} (D : env -> T -> V -> Prop) (vars : list nat) {A} (r : env -> res A)
           (e : env) (p : T) (v : V) (o : option env) : Prop :=
  match o with
  | Some e' => ext e e' /\ D e' p v /\ bound_after e e' vars /\
               (forall s, ext e s -> D s p v -> ext e' s) /\
               (r e <> Stuck -> e' = e) /\ r e <> Undef
  | None => forall s, ext e s -> ~ D s p v
  end.
Definition dens (e : env) (ps : list term) (vs : list value) : Prop := Forall2 (den e) ps vs.

Lemma bind_stuck {A B} (r : res A) (f : A -> res B) : r = Stuck -> bind r f = Stuck.
Proof. intros ->; reflexivity. Qed.

Lemma post_same {T V A} (D : env -> T -> V -> Prop) vars (r : env -> res A) e p v :
  D e p v -> (forall x, In x vars -> bound e x) -> r e <> Undef -> match_post D vars r e p v (Some e).
Proof.
  intros Hd Hb Hu. simpl. split; [apply ext_refl|]. split; [exact Hd|]. split; [|split; [|split]]; auto.
  intro x. split; [auto|]. intros [H|H]; auto.
Qed.

Ltac same := match goal with |- match_post ?D ?vs ?r _ _ _ _ => apply (post_same D vs r) end.

Lemma match_terms_post_gen ps :
  Forall (fun p => forall e v o, match_term e p v = Ok o ->
                   match_post den (term_vars p) (fun e => eval_term e p) e p v o) ps ->
  forall e vs o, match_terms e ps vs = Ok o ->
                 match_post dens (terms_vars ps) (fun e => eval_terms e ps) e ps vs o.
Proof.
  induction 1 as [|p ps Hp _ IH]; intros e vs o H.
  - destruct vs; inversion H; subst.
    + same; [constructor|intros y []|discriminate].
    + intros s _ Hd. inversion Hd.
  - destruct vs as [|v vs]; [inversion H; subst; intros s _ Hd; inversion Hd|].
    simpl in H. apply bind_ok in H as (o1 & H1 & H). apply Hp in H1.
    destruct o1 as [e1|]; [|inversion H; subst; intros s Hs Hd; inversion Hd; subst; eapply H1; eauto].
    destruct H1 as (Hx1 & Hd1 & Hb1 & Ht1 & Hs1 & Hu1). apply IH in H.
    destruct o as [e'|]; simpl in *.
    + destruct H as (Hx & Hd & Hb & Ht & Hs & Hu). split; [|split; [|split; [|split; [|split]]]].
      * eapply ext_trans; eauto.
      * constructor; auto. eapply den_mono; eauto.
      * intro x. unfold terms_vars. simpl. rewrite in_app_iff, (Hb x), (Hb1 x). unfold terms_vars. tauto.
      * intros s Hes Hds. inversion Hds; subst. auto.
      * intro Hne. destruct (eval_term e p) eqn:Ep; simpl in *; try congruence.
        assert (e1 = e) by (apply Hs1; discriminate). subst e1. apply Hs.
        intro E. rewrite E in Hne. now apply Hne.
      * destruct (eval_term e p) eqn:Ep; simpl in *; try congruence.
        assert (e1 = e) by (apply Hs1; discriminate). subst e1.
        destruct (eval_terms e ps); simpl; congruence.
    + intros s Hes Hds. inversion Hds; subst. eapply H; eauto.
Qed.

Lemma bound_cons e x v y : bound ((x, v) :: e) y <-> bound e y \/ y = x.
Proof.
  unfold bound. simpl. destruct (Nat.eqb y x) eqn:E.
  - apply Nat.eqb_eq in E. split; [auto|congruence].
  - apply Nat.eqb_neq in E. tauto.
Qed.

Lemma match_term_post p : forall e v o, match_term e p v = Ok o ->
  match_post den (term_vars p) (fun e => eval_term e p) e p v o.
Proof.
  induction p as [x| |c|o' args IH|args IH|b args IH] using term_ind'; intros e v o H.
  - simpl in H. destruct (lookup e x) as [w|] eqn:E.
    + inversion H; subst; clear H. destruct (value_eqb w v) eqn:Ev.
      * apply value_eqb_spec in Ev. subst w. same; [now constructor| |simpl; rewrite E; discriminate].
        intros y [<-|[]]. unfold bound; congruence.
      * intros s Hs Hd. inversion Hd; subst. apply Hs in E. apply value_eqb_false in Ev. congruence.
    + inversion H; subst; clear H. simpl. rewrite E.
      split; [now apply ext_cons|]. split; [constructor; apply lookup_cons_eq|].
      split; [intro y; rewrite bound_cons; simpl; intuition|].
      split; [|split; [congruence|discriminate]].
      intros s Hs Hd y w. inversion Hd; subst. simpl. destruct (Nat.eqb y x) eqn:Ey.
      * apply Nat.eqb_eq in Ey. subst. congruence.
      * apply Hs.
  - inversion H; subst. same; [constructor|intros y []|discriminate].
  - inversion H; subst; clear H. destruct (value_eqb c v) eqn:Ev.
    + apply value_eqb_spec in Ev. subst. same; [constructor|intros y []|discriminate].
    + intros s Hs Hd. inversion Hd; subst. rewrite value_eqb_refl in Ev. discriminate.
  - rewrite match_term_op in H. apply bind_ok in H as (w & Hw & H). inversion H; subst; clear H.
    destruct (value_eqb w v) eqn:Ev.
    + apply value_eqb_spec in Ev. subst w. same; [now apply eval_den| |rewrite Hw; discriminate].
      intros y Hy. eapply eval_bound; eauto.
    + intros s Hs Hd. apply value_eqb_false in Ev. apply Ev. symmetry. eapply den_eval_ok; eauto.
  - rewrite match_term_rec in H. destruct v as [| | |vs|]; try (inversion H; subst; intros sx Hs Hd; inversion Hd).
    apply (match_terms_post_gen args IH) in H. destruct o as [e'|]; unfold match_post in *.
    + destruct H as (Hx & Hd & Hb & Ht & Hs & Hu). rewrite eval_term_rec.
      split; [auto|]. split; [now constructor|]. split; [exact Hb|]. split; [|split].
      * intros s Hes Hds. inversion Hds; subst. auto.
      * intro Hne. apply Hs. intro E. rewrite E in Hne. now apply Hne.
      * destruct (eval_terms e args); simpl; congruence.
    + intros s Hs Hd. inversion Hd; subst. eapply H; eauto.
  - rewrite match_term_adt in H. destruct v as [| | | |b' vs]; try (inversion H; subst; intros sx Hs Hd; inversion Hd).
    destruct (Nat.eqb b b') eqn:Eb.
    2:{ inversion H; subst. intros s Hs Hd. inversion Hd; subst. rewrite Nat.eqb_refl in Eb. discriminate. }
    apply Nat.eqb_eq in Eb. subst b'.
    apply (match_terms_post_gen args IH) in H. destruct o as [e'|]; unfold match_post in *.
    + destruct H as (Hx & Hd & Hb & Ht & Hs & Hu). rewrite eval_term_adt.
      split; [auto|]. split; [now constructor|]. split; [exact Hb|]. split; [|split].
      * intros s Hes Hds. inversion Hds; subst. auto.
      * intro Hne. apply Hs. intro E. rewrite E in Hne. now apply Hne.
      * destruct (eval_terms e args); simpl; congruence.
    + intros s Hs Hd. inversion Hd; subst. eapply H; eauto.
Qed.

Lemma match_terms_post ps e vs o : match_terms e ps vs = Ok o ->
  match_post dens (terms_vars ps) (fun e => eval_terms e ps) e ps vs o.
Proof. apply match_terms_post_gen. apply Forall_forall. intros p _. apply match_term_post. Qed.

(** the three readable corollaries *)
Theorem match_term_sound e p v e' :
  match_term e p v = Ok (Some e') ->
  ext e e' /\ den e' p v /\ (forall x, bound e' x <-> bound e x \/ In x (term_vars p)).
Proof. intro H. apply match_term_post in H. destruct H as (H1 & H2 & H3 & _). auto. Qed.

(** failure: no valuation extending [e] makes the pattern denote the value *)
Theorem match_term_none e p v : match_term e p v = Ok None -> forall s, ext e s -> ~ den s p v.
Proof. intro H. apply match_term_post in H. exact H. Qed.

(** completeness: [Stuck] (a functor argument not yet bound) and [Undef] (an operation outside its
    domain) are the only ways not to find a valuation that exists *)
Theorem match_term_complete e p v s o :
  ext e s -> den s p v -> match_term e p v = Ok o -> exists e', o = Some e' /\ ext e' s.
Proof.
  intros He Hd H. apply match_term_post in H. destruct o as [e'|].
  - exists e'. split; [reflexivity|]. destruct H as (_ & _ & _ & Ht & _). auto.
  - exfalso. eapply H; eauto.
Qed.

Lemma match_terms_complete e ps vs s o :
  ext e s -> Forall2 (den s) ps vs -> match_terms e ps vs = Ok o -> exists e', o = Some e' /\ ext e' s.
Proof.
  intros He Hd H. apply match_terms_post in H. destruct o as [e'|].
  - exists e'. split; [reflexivity|]. destruct H as (_ & _ & _ & Ht & _). auto.
  - exfalso. eapply H; eauto.
Qed.

(** * Lists of results *)
Lemma flat_map_res_in {A B} (f : A -> res (list B)) l r :
  flat_map_res f l = Ok r -> forall b, In b r <-> exists a x, In a l /\ f a = Ok x /\ In b x.
Proof.
  revert r; induction l as [|a l IH]; intros r H b; simpl in H.
  - inversion H. split; [intros []|intros (a & x & [] & _)].
  - apply bind_ok in H as (x & Hx & H). apply bind_ok in H as (y & Hy & H). inversion H; subst.
    rewrite in_app_iff, (IH _ Hy). split.
    + intros [Hb|(a' & x' & Ha & Hf & Hb)]; [exists a, x; simpl; auto | exists a', x'; simpl; auto].
    + intros (a' & x' & [<-|Ha] & Hf & Hb); [left; congruence | right; eauto].
Qed.
Lemma flat_map_res_ok {A B} (f : A -> res (list B)) l r :
  flat_map_res f l = Ok r -> forall a, In a l -> exists x, f a = Ok x.
Proof.
  revert r; induction l as [|a l IH]; intros r H a' Ha; [destruct Ha|]. simpl in H.
  apply bind_ok in H as (x & Hx & H). apply bind_ok in H as (y & Hy & H).
  destruct Ha as [<-|Ha]; eauto.
Qed.

(** scan: one result per matching tuple *)
Lemma scan_in e args ts r :
  scan e args ts = Ok r -> forall e', In e' r <-> exists t, In t ts /\ match_terms e args t = Ok (Some e').
Proof.
  revert r; induction ts as [|t ts IH]; intros r H e'; simpl in H.
  - inversion H. split; [intros []|intros (t & [] & _)].
  - apply bind_ok in H as (o & Ho & H). apply bind_ok in H as (r' & Hr & H). inversion H; subst; clear H.
    specialize (IH _ Hr e'). destruct o as [e1|]; simpl; rewrite IH; split.
    + intros [<-|(t' & Ht & Hm)]; [exists t; auto | exists t'; auto].
    + intros (t' & [<-|Ht] & Hm); [left; congruence | right; eauto].
    + intros (t' & Ht & Hm); eauto.
    + intros (t' & [<-|Ht] & Hm); [congruence | eauto].
Qed.
Lemma scan_ok e args ts r : scan e args ts = Ok r -> forall t, In t ts -> exists o, match_terms e args t = Ok o.
Proof.
  revert r; induction ts as [|t ts IH]; intros r H t' Ht; [destruct Ht|]. simpl in H.
  apply bind_ok in H as (o & Ho & H). apply bind_ok in H as (r' & Hr & H).
  destruct Ht as [<-|Ht]; eauto.
Qed.
Lemma exists_match_spec e args ts b :
  exists_match e args ts = Ok b ->
  if b then exists t e', In t ts /\ match_terms e args t = Ok (Some e')
  else forall t, In t ts -> match_terms e args t = Ok None.
Proof.
  induction ts as [|t ts IH]; simpl; intro H.
  - inversion H. intros t [].
  - apply bind_ok in H as (o & Ho & H). destruct o as [e'|].
    + inversion H; subst. exists t, e'. auto.
    + apply IH in H. destruct b.
      * destruct H as (t' & e' & Ht & Hm). exists t', e'. auto.
      * intros t' [<-|Ht]; auto.
Qed.

(** * Simple literals *)
Lemma goa_cons e a args : ground_or_anon e (a :: args) = true ->
  (a = TAnon \/ eval_term e a <> Stuck) /\ ground_or_anon e args = true.
Proof.
  intro H. destruct a; cbn [ground_or_anon] in H;
    try (destruct (eval_term e _) eqn:E; [|discriminate|]; (split; [right; congruence|exact H])).
  split; auto.
Qed.
Lemma goa_same e args : ground_or_anon e args = true ->
  forall t e', match_terms e args t = Ok (Some e') -> e' = e.
Proof.
  induction args as [|a args IH]; intros Hg t e' H.
  - destruct t; inversion H; reflexivity.
  - destruct t as [|v t]; [inversion H|]. simpl in H. apply bind_ok in H as (o & Ho & H).
    destruct o as [e1|]; [|inversion H]. apply goa_cons in Hg as [Ha Hg].
    assert (e1 = e) as ->; [|eauto].
    destruct Ha as [->|Ha]; [inversion Ho; reflexivity|].
    apply match_term_post in Ho. destruct Ho as (_ & _ & _ & _ & Hs & _). auto.
Qed.
Lemma goa_den_back e s args : ground_or_anon e args = true -> ext e s ->
  forall t, Forall2 (den s) args t -> Forall2 (den e) args t.
Proof.
  intros Hg He t H. induction H as [|a v args t Ha _ IH]; constructor.
  - apply goa_cons in Hg as [[->|Hs] _]; [constructor|].
    pose proof (den_eval e s He a v Ha) as Hag. destruct (eval_term e a) eqn:E; simpl in Hag; try tauto.
    subst. now apply eval_den.
  - apply IH. now apply goa_cons in Hg.
Qed.

Definition hs (d : db) := sat_slit (holds d) (holds d).

Lemma in_if_single {A} (b : bool) (x y : A) : In y (if b then [x] else []) -> b = true /\ y = x.
Proof. destruct b; simpl; [intros [H|[]]; auto | intros []]. Qed.
Lemma in_opt_single {A} (o : option A) (y : A) : In y (match o with Some x => [x] | None => [] end) -> o = Some y.
Proof. destruct o; simpl; [intros [H|[]]; congruence | intros []]. Qed.

Lemma eval_cmp_eq_refl v : eval_cmp CEq v v = Ok true.
Proof. simpl. now rewrite value_eqb_refl. Qed.
Lemma eval_cmp_eq_true a b : eval_cmp CEq a b = Ok true -> a = b.
Proof. simpl. intro H. inversion H. now apply value_eqb_spec. Qed.

Lemma bound_ext e s x : ext e s -> bound e x -> bound s x.
Proof. unfold bound. intros He Hb. destruct (lookup e x) eqn:E; [|congruence]. apply He in E. congruence. Qed.

(** soundness: every result extends [e], binds exactly the new variables of the literal, and
    every further extension satisfies the literal *)
Lemma step_slit_sound d l e es e' :
  step_slit d l e = Ok es -> In e' es ->
  ext e e' /\ bound_after e e' (slit_binds l) /\ forall s, ext e' s -> hs d s l.
Proof.
  intros H Hin. destruct l as [r args|r args|c a b]; simpl in H.
  - apply (scan_in _ _ _ _ H) in Hin as (t & Ht & Hm). apply match_terms_post in Hm.
    destruct Hm as (Hx & Hd & Hb & _). split; [auto|]. split; [exact Hb|].
    intros s Hs. econstructor; [exact Ht|]. eapply dens_mono; eauto.
  - destruct (ground_or_anon e args) eqn:Hg; [|discriminate]. apply bind_ok in H as (b & Hb & H).
    inversion H; subst; clear H. destruct b; [destruct Hin|]. destruct Hin as [<-|[]].
    split; [apply ext_refl|]. split; [intro x; simpl; tauto|].
    intros s Hs. constructor. intros (t & Ht & Hd).
    apply exists_match_spec in Hb. specialize (Hb t Ht). apply match_terms_post in Hb.
    apply (Hb s Hs). exact Hd.
  - destruct (eval_term e a) as [va| |] eqn:Ea; destruct (eval_term e b) as [vb| |] eqn:Eb; try discriminate.
    + apply bind_ok in H as (t & Ht & H). inversion H; subst; clear H.
      apply in_if_single in Hin as [-> ->]. split; [apply ext_refl|]. split.
      * intro x. simpl. rewrite in_app_iff. split; [auto|]. intros [H|[H|H]]; [auto | eapply (eval_bound e a); eauto | eapply (eval_bound e b); eauto].
      * intros s Hs. econstructor; [| |exact Ht]; eapply den_mono; eauto using eval_den.
    + destruct c; try discriminate. destruct (is_pattern b); [|discriminate].
      apply bind_ok in H as (o & Ho & H). inversion H; subst; clear H. apply in_opt_single in Hin. subst o.
      apply match_term_post in Ho. destruct Ho as (Hx & Hd & Hb & _). split; [auto|]. split.
      * intro x. simpl. rewrite in_app_iff, (Hb x). split; [tauto|]. intros [H|[H|H]]; auto.
        left. eapply eval_bound; eauto.
      * intros s Hs. econstructor; [| |apply eval_cmp_eq_refl]; eapply den_mono; eauto.
        eapply den_mono; eauto using eval_den.
    + destruct c; try discriminate. destruct (is_pattern a); [|discriminate].
      apply bind_ok in H as (o & Ho & H). inversion H; subst; clear H. apply in_opt_single in Hin. subst o.
      apply match_term_post in Ho. destruct Ho as (Hx & Hd & Hb & _). split; [auto|]. split.
      * intro x. simpl. rewrite in_app_iff, (Hb x). split; [tauto|]. intros [H|[H|H]]; auto.
        left. eapply eval_bound; eauto.
      * intros s Hs. econstructor; [| |apply eval_cmp_eq_refl]; eapply den_mono; eauto.
        eapply den_mono; eauto using eval_den.
Qed.

Lemma sat_pos_inv P N e r args : sat_slit P N e (SPos r args) -> exists t, P r t /\ Forall2 (den e) args t.
Proof. intro H; inversion H; eauto. Qed.
Lemma sat_neg_inv P N e r args : sat_slit P N e (SNeg r args) -> ~ exists t, N r t /\ Forall2 (den e) args t.
Proof. intro H; inversion H; auto. Qed.
Lemma sat_cmp_inv P N e c a b : sat_slit P N e (SCmp c a b) ->
  exists va vb, den e a va /\ den e b vb /\ eval_cmp c va vb = Ok true.
Proof. intro H; inversion H; eauto. Qed.

(** completeness: a valuation extending [e] that satisfies the literal extends one of the results *)
Lemma step_slit_complete d l e es s :
  step_slit d l e = Ok es -> ext e s -> hs d s l -> exists e', In e' es /\ ext e' s.
Proof.
  intros H He Hsat. destruct l as [r args|r args|c a b]; simpl in H.
  - apply sat_pos_inv in Hsat as (t & Ht & Hd).
    destruct (scan_ok _ _ _ _ H t Ht) as (o & Ho).
    destruct (match_terms_complete _ _ _ _ _ He Hd Ho) as (e' & -> & He').
    exists e'. split; [|exact He']. apply (scan_in _ _ _ _ H). eauto.
  - apply sat_neg_inv in Hsat.
    destruct (ground_or_anon e args) eqn:Hg; [|discriminate]. apply bind_ok in H as (b & Hb & H).
    inversion H; subst; clear H. destruct b.
    + exfalso. apply Hsat. apply exists_match_spec in Hb. destruct Hb as (t & e' & Ht & Hm).
      exists t. split; [exact Ht|]. assert (e' = e) by (eapply goa_same; eauto). subst e'.
      apply match_terms_post in Hm. destruct Hm as (_ & Hd & _). eapply dens_mono; eauto.
    + exists e. simpl; auto.
  - apply sat_cmp_inv in Hsat as (va & vb & Hda & Hdb & Hc).
    pose proof (den_eval e s He a va Hda) as Aa. pose proof (den_eval e s He b vb Hdb) as Ab.
    destruct (eval_term e a) as [va'| |] eqn:Ea; destruct (eval_term e b) as [vb'| |] eqn:Eb;
      simpl in Aa, Ab; try discriminate; try tauto; subst.
    + rewrite Hc in H. inversion H; subst. exists e. simpl; auto.
    + destruct c; try discriminate. destruct (is_pattern b); [|discriminate].
      apply bind_ok in H as (o & Ho & H). inversion H; subst; clear H.
      apply eval_cmp_eq_true in Hc. subst vb.
      destruct (match_term_complete _ _ _ _ _ He Hdb Ho) as (e' & -> & He'). exists e'. simpl; auto.
    + destruct c; try discriminate. destruct (is_pattern a); [|discriminate].
      apply bind_ok in H as (o & Ho & H). inversion H; subst; clear H.
      apply eval_cmp_eq_true in Hc. subst va.
      destruct (match_term_complete _ _ _ _ _ He Hda Ho) as (e' & -> & He'). exists e'. simpl; auto.
Qed.

(** * Conjunctions of simple literals (aggregate bodies) *)
Lemma bound_after_refl e : bound_after e e [].
Proof. intro x. simpl. tauto. Qed.
Lemma bound_after_trans e0 e1 e2 v1 v2 :
  bound_after e0 e1 v1 -> bound_after e1 e2 v2 -> bound_after e0 e2 (v1 ++ v2).
Proof. intros H1 H2 x. rewrite in_app_iff, (H2 x), (H1 x). tauto. Qed.

Lemma solve_s_sound d ls : forall es0 es e',
  solve_s d ls es0 = Ok es -> In e' es ->
  exists e0, In e0 es0 /\ ext e0 e' /\ bound_after e0 e' (flat_map slit_binds ls) /\
             forall s, ext e' s -> Forall (hs d s) ls.
Proof.
  induction ls as [|l ls IH]; intros es0 es e' H Hin; simpl in H.
  - inversion H; subst. exists e'. split; [auto|]. split; [apply ext_refl|]. split; [apply bound_after_refl|].
    constructor.
  - apply bind_ok in H as (es1 & H1 & H). destruct (IH _ _ _ H Hin) as (e1 & Hin1 & Hx1 & Hb1 & Hs1).
    apply (flat_map_res_in _ _ _ H1) in Hin1 as (e0 & x & Hin0 & Hst & Hx).
    destruct (step_slit_sound _ _ _ _ _ Hst Hx) as (Hx0 & Hb0 & Hs0).
    exists e0. split; [auto|]. split; [eapply ext_trans; eauto|]. split.
    + simpl. eapply bound_after_trans; eauto.
    + intros s Hs. constructor; [|auto]. apply Hs0. eapply ext_trans; eauto.
Qed.

Lemma solve_s_complete d ls : forall es0 es e0 s,
  solve_s d ls es0 = Ok es -> In e0 es0 -> ext e0 s -> Forall (hs d s) ls ->
  exists e', In e' es /\ ext e' s.
Proof.
  induction ls as [|l ls IH]; intros es0 es e0 s H Hin He Hsat; simpl in H.
  - inversion H; subst. eauto.
  - apply bind_ok in H as (es1 & H1 & H). inversion Hsat; subst.
    destruct (flat_map_res_ok _ _ _ H1 _ Hin) as (x & Hx).
    destruct (step_slit_complete _ _ _ _ _ Hx He H3) as (e1 & Hin1 & He1).
    eapply IH; eauto. apply (flat_map_res_in _ _ _ H1). eauto.
Qed.

(** * Valuations that agree on the variables of a term / literal *)
Definition agree (W : list nat) (a b : env) : Prop := forall x, In x W -> lookup a x = lookup b x.
Lemma agree_sym W a b : agree W a b -> agree W b a.
Proof. intros H x Hx. symmetry. auto. Qed.
Lemma agree_incl W W' a b : incl W' W -> agree W a b -> agree W' a b.
Proof. intros Hi H x Hx. auto. Qed.

Lemma dens_agree_gen a b ps :
  Forall (fun p => agree (term_vars p) a b -> forall v, den a p v -> den b p v) ps ->
  agree (terms_vars ps) a b -> forall vs, Forall2 (den a) ps vs -> Forall2 (den b) ps vs.
Proof.
  induction 1 as [|p ps Hp _ IH]; intros Hag vs H; inversion H; subst; constructor.
  - apply Hp; auto. intros x Hx. apply Hag. unfold terms_vars. simpl. apply in_or_app. auto.
  - apply IH; auto. intros x Hx. apply Hag. unfold terms_vars. simpl. apply in_or_app. auto.
Qed.
Lemma den_agree a b p : agree (term_vars p) a b -> forall v, den a p v -> den b p v.
Proof.
  induction p as [x| |c|o args IH|args IH|bb args IH] using term_ind'; intros Hag v H; inversion H; subst.
  - constructor. rewrite <- H1. symmetry. apply Hag. simpl. auto.
  - constructor.
  - constructor.
  - econstructor; [|eassumption]. eapply dens_agree_gen; eauto.
  - constructor. eapply dens_agree_gen; eauto.
  - constructor. eapply dens_agree_gen; eauto.
Qed.
Lemma dens_agree a b ps vs : agree (terms_vars ps) a b -> Forall2 (den a) ps vs -> Forall2 (den b) ps vs.
Proof. intro H. apply dens_agree_gen; auto. apply Forall_forall. intros p _. apply den_agree. Qed.

Lemma sat_slit_agree P N a b l : agree (slit_vars l) a b -> sat_slit P N a l -> sat_slit P N b l.
Proof.
  intros Hag H. destruct l as [r args|r args|c x y]; simpl in Hag.
  - apply sat_pos_inv in H as (t & Ht & Hd). econstructor; eauto using dens_agree.
  - apply sat_neg_inv in H. constructor. intros (t & Ht & Hd). apply H. exists t. split; auto.
    eapply dens_agree; eauto using agree_sym.
  - apply sat_cmp_inv in H as (va & vb & Ha & Hb & Hc).
    econstructor; [| |exact Hc]; eapply den_agree; eauto; eapply agree_incl; eauto;
      intros z Hz; apply in_or_app; auto.
Qed.
Lemma sat_slits_agree P N a b ls : agree (slits_vars ls) a b ->
  Forall (sat_slit P N a) ls -> Forall (sat_slit P N b) ls.
Proof.
  intros Hag H. induction H as [|l ls Hl _ IH]; constructor.
  - eapply sat_slit_agree; eauto. eapply agree_incl; eauto. intros z Hz. unfold slits_vars. simpl. apply in_or_app; auto.
  - apply IH. eapply agree_incl; eauto. intros z Hz. unfold slits_vars. simpl. apply in_or_app; auto.
Qed.

(** overlay of the [V]-part of one valuation on another *)
Definition restrict (V : list nat) (s : env) : env := filter (fun p => memb (fst p) V) s.
Lemma lookup_app a b x : lookup (a ++ b) x = match lookup a x with Some v => Some v | None => lookup b x end.
Proof. induction a as [|[y v] a IH]; simpl; [reflexivity|]. destruct (Nat.eqb x y); auto. Qed.
Lemma memb_in x l : memb x l = true <-> In x l.
Proof.
  unfold memb. rewrite existsb_exists. split.
  - intros (y & Hy & E). apply Nat.eqb_eq in E. now subst.
  - intro H. exists x. split; auto. apply Nat.eqb_refl.
Qed.
Lemma lookup_restrict V s x : lookup (restrict V s) x = if memb x V then lookup s x else None.
Proof.
  induction s as [|[y v] s IH]; simpl; [destruct (memb x V); reflexivity|].
  destruct (memb y V) eqn:My; simpl.
  - destruct (Nat.eqb x y) eqn:E; [|exact IH]. apply Nat.eqb_eq in E. subst. now rewrite My.
  - rewrite IH. destruct (Nat.eqb x y) eqn:E; [|reflexivity]. apply Nat.eqb_eq in E. subst. now rewrite My.
Qed.

(** * Distinct solutions *)
Definition differ (a b : env) : Prop :=
  exists x va vb, lookup a x = Some va /\ lookup b x = Some vb /\ va <> vb.
Lemma differ_ext a b a' b' : differ a b -> ext a a' -> ext b b' -> differ a' b'.
Proof. intros (x & va & vb & Ha & Hb & Hn) Ea Eb. exists x, va, vb. auto. Qed.

Lemma FOP_app {A} (R : A -> A -> Prop) l1 l2 :
  ForallOrdPairs R l1 -> ForallOrdPairs R l2 -> (forall a b, In a l1 -> In b l2 -> R a b) ->
  ForallOrdPairs R (l1 ++ l2).
Proof.
  induction 1 as [|a l1 Ha _ IH]; intros H2 Hc; simpl; [exact H2|].
  constructor.
  - apply Forall_app. split; [exact Ha|]. apply Forall_forall. intros b Hb. apply Hc; simpl; auto.
  - apply IH; auto. intros x y Hx Hy. apply Hc; simpl; auto.
Qed.

Lemma flat_map_res_FOP {A B} (R : A -> A -> Prop) (R' : B -> B -> Prop) (f : A -> res (list B)) l r :
  ForallOrdPairs R l ->
  (forall a x, In a l -> f a = Ok x -> ForallOrdPairs R' x) ->
  (forall a b x y a' b', R a b -> f a = Ok x -> f b = Ok y -> In a' x -> In b' y -> R' a' b') ->
  flat_map_res f l = Ok r -> ForallOrdPairs R' r.
Proof.
  intros HF. revert r. induction HF as [|a l Ha _ IH]; intros r H1 H2 H; simpl in H.
  - inversion H. constructor.
  - apply bind_ok in H as (x & Hx & H). apply bind_ok in H as (y & Hy & H). inversion H; subst; clear H.
    apply FOP_app.
    + eapply H1; simpl; eauto.
    + apply IH; auto. intros a0 x0 Hin. apply H1. simpl; auto.
    + intros a' b' Ha' Hb'. apply (flat_map_res_in _ _ _ Hy) in Hb' as (b & yb & Hb & Hfb & Hb').
      rewrite Forall_forall in Ha. eapply H2; eauto.
Qed.

Lemma dens_fun_gen e ps :
  Forall (fun p => anon_free p = true -> forall v v', den e p v -> den e p v' -> v = v') ps ->
  forallb anon_free ps = true -> forall vs vs', Forall2 (den e) ps vs -> Forall2 (den e) ps vs' -> vs = vs'.
Proof.
  induction 1 as [|p ps Hp _ IH]; intros Haf vs vs' H H'; inversion H; inversion H'; subst; [reflexivity|].
  simpl in Haf. apply andb_true_iff in Haf as [Hf1 Hf2]. f_equal; eauto.
Qed.
Lemma den_fun e p : anon_free p = true -> forall v v', den e p v -> den e p v' -> v = v'.
Proof.
  induction p as [x| |c|o args IH|args IH|b args IH] using term_ind'; intros Haf v v' H H'; inversion H; inversion H'; subst.
  - congruence.
  - discriminate.
  - reflexivity.
  - assert (vs = vs0) by (eapply dens_fun_gen; eauto). subst. congruence.
  - f_equal. eapply dens_fun_gen; eauto.
  - f_equal. eapply dens_fun_gen; eauto.
Qed.
Lemma dens_fun e ps vs vs' : forallb anon_free ps = true ->
  Forall2 (den e) ps vs -> Forall2 (den e) ps vs' -> vs = vs'.
Proof. intro H. apply dens_fun_gen; auto. apply Forall_forall. intros p _. apply den_fun. Qed.

Lemma ovalue_eq_dec (a b : option value) : {a = b} + {a <> b}.
Proof. destruct a as [a|], b as [b|]; try (right; congruence); [|left; reflexivity].
  destruct (value_eq_dec a b); [left|right]; congruence. Qed.
Lemma agree_dec W a b : {agree W a b} + {exists x, In x W /\ lookup a x <> lookup b x}.
Proof.
  induction W as [|x W IH]; [left; intros x []|].
  destruct (ovalue_eq_dec (lookup a x) (lookup b x)) as [E|E].
  - destruct IH as [IH|IH]; [left|right].
    + intros y [<-|Hy]; auto.
    + destruct IH as (y & Hy & Hn). exists y. simpl; auto.
  - right. exists x. simpl; auto.
Qed.

Lemma scan_differ e args ts r :
  NoDup ts -> forallb anon_free args = true -> scan e args ts = Ok r -> ForallOrdPairs differ r.
Proof.
  intros Hnd Haf. revert r. induction Hnd as [|t ts Hnin _ IH]; intros r H; simpl in H.
  - inversion H. constructor.
  - apply bind_ok in H as (o & Ho & H). apply bind_ok in H as (r' & Hr & H). inversion H; subst; clear H.
    specialize (IH _ Hr). destruct o as [e1|]; [|exact IH]. constructor; [|exact IH].
    apply Forall_forall. intros e2 H2. apply (scan_in _ _ _ _ Hr) in H2 as (t2 & Ht2 & Hm2).
    apply match_terms_post in Ho. apply match_terms_post in Hm2.
    destruct Ho as (_ & Hd1 & Hb1 & _). destruct Hm2 as (_ & Hd2 & Hb2 & _).
    destruct (agree_dec (terms_vars args) e1 e2) as [Hag|(x & Hx & Hn)].
    + exfalso. apply Hnin. assert (t = t2) as ->; [|exact Ht2].
      eapply dens_fun; [exact Haf| |exact Hd2]. eapply dens_agree; [exact Hag|exact Hd1].
    + assert (B1 : bound e1 x) by (apply Hb1; auto). assert (B2 : bound e2 x) by (apply Hb2; auto).
      unfold bound in *. destruct (lookup e1 x) as [v1|] eqn:E1; [|congruence].
      destruct (lookup e2 x) as [v2|] eqn:E2; [|congruence]. exists x, v1, v2. repeat split; auto. congruence.
Qed.

Lemma FOP_le1 {A} (R : A -> A -> Prop) l : (length l <= 1)%nat -> ForallOrdPairs R l.
Proof.
  destruct l as [|a [|b l]]; simpl; intro H; try lia; repeat constructor.
Qed.
Definition slit_ok (l : slit) : bool := match l with SPos _ args => forallb anon_free args | _ => true end.

Lemma step_slit_differ d l e r :
  db_nodup d -> slit_ok l = true -> step_slit d l e = Ok r -> ForallOrdPairs differ r.
Proof.
  intros Hnd Hok H. destruct l as [rel args|rel args|c a b]; simpl in H.
  - eapply scan_differ; eauto.
  - apply FOP_le1. destruct (ground_or_anon e args); [|discriminate].
    apply bind_ok in H as (bb & _ & H). inversion H. destruct bb; simpl; lia.
  - apply FOP_le1.
    destruct (eval_term e a) as [va| |]; destruct (eval_term e b) as [vb| |]; try discriminate.
    + apply bind_ok in H as (t & _ & H). inversion H. destruct t; simpl; lia.
    + destruct c; try discriminate. destruct (is_pattern b); [|discriminate].
      apply bind_ok in H as (o & _ & H). inversion H. destruct o; simpl; lia.
    + destruct c; try discriminate. destruct (is_pattern a); [|discriminate].
      apply bind_ok in H as (o & _ & H). inversion H. destruct o; simpl; lia.
Qed.

Lemma solve_s_differ d ls : forall es0 es,
  db_nodup d -> agg_body_ok ls = true -> ForallOrdPairs differ es0 ->
  solve_s d ls es0 = Ok es -> ForallOrdPairs differ es.
Proof.
  induction ls as [|l ls IH]; intros es0 es Hnd Hok H0 H; simpl in H.
  - inversion H; subst. exact H0.
  - apply bind_ok in H as (es1 & H1 & H). unfold agg_body_ok in Hok. simpl in Hok.
    apply andb_true_iff in Hok as [Hl Hok]. apply (IH es1 es Hnd Hok); [|exact H].
    apply (flat_map_res_FOP differ differ (step_slit d l) es0 es1 H0); [| |exact H1].
    + intros a x _ Hx. eapply step_slit_differ; eauto.
    + intros a b x y a' b' Hab Hx Hy Ha' Hb'.
      destruct (step_slit_sound _ _ _ _ _ Hx Ha') as (Ea & _). destruct (step_slit_sound _ _ _ _ _ Hy Hb') as (Eb & _).
      eapply differ_ext; eauto.
Qed.

Lemma FOP_nodup_map {A B} (f : A -> B) (R : A -> A -> Prop) l :
  ForallOrdPairs R l -> (forall a b, In a l -> In b l -> R a b -> f a <> f b) -> NoDup (map f l).
Proof.
  induction 1 as [|a l Ha _ IH]; intro Hf; simpl; constructor.
  - intro Hin. apply in_map_iff in Hin as (b & Hb & Hin). rewrite Forall_forall in Ha.
    apply (Hf a b); simpl; auto.
  - apply IH. intros x y Hx Hy. apply Hf; simpl; auto.
Qed.
Lemma proj_eq V a b : proj V a = proj V b -> agree V a b.
Proof.
  unfold proj. induction V as [|x V IH]; simpl; intros H y Hy; [destruct Hy|].
  inversion H. destruct Hy as [<-|Hy]; [assumption | apply IH; assumption].
Qed.
Lemma agree_proj V a b : agree V a b -> proj V a = proj V b.
Proof. intro H. unfold proj. apply map_ext_in. exact H. Qed.
Lemma slit_binds_vars l : incl (slit_binds l) (slit_vars l).
Proof. destruct l; simpl; intros x Hx; auto. destruct Hx. Qed.
Lemma slits_binds_vars ls : incl (flat_map slit_binds ls) (slits_vars ls).
Proof.
  induction ls as [|l ls IH]; simpl; intros x Hx; [exact Hx|].
  unfold slits_vars. simpl. apply in_app_or in Hx as [Hx|Hx]; apply in_or_app; [left|right; apply IH; exact Hx].
  now apply slit_binds_vars.
Qed.

(** the solutions computed for an aggregate body enumerate its declarative solutions *)
Lemma agg_enumerates d outer B e s target body es :
  db_nodup d -> agg_body_ok body = true ->
  (forall y, In y (term_vars target ++ slits_vars body) ->
             In y B \/ (~ In y outer /\ In y (flat_map slit_binds body))) ->
  (forall y, In y B -> bound e y) -> (forall y, bound e y -> In y outer) ->
  solve_s d body [e] = Ok es -> ext e s ->
  enumerates (holds d) outer (term_vars target ++ slits_vars body) s body es.
Proof.
  intros Hnd Hok Hsc HB Hout H He. set (V := term_vars target ++ slits_vars body) in *.
  assert (HVo : forall y, In y V -> In y outer -> bound e y).
  { intros y Hy Ho. destruct (Hsc y Hy) as [Hb|[Hn _]]; [auto|tauto]. }
  split; [|split].
  - intros e' Hin. destruct (solve_s_sound _ _ _ _ _ H Hin) as (e0 & [<-|[]] & Hx & Hb & Hs).
    split; [|split].
    + intros y Hy Ho. specialize (HVo y Hy Ho). unfold bound in HVo.
      destruct (lookup e y) as [v|] eqn:E; [|congruence]. rewrite (Hx _ _ E), (He _ _ E). reflexivity.
    + intros y Hy. destruct (Hsc y Hy) as [Hb'|[_ Hb']]; [|apply Hb; auto].
      eapply bound_ext; eauto.
    + apply Hs. apply ext_refl.
  - intros s' Hag Hsat. set (s'' := restrict V s' ++ e).
    assert (A : forall y, In y V -> lookup s'' y = lookup s' y).
    { intros y Hy. unfold s''. rewrite lookup_app, lookup_restrict.
      apply memb_in in Hy as My. rewrite My. destruct (lookup s' y) eqn:E1; [reflexivity|].
      destruct (lookup e y) as [v|] eqn:E2; [|reflexivity]. exfalso.
      assert (Ho : In y outer) by (apply Hout; unfold bound; congruence).
      rewrite (Hag y Hy Ho), (He _ _ E2) in E1. discriminate. }
    assert (Bx : ext e s'').
    { intros y v E. unfold s''. rewrite lookup_app, lookup_restrict. destruct (memb y V) eqn:My; [|exact E].
      apply memb_in in My. assert (Ho : In y outer) by (apply Hout; unfold bound; congruence).
      rewrite (Hag y My Ho), (He _ _ E). reflexivity. }
    assert (Hsat'' : Forall (hs d s'') body).
    { eapply sat_slits_agree; [|exact Hsat]. intros y Hy. symmetry. apply A. apply in_or_app. auto. }
    destruct (solve_s_complete _ _ _ _ e s'' H (or_introl eq_refl) Bx Hsat'') as (e' & Hin & Hx).
    exists e'. split; [exact Hin|]. intros y v Hy E. rewrite <- (A y Hy). auto.
  - eapply FOP_nodup_map.
    + eapply solve_s_differ; eauto. apply FOP_le1. simpl. lia.
    + intros a b Ha Hb (x & va & vb & Ea & Eb & Hn) Hp. apply proj_eq in Hp.
      destruct (solve_s_sound _ _ _ _ _ H Ha) as (e0 & [<-|[]] & Hxa & Hba & _).
      destruct (solve_s_sound _ _ _ _ _ H Hb) as (e0 & [<-|[]] & Hxb & _ & _).
      assert (Bax : bound a x) by (unfold bound; congruence). apply Hba in Bax as [Be|Bv].
      * unfold bound in Be. destruct (lookup e x) as [v|] eqn:E; [|congruence].
        apply Hxa in E as E1. apply Hxb in E. congruence.
      * apply Hn. assert (Hx : In x V) by (apply in_or_app; right; now apply slits_binds_vars).
        specialize (Hp x Hx). congruence.
Qed.

(** * Aggregate values *)
Lemma agg_values_spec target es zs : agg_values target es = Ok zs ->
  Forall2 (fun e' z => eval_term e' target = Ok (VNum z)) es zs.
Proof.
  revert zs; induction es as [|e es IH]; intros zs H; simpl in H.
  - inversion H. constructor.
  - apply bind_ok in H as (v & Hv & H). destruct v; try discriminate.
    apply bind_ok in H as (r & Hr & H). inversion H; subst. constructor; auto.
Qed.

Lemma sum_s_spec zs : forall acc s, sum_s zs acc = Ok s -> s = acc + zsum zs.
Proof.
  induction zs as [|z zs IH]; intros acc s H; simpl in H.
  - inversion H. simpl. lia.
  - apply bind_ok in H as (a & Ha & H). unfold sadd, chk in Ha. destruct (in_s (acc + z)); [|discriminate].
    inversion Ha; subst. apply IH in H. simpl. lia.
Qed.

Lemma u_wrap a : u (wrap a) = a mod 2 ^ 32.
Proof. unfold u, wrap. rewrite Zminus_mod_idemp_l. f_equal. lia. Qed.
Lemma wrap_mod_l a b : wrap (a mod 2 ^ 32 + b) = wrap (a + b).
Proof.
  unfold wrap. f_equal. rewrite <- Z.add_assoc, Zplus_mod_idemp_l. f_equal. lia.
Qed.
Lemma usum_spec zs : forall a, fold_left uadd zs (wrap a) = wrap (a + zsum (map u zs)).
Proof.
  induction zs as [|z zs IH]; intro a; simpl.
  - f_equal. lia.
  - unfold uadd at 2. rewrite u_wrap, wrap_mod_l, IH. f_equal. lia.
Qed.
Lemma wrap_0 : wrap 0 = 0.
Proof. reflexivity. Qed.

Lemma fold_sel (f : Z -> Z -> Z) (le : Z -> Z -> Prop) :
  (forall a, le a a) -> (forall a b c, le a b -> le b c -> le a c) ->
  (forall a b, (f a b = a \/ f a b = b) /\ le (f a b) a /\ le (f a b) b) ->
  forall r z0, In (fold_left f r z0) (z0 :: r) /\ forall z', In z' (z0 :: r) -> le (fold_left f r z0) z'.
Proof.
  intros Hr Ht Hf. induction r as [|b r IH]; intro z0; simpl.
  - split; [auto|]. intros z' [<-|[]]. apply Hr.
  - destruct (IH (f z0 b)) as [Hin Hle]. destruct (Hf z0 b) as (Hs & L1 & L2). split.
    + destruct Hin as [Hin|Hin]; [|auto]. rewrite <- Hin. destruct Hs as [->| ->]; auto.
    + intros z' [<-|[<-|Hz]].
      * eapply Ht; [|exact L1]. apply Hle. simpl; auto.
      * eapply Ht; [|exact L2]. apply Hle. simpl; auto.
      * apply Hle. simpl; auto.
Qed.

Lemma Forall2_imp {A B} (R R' : A -> B -> Prop) l l' :
  (forall a b, R a b -> R' a b) -> Forall2 R l l' -> Forall2 R' l l'.
Proof. intros H H2. induction H2; constructor; auto. Qed.

Definition etargets (k : aggk) (target : term) (es : list env) (zs : list Z) : Prop :=
  match k with
  | ACount => length zs = length es
  | _ => Forall2 (fun e' z => eval_term e' target = Ok (VNum z)) es zs
  end.
Lemma etargets_targets k target es zs : etargets k target es zs -> targets k target es zs.
Proof. destruct k; simpl; auto; intro H; (eapply Forall2_imp; [|exact H]); intros a b; apply eval_den. Qed.

Lemma agg_result_sound_e k t target es z :
  agg_result k t target es = Ok (Some z) -> exists zs, etargets k target es zs /\ agg_of k t zs z.
Proof.
  destruct k; simpl; intro H.
  - inversion H. exists (map (fun _ => 0) es). split; simpl; rewrite map_length; reflexivity.
  - apply bind_ok in H as (zs & Hzs & H). exists zs. split; [now apply agg_values_spec|].
    destruct t; simpl.
    + apply bind_ok in H as (s & Hs & H). inversion H; subst. apply sum_s_spec in Hs. lia.
    + inversion H. rewrite <- wrap_0 at 1. rewrite usum_spec. f_equal.
  - apply bind_ok in H as (zs & Hzs & H). exists zs. split; [now apply agg_values_spec|].
    destruct zs as [|z0 r]; [discriminate|]. inversion H; subst. destruct t; simpl.
    + apply (fold_sel smin Z.le); unfold smin; intros; lia.
    + apply (fold_sel umin (fun a b => u a <= u b)); intros; try lia.
      unfold umin. destruct (u b <? u a) eqn:E; lia.
  - apply bind_ok in H as (zs & Hzs & H). exists zs. split; [now apply agg_values_spec|].
    destruct zs as [|z0 r]; [discriminate|]. inversion H; subst. destruct t; simpl.
    + apply (fold_sel smax (fun a b => b <= a)); unfold smax; intros; lia.
    + apply (fold_sel umax (fun a b => u b <= u a)); intros; try lia.
      unfold umax. destruct (u a <? u b) eqn:E; lia.
Qed.
Lemma agg_result_sound k t target es z :
  agg_result k t target es = Ok (Some z) -> exists zs, targets k target es zs /\ agg_of k t zs z.
Proof.
  intro H. apply agg_result_sound_e in H as (zs & H1 & H2). exists zs. split; [now apply etargets_targets|exact H2].
Qed.
(** no value: only [min]/[max] over no solution at all *)
Lemma agg_result_none k t target es :
  agg_result k t target es = Ok None -> es = [] /\ (k = AMin \/ k = AMax).
Proof.
  destruct k; simpl; intro H; try discriminate.
  - apply bind_ok in H as (zs & Hzs & H). destruct t; [apply bind_ok in H as (? & _ & H)|]; discriminate.
  - apply bind_ok in H as (zs & Hzs & H). destruct zs; [|discriminate].
    apply agg_values_spec in Hzs. inversion Hzs. auto.
  - apply bind_ok in H as (zs & Hzs & H). destruct zs; [|discriminate].
    apply agg_values_spec in Hzs. inversion Hzs. auto.
Qed.

(** two enumerations of the same solutions are permutations of each other (as assignments) *)
Lemma enumerates_incl N outer V s body es es' :
  enumerates N outer V s body es -> enumerates N outer V s body es' ->
  forall p, In p (map (proj V) es) -> In p (map (proj V) es').
Proof.
  intros (H1 & _ & _) (H1' & H2' & _) p Hp. apply in_map_iff in Hp as (a & <- & Ha).
  destruct (H1 a Ha) as (Hag & Hb & Hsat). destruct (H2' a Hag Hsat) as (b & Hb' & Hx).
  apply in_map_iff. exists b. split; [|exact Hb']. apply agree_proj. intros y Hy.
  destruct (H1' b Hb') as (_ & Hbb & _). specialize (Hbb y Hy). unfold bound in Hbb.
  destruct (lookup b y) as [v|] eqn:E; [|congruence]. symmetry. eapply Hx; eauto.
Qed.
Lemma enumerates_perm N outer V s body es es' :
  enumerates N outer V s body es -> enumerates N outer V s body es' ->
  Permutation (map (proj V) es) (map (proj V) es').
Proof.
  intros H H'. apply NoDup_Permutation; [apply H|apply H'|].
  intro p. split; eapply enumerates_incl; eauto.
Qed.

Lemma zsum_perm a b : Permutation a b -> zsum a = zsum b.
Proof. induction 1; simpl; lia. Qed.

Lemma Forall2_map_l {A B C} (f : A -> B) (R : B -> C -> Prop) l l' :
  Forall2 (fun a c => R (f a) c) l l' -> Forall2 R (map f l) l'.
Proof. induction 1; simpl; constructor; auto. Qed.
Lemma Forall2_map_l_eq {A B C} (f : A -> B) (R : B -> C -> Prop) (Q : A -> C -> Prop) l :
  (forall a c c', R (f a) c -> Q a c' -> c = c') ->
  forall l2 l', Forall2 R (map f l) l2 -> Forall2 Q l l' -> l2 = l'.
Proof.
  intro H. induction l as [|a l IH]; intros l2 l' H2 H'; simpl in H2; inversion H2; inversion H'; subst; [reflexivity|].
  f_equal; eauto.
Qed.

Lemma targets_perm V target es es' zs zs' :
  incl (term_vars target) V ->
  Permutation (map (proj V) es) (map (proj V) es') ->
  Forall2 (fun e' z => eval_term e' target = Ok (VNum z)) es zs ->
  Forall2 (fun e' z => den e' target (VNum z)) es' zs' ->
  Permutation zs zs'.
Proof.
  intros Hi Hp H H'.
  set (R := fun p z => exists a, proj V a = p /\ eval_term a target = Ok (VNum z)).
  assert (HR : Forall2 R (map (proj V) es) zs).
  { apply Forall2_map_l. eapply Forall2_imp; [|exact H]. intros a z Hz. exists a. auto. }
  destruct (Permutation_Forall2 Hp HR) as (zs2 & Hp2 & HR2).
  assert (zs2 = zs') as <-; [|exact Hp2].
  eapply (Forall2_map_l_eq (proj V) R); [|exact HR2|exact H'].
  intros b z2 z' (a & Hpa & Ha) Hb. apply proj_eq in Hpa.
  assert (Hd : den a target (VNum z')).
  { eapply den_agree; [|exact Hb]. intros y Hy. symmetry. apply Hpa. auto. }
  pose proof (den_eval_ok a a target _ _ (ext_refl a) Ha Hd) as E. congruence.
Qed.

Definition agg_det (k : aggk) (t : nty) : Prop :=
  match k, t with AMin, TU | AMax, TU => False | _, _ => True end.
Lemma agg_of_unique k t zs zs' z z' :
  agg_det k t ->
  Permutation zs zs' -> agg_of k t zs z -> agg_of k t zs' z' -> z = z'.
Proof.
  intros Hdet Hp H H'. destruct k, t; simpl in *; try tauto; subst.
  - f_equal. now apply Permutation_length.
  - f_equal. now apply Permutation_length.
  - now apply zsum_perm.
  - f_equal. apply zsum_perm. now apply Permutation_map.
  - destruct H as [Hin Hle], H' as [Hin' Hle'].
    apply (Permutation_in _ Hp) in Hin. apply (Permutation_in _ (Permutation_sym Hp)) in Hin'.
    apply Hle in Hin'. apply Hle' in Hin. lia.
  - destruct H as [Hin Hle], H' as [Hin' Hle'].
    apply (Permutation_in _ Hp) in Hin. apply (Permutation_in _ (Permutation_sym Hp)) in Hin'.
    apply Hle in Hin'. apply Hle' in Hin. lia.
Qed.


(** the aggregate value is determined by the declarative solution set *)
Lemma agg_result_complete N outer s target body k t es es' zs' z' o :
  enumerates N outer (term_vars target ++ slits_vars body) s body es ->
  enumerates N outer (term_vars target ++ slits_vars body) s body es' ->
  targets k target es' zs' -> agg_of k t zs' z' -> agg_det k t ->
  agg_result k t target es = Ok o -> o = Some z'.
Proof.
  intros He He' Ht Ha Hdet H. pose proof (enumerates_perm _ _ _ _ _ _ _ He He') as Hp.
  assert (Hlen : length es = length es').
  { apply Permutation_length in Hp. now rewrite !map_length in Hp. }
  destruct o as [z|].
  - f_equal. apply agg_result_sound_e in H as (zs & Hz & Hag).
    destruct k.
    + simpl in *. destruct t; simpl in *; lia.
    + eapply agg_of_unique; [exact Hdet| |exact Hag|exact Ha].
      eapply targets_perm; [| exact Hp|exact Hz|exact Ht]. intros y Hy. apply in_or_app; auto.
    + eapply agg_of_unique; [exact Hdet| |exact Hag|exact Ha].
      eapply targets_perm; [| exact Hp|exact Hz|exact Ht]. intros y Hy. apply in_or_app; auto.
    + eapply agg_of_unique; [exact Hdet| |exact Hag|exact Ha].
      eapply targets_perm; [| exact Hp|exact Hz|exact Ht]. intros y Hy. apply in_or_app; auto.
  - exfalso. apply agg_result_none in H as [-> Hk]. destruct es'; [|discriminate].
    destruct Hk as [-> | ->]; simpl in Ht; inversion Ht; subst; destruct t; simpl in Ha; destruct Ha as [[] _].
Qed.

(** * Literals *)
Definition hl (d : db) (outer : list nat) := sat_lit (holds d) (holds d) outer.

Lemma bind_var_sound e x v e' : In e' (bind_var e x v) ->
  ext e e' /\ lookup e' x = Some v /\ bound_after e e' [x].
Proof.
  unfold bind_var. destruct (lookup e x) as [w|] eqn:E.
  - destruct (value_eqb w v) eqn:Ev; [|intros []]. intros [<-|[]]. apply value_eqb_spec in Ev. subst.
    split; [apply ext_refl|]. split; [exact E|]. intro y. simpl. split; [auto|].
    intros [H|[<-|[]]]; auto. unfold bound; congruence.
  - intros [<-|[]]. split; [now apply ext_cons|]. split; [apply lookup_cons_eq|].
    intro y. rewrite bound_cons. simpl. intuition.
Qed.
Lemma bind_var_complete e x v s : ext e s -> lookup s x = Some v ->
  exists e', In e' (bind_var e x v) /\ ext e' s.
Proof.
  intros He Hs. unfold bind_var. destruct (lookup e x) as [w|] eqn:E.
  - apply He in E. assert (w = v) by congruence. subst. rewrite value_eqb_refl. exists e. simpl; auto.
  - exists ((x, v) :: e). split; [simpl; auto|]. intros y w. simpl.
    destruct (Nat.eqb y x) eqn:Ey; [|apply He]. apply Nat.eqb_eq in Ey. subst. congruence.
Qed.

Lemma step_range_inv d x t from to step e es :
  step_lit d (LRange x t from to step) e = Ok es ->
  exists f t' vs zs, eval_term e from = Ok (VNum f) /\ eval_term e to = Ok (VNum t') /\
    match step, vs with
    | Some s, Some v => eval_term e s = Ok (VNum v)
    | None, None => True
    | _, _ => False
    end /\ range_values t f t' vs = Ok zs /\ es = flat_map (fun z => bind_var e x (VNum z)) zs.
Proof.
  cbn [step_lit]. intro H. apply bind_ok in H as (vf & Hf & H). apply bind_ok in H as (vt & Ht & H).
  apply bind_ok in H as (vs & Hs & H).
  destruct vf as [f| | | |]; try discriminate. destruct vt as [t'| | | |]; try discriminate.
  destruct vs as [[s| | | |]|]; try discriminate.
  - apply bind_ok in H as (zs & Hz & H). inversion H; subst. exists f, t', (Some s), zs.
    repeat split; auto. destruct step as [st|]; [|discriminate].
    apply bind_ok in Hs as (v & Hv & Hs). inversion Hs; subst. exact Hv.
  - apply bind_ok in H as (zs & Hz & H). inversion H; subst. exists f, t', None, zs.
    repeat split; auto. destruct step as [st|]; [|exact I].
    apply bind_ok in Hs as (v & Hv & Hs). discriminate.
Qed.

Lemma lit_scoped_agg outer B x k t target body :
  lit_scoped outer B (LAgg x k t target body) = true ->
  agg_body_ok body = true /\
  forall y, In y (term_vars target ++ slits_vars body) ->
            In y B \/ (~ In y outer /\ In y (flat_map slit_binds body)).
Proof.
  simpl. intro H. apply andb_true_iff in H as [H1 H2]. split; [exact H1|].
  intros y Hy. rewrite forallb_forall in H2. specialize (H2 y Hy).
  apply orb_true_iff in H2 as [H2|H2]; [left; now apply memb_in|right].
  apply andb_true_iff in H2 as [H2 H3]. split; [|now apply memb_in].
  intro Ho. apply memb_in in Ho. rewrite Ho in H2. discriminate.
Qed.

Lemma sat_ls_inv P N outer e s : sat_lit P N outer e (LS s) -> sat_slit P N e s.
Proof. intro H; inversion H; auto. Qed.
Lemma sat_agg_inv P N outer e x k t target body : sat_lit P N outer e (LAgg x k t target body) ->
  exists es zs z, enumerates N outer (term_vars target ++ slits_vars body) e body es /\
    targets k target es zs /\ agg_of k t zs z /\ lookup e x = Some (VNum z).
Proof. intro H; inversion H; subst. eauto 8. Qed.
Lemma sat_range_inv P N outer e x t from to step : sat_lit P N outer e (LRange x t from to step) ->
  exists vf vt vs zs z, den e from (VNum vf) /\ den e to (VNum vt) /\
    match step, vs with Some s, Some v => den e s (VNum v) | None, None => True | _, _ => False end /\
    range_values t vf vt vs = Ok zs /\ In z zs /\ lookup e x = Some (VNum z).
Proof. intro H; inversion H; subst. eauto 12. Qed.

Lemma step_lit_sound d outer B l e es e' :
  db_nodup d -> lit_scoped outer B l = true ->
  (forall y, In y B -> bound e y) -> (forall y, bound e y -> In y outer) ->
  step_lit d l e = Ok es -> In e' es ->
  ext e e' /\ bound_after e e' (lit_binds l) /\ forall s, ext e' s -> hl d outer s l.
Proof.
  intros Hnd Hsc HB Hout H Hin. destruct l as [sl|x k t target body|x t from to step].
  - simpl in H. destruct (step_slit_sound _ _ _ _ _ H Hin) as (Hx & Hb & Hs).
    split; [auto|]. split; [exact Hb|]. intros s Hes. constructor. now apply Hs.
  - cbn [step_lit] in H. apply bind_ok in H as (sols & Hsol & H). apply bind_ok in H as (o & Ho & H).
    inversion H; subst; clear H. destruct o as [z|]; [|destruct Hin].
    apply bind_var_sound in Hin as (Hx & Hl & Hb). split; [auto|]. split; [exact Hb|].
    intros s Hes. apply lit_scoped_agg in Hsc as [Hok Hsc].
    apply agg_result_sound in Ho as (zs & Hz & Ha).
    econstructor; [|exact Hz|exact Ha|now apply Hes].
    eapply agg_enumerates; eauto. eapply ext_trans; eauto.
  - apply step_range_inv in H as (f & t' & vs & zs & Hf & Ht & Hst & Hr & ->).
    apply in_flat_map in Hin as (z & Hz & Hin). apply bind_var_sound in Hin as (Hx & Hl & Hb).
    split; [auto|]. split.
    + intro y. rewrite (Hb y). simpl. rewrite !in_app_iff. split; [tauto|].
      intros [Hy|[Hy|[Hy|[Hy|Hy]]]]; auto; left.
      * eapply (eval_bound e from); eauto.
      * eapply (eval_bound e to); eauto.
      * destruct step as [st|]; [|destruct Hy]. destruct vs as [v|]; [|destruct Hst]. eapply (eval_bound e st); eauto.
    + intros s Hes. assert (He : ext e s) by (eapply ext_trans; eauto).
      apply (SatRange _ _ _ _ x t from to step f t' vs zs z); auto.
      * eapply den_mono; eauto using eval_den.
      * eapply den_mono; eauto using eval_den.
      * destruct step as [st|], vs as [v|]; auto. eapply den_mono; eauto using eval_den.
Qed.

Lemma step_lit_complete d outer B l e es s :
  db_nodup d -> lit_scoped outer B l = true -> lit_det l = true ->
  (forall y, In y B -> bound e y) -> (forall y, bound e y -> In y outer) ->
  step_lit d l e = Ok es -> ext e s -> hl d outer s l -> exists e', In e' es /\ ext e' s.
Proof.
  intros Hnd Hsc Hdet HB Hout H He Hsat. destruct l as [sl|x k t target body|x t from to step].
  - simpl in H. apply sat_ls_inv in Hsat. eapply step_slit_complete; eauto.
  - cbn [step_lit] in H. apply bind_ok in H as (sols & Hsol & H). apply bind_ok in H as (o & Ho & H).
    inversion H; subst; clear H. apply sat_agg_inv in Hsat as (es' & zs' & z' & Hen' & Hz' & Ha' & Hl').
    apply lit_scoped_agg in Hsc as [Hok Hsc].
    assert (Hen : enumerates (holds d) outer (term_vars target ++ slits_vars body) s body sols).
    { eapply agg_enumerates; eauto. }
    assert (o = Some z') as ->.
    { apply (agg_result_complete (holds d) outer s target body k t sols es' zs' z' o Hen Hen' Hz' Ha'); [|exact Ho].
      destruct k, t; simpl in *; auto; congruence. }
    now apply bind_var_complete.
  - apply step_range_inv in H as (f & t' & vs & zs & Hf & Ht & Hst & Hr & ->).
    apply sat_range_inv in Hsat as (vf & vt & vs' & zs' & z & Df & Dt & Dst & Hr' & Hz & Hl).
    pose proof (den_eval_ok _ _ _ _ _ He Hf Df) as E1. pose proof (den_eval_ok _ _ _ _ _ He Ht Dt) as E2.
    inversion E1; inversion E2; subst.
    assert (vs' = vs) as ->.
    { destruct step as [st|], vs as [v|], vs' as [v'|]; try tauto.
      pose proof (den_eval_ok _ _ _ _ _ He Hst Dst) as E3. congruence. }
    rewrite Hr in Hr'. inversion Hr'; subst.
    destruct (bind_var_complete e x (VNum z) s He Hl) as (e' & Hin & Hx).
    exists e'. split; [|exact Hx]. apply in_flat_map. eauto.
Qed.

(** * (c), (d) Conjunctions of literals: [solve] *)
Lemma lit_binds_outer l : incl (lit_binds l) (lit_outer_vars l).
Proof. destruct l; simpl; try apply incl_refl. apply slit_binds_vars. Qed.

Definition env_ok (outer B : list nat) (e : env) : Prop :=
  (forall y, In y B -> bound e y) /\ (forall y, bound e y -> In y outer).

Lemma env_ok_step outer B l e e' :
  incl (lit_outer_vars l) outer -> env_ok outer B e -> ext e e' -> bound_after e e' (lit_binds l) ->
  env_ok outer (lit_binds l ++ B) e'.
Proof.
  intros Hi [HB Ho] Hx Hb. split.
  - intros y Hy. apply Hb. apply in_app_or in Hy as [Hy|Hy]; auto.
  - intros y Hy. apply Hb in Hy as [Hy|Hy]; auto. apply Hi. now apply lit_binds_outer.
Qed.

Lemma solve_sound_gen d outer ls : forall B es0 es e',
  db_nodup d -> scoped outer B ls = true -> incl (flat_map lit_outer_vars ls) outer ->
  (forall e0, In e0 es0 -> env_ok outer B e0) ->
  solve d ls es0 = Ok es -> In e' es ->
  exists e0, In e0 es0 /\ ext e0 e' /\ bound_after e0 e' (flat_map lit_binds ls) /\
             forall s, ext e' s -> Forall (hl d outer s) ls.
Proof.
  induction ls as [|l ls IH]; intros B es0 es e' Hnd Hsc Hi Hok H Hin; simpl in H.
  - inversion H; subst. exists e'. split; [auto|]. split; [apply ext_refl|]. split; [apply bound_after_refl|].
    constructor.
  - apply bind_ok in H as (es1 & H1 & H). simpl in Hsc. apply andb_true_iff in Hsc as [Hl Hsc].
    simpl in Hi. apply incl_app_inv in Hi as [Hi1 Hi2].
    assert (Hok1 : forall e1, In e1 es1 -> env_ok outer (lit_binds l ++ B) e1).
    { intros e1 Hin1. apply (flat_map_res_in _ _ _ H1) in Hin1 as (e0 & x & Hin0 & Hst & Hx).
      destruct (Hok _ Hin0) as [HB Ho].
      destruct (step_lit_sound _ _ _ _ _ _ _ Hnd Hl HB Ho Hst Hx) as (Hx0 & Hb0 & _).
      eapply env_ok_step; eauto. }
    destruct (IH _ _ _ _ Hnd Hsc Hi2 Hok1 H Hin) as (e1 & Hin1 & Hx1 & Hb1 & Hs1).
    apply (flat_map_res_in _ _ _ H1) in Hin1 as (e0 & x & Hin0 & Hst & Hx).
    destruct (Hok _ Hin0) as [HB Ho].
    destruct (step_lit_sound _ _ _ _ _ _ _ Hnd Hl HB Ho Hst Hx) as (Hx0 & Hb0 & Hs0).
    exists e0. split; [auto|]. split; [eapply ext_trans; eauto|]. split.
    + simpl. eapply bound_after_trans; eauto.
    + intros s Hs. constructor; [|auto]. apply Hs0. eapply ext_trans; eauto.
Qed.

Lemma solve_complete_gen d outer ls : forall B es0 es e0 s,
  db_nodup d -> scoped outer B ls = true -> forallb lit_det ls = true ->
  incl (flat_map lit_outer_vars ls) outer -> env_ok outer B e0 ->
  solve d ls es0 = Ok es -> In e0 es0 -> ext e0 s -> Forall (hl d outer s) ls ->
  exists e', In e' es /\ ext e' s.
Proof.
  induction ls as [|l ls IH]; intros B es0 es e0 s Hnd Hsc Hdet Hi Hok H Hin He Hsat; simpl in H.
  - inversion H; subst. eauto.
  - apply bind_ok in H as (es1 & H1 & H). inversion Hsat; subst.
    simpl in Hsc. apply andb_true_iff in Hsc as [Hl Hsc].
    simpl in Hdet. apply andb_true_iff in Hdet as [Hd Hdet].
    simpl in Hi. apply incl_app_inv in Hi as [Hi1 Hi2]. destruct Hok as [HB Ho].
    destruct (flat_map_res_ok _ _ _ H1 _ Hin) as (x & Hx).
    destruct (step_lit_complete _ _ _ _ _ _ _ Hnd Hl Hd HB Ho Hx He H3) as (e1 & Hin1 & He1).
    destruct (step_lit_sound _ _ _ _ _ _ _ Hnd Hl HB Ho Hx Hin1) as (Hx0 & Hb0 & _).
    eapply (IH (lit_binds l ++ B) es1 es e1 s); eauto.
    + eapply env_ok_step; eauto. split; auto.
    + apply (flat_map_res_in _ _ _ H1). eauto.
Qed.

(** (c) soundness of [solve]. [Stuck] (the literal order does not ground a variable before its
    use) and [Undef] (an operation left the defined value domain) are excluded by [= Ok es]. *)
Theorem solve_sound d outer ls e0 es :
  db_nodup d -> scoped outer [] ls = true -> incl (flat_map lit_outer_vars ls) outer ->
  (forall y, bound e0 y -> In y outer) ->
  solve d ls [e0] = Ok es ->
  forall e, In e es -> ext e0 e /\ Forall (sat_lit (holds d) (holds d) outer e) ls.
Proof.
  intros Hnd Hsc Hi Ho H e Hin.
  destruct (solve_sound_gen d outer ls [] [e0] es e Hnd Hsc Hi) as (e0' & [<-|[]] & Hx & _ & Hs); auto.
  - intros e1 [<-|[]]. split; [intros y []|exact Ho].
  - split; [exact Hx|]. apply Hs. apply ext_refl.
Qed.

(** (d) completeness of [solve]: a satisfying valuation is found up to extension *)
Theorem solve_complete d outer ls e0 es :
  db_nodup d -> scoped outer [] ls = true -> forallb lit_det ls = true ->
  incl (flat_map lit_outer_vars ls) outer -> (forall y, bound e0 y -> In y outer) ->
  solve d ls [e0] = Ok es ->
  forall s, ext e0 s -> Forall (sat_lit (holds d) (holds d) outer s) ls ->
  exists e, In e es /\ ext e s.
Proof.
  intros Hnd Hsc Hdet Hi Ho H s He Hsat.
  eapply (solve_complete_gen d outer ls [] [e0] es e0 s); eauto.
  - split; [intros y []|exact Ho].
  - simpl; auto.
Qed.

(** * (e) One clause *)
Lemma heads_in args es ts : heads args es = Ok ts ->
  forall t, In t ts <-> exists e, In e es /\ eval_terms e args = Ok t.
Proof.
  revert ts; induction es as [|e es IH]; intros ts H t; simpl in H.
  - inversion H. split; [intros []|intros (e & [] & _)].
  - apply bind_ok in H as (t0 & Ht0 & H). apply bind_ok in H as (r & Hr & H). inversion H; subst; clear H.
    simpl. rewrite (IH _ Hr). split.
    + intros [<-|(e' & He' & Ht)]; [exists e; auto | exists e'; auto].
    + intros (e' & [<-|He'] & Ht); [left; congruence | right; eauto].
Qed.
Lemma heads_ok args es ts : heads args es = Ok ts -> forall e, In e es -> exists t, eval_terms e args = Ok t.
Proof.
  revert ts; induction es as [|e es IH]; intros ts H e' He'; [destruct He'|]. simpl in H.
  apply bind_ok in H as (t0 & Ht0 & H). apply bind_ok in H as (r & Hr & H).
  destruct He' as [<-|He']; eauto.
Qed.

Lemma clause_outer_incl c : incl (flat_map lit_outer_vars (c_body c)) (clause_outer c).
Proof. unfold clause_outer. apply incl_appr, incl_refl. Qed.
Lemma bound_nil y : ~ bound [] y.
Proof. unfold bound. simpl. tauto. Qed.

Lemma fire_clause_sound d c ts :
  db_nodup d -> clause_ok c = true -> fire_clause d c = Ok ts ->
  forall t, In t ts -> fires (holds d) (holds d) c t.
Proof.
  intros Hnd Hok H t Hin. unfold fire_clause in H. apply bind_ok in H as (es & Hes & H).
  apply (heads_in _ _ _ H) in Hin as (e & He & Ht). exists e. split.
  - eapply (solve_sound d (clause_outer c) (c_body c) []); eauto using clause_outer_incl.
    intros y Hy. now apply bound_nil in Hy.
  - now apply eval_terms_den.
Qed.
Lemma fire_clause_complete d c ts :
  db_nodup d -> clause_ok c = true -> clause_det c = true -> fire_clause d c = Ok ts ->
  forall t, fires (holds d) (holds d) c t -> In t ts.
Proof.
  intros Hnd Hok Hdet H t (s & Hsat & Hd). unfold fire_clause in H. apply bind_ok in H as (es & Hes & H).
  destruct (solve_complete d (clause_outer c) (c_body c) [] es Hnd Hok Hdet (clause_outer_incl c)) with (s := s)
    as (e & He & Hx); auto using ext_nil.
  { intros y Hy. now apply bound_nil in Hy. }
  destruct (heads_ok _ _ _ H e He) as (t' & Ht').
  pose proof (den_eval_terms e s (c_args c) t Hx Hd) as Ag. rewrite Ht' in Ag. simpl in Ag. subst t'.
  apply (heads_in _ _ _ H). eauto.
Qed.
(** the tuples returned are exactly the rule instances *)
Theorem fire_clause_spec d c ts :
  db_nodup d -> clause_ok c = true -> clause_det c = true -> fire_clause d c = Ok ts ->
  forall t, In t ts <-> fires (holds d) (holds d) c t.
Proof.
  intros Hnd Hok Hdet H t. split; [eapply fire_clause_sound | eapply fire_clause_complete]; eauto.
Qed.

(** * Databases *)
Lemma rel_of_db_add d r t r' :
  rel_of (db_add d r t) r' = if Nat.eqb r' r then rel_of d r ++ [t] else rel_of d r'.
Proof.
  induction d as [|[r0 ts] d IH]; simpl.
  - destruct (Nat.eqb r' r); reflexivity.
  - destruct (Nat.eqb r r0) eqn:E; simpl.
    + apply Nat.eqb_eq in E. subst r0. destruct (Nat.eqb r' r); reflexivity.
    + rewrite IH. destruct (Nat.eqb r' r0) eqn:E0; [|reflexivity].
      apply Nat.eqb_eq in E0. subst r0. destruct (Nat.eqb r' r) eqn:E1; [|reflexivity].
      apply Nat.eqb_eq in E1. subst. rewrite Nat.eqb_refl in E. discriminate.
Qed.

Lemma add_new_spec r ts : forall d ch d' ch',
  add_new d r ts ch = (d', ch') ->
  (forall r', r' <> r -> rel_of d' r' = rel_of d r') /\
  (forall t, In t (rel_of d' r) <-> In t (rel_of d r) \/ In t ts) /\
  (NoDup (rel_of d r) -> NoDup (rel_of d' r)) /\
  (ch = true -> ch' = true) /\
  (ch' = false -> d' = d /\ forall t, In t ts -> In t (rel_of d r)).
Proof.
  induction ts as [|t ts IH]; intros d ch d' ch' H; simpl in H.
  - inversion H; subst. split; [auto|]. split; [intro t0; simpl; tauto|]. split; [auto|]. split; [auto|].
    intros _. split; [reflexivity|intros t0 []].
  - destruct (mem_tuple t (rel_of d r)) eqn:M.
    + apply mem_tuple_spec in M. destruct (IH _ _ _ _ H) as (H1 & H2 & H3 & H4 & H5).
      split; [exact H1|]. split; [|split; [exact H3|split; [exact H4|]]].
      * intro t'. rewrite H2. simpl. split; [tauto|]. intros [Ht|[<-|Ht]]; auto.
      * intro Hc. destruct (H5 Hc) as [-> H6]. split; [reflexivity|]. intros t' [<-|Ht']; auto.
    + destruct (IH _ _ _ _ H) as (H1 & H2 & H3 & H4 & H5).
      assert (Hr : rel_of (db_add d r t) r = rel_of d r ++ [t]) by (rewrite rel_of_db_add, Nat.eqb_refl; reflexivity).
      split; [|split; [|split; [|split]]].
      * intros r' Hr'. rewrite (H1 r' Hr'), rel_of_db_add. apply Nat.eqb_neq in Hr'. now rewrite Hr'.
      * intro t'. rewrite H2, Hr, in_app_iff. simpl. tauto.
      * intro Hnd. apply H3. rewrite Hr.
        apply Permutation_NoDup with (l := t :: rel_of d r).
        -- apply Permutation_cons_append.
        -- constructor; [|exact Hnd]. intro Hin. apply mem_tuple_spec in Hin. congruence.
      * intros _. now apply H4.
      * intro Hc. specialize (H4 eq_refl). congruence.
Qed.

Lemma round_spec d0 cs : forall d ch d' ch',
  round_clauses d0 d cs ch = Ok (d', ch') ->
  isub (holds d) (holds d') /\
  (forall r t, In t (rel_of d' r) ->
     In t (rel_of d r) \/ exists c ts, In c cs /\ c_rel c = r /\ fire_clause d0 c = Ok ts /\ In t ts) /\
  (forall r, ~ In r (defined_in cs) -> rel_of d' r = rel_of d r) /\
  (db_nodup d -> db_nodup d') /\
  (ch = true -> ch' = true) /\
  (ch' = false -> d' = d /\ forall c, In c cs ->
     exists ts, fire_clause d0 c = Ok ts /\ forall t, In t ts -> In t (rel_of d (c_rel c))).
Proof.
  induction cs as [|c cs IH]; intros d ch d' ch' H; simpl in H.
  - inversion H; subst. split; [intros r t; auto|]. split; [auto|]. split; [auto|]. split; [auto|]. split; [auto|].
    intros _. split; [reflexivity|intros c []].
  - apply bind_ok in H as (ts & Hts & H). destruct (add_new d (c_rel c) ts ch) as [d1 ch1] eqn:Ha.
    apply add_new_spec in Ha as (A1 & A2 & A3 & A4 & A5).
    apply IH in H as (R1 & R2 & R3 & R4 & R5 & R6).
    split; [|split; [|split; [|split; [|split]]]].
    + intros r t Ht. apply R1. unfold holds in *. destruct (Nat.eq_dec r (c_rel c)) as [->|Hn].
      * apply A2. auto.
      * rewrite (A1 r Hn). exact Ht.
    + intros r t Ht. apply R2 in Ht as [Ht|(c' & ts' & Hc' & Hr' & Hf' & Ht')].
      * destruct (Nat.eq_dec r (c_rel c)) as [->|Hn].
        -- apply A2 in Ht as [Ht|Ht]; [auto|]. right. exists c, ts. simpl; auto.
        -- rewrite (A1 r Hn) in Ht. auto.
      * right. exists c', ts'. simpl; auto.
    + intros r Hr. simpl in Hr. rewrite (R3 r); [apply A1|]; intro E; apply Hr; auto.
    + intros Hnd. apply R4. intro r. destruct (Nat.eq_dec r (c_rel c)) as [->|Hn].
      * apply A3, Hnd.
      * rewrite (A1 r Hn). apply Hnd.
    + intro Hc. auto.
    + intro Hc. destruct (R6 Hc) as [-> R7].
      assert (ch1 = false) as -> by (destruct ch1; [specialize (R5 eq_refl); congruence|reflexivity]).
      destruct (A5 eq_refl) as [-> A6]. split; [reflexivity|].
      intros c' [<-|Hc']; [exists ts; auto | auto].
Qed.

(** * Monotonicity of rule instances in the positive relations, and dependence on the negatively
    read relations only through [lit_low] *)
Lemma sat_slit_change (P N P' N' : interp) e l :
  (forall r t, In r (slit_pos l) -> P r t -> P' r t) ->
  (forall r t, In r (slit_neg l) -> N' r t -> N r t) ->
  sat_slit P N e l -> sat_slit P' N' e l.
Proof.
  intros HP HN H. destruct l as [r args|r args|c a b]; simpl in *.
  - apply sat_pos_inv in H as (t & Ht & Hd). econstructor; eauto.
  - apply sat_neg_inv in H. constructor. intros (t & Ht & Hd). apply H. exists t. split; auto.
  - apply sat_cmp_inv in H as (va & vb & Ha & Hb & Hc). econstructor; eauto.
Qed.
Lemma sat_slits_change (P N P' N' : interp) e ls :
  (forall r t, In r (flat_map slit_pos ls) -> P r t -> P' r t) ->
  (forall r t, In r (flat_map slit_neg ls) -> N' r t -> N r t) ->
  Forall (sat_slit P N e) ls -> Forall (sat_slit P' N' e) ls.
Proof.
  intros HP HN H. induction H as [|l ls Hl _ IH]; constructor.
  - eapply sat_slit_change; [| |exact Hl]; intros r t Hr; [apply HP|apply HN]; simpl; apply in_or_app; auto.
  - apply IH; intros r t Hr; [apply HP|apply HN]; simpl; apply in_or_app; auto.
Qed.

Lemma enumerates_change (N N' : interp) outer V e body es :
  (forall r t, In r (flat_map (fun s => slit_pos s ++ slit_neg s) body) -> (N r t <-> N' r t)) ->
  enumerates N outer V e body es -> enumerates N' outer V e body es.
Proof.
  intros HN (H1 & H2 & H3).
  assert (Hp : forall r, In r (flat_map slit_pos body) -> In r (flat_map (fun s => slit_pos s ++ slit_neg s) body)).
  { intros r Hr. apply in_flat_map in Hr as (s & Hs & Hr). apply in_flat_map. exists s. split; auto. apply in_or_app; auto. }
  assert (Hn : forall r, In r (flat_map slit_neg body) -> In r (flat_map (fun s => slit_pos s ++ slit_neg s) body)).
  { intros r Hr. apply in_flat_map in Hr as (s & Hs & Hr). apply in_flat_map. exists s. split; auto. apply in_or_app; auto. }
  split; [|split; [|exact H3]].
  - intros e' He'. destruct (H1 e' He') as (A & B & C). split; [exact A|]. split; [exact B|].
    eapply sat_slits_change; [| |exact C]; intros r t Hr Ht; apply (HN r t); auto.
  - intros s Hag Hs. apply H2; [exact Hag|].
    eapply sat_slits_change; [| |exact Hs]; intros r t Hr Ht; apply (HN r t); auto.
Qed.

Lemma sat_lit_change (P N P' N' : interp) outer e l :
  (forall r t, In r (lit_pos l) -> P r t -> P' r t) ->
  (forall r t, In r (lit_low l) -> (N r t <-> N' r t)) ->
  sat_lit P N outer e l -> sat_lit P' N' outer e l.
Proof.
  intros HP HN H. destruct l as [sl|x k t target body|x t from to step].
  - apply sat_ls_inv in H. constructor. eapply sat_slit_change; [| |exact H]; simpl in *; auto.
    intros r t Hr Ht. apply (HN r t); auto.
  - apply sat_agg_inv in H as (es & zs & z & H1 & H2 & H3 & H4). econstructor; eauto.
    eapply enumerates_change; eauto.
  - apply sat_range_inv in H as (vf & vt & vs & zs & z & H1 & H2 & H3 & H4 & H5 & H6).
    eapply SatRange; eauto.
Qed.

Lemma fires_change (P N P' N' : interp) c t :
  (forall l r t, In l (c_body c) -> In r (lit_pos l) -> P r t -> P' r t) ->
  (forall l r t, In l (c_body c) -> In r (lit_low l) -> (N r t <-> N' r t)) ->
  fires P N c t -> fires P' N' c t.
Proof.
  intros HP HN (e & Hsat & Hd). exists e. split; [|exact Hd].
  rewrite Forall_forall in *. intros l Hl. eapply sat_lit_change; [| |apply Hsat; exact Hl]; eauto.
Qed.
Lemma fires_mono (P P' N : interp) c t : isub P P' -> fires P N c t -> fires P' N c t.
Proof. intros H. apply fires_change; [intros; apply H; auto | intros; tauto]. Qed.
Lemma fires_ieq (P P' N N' : interp) c t : ieq P P' -> ieq N N' -> fires P N c t -> fires P' N' c t.
Proof. intros H1 H2. apply fires_change; [intros; apply H1; auto | intros; apply H2]. Qed.

(** * The least model of a stratum *)
Lemma least_model_lower lower cs : isub lower (least_model lower cs).
Proof. intros r t H I HI _. auto. Qed.
Lemma least_model_least lower cs I : isub lower I -> closed I lower cs -> isub (least_model lower cs) I.
Proof. intros H1 H2 r t H. apply H; auto. Qed.
Lemma least_model_closed lower cs : closed (least_model lower cs) lower cs.
Proof.
  intros c t Hc Hf I HI Hcl. apply Hcl; [exact Hc|].
  eapply fires_mono; [|exact Hf]. now apply least_model_least.
Qed.
Theorem least_model_is_least lower cs : is_least lower cs (least_model lower cs).
Proof.
  split; [apply least_model_lower|]. split; [apply least_model_closed|]. intros I. apply least_model_least.
Qed.
(** any two least models have the same tuples *)
Theorem is_least_unique lower cs M M' : is_least lower cs M -> is_least lower cs M' -> ieq M M'.
Proof. intros (A & B & C) (A' & B' & C') r t. split; [apply C | apply C']; auto. Qed.

(** the inductive presentation (derivations) defines the same interpretation *)
Theorem derived_least_model lower cs : ieq (derived lower cs) (least_model lower cs).
Proof.
  intros r t. split.
  - intro H. intros I HI Hcl. revert r t H.
    fix IH 3. intros r t H. destruct H as [r t H|c t Hc (e & Hsat & Hd)]; [now apply HI|].
    apply Hcl; [exact Hc|]. exists e. split; [|exact Hd]. clear Hd.
    induction Hsat as [|l ls Hl _ IHls]; constructor; [|exact IHls].
    destruct Hl as [s Hs|x k ty target body es zs z H1 H2 H3 H4|x ty from to step vf vt vs zs z H1 H2 H3 H4 H5 H6].
    + constructor. destruct Hs as [r args t' Ht' Hd|r args Hn|cm a b va vb Ha Hb Hc'].
      * econstructor; [apply IH; exact Ht'|exact Hd].
      * constructor; exact Hn.
      * econstructor; eauto.
    + econstructor; eauto.
    + eapply SatRange; eauto.
  - intro H. apply H.
    + intros r' t' Hl. now constructor.
    + intros c t' Hc Hf. now apply DerRule.
Qed.

(** * (f) The fixpoint iteration of one stratum *)
Lemma clauses_ok_in cs c : clauses_ok cs = true -> In c cs -> clause_ok c = true.
Proof. unfold clauses_ok. rewrite forallb_forall. auto. Qed.

Lemma iterate_spec fuel cs lower :
  stratum_ok cs -> clauses_ok cs = true -> forall d n d' n',
  iterate fuel d cs n = Ok (Some (d', n')) -> db_nodup d ->
  isub (holds d) (least_model lower cs) ->
  (forall r, ~ In r (defined_in cs) -> forall t, holds d r t <-> lower r t) ->
  isub (holds d) (holds d') /\ isub (holds d') (least_model lower cs) /\ db_nodup d' /\
  (forall r, ~ In r (defined_in cs) -> rel_of d' r = rel_of d r) /\
  round_clauses d' d' cs false = Ok (d', false).
Proof.
  intros Hst Hok. induction fuel as [|f IH]; intros d n d' n' H Hnd Hsub Hlow; simpl in H; [discriminate|].
  apply bind_ok in H as ([d1 ch] & Hr & H).
  pose proof (round_spec _ _ _ _ _ _ Hr) as (R1 & R2 & R3 & R4 & R5 & R6).
  destruct ch.
  - assert (Hsub1 : isub (holds d1) (least_model lower cs)).
    { intros r t Ht. apply R2 in Ht as [Ht|(c & ts & Hc & <- & Hf & Ht)]; [now apply Hsub|].
      apply least_model_closed; [exact Hc|].
      apply (fires_mono (holds d)); [exact Hsub|].
      apply (fires_change (holds d) (holds d)); [auto| |].
      - intros l r t' Hl Hr'. apply Hlow. eapply Hst; eauto.
      - eapply fire_clause_sound; eauto using clauses_ok_in. }
    assert (Hlow1 : forall r, ~ In r (defined_in cs) -> forall t, holds d1 r t <-> lower r t).
    { intros r Hr' t. unfold holds. rewrite (R3 r Hr'). now apply Hlow. }
    destruct (IH _ _ _ _ H (R4 Hnd) Hsub1 Hlow1) as (I1 & I2 & I3 & I4 & I5).
    split; [intros r t Ht; apply I1, R1, Ht|]. split; [exact I2|]. split; [exact I3|]. split; [|exact I5].
    intros r Hr'. rewrite (I4 r Hr'). now apply R3.
  - inversion H; subst. destruct (R6 eq_refl) as [-> _].
    split; [intros r t; auto|]. split; [exact Hsub|]. split; [exact Hnd|]. split; [auto|exact Hr].
Qed.

Lemma clauses_det_in cs c : forallb clause_det cs = true -> In c cs -> clause_det c = true.
Proof. rewrite forallb_forall. auto. Qed.

(** a database on which a round adds nothing is closed under the rules *)
Lemma round_fix_closed d cs :
  db_nodup d -> clauses_ok cs = true -> forallb clause_det cs = true ->
  round_clauses d d cs false = Ok (d, false) -> closed (holds d) (holds d) cs.
Proof.
  intros Hnd Hok Hdet H c t Hc Hf. apply round_spec in H as (_ & _ & _ & _ & _ & R6).
  destruct (R6 eq_refl) as [_ R7]. destruct (R7 c Hc) as (ts & Hts & Hin). apply Hin.
  eapply fire_clause_complete; eauto using clauses_ok_in, clauses_det_in.
Qed.

Theorem iterate_fixpoint fuel d cs d' n :
  stratum_ok cs -> clauses_ok cs = true -> forallb clause_det cs = true -> db_nodup d ->
  iterate fuel d cs 0 = Ok (Some (d', n)) ->
  isub (holds d) (holds d') /\
  closed (holds d') (holds d') cs /\
  (forall r t, holds d' r t <-> least_model (holds d) cs r t) /\
  db_nodup d' /\
  (forall r, ~ In r (defined_in cs) -> rel_of d' r = rel_of d r).
Proof.
  intros Hst Hok Hdet Hnd H.
  destruct (iterate_spec fuel cs (holds d) Hst Hok d 0%nat d' n H Hnd) as (I1 & I2 & I3 & I4 & I5).
  { apply least_model_lower. }
  { intros; tauto. }
  pose proof (round_fix_closed d' cs I3 Hok Hdet I5) as Hcl.
  split; [exact I1|]. split; [exact Hcl|]. split; [|split; [exact I3|exact I4]].
  intros r t. split; [apply I2|]. apply least_model_least; [exact I1|].
  intros c t' Hc Hf. apply Hcl; [exact Hc|].
  apply (fires_change (holds d') (holds d)); [auto| |exact Hf].
  intros l r' t'' Hl Hr'. unfold holds. rewrite (I4 r'); [tauto|]. eapply Hst; eauto.
Qed.

(** * (g) Whole programs *)
Lemma ieq_refl I : ieq I I.
Proof. intros r t; tauto. Qed.
Lemma ieq_sym I J : ieq I J -> ieq J I.
Proof. intros H r t. symmetry. apply H. Qed.
Lemma ieq_trans I J K : ieq I J -> ieq J K -> ieq I K.
Proof. intros H1 H2 r t. rewrite (H1 r t). apply H2. Qed.

Lemma is_least_ieq_lower L L' cs M : ieq L L' -> is_least L cs M -> is_least L' cs M.
Proof.
  intros He (A & B & C). split; [|split].
  - intros r t H. apply A, He, H.
  - intros c t Hc Hf. apply B; [exact Hc|]. eapply fires_ieq; [apply ieq_refl|apply ieq_sym; exact He|exact Hf].
  - intros I HI Hcl. apply C.
    + intros r t H. apply HI, He, H.
    + intros c t Hc Hf. apply Hcl; [exact Hc|]. eapply fires_ieq; [apply ieq_refl|exact He|exact Hf].
Qed.
Lemma is_least_ieq L cs M M' : ieq M M' -> is_least L cs M -> is_least L cs M'.
Proof.
  intros He (A & B & C). split; [|split].
  - intros r t H. apply He, A, H.
  - intros c t Hc Hf. apply He, B; [exact Hc|]. eapply fires_ieq; [apply ieq_sym; exact He|apply ieq_refl|exact Hf].
  - intros I HI Hcl r t H. apply (C I HI Hcl). apply He, H.
Qed.
Lemma least_model_ieq L L' cs : ieq L L' -> ieq (least_model L cs) (least_model L' cs).
Proof.
  intro He. apply (is_least_unique L' cs); [|apply least_model_is_least].
  eapply is_least_ieq_lower; [exact He|apply least_model_is_least].
Qed.
Lemma strat_model_ieq ss : forall L L', ieq L L' -> ieq (strat_model L ss) (strat_model L' ss).
Proof. induction ss as [|cs ss IH]; intros L L' He; simpl; [exact He|]. apply IH. now apply least_model_ieq. Qed.

Lemma is_strat_model_ieq_lower ss : forall L L' M, ieq L L' -> is_strat_model L ss M -> is_strat_model L' ss M.
Proof.
  induction ss as [|cs ss IH]; intros L L' M He H; simpl in *.
  - eapply ieq_trans; [apply ieq_sym; exact He|exact H].
  - destruct H as (mid & H1 & H2). exists mid. split; [|exact H2]. eapply is_least_ieq_lower; eauto.
Qed.
Lemma is_strat_model_ieq ss : forall L M M', ieq M M' -> is_strat_model L ss M -> is_strat_model L ss M'.
Proof.
  induction ss as [|cs ss IH]; intros L M M' He H; simpl in *.
  - eapply ieq_trans; eauto.
  - destruct H as (mid & H1 & H2). exists mid. split; [exact H1|]. eapply IH; eauto.
Qed.
(** the recursive definition meets the specification *)
Theorem strat_model_spec ss : forall L, is_strat_model L ss (strat_model L ss).
Proof.
  induction ss as [|cs ss IH]; intro L; simpl; [apply ieq_refl|].
  exists (least_model L cs). split; [apply least_model_is_least|apply IH].
Qed.
(** ... and the specification has only one solution: this is what lets every backend and every
    configuration be compared with the single oracle *)
Theorem least_model_unique ss : forall L M M',
  is_strat_model L ss M -> is_strat_model L ss M' -> ieq M M'.
Proof.
  induction ss as [|cs ss IH]; intros L M M' H H'; simpl in *.
  - eapply ieq_trans; [apply ieq_sym; exact H|exact H'].
  - destruct H as (mid & H1 & H2), H' as (mid' & H1' & H2').
    apply (IH mid); [exact H2|]. eapply is_strat_model_ieq_lower; [|exact H2'].
    eapply is_least_unique; eauto.
Qed.
Corollary stratified_model_unique_db edb ss d d' :
  is_strat_model (holds edb) ss (holds d) -> is_strat_model (holds edb) ss (holds d') ->
  forall r t, In t (rel_of d r) <-> In t (rel_of d' r).
Proof. intros H H'. exact (least_model_unique ss _ _ _ H H'). Qed.

Lemma strata_ok_cons earlier cs ss :
  strata_ok earlier (cs :: ss) = true -> stratum_ok cs /\ strata_ok (earlier ++ defined_in cs) ss = true.
Proof.
  simpl. intro H. apply andb_true_iff in H as [H H3]. apply andb_true_iff in H as [H1 _].
  split; [|exact H3]. intros c l r Hc Hl Hr Hin.
  rewrite forallb_forall in H1. specialize (H1 c Hc). rewrite forallb_forall in H1. specialize (H1 l Hl).
  apply andb_true_iff in H1 as [H1 _]. rewrite forallb_forall in H1. specialize (H1 r Hr).
  apply andb_true_iff in H1 as [H1 _]. apply memb_in in Hin. rewrite Hin in H1. discriminate.
Qed.

Lemma eval_strata_spec fuel ss : forall d rounds earlier d' rs,
  strata_ok earlier ss = true -> program_ok ss = true -> program_det ss = true -> db_nodup d ->
  eval_strata fuel d ss rounds = Ok (Some (d', rs)) ->
  ieq (holds d') (strat_model (holds d) ss) /\ db_nodup d'.
Proof.
  induction ss as [|cs ss IH]; intros d rounds earlier d' rs Hst Hok Hdet Hnd H; simpl in H.
  - inversion H; subst. split; [apply ieq_refl|exact Hnd].
  - apply bind_ok in H as (o & Ho & H). destruct o as [[d1 n]|]; [|discriminate].
    apply strata_ok_cons in Hst as [Hs1 Hst]. simpl in Hok, Hdet.
    apply andb_true_iff in Hok as [Hok1 Hok]. apply andb_true_iff in Hdet as [Hdet1 Hdet].
    destruct (iterate_fixpoint _ _ _ _ _ Hs1 Hok1 Hdet1 Hnd Ho) as (_ & _ & I3 & I4 & _).
    destruct (IH _ _ _ _ _ Hst Hok Hdet I4 H) as (J1 & J2). split; [|exact J2].
    simpl. eapply ieq_trans; [exact J1|]. apply strat_model_ieq. exact I3.
Qed.

(** (g) the database computed by [run_program] is the stratified model: no derivable tuple is
    missing, no underivable tuple is present, no tuple appears twice *)
Theorem run_program_correct fuel edb ss d rounds :
  program_ok ss = true -> program_det ss = true -> db_nodup edb ->
  run_program fuel edb ss = Ok (Some (d, rounds)) ->
  (forall r t, In t (rel_of d r) <-> strat_model (holds edb) ss r t) /\
  (forall r, NoDup (rel_of d r)) /\
  is_strat_model (holds edb) ss (holds d).
Proof.
  intros Hok Hdet Hnd H. unfold run_program in H. destruct (strata_ok [] ss) eqn:Hst; [|discriminate].
  destruct (eval_strata_spec _ _ _ _ _ _ _ Hst Hok Hdet Hnd H) as (J1 & J2).
  split; [exact J1|]. split; [exact J2|].
  eapply is_strat_model_ieq; [apply ieq_sym; exact J1|apply strat_model_spec].
Qed.

(** * (h) Aggregates over an empty solution set *)
Definition no_solution (N : interp) (outer : list nat) (e : env) (target : term) (body : list slit) : Prop :=
  forall s, agrees_on (term_vars target ++ slits_vars body) outer e s -> ~ Forall (sat_slit N N s) body.

Lemma enumerates_empty N outer e target body es :
  no_solution N outer e target body ->
  enumerates N outer (term_vars target ++ slits_vars body) e body es -> es = [].
Proof.
  intros Hno (H1 & _ & _). destruct es as [|a es]; [reflexivity|]. exfalso.
  destruct (H1 a (or_introl eq_refl)) as (Hag & _ & Hsat). exact (Hno a Hag Hsat).
Qed.
Lemma enumerates_nil N outer e target body :
  no_solution N outer e target body ->
  enumerates N outer (term_vars target ++ slits_vars body) e body [].
Proof.
  intro Hno. split; [intros e' []|]. split; [|constructor].
  intros s Hag Hsat. exfalso. exact (Hno s Hag Hsat).
Qed.

(** count and sum over no solution are satisfied exactly by the value 0 (so the rule fires with
    0); min and max over no solution are never satisfied (the rule does not fire) *)
Theorem agg_empty_rule P N outer e x k t target body :
  no_solution N outer e target body ->
  match k with
  | ACount | ASum => sat_lit P N outer e (LAgg x k t target body) <-> lookup e x = Some (VNum 0)
  | AMin | AMax => ~ sat_lit P N outer e (LAgg x k t target body)
  end.
Proof.
  intro Hno.
  assert (Hinv : sat_lit P N outer e (LAgg x k t target body) ->
                 exists zs z, targets k target [] zs /\ agg_of k t zs z /\ lookup e x = Some (VNum z)).
  { intro H. apply sat_agg_inv in H as (es & zs & z & H1 & H2 & H3 & H4).
    apply (enumerates_empty _ _ _ _ _ _ Hno) in H1. subst. eauto. }
  destruct k.
  - split.
    + intro H. apply Hinv in H as (zs & z & H2 & H3 & H4). simpl in *.
      destruct zs; [|discriminate]. destruct t; simpl in H3; subst; exact H4.
    + intro H. apply (SatAgg _ _ _ _ x ACount t target body [] [] 0); auto using enumerates_nil.
      * reflexivity.
      * destruct t; reflexivity.
  - split.
    + intro H. apply Hinv in H as (zs & z & H2 & H3 & H4). simpl in H2. inversion H2; subst.
      destruct t; simpl in H3; subst; exact H4.
    + intro H. apply (SatAgg _ _ _ _ x ASum t target body [] [] 0); auto using enumerates_nil.
      * constructor.
      * destruct t; reflexivity.
  - intro H. apply Hinv in H as (zs & z & H2 & H3 & H4). simpl in H2. inversion H2; subst.
    destruct t; simpl in H3; destruct H3 as [[] _].
  - intro H. apply Hinv in H as (zs & z & H2 & H3 & H4). simpl in H2. inversion H2; subst.
    destruct t; simpl in H3; destruct H3 as [[] _].
Qed.

(** the evaluator on an empty solution list: binds 0 for count / sum, yields nothing for min / max *)
Theorem agg_empty_eval d e x k t target body :
  solve_s d body [e] = Ok [] ->
  step_lit d (LAgg x k t target body) e =
  Ok (match k with ACount | ASum => bind_var e x (VNum 0) | AMin | AMax => [] end).
Proof. intro H. cbn [step_lit]. rewrite H. destruct k, t; reflexivity. Qed.

(** * A checkable form of [db_nodup] *)
Fixpoint nodupb (l : list tuple) : bool :=
  match l with [] => true | x :: l' => negb (mem_tuple x l') && nodupb l' end.
Lemma nodupb_spec l : nodupb l = true -> NoDup l.
Proof.
  induction l as [|x l IH]; simpl; intro H; constructor; apply andb_true_iff in H as [H1 H2]; auto.
  intro Hin. apply mem_tuple_spec in Hin. rewrite Hin in H1. discriminate.
Qed.
Lemma db_nodup_check d : forallb (fun p => nodupb (snd p)) d = true -> db_nodup d.
Proof.
  intros H r. induction d as [|[r' ts] d IH]; simpl; [constructor|].
  simpl in H. apply andb_true_iff in H as [H1 H2]. destruct (Nat.eqb r r'); [now apply nodupb_spec|auto].
Qed.

(** * (i) Examples: a three-stratum program with recursion, negation and an aggregate with empty
    groups.  Relations: 0 edge, 1 node, 2 path, 3 unreach, 4 cnt.
      path(x,y) :- edge(x,y).           path(x,z) :- path(x,y), edge(y,z).
      unreach(x,y) :- node(x), node(y), !path(x,y).
      cnt(x,c) :- node(x), c = count : { path(x,y) }. *)
Definition ex_s1 : list clause :=
  [ {| c_rel := 2; c_args := [TVar 0; TVar 1]; c_body := [LS (SPos 0 [TVar 0; TVar 1])] |};
    {| c_rel := 2; c_args := [TVar 0; TVar 2];
       c_body := [LS (SPos 2 [TVar 0; TVar 1]); LS (SPos 0 [TVar 1; TVar 2])] |} ].
Definition ex_s2 : list clause :=
  [ {| c_rel := 3; c_args := [TVar 0; TVar 1];
       c_body := [LS (SPos 1 [TVar 0]); LS (SPos 1 [TVar 1]); LS (SNeg 2 [TVar 0; TVar 1])] |} ].
Definition ex_cnt : clause :=
  {| c_rel := 4; c_args := [TVar 0; TVar 1];
     c_body := [LS (SPos 1 [TVar 0]); LAgg 1 ACount TS (TConst (VNum 0)) [SPos 2 [TVar 0; TVar 2]]] |}.
Definition ex_s3 : list clause := [ex_cnt].
Definition ex_prog := [ex_s1; ex_s2; ex_s3].
Definition ex_edb : db :=
  [ (0%nat, [[VNum 1; VNum 2]; [VNum 2; VNum 3]]); (1%nat, [[VNum 1]; [VNum 2]; [VNum 3]; [VNum 4]]) ].
Definition ex_path : list tuple := [[VNum 1; VNum 2]; [VNum 2; VNum 3]; [VNum 1; VNum 3]].
Definition ex_mid : db := ex_edb ++ [(2%nat, ex_path)].
Definition ex_out : db :=
  ex_mid ++
  [ (3%nat, [[VNum 1; VNum 1]; [VNum 1; VNum 4]; [VNum 2; VNum 1]; [VNum 2; VNum 2]; [VNum 2; VNum 4];
             [VNum 3; VNum 1]; [VNum 3; VNum 2]; [VNum 3; VNum 3]; [VNum 3; VNum 4];
             [VNum 4; VNum 1]; [VNum 4; VNum 2]; [VNum 4; VNum 3]; [VNum 4; VNum 4]]);
    (4%nat, [[VNum 1; VNum 2]; [VNum 2; VNum 1]; [VNum 3; VNum 0]; [VNum 4; VNum 0]]) ].

Example ex_run : run_program 10 ex_edb ex_prog = Ok (Some (ex_out, [2; 1; 1]%nat)).
Proof. vm_compute. reflexivity. Qed.
Example ex_program_ok : program_ok ex_prog = true /\ program_det ex_prog = true.
Proof. vm_compute. auto. Qed.
Example ex_edb_nodup : db_nodup ex_edb.
Proof. apply db_nodup_check. vm_compute. reflexivity. Qed.
(** hence (instance of [run_program_correct]): the computed database is the stratified model;
    node 3 and node 4 have no outgoing path and get count 0 *)
Example ex_model :
  (forall r t, In t (rel_of ex_out r) <-> strat_model (holds ex_edb) ex_prog r t) /\
  (forall r, NoDup (rel_of ex_out r)) /\ is_strat_model (holds ex_edb) ex_prog (holds ex_out).
Proof.
  apply (run_program_correct 10 ex_edb ex_prog ex_out [2; 1; 1]%nat);
    [apply ex_program_ok | apply ex_program_ok | apply ex_edb_nodup | apply ex_run].
Qed.
Example ex_cnt_empty_group : strat_model (holds ex_edb) ex_prog 4%nat [VNum 4; VNum 0].
Proof. apply ex_model. vm_compute. auto. Qed.

(** hypotheses of [iterate_fixpoint] on the recursive stratum *)
Example ex_stratum_ok : stratum_ok ex_s1.
Proof. apply (strata_ok_cons [] ex_s1 [ex_s2; ex_s3]). vm_compute. reflexivity. Qed.
Example ex_iterate : iterate 10 ex_edb ex_s1 0 = Ok (Some (ex_mid, 2%nat)).
Proof. vm_compute. reflexivity. Qed.
Example ex_iterate_fixpoint :
  closed (holds ex_mid) (holds ex_mid) ex_s1 /\
  (forall r t, holds ex_mid r t <-> least_model (holds ex_edb) ex_s1 r t).
Proof.
  destruct (iterate_fixpoint 10 ex_edb ex_s1 ex_mid 2 ex_stratum_ok) as (_ & H2 & H3 & _);
    auto using ex_edb_nodup, ex_iterate.
Qed.

(** hypotheses of [solve_sound] / [solve_complete] / [fire_clause_spec] on the aggregate clause *)
Example ex_mid_nodup : db_nodup ex_mid.
Proof. apply db_nodup_check. vm_compute. reflexivity. Qed.
Example ex_solve :
  solve ex_mid (c_body ex_cnt) [[]] =
  Ok [ [(1%nat, VNum 2); (0%nat, VNum 1)]; [(1%nat, VNum 1); (0%nat, VNum 2)];
       [(1%nat, VNum 0); (0%nat, VNum 3)]; [(1%nat, VNum 0); (0%nat, VNum 4)] ].
Proof. vm_compute. reflexivity. Qed.
Example ex_solve_sound :
  Forall (sat_lit (holds ex_mid) (holds ex_mid) (clause_outer ex_cnt) [(1%nat, VNum 0); (0%nat, VNum 4)])
         (c_body ex_cnt).
Proof.
  eapply (solve_sound ex_mid (clause_outer ex_cnt) (c_body ex_cnt) []); eauto using ex_mid_nodup, ex_solve.
  - apply clause_outer_incl.
  - intros y Hy. now apply bound_nil in Hy.
  - simpl. auto.
Qed.
Example ex_fire_clause : forall t,
  In t [[VNum 1; VNum 2]; [VNum 2; VNum 1]; [VNum 3; VNum 0]; [VNum 4; VNum 0]] <->
  fires (holds ex_mid) (holds ex_mid) ex_cnt t.
Proof. apply fire_clause_spec; auto using ex_mid_nodup. Qed.

(** [match_term]: a record pattern with a bound and an unbound variable *)
Example ex_match :
  match_term [(0%nat, VNum 7)] (TRecord [TVar 0; TVar 1]) (VRec [VNum 7; VSym [65%N]]) =
  Ok (Some [(1%nat, VSym [65%N]); (0%nat, VNum 7)]) /\
  match_term [(0%nat, VNum 7)] (TRecord [TVar 0; TVar 1]) (VRec [VNum 8; VSym [65%N]]) = Ok None.
Proof. vm_compute. auto. Qed.

(** [agg_empty_rule]: node 4 has no path; the count literal is satisfied with 0, a [min] is not *)
Example ex_no_solution :
  no_solution (holds ex_mid) (clause_outer ex_cnt) [(1%nat, VNum 0); (0%nat, VNum 4)]
              (TConst (VNum 0)) [SPos 2 [TVar 0; TVar 2]].
Proof.
  intros s Hag Hsat. inversion Hsat as [|l ls Hl _]; subst. apply sat_pos_inv in Hl as (t & Ht & Hd).
  assert (H0 : lookup s 0%nat = Some (VNum 4)) by (apply (Hag 0%nat); simpl; auto).
  inversion Hd as [|a v ps vs Ha Hd']; subst. inversion Ha; subst.
  assert (v = VNum 4) by congruence. subst v.
  unfold holds in Ht. simpl in Ht. unfold ex_path in Ht. simpl in Ht.
  repeat (destruct Ht as [Ht|Ht]; [discriminate Ht|]). exact Ht.
Qed.
Example ex_agg_empty :
  sat_lit (holds ex_mid) (holds ex_mid) (clause_outer ex_cnt) [(1%nat, VNum 0); (0%nat, VNum 4)]
          (LAgg 1 ACount TS (TConst (VNum 0)) [SPos 2 [TVar 0; TVar 2]]) /\
  ~ sat_lit (holds ex_mid) (holds ex_mid) (clause_outer ex_cnt) [(1%nat, VNum 0); (0%nat, VNum 4)]
          (LAgg 1 AMin TS (TConst (VNum 0)) [SPos 2 [TVar 0; TVar 2]]).
Proof.
  split.
  - apply (agg_empty_rule _ _ _ _ 1%nat ACount TS _ _ ex_no_solution). reflexivity.
  - apply (agg_empty_rule _ _ _ _ 1%nat AMin TS _ _ ex_no_solution).
Qed.

(** A finding about the evaluator, shown on an instance: an aggregate placed *before* the literal
    that binds one of its outer variables is not reported as [Stuck]; it silently aggregates over
    all values of that variable.  q(y,c) :- c = count : { r(y) }, s(y).  with r = {1,2,3}, s = {1}
    yields c = 3 in this order and c = 1 with the aggregate last.  The static condition [scoped]
    (hypothesis of all the theorems) rejects the first order. *)
Definition ex_bad_body : list lit := [LAgg 1 ACount TS (TConst (VNum 0)) [SPos 0 [TVar 0]]; LS (SPos 1 [TVar 0])].
Definition ex_good_body : list lit := [LS (SPos 1 [TVar 0]); LAgg 1 ACount TS (TConst (VNum 0)) [SPos 0 [TVar 0]]].
Definition ex_rs : db := [(0%nat, [[VNum 1]; [VNum 2]; [VNum 3]]); (1%nat, [[VNum 1]])].
Example ex_agg_order_matters :
  solve ex_rs ex_bad_body [[]] = Ok [[(0%nat, VNum 1); (1%nat, VNum 3)]] /\
  solve ex_rs ex_good_body [[]] = Ok [[(1%nat, VNum 1); (0%nat, VNum 1)]] /\
  scoped [0; 1]%nat [] ex_bad_body = false /\ scoped [0; 1]%nat [] ex_good_body = true.
Proof. vm_compute. auto. Qed.

(* NOT PROVED:
   - Aggregates whose body has [_] (TAnon) inside a positive atom: there Souffle and the evaluator
     count matched tuples, while [enumerates] counts distinct assignments; the theorems require
     [agg_body_ok] (part of [clause_ok]). A multiset-of-tuples formulation would be needed.
   - Completeness (hence closure under the rules, hence everything about a later stratum) for
     [min]/[max] aggregates at unsigned type ([lit_det]): [umin]/[umax] on numbers outside the 32-bit
     range depend on the enumeration order (two representatives of the same unsigned value tie).
     Soundness of [solve] / [fire_clause] holds for them ([solve_sound], [fire_clause_sound]).
   - [mean] aggregates and float functors are not in DatalogDefs.v, so nothing is stated about them.
   - That the final database is a model in the one-database reading (closed under every rule with
     negation read in the final database itself) is not stated separately; it follows from
     [run_program_correct] and [strata_ok] but was not written out.
   - Termination: nothing is proved about the fuel; the theorems speak about runs that return
     [Ok (Some _)]. *)
