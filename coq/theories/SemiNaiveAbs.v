(** * SemiNaiveAbs -- the abstract semi-naive evaluation scheme of a recursive stratum.

    What is modelled (all in /repo/src/ast2ram/seminaive):
    - UnitTranslator.cpp [generateRecursiveStratum]: preamble; then
      [LOOP (loopBody; joinSize; exitSequence; updateSequence; loop_counter++)]; postamble.
    - [generateStratumPreamble]: the non-recursive rules are evaluated into the main relation R,
      then R is copied into @delta_R ([generateMergeRelations(rel, delta, main)]).
      Here: an arbitrary set [R0], and the first delta is [R0] as well.
    - [generateStratumLoopBody] / [translateRecursiveClauses] / [generateClauseVersions]: for every
      recursive clause one *version* per SCC body atom ([version] in [0, sccAtoms.size())).
      ClauseTranslator.cpp [translateRecursiveClause] + utility/Utils.cpp [getAtomName]: in version
      [i] the atom [sccAtoms.at(i)] reads @delta_R, every other SCC atom reads the main relation,
      the head is @new_R.  [addBodyLiteralConstraints]: the head is filtered by
      [addNegatedAtom(head)] ("not already in the main relation") and for every
      [j] in [version+1, sccAtoms.size()) a filter [addNegatedDeltaAtom(sccAtoms.at(j))]
      ("atom j is not in @delta") is added.  All versions of all rules of one round read the
      same R and @delta and only write @new.  Here: [version_ok] and [New].
    - [generateStratumExitSequence]: [EXIT (all @new empty)], then for every relation with
      [.limitsize R(n=k)]: [EXIT (SIZE(R) >= k)], where [R] is the *main* relation
      ([getConcreteRelationName]).  The exit sequence sits between the loop body and the table
      updates, so the size test reads the main relation BEFORE this round's @new is merged; when
      it fires, the tuples in @new of that round are dropped ([generateStratumPostamble] clears
      @delta and @new).  Here: [loop_run].
    - [generateStratumTableUpdates]: per relation, merge @new into main, swap @delta and @new,
      clear @new.  Here: [R := R \/ New R D; D := New R D].

    The setting is abstract: a [fact] is a (relation, tuple) pair of the SCC; [fire r ts h] says that
    rule [r] with the facts [ts] for its SCC body atoms (in order) derives head [h]; atoms of
    lower strata, constraints and negations of lower strata are folded into [fire].
    Eqrel relations, subsumptive clauses and lattice (lub) relations take other branches of the
    functions above and are NOT covered.

    Classical logic is not used.  Where a case split on membership is needed the lemma takes
    [dec_set S := forall f, S f \/ ~ S f] for the sets involved as a hypothesis; relations backed by
    finite lists over a type with decidable equality satisfy it ([finite_dec_set]). *)
From Coq Require Import List Arith Lia Permutation ListSet.
Import ListNotations.
Set Implicit Arguments.

Ltac splits := repeat match goal with |- _ /\ _ => split end.

(** ** General list facts *)
Lemma NoDup_app_intro (A : Type) (l1 l2 : list A) :
  NoDup l1 -> NoDup l2 -> (forall x, In x l1 -> In x l2 -> False) -> NoDup (l1 ++ l2).
Proof.
  induction l1 as [|a l1 IH]; simpl; intros H1 H2 Hd; auto.
  inversion H1; subst. constructor.
  - rewrite in_app_iff. intros [Hin | Hin]; eauto.
  - apply IH; eauto.
Qed.

Lemma NoDup_app_l (A : Type) (l1 l2 : list A) : NoDup (l1 ++ l2) -> NoDup l1.
Proof.
  induction l1 as [|a l1 IH]; simpl; intros H; [constructor|].
  inversion H as [|? ? Hn Hd]; subst. constructor; [| auto].
  intros Hin. apply Hn. apply in_or_app. auto.
Qed.

Lemma length_concat_sum (A : Type) (ls : list (list A)) :
  length (concat ls) = list_sum (map (@length A) ls).
Proof. induction ls as [|l ls IH]; simpl; auto. rewrite app_length, IH. reflexivity. Qed.

Lemma list_exists_dec (A : Type) (P : A -> Prop) :
  (forall x, P x \/ ~ P x) -> forall l, (exists x, In x l /\ P x) \/ ~ (exists x, In x l /\ P x).
Proof.
  intros HP l. induction l as [|a l IH].
  - right. intros (x & [] & _).
  - destruct (HP a) as [Ha | Ha]; [left; exists a; simpl; auto|].
    destruct IH as [(x & Hin & Hx) | Hn]; [left; exists x; simpl; auto|].
    right. intros (x & [-> | Hin] & Hx); [tauto|]. apply Hn. eauto.
Qed.

Section SemiNaive.
  Variable fact : Type.                       (* a (relation, tuple) pair *)
  Variable rule : Type.
  Variable rules : list rule.
  Variable arity : rule -> nat.               (* number of SCC (recursive) body atoms *)
  Variable fire : rule -> list fact -> fact -> Prop.

  Definition fset := fact -> Prop.
  Definition dec_set (S : fset) := forall f, S f \/ ~ S f.
  Definition finite_set (S : fset) := exists l, forall f, S f <-> In f l.

  (** Naive immediate consequence (inflationary). *)
  Definition T (I : fset) (h : fact) : Prop :=
    I h \/ exists r ts, In r rules /\ length ts = arity r /\ Forall I ts /\ fire r ts h.
  Definition old (R D : fset) : fset := fun f => R f /\ ~ D f.
  (** Version [i] ([translateRecursiveClause] with [version = i]) accepts the combination [ts]:
      every atom's fact is in the main relation, atom [i]'s fact is in @delta, and the facts of
      the later atoms pass the [addNegatedDeltaAtom] filter. *)
  Definition version_ok (R D : fset) (i : nat) (ts : list fact) : Prop :=
    forall j f, nth_error ts j = Some f -> R f /\ (j = i -> D f) /\ (i < j -> ~ D f).
  (** Contents of @new after the loop body. *)
  Definition New (R D : fset) : fset := fun h =>
    ~ R h /\ exists r ts i, In r rules /\ length ts = arity r /\ i < length ts /\
                            version_ok R D i ts /\ fire r ts h.
  Definition Inv (R D : fset) : Prop :=
    (forall f, D f -> R f) /\ (forall h, T (old R D) h -> R h).

  Lemma finite_dec_set (S : fset) :
    (forall x y : fact, x = y \/ x <> y) -> finite_set S -> dec_set S.
  Proof.
    intros Heq [l Hl] f.
    destruct (list_exists_dec (fun x => x = f) (fun x => Heq x f) l) as [(x & Hin & ->) | Hn].
    - left. apply Hl. exact Hin.
    - right. intros Hf. apply Hn. exists f. split; [apply Hl; exact Hf | reflexivity].
  Qed.

  Lemma T_mono (I J : fset) : (forall f, I f -> J f) -> forall h, T I h -> T J h.
  Proof.
    intros HIJ h [Hh | (r & ts & Hr & Hl & Hall & Hf)]; [left; auto|].
    right. exists r, ts. splits; auto. eapply Forall_impl; eauto.
  Qed.

  Lemma T_ext (I J : fset) : (forall f, I f <-> J f) -> forall h, T I h <-> T J h.
  Proof. intros H h; split; apply T_mono; intros f; apply H. Qed.

  Lemma T_infl (I : fset) h : I h -> T I h.
  Proof. left; assumption. Qed.

  (** *** Versions *)
  Lemma version_ok_all_R R D i ts : version_ok R D i ts -> Forall R ts.
  Proof.
    intros H. apply Forall_forall. intros f Hin.
    apply In_nth_error in Hin as [j Hj]. exact (proj1 (H j f Hj)).
  Qed.

  (** The accepted version is the LAST position holding a delta fact. *)
  Lemma version_is_last_delta R D i ts :
    i < length ts -> version_ok R D i ts ->
    (exists f, nth_error ts i = Some f /\ D f) /\
    (forall j f, i < j -> nth_error ts j = Some f -> ~ D f).
  Proof.
    intros Hi H. split.
    - destruct (nth_error ts i) as [f|] eqn:Ef; [| apply nth_error_None in Ef; lia].
      exists f. split; auto. apply (H i f Ef). reflexivity.
    - intros j f Hij Hj. apply (H j f Hj). exact Hij.
  Qed.

  Theorem version_unique R D i i' ts :
    i < length ts -> i' < length ts ->
    version_ok R D i ts -> version_ok R D i' ts -> i = i'.
  Proof.
    intros Hi Hi' H H'.
    destruct (nth_error ts i) as [f|] eqn:Ef; [| apply nth_error_None in Ef; lia].
    destruct (nth_error ts i') as [f'|] eqn:Ef'; [| apply nth_error_None in Ef'; lia].
    destruct (Nat.lt_trichotomy i i') as [Hlt | [Heq | Hgt]]; auto; exfalso.
    - destruct (H i' f' Ef') as (_ & _ & Hn). destruct (H' i' f' Ef') as (_ & Hd & _). apply Hn; auto.
    - destruct (H' i f Ef) as (_ & _ & Hn). destruct (H i f Ef) as (_ & Hd & _). apply Hn; auto.
  Qed.

  Lemma find_version R D ts :
    dec_set D -> Forall R ts ->
    Forall (fun f => ~ D f) ts \/ exists i, i < length ts /\ version_ok R D i ts.
  Proof.
    intros HD. induction ts as [|a ts IH]; intros Hall; [left; constructor|].
    inversion Hall as [|? ? Ha Hts]; subst.
    destruct (IH Hts) as [Hnone | (i & Hi & Hv)].
    - destruct (HD a) as [Hda | Hna].
      + right. exists 0. split; [simpl; lia|].
        intros j f Hj. destruct j as [|j]; simpl in Hj.
        * inversion Hj; subst. splits; auto. intros; lia.
        * splits.
          -- rewrite Forall_forall in Hts. apply Hts. eapply nth_error_In; eauto.
          -- intros; lia.
          -- intros _. rewrite Forall_forall in Hnone. apply Hnone. eapply nth_error_In; eauto.
      + left. constructor; auto.
    - right. exists (S i). split; [simpl; lia|].
      intros j f Hj. destruct j as [|j]; simpl in Hj.
      + inversion Hj; subst. splits; auto; intros; lia.
      + destruct (Hv j f Hj) as (H1 & H2 & H3).
        split; [exact H1 | split; [intros He; apply H2; lia | intros Hlt; apply H3; lia]].
  Qed.

  Theorem version_exists R D ts :
    dec_set D -> Forall R ts -> Exists D ts -> exists i, i < length ts /\ version_ok R D i ts.
  Proof.
    intros HD Hall Hex. destruct (find_version HD Hall) as [Hnone | H]; auto.
    exfalso. apply Exists_exists in Hex as (x & Hin & Hx).
    rewrite Forall_forall in Hnone. exact (Hnone x Hin Hx).
  Qed.

  Lemma version_some_iff R D ts :
    dec_set D ->
    ((exists i, i < length ts /\ version_ok R D i ts) <-> (Forall R ts /\ Exists D ts)).
  Proof.
    intros HD. split.
    - intros (i & Hi & Hv). split; [eapply version_ok_all_R; eauto|].
      destruct (version_is_last_delta Hi Hv) as [(f & Ef & Hf) _].
      apply Exists_exists. exists f. split; auto. eapply nth_error_In; eauto.
    - intros [Hall Hex]. apply version_exists; auto.
  Qed.

  (** [New] against a specification that does not mention versions: the heads, not yet known,
      of the combinations over R that contain at least one delta fact. *)
  Lemma New_alt R D h :
    dec_set D ->
    (New R D h <->
     (~ R h /\ exists r ts, In r rules /\ length ts = arity r /\ Forall R ts /\ Exists D ts /\
                            fire r ts h)).
  Proof.
    intros HD. split.
    - intros [Hn (r & ts & i & Hr & Hl & Hi & Hv & Hf)]. split; auto.
      exists r, ts. destruct (proj1 (version_some_iff R ts HD)) as [Ha He]; [eauto|].
      splits; auto.
    - intros [Hn (r & ts & Hr & Hl & Ha & He & Hf)]. split; auto.
      destruct (version_exists HD Ha He) as (i & Hi & Hv). exists r, ts, i. splits; auto.
  Qed.

  (** *** One round *)
  Lemma inv_init_gen (R0 : fset) :
    (forall r h, In r rules -> arity r = 0 -> fire r [] h -> R0 h) -> Inv R0 R0.
  Proof.
    intros Hpre. split; [auto|].
    intros h [[Hh Hn] | (r & ts & Hr & Hl & Hall & Hf)]; [tauto|].
    destruct ts as [|t ts].
    - simpl in Hl. eapply Hpre; eauto.
    - inversion Hall as [|? ? [Ht Hnt] _]; subst. tauto.
  Qed.

  Lemma inv_init (R0 : fset) : (forall r, In r rules -> 0 < arity r) -> Inv R0 R0.
  Proof.
    intros Hpos. apply inv_init_gen. intros r h Hr H0 _. specialize (Hpos r Hr). lia.
  Qed.

  Theorem step_eq_naive R D :
    dec_set R -> dec_set D -> Inv R D -> forall h, (R h \/ New R D h) <-> T R h.
  Proof.
    intros HR HD [HDR Hold] h. split.
    - intros [Hh | [_ (r & ts & i & Hr & Hlen & Hi & Hv & Hf)]].
      + left; auto.
      + right. exists r, ts. splits; auto. eapply version_ok_all_R; eauto.
    - intros [Hh | (r & ts & Hr & Hlen & Hall & Hf)]; [auto|].
      destruct (HR h) as [|Hn]; [auto|].
      destruct (find_version HD Hall) as [Hnone | (i & Hi & Hv)].
      + left. apply Hold. right. exists r, ts. splits; auto.
        rewrite Forall_forall in *. intros f Hin. split; auto.
      + right. split; auto. exists r, ts, i. splits; auto.
  Qed.

  Theorem inv_preserved R D :
    dec_set R -> dec_set D -> Inv R D -> Inv (fun f => R f \/ New R D f) (New R D).
  Proof.
    intros HR HD HI. split; [auto|].
    intros h Hh. apply (step_eq_naive HR HD HI).
    revert Hh. apply T_mono. intros f [[Hf | Hf] Hn]; tauto.
  Qed.

  Theorem exit_iff_fixpoint R D :
    dec_set R -> dec_set D -> Inv R D ->
    ((forall h, ~ New R D h) <-> (forall h, T R h -> R h)).
  Proof.
    intros HR HD HI. split.
    - intros Hno h Hh. apply (step_eq_naive HR HD HI) in Hh as [Hh | Hh]; auto.
      exfalso. exact (Hno h Hh).
    - intros Hfix h Hnew. pose proof Hnew as [Hn _]. apply Hn, Hfix.
      apply (step_eq_naive HR HD HI). auto.
  Qed.

  (** Decidability of [New] from a finite candidate enumeration: enough to discharge the
      decidability hypotheses below on concrete instances. *)
  Lemma Forall_dec_set (S : fset) : dec_set S -> forall ts, Forall S ts \/ ~ Forall S ts.
  Proof.
    intros HS ts. induction ts as [|a ts IH]; [left; constructor|].
    destruct (HS a) as [Ha | Ha]; [| right; intros H; inversion H; tauto].
    destruct IH as [IH | IH]; [left; constructor; auto | right; intros H; inversion H; tauto].
  Qed.

  Lemma Exists_dec_set (S : fset) : dec_set S -> forall ts, Exists S ts \/ ~ Exists S ts.
  Proof.
    intros HS ts. induction ts as [|a ts IH]; [right; intros H; inversion H|].
    destruct (HS a) as [Ha | Ha]; [left; constructor; auto|].
    destruct IH as [IH | IH]; [left; apply Exists_cons_tl; auto | right; intros H; inversion H; tauto].
  Qed.

  Lemma New_dec_of_candidates (cands : rule -> fact -> list (list fact)) :
    (forall r ts h, In r rules -> length ts = arity r -> fire r ts h -> In ts (cands r h)) ->
    (forall r ts h, fire r ts h \/ ~ fire r ts h) ->
    forall R D, dec_set R -> dec_set D -> dec_set (New R D).
  Proof.
    intros Hc Hfd R D HR HD h.
    destruct (HR h) as [Hh | Hn]; [right; intros [H _]; tauto|].
    set (P := fun r => exists ts, In ts (cands r h) /\
               (length ts = arity r /\ Forall R ts /\ Exists D ts /\ fire r ts h)).
    assert (HP : forall r, P r \/ ~ P r).
    { intros r. apply list_exists_dec. intros ts.
      destruct (Nat.eq_dec (length ts) (arity r)) as [Hl | Hl]; [| right; tauto].
      destruct (Forall_dec_set HR ts) as [Ha | Ha]; [| right; tauto].
      destruct (Exists_dec_set HD ts) as [He | He]; [| right; tauto].
      destruct (Hfd r ts h) as [Hf | Hf]; [left; tauto | right; tauto]. }
    destruct (list_exists_dec P HP rules) as [(r & Hr & ts & Hin & Hl & Ha & He & Hf) | Hno].
    - left. apply New_alt; auto. split; auto. exists r, ts. splits; auto.
    - right. intros HN. apply New_alt in HN as [_ (r & ts & Hr & Hl & Ha & He & Hf)]; auto.
      apply Hno. exists r. split; auto. exists ts. splits; eauto.
  Qed.

  (** ** The iteration *)
  Variable R0 : fset.      (* main relations after the preamble = first delta *)

  Fixpoint iterR (k : nat) : fset :=
    match k with
    | 0 => R0
    | S k' => fun f => iterR k' f \/ New (iterR k') (iterD k') f
    end
  with iterD (k : nat) : fset :=
    match k with
    | 0 => R0
    | S k' => New (iterR k') (iterD k')
    end.

  Fixpoint naiveR (k : nat) : fset :=
    match k with 0 => R0 | S k' => T (naiveR k') end.

  (** Least set containing the preamble result and closed under the rules. *)
  Inductive lfp : fset :=
  | lfp_base f : R0 f -> lfp f
  | lfp_step r ts h : In r rules -> length ts = arity r -> (forall f, In f ts -> lfp f) ->
                      fire r ts h -> lfp h.

  Lemma iterR_S k f : iterR (S k) f <-> iterR k f \/ iterD (S k) f.
  Proof. reflexivity. Qed.

  Lemma iterR_mono k k' h : k <= k' -> iterR k h -> iterR k' h.
  Proof. induction 1; auto. intros H'. left. auto. Qed.

  Lemma iterD_fresh k h : iterD (S k) h -> ~ iterR k h.
  Proof. intros [Hn _]. exact Hn. Qed.

  Lemma iterD_fresh_le j k h : j <= k -> iterD (S k) h -> ~ iterR j h.
  Proof. intros Hle Hd Hr. apply (iterD_fresh Hd). eapply iterR_mono; eauto. Qed.

  Lemma iterD_sub k h : iterD k h -> iterR k h.
  Proof. destruct k; [auto|]. intros H. right. exact H. Qed.

  Lemma deltas_disjoint j j' h : j <> j' -> iterD (S j) h -> iterD (S j') h -> False.
  Proof.
    intros Hne H H'.
    destruct (Nat.lt_trichotomy j j') as [Hlt | [Heq | Hgt]]; [| tauto |].
    - apply (@iterD_fresh_le (S j) j' h); auto. apply iterD_sub; auto.
    - apply (@iterD_fresh_le (S j') j h); auto. apply iterD_sub; auto.
  Qed.

  Lemma delta_R0_disjoint j h : R0 h -> iterD (S j) h -> False.
  Proof. intros H0 Hd. apply (@iterD_fresh_le 0 j h); auto. lia. Qed.

  (** C20: the result is the disjoint union of the preamble result and the per-round @new sets. *)
  Theorem deltas_partition_result k h :
    iterR k h <-> (R0 h \/ exists j, j < k /\ iterD (S j) h).
  Proof.
    induction k as [|k IH].
    - simpl. split; [auto|]. intros [H | (j & Hj & _)]; [auto | lia].
    - rewrite iterR_S, IH. split.
      + intros [[H | (j & Hj & H)] | H]; [auto | right; exists j; split; auto | right; exists k; auto].
      + intros [H | (j & Hj & H)]; [auto|].
        destruct (Nat.eq_dec j k) as [-> | Hne]; [auto|].
        left. right. exists j. split; auto. lia.
  Qed.

  Theorem deltas_count k (lR l0 : list fact) (ld : nat -> list fact) :
    NoDup lR -> (forall x, In x lR <-> iterR k x) ->
    NoDup l0 -> (forall x, In x l0 <-> R0 x) ->
    (forall j, j < k -> NoDup (ld j) /\ forall x, In x (ld j) <-> iterD (S j) x) ->
    length lR = length l0 + list_sum (map (fun j => length (ld j)) (seq 0 k)).
  Proof.
    intros HlR HR Hl0 H0 Hld.
    assert (A : forall m, m <= k ->
              NoDup (l0 ++ concat (map ld (seq 0 m))) /\
              forall x, In x (l0 ++ concat (map ld (seq 0 m))) <-> iterR m x).
    { induction m as [|m IH]; intros Hm.
      - simpl. rewrite app_nil_r. split; auto.
      - destruct IH as [IH1 IH2]; [lia|]. destruct (Hld m) as [Hd1 Hd2]; [lia|].
        rewrite seq_S, map_app, concat_app. simpl. rewrite app_nil_r, app_assoc. split.
        + apply NoDup_app_intro; auto. intros x Hx Hx'.
          apply IH2 in Hx. apply Hd2 in Hx'. exact (iterD_fresh Hx' Hx).
        + intros x. rewrite in_app_iff, IH2, Hd2. reflexivity. }
    destruct (A k (le_n k)) as [A1 A2].
    assert (P : Permutation lR (l0 ++ concat (map ld (seq 0 k)))).
    { apply NoDup_Permutation; auto. intros x. rewrite HR, A2. reflexivity. }
    apply Permutation_length in P. rewrite P, app_length, length_concat_sum, map_map. reflexivity.
  Qed.

  (** Soundness needs no hypotheses. *)
  Theorem seminaive_sound k h : iterR k h -> lfp h.
  Proof.
    revert h. induction k as [|k IH]; intros h; [apply lfp_base|].
    intros [H | [_ (r & ts & i & Hr & Hl & Hi & Hv & Hf)]]; [auto|].
    apply (lfp_step Hr Hl); auto. intros f Hin. apply IH.
    apply version_ok_all_R in Hv. rewrite Forall_forall in Hv. auto.
  Qed.

  Lemma naive_sound k h : naiveR k h -> lfp h.
  Proof.
    revert h. induction k as [|k IH]; intros h; [apply lfp_base|].
    intros [H | (r & ts & Hr & Hl & Ha & Hf)]; [auto|].
    apply (lfp_step Hr Hl); auto. intros f Hin. apply IH. rewrite Forall_forall in Ha. auto.
  Qed.

  (** A combination fires in at most one round. *)
  Theorem combo_round_unique k k' i i' ts :
    i < length ts -> i' < length ts ->
    version_ok (iterR k) (iterD k) i ts -> version_ok (iterR k') (iterD k') i' ts -> k = k'.
  Proof.
    assert (A : forall a b ia ib, a < b -> ib < length ts ->
                version_ok (iterR a) (iterD a) ia ts -> version_ok (iterR b) (iterD b) ib ts -> False).
    { intros a b ia ib Hab Hib Ha Hb.
      destruct (version_is_last_delta Hib Hb) as [(f & Ef & Hf) _].
      destruct b as [|b]; [lia|].
      apply (@iterD_fresh_le a b f); [lia | exact Hf |]. apply (Ha ib f Ef). }
    intros Hi Hi' H H'.
    destruct (Nat.lt_trichotomy k k') as [Hlt | [Heq | Hgt]]; auto; exfalso; eauto.
  Qed.

  Corollary combo_round_version_unique k k' i i' ts :
    i < length ts -> i' < length ts ->
    version_ok (iterR k) (iterD k) i ts -> version_ok (iterR k') (iterD k') i' ts ->
    k = k' /\ i = i'.
  Proof.
    intros Hi Hi' H H'. assert (k = k') by exact (@combo_round_unique k k' i i' ts Hi Hi' H H'). subst k'.
    split; auto. exact (version_unique Hi Hi' H H').
  Qed.

  (** From here on: the preamble has evaluated the rules without recursive atoms, and membership
      in every delta is decidable. *)
  Hypothesis preamble_closed : forall r h, In r rules -> arity r = 0 -> fire r [] h -> R0 h.
  Hypothesis iterD_dec : forall k, dec_set (iterD k).

  Lemma iterR_dec k : dec_set (iterR k).
  Proof.
    induction k as [|k IH]; [exact (iterD_dec 0)|].
    intros f. destruct (IH f) as [H | H]; [left; left; auto|].
    destruct (iterD_dec (S k) f) as [H1 | H1]; [left; right; exact H1|].
    right. intros [H2 | H2]; [tauto | exact (H1 H2)].
  Qed.

  Lemma iter_inv k : Inv (iterR k) (iterD k).
  Proof.
    induction k as [|k IH]; [apply inv_init_gen; exact preamble_closed|].
    exact (inv_preserved (iterR_dec k) (iterD_dec k) IH).
  Qed.

  Theorem iter_step_eq_naive k h : iterR (S k) h <-> T (iterR k) h.
  Proof. exact (step_eq_naive (iterR_dec k) (iterD_dec k) (iter_inv k) h). Qed.

  Lemma iterR_derive k r ts h :
    In r rules -> length ts = arity r -> Forall (iterR k) ts -> fire r ts h -> iterR (S k) h.
  Proof. intros Hr Hl Ha Hf. apply iter_step_eq_naive. right. exists r, ts. auto. Qed.

  Theorem iter_eq_naive k h : iterR k h <-> naiveR k h.
  Proof.
    revert h. induction k as [|k IH]; intros h; [reflexivity|].
    rewrite iter_step_eq_naive. simpl. apply T_ext. exact IH.
  Qed.

  Theorem iter_exit_iff_fixpoint k :
    (forall h, ~ New (iterR k) (iterD k) h) <-> (forall h, T (iterR k) h -> iterR k h).
  Proof. exact (exit_iff_fixpoint (iterR_dec k) (iterD_dec k) (iter_inv k)). Qed.

  Theorem seminaive_complete k :
    (forall h, ~ New (iterR k) (iterD k) h) -> forall h, lfp h -> iterR k h.
  Proof.
    intros Hexit0. pose proof (proj1 (iter_exit_iff_fixpoint k) Hexit0) as Hexit. clear Hexit0.
    induction 1 as [f Hf | r ts h Hr Hl _ IH Hf].
    - apply (@iterR_mono 0 k); auto. lia.
    - apply Hexit. right. exists r, ts. splits; auto. apply Forall_forall. exact IH.
  Qed.

  Corollary seminaive_exit_lfp k :
    (forall h, ~ New (iterR k) (iterD k) h) -> forall h, iterR k h <-> lfp h.
  Proof. intros Hexit h. split; [apply seminaive_sound | apply seminaive_complete; auto]. Qed.

  (** Every non-empty combination over the relations of round k has fired in some round <= k
      (together with [combo_round_version_unique]: in exactly one round, by exactly one version). *)
  Theorem combo_round_exists k ts :
    ts <> [] -> Forall (iterR k) ts ->
    exists k0 i, k0 <= k /\ i < length ts /\ version_ok (iterR k0) (iterD k0) i ts.
  Proof.
    intros Hne. induction k as [|k IH]; intros Ha.
    - destruct (@version_exists (iterR 0) (iterD 0) ts (iterD_dec 0) Ha) as (i & Hi & Hv).
      + destruct ts as [|t ts]; [tauto|]. inversion Ha; subst. constructor. assumption.
      + exists 0, i. auto.
    - destruct (Forall_dec_set (iterR_dec k) ts) as [Hk | Hk].
      + destruct (IH Hk) as (k0 & i & Hle & Hi & Hv). exists k0, i. auto.
      + assert (He : Exists (iterD (S k)) ts).
        { clear IH Hne. induction ts as [|t ts IHts]; [exfalso; apply Hk; constructor|].
          inversion Ha as [|? ? Ht Hts]; subst.
          destruct (iterR_dec k t) as [Hin | Hout].
          - apply Exists_cons_tl. apply IHts; [exact Hts|]. intros H. apply Hk. constructor; assumption.
          - constructor. destruct Ht as [Ht | Ht]; [tauto | exact Ht]. }
        destruct (@version_exists (iterR (S k)) (iterD (S k)) ts (iterD_dec (S k)) Ha He)
          as (i & Hi & Hv).
        exists (S k), i. auto.
  Qed.

  (** ** The loop with the size-limit exit (C23) *)
  Definition size_ge (sel : fset) (n : nat) (R : fset) : Prop :=
    exists l, NoDup l /\ length l = n /\ forall x, In x l -> sel x /\ R x.

  Section Limit.
    Variable limit_hit : fset -> Prop.   (* disjunction of the [EXIT (SIZE(R) >= k)] conditions *)

    (** [generateRecursiveStratum]: LOOP (body; EXIT(all @new empty); EXIT(limit); merge/swap/clear).
        Both exits leave the main relations as they were at the start of the round: the merge of
        this round's @new has not happened. *)
    Inductive loop_run : fset -> fset -> fset -> Prop :=
    | run_exit_empty R D : (forall h, ~ New R D h) -> loop_run R D R
    | run_exit_limit R D : limit_hit R -> loop_run R D R
    | run_continue R D res :
        ~ (forall h, ~ New R D h) -> ~ limit_hit R ->
        loop_run (fun f => R f \/ New R D f) (New R D) res -> loop_run R D res.

    Definition exits_at (k : nat) : Prop :=
      (forall h, ~ New (iterR k) (iterD k) h) \/ limit_hit (iterR k).
    Definition first_exit (k : nat) : Prop := exits_at k /\ forall j, j < k -> ~ exits_at j.

    Lemma loop_run_char_gen R D res :
      loop_run R D res -> forall k, R = iterR k -> D = iterD k ->
      exists k', k <= k' /\ res = iterR k' /\ exits_at k' /\ forall j, k <= j < k' -> ~ exits_at j.
    Proof.
      induction 1 as [R D He | R D Hl | R D res Hne Hnl _ IH]; intros k -> ->.
      - exists k. splits; auto; [left; auto | intros; lia].
      - exists k. splits; auto; [right; auto | intros; lia].
      - destruct (IH (S k) eq_refl eq_refl) as (k' & Hle & Hres & Hex & Hfirst).
        exists k'. splits; auto; [lia|]. intros j Hj.
        destruct (Nat.eq_dec j k) as [-> | Hjk]; [intros [H | H]; tauto|]. apply Hfirst. lia.
    Qed.

    (** The result of the loop is the semi-naive state at the first round where an exit fires. *)
    Theorem loop_run_first_exit res :
      loop_run R0 R0 res -> exists k, first_exit k /\ res = iterR k.
    Proof.
      intros H. destruct (loop_run_char_gen H 0 eq_refl eq_refl) as (k & _ & Hres & Hex & Hfirst).
      exists k. split; auto. split; auto. intros j Hj. apply Hfirst. lia.
    Qed.

    Lemma loop_run_from k k' :
      k <= k' -> exits_at k' -> (forall j, k <= j < k' -> ~ exits_at j) ->
      loop_run (iterR k) (iterD k) (iterR k').
    Proof.
      intros Hle Hex. remember (k' - k) as d eqn:Hd. revert k Hle Hd.
      induction d as [|d IH]; intros k Hle Hd Hfirst.
      - assert (k = k') by lia. subst k'. destruct Hex; [apply run_exit_empty | apply run_exit_limit]; auto.
      - assert (Hn : ~ exits_at k) by (apply Hfirst; lia).
        apply run_continue.
        + intros H. apply Hn. left. exact H.
        + intros H. apply Hn. right. exact H.
        + apply (IH (S k)); [lia | lia |]. intros j Hj. apply Hfirst. lia.
    Qed.

    Theorem first_exit_loop_run k : first_exit k -> loop_run R0 R0 (iterR k).
    Proof.
      intros [Hex Hfirst]. apply (@loop_run_from 0 k); auto; [lia|]. intros j Hj. apply Hfirst. lia.
    Qed.

    Theorem limit_subset res : loop_run R0 R0 res -> forall h, res h -> lfp h.
    Proof.
      intros H h Hh. destruct (loop_run_first_exit H) as (k & _ & ->).
      eapply seminaive_sound; eauto.
    Qed.

    (** Either the loop stopped at the fixpoint, or the limit exit fired on the returned state. *)
    Theorem limit_dichotomy res :
      loop_run R0 R0 res -> (forall h, res h <-> lfp h) \/ limit_hit res.
    Proof.
      intros H. destruct (loop_run_first_exit H) as (k & [[He | Hl] _] & ->).
      - left. apply seminaive_exit_lfp. exact He.
      - right. exact Hl.
    Qed.
  End Limit.

  Theorem limit_noop sel n res :
    (forall l, NoDup l -> (forall x, In x l -> sel x /\ lfp x) -> length l < n) ->
    loop_run (size_ge sel n) R0 R0 res -> forall h, res h <-> lfp h.
  Proof.
    intros Hsmall H. destruct (limit_dichotomy H) as [Heq | (l & Hnd & Hlen & Hin)]; [exact Heq|].
    exfalso. assert (length l < n); [| lia].
    apply Hsmall; auto. intros x Hx. destruct (Hin x Hx) as [Hs Hr]. split; auto.
    eapply limit_subset; eauto.
  Qed.

  Theorem limit_reached sel n res :
    loop_run (size_ge sel n) R0 R0 res ->
    (forall h, res h <-> lfp h) \/ size_ge sel n res.
  Proof. apply limit_dichotomy. Qed.

  Corollary limit_reached_incomplete sel n res :
    loop_run (size_ge sel n) R0 R0 res -> ~ (forall h, lfp h -> res h) -> size_ge sel n res.
  Proof.
    intros H Hinc. destruct (limit_reached H) as [Heq | Hs]; [| exact Hs].
    exfalso. apply Hinc. intros h. apply Heq.
  Qed.

  (** If the limit exit (and not the emptiness exit) is what stopped the loop at round k, the
      returned main relations hold at least n selected facts. *)
  Corollary limit_exit_size sel n k :
    first_exit (size_ge sel n) k -> ~ (forall h, ~ New (iterR k) (iterD k) h) ->
    size_ge sel n (iterR k).
  Proof. intros [[He | Hl] _] Hne; [tauto | exact Hl]. Qed.

  (** The decidability hypothesis from decidable rule evaluation. *)
  Lemma iterD_dec_of_New_dec :
    dec_set R0 -> (forall R D, dec_set R -> dec_set D -> dec_set (New R D)) ->
    forall k, dec_set (iterR k) /\ dec_set (iterD k).
  Proof.
    intros H0 HN. induction k as [|k [IHR IHD]]; [split; exact H0|].
    assert (HD : dec_set (iterD (S k))) by (apply HN; auto).
    split; [| exact HD].
    intros f. destruct (IHR f) as [H | H]; [left; left; auto|].
    destruct (HD f) as [H1 | H1]; [left; right; exact H1|].
    right. intros [H2 | H2]; [tauto | exact (H1 H2)].
  Qed.
End SemiNaive.

(** Rules without a recursive atom belong to the preamble: if there are none among [rules], the
    hypothesis [preamble_closed] of the iteration theorems holds for every [R0]. *)
Lemma arity_pos_preamble_closed (fact rule : Type) (rules : list rule) (arity : rule -> nat)
      (fire : rule -> list fact -> fact -> Prop) (R0 : fset fact) :
  (forall r, In r rules -> 0 < arity r) ->
  forall r h, In r rules -> arity r = 0 -> fire r [] h -> R0 h.
Proof. intros Hpos r h Hr H0 _. specialize (Hpos r Hr). lia. Qed.

(** ** C07: the order of the body atoms does not matter.
    Two descriptions [fire1], [fire2] of the same rules that differ by a rearrangement of the
    SCC body atoms ([p r] rearranges a combination for [fire1] into one for [fire2], [q r] back;
    both only permute) define the same consequence operator, hence the same naive rounds and
    the same least fixpoint.  (User [.plan]s and the auto-scheduler permute the atoms of one
    clause version, ClauseTranslator.cpp [getAtomOrdering]; the non-SCC atoms are inside [fire].) *)
Section JoinOrder.
  Variables (fact rule : Type) (rules : list rule) (arity : rule -> nat).

  Lemma T_perm_incl (fireA fireB : rule -> list fact -> fact -> Prop)
        (p : rule -> list fact -> list fact) :
    (forall r ts, In r rules -> length ts = arity r -> Permutation ts (p r ts)) ->
    (forall r ts h, In r rules -> length ts = arity r -> fireA r ts h -> fireB r (p r ts) h) ->
    forall I h, T rules arity fireA I h -> T rules arity fireB I h.
  Proof.
    intros Hp Hf I h [Hh | (r & ts & Hr & Hl & Ha & Hfa)]; [left; auto|].
    right. exists r, (p r ts). pose proof (Hp r ts Hr Hl) as P. splits; auto.
    - rewrite <- Hl. symmetry. apply Permutation_length. exact P.
    - rewrite Forall_forall in *. intros f Hin. apply Ha.
      eapply Permutation_in; [symmetry; exact P | exact Hin].
  Qed.

  Lemma lfp_perm_incl (fireA fireB : rule -> list fact -> fact -> Prop)
        (p : rule -> list fact -> list fact) (R0 : fset fact) :
    (forall r ts, In r rules -> length ts = arity r -> Permutation ts (p r ts)) ->
    (forall r ts h, In r rules -> length ts = arity r -> fireA r ts h -> fireB r (p r ts) h) ->
    forall h, lfp rules arity fireA R0 h -> lfp rules arity fireB R0 h.
  Proof.
    intros Hp Hf. induction 1 as [f Hf0 | r ts h Hr Hl _ IH Hfa]; [apply lfp_base; auto|].
    pose proof (Hp r ts Hr Hl) as P.
    eapply lfp_step with (r := r) (ts := p r ts); auto.
    - rewrite <- Hl. symmetry. apply Permutation_length. exact P.
    - intros f Hin. apply IH. eapply Permutation_in; [symmetry; exact P | exact Hin].
  Qed.

  Variables fire1 fire2 : rule -> list fact -> fact -> Prop.
  Variables p q : rule -> list fact -> list fact.
  Hypothesis p_perm : forall r ts, In r rules -> length ts = arity r -> Permutation ts (p r ts).
  Hypothesis q_perm : forall r ts, In r rules -> length ts = arity r -> Permutation ts (q r ts).
  Hypothesis fire_p : forall r ts h, In r rules -> length ts = arity r ->
                                     fire1 r ts h -> fire2 r (p r ts) h.
  Hypothesis fire_q : forall r ts h, In r rules -> length ts = arity r ->
                                     fire2 r ts h -> fire1 r (q r ts) h.

  Theorem fire_perm_T I h : T rules arity fire1 I h <-> T rules arity fire2 I h.
  Proof. split; [apply T_perm_incl with (p := p) | apply T_perm_incl with (p := q)]; auto. Qed.

  Theorem fire_perm_lfp R0 h : lfp rules arity fire1 R0 h <-> lfp rules arity fire2 R0 h.
  Proof. split; [apply lfp_perm_incl with (p := p) | apply lfp_perm_incl with (p := q)]; auto. Qed.

  Theorem fire_perm_naive R0 k h : naiveR rules arity fire1 R0 k h <-> naiveR rules arity fire2 R0 k h.
  Proof.
    revert h. induction k as [|k IH]; intros h; [reflexivity|]. simpl.
    rewrite fire_perm_T. apply T_ext. exact IH.
  Qed.

  Theorem fire_perm_invariant :
    (forall I h, T rules arity fire1 I h <-> T rules arity fire2 I h) /\
    (forall R0 k h, naiveR rules arity fire1 R0 k h <-> naiveR rules arity fire2 R0 k h) /\
    (forall R0 h, lfp rules arity fire1 R0 h <-> lfp rules arity fire2 R0 h).
  Proof. splits; [exact fire_perm_T | exact fire_perm_naive | exact fire_perm_lfp]. Qed.
End JoinOrder.

(** The form with one rearrangement [p] that has an inverse [q]. *)
Corollary fire_perm_invariant_iff (fact rule : Type) (rules : list rule) (arity : rule -> nat)
          (fire1 fire2 : rule -> list fact -> fact -> Prop) (p q : rule -> list fact -> list fact) :
  (forall r ts, In r rules -> length ts = arity r -> Permutation ts (p r ts)) ->
  (forall r ts, In r rules -> length ts = arity r -> Permutation ts (q r ts)) ->
  (forall r ts, In r rules -> length ts = arity r -> p r (q r ts) = ts) ->
  (forall r ts h, In r rules -> length ts = arity r -> (fire2 r (p r ts) h <-> fire1 r ts h)) ->
  (forall I h, T rules arity fire1 I h <-> T rules arity fire2 I h) /\
  (forall R0 k h, naiveR rules arity fire1 R0 k h <-> naiveR rules arity fire2 R0 k h) /\
  (forall R0 h, lfp rules arity fire1 R0 h <-> lfp rules arity fire2 R0 h).
Proof.
  intros Hp Hq Hpq Hiff. apply fire_perm_invariant with (p := p) (q := q); auto.
  - intros r ts h Hr Hl H. apply Hiff; auto.
  - intros r ts h Hr Hl H. pose proof (Hq r ts Hr Hl) as P.
    apply Hiff; auto.
    + rewrite <- Hl. symmetry. apply Permutation_length. exact P.
    + rewrite Hpq; auto.
Qed.

(** Instance with an explicit position permutation: reversing the atom order. *)
Example fire_rev_invariant (fact rule : Type) (rules : list rule) (arity : rule -> nat)
        (fire1 : rule -> list fact -> fact -> Prop) :
  let fire2 := fun r ts h => fire1 r (rev ts) h in
  (forall I h, T rules arity fire1 I h <-> T rules arity fire2 I h) /\
  (forall R0 k h, naiveR rules arity fire1 R0 k h <-> naiveR rules arity fire2 R0 k h) /\
  (forall R0 h, lfp rules arity fire1 R0 h <-> lfp rules arity fire2 R0 h).
Proof.
  intros fire2. apply fire_perm_invariant_iff with (p := fun _ ts => rev ts) (q := fun _ ts => rev ts).
  - intros. apply Permutation_rev.
  - intros. apply Permutation_rev.
  - intros. apply rev_involutive.
  - intros r ts h _ _. unfold fire2. rewrite rev_involutive. reflexivity.
Qed.

(** ** C03: parallel insertion is confluent.
    A parallel scan (ram/transform/Parallel.cpp marks the outermost scan; interpreter/Engine.cpp
    and the synthesised code split it with [partitionScan] / [pfor]) is modelled as: work items
    (tuples of the outer relation), each producing the list of facts it inserts as a function of
    a state that is not written during the scan (the loop body of a recursive stratum reads
    main/@delta/lower relations and inserts into @new only); the items are distributed over
    workers in any way, and the single inserts of the workers interleave in any way. *)
Section Interleave.
  Variable A : Type.

  (** all ways to take the head of one of the lists *)
  Fixpoint picks (ls : list (list A)) : list (A * list (list A)) :=
    match ls with
    | [] => []
    | l :: ls' =>
        match l with [] => [] | x :: l' => [(x, l' :: ls')] end
        ++ map (fun p => (fst p, l :: snd p)) (picks ls')
    end.

  Fixpoint interleavings_fuel (n : nat) (ls : list (list A)) : list (list A) :=
    match n with
    | 0 => [[]]
    | S n' => flat_map (fun p => map (cons (fst p)) (interleavings_fuel n' (snd p))) (picks ls)
    end.

  (** all merges of the lists [ls] that preserve the order inside each list *)
  Definition interleavings (ls : list (list A)) : list (list A) :=
    interleavings_fuel (length (concat ls)) ls.

  (** independent specification: a scheduler repeatedly picks a worker with pending inserts *)
  Inductive is_interleaving : list (list A) -> list A -> Prop :=
  | il_done ls : concat ls = [] -> is_interleaving ls []
  | il_step pre x l post m :
      is_interleaving (pre ++ l :: post) m -> is_interleaving (pre ++ (x :: l) :: post) (x :: m).

  Lemma picks_spec ls x rest :
    In (x, rest) (picks ls) <->
    exists pre l post, ls = pre ++ (x :: l) :: post /\ rest = pre ++ l :: post.
  Proof.
    split.
    - revert x rest. induction ls as [|l ls IH]; simpl; intros x rest Hin; [tauto|].
      apply in_app_or in Hin as [Hin | Hin].
      + destruct l as [|y l']; simpl in Hin; [tauto|]. destruct Hin as [Heq | []].
        inversion Heq; subst. exists [], l', ls. auto.
      + apply in_map_iff in Hin as ([y r] & Heq & Hin). simpl in Heq. inversion Heq; subst.
        destruct (IH _ _ Hin) as (pre & l0 & post & -> & ->).
        exists (l :: pre), l0, post. auto.
    - intros (pre & l & post & -> & ->). induction pre as [|a pre IH]; simpl.
      + left. reflexivity.
      + apply in_or_app. right. apply in_map_iff. exists (x, pre ++ l :: post). auto.
  Qed.

  Lemma concat_pick_length pre (x : A) l post :
    length (concat (pre ++ (x :: l) :: post)) = S (length (concat (pre ++ l :: post))).
  Proof. rewrite !concat_app. simpl. rewrite !app_length. simpl. rewrite !app_length. lia. Qed.

  Lemma interleavings_fuel_sound n : forall ls m,
    length (concat ls) = n -> In m (interleavings_fuel n ls) -> is_interleaving ls m.
  Proof.
    induction n as [|n IH]; simpl; intros ls m Hlen Hin.
    - destruct Hin as [<- | []]. apply il_done. apply length_zero_iff_nil. exact Hlen.
    - apply in_flat_map in Hin as ([x rest] & Hp & Hin). simpl in Hin.
      apply picks_spec in Hp as (pre & l & post & -> & ->).
      apply in_map_iff in Hin as (m' & <- & Hin).
      apply il_step. apply IH; auto. rewrite concat_pick_length in Hlen. lia.
  Qed.

  Lemma interleavings_fuel_complete ls m :
    is_interleaving ls m -> In m (interleavings_fuel (length (concat ls)) ls).
  Proof.
    induction 1 as [ls Hnil | pre x l post m _ IH].
    - rewrite Hnil. simpl. auto.
    - rewrite concat_pick_length. simpl. apply in_flat_map.
      exists (x, pre ++ l :: post). split.
      + apply picks_spec. exists pre, l, post. auto.
      + simpl. apply in_map. exact IH.
  Qed.

  Theorem interleavings_spec ls m : In m (interleavings ls) <-> is_interleaving ls m.
  Proof.
    split; [apply interleavings_fuel_sound; reflexivity | apply interleavings_fuel_complete].
  Qed.

  Lemma is_interleaving_perm ls m : is_interleaving ls m -> Permutation (concat ls) m.
  Proof.
    induction 1 as [ls Hnil | pre x l post m _ IH]; [rewrite Hnil; constructor|].
    rewrite concat_app in *. simpl in *.
    apply Permutation_sym, Permutation_cons_app, Permutation_sym. exact IH.
  Qed.

  Lemma is_interleaving_skip_nil ls m : is_interleaving ls m -> is_interleaving ([] :: ls) m.
  Proof.
    induction 1 as [ls Hnil | pre x l post m _ IH]; [apply il_done; exact Hnil|].
    exact (@il_step ([] :: pre) x l post m IH).
  Qed.

  (** running the workers one after the other is one of the interleavings *)
  Lemma is_interleaving_sequential ls : is_interleaving ls (concat ls).
  Proof.
    induction ls as [|l ls IH]; [apply il_done; reflexivity|].
    induction l as [|x l IHl]; simpl.
    - apply is_interleaving_skip_nil. exact IH.
    - exact (@il_step [] x l ls (l ++ concat ls) IHl).
  Qed.
End Interleave.

Section ParInsert.
  Variable fact : Type.
  Variable eq_dec : forall x y : fact, {x = y} + {x <> y}.

  (** inserting into a set: idempotent, commutative up to membership *)
  Definition insert_all (s : list fact) (m : list fact) : list fact :=
    fold_left (fun s f => set_add eq_dec f s) m s.

  Lemma insert_all_In m : forall s f, In f (insert_all s m) <-> In f s \/ In f m.
  Proof.
    unfold insert_all. induction m as [|a m IH]; intros s f; simpl; [tauto|].
    rewrite IH, set_add_iff. intuition (subst; auto).
  Qed.

  Lemma insert_all_NoDup m : forall s, NoDup s -> NoDup (insert_all s m).
  Proof.
    unfold insert_all. induction m as [|a m IH]; intros s Hs; simpl; auto.
    apply IH. apply set_add_nodup. exact Hs.
  Qed.

  Variables state item : Type.
  Variable produce : state -> item -> list fact.   (* inserts of one work item; reads only [state] *)

  Definition worker_inserts (st : state) (chunk : list item) : list fact :=
    flat_map (produce st) chunk.
  Definition sequential (st : state) (items : list item) (R : list fact) : list fact :=
    insert_all R (flat_map (produce st) items).

  Lemma produced_chunks_iff st items chunks f :
    Permutation (concat chunks) items ->
    (In f (concat (map (worker_inserts st) chunks)) <-> In f (flat_map (produce st) items)).
  Proof.
    intros P. rewrite in_concat, in_flat_map. split.
    - intros (l & Hl & Hf). apply in_map_iff in Hl as (chunk & <- & Hc).
      apply in_flat_map in Hf as (it & Hit & Hf). exists it. split; auto.
      eapply Permutation_in; [exact P|]. apply in_concat. eauto.
    - intros (it & Hit & Hf).
      apply (Permutation_in _ (Permutation_sym P)) in Hit.
      apply in_concat in Hit as (chunk & Hc & Hit).
      exists (worker_inserts st chunk). split; [apply in_map; exact Hc|].
      apply in_flat_map. eauto.
  Qed.

  Theorem par_insert_confluent st items chunks R m :
    Permutation (concat chunks) items ->
    is_interleaving (map (worker_inserts st) chunks) m ->
    forall f, In f (insert_all R m) <-> In f (sequential st items R).
  Proof.
    intros P Hm f. unfold sequential. rewrite !insert_all_In.
    apply is_interleaving_perm in Hm.
    rewrite <- (@produced_chunks_iff st items chunks f P).
    split; (intros [H | H]; [left; exact H | right]).
    - eapply Permutation_in; [symmetry; exact Hm | exact H].
    - eapply Permutation_in; [exact Hm | exact H].
  Qed.

  Corollary par_insert_confluent_enum st items chunks R :
    Permutation (concat chunks) items ->
    forall m, In m (interleavings (map (worker_inserts st) chunks)) ->
    forall f, In f (insert_all R m) <-> In f (sequential st items R).
  Proof. intros P m Hm. apply par_insert_confluent with (chunks := chunks); auto. apply interleavings_spec. exact Hm. Qed.

  (** the final set is R plus everything produced *)
  Corollary par_insert_result st items chunks R m :
    Permutation (concat chunks) items ->
    is_interleaving (map (worker_inserts st) chunks) m ->
    forall f, In f (insert_all R m) <-> (In f R \/ exists it, In it items /\ In f (produce st it)).
  Proof.
    intros P Hm f. rewrite (@par_insert_confluent st items chunks R m P Hm f). unfold sequential.
    rewrite insert_all_In, in_flat_map. reflexivity.
  Qed.

  (** as duplicate-free lists, the results of any two schedules are permutations of each other *)
  Corollary par_insert_same_set st items chunks R m :
    NoDup R -> Permutation (concat chunks) items ->
    is_interleaving (map (worker_inserts st) chunks) m ->
    Permutation (insert_all R m) (sequential st items R).
  Proof.
    intros HR P Hm. apply NoDup_Permutation.
    - apply insert_all_NoDup. exact HR.
    - apply insert_all_NoDup. exact HR.
    - apply par_insert_confluent with (chunks := chunks); auto.
  Qed.
End ParInsert.

(** ** Concrete instances: the hypotheses of the theorems above are satisfiable. *)

(** Three workers, arbitrary schedule. *)
Example interleavings_count :
  length (interleavings [[1; 2]; [3]; [4; 5]]) = 30 /\
  In [4; 1; 3; 5; 2] (interleavings [[1; 2]; [3]; [4; 5]]).
Proof. vm_compute. split; [reflexivity | tauto]. Qed.

Example par_insert_example :
  let produce := fun (st : list nat) (it : nat) => map (fun y => it + y) st in
  forall m, In m (interleavings (map (worker_inserts produce [0; 10]) [[1; 2]; []; [1]])) ->
  forall f, In f (insert_all Nat.eq_dec [2] m) <-> In f [2; 1; 11; 12].
Proof.
  intros produce m Hm f.
  rewrite (@par_insert_confluent_enum nat Nat.eq_dec (list nat) nat produce [0; 10] [1; 2; 1]
             [[1; 2]; []; [1]] [2] (Permutation_refl _) m Hm f).
  vm_compute. tauto.
Qed.

(** Transitive closure over the 4-node chain n0 -> n1 -> n2 -> n3:
      path(x,y) :- edge(x,y).                     (preamble)
      path(x,z) :- path(x,y), path(y,z).          (Rpp, 2 recursive atoms)
      path(x,z) :- path(x,y), edge(y,z).          (Rpe, 1 recursive atom)  *)
Module TCExample.
  Inductive node := n0 | n1 | n2 | n3.
  Definition tfact := (node * node)%type.
  Inductive trule := Rpp | Rpe.
  Definition nodes : list node := [n0; n1; n2; n3].
  Definition edges : list tfact := [(n0, n1); (n1, n2); (n2, n3)].
  Definition trules : list trule := [Rpp; Rpe].
  Definition tarity (r : trule) : nat := match r with Rpp => 2 | Rpe => 1 end.
  Definition tfire (r : trule) (ts : list tfact) (h : tfact) : Prop :=
    match r, ts with
    | Rpp, [a; b] => snd a = fst b /\ h = (fst a, snd b)
    | Rpe, [a] => In (snd a, snd h) edges /\ fst h = fst a
    | _, _ => False
    end.
  Definition tR0 : fset tfact := fun f => In f edges.
  Definition rank (n : node) : nat := match n with n0 => 0 | n1 => 1 | n2 => 2 | n3 => 3 end.
  Definition tlt (h : tfact) : Prop := rank (fst h) < rank (snd h).
  Definition closure : list tfact := [(n0, n1); (n1, n2); (n2, n3); (n0, n2); (n1, n3); (n0, n3)].
  Definition all : fset tfact := fun _ => True.

  Notation tR := (iterR trules tarity tfire tR0).
  Notation tD := (iterD trules tarity tfire tR0).
  Notation tNew := (New trules tarity tfire).
  Notation tlfp := (lfp trules tarity tfire tR0).

  Lemma node_eq_dec (x y : node) : {x = y} + {x <> y}.
  Proof. decide equality. Qed.
  Lemma tfact_eq_dec (x y : tfact) : {x = y} + {x <> y}.
  Proof. decide equality; apply node_eq_dec. Qed.

  Lemma tarity_pos r : In r trules -> 0 < tarity r.
  Proof. destruct r; simpl; lia. Qed.
  Lemma t_preamble_closed r h : In r trules -> tarity r = 0 -> tfire r [] h -> tR0 h.
  Proof. intros Hr H0. pose proof (@tarity_pos r Hr). lia. Qed.

  Lemma tR0_dec : dec_set tR0.
  Proof. intros f. destruct (in_dec tfact_eq_dec f edges); [left | right]; assumption. Qed.

  Lemma tfire_dec r ts h : tfire r ts h \/ ~ tfire r ts h.
  Proof.
    destruct r; destruct ts as [|a [|b [|c ts]]]; unfold tfire; cbv beta iota; try (right; tauto).
    - destruct (node_eq_dec (snd a) (fst b)); [| right; tauto].
      destruct (tfact_eq_dec h (fst a, snd b)); [left | right]; tauto.
    - destruct (in_dec tfact_eq_dec (snd a, snd h) edges); [| right; tauto].
      destruct (node_eq_dec (fst h) (fst a)); [left | right]; tauto.
  Qed.

  Definition tcands (r : trule) (h : tfact) : list (list tfact) :=
    match r with
    | Rpp => map (fun y => [(fst h, y); (y, snd h)]) nodes
    | Rpe => map (fun y => [(fst h, y)]) nodes
    end.

  Lemma tcands_complete r ts h :
    In r trules -> length ts = tarity r -> tfire r ts h -> In ts (tcands r h).
  Proof.
    intros _ _. destruct r; destruct ts as [|[x y] [|[y' z] [|c ts]]]; simpl; try tauto.
    - intros [-> ->]. simpl. destruct y'; tauto.
    - destruct h as [hx hz]. simpl. intros [_ ->]. destruct y; tauto.
  Qed.

  Lemma tNew_dec R D : dec_set R -> dec_set D -> dec_set (tNew R D).
  Proof.
    apply New_dec_of_candidates with (cands := tcands); [exact tcands_complete | exact tfire_dec].
  Qed.

  Lemma tD_dec k : dec_set (tD k).
  Proof. exact (proj2 (@iterD_dec_of_New_dec _ _ trules tarity tfire tR0 tR0_dec tNew_dec k)). Qed.

  Definition t_step := @iter_step_eq_naive _ _ trules tarity tfire tR0 t_preamble_closed tD_dec.
  Definition t_exit := @iter_exit_iff_fixpoint _ _ trules tarity tfire tR0 t_preamble_closed tD_dec.

  (** the sets [tR k] stay inside "rank increases" ... *)
  Lemma tlfp_lt h : tlfp h -> tlt h.
  Proof.
    induction 1 as [f Hf | r ts h Hr Hl _ IH Hf].
    - unfold tR0, edges in Hf. simpl in Hf. unfold tlt.
      destruct Hf as [<- | [<- | [<- | []]]]; simpl; lia.
    - destruct r; destruct ts as [|a [|b [|c ts]]]; simpl in Hf; try tauto.
      + destruct Hf as [He ->]. pose proof (IH a (or_introl eq_refl)) as Ha.
        pose proof (IH b (or_intror (or_introl eq_refl))) as Hb.
        unfold tlt in *. simpl. rewrite He in Ha. lia.
      + destruct Hf as [Hin He]. pose proof (IH a (or_introl eq_refl)) as Ha.
        assert (Hb : rank (snd a) < rank (snd h)).
        { simpl in Hin. destruct Hin as [E | [E | [E | []]]];
            inversion E as [[E1 E2]]; simpl; lia. }
        unfold tlt in *. rewrite He. lia.
  Qed.

  Lemma tE f k : In f edges -> tR k f.
  Proof. intros Hf. apply (@iterR_mono _ _ trules tarity tfire tR0 0 k f); [lia | exact Hf]. Qed.

  Lemma tA02 : tR 1 (n0, n2).
  Proof.
    apply (@iterR_derive _ _ trules tarity tfire tR0 t_preamble_closed tD_dec 0 Rpe [(n0, n1)]);
      simpl; auto 6.
    constructor; [| constructor]. apply (@tE _ 0). simpl. auto.
  Qed.

  Lemma tA13 : tR 1 (n1, n3).
  Proof.
    apply (@iterR_derive _ _ trules tarity tfire tR0 t_preamble_closed tD_dec 0 Rpe [(n1, n2)]);
      simpl; auto 6.
    constructor; [| constructor]. apply (@tE _ 0). simpl. auto.
  Qed.

  Lemma tA03 : tR 2 (n0, n3).
  Proof.
    apply (@iterR_derive _ _ trules tarity tfire tR0 t_preamble_closed tD_dec 1 Rpp
             [(n0, n2); (n2, n3)]); simpl; auto.
    constructor; [exact tA02 | constructor; [| constructor]]. apply tE. simpl. auto.
  Qed.

  (** ... and after two rounds everything with increasing rank has been derived. *)
  Lemma tlt_R2 h : tlt h -> tR 2 h.
  Proof.
    destruct h as [x z]. unfold tlt. destruct x, z; simpl fst; simpl snd; simpl rank; try lia; intros _.
    - apply tE. simpl. auto.
    - apply (@iterR_mono _ _ trules tarity tfire tR0 1 2); [lia | exact tA02].
    - exact tA03.
    - apply tE. simpl. auto.
    - apply (@iterR_mono _ _ trules tarity tfire tR0 1 2); [lia | exact tA13].
    - apply tE. simpl. auto.
  Qed.

  Lemma tlt_closure h : tlt h <-> In h closure.
  Proof.
    destruct h as [x z]. unfold tlt. split.
    - destruct x, z; simpl; try lia; intros _; auto 10.
    - simpl. intros H. repeat (destruct H as [H | H]; [inversion H; subst; simpl; lia|]). tauto.
  Qed.

  (** The emptiness exit fires at round 2 and the result is the least fixpoint = the closure. *)
  Example tc_exit_round_2 : forall h, ~ tNew (tR 2) (tD 2) h.
  Proof.
    apply (proj2 (t_exit 2)).
    intros h Hh. apply tlt_R2, tlfp_lt.
    apply (@seminaive_sound _ _ trules tarity tfire tR0 3).
    apply t_step. exact Hh.
  Qed.

  Lemma tR_closure k h : tR k h -> In h closure.
  Proof. intros H. apply tlt_closure, tlfp_lt. eapply seminaive_sound; eauto. Qed.

  Example tc_result : forall h, tR 2 h <-> In h closure.
  Proof. intros h. split; [apply tR_closure|]. rewrite <- tlt_closure. apply tlt_R2. Qed.

  Example tc_lfp : forall h, tlfp h <-> In h closure.
  Proof.
    intros h. rewrite <- tc_result. symmetry.
    apply (@seminaive_exit_lfp _ _ trules tarity tfire tR0 t_preamble_closed tD_dec 2 tc_exit_round_2).
  Qed.

  (** Round 1 is not yet a fixpoint: (n0,n3) needs two rounds. *)
  Lemma t03_not_R1 : ~ tR 1 (n0, n3).
  Proof.
    intros H. apply t_step in H.
    destruct H as [H | (r & ts & Hr & Hl & Ha & Hf)].
    - change (In (n0, n3) edges) in H. simpl in H. intuition discriminate.
    - assert (Hin : forall f, In f ts -> In f edges).
      { rewrite Forall_forall in Ha. exact Ha. }
      destruct r; destruct ts as [|a [|b [|c ts]]]; simpl in Hf; try tauto.
      + destruct Hf as [He Hh]. pose proof (Hin a (or_introl eq_refl)) as Ha'.
        pose proof (Hin b (or_intror (or_introl eq_refl))) as Hb'. simpl in Ha', Hb'.
        destruct Ha' as [<- | [<- | [<- | []]]]; destruct Hb' as [<- | [<- | [<- | []]]];
          simpl in *; discriminate.
      + destruct Hf as [He Hh]. pose proof (Hin a (or_introl eq_refl)) as Ha'. simpl in Ha'.
        destruct Ha' as [<- | [<- | [<- | []]]]; simpl in *;
          try discriminate; intuition discriminate.
  Qed.

  Example tc_round_1_not_exit : ~ (forall h, ~ tNew (tR 1) (tD 1) h).
  Proof.
    intros H. apply t03_not_R1.
    apply (proj1 (t_exit 1) H).
    apply t_step. exact tA03.
  Qed.

  Example tc_round_0_not_exit : ~ (forall h, ~ tNew (tR 0) (tD 0) h).
  Proof.
    intros H. assert (H02 : tR 0 (n0, n2)).
    { apply (proj1 (t_exit 0) H).
      apply t_step. exact tA02. }
    change (In (n0, n2) edges) in H02. simpl in H02. intuition discriminate.
  Qed.

  (** Instantiations of the main theorems. *)
  Example tc_step_eq_naive k h :
    (tR k h \/ tNew (tR k) (tD k) h) <-> T trules tarity tfire (tR k) h.
  Proof.
    apply step_eq_naive;
      [apply (@iterR_dec _ _ trules tarity tfire tR0 tD_dec) | apply tD_dec
       | apply (@iter_inv _ _ trules tarity tfire tR0 t_preamble_closed tD_dec)].
  Qed.

  Example tc_iter_eq_naive k h : tR k h <-> naiveR trules tarity tfire tR0 k h.
  Proof. apply iter_eq_naive; [exact t_preamble_closed | exact tD_dec]. Qed.

  (** The combination [(n0,n2); (n2,n3)] fires in exactly one round, by exactly one version. *)
  Example tc_combo :
    exists k i, i < 2 /\ version_ok (tR k) (tD k) i [(n0, n2); (n2, n3)] /\
      forall k' i', i' < 2 -> version_ok (tR k') (tD k') i' [(n0, n2); (n2, n3)] ->
                    k' = k /\ i' = i.
  Proof.
    destruct (@combo_round_exists _ _ trules tarity tfire tR0 tD_dec 2 [(n0, n2); (n2, n3)])
      as (k0 & i & Hk & Hi & Hv); [discriminate | |].
    - constructor; [| constructor; [| constructor]]; apply tlt_R2; unfold tlt; simpl; lia.
    - exists k0, i. splits; auto. intros k' i' Hi' Hv'.
      exact (@combo_round_version_unique _ _ trules tarity tfire tR0 k' k0 i' i [(n0, n2); (n2, n3)]
               Hi' Hi Hv' Hv).
  Qed.

  Example tc_partition h : tR 2 h <-> (tR0 h \/ exists j, j < 2 /\ tD (S j) h).
  Proof. apply deltas_partition_result. Qed.

  (** C23.  Sizes: 3 facts after the preamble, 5 after round 0's merge, 6 at the fixpoint. *)
  Lemma size_ge_incl n (R : fset tfact) l' :
    (forall x, R x -> In x l') -> size_ge all n R -> n <= length l'.
  Proof.
    intros Hsub (l & Hnd & <- & Hin). apply NoDup_incl_length; auto.
    intros x Hx. apply Hsub, Hin, Hx.
  Qed.

  Lemma tR1_has_5 : size_ge all 5 (tR 1).
  Proof.
    exists [(n0, n1); (n1, n2); (n2, n3); (n0, n2); (n1, n3)]. splits; auto.
    - repeat (constructor; [simpl; intuition discriminate|]). constructor.
    - intros x Hx. split; [exact I|]. simpl in Hx.
      destruct Hx as [<- | [<- | [<- | [<- | [<- | []]]]]];
        [apply tE; simpl; auto | apply tE; simpl; auto | apply tE; simpl; auto
         | exact tA02 | exact tA13].
  Qed.

  Lemma size_ge_weaken n m (R : fset tfact) : m <= n -> size_ge all n R -> size_ge all m R.
  Proof.
    intros Hle (l & Hnd & Hlen & Hin). exists (firstn m l). splits.
    - rewrite <- (firstn_skipn m l) in Hnd. apply NoDup_app_l in Hnd. exact Hnd.
    - rewrite firstn_length. lia.
    - intros x Hx. apply Hin. rewrite <- (firstn_skipn m l). apply in_or_app. auto.
  Qed.

  (** With [.limitsize path(n=4)] the loop returns the state of round 1: at round 0 the main
      relation holds 3 < 4 facts, at round 1 it holds 5 >= 4 (the test reads the main relation
      before round 1's @new = {(n0,n3)} is merged, and that @new is dropped). *)
  Example tc_limit_4_run : loop_run trules tarity tfire (size_ge all 4) tR0 tR0 (tR 1).
  Proof.
    apply first_exit_loop_run. split.
    - right. apply (@size_ge_weaken 5 4); [lia | exact tR1_has_5].
    - intros j Hj. assert (j = 0) by lia. subst j. intros [H | H].
      + exact (tc_round_0_not_exit H).
      + apply (@size_ge_incl 4 _ edges) in H; [simpl in H; lia|]. intros x Hx. exact Hx.
  Qed.

  Example tc_limit_4_result :
    (forall h, tR 1 h -> tlfp h) /\ ~ tR 1 (n0, n3) /\ size_ge all 4 (tR 1) /\ size_ge all 5 (tR 1).
  Proof.
    splits.
    - exact (@limit_subset _ _ trules tarity tfire tR0 (size_ge all 4) (tR 1) tc_limit_4_run).
    - exact t03_not_R1.
    - apply (@limit_reached_incomplete _ _ trules tarity tfire tR0 t_preamble_closed tD_dec all 4 (tR 1)
               tc_limit_4_run).
      intros H. apply t03_not_R1, H, tc_lfp. simpl. auto 10.
    - exact tR1_has_5.
  Qed.

  (** With [.limitsize path(n=7)] (the closure has 6 facts) the limit never fires. *)
  Lemma tlfp_small l : NoDup l -> (forall x, In x l -> all x /\ tlfp x) -> length l < 7.
  Proof.
    intros Hnd Hin. assert (length l <= length closure); [| simpl in *; lia].
    apply NoDup_incl_length; auto. intros x Hx. apply tc_lfp, Hin, Hx.
  Qed.

  Example tc_limit_7_noop res :
    loop_run trules tarity tfire (size_ge all 7) tR0 tR0 res -> forall h, res h <-> In h closure.
  Proof.
    intros H h. rewrite <- tc_lfp. revert h.
    exact (@limit_noop _ _ trules tarity tfire tR0 t_preamble_closed tD_dec all 7 res tlfp_small H).
  Qed.

  Example tc_limit_7_run : loop_run trules tarity tfire (size_ge all 7) tR0 tR0 (tR 2).
  Proof.
    apply first_exit_loop_run. split; [left; exact tc_exit_round_2|].
    intros j Hj [H | H].
    - destruct j as [|[|j]]; [exact (tc_round_0_not_exit H) | exact (tc_round_1_not_exit H) | lia].
    - apply (@size_ge_incl 7 _ closure) in H; [simpl in H; lia|]. apply tR_closure.
  Qed.

  (** C20 counting on the instance: 6 = 3 + (2 + 1). *)
  Example tc_count (lR l0 : list tfact) (ld : nat -> list tfact) :
    NoDup lR -> (forall x, In x lR <-> tR 2 x) ->
    NoDup l0 -> (forall x, In x l0 <-> tR0 x) ->
    (forall j, j < 2 -> NoDup (ld j) /\ forall x, In x (ld j) <-> tD (S j) x) ->
    length lR = length l0 + (length (ld 0) + (length (ld 1) + 0)).
  Proof. intros. apply (@deltas_count _ _ trules tarity tfire tR0 2 lR l0 ld); auto. Qed.
End TCExample.

(* NOT PROVED / not covered here:
   - That the RAM emitted by UnitTranslator.cpp for a concrete Datalog stratum is an instance of this
     scheme (right relation per atom per version, negated @delta exactly on the later SCC atoms,
     head filter, exit and update sequences): that is the job of the validator [seminaive_ok] and of
     [translate_sound] in DESIGN.md (C09), not of this file.
   - Termination of the loop ([loop_run] is a relation; no run exists for an infinite ascending
     chain).  Theorems are about every run that returns.
   - Eqrel relations ([MergeExtend]), subsumptive clauses (@reject/@delete, exit on @delta) and
     lattice relations ([generateStratumLubSequence]) follow other branches of
     [generateStratumTableUpdates] / [generateStratumExitSequence]: outside the model.
   - C03: the insert of a single tuple is atomic in the model; races inside the B-tree/brie inserts
     are C25/C27.  [produce] must not read the relation being written (holds for @new).
   - The decidability premises ([dec_set]) are assumptions on the instance; they are discharged for
     the example by [New_dec_of_candidates] and hold for list-backed relations ([finite_dec_set]). *)
