From SV Require Import CounterDefs.
From Coq Require Import FinFun.
Local Open Scope Z_scope.

Lemma wrap32_small z : - 2 ^ 31 <= z < 2 ^ 31 -> wrap32 z = z.
Proof. intros H. unfold wrap32. rewrite Z.mod_small; lia. Qed.

(** without wrap-around the values handed out are c, c+1, c+2, ... *)
Lemma values_seq c sched :
  0 <= c -> c + Z.of_nat (length sched) < 2 ^ 31 ->
  values c sched = map (fun k => c + Z.of_nat k) (seq 0 (length sched)).
Proof.
  unfold values. revert c. induction sched as [|t s IH]; intros c Hc Hlen; [reflexivity|].
  cbn [run length]. destruct (run (wrap32 (c + 1)) s) as [r c'] eqn:E.
  cbn [fst map snd seq]. f_equal; [lia|].
  assert (Hw : wrap32 (c + 1) = c + 1) by (apply wrap32_small; cbn [length] in Hlen; lia).
  specialize (IH (c + 1) ltac:(lia) ltac:(cbn [length] in Hlen; lia)).
  rewrite <- Hw in IH at 1. rewrite E in IH. cbn [fst] in IH. rewrite IH.
  rewrite <- seq_shift, map_map. apply map_ext. intros k. lia.
Qed.

(** every use of the counter in one run yields a distinct value, whatever the interleaving of the
    threads, as long as fewer than 2^31 values are drawn (no wrap-around) *)
Theorem fetch_add_unique c sched :
  0 <= c -> c + Z.of_nat (length sched) < 2 ^ 31 -> NoDup (values c sched).
Proof.
  intros Hc Hlen. rewrite values_seq by assumption.
  apply Injective_map_NoDup; [|apply seq_NoDup].
  intros a b H. lia.
Qed.

(** the multiset of values does not depend on the interleaving: only on how many were drawn *)
Theorem values_schedule_independent c s1 s2 :
  0 <= c -> c + Z.of_nat (length s1) < 2 ^ 31 -> length s1 = length s2 -> values c s1 = values c s2.
Proof. intros Hc H1 Hl. rewrite !values_seq; try lia. rewrite Hl. reflexivity. Qed.

(** with wrap-around the statement is false: after 2^32 draws the first value repeats (witness on a
    scaled-down instance is not possible in Z without 2^32 steps; stated for the step function) *)
Lemma wrap32_period c : wrap32 (c + 2 ^ 32) = wrap32 c.
Proof. unfold wrap32. replace (c + 2 ^ 32 + 2 ^ 31) with (c + 2 ^ 31 + 1 * 2 ^ 32) by lia. rewrite Z.mod_add by lia. reflexivity. Qed.

Example three_threads : values 0 [2; 0; 1; 1; 0]%nat = [0; 1; 2; 3; 4].
Proof. reflexivity. Qed.
Example hypotheses_hold : 0 <= 0 /\ 0 + Z.of_nat (length [2; 0; 1; 1; 0]%nat) < 2 ^ 31.
Proof. cbn. lia. Qed.
