(** C20 -- Profiling reports true relation sizes: the identity the profile's relation size rests on.
    Only statements here; definitions and proofs are in SemiNaiveAbs.v.  The profile adds the
    size after the non-recursive rules and the per-iteration @new sizes
    (UnitTranslator.cpp [generateStratumTableUpdates], [LogRelationTimer] on @new). *)
From Coq Require Import List.
From SV Require Import SemiNaiveAbs.
Import ListNotations.

(** The main relations at round k are the preamble result plus the @new sets of rounds < k ... *)
Theorem C20_deltas_partition_result :
  forall (fact rule : Type) (rules : list rule) (arity : rule -> nat)
         (fire : rule -> list fact -> fact -> Prop) (R0 : fset fact) (k : nat) (h : fact),
    iterR rules arity fire R0 k h <->
    (R0 h \/ exists j, j < k /\ iterD rules arity fire R0 (S j) h).
Proof. exact deltas_partition_result. Qed.
Print Assumptions C20_deltas_partition_result.

(** ... which are pairwise disjoint ... *)
Theorem C20_deltas_disjoint :
  forall (fact rule : Type) (rules : list rule) (arity : rule -> nat)
         (fire : rule -> list fact -> fact -> Prop) (R0 : fset fact) (j j' : nat) (h : fact),
    j <> j' -> iterD rules arity fire R0 (S j) h -> iterD rules arity fire R0 (S j') h -> False.
Proof. exact deltas_disjoint. Qed.
Print Assumptions C20_deltas_disjoint.

(** ... and disjoint from the preamble result. *)
Theorem C20_delta_R0_disjoint :
  forall (fact rule : Type) (rules : list rule) (arity : rule -> nat)
         (fire : rule -> list fact -> fact -> Prop) (R0 : fset fact) (j : nat) (h : fact),
    R0 h -> iterD rules arity fire R0 (S j) h -> False.
Proof. exact delta_R0_disjoint. Qed.
Print Assumptions C20_delta_R0_disjoint.

(** Counting, for duplicate-free list-backed relations: |R_k| = |R0| + sum_{j<k} |New_j|. *)
Theorem C20_deltas_count :
  forall (fact rule : Type) (rules : list rule) (arity : rule -> nat)
         (fire : rule -> list fact -> fact -> Prop) (R0 : fset fact)
         (k : nat) (lR l0 : list fact) (ld : nat -> list fact),
    NoDup lR -> (forall x, In x lR <-> iterR rules arity fire R0 k x) ->
    NoDup l0 -> (forall x, In x l0 <-> R0 x) ->
    (forall j, j < k -> NoDup (ld j) /\ forall x, In x (ld j) <-> iterD rules arity fire R0 (S j) x) ->
    length lR = length l0 + list_sum (map (fun j => length (ld j)) (seq 0 k)).
Proof. exact deltas_count. Qed.
Print Assumptions C20_deltas_count.
