(** Datalog fragment: abstract syntax, and the executable reference evaluator (naive iteration,
    stratum by stratum) that is extracted as the *oracle* of every pipeline property.
    Definitions only; the declarative semantics and the proofs are in DatalogSem.v / DatalogLemmas.v.

    What is modelled: positive and negated atoms, binary constraints, intrinsic integer / unsigned /
    string functors (Word32Defs), records, ADT branches, aggregates count/sum/min/max over a
    conjunction of simple literals, range generators. Disjunction and multiple heads arrive
    desugared into several clauses (as the parser does). Values are structural: symbols are byte
    strings and records are trees (interning is property C31's subject). *)
From SV Require Export Word32Defs.
Local Open Scope Z_scope.

(** * Values *)
Inductive value :=
| VNum (z : Z)                      (* number / unsigned / float bit pattern, signed reading *)
| VSym (s : bytes)
| VNil
| VRec (fs : list value)
| VAdt (b : nat) (fs : list value).  (* branch index *)

Fixpoint value_eqb (a b : value) {struct a} : bool :=
  let fix list_eqb (xs ys : list value) {struct xs} : bool :=
    match xs, ys with
    | [], [] => true
    | x :: xs', y :: ys' => value_eqb x y && list_eqb xs' ys'
    | _, _ => false
    end in
  match a, b with
  | VNum x, VNum y => x =? y
  | VSym x, VSym y => bytes_eqb x y
  | VNil, VNil => true
  | VRec xs, VRec ys => list_eqb xs ys
  | VAdt i xs, VAdt j ys => Nat.eqb i j && list_eqb xs ys
  | _, _ => false
  end.

Definition tuple := list value.
Fixpoint tuple_eqb (a b : tuple) : bool :=
  match a, b with
  | [], [] => true
  | x :: a', y :: b' => value_eqb x y && tuple_eqb a' b'
  | _, _ => false
  end.
Fixpoint mem_tuple (t : tuple) (l : list tuple) : bool :=
  match l with [] => false | x :: l' => tuple_eqb t x || mem_tuple t l' end.

(** * Syntax *)
Inductive nty := TS | TU.                        (* signed / unsigned reading *)
Inductive fop :=
| OAdd (t : nty) | OSub (t : nty) | OMul (t : nty) | ODiv (t : nty) | OMod (t : nty) | OExp (t : nty)
| OMax (t : nty) | OMin (t : nty) | ONeg
| OBand | OBor | OBxor | OBnot | OShl | OShr (t : nty) | OShru
| OLand | OLor | OLxor | OLnot
| OCat | OStrlen | OSubstr | OToNumber | OToString | OSMax | OSMin
| OId.                                           (* itou / utoi: same bit pattern *)

Inductive cop := CEq | CNe | CLt (t : option nty) | CLe (t : option nty) | CGt (t : option nty) | CGe (t : option nty)
               | CContains | CNotContains.       (* ordering at None = symbols *)

Inductive term :=
| TVar (x : nat)
| TAnon
| TConst (v : value)
| TOp (o : fop) (args : list term)
| TRecord (args : list term)
| TAdtC (b : nat) (args : list term).

Inductive slit :=
| SPos (r : nat) (args : list term)
| SNeg (r : nat) (args : list term)
| SCmp (c : cop) (a b : term).

Inductive aggk := ACount | ASum | AMin | AMax.

Inductive lit :=
| LS (l : slit)
| LAgg (res : nat) (k : aggk) (t : nty) (target : term) (body : list slit)   (* res = k target : { body } *)
| LRange (res : nat) (t : nty) (from to : term) (step : option term).        (* res = range(from, to[, step]) *)

Record clause := { c_rel : nat; c_args : list term; c_body : list lit }.

(** * Databases: association list relation-id -> tuples (read as a set) *)
Definition db := list (nat * list tuple).
Fixpoint rel_of (d : db) (r : nat) : list tuple :=
  match d with [] => [] | (r', ts) :: d' => if Nat.eqb r r' then ts else rel_of d' r end.
Fixpoint db_add (d : db) (r : nat) (t : tuple) : db :=
  match d with
  | [] => [(r, [t])]
  | (r', ts) :: d' => if Nat.eqb r r' then (r', ts ++ [t]) :: d' else (r', ts) :: db_add d' r t
  end.

(** * Evaluation results: [Stuck] = the literal order given to the oracle does not ground a
    variable before its use (a harness error, never silently accepted); [Undef] = an operation
    outside the defined value domain was evaluated (the case is outside the properties). *)
Inductive res (A : Type) := Ok (a : A) | Stuck | Undef.
Arguments Ok {A} a. Arguments Stuck {A}. Arguments Undef {A}.
Definition bind {A B} (r : res A) (f : A -> res B) : res B :=
  match r with Ok a => f a | Stuck => Stuck | Undef => Undef end.
Definition of_opt {A} (o : option A) : res A := match o with Some a => Ok a | None => Undef end.

Definition env := list (nat * value).
Fixpoint lookup (e : env) (x : nat) : option value :=
  match e with [] => None | (y, v) :: e' => if Nat.eqb x y then Some v else lookup e' x end.

Definition num1 (f : Z -> res Z) (vs : list value) : res value :=
  match vs with [VNum a] => bind (f a) (fun z => Ok (VNum z)) | _ => Stuck end.
Definition num2 (f : Z -> Z -> res Z) (vs : list value) : res value :=
  match vs with [VNum a; VNum b] => bind (f a b) (fun z => Ok (VNum z)) | _ => Stuck end.
Definition tot2 (f : Z -> Z -> Z) := num2 (fun a b => Ok (f a b)).
Definition par2 (f : Z -> Z -> option Z) := num2 (fun a b => of_opt (f a b)).
Definition byty {A} (t : nty) (s u' : A) : A := match t with TS => s | TU => u' end.

(** variadic min / max fold exactly as MINMAX_OP does *)
Fixpoint fold_num (f : Z -> Z -> Z) (acc : Z) (vs : list value) : res value :=
  match vs with
  | [] => Ok (VNum acc)
  | VNum b :: vs' => fold_num f (f acc b) vs'
  | _ => Stuck
  end.
Fixpoint cat_all (vs : list value) : res bytes :=
  match vs with
  | [] => Ok []
  | VSym s :: vs' => bind (cat_all vs') (fun r => Ok (s ++ r))
  | _ => Stuck
  end.
Fixpoint fold_sym (pick_second : bytes -> bytes -> bool) (acc : bytes) (vs : list value) : res value :=
  match vs with
  | [] => Ok (VSym acc)
  | VSym b :: vs' => fold_sym pick_second (if pick_second acc b then b else acc) vs'
  | _ => Stuck
  end.

Definition eval_op (o : fop) (vs : list value) : res value :=
  match o with
  | OAdd t => byty t (par2 sadd) (tot2 uadd) vs
  | OSub t => byty t (par2 ssub) (tot2 usub) vs
  | OMul t => byty t (par2 smul) (tot2 umul) vs
  | ODiv t => byty t (par2 sdiv) (par2 udiv) vs
  | OMod t => byty t (par2 smod) (par2 umod) vs
  | OExp t => byty t (par2 sexp) (par2 uexp) vs
  | OMax t => match vs with VNum a :: vs' => fold_num (byty t smax umax) a vs' | _ => Stuck end
  | OMin t => match vs with VNum a :: vs' => fold_num (byty t smin umin) a vs' | _ => Stuck end
  | ONeg => num1 (fun a => of_opt (sneg a)) vs
  | OBand => tot2 band vs | OBor => tot2 bor vs | OBxor => tot2 bxor vs
  | OBnot => num1 (fun a => Ok (bnot a)) vs
  | OShl => tot2 shl vs
  | OShr t => byty t (tot2 shr_s) (tot2 shr_u) vs
  | OShru => tot2 shr_u vs
  | OLand => tot2 land vs | OLor => tot2 lor vs | OLxor => tot2 lxor vs
  | OLnot => num1 (fun a => Ok (lnot a)) vs
  | OCat => bind (cat_all vs) (fun s => Ok (VSym s))
  | OStrlen => match vs with [VSym s] => Ok (VNum (Z.of_nat (length s))) | _ => Stuck end
  | OSubstr => match vs with [VSym s; VNum i; VNum l] => Ok (VSym (substr s i l)) | _ => Stuck end
  | OToNumber => match vs with [VSym s] => bind (of_opt (to_number s)) (fun z => Ok (VNum z)) | _ => Stuck end
  | OToString => match vs with [VNum a] => Ok (VSym (dec_of_Z a)) | _ => Stuck end
  | OSMax => match vs with VSym a :: vs' => fold_sym (fun acc b => bytes_ltb acc b) a vs' | _ => Stuck end
  | OSMin => match vs with VSym a :: vs' => fold_sym (fun acc b => bytes_ltb b acc) a vs' | _ => Stuck end
  | OId => match vs with [VNum a] => Ok (VNum a) | _ => Stuck end
  end.

(** term evaluation under an environment; an unbound variable or [_] makes it [Stuck] *)
Fixpoint eval_term (e : env) (t : term) {struct t} : res value :=
  let fix eval_list (ts : list term) {struct ts} : res (list value) :=
    match ts with
    | [] => Ok []
    | t :: ts' => bind (eval_term e t) (fun v => bind (eval_list ts') (fun vs => Ok (v :: vs)))
    end in
  match t with
  | TVar x => match lookup e x with Some v => Ok v | None => Stuck end
  | TAnon => Stuck
  | TConst v => Ok v
  | TOp o args => bind (eval_list args) (eval_op o)
  | TRecord args => bind (eval_list args) (fun vs => Ok (VRec vs))
  | TAdtC b args => bind (eval_list args) (fun vs => Ok (VAdt b vs))
  end.
Fixpoint eval_terms (e : env) (ts : list term) : res (list value) :=
  match ts with
  | [] => Ok []
  | t :: ts' => bind (eval_term e t) (fun v => bind (eval_terms e ts') (fun vs => Ok (v :: vs)))
  end.

(** matching a pattern term against a value: may bind variables; functor applications must be
    evaluable (they are compared, not inverted) *)
Fixpoint match_term (e : env) (p : term) (v : value) {struct p} : res (option env) :=
  let fix match_list (e : env) (ps : list term) (vs : list value) {struct ps} : res (option env) :=
    match ps, vs with
    | [], [] => Ok (Some e)
    | p :: ps', v :: vs' =>
        bind (match_term e p v) (fun o => match o with Some e' => match_list e' ps' vs' | None => Ok None end)
    | _, _ => Ok None
    end in
  match p with
  | TVar x => match lookup e x with
              | Some w => Ok (if value_eqb w v then Some e else None)
              | None => Ok (Some ((x, v) :: e))
              end
  | TAnon => Ok (Some e)
  | TConst c => Ok (if value_eqb c v then Some e else None)
  | TOp _ _ => bind (eval_term e p) (fun w => Ok (if value_eqb w v then Some e else None))
  | TRecord ps => match v with VRec vs => match_list e ps vs | _ => Ok None end
  | TAdtC b ps => match v with VAdt b' vs => if Nat.eqb b b' then match_list e ps vs else Ok None | _ => Ok None end
  end.
Fixpoint match_terms (e : env) (ps : list term) (vs : list value) : res (option env) :=
  match ps, vs with
  | [], [] => Ok (Some e)
  | p :: ps', v :: vs' =>
      bind (match_term e p v) (fun o => match o with Some e' => match_terms e' ps' vs' | None => Ok None end)
  | _, _ => Ok None
  end.

Definition eval_cmp (c : cop) (a b : value) : res bool :=
  match c, a, b with
  | CEq, _, _ => Ok (value_eqb a b)
  | CNe, _, _ => Ok (negb (value_eqb a b))
  | CLt (Some t), VNum x, VNum y => Ok (byty t slt ult x y)
  | CLe (Some t), VNum x, VNum y => Ok (byty t sle ule x y)
  | CGt (Some t), VNum x, VNum y => Ok (byty t slt ult y x)
  | CGe (Some t), VNum x, VNum y => Ok (byty t sle ule y x)
  | CLt None, VSym x, VSym y => Ok (bytes_ltb x y)
  | CLe None, VSym x, VSym y => Ok (bytes_leb x y)
  | CGt None, VSym x, VSym y => Ok (bytes_ltb y x)
  | CGe None, VSym x, VSym y => Ok (bytes_leb y x)
  | CContains, VSym p, VSym s => Ok (has_substr p s)
  | CNotContains, VSym p, VSym s => Ok (negb (has_substr p s))
  | _, _, _ => Stuck
  end.

(** all extensions of [e] by the tuples of [ts] that match [args] (one result per matching tuple) *)
Fixpoint scan (e : env) (args : list term) (ts : list tuple) : res (list env) :=
  match ts with
  | [] => Ok []
  | t :: ts' =>
      bind (match_terms e args t) (fun o =>
      bind (scan e args ts') (fun r => Ok (match o with Some e' => e' :: r | None => r end)))
  end.
(** is some tuple matched (negation; [_] is existential) *)
Fixpoint exists_match (e : env) (args : list term) (ts : list tuple) : res bool :=
  match ts with
  | [] => Ok false
  | t :: ts' => bind (match_terms e args t) (fun o => match o with Some _ => Ok true | None => exists_match e args ts' end)
  end.

(** negated atoms must be ground apart from [_] *)
Fixpoint ground_or_anon (e : env) (args : list term) : bool :=
  match args with
  | [] => true
  | TAnon :: r => ground_or_anon e r
  | t :: r => match eval_term e t with Stuck => false | _ => ground_or_anon e r end
  end.

Definition is_pattern (t : term) : bool :=
  match t with TVar _ | TRecord _ | TAdtC _ _ | TAnon => true | _ => false end.

Definition step_slit (d : db) (l : slit) (e : env) : res (list env) :=
  match l with
  | SPos r args => scan e args (rel_of d r)
  | SNeg r args =>
      if ground_or_anon e args
      then bind (exists_match e args (rel_of d r)) (fun b => Ok (if b then [] else [e]))
      else Stuck
  | SCmp c a b =>
      match eval_term e a, eval_term e b with
      | Ok va, Ok vb => bind (eval_cmp c va vb) (fun t => Ok (if t then [e] else []))
      | Undef, _ | _, Undef => Undef
      | Stuck, Ok vb =>
          match c with
          | CEq => if is_pattern a then bind (match_term e a vb) (fun o => Ok (match o with Some e' => [e'] | None => [] end)) else Stuck
          | _ => Stuck
          end
      | Ok va, Stuck =>
          match c with
          | CEq => if is_pattern b then bind (match_term e b va) (fun o => Ok (match o with Some e' => [e'] | None => [] end)) else Stuck
          | _ => Stuck
          end
      | Stuck, Stuck => Stuck
      end
  end.

Fixpoint flat_map_res {A B} (f : A -> res (list B)) (l : list A) : res (list B) :=
  match l with
  | [] => Ok []
  | a :: l' => bind (f a) (fun x => bind (flat_map_res f l') (fun y => Ok (x ++ y)))
  end.

Fixpoint solve_s (d : db) (ls : list slit) (es : list env) : res (list env) :=
  match ls with
  | [] => Ok es
  | l :: ls' => bind (flat_map_res (step_slit d l) es) (solve_s d ls')
  end.

(** aggregates: the body is solved from the outer environment; one contribution per solution *)
Fixpoint agg_values (target : term) (es : list env) : res (list Z) :=
  match es with
  | [] => Ok []
  | e :: es' => bind (eval_term e target) (fun v => match v with
                  | VNum z => bind (agg_values target es') (fun r => Ok (z :: r))
                  | _ => Stuck end)
  end.
Fixpoint sum_s (zs : list Z) (acc : Z) : res Z :=
  match zs with [] => Ok acc | z :: r => bind (of_opt (sadd acc z)) (sum_s r) end.
Definition agg_result (k : aggk) (t : nty) (target : term) (es : list env) : res (option Z) :=
  match k with
  | ACount => Ok (Some (Z.of_nat (length es)))
  | ASum => bind (agg_values target es) (fun zs =>
            match t with
            | TS => bind (sum_s zs 0) (fun s => Ok (Some s))
            | TU => Ok (Some (fold_left uadd zs 0))
            end)
  | AMin => bind (agg_values target es) (fun zs =>
            Ok (match zs with [] => None | z :: r => Some (fold_left (byty t smin umin) r z) end))
  | AMax => bind (agg_values target es) (fun zs =>
            Ok (match zs with [] => None | z :: r => Some (fold_left (byty t smax umax) r z) end))
  end.

(** range(from, to, step) as EvaluatorUtil.h runRange: fuel-bounded enumeration *)
Fixpoint range_s (fuel : nat) (x to step : Z) : list Z :=
  match fuel with
  | O => []
  | S f => if 0 <? step then (if x <? to then x :: range_s f (x + step) to step else [])
           else if step <? 0 then (if to <? x then x :: range_s f (x + step) to step else [])
           else []
  end.
Definition range_values (t : nty) (from to : Z) (step : option Z) : res (list Z) :=
  match t with
  | TS =>
      let st := match step with Some s => s | None => if from <=? to then 1 else -1 end in
      if st =? 0 then Ok (if from =? to then [] else [from])
      else
        let n := Z.abs (to - from) / Z.abs st + 2 in
        if 4096 <? n then Undef
        else let r := range_s (Z.to_nat n) from to st in
             (* the C++ loop `x += step` must not overflow past the end *)
             if in_s (from + st * Z.of_nat (length r)) then Ok r else Undef
  | TU =>
      let f := u from in let t' := u to in
      match step with
      | Some s =>
          let st := u s in
          if st =? 0 then Ok (if f =? t' then [] else [from])
          else let n := Z.abs (t' - f) / st + 2 in
               if 4096 <? n then Undef else
               let r := range_s (Z.to_nat n) f t' st in
               if f + st * Z.of_nat (length r) <? 2 ^ 32 then Ok (map wrap r) else Undef
      | None =>
          let n := Z.abs (t' - f) + 2 in
          if 4096 <? n then Undef
          else if f <=? t' then Ok (map wrap (range_s (Z.to_nat n) f t' 1))
          else Ok (map wrap (range_s (Z.to_nat n) f t' (-1)))
      end
  end.

Definition bind_var (e : env) (x : nat) (v : value) : list env :=
  match lookup e x with
  | Some w => if value_eqb w v then [e] else []
  | None => [(x, v) :: e]
  end.

Definition step_lit (d : db) (l : lit) (e : env) : res (list env) :=
  match l with
  | LS s => step_slit d s e
  | LAgg x k t target body =>
      bind (solve_s d body [e]) (fun es =>
      bind (agg_result k t target es) (fun o =>
      Ok (match o with Some z => bind_var e x (VNum z) | None => [] end)))
  | LRange x t from to step =>
      bind (eval_term e from) (fun vf => bind (eval_term e to) (fun vt =>
      bind (match step with Some s => bind (eval_term e s) (fun v => Ok (Some v)) | None => Ok None end) (fun vs =>
      match vf, vt, vs with
      | VNum f, VNum t', None => bind (range_values t f t' None) (fun zs => Ok (flat_map (fun z => bind_var e x (VNum z)) zs))
      | VNum f, VNum t', Some (VNum s) => bind (range_values t f t' (Some s)) (fun zs => Ok (flat_map (fun z => bind_var e x (VNum z)) zs))
      | _, _, _ => Stuck
      end)))
  end.

Fixpoint solve (d : db) (ls : list lit) (es : list env) : res (list env) :=
  match ls with
  | [] => Ok es
  | l :: ls' => bind (flat_map_res (step_lit d l) es) (solve d ls')
  end.

(** head tuples of one clause under database [d] *)
Fixpoint heads (args : list term) (es : list env) : res (list tuple) :=
  match es with
  | [] => Ok []
  | e :: es' => bind (eval_terms e args) (fun t => bind (heads args es') (fun r => Ok (t :: r)))
  end.
Definition fire_clause (d : db) (c : clause) : res (list tuple) :=
  bind (solve d (c_body c) [[]]) (heads (c_args c)).

Fixpoint add_new (d : db) (r : nat) (ts : list tuple) (changed : bool) : db * bool :=
  match ts with
  | [] => (d, changed)
  | t :: ts' => if mem_tuple t (rel_of d r) then add_new d r ts' changed
                else add_new (db_add d r t) r ts' true
  end.

(** one naive round: every clause is fired against the database of the *start* of the round *)
Fixpoint round_clauses (d0 d : db) (cs : list clause) (changed : bool) : res (db * bool) :=
  match cs with
  | [] => Ok (d, changed)
  | c :: cs' => bind (fire_clause d0 c) (fun ts =>
                let (d', ch) := add_new d (c_rel c) ts changed in round_clauses d0 d' cs' ch)
  end.

(** iterate to the fixpoint; [None] when the fuel runs out; second component = number of rounds
    that added something *)
Fixpoint iterate (fuel : nat) (d : db) (cs : list clause) (n : nat) : res (option (db * nat)) :=
  match fuel with
  | O => Ok None
  | S f => bind (round_clauses d d cs false) (fun p =>
           let (d', ch) := p in if ch then iterate f d' cs (S n) else Ok (Some (d', n)))
  end.

Fixpoint eval_strata (fuel : nat) (d : db) (ss : list (list clause)) (rounds : list nat) : res (option (db * list nat)) :=
  match ss with
  | [] => Ok (Some (d, rev rounds))
  | cs :: ss' => bind (iterate fuel d cs 0) (fun o => match o with
                   | None => Ok None
                   | Some (d', n) => eval_strata fuel d' ss' (n :: rounds)
                   end)
  end.

(** * Stratification check (the strata are proposed by the harness and *checked* here):
    every negated or aggregated relation of stratum i is defined only in strata < i, every positive
    body relation in strata <= i. [defs] lists which relations each stratum defines. *)
Definition slit_pos (l : slit) : list nat := match l with SPos r _ => [r] | _ => [] end.
Definition slit_neg (l : slit) : list nat := match l with SNeg r _ => [r] | _ => [] end.
Definition lit_pos (l : lit) : list nat := match l with LS s => slit_pos s | _ => [] end.
Definition lit_low (l : lit) : list nat :=   (* must be strictly lower *)
  match l with
  | LS s => slit_neg s
  | LAgg _ _ _ _ body => flat_map (fun s => slit_pos s ++ slit_neg s) body
  | LRange _ _ _ _ _ => []
  end.
Definition defined_in (cs : list clause) : list nat := map c_rel cs.
Definition memb (x : nat) (l : list nat) : bool := existsb (Nat.eqb x) l.
Fixpoint strata_ok (earlier : list nat) (ss : list (list clause)) : bool :=
  match ss with
  | [] => true
  | cs :: ss' =>
      let later := flat_map defined_in ss' in
      let here := defined_in cs in
      forallb (fun c => forallb (fun l =>
          forallb (fun r => negb (memb r here) && negb (memb r later)) (lit_low l) &&
          forallb (fun r => negb (memb r later)) (lit_pos l)) (c_body c)) cs
      && forallb (fun r => negb (memb r earlier)) here
      && strata_ok (earlier ++ here) ss'
  end.

Definition run_program (fuel : nat) (edb : db) (ss : list (list clause)) : res (option (db * list nat)) :=
  if strata_ok [] ss then eval_strata fuel edb ss [] else Stuck.
