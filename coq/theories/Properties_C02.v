(** C02 -- translation validation against a proved reference.
    What is proved for C02 is the reference itself: the oracle every configuration of the real
    pipeline is compared with computes the stratified least model, and that model is unique, so
    one oracle decides every backend / option setting. The pipeline stages that C02 is about are
    NOT modelled; they are tied by the per-program correspondence run by ./check C02. *)
From SV Require Import DatalogDefs DatalogSem DatalogLemmas Properties_C01.

Theorem C02_reference_is_least_model : forall fuel edb ss d rounds,
  program_ok ss = true -> program_det ss = true -> db_nodup edb ->
  run_program fuel edb ss = Ok (Some (d, rounds)) ->
  (forall r t, In t (rel_of d r) <-> strat_model (holds edb) ss r t) /\
  (forall r, NoDup (rel_of d r)) /\ is_strat_model (holds edb) ss (holds d).
Proof. exact C01_run_program_correct. Qed.
Print Assumptions C02_reference_is_least_model.

Theorem C02_reference_unique : forall edb ss d d',
  is_strat_model (holds edb) ss (holds d) -> is_strat_model (holds edb) ss (holds d') ->
  forall r t, In t (rel_of d r) <-> In t (rel_of d' r).
Proof. exact C01_stratified_model_unique_db. Qed.
Print Assumptions C02_reference_unique.
