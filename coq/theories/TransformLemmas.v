(** C04 (rewrites) -- the program-level rewrites that Souffle's optional AST passes claim to
    perform preserve the stratified least model of DatalogSem.v.

    The C++ passes themselves (src/ast/transform/MinimiseProgram.cpp, RemoveRelationCopies.cpp,
    RemoveEmptyRelations.cpp, RemoveRedundantRelations.cpp, InlineRelations.cpp,
    SimplifyConstantBinaryConstraints.cpp, RemoveBooleanConstraints.cpp) are NOT modelled here.
    What is proved is that the *rewrite each pass announces* is semantics preserving on the
    declarative semantics: first for the model of one stratum ([least_model lower cs]), then,
    where reasonable, for the stratified model ([strat_model]). Nothing here refers to the
    evaluator.

    Contents
      0. general tools (congruence of [least_model] / [strat_model], outer scope of aggregates)
      1. MinimiseProgram: duplicate clauses, clause lists with the same rule instances,
         permutation of body literals, injective renaming of variables
      2. RemoveEmptyRelations: clauses with a positive atom over an empty relation, negated
         atoms over an empty relation
      3. RemoveRedundantRelations: relations on which no output relation depends
      4. RemoveRelationCopies: a relation defined by one copy clause
      5. SimplifyConstantBinaryConstraints / RemoveBooleanConstraints: constant constraints
      6. InlineRelations: unfolding an atom over a relation defined by one clause *)
From SV Require Import DatalogDefs DatalogSem DatalogLemmas StratLemmas.
Require Import Permutation.
Arguments Nat.eqb : simpl never.

(** * 0. General tools *)

(** ** 0.1 comparing least models *)
Lemma lm_sub_intro lower cs1 cs2 :
  closed (least_model lower cs2) lower cs1 -> isub (least_model lower cs1) (least_model lower cs2).
Proof. intro H. apply least_model_least; [apply least_model_lower|exact H]. Qed.

Lemma lm_incl lower cs1 cs2 : incl cs1 cs2 -> isub (least_model lower cs1) (least_model lower cs2).
Proof.
  intro Hi. apply lm_sub_intro. intros c t Hc Hf. apply least_model_closed; [apply Hi, Hc|exact Hf].
Qed.

(** a tuple of the least model is in [lower] or is the head of a rule instance over the model *)
Lemma lm_inv lower cs r t : least_model lower cs r t ->
  lower r t \/ exists c, In c cs /\ c_rel c = r /\ fires (least_model lower cs) lower c t.
Proof.
  intro H. apply derived_least_model in H. destruct H as [r t H|c t Hc Hf]; [left; exact H|].
  right. exists c. split; [exact Hc|]. split; [reflexivity|].
  eapply fires_ieq; [apply derived_least_model|apply ieq_refl|exact Hf].
Qed.

(** a relation without tuples in [lower] and without clauses is empty in the model *)
Lemma lm_empty lower cs e :
  (forall t, ~ lower e t) -> (forall c, In c cs -> c_rel c <> e) -> forall t, ~ least_model lower cs e t.
Proof.
  intros Hl Hc t H. apply lm_inv in H as [H|(c & Hin & Hr & _)]; [exact (Hl t H)|exact (Hc c Hin Hr)].
Qed.

(** ** 0.2 lifting a stratum-wise equivalence to the stratified model.
    [Q] is an invariant of the interpretations reached while going up the strata. *)
Lemma strat_model_congr_inv (Q : interp -> Prop) : forall ss ss' L L',
  (forall cs L, In cs ss -> Q L -> Q (least_model L cs)) ->
  Forall2 (fun cs cs' => forall L, Q L -> ieq (least_model L cs) (least_model L cs')) ss ss' ->
  Q L -> ieq L L' -> ieq (strat_model L ss) (strat_model L' ss').
Proof.
  induction ss as [|cs ss IH]; intros ss' L L' HQ HF HL He; inversion HF; subst; simpl; [exact He|].
  apply IH; auto.
  - intros cs0 L0 Hin. apply HQ. right. exact Hin.
  - apply HQ; [left; reflexivity|exact HL].
  - eapply ieq_trans; [apply H1; exact HL|]. apply least_model_ieq. exact He.
Qed.

Lemma strat_model_congr ss ss' L :
  Forall2 (fun cs cs' => forall L, ieq (least_model L cs) (least_model L cs')) ss ss' ->
  ieq (strat_model L ss) (strat_model L ss').
Proof.
  intro HF. apply (strat_model_congr_inv (fun _ => True)); auto using ieq_refl.
  eapply Forall2_imp; [|exact HF]. simpl. auto.
Qed.

Lemma F2_length {A B} (R : A -> B -> Prop) l l' : Forall2 R l l' -> length l = length l'.
Proof. induction 1; simpl; congruence. Qed.

Lemma Forall2_map_same {A} (R : A -> A -> Prop) (f : A -> A) l :
  (forall a, In a l -> R a (f a)) -> Forall2 R l (map f l).
Proof.
  induction l as [|a l IH]; intro H; simpl; constructor; [apply H; left; reflexivity|].
  apply IH. intros b Hb. apply H. right. exact Hb.
Qed.

(** ** 0.3 the outer scope of a clause matters only for the variables of its aggregates *)
Definition lit_agg_vars (l : lit) : list nat :=
  match l with
  | LAgg _ _ _ target body => term_vars target ++ slits_vars body
  | _ => []
  end.
Definition body_agg_vars (ls : list lit) : list nat := flat_map lit_agg_vars ls.

Lemma enumerates_outer N o o' V e body es :
  (forall x, In x V -> (In x o <-> In x o')) ->
  enumerates N o V e body es -> enumerates N o' V e body es.
Proof.
  intros Ho (H1 & H2 & H3).
  assert (Hag : forall s, agrees_on V o e s <-> agrees_on V o' e s).
  { intro s. split; intros H x Hx Hxo; apply H; auto; apply (Ho x Hx); exact Hxo. }
  split; [|split; [|exact H3]].
  - intros e' He'. destruct (H1 e' He') as (A & B & C). split; [apply Hag; exact A|auto].
  - intros s Hs Hb. apply H2; [apply Hag; exact Hs|exact Hb].
Qed.

Lemma sat_lit_outer P N o o' e l :
  (forall x, In x (lit_agg_vars l) -> (In x o <-> In x o')) ->
  sat_lit P N o e l -> sat_lit P N o' e l.
Proof.
  intros Ho H. destruct l as [s|x k t target body|x t from to step].
  - apply sat_ls_inv in H. constructor. exact H.
  - apply sat_agg_inv in H as (es & zs & z & H1 & H2 & H3 & H4). econstructor; eauto.
    eapply enumerates_outer; [|exact H1]. exact Ho.
  - apply sat_range_inv in H as (vf & vt & vs & zs & z & H1 & H2 & H3 & H4 & H5 & H6).
    eapply SatRange; eauto.
Qed.

Lemma sat_body_outer P N o o' e ls :
  (forall x, In x (body_agg_vars ls) -> (In x o <-> In x o')) ->
  Forall (sat_lit P N o e) ls -> Forall (sat_lit P N o' e) ls.
Proof.
  intros Ho H. induction H as [|l ls Hl _ IH]; constructor.
  - eapply sat_lit_outer; [|exact Hl]. intros x Hx. apply Ho. unfold body_agg_vars. simpl.
    apply in_or_app. left. exact Hx.
  - apply IH. intros x Hx. apply Ho. unfold body_agg_vars. simpl. apply in_or_app. right. exact Hx.
Qed.

(** * 1. MinimiseProgram *)

(** ** 1.1 clause lists with the same rule instances have the same least model *)
Definition same_instances (N : interp) (cs1 cs2 : list clause) : Prop :=
  forall (P : interp) r t,
    (exists c, In c cs1 /\ c_rel c = r /\ fires P N c t) <->
    (exists c, In c cs2 /\ c_rel c = r /\ fires P N c t).

Lemma same_instances_closed N cs1 cs2 I :
  same_instances N cs1 cs2 -> closed I N cs1 -> closed I N cs2.
Proof.
  intros H Hc c t Hin Hf.
  destruct (proj2 (H I (c_rel c) t)) as (c1 & Hin1 & Hr1 & Hf1); [exists c; auto|].
  rewrite <- Hr1. apply Hc; auto.
Qed.

Theorem clauses_equiv lower cs1 cs2 :
  same_instances lower cs1 cs2 -> ieq (least_model lower cs1) (least_model lower cs2).
Proof.
  intros H r t. split; intros Hm I HI Hcl; apply Hm; auto;
    eapply same_instances_closed; try exact Hcl; [|exact H].
  intros P r' t'. symmetry. apply H.
Qed.

(** one stratum of a program may be replaced by a stratum with the same model over the database
    computed by the strata below it *)
Lemma strat_model_app ss1 : forall ss2 L, strat_model L (ss1 ++ ss2) = strat_model (strat_model L ss1) ss2.
Proof. induction ss1 as [|cs ss1 IH]; intros ss2 L; simpl; [reflexivity|apply IH]. Qed.
Theorem strat_replace_stratum L ss1 cs cs' ss2 :
  ieq (least_model (strat_model L ss1) cs) (least_model (strat_model L ss1) cs') ->
  ieq (strat_model L (ss1 ++ cs :: ss2)) (strat_model L (ss1 ++ cs' :: ss2)).
Proof. intro H. rewrite !strat_model_app. simpl. apply strat_model_ieq. exact H. Qed.

(** stratified version: the strata are pairwise equivalent whatever the lower database is *)
Theorem clauses_equiv_strat ss ss' L :
  Forall2 (fun cs cs' => forall N, same_instances N cs cs') ss ss' ->
  ieq (strat_model L ss) (strat_model L ss').
Proof.
  intro HF. apply strat_model_congr. eapply Forall2_imp; [|exact HF]. simpl.
  intros cs cs' H L0. apply clauses_equiv. apply H.
Qed.

(** clause lists that are equal as sets *)
Lemma set_eq_same_instances N cs1 cs2 :
  (forall c, In c cs1 <-> In c cs2) -> same_instances N cs1 cs2.
Proof.
  intros H P r t. split; intros (c & Hin & Hr); exists c; (split; [apply H; exact Hin|exact Hr]).
Qed.

Theorem dup_clause_idem lower c cs :
  In c cs -> ieq (least_model lower (c :: cs)) (least_model lower cs).
Proof.
  intro Hin. apply clauses_equiv, set_eq_same_instances. intro c'. simpl. split; [|auto].
  intros [<-|H]; auto.
Qed.

(** removing one of two identical clauses, wherever they are *)
Theorem dup_clause_remove lower c cs1 cs2 cs3 :
  ieq (least_model lower (cs1 ++ c :: cs2 ++ c :: cs3)) (least_model lower (cs1 ++ c :: cs2 ++ cs3)).
Proof.
  apply clauses_equiv, set_eq_same_instances. intro c'.
  rewrite !in_app_iff. simpl. rewrite !in_app_iff. simpl. tauto.
Qed.

(** replacing each clause by one with the same rule instances *)
Definition same_fires (N : interp) (c c' : clause) : Prop :=
  c_rel c = c_rel c' /\ forall (P : interp) t, fires P N c t <-> fires P N c' t.

Lemma map_same_instances N (g : clause -> clause) cs :
  (forall c, In c cs -> same_fires N c (g c)) -> same_instances N cs (map g cs).
Proof.
  intros H P r t. split.
  - intros (c & Hin & Hr & Hf). destruct (H c Hin) as [E F]. exists (g c).
    split; [apply in_map; exact Hin|]. split; [congruence|apply F; exact Hf].
  - intros (c' & Hin & Hr & Hf). apply in_map_iff in Hin as (c & <- & Hin).
    destruct (H c Hin) as [E F]. exists c. split; [exact Hin|]. split; [congruence|apply F; exact Hf].
Qed.

Lemma replace_same_instances N c c' cs1 cs2 :
  same_fires N c c' -> same_instances N (cs1 ++ c :: cs2) (cs1 ++ c' :: cs2).
Proof.
  intros [E F] P r t. split; intros (c0 & Hin & Hr & Hf); apply in_app_or in Hin as [Hin|[<-|Hin]].
  - exists c0. rewrite in_app_iff. auto.
  - exists c'. rewrite in_app_iff. simpl. split; [auto|]. split; [congruence|apply F; exact Hf].
  - exists c0. rewrite in_app_iff. simpl. auto.
  - exists c0. rewrite in_app_iff. auto.
  - exists c. rewrite in_app_iff. simpl. split; [auto|]. split; [congruence|apply F; exact Hf].
  - exists c0. rewrite in_app_iff. simpl. auto.
Qed.

(** ** 1.2 permutation of the body literals *)
Lemma flat_map_perm_in {A B} (f : A -> list B) l1 l2 x :
  Permutation l1 l2 -> In x (flat_map f l1) -> In x (flat_map f l2).
Proof.
  intros Hp H. apply in_flat_map in H as (a & Ha & Hx). apply in_flat_map. exists a.
  split; [eapply Permutation_in; eauto|exact Hx].
Qed.

Lemma fires_perm_one P N c1 c2 t :
  c_args c1 = c_args c2 -> Permutation (c_body c1) (c_body c2) ->
  fires P N c1 t -> fires P N c2 t.
Proof.
  intros Ea Hp (e & Hs & Hd). exists e. split; [|rewrite <- Ea; exact Hd].
  apply (sat_body_outer P N (clause_outer c1)).
  - intros x _. unfold clause_outer. rewrite Ea, !in_app_iff.
    split; (intros [H|H]; [left; exact H|right]).
    + exact (flat_map_perm_in _ _ _ _ Hp H).
    + exact (flat_map_perm_in _ _ _ _ (Permutation_sym Hp) H).
  - eapply Permutation_Forall; eauto.
Qed.

Theorem fires_body_perm P N c1 c2 t :
  c_args c1 = c_args c2 -> Permutation (c_body c1) (c_body c2) ->
  (fires P N c1 t <-> fires P N c2 t).
Proof.
  intros Ea Hp. split; apply fires_perm_one; auto using Permutation_sym.
Qed.

Theorem body_perm_model lower c1 c2 cs1 cs2 :
  c_rel c1 = c_rel c2 -> c_args c1 = c_args c2 -> Permutation (c_body c1) (c_body c2) ->
  ieq (least_model lower (cs1 ++ c1 :: cs2)) (least_model lower (cs1 ++ c2 :: cs2)).
Proof.
  intros Er Ea Hp. apply clauses_equiv, replace_same_instances. split; [exact Er|].
  intros P t. apply fires_body_perm; auto.
Qed.

(** a clause that equals an earlier clause up to the order of its body literals can be removed
    (the rewrite of MinimiseProgram::reduceLocallyEquivalentClauses, permutation part) *)
Theorem perm_clause_remove lower c1 c2 cs :
  In c1 cs -> c_rel c1 = c_rel c2 -> c_args c1 = c_args c2 -> Permutation (c_body c1) (c_body c2) ->
  ieq (least_model lower (c2 :: cs)) (least_model lower cs).
Proof.
  intros Hin Er Ea Hp. apply clauses_equiv. intros P r t. split.
  - intros (c & [<-|Hc] & Hr & Hf); [|exists c; auto].
    exists c1. split; [exact Hin|]. split; [congruence|]. eapply fires_body_perm; eauto.
  - intros (c & Hc & Hr). exists c. simpl. auto.
Qed.

(** * Dropping body literals that every valuation satisfies (used by sections 2 and 5) *)
Definition with_body (c : clause) (b : list lit) : clause :=
  {| c_rel := c_rel c; c_args := c_args c; c_body := b |}.

(** the variables of the aggregates of [c] that are in the outer scope of [c] are still in the
    outer scope of [c'] -- so that no aggregate variable silently becomes local. Trivial for a
    clause without aggregates, and when every variable of the dropped literals also occurs in
    the head or in a kept literal outside aggregates ("grounded elsewhere"). *)
Definition agg_scope_kept (c c' : clause) : Prop :=
  forall x, In x (body_agg_vars (c_body c)) -> In x (clause_outer c) -> In x (clause_outer c').

Lemma agg_scope_kept_no_agg c c' : body_agg_vars (c_body c) = [] -> agg_scope_kept c c'.
Proof. intros E x Hx. rewrite E in Hx. destruct Hx. Qed.
Lemma agg_scope_kept_incl c c' : incl (clause_outer c) (clause_outer c') -> agg_scope_kept c c'.
Proof. intros H x _ Hx. apply H, Hx. Qed.

Lemma flat_map_filter_in {A B} (f : A -> list B) (k : A -> bool) l x :
  In x (flat_map f (filter k l)) -> In x (flat_map f l).
Proof.
  intro H. apply in_flat_map in H as (a & Ha & Hx). apply filter_In in Ha as [Ha _].
  apply in_flat_map. eauto.
Qed.

Lemma clause_outer_filter c k x :
  In x (clause_outer (with_body c (filter k (c_body c)))) -> In x (clause_outer c).
Proof.
  unfold clause_outer. simpl. rewrite !in_app_iff. intros [H|H]; [left; exact H|right].
  eapply flat_map_filter_in; eauto.
Qed.

Lemma fires_drop P N c (keep : lit -> bool) t :
  (forall l e, In l (c_body c) -> keep l = false -> sat_lit P N (clause_outer c) e l) ->
  agg_scope_kept c (with_body c (filter keep (c_body c))) ->
  (fires P N c t <-> fires P N (with_body c (filter keep (c_body c))) t).
Proof.
  intros Htrue Hsc. set (c' := with_body c (filter keep (c_body c))).
  assert (Ho : forall x, In x (body_agg_vars (c_body c)) -> (In x (clause_outer c) <-> In x (clause_outer c'))).
  { intros x Hx. split; [apply Hsc; exact Hx|apply clause_outer_filter]. }
  split; intros (e & Hs & Hd); exists e; (split; [|exact Hd]).
  - simpl. apply (sat_body_outer P N (clause_outer c)).
    + intros x Hx. apply Ho. eapply flat_map_filter_in; exact Hx.
    + rewrite Forall_forall in *. intros l Hl. apply filter_In in Hl as [Hl _]. auto.
  - simpl in Hs. rewrite Forall_forall in *. intros l Hl. destruct (keep l) eqn:K.
    + apply (sat_lit_outer P N (clause_outer c')).
      * intros x Hx. symmetry. apply Ho. apply in_flat_map. eauto.
      * apply Hs. apply filter_In. auto.
    + apply Htrue; auto.
Qed.

(** removing clauses that never fire *)
Lemma never_fires_remove N cs cs' :
  incl cs' cs -> (forall c, In c cs -> In c cs' \/ forall (P : interp) t, ~ fires P N c t) ->
  same_instances N cs cs'.
Proof.
  intros Hi H P r t. split; intros (c & Hin & Hr & Hf).
  - destruct (H c Hin) as [Hc|Hn]; [exists c; auto|destruct (Hn P t Hf)].
  - exists c. auto.
Qed.

(** * 2. RemoveEmptyRelations: relation [e] has no tuples and no clauses *)
Definition is_pos_over (e : nat) (l : lit) : bool :=
  match l with LS (SPos r _) => Nat.eqb r e | _ => false end.
Definition is_neg_over (e : nat) (l : lit) : bool :=
  match l with LS (SNeg r _) => Nat.eqb r e | _ => false end.
(** [c] has a positive atom over [e] (outside aggregates) *)
Definition uses_pos (e : nat) (c : clause) : Prop := exists args, In (LS (SPos e args)) (c_body c).
Definition uses_posb (e : nat) (c : clause) : bool := existsb (is_pos_over e) (c_body c).
Definition drop_neg (e : nat) (c : clause) : clause :=
  with_body c (filter (fun l => negb (is_neg_over e l)) (c_body c)).

Lemma uses_posb_spec e c : uses_posb e c = true <-> uses_pos e c.
Proof.
  unfold uses_posb, uses_pos. rewrite existsb_exists. split.
  - intros (l & Hl & E). destruct l as [[r args|r args|cm a b]|x k t tg bd|x t f to st]; simpl in E; try discriminate.
    apply Nat.eqb_eq in E. subst. eauto.
  - intros (args & H). exists (LS (SPos e args)). split; [exact H|]. simpl. apply Nat.eqb_refl.
Qed.

(** (a) a clause with a positive atom over an empty relation never fires *)
Theorem dead_clause_never_fires (P N : interp) e c t :
  (forall t', ~ P e t') -> uses_pos e c -> ~ fires P N c t.
Proof.
  intros He (args & Hin) (env0 & Hs & _). rewrite Forall_forall in Hs.
  specialize (Hs _ Hin). apply sat_ls_inv, sat_pos_inv in Hs as (t' & Ht' & _). exact (He t' Ht').
Qed.

Theorem dead_clause_elim lower cs cs' e :
  (forall t, ~ lower e t) -> (forall c, In c cs -> c_rel c <> e) ->
  incl cs' cs -> (forall c, In c cs -> In c cs' \/ uses_pos e c) ->
  ieq (least_model lower cs) (least_model lower cs').
Proof.
  intros Hl Hc Hi Hr r t. split; [|apply lm_incl; exact Hi].
  apply lm_sub_intro. intros c t' Hin Hf. destruct (Hr c Hin) as [Hin'|Hu].
  - apply least_model_closed; auto.
  - exfalso. eapply dead_clause_never_fires; [|exact Hu|exact Hf].
    apply lm_empty; [exact Hl|]. intros c0 H0. apply Hc, Hi, H0.
Qed.

(** the computable form: filter out every clause that uses [e] positively *)
Corollary dead_clause_elim_filter lower cs e :
  (forall t, ~ lower e t) -> (forall c, In c cs -> c_rel c <> e) ->
  ieq (least_model lower cs) (least_model lower (filter (fun c => negb (uses_posb e c)) cs)).
Proof.
  intros Hl Hc. apply (dead_clause_elim lower cs _ e Hl Hc).
  - intros c H. apply filter_In in H. tauto.
  - intros c Hin. destruct (uses_posb e c) eqn:E.
    + right. apply uses_posb_spec. exact E.
    + left. apply filter_In. rewrite E. auto.
Qed.

(** (b) a negated atom over a relation that is empty in [N] holds under every valuation -- in the
    declarative semantics even when its arguments are not evaluable: [SatNeg] only says that no
    tuple of [N e] matches. The side condition that is really needed concerns the *scope* of
    aggregates: dropping the atom must not remove a variable from the outer scope of the clause
    that an aggregate of the clause uses ([agg_scope_kept]); Souffle's groundedness rule (every
    variable of a negated atom also occurs in a positive atom of the body) implies it. *)
Lemma sat_neg_empty (P N : interp) outer env0 e l :
  (forall t, ~ N e t) -> is_neg_over e l = true -> sat_lit P N outer env0 l.
Proof.
  intros He E. destruct l as [[r args|r args|cm a b]|x k t tg bd|x t f to st]; simpl in E; try discriminate.
  apply Nat.eqb_eq in E. subst. constructor. constructor. intros (t & Ht & _). exact (He t Ht).
Qed.

Theorem fires_drop_neg (P N : interp) e c t :
  (forall t', ~ N e t') -> agg_scope_kept c (drop_neg e c) ->
  (fires P N c t <-> fires P N (drop_neg e c) t).
Proof.
  intros He Hsc. apply fires_drop; [|exact Hsc].
  intros l env0 _ K. apply (sat_neg_empty P N _ env0 e); [exact He|].
  apply negb_false_iff. exact K.
Qed.

Theorem neg_empty_elim lower cs e :
  (forall t, ~ lower e t) -> (forall c, In c cs -> agg_scope_kept c (drop_neg e c)) ->
  ieq (least_model lower cs) (least_model lower (map (drop_neg e) cs)).
Proof.
  intros He Hsc. apply clauses_equiv, map_same_instances. intros c Hc. split; [reflexivity|].
  intros P t. apply fires_drop_neg; auto.
Qed.

(** both rewrites together, as RemoveEmptyRelations performs them *)
Definition remove_empty (e : nat) (cs : list clause) : list clause :=
  map (drop_neg e) (filter (fun c => negb (uses_posb e c)) cs).

Theorem empty_relation_elim lower cs e :
  (forall t, ~ lower e t) -> (forall c, In c cs -> c_rel c <> e) ->
  (forall c, In c cs -> agg_scope_kept c (drop_neg e c)) ->
  ieq (least_model lower cs) (least_model lower (remove_empty e cs)).
Proof.
  intros Hl Hc Hsc. eapply ieq_trans; [apply dead_clause_elim_filter; eauto|].
  apply neg_empty_elim; [exact Hl|]. intros c H. apply filter_In in H as [H _]. auto.
Qed.

(** stratified version: [e] is empty in the input and has no clause in any stratum *)
Theorem empty_relation_elim_strat L ss e :
  (forall t, ~ L e t) -> (forall c, In c (concat ss) -> c_rel c <> e) ->
  (forall c, In c (concat ss) -> agg_scope_kept c (drop_neg e c)) ->
  ieq (strat_model L ss) (strat_model L (map (remove_empty e) ss)).
Proof.
  intros Hl Hc Hsc. apply (strat_model_congr_inv (fun I => forall t, ~ I e t)); [| |exact Hl|apply ieq_refl].
  - intros cs I Hin HI. apply lm_empty; [exact HI|]. intros c H. apply Hc. apply in_concat. eauto.
  - apply Forall2_map_same. intros cs Hin I HI. apply empty_relation_elim; [exact HI| |];
      intros c H; [apply Hc|apply Hsc]; apply in_concat; eauto.
Qed.

(** * 5. Constant binary constraints *)
Definition is_true_const (l : lit) : bool :=
  match l with
  | LS (SCmp c (TConst v1) (TConst v2)) => match eval_cmp c v1 v2 with Ok true => true | _ => false end
  | _ => false
  end.
Definition drop_true_consts (c : clause) : clause :=
  with_body c (filter (fun l => negb (is_true_const l)) (c_body c)).

Lemma is_true_const_inv l : is_true_const l = true ->
  exists c v1 v2, l = LS (SCmp c (TConst v1) (TConst v2)) /\ eval_cmp c v1 v2 = Ok true.
Proof.
  destruct l as [[r args|r args|cm a b]|x k t tg bd|x t f to st]; simpl; try discriminate.
  destruct a; try discriminate. destruct b; try discriminate.
  destruct (eval_cmp cm v v0) as [[|]| |] eqn:E; try discriminate. eauto.
Qed.

Lemma den_const_inv env0 v w : den env0 (TConst v) w -> w = v.
Proof. intro H. inversion H. reflexivity. Qed.

(** a constant constraint that evaluates to true can be removed from a body *)
Theorem fires_drop_true_consts (P N : interp) c t :
  fires P N c t <-> fires P N (drop_true_consts c) t.
Proof.
  apply fires_drop.
  - intros l env0 _ K. apply negb_false_iff, is_true_const_inv in K as (cm & v1 & v2 & -> & E).
    constructor. econstructor; [constructor|constructor|exact E].
  - intros x _ Hx. unfold clause_outer in *. simpl. rewrite in_app_iff in *.
    destruct Hx as [Hx|Hx]; [left; exact Hx|right].
    apply in_flat_map in Hx as (l & Hl & Hx). apply in_flat_map. exists l. split; [|exact Hx].
    apply filter_In. split; [exact Hl|]. destruct (is_true_const l) eqn:K; [|reflexivity].
    apply is_true_const_inv in K as (cm & v1 & v2 & -> & _). destruct Hx.
Qed.

(** one constraint, named explicitly *)
Corollary fires_drop_const (P N : interp) r args l1 l2 cm v1 v2 t :
  eval_cmp cm v1 v2 = Ok true ->
  (fires P N {| c_rel := r; c_args := args; c_body := l1 ++ LS (SCmp cm (TConst v1) (TConst v2)) :: l2 |} t <->
   fires P N (drop_true_consts {| c_rel := r; c_args := args; c_body := l1 ++ l2 |}) t).
Proof.
  intro E. rewrite fires_drop_true_consts. unfold drop_true_consts, with_body. simpl.
  rewrite !filter_app. simpl. rewrite E. simpl. tauto.
Qed.

(** a constant constraint that does not evaluate to true: the clause never fires *)
Theorem const_false_never_fires (P N : interp) c cm v1 v2 t :
  In (LS (SCmp cm (TConst v1) (TConst v2))) (c_body c) -> eval_cmp cm v1 v2 <> Ok true ->
  ~ fires P N c t.
Proof.
  intros Hin Hne (env0 & Hs & _). rewrite Forall_forall in Hs.
  specialize (Hs _ Hin). apply sat_ls_inv, sat_cmp_inv in Hs as (va & vb & Ha & Hb & Hc).
  apply den_const_inv in Ha, Hb. subst. exact (Hne Hc).
Qed.

Definition has_false_const (c : clause) : Prop :=
  exists cm v1 v2, In (LS (SCmp cm (TConst v1) (TConst v2))) (c_body c) /\ eval_cmp cm v1 v2 <> Ok true.

Theorem const_constraint_simplify lower cs cs' :
  incl cs' cs -> (forall c, In c cs -> In c cs' \/ has_false_const c) ->
  ieq (least_model lower cs) (least_model lower (map drop_true_consts cs')).
Proof.
  intros Hi Hr. eapply ieq_trans.
  - apply clauses_equiv, (never_fires_remove lower cs cs' Hi). intros c Hc.
    destruct (Hr c Hc) as [H|(cm & v1 & v2 & Hin & Hne)]; [left; exact H|right].
    intros P t. eapply const_false_never_fires; eauto.
  - apply clauses_equiv, map_same_instances. intros c _. split; [reflexivity|].
    intros P t. apply fires_drop_true_consts.
Qed.

Theorem const_constraint_simplify_strat L ss ss' :
  Forall2 (fun cs cs' => incl cs' cs /\ forall c, In c cs -> In c cs' \/ has_false_const c) ss ss' ->
  ieq (strat_model L ss) (strat_model L (map (map drop_true_consts) ss')).
Proof.
  intro HF. apply strat_model_congr. revert HF. induction 1 as [|cs cs' ss ss' [H1 H2] _ IH]; simpl; constructor; auto.
  intro I. apply const_constraint_simplify; auto.
Qed.

(** * 3. RemoveRedundantRelations: relations on which no output relation depends *)

(** general form: [keep] is closed under the positive edges of the stratum, the two lower
    databases agree on the kept relations and on what kept relations read under negation or
    aggregation; [cs'] keeps exactly the clauses whose head is kept *)
Lemma redundant_gen lower lower' cs cs' (keep : nat -> Prop) :
  (forall c, In c cs' <-> In c cs /\ keep (c_rel c)) ->
  (forall a b, keep a -> pos_edge cs a b -> keep b) ->
  (forall a b, keep a -> neg_edge cs a b -> forall t, lower b t <-> lower' b t) ->
  (forall r t, keep r -> (lower r t <-> lower' r t)) ->
  forall r t, keep r -> (least_model lower cs r t <-> least_model lower' cs' r t).
Proof.
  intros Hcs' Hpos Hneg Hlow r t Hk. split.
  - intro H. revert Hk.
    cut ((fun r t => least_model lower cs r t /\ (keep r -> least_model lower' cs' r t)) r t); [intros [_ A]; exact A|].
    revert r t H. apply least_model_least.
    + intros r t H. split; [apply least_model_lower; exact H|]. intro Hk. apply least_model_lower, Hlow; auto.
    + intros c t Hc Hf. split.
      * apply least_model_closed; [exact Hc|]. eapply fires_mono; [|exact Hf]. intros r0 t0 [A _]. exact A.
      * intro Hk. apply least_model_closed; [apply Hcs'; auto|].
        eapply fires_change; [| |exact Hf].
        -- intros l r0 t0 Hl Hr [_ A]. apply A. apply (Hpos (c_rel c)); [exact Hk|]. exists c, l. auto.
        -- intros l r0 t0 Hl Hr. apply (Hneg (c_rel c)); [exact Hk|]. exists c, l. auto.
  - intro H. revert Hk.
    cut ((fun r t => keep r -> least_model lower cs r t) r t); [auto|].
    revert r t H. apply least_model_least.
    + intros r t H Hk. apply least_model_lower, Hlow; auto.
    + intros c t Hc Hf Hk. apply Hcs' in Hc as [Hc _]. apply least_model_closed; [exact Hc|].
      eapply fires_change; [| |exact Hf].
      * intros l r0 t0 Hl Hr A. apply A. apply (Hpos (c_rel c)); [exact Hk|]. exists c, l. auto.
      * intros l r0 t0 Hl Hr. symmetry. apply (Hneg (c_rel c)); [exact Hk|]. exists c, l. auto.
Qed.

(** [r] is needed: some output relation depends on it (reflexively, transitively) *)
Definition needed (cs : list clause) (outs : list nat) (r : nat) : Prop :=
  exists o, In o outs /\ reaches cs o r.

Lemma needed_out cs outs o : In o outs -> needed cs outs o.
Proof. intro H. exists o. split; [exact H|constructor]. Qed.
Lemma needed_step cs outs a b : needed cs outs a -> dep cs a b -> needed cs outs b.
Proof.
  intros (o & Ho & Hr) Hd. exists o. split; [exact Ho|].
  eapply reaches_trans; [exact Hr|]. econstructor; [exact Hd|constructor].
Qed.

(** one stratum: inside a stratum negated / aggregated relations are read in [lower], so the
    removed clauses cannot influence the kept relations *)
Theorem redundant_relation_elim lower cs cs' outs :
  (forall c, In c cs' <-> In c cs /\ needed cs outs (c_rel c)) ->
  forall r t, needed cs outs r -> (least_model lower cs r t <-> least_model lower cs' r t).
Proof.
  intros Hcs'. apply redundant_gen; try tauto.
  intros a b Ha Hp. eapply needed_step; [exact Ha|left; exact Hp].
Qed.

Lemma dep_incl cs cs' a b : incl cs cs' -> dep cs a b -> dep cs' a b.
Proof. intros Hi [H|H]; [left|right]; eauto using pos_edge_incl, neg_edge_incl. Qed.

(** whole program: [keep] closed under all dependencies of the program *)
Lemma redundant_strat_gen (keep : nat -> Prop) : forall ss ss' L L',
  (forall a b, keep a -> dep (concat ss) a b -> keep b) ->
  Forall2 (fun cs cs' => forall c, In c cs' <-> In c cs /\ keep (c_rel c)) ss ss' ->
  (forall r t, keep r -> (L r t <-> L' r t)) ->
  forall r t, keep r -> (strat_model L ss r t <-> strat_model L' ss' r t).
Proof.
  induction ss as [|cs ss IH]; intros ss' L L' Hcl HF HL; inversion HF; subst; simpl; [exact HL|].
  apply IH.
  - intros a b Ha Hd. apply (Hcl a b Ha). eapply dep_incl; [|exact Hd]. simpl. apply incl_appr, incl_refl.
  - assumption.
  - assert (Hi : incl cs (concat (cs :: ss))) by (simpl; apply incl_appl, incl_refl).
    apply redundant_gen; auto.
    + intros a b Ha Hp. apply (Hcl a b Ha). left. eapply pos_edge_incl; eauto.
    + intros a b Ha Hn t0. apply HL. apply (Hcl a b Ha). right. eapply neg_edge_incl; eauto.
Qed.

Theorem redundant_relation_elim_strat L ss ss' outs :
  Forall2 (fun cs cs' => forall c, In c cs' <-> In c cs /\ needed (concat ss) outs (c_rel c)) ss ss' ->
  forall r t, needed (concat ss) outs r -> (strat_model L ss r t <-> strat_model L ss' r t).
Proof.
  intro HF. apply (redundant_strat_gen (needed (concat ss) outs)); [|exact HF|tauto].
  intros a b Ha Hd. eapply needed_step; eauto.
Qed.

(** in particular the output relations themselves *)
Corollary redundant_relation_elim_outputs L ss ss' outs :
  Forall2 (fun cs cs' => forall c, In c cs' <-> In c cs /\ needed (concat ss) outs (c_rel c)) ss ss' ->
  forall o t, In o outs -> (strat_model L ss o t <-> strat_model L ss' o t).
Proof. intros HF o t Ho. apply (redundant_relation_elim_strat L ss ss' outs HF). apply needed_out, Ho. Qed.

(** * 4. RemoveRelationCopies: [a(x1..xn) :- b(x1..xn)] is the only clause of [a] *)
Definition copy_clause (a b : nat) (xs : list nat) : clause :=
  {| c_rel := a; c_args := map TVar xs; c_body := [LS (SPos b (map TVar xs))] |}.

Lemma dens_vars_fun e xs : forall t t',
  Forall2 (den e) (map TVar xs) t -> Forall2 (den e) (map TVar xs) t' -> t = t'.
Proof.
  induction xs as [|x xs IH]; intros t t' H H'; simpl in *; inversion H; inversion H'; subst; [reflexivity|].
  f_equal; [|apply IH; assumption].
  match goal with A : den e (TVar x) ?v, B : den e (TVar x) ?w |- _ => inversion A; inversion B; congruence end.
Qed.

Lemma lookup_combine_none xs : forall (t : tuple) x, ~ In x xs -> lookup (combine xs t) x = None.
Proof.
  induction xs as [|y xs IH]; intros [|v t] x H; simpl; try reflexivity.
  destruct (Nat.eqb x y) eqn:E; [apply Nat.eqb_eq in E; subst; exfalso; apply H; left; reflexivity|].
  apply IH. intro Hin. apply H. right. exact Hin.
Qed.

Lemma dens_vars_combine xs : forall t : tuple,
  NoDup xs -> length t = length xs -> Forall2 (den (combine xs t)) (map TVar xs) t.
Proof.
  induction xs as [|x xs IH]; intros [|v t] Hnd Hlen; simpl in *; try discriminate; constructor.
  - constructor. apply lookup_cons_eq.
  - inversion Hnd; subst. eapply dens_mono; [|apply IH; auto].
    apply ext_cons. apply lookup_combine_none. assumption.
Qed.

Lemma fires_copy (P N : interp) a b xs t : NoDup xs ->
  (fires P N (copy_clause a b xs) t <-> P b t /\ length t = length xs).
Proof.
  intro Hnd. split.
  - intros (e & Hs & Hd). simpl in *. inversion Hs; subst.
    match goal with A : sat_lit _ _ _ _ _ |- _ => apply sat_ls_inv, sat_pos_inv in A as (t' & Ht' & Hd') end.
    rewrite (dens_vars_fun e xs t t' Hd Hd'). split; [exact Ht'|].
    apply F2_length in Hd'. rewrite map_length in Hd'. auto.
  - intros [Hb Hlen]. exists (combine xs t). simpl.
    pose proof (dens_vars_combine xs t Hnd Hlen) as Hd. split; [|exact Hd].
    constructor; [|constructor]. constructor. econstructor; eauto.
Qed.

Theorem copy_same_tuples lower cs a b xs :
  NoDup xs -> (forall t, ~ lower a t) -> In (copy_clause a b xs) cs ->
  (forall c, In c cs -> c_rel c = a -> c = copy_clause a b xs) ->
  forall t, least_model lower cs a t <-> (least_model lower cs b t /\ length t = length xs).
Proof.
  intros Hnd Hl Hin Honly t. split.
  - intro H. apply lm_inv in H as [H|(c & Hc & Hr & Hf)]; [destruct (Hl t H)|].
    rewrite (Honly c Hc Hr) in Hf. apply fires_copy in Hf; assumption.
  - intro H. change a with (c_rel (copy_clause a b xs)). apply least_model_closed; [exact Hin|].
    apply fires_copy; assumption.
Qed.

(** the substitution: positive atoms over [a] outside aggregates become atoms over [b]. (Inside
    the stratum, atoms of aggregate bodies and negated atoms are read in [lower], where [a] is
    empty and [b] need not be: they must not be substituted.) *)
Definition subst_lit (a b : nat) (l : lit) : lit :=
  match l with
  | LS (SPos r args) => if Nat.eqb r a then LS (SPos b args) else l
  | _ => l
  end.
Definition subst_rel (a b : nat) (c : clause) : clause :=
  with_body c (map (subst_lit a b) (c_body c)).
(** atoms over [a] have [n] arguments *)
Definition arity_ok (a n : nat) (c : clause) : Prop :=
  forall args, In (LS (SPos a args)) (c_body c) -> length args = n.

Lemma subst_lit_outer_vars a b l : lit_outer_vars (subst_lit a b l) = lit_outer_vars l.
Proof. destruct l as [[r args|r args|cm x y]| |]; simpl; try reflexivity. destruct (Nat.eqb r a); reflexivity. Qed.
Lemma subst_lit_agg_vars a b l : lit_agg_vars (subst_lit a b l) = lit_agg_vars l.
Proof. destruct l as [[r args|r args|cm x y]| |]; simpl; try reflexivity. destruct (Nat.eqb r a); reflexivity. Qed.
Lemma subst_rel_outer a b c : clause_outer (subst_rel a b c) = clause_outer c.
Proof.
  unfold clause_outer. simpl. f_equal. induction (c_body c) as [|l ls IH]; simpl; [reflexivity|].
  now rewrite subst_lit_outer_vars, IH.
Qed.

Lemma sat_subst_fwd (I M' : interp) N o e a b l :
  (forall t, I a t -> M' b t) -> (forall r t, r <> a -> I r t -> M' r t) ->
  sat_lit I N o e l -> sat_lit M' N o e (subst_lit a b l).
Proof.
  intros Ha Hr H.
  assert (Hgen : forall l', (forall r, In r (lit_pos l') -> r <> a) -> sat_lit I N o e l' -> sat_lit M' N o e l').
  { intros l' Hp. apply sat_lit_change; [|tauto]. intros r t Hin. apply Hr, Hp, Hin. }
  destruct l as [[r args|r args|cm x y]|x k t tg bd|x t f to st]; simpl; try (apply Hgen; [simpl; tauto|exact H]).
  destruct (Nat.eqb r a) eqn:E.
  - apply Nat.eqb_eq in E. subst. apply sat_ls_inv, sat_pos_inv in H as (t & Ht & Hd).
    constructor. econstructor; eauto.
  - apply Nat.eqb_neq in E. apply Hgen; [|exact H]. simpl. intros r0 [<-|[]]. exact E.
Qed.

Lemma sat_subst_bwd (M : interp) N o e a b n l :
  (forall t, M b t -> length t = n -> M a t) ->
  (forall args, l = LS (SPos a args) -> length args = n) ->
  sat_lit M N o e (subst_lit a b l) -> sat_lit M N o e l.
Proof.
  intros Hc Har H.
  destruct l as [[r args|r args|cm x y]|x k t tg bd|x t f to st]; simpl in H; try exact H.
  destruct (Nat.eqb r a) eqn:E; [|exact H].
  apply Nat.eqb_eq in E. subst. apply sat_ls_inv, sat_pos_inv in H as (t & Ht & Hd).
  constructor. econstructor; [|exact Hd]. apply Hc; [exact Ht|].
  apply F2_length in Hd. rewrite <- Hd. apply Har. reflexivity.
Qed.

Definition remove_copy (a b : nat) (cs : list clause) : list clause :=
  map (subst_rel a b) (filter (fun c => negb (Nat.eqb (c_rel c) a)) cs).

Theorem copy_relation_elim lower cs a b xs :
  NoDup xs -> (forall t, ~ lower a t) -> In (copy_clause a b xs) cs ->
  (forall c, In c cs -> c_rel c = a -> c = copy_clause a b xs) ->
  (forall c, In c cs -> arity_ok a (length xs) c) ->
  forall r t, r <> a -> (least_model lower cs r t <-> least_model lower (remove_copy a b cs) r t).
Proof.
  intros Hnd Hl Hin Honly Har.
  pose proof (copy_same_tuples lower cs a b xs Hnd Hl Hin Honly) as Hcopy.
  set (M := least_model lower cs) in *. set (M' := least_model lower (remove_copy a b cs)).
  assert (Hsub : isub M' M).
  { apply lm_sub_intro. intros c' t Hc' (e & Hs & Hd).
    apply in_map_iff in Hc' as (c & <- & Hc). apply filter_In in Hc as [Hc _].
    change (c_rel (subst_rel a b c)) with (c_rel c). apply least_model_closed; [exact Hc|].
    exists e. split; [|exact Hd]. rewrite subst_rel_outer in Hs. simpl in Hs.
    rewrite Forall_forall in *. intros l Hl'. apply (sat_subst_bwd M lower _ e a b (length xs)).
    - intros t0 H1 H2. apply Hcopy. auto.
    - intros args ->. apply (Har c Hc). exact Hl'.
    - apply Hs. apply in_map. exact Hl'. }
  intros r t Hr. split; [|apply Hsub].
  intro H. revert Hr.
  cut ((fun r t => (r = a -> M' b t /\ length t = length xs) /\ (r <> a -> M' r t)) r t); [intros [_ A]; exact A|].
  revert r t H. apply least_model_least.
  - intros r t H. split; [intros ->; destruct (Hl t H)|intros _; apply least_model_lower; exact H].
  - intros c t Hc Hf. destruct (Nat.eq_dec (c_rel c) a) as [E|E].
    + split; [intros _|tauto]. rewrite (Honly c Hc E) in Hf. apply fires_copy in Hf as [[Hf1 Hf2] Hlen]; [|exact Hnd].
      split; [|exact Hlen]. destruct (Nat.eq_dec b a) as [Eb|Eb]; [apply Hf1; exact Eb|apply Hf2; exact Eb].
    + split; [tauto|intros _]. change (c_rel c) with (c_rel (subst_rel a b c)).
      apply least_model_closed.
      * apply in_map. apply filter_In. split; [exact Hc|]. apply negb_true_iff, Nat.eqb_neq. exact E.
      * destruct Hf as (e & Hs & Hd). exists e. split; [|exact Hd]. rewrite subst_rel_outer. simpl.
        rewrite Forall_forall in *. intros l' Hl'. apply in_map_iff in Hl' as (l & <- & Hl').
        eapply sat_subst_fwd; [| |apply Hs; exact Hl'].
        -- intros t0 [A _]. apply A. reflexivity.
        -- intros r0 t0 Hr0 [_ A]. apply A. exact Hr0.
Qed.

(** after the rewrite the copy has no tuples left (it has no clause any more) *)
Lemma remove_copy_empty lower cs a b :
  (forall t, ~ lower a t) -> forall t, ~ least_model lower (remove_copy a b cs) a t.
Proof.
  intro Hl. apply lm_empty; [exact Hl|]. intros c Hc. apply in_map_iff in Hc as (c0 & <- & Hc).
  apply filter_In in Hc as [_ Hc]. apply negb_true_iff, Nat.eqb_neq in Hc. exact Hc.
Qed.

(** * 1.2b MinimiseProgram::removeRedundantClauses: a clause whose own head atom occurs in its body *)
Theorem tautology_clause_elim lower c cs1 cs2 :
  forallb anon_free (c_args c) = true -> In (LS (SPos (c_rel c) (c_args c))) (c_body c) ->
  ieq (least_model lower (cs1 ++ c :: cs2)) (least_model lower (cs1 ++ cs2)).
Proof.
  intros Haf Hin r t. split.
  - apply lm_sub_intro. intros c0 t0 H0 Hf. apply in_app_or in H0 as [H0|[<-|H0]];
      try (apply least_model_closed; [apply in_or_app; solve [auto]|exact Hf]).
    destruct Hf as (e & Hs & Hd). rewrite Forall_forall in Hs. specialize (Hs _ Hin).
    apply sat_ls_inv, sat_pos_inv in Hs as (t' & Ht' & Hd').
    now rewrite (dens_fun e (c_args c) t0 t' Haf Hd Hd').
  - apply lm_incl. intros c0 H0. apply in_app_or in H0. apply in_or_app. simpl. tauto.
Qed.

(** * 1.3 MinimiseProgram: injective renaming of the variables of a clause *)
Fixpoint ren_term (f : nat -> nat) (t : term) : term :=
  match t with
  | TVar x => TVar (f x)
  | TAnon => TAnon
  | TConst v => TConst v
  | TOp o args => TOp o (map (ren_term f) args)
  | TRecord args => TRecord (map (ren_term f) args)
  | TAdtC b args => TAdtC b (map (ren_term f) args)
  end.
Definition ren_slit (f : nat -> nat) (l : slit) : slit :=
  match l with
  | SPos r args => SPos r (map (ren_term f) args)
  | SNeg r args => SNeg r (map (ren_term f) args)
  | SCmp c a b => SCmp c (ren_term f a) (ren_term f b)
  end.
Definition ren_lit (f : nat -> nat) (l : lit) : lit :=
  match l with
  | LS s => LS (ren_slit f s)
  | LAgg x k t target body => LAgg (f x) k t (ren_term f target) (map (ren_slit f) body)
  | LRange x t from to step => LRange (f x) t (ren_term f from) (ren_term f to) (option_map (ren_term f) step)
  end.
Definition rename_vars (f : nat -> nat) (c : clause) : clause :=
  {| c_rel := c_rel c; c_args := map (ren_term f) (c_args c); c_body := map (ren_lit f) (c_body c) |}.

(** [e'] is [e] read through the renaming *)
Definition ren_rel (f : nat -> nat) (e e' : env) : Prop := forall x, lookup e' (f x) = lookup e x.
Definition renv (f : nat -> nat) (e : env) : env := map (fun p => (f (fst p), snd p)) e.
Definition benv (f g : nat -> nat) (e' : env) : env :=
  flat_map (fun p => if Nat.eqb (f (g (fst p))) (fst p) then [(g (fst p), snd p)] else []) e'.

Section Rename.
Context (f g : nat -> nat) (gf : forall x, g (f x) = x).

Lemma f_inj x y : f x = f y -> x = y.
Proof. intro H. rewrite <- (gf x), <- (gf y). now rewrite H. Qed.
Lemma in_map_f x l : In (f x) (map f l) <-> In x l.
Proof.
  split; [|apply in_map]. intro H. apply in_map_iff in H as (y & E & Hy). apply f_inj in E. now subst.
Qed.

Lemma renv_rel e : ren_rel f e (renv f e).
Proof.
  intro x. induction e as [|[y v] e IH]; simpl; [reflexivity|].
  destruct (Nat.eqb x y) eqn:E.
  - apply Nat.eqb_eq in E. subst. now rewrite Nat.eqb_refl.
  - apply Nat.eqb_neq in E. destruct (Nat.eqb (f x) (f y)) eqn:E'; [|exact IH].
    apply Nat.eqb_eq, f_inj in E'. contradiction.
Qed.
Lemma benv_rel e' : ren_rel f (benv f g e') e'.
Proof.
  intro x. induction e' as [|[y v] e' IH]; simpl; [reflexivity|].
  destruct (Nat.eqb (f (g y)) y) eqn:Ey; simpl.
  - apply Nat.eqb_eq in Ey. destruct (Nat.eqb (f x) y) eqn:E.
    + apply Nat.eqb_eq in E. subst y. rewrite gf, Nat.eqb_refl. reflexivity.
    + apply Nat.eqb_neq in E. destruct (Nat.eqb x (g y)) eqn:E'; [|exact IH].
      apply Nat.eqb_eq in E'. subst x. contradiction.
  - apply Nat.eqb_neq in Ey. destruct (Nat.eqb (f x) y) eqn:E; [|exact IH].
    apply Nat.eqb_eq in E. subst y. rewrite gf in Ey. contradiction.
Qed.

(** *** variables of renamed syntax *)
Lemma map_flat_map' {A} (h : A -> list nat) l : map f (flat_map h l) = flat_map (fun a => map f (h a)) l.
Proof. induction l as [|a l IH]; simpl; [reflexivity|]. now rewrite map_app, IH. Qed.
Lemma flat_map_map' {A B C} (h : B -> list C) (k : A -> B) l : flat_map h (map k l) = flat_map (fun a => h (k a)) l.
Proof. induction l as [|a l IH]; simpl; [reflexivity|]. now rewrite IH. Qed.
Lemma flat_map_ext_in' {A B} (h k : A -> list B) l : Forall (fun a => h a = k a) l -> flat_map h l = flat_map k l.
Proof. induction 1 as [|a l E _ IH]; simpl; [reflexivity|]. now rewrite E, IH. Qed.

Lemma ren_term_vars t : term_vars (ren_term f t) = map f (term_vars t).
Proof.
  induction t as [x| |v|o args IH|args IH|b args IH] using term_ind'; simpl; try reflexivity;
    rewrite flat_map_map', map_flat_map'; apply flat_map_ext_in'; exact IH.
Qed.
Lemma ren_terms_vars ts : terms_vars (map (ren_term f) ts) = map f (terms_vars ts).
Proof.
  unfold terms_vars. rewrite flat_map_map', map_flat_map'. apply flat_map_ext_in'.
  apply Forall_forall. intros t _. apply ren_term_vars.
Qed.
Lemma ren_slit_vars l : slit_vars (ren_slit f l) = map f (slit_vars l).
Proof.
  destruct l as [r args|r args|c a b]; simpl; try apply ren_terms_vars.
  now rewrite map_app, !ren_term_vars.
Qed.
Lemma ren_slits_vars ls : slits_vars (map (ren_slit f) ls) = map f (slits_vars ls).
Proof.
  unfold slits_vars. rewrite flat_map_map', map_flat_map'. apply flat_map_ext_in'.
  apply Forall_forall. intros l _. apply ren_slit_vars.
Qed.
Lemma ren_lit_outer_vars l : lit_outer_vars (ren_lit f l) = map f (lit_outer_vars l).
Proof.
  destruct l as [s|x k t tg bd|x t from to st]; simpl; [apply ren_slit_vars|reflexivity|].
  rewrite !map_app, !ren_term_vars. destruct st as [s|]; simpl; [now rewrite ren_term_vars|reflexivity].
Qed.
Lemma rename_vars_outer c : clause_outer (rename_vars f c) = map f (clause_outer c).
Proof.
  unfold clause_outer. simpl. rewrite map_app. f_equal; [apply ren_terms_vars|].
  rewrite flat_map_map', map_flat_map'. apply flat_map_ext_in'.
  apply Forall_forall. intros l _. apply ren_lit_outer_vars.
Qed.

(** *** denotation and satisfaction through the renaming *)
Lemma dens_ren_gen e e' args :
  Forall (fun p => forall v, den e p v <-> den e' (ren_term f p) v) args ->
  forall vs, Forall2 (den e) args vs <-> Forall2 (den e') (map (ren_term f) args) vs.
Proof.
  induction 1 as [|p ps Hp _ IH]; intro vs; simpl; split; intro H2; inversion H2; subst; constructor;
    try (apply Hp; assumption); try (apply IH; assumption).
Qed.
Lemma den_ren e e' : ren_rel f e e' -> forall t v, den e t v <-> den e' (ren_term f t) v.
Proof.
  intros Hr t. induction t as [x| |c|o args IH|args IH|b args IH] using term_ind'; intro v; simpl.
  - split; intro H; inversion H; subst; constructor; [rewrite Hr|rewrite <- Hr]; assumption.
  - split; intro H; inversion H; constructor.
  - split; intro H; inversion H; constructor.
  - split; intro H; inversion H; subst; (econstructor; [|eassumption]); apply (dens_ren_gen e e' args IH); assumption.
  - split; intro H; inversion H; subst; constructor; apply (dens_ren_gen e e' args IH); assumption.
  - split; intro H; inversion H; subst; constructor; apply (dens_ren_gen e e' args IH); assumption.
Qed.
Lemma dens_ren e e' : ren_rel f e e' ->
  forall args vs, Forall2 (den e) args vs <-> Forall2 (den e') (map (ren_term f) args) vs.
Proof. intros Hr args. apply dens_ren_gen. apply Forall_forall. intros p _. apply den_ren, Hr. Qed.

Lemma sat_slit_ren (P N : interp) e e' l : ren_rel f e e' ->
  (sat_slit P N e l <-> sat_slit P N e' (ren_slit f l)).
Proof.
  intro Hr. destruct l as [r args|r args|c a b]; simpl; split; intro H.
  - apply sat_pos_inv in H as (t & Ht & Hd). econstructor; [exact Ht|]. apply (dens_ren e e' Hr). exact Hd.
  - apply sat_pos_inv in H as (t & Ht & Hd). econstructor; [exact Ht|]. apply (dens_ren e e' Hr). exact Hd.
  - apply sat_neg_inv in H. constructor. intros (t & Ht & Hd). apply H. exists t. split; [exact Ht|].
    apply (dens_ren e e' Hr). exact Hd.
  - apply sat_neg_inv in H. constructor. intros (t & Ht & Hd). apply H. exists t. split; [exact Ht|].
    apply (dens_ren e e' Hr). exact Hd.
  - apply sat_cmp_inv in H as (va & vb & Ha & Hb & Hc). econstructor; [| |exact Hc]; apply (den_ren e e' Hr); assumption.
  - apply sat_cmp_inv in H as (va & vb & Ha & Hb & Hc). econstructor; [| |exact Hc]; apply (den_ren e e' Hr); assumption.
Qed.
Lemma sat_slits_ren (P N : interp) e e' ls : ren_rel f e e' ->
  (Forall (sat_slit P N e) ls <-> Forall (sat_slit P N e') (map (ren_slit f) ls)).
Proof.
  intro Hr. rewrite Forall_map. split; intro H; (eapply Forall_impl; [|exact H]); intros l Hl;
    apply (sat_slit_ren P N e e' l Hr); exact Hl.
Qed.

(** *** aggregates *)
Lemma agrees_on_ren V o e e' s s' : ren_rel f e e' -> ren_rel f s s' ->
  (agrees_on V o e s <-> agrees_on (map f V) (map f o) e' s').
Proof.
  intros He Hs. split; intro H.
  - intros y Hy Hyo. apply in_map_iff in Hy as (x & <- & Hx). apply (proj1 (in_map_f x o)) in Hyo.
    rewrite Hs, He. apply H; assumption.
  - intros x Hx Hxo. rewrite <- Hs, <- He. apply H; apply in_map; assumption.
Qed.
Lemma bound_ren V s s' : ren_rel f s s' ->
  ((forall x, In x V -> bound s x) <-> (forall y, In y (map f V) -> bound s' y)).
Proof.
  intro Hs. unfold bound. split; intro H.
  - intros y Hy. apply in_map_iff in Hy as (x & <- & Hx). rewrite Hs. auto.
  - intros x Hx. rewrite <- Hs. apply H. apply in_map. exact Hx.
Qed.
Lemma ext_on_ren V a a' s s' : ren_rel f a a' -> ren_rel f s s' ->
  (ext_on V a s <-> ext_on (map f V) a' s').
Proof.
  intros Ha Hs. split; intro H.
  - intros y v Hy. apply in_map_iff in Hy as (x & <- & Hx). rewrite Ha, Hs. apply H. exact Hx.
  - intros x v Hx. rewrite <- Ha, <- Hs. apply H. apply in_map. exact Hx.
Qed.
Lemma proj_ren V a a' : ren_rel f a a' -> proj (map f V) a' = proj V a.
Proof. intro Ha. unfold proj. rewrite map_map. apply map_ext. intro x. apply Ha. Qed.
Lemma projs_ren V es es' : Forall2 (ren_rel f) es es' -> map (proj (map f V)) es' = map (proj V) es.
Proof. induction 1 as [|a a' es es' Ha _ IH]; simpl; [reflexivity|]. now rewrite IH, (proj_ren V a a' Ha). Qed.

Lemma F2_in_l {A B} (R : A -> B -> Prop) l l' a : Forall2 R l l' -> In a l -> exists b, In b l' /\ R a b.
Proof.
  induction 1 as [|x y l l' Hxy _ IH]; intros Hin; [destruct Hin|].
  destruct Hin as [<-|Hin]; [exists y; simpl; auto|]. destruct (IH Hin) as (b & Hb & Hr). exists b. simpl. auto.
Qed.
Lemma F2_in_r {A B} (R : A -> B -> Prop) l l' b : Forall2 R l l' -> In b l' -> exists a, In a l /\ R a b.
Proof.
  induction 1 as [|x y l l' Hxy _ IH]; intros Hin; [destruct Hin|].
  destruct Hin as [<-|Hin]; [exists x; simpl; auto|]. destruct (IH Hin) as (a & Ha & Hr). exists a. simpl. auto.
Qed.

Lemma enumerates_ren (N : interp) o V e e' body es es' :
  ren_rel f e e' -> Forall2 (ren_rel f) es es' ->
  (enumerates N o V e body es <->
   enumerates N (map f o) (map f V) e' (map (ren_slit f) body) es').
Proof.
  intros He Hes. split; intros (H1 & H2 & H3); (split; [|split]).
  - intros a' Ha'. destruct (F2_in_r _ _ _ _ Hes Ha') as (a & Ha & Hr).
    destruct (H1 a Ha) as (A & B & C). split; [|split].
    + apply (agrees_on_ren V o e e' a a' He Hr). exact A.
    + apply (bound_ren V a a' Hr). exact B.
    + apply (sat_slits_ren N N a a' body Hr). exact C.
  - intros s' Hag Hsat. pose proof (benv_rel s') as Hs.
    destruct (H2 (benv f g s')) as (a & Ha & Hx).
    + apply (agrees_on_ren V o e e' _ s' He Hs). exact Hag.
    + apply (sat_slits_ren N N _ s' body Hs). exact Hsat.
    + destruct (F2_in_l _ _ _ _ Hes Ha) as (a' & Ha' & Hr). exists a'. split; [exact Ha'|].
      apply (ext_on_ren V a a' _ s' Hr Hs). exact Hx.
  - rewrite (projs_ren V es es' Hes). exact H3.
  - intros a Ha. destruct (F2_in_l _ _ _ _ Hes Ha) as (a' & Ha' & Hr).
    destruct (H1 a' Ha') as (A & B & C). split; [|split].
    + apply (agrees_on_ren V o e e' a a' He Hr). exact A.
    + apply (bound_ren V a a' Hr). exact B.
    + apply (sat_slits_ren N N a a' body Hr). exact C.
  - intros s Hag Hsat. pose proof (renv_rel s) as Hs.
    destruct (H2 (renv f s)) as (a' & Ha' & Hx).
    + apply (agrees_on_ren V o e e' s _ He Hs). exact Hag.
    + apply (sat_slits_ren N N s _ body Hs). exact Hsat.
    + destruct (F2_in_r _ _ _ _ Hes Ha') as (a & Ha & Hr). exists a. split; [exact Ha|].
      apply (ext_on_ren V a a' s _ Hr Hs). exact Hx.
  - rewrite <- (projs_ren V es es' Hes). exact H3.
Qed.

Lemma targets_ren k target es es' zs : Forall2 (ren_rel f) es es' ->
  (targets k target es zs <-> targets k (ren_term f target) es' zs).
Proof.
  intro Hes.
  assert (G : Forall2 (fun a z => den a target (VNum z)) es zs <->
              Forall2 (fun a z => den a (ren_term f target) (VNum z)) es' zs).
  { revert zs. induction Hes as [|a a' es es' Ha _ IH]; intro zs; split; intro H; inversion H; subst; constructor;
      try (apply IH; assumption); apply (den_ren a a' Ha); assumption. }
  destruct k; simpl; try exact G. rewrite (F2_length _ _ _ Hes). tauto.
Qed.

Lemma F2_map_r {A B} (R : A -> B -> Prop) (h : A -> B) l : (forall a, R a (h a)) -> Forall2 R l (map h l).
Proof. intro H. induction l; simpl; constructor; auto. Qed.
Lemma F2_map_l {A B} (R : A -> B -> Prop) (h : B -> A) l : (forall b, R (h b) b) -> Forall2 R (map h l) l.
Proof. intro H. induction l; simpl; constructor; auto. Qed.

Lemma sat_lit_ren (P N : interp) o e e' l : ren_rel f e e' ->
  (sat_lit P N o e l <-> sat_lit P N (map f o) e' (ren_lit f l)).
Proof.
  intro Hr. destruct l as [s|x k t target body|x t from to step]; simpl.
  - split; intro H; apply sat_ls_inv in H; constructor; apply (sat_slit_ren P N e e' s Hr); exact H.
  - assert (EV : term_vars (ren_term f target) ++ slits_vars (map (ren_slit f) body) =
                 map f (term_vars target ++ slits_vars body)).
    { now rewrite map_app, ren_term_vars, ren_slits_vars. }
    split; intro H; apply sat_agg_inv in H as (es & zs & z & H1 & H2 & H3 & H4).
    + assert (Hes : Forall2 (ren_rel f) es (map (renv f) es)) by (apply F2_map_r, renv_rel).
      apply (SatAgg P N _ e' (f x) k t _ _ (map (renv f) es) zs z).
      * rewrite EV. apply (enumerates_ren N o _ e e' body es _ Hr Hes). exact H1.
      * apply (targets_ren k target es _ zs Hes). exact H2.
      * exact H3.
      * rewrite Hr. exact H4.
    + assert (Hes : Forall2 (ren_rel f) (map (benv f g) es) es) by (apply F2_map_l, benv_rel).
      apply (SatAgg P N _ e x k t _ _ (map (benv f g) es) zs z).
      * rewrite EV in H1. apply (enumerates_ren N o _ e e' body _ es Hr Hes). exact H1.
      * apply (targets_ren k target _ es zs Hes). exact H2.
      * exact H3.
      * rewrite <- Hr. exact H4.
  - split; intro H; apply sat_range_inv in H as (vf & vt & vs & zs & z & H1 & H2 & H3 & H4 & H5 & H6).
    + apply (SatRange P N _ e' (f x) t _ _ _ vf vt vs zs z); auto.
      * apply (den_ren e e' Hr). exact H1.
      * apply (den_ren e e' Hr). exact H2.
      * destruct step as [s|], vs as [v|]; simpl; auto. apply (den_ren e e' Hr). exact H3.
      * rewrite Hr. exact H6.
    + apply (SatRange P N _ e x t _ _ _ vf vt vs zs z); auto.
      * apply (den_ren e e' Hr). exact H1.
      * apply (den_ren e e' Hr). exact H2.
      * destruct step as [s|], vs as [v|]; simpl in *; auto. apply (den_ren e e' Hr). exact H3.
      * rewrite <- Hr. exact H6.
Qed.

Theorem fires_rename_vars (P N : interp) c t :
  fires P N c t <-> fires P N (rename_vars f c) t.
Proof.
  split; intros (e & Hs & Hd).
  - exists (renv f e). pose proof (renv_rel e) as Hr. rewrite rename_vars_outer. simpl. split.
    + rewrite Forall_map. eapply Forall_impl; [|exact Hs]. intros l Hl.
      apply (sat_lit_ren P N _ e _ l Hr). exact Hl.
    + apply (dens_ren e _ Hr). exact Hd.
  - exists (benv f g e). pose proof (benv_rel e) as Hr. rewrite rename_vars_outer in Hs. simpl in Hs. split.
    + rewrite Forall_map in Hs. eapply Forall_impl; [|exact Hs]. intros l Hl.
      apply (sat_lit_ren P N _ _ e l Hr). exact Hl.
    + apply (dens_ren _ e Hr). exact Hd.
Qed.

(** [c2] equals [c1] up to the renaming and the order of the body literals: this is the
    equivalence MinimiseProgram::areBijectivelyEquivalent tests *)
Definition bij_equiv (c1 c2 : clause) : Prop :=
  c_rel c2 = c_rel c1 /\ c_args c2 = map (ren_term f) (c_args c1) /\
  Permutation (c_body c2) (map (ren_lit f) (c_body c1)).

Theorem fires_bij_equiv (P N : interp) c1 c2 t : bij_equiv c1 c2 -> (fires P N c1 t <-> fires P N c2 t).
Proof.
  intros (Er & Ea & Hp). rewrite (fires_rename_vars P N c1 t). symmetry.
  apply fires_body_perm; [exact Ea|exact Hp].
Qed.

Theorem minimise_clause_remove lower c1 c2 cs :
  In c1 cs -> bij_equiv c1 c2 -> ieq (least_model lower (c2 :: cs)) (least_model lower cs).
Proof.
  intros Hin Hb. apply clauses_equiv. intros P r t. split.
  - intros (c & [<-|Hc] & Hr & Hf); [|exists c; auto].
    exists c1. split; [exact Hin|]. destruct Hb as (Er & Hb'). split; [congruence|].
    eapply fires_bij_equiv; [split; eauto|exact Hf].
  - intros (c & Hc & Hr). exists c. simpl. auto.
Qed.
End Rename.

(** * 6. InlineRelations: unfolding one positive atom over [q], which is defined by one clause *)

(** satisfaction depends only on the values of the variables that occur in the literal *)
Definition lit_all_vars (l : lit) : list nat := lit_outer_vars l ++ lit_agg_vars l.

Lemma enumerates_agree (N : interp) o V a b body es :
  agree V a b -> enumerates N o V a body es -> enumerates N o V b body es.
Proof.
  intros Hag (H1 & H2 & H3).
  assert (G : forall s, agrees_on V o a s <-> agrees_on V o b s).
  { intro s. split; intros H x Hx Hxo; [rewrite <- (Hag x Hx)|rewrite (Hag x Hx)]; apply H; assumption. }
  split; [|split; [|exact H3]].
  - intros e' He'. destruct (H1 e' He') as (A & B & C). split; [apply G; exact A|auto].
  - intros s Hs Hb. apply H2; [apply G; exact Hs|exact Hb].
Qed.

Lemma sat_lit_agree (P N : interp) o a b l :
  agree (lit_all_vars l) a b -> sat_lit P N o a l -> sat_lit P N o b l.
Proof.
  unfold lit_all_vars. intros Hag H. destruct l as [s|x k t target body|x t from to step]; simpl in Hag.
  - apply sat_ls_inv in H. constructor. eapply sat_slit_agree; [|exact H].
    eapply agree_incl; [|exact Hag]. apply incl_appl, incl_refl.
  - apply sat_agg_inv in H as (es & zs & z & H1 & H2 & H3 & H4). econstructor; eauto.
    + eapply enumerates_agree; [|exact H1]. eapply agree_incl; [|exact Hag]. intros y Hy. right. exact Hy.
    + rewrite <- H4. symmetry. apply Hag. left. reflexivity.
  - apply sat_range_inv in H as (vf & vt & vs & zs & z & H1 & H2 & H3 & H4 & H5 & H6).
    assert (Hf : agree (term_vars from) a b).
    { eapply agree_incl; [|exact Hag]. intros y Hy. rewrite app_nil_r. right. apply in_or_app. auto. }
    assert (Ht : agree (term_vars to) a b).
    { eapply agree_incl; [|exact Hag]. intros y Hy. rewrite app_nil_r. right. apply in_or_app. right. apply in_or_app. auto. }
    assert (Hs : agree (oterm_vars step) a b).
    { eapply agree_incl; [|exact Hag]. intros y Hy. rewrite app_nil_r. right. apply in_or_app. right. apply in_or_app. auto. }
    eapply SatRange; eauto using den_agree.
    + destruct step as [s|], vs as [v|]; simpl in *; auto. eapply den_agree; eauto.
    + rewrite <- H6. symmetry. apply Hag. left. reflexivity.
Qed.

(** equality constraints between two lists of terms *)
Definition eqs (xs ys : list term) : list lit :=
  map (fun p => LS (SCmp CEq (fst p) (snd p))) (combine xs ys).

Lemma eqs_sat (P N : interp) o e xs : forall ys t,
  Forall2 (den e) xs t -> Forall2 (den e) ys t -> Forall (sat_lit P N o e) (eqs xs ys).
Proof.
  induction xs as [|x xs IH]; intros ys t H1 H2; inversion H1; subst; inversion H2; subst; simpl; constructor.
  - constructor. econstructor; eauto using eval_cmp_eq_refl.
  - eapply IH; eauto.
Qed.
Lemma eqs_sat_inv (P N : interp) o e xs : forall ys, length xs = length ys ->
  Forall (sat_lit P N o e) (eqs xs ys) -> exists t, Forall2 (den e) xs t /\ Forall2 (den e) ys t.
Proof.
  induction xs as [|x xs IH]; intros [|y ys] Hlen H; simpl in *; try discriminate.
  - exists []. split; constructor.
  - inversion H; subst. destruct (IH ys) as (t & A & B); [lia|assumption|].
    match goal with S : sat_lit _ _ _ _ (LS _) |- _ => apply sat_ls_inv, sat_cmp_inv in S as (va & vb & Ha & Hb & Hc) end.
    apply eval_cmp_eq_true in Hc. subst vb. exists (va :: t). split; constructor; assumption.
Qed.
Lemma eqs_vars_incl xs : forall ys y, In y (flat_map lit_outer_vars (eqs xs ys)) ->
  In y (terms_vars xs) \/ In y (terms_vars ys).
Proof.
  unfold terms_vars. induction xs as [|x xs IH]; intros [|b ys] y H; simpl in *; try tauto.
  rewrite !in_app_iff in *. destruct H as [[H|H]|H]; [tauto|tauto|]. destruct (IH ys y H); tauto.
Qed.
Lemma eqs_vars_l xs : forall ys y, length xs = length ys -> In y (terms_vars xs) ->
  In y (flat_map lit_outer_vars (eqs xs ys)).
Proof.
  unfold terms_vars. induction xs as [|x xs IH]; intros [|b ys] y Hlen H; simpl in *; try tauto; try discriminate.
  rewrite !in_app_iff in *. destruct H as [H|H]; [tauto|]. right. apply IH; [lia|exact H].
Qed.
Lemma eqs_vars_r xs : forall ys y, length xs = length ys -> In y (terms_vars ys) ->
  In y (flat_map lit_outer_vars (eqs xs ys)).
Proof.
  unfold terms_vars. induction xs as [|x xs IH]; intros [|b ys] y Hlen H; simpl in *; try tauto; try discriminate.
  rewrite !in_app_iff in *. destruct H as [H|H]; [tauto|]. right. apply IH; [lia|exact H].
Qed.

(** the clause [c] with the atom [q(args)] (between [l1] and [l2]) replaced by the body of [cq],
    renamed by [f], and the constraints [args_i = f(head_i)] *)
Definition inline_at (f : nat -> nat) (cq c : clause) (l1 : list lit) (args : list term) (l2 : list lit) : clause :=
  with_body c (l1 ++ map (ren_lit f) (c_body cq) ++ eqs args (map (ren_term f) (c_args cq)) ++ l2).
(** the renaming sends every variable outside the variables of [c] *)
Definition fresh_for (f : nat -> nat) (c : clause) : Prop :=
  forall x, ~ In (f x) (clause_outer c ++ body_agg_vars (c_body c)).

Section Inline.
Context (f g : nat -> nat) (gf : forall x, g (f x) = x).

Lemma renv_lookup_some e y v : lookup (renv f e) y = Some v -> exists x, y = f x.
Proof.
  induction e as [|[z w] e IH]; simpl; [discriminate|].
  destruct (Nat.eqb y (f z)) eqn:E; [|exact IH]. apply Nat.eqb_eq in E. eauto.
Qed.
Lemma ren_lit_agg_vars l : lit_agg_vars (ren_lit f l) = map f (lit_agg_vars l).
Proof.
  destruct l as [s|x k t tg bd|x t from to st]; simpl; try reflexivity.
  now rewrite map_app, (ren_term_vars f), (ren_slits_vars f).
Qed.
Lemma ren_body_outer ls : flat_map lit_outer_vars (map (ren_lit f) ls) = map f (flat_map lit_outer_vars ls).
Proof.
  rewrite flat_map_map', (map_flat_map' f). apply flat_map_ext_in'.
  apply Forall_forall. intros l _. apply ren_lit_outer_vars.
Qed.

Section Caller.
Context (cq c : clause) (l1 l2 : list lit) (q : nat) (args : list term).
Context (Hbody : c_body c = l1 ++ LS (SPos q args) :: l2).
Context (Hlen : length args = length (c_args cq)).
Context (Hfresh : fresh_for f c).
Let c' := inline_at f cq c l1 args l2.
Let fo := flat_map lit_outer_vars.

Lemma outer_c x : In x (clause_outer c) <->
  In x (terms_vars (c_args c)) \/ In x (fo l1) \/ In x (terms_vars args) \/ In x (fo l2).
Proof.
  unfold clause_outer, fo. rewrite Hbody, flat_map_app. simpl. rewrite !in_app_iff. tauto.
Qed.
Lemma outer_c' y : In y (clause_outer c') <->
  In y (terms_vars (c_args c)) \/ In y (fo l1) \/ In y (map f (fo (c_body cq))) \/
  In y (fo (eqs args (map (ren_term f) (c_args cq)))) \/ In y (fo l2).
Proof.
  unfold clause_outer, c', inline_at, fo. simpl. rewrite !flat_map_app, ren_body_outer, !in_app_iff. tauto.
Qed.

Lemma inl_O1 x : In x (clause_outer c) -> In x (clause_outer c').
Proof.
  rewrite outer_c, outer_c'. intros [H|[H|[H|H]]]; try tauto.
  right. right. right. left. apply eqs_vars_l; [now rewrite map_length|exact H].
Qed.
Lemma inl_O2 y : In y (clause_outer c') -> In y (clause_outer c) \/ In y (map f (clause_outer cq)).
Proof.
  rewrite outer_c, outer_c'. unfold clause_outer at 1. rewrite map_app, in_app_iff.
  intros [H|[H|[H|[H|H]]]]; try tauto.
  apply eqs_vars_incl in H as [H|H]; [tauto|]. rewrite (ren_terms_vars f) in H. tauto.
Qed.
Lemma inl_O3 x : In x (clause_outer cq) -> In (f x) (clause_outer c').
Proof.
  rewrite outer_c'. unfold clause_outer. rewrite in_app_iff. intros [H|H].
  - right. right. right. left. apply eqs_vars_r; [now rewrite map_length|].
    rewrite (ren_terms_vars f). apply in_map. exact H.
  - right. right. left. apply in_map. exact H.
Qed.

Lemma not_fresh_image x : In (f x) (clause_outer c) \/ In (f x) (body_agg_vars (c_body c)) -> False.
Proof. intro H. apply (Hfresh x). apply in_or_app. exact H. Qed.

(** outer-scope compatibility for the literals of the caller ... *)
Lemma compat_caller l : In l (c_body c) ->
  forall x, In x (lit_agg_vars l) -> (In x (clause_outer c) <-> In x (clause_outer c')).
Proof.
  intros Hl x Hx. split; [apply inl_O1|]. intro H. apply inl_O2 in H as [H|H]; [exact H|].
  apply in_map_iff in H as (x0 & <- & _). exfalso. apply (not_fresh_image x0). right.
  apply in_flat_map. eauto.
Qed.
(** ... and for the renamed literals of the inlined clause *)
Lemma compat_inlined l :
  forall y, In y (lit_agg_vars (ren_lit f l)) -> (In y (map f (clause_outer cq)) <-> In y (clause_outer c')).
Proof.
  intros y Hy. rewrite ren_lit_agg_vars in Hy. apply in_map_iff in Hy as (x & <- & _). split.
  - intro H. apply (proj1 (in_map_f f g gf x _)) in H. apply inl_O3, H.
  - intro H. apply inl_O2 in H as [H|H]; [|exact H]. exfalso. apply (not_fresh_image x). auto.
Qed.

Lemma in_l1_body l : In l l1 -> In l (c_body c).
Proof. rewrite Hbody, in_app_iff. auto. Qed.
Lemma in_l2_body l : In l l2 -> In l (c_body c).
Proof. rewrite Hbody, in_app_iff. simpl. auto. Qed.

Lemma lit_vars_in_W l : In l (c_body c) ->
  incl (lit_all_vars l) (clause_outer c ++ body_agg_vars (c_body c)).
Proof.
  intros Hl x Hx. unfold lit_all_vars in Hx. apply in_app_or in Hx as [Hx|Hx]; apply in_or_app.
  - left. apply clause_outer_incl. apply in_flat_map. eauto.
  - right. apply in_flat_map. eauto.
Qed.

(** Partial with respect to what InlineRelations.cpp does: ONE positive occurrence of [q] is
    unfolded, [q] is defined by ONE clause (a relation with several clauses is inlined by the
    pass into a disjunction, i.e. several copies of the caller), the head of the inlined clause
    is unified with the atom by *added equality constraints* (the pass performs the unification
    and substitutes), and occurrences of [q] under negation or inside aggregates are not
    treated. Within these limits the statement is complete: the body of the inlined clause is
    arbitrary (negation, aggregates, ranges), the caller is arbitrary. *)
Theorem inline_unfold_partial (P N : interp) t :
  (forall t', P q t' <-> fires P N cq t') ->
  (fires P N c t <-> fires P N c' t).
Proof.
  intro Hq. set (W := clause_outer c ++ body_agg_vars (c_body c)).
  split; intros (e & Hs & Hd).
  - rewrite Hbody in Hs. apply Forall_app in Hs as [Hs1 Hs2]. inversion Hs2 as [|? ? Hsq Hs2']; subst.
    apply sat_ls_inv, sat_pos_inv in Hsq as (t' & Ht' & Hdq).
    apply Hq in Ht' as (eq & Hsb & Hdh).
    set (e2 := restrict W e ++ renv f eq).
    assert (Hag : agree W e e2).
    { intros x Hx. unfold e2. rewrite lookup_app, lookup_restrict.
      apply memb_in in Hx as Hm. rewrite Hm. destruct (lookup e x) as [v|]; [reflexivity|].
      destruct (lookup (renv f eq) x) as [v|] eqn:E; [|reflexivity].
      apply renv_lookup_some in E as (x0 & ->). destruct (Hfresh x0 Hx). }
    assert (Hren : ren_rel f eq e2).
    { intro x. unfold e2. rewrite lookup_app, lookup_restrict.
      destruct (memb (f x) W) eqn:Hm; [apply memb_in in Hm; destruct (Hfresh x Hm)|]. exact (renv_rel f g gf eq x). }
    assert (Hcaller : forall l, In l (c_body c) -> sat_lit P N (clause_outer c) e l -> sat_lit P N (clause_outer c') e2 l).
    { intros l Hl H. apply (sat_lit_outer P N (clause_outer c)); [apply compat_caller, Hl|].
      eapply sat_lit_agree; [|exact H]. eapply agree_incl; [apply lit_vars_in_W, Hl|exact Hag]. }
    exists e2. split.
    + unfold c', inline_at. simpl. rewrite Forall_forall in Hs1, Hs2', Hsb.
      apply Forall_app. split; [|apply Forall_app; split; [|apply Forall_app; split]]; apply Forall_forall.
      * intros l Hl. apply Hcaller; [apply in_l1_body, Hl|auto].
      * intros l' Hl'. apply in_map_iff in Hl' as (l & <- & Hl).
        apply (sat_lit_outer P N (map f (clause_outer cq))); [apply compat_inlined|].
        apply (sat_lit_ren f g gf P N _ eq e2 l Hren). auto.
      * apply Forall_forall. apply (eqs_sat P N _ e2 args _ t').
        -- eapply dens_agree; [|exact Hdq]. eapply agree_incl; [|exact Hag].
           intros x Hx. apply in_or_app. left. apply outer_c. auto.
        -- apply (dens_ren f eq e2 Hren). exact Hdh.
      * intros l Hl. apply Hcaller; [apply in_l2_body, Hl|auto].
    + simpl. eapply dens_agree; [|exact Hd]. eapply agree_incl; [|exact Hag].
      intros x Hx. apply in_or_app. left. apply outer_c. auto.
  - unfold c', inline_at in Hs. simpl in Hs, Hd.
    apply Forall_app in Hs as [Hs1 Hs]. apply Forall_app in Hs as [Hsb Hs]. apply Forall_app in Hs as [Hse Hs2].
    pose proof (benv_rel f g gf e) as Hren.
    assert (Hcaller : forall l, In l (c_body c) -> sat_lit P N (clause_outer c') e l -> sat_lit P N (clause_outer c) e l).
    { intros l Hl H. apply (sat_lit_outer P N (clause_outer c')); [|exact H].
      intros x Hx. symmetry. apply (compat_caller l Hl x Hx). }
    apply eqs_sat_inv in Hse as (t' & Hda & Hdh); [|now rewrite map_length].
    exists e. split; [|exact Hd]. rewrite Hbody. rewrite Forall_forall in Hs1, Hs2, Hsb.
    apply Forall_app. split; [|constructor]; try apply Forall_forall.
    + intros l Hl. apply Hcaller; [apply in_l1_body, Hl|auto].
    + constructor. econstructor; [|exact Hda]. apply Hq. exists (benv f g e). split.
      * apply Forall_forall. intros l Hl. apply (sat_lit_ren f g gf P N _ _ e l Hren).
        apply (sat_lit_outer P N (clause_outer c')); [|apply Hsb, in_map, Hl].
        intros y Hy. symmetry. apply (compat_inlined l y Hy).
      * apply (dens_ren f _ e Hren). exact Hdh.
    + intros l Hl. apply Hcaller; [apply in_l2_body, Hl|auto].
Qed.
End Caller.
End Inline.

(** in the least model, a relation with one clause and no input tuples holds exactly the
    instances of that clause *)
Lemma lm_single_clause lower cs cq q :
  c_rel cq = q -> (forall t, ~ lower q t) -> In cq cs -> (forall c, In c cs -> c_rel c = q -> c = cq) ->
  forall t, least_model lower cs q t <-> fires (least_model lower cs) lower cq t.
Proof.
  intros Eq Hl Hin Honly t. split.
  - intro H. apply lm_inv in H as [H|(c & Hc & Hr & Hf)]; [destruct (Hl t H)|].
    now rewrite <- (Honly c Hc Hr).
  - intro H. rewrite <- Eq. apply least_model_closed; assumption.
Qed.

Theorem inline_model f g lower cq c l1 l2 args cs1 cs2 :
  (forall x, g (f x) = x) ->
  c_body c = l1 ++ LS (SPos (c_rel cq) args) :: l2 -> length args = length (c_args cq) -> fresh_for f c ->
  c_rel c <> c_rel cq -> (forall t, ~ lower (c_rel cq) t) ->
  In cq (cs1 ++ cs2) -> (forall c0, In c0 (cs1 ++ cs2) -> c_rel c0 = c_rel cq -> c0 = cq) ->
  ieq (least_model lower (cs1 ++ c :: cs2)) (least_model lower (cs1 ++ inline_at f cq c l1 args l2 :: cs2)).
Proof.
  intros gf Hbody Hlen Hfresh Hne Hl Hin Honly.
  set (c' := inline_at f cq c l1 args l2).
  assert (Hmid : forall d, c_rel d <> c_rel cq ->
            In cq (cs1 ++ d :: cs2) /\ forall c0, In c0 (cs1 ++ d :: cs2) -> c_rel c0 = c_rel cq -> c0 = cq).
  { intros d Hd. split.
    - apply in_app_or in Hin. apply in_or_app. simpl. tauto.
    - intros c0 H0 E. apply Honly; [|exact E]. apply in_app_or in H0 as [H0|[<-|H0]]; try (apply in_or_app; tauto). }
  assert (Hstep : forall d d', c_rel d = c_rel d' -> c_rel d <> c_rel cq ->
            (forall M : interp, (forall t, M (c_rel cq) t <-> fires M lower cq t) -> forall t, fires M lower d' t -> fires M lower d t) ->
            isub (least_model lower (cs1 ++ d' :: cs2)) (least_model lower (cs1 ++ d :: cs2))).
  { intros d d' Er Hd Hfd. apply lm_sub_intro. intros c0 t H0 Hf.
    destruct (Hmid d Hd) as [A B].
    apply in_app_or in H0 as [H0|[<-|H0]].
    - apply least_model_closed; [apply in_or_app; auto|exact Hf].
    - rewrite <- Er. apply least_model_closed; [apply in_or_app; simpl; auto|].
      apply Hfd; [|exact Hf]. apply lm_single_clause; auto.
    - apply least_model_closed; [apply in_or_app; simpl; auto|exact Hf]. }
  intros r t. split.
  - apply (Hstep c' c); [reflexivity|exact Hne|].
    intros M HM t0. apply (inline_unfold_partial f g gf cq c l1 l2 (c_rel cq) args Hbody Hlen Hfresh M lower t0 HM).
  - apply (Hstep c c'); [reflexivity|exact Hne|].
    intros M HM t0. apply (inline_unfold_partial f g gf cq c l1 l2 (c_rel cq) args Hbody Hlen Hfresh M lower t0 HM).
Qed.

(** * Examples: every theorem instantiated on a tiny program.
    Relations: 0 = edge (input), 1 = path, 2.. = auxiliary. *)
Definition tx_edb : db := [(0, [[VNum 1%Z; VNum 2%Z]; [VNum 2%Z; VNum 3%Z]])].
Definition tx_L : interp := holds tx_edb.
(** path(x,y) :- edge(x,y).   path(x,z) :- edge(x,y), path(y,z). *)
Definition t_pe : clause :=
  {| c_rel := 1; c_args := [TVar 0; TVar 1]; c_body := [LS (SPos 0 [TVar 0; TVar 1])] |}.
Definition t_pp : clause :=
  {| c_rel := 1; c_args := [TVar 0; TVar 2];
     c_body := [LS (SPos 0 [TVar 0; TVar 1]); LS (SPos 1 [TVar 1; TVar 2])] |}.
(** the same clause with the body literals swapped, and swapped + renamed (x -> x + 10) *)
Definition t_pp_sw : clause :=
  {| c_rel := 1; c_args := [TVar 0; TVar 2];
     c_body := [LS (SPos 1 [TVar 1; TVar 2]); LS (SPos 0 [TVar 0; TVar 1])] |}.
Definition t_pp_ren : clause :=
  {| c_rel := 1; c_args := [TVar 10; TVar 12];
     c_body := [LS (SPos 1 [TVar 11; TVar 12]); LS (SPos 0 [TVar 10; TVar 11])] |}.
Definition tx_f (x : nat) : nat := x + 10.
Definition tx_g (y : nat) : nat := y - 10.
Lemma tx_gf x : tx_g (tx_f x) = x.
Proof. unfold tx_g, tx_f. lia. Qed.

(** the models compared below are not trivial: path(1,3) is derived *)
Example ex_model_nontrivial : least_model tx_L [t_pe; t_pp] 1 [VNum 1%Z; VNum 3%Z].
Proof.
  assert (Hv : forall e x v, lookup e x = Some v -> den e (TVar x) v) by (intros; now constructor).
  assert (H23 : least_model tx_L [t_pe; t_pp] 1 [VNum 2%Z; VNum 3%Z]).
  { apply (least_model_closed tx_L [t_pe; t_pp] t_pe); [simpl; auto|].
    exists [(0, VNum 2%Z); (1, VNum 3%Z)]. split; [|constructor; [|constructor; [|constructor]]; apply Hv; reflexivity].
    constructor; [|constructor]. constructor. apply (SatPos _ _ _ 0 _ [VNum 2%Z; VNum 3%Z]).
    - apply least_model_lower. unfold tx_L, holds. simpl. auto.
    - constructor; [|constructor; [|constructor]]; apply Hv; reflexivity. }
  apply (least_model_closed tx_L [t_pe; t_pp] t_pp); [simpl; auto|].
  exists [(0, VNum 1%Z); (1, VNum 2%Z); (2, VNum 3%Z)].
  split; [|constructor; [|constructor; [|constructor]]; apply Hv; reflexivity].
  constructor; [|constructor; [|constructor]]; constructor.
  - apply (SatPos _ _ _ 0 _ [VNum 1%Z; VNum 2%Z]).
    + apply least_model_lower. unfold tx_L, holds. simpl. auto.
    + constructor; [|constructor; [|constructor]]; apply Hv; reflexivity.
  - apply (SatPos _ _ _ 1 _ [VNum 2%Z; VNum 3%Z]); [exact H23|].
    constructor; [|constructor; [|constructor]]; apply Hv; reflexivity.
Qed.
(** path(x,y) :- path(x,y), edge(x,_).  is removed by removeRedundantClauses *)
Definition t_taut : clause :=
  {| c_rel := 1; c_args := [TVar 0; TVar 1];
     c_body := [LS (SPos 1 [TVar 0; TVar 1]); LS (SPos 0 [TVar 0; TAnon])] |}.
Example ex_tautology_clause_elim :
  ieq (least_model tx_L ([t_pe] ++ t_taut :: [t_pp])) (least_model tx_L ([t_pe] ++ [t_pp])).
Proof. apply tautology_clause_elim; [reflexivity|simpl; auto]. Qed.

Example ex_dup_clause_idem :
  ieq (least_model tx_L (t_pe :: [t_pe; t_pp])) (least_model tx_L [t_pe; t_pp]).
Proof. apply dup_clause_idem. simpl. auto. Qed.
Example ex_dup_clause_remove :
  ieq (least_model tx_L ([] ++ t_pe :: [t_pp] ++ t_pe :: [])) (least_model tx_L ([] ++ t_pe :: [t_pp] ++ [])).
Proof. apply dup_clause_remove. Qed.
Example ex_body_perm_hyps : c_args t_pp = c_args t_pp_sw /\ Permutation (c_body t_pp) (c_body t_pp_sw).
Proof. split; [reflexivity|apply perm_swap]. Qed.
Example ex_clauses_equiv_hyp : forall N, same_instances N [t_pe; t_pp] [t_pe; t_pp_sw].
Proof.
  intro N. apply (replace_same_instances N t_pp t_pp_sw [t_pe] []). split; [reflexivity|].
  intros P t. apply fires_body_perm; apply ex_body_perm_hyps.
Qed.
Example ex_clauses_equiv : ieq (least_model tx_L [t_pe; t_pp]) (least_model tx_L [t_pe; t_pp_sw]).
Proof. apply clauses_equiv, ex_clauses_equiv_hyp. Qed.
Example ex_clauses_equiv_strat :
  ieq (strat_model tx_L [[t_pe; t_pp]]) (strat_model tx_L [[t_pe; t_pp_sw]]).
Proof. apply clauses_equiv_strat. constructor; [exact ex_clauses_equiv_hyp|constructor]. Qed.
Example ex_bij_equiv : bij_equiv tx_f t_pp t_pp_ren.
Proof. split; [reflexivity|]. split; [reflexivity|]. simpl. apply perm_swap. Qed.
Example ex_minimise_clause_remove :
  ieq (least_model tx_L (t_pp_ren :: [t_pe; t_pp])) (least_model tx_L [t_pe; t_pp]).
Proof. apply (minimise_clause_remove tx_f tx_g tx_gf tx_L t_pp); [simpl; auto|exact ex_bij_equiv]. Qed.

(** relation 5 is empty:  r2(x) :- r5(x), edge(x,_).   r3(x) :- edge(x,y), !r5(y). *)
Definition t_dead : clause :=
  {| c_rel := 2; c_args := [TVar 0]; c_body := [LS (SPos 5 [TVar 0]); LS (SPos 0 [TVar 0; TAnon])] |}.
Definition t_neg : clause :=
  {| c_rel := 3; c_args := [TVar 0]; c_body := [LS (SPos 0 [TVar 0; TVar 1]); LS (SNeg 5 [TVar 1])] |}.
Definition t_neg_dropped : clause :=
  {| c_rel := 3; c_args := [TVar 0]; c_body := [LS (SPos 0 [TVar 0; TVar 1])] |}.
Example ex_empty_hyps :
  (forall t, ~ tx_L 5 t) /\ (forall c, In c [t_dead; t_neg] -> c_rel c <> 5) /\
  (forall c, In c [t_dead; t_neg] -> agg_scope_kept c (drop_neg 5 c)) /\
  uses_pos 5 t_dead /\ remove_empty 5 [t_dead; t_neg] = [t_neg_dropped].
Proof.
  split; [intros t H; vm_compute in H; exact H|]. split; [intros c [<-|[<-|[]]]; discriminate|].
  split; [intros c [<-|[<-|[]]]; apply agg_scope_kept_no_agg; reflexivity|].
  split; [exists [TVar 0]; simpl; auto|reflexivity].
Qed.
Example ex_empty_relation_elim :
  ieq (least_model tx_L [t_dead; t_neg]) (least_model tx_L [t_neg_dropped]).
Proof. destruct ex_empty_hyps as (A & B & C & _ & E). rewrite <- E. apply empty_relation_elim; assumption. Qed.
Example ex_empty_relation_elim_strat :
  ieq (strat_model tx_L [[t_dead]; [t_neg]]) (strat_model tx_L [[]; [t_neg_dropped]]).
Proof.
  destruct ex_empty_hyps as (A & B & C & _ & _).
  apply (empty_relation_elim_strat tx_L [[t_dead]; [t_neg]] 5 A); simpl; intros c H; [apply B|apply C]; simpl; tauto.
Qed.

(** relation 4 is not needed by the output 1:   r4(x) :- path(x,_). *)
Definition t_junk : clause :=
  {| c_rel := 4; c_args := [TVar 0]; c_body := [LS (SPos 1 [TVar 0; TAnon])] |}.
Lemma tx_reach a b : reaches [t_pe; t_pp; t_junk] a b -> a = 1 \/ a = 0 -> b = 1 \/ b = 0.
Proof.
  induction 1 as [a|a b c Hd _ IH]; intro Ha; [exact Ha|]. apply IH.
  destruct Hd as [(c0 & l & Hc & Hr & Hl & Hb)|(c0 & l & Hc & Hr & Hl & Hb)];
    simpl in Hc; destruct Hc as [<-|[<-|[<-|[]]]]; simpl in Hr, Hl;
    repeat (destruct Hl as [<-|Hl]; [simpl in Hb; lia|]); try destruct Hl.
Qed.
Example ex_redundant_hyp : forall c,
  In c [t_pe; t_pp] <-> In c [t_pe; t_pp; t_junk] /\ needed [t_pe; t_pp; t_junk] [1] (c_rel c).
Proof.
  intro c. split.
  - intros [<-|[<-|[]]]; (split; [simpl; auto|apply needed_out; simpl; auto]).
  - intros [[<-|[<-|[<-|[]]]] (o & [<-|[]] & Hr)]; simpl; auto.
    apply tx_reach in Hr; [simpl in Hr; lia|auto].
Qed.
Example ex_redundant_relation_elim : forall t,
  least_model tx_L [t_pe; t_pp; t_junk] 1 t <-> least_model tx_L [t_pe; t_pp] 1 t.
Proof.
  intro t. apply (redundant_relation_elim tx_L _ _ [1] ex_redundant_hyp). apply needed_out. simpl. auto.
Qed.
Example ex_redundant_relation_elim_strat : forall t,
  strat_model tx_L [[t_pe; t_pp; t_junk]] 1 t <-> strat_model tx_L [[t_pe; t_pp]] 1 t.
Proof.
  intro t. apply (redundant_relation_elim_outputs tx_L [[t_pe; t_pp; t_junk]] [[t_pe; t_pp]] [1]); [|simpl; auto].
  constructor; [|constructor]. exact ex_redundant_hyp.
Qed.

(** relation 6 is a copy of path:  r6(x,y) :- path(x,y).   r7(x) :- r6(x,y). *)
Definition t_alias : clause := copy_clause 6 1 [0; 1].
Definition t_use : clause :=
  {| c_rel := 7; c_args := [TVar 0]; c_body := [LS (SPos 6 [TVar 0; TVar 1])] |}.
Definition t_use_subst : clause :=
  {| c_rel := 7; c_args := [TVar 0]; c_body := [LS (SPos 1 [TVar 0; TVar 1])] |}.
Example ex_copy_hyps :
  NoDup [0; 1] /\ (forall t, ~ tx_L 6 t) /\ In t_alias [t_alias; t_pe; t_pp; t_use] /\
  (forall c, In c [t_alias; t_pe; t_pp; t_use] -> c_rel c = 6 -> c = t_alias) /\
  (forall c, In c [t_alias; t_pe; t_pp; t_use] -> arity_ok 6 (length [0; 1]) c) /\
  remove_copy 6 1 [t_alias; t_pe; t_pp; t_use] = [t_pe; t_pp; t_use_subst].
Proof.
  split; [repeat constructor; simpl; intuition lia|]. split; [intros t H; vm_compute in H; exact H|].
  split; [simpl; auto|]. split; [intros c [<-|[<-|[<-|[<-|[]]]]] E; try discriminate; reflexivity|].
  split; [|reflexivity].
  intros c [<-|[<-|[<-|[<-|[]]]]] args H; simpl in H;
    repeat (destruct H as [H|H]; [try discriminate; inversion H; reflexivity|]); destruct H.
Qed.
Example ex_copy_relation_elim : forall r t, r <> 6 ->
  (least_model tx_L [t_alias; t_pe; t_pp; t_use] r t <-> least_model tx_L [t_pe; t_pp; t_use_subst] r t).
Proof.
  destruct ex_copy_hyps as (A & B & C & D & E & F). rewrite <- F.
  apply (copy_relation_elim tx_L _ 6 1 [0; 1]); assumption.
Qed.
Example ex_copy_same_tuples : forall t,
  least_model tx_L [t_alias; t_pe; t_pp; t_use] 6 t <->
  (least_model tx_L [t_alias; t_pe; t_pp; t_use] 1 t /\ length t = 2).
Proof. destruct ex_copy_hyps as (A & B & C & D & _). apply (copy_same_tuples tx_L _ 6 1 [0; 1]); assumption. Qed.

(** constant constraints:  r8(x) :- edge(x,y), 1 = 1.    r8(x) :- edge(x,y), 1 = 2. *)
Definition t_ctrue : clause :=
  {| c_rel := 8; c_args := [TVar 0];
     c_body := [LS (SPos 0 [TVar 0; TVar 1]); LS (SCmp CEq (TConst (VNum 1%Z)) (TConst (VNum 1%Z)))] |}.
Definition t_cfalse : clause :=
  {| c_rel := 8; c_args := [TVar 0];
     c_body := [LS (SPos 0 [TVar 0; TVar 1]); LS (SCmp CEq (TConst (VNum 1%Z)) (TConst (VNum 2%Z)))] |}.
Definition t_csimpl : clause :=
  {| c_rel := 8; c_args := [TVar 0]; c_body := [LS (SPos 0 [TVar 0; TVar 1])] |}.
Example ex_const_hyps :
  incl [t_ctrue] [t_ctrue; t_cfalse] /\
  (forall c, In c [t_ctrue; t_cfalse] -> In c [t_ctrue] \/ has_false_const c) /\
  map drop_true_consts [t_ctrue] = [t_csimpl].
Proof.
  split; [intros c [<-|[]]; simpl; auto|]. split; [|reflexivity].
  intros c [<-|[<-|[]]]; [left; simpl; auto|right].
  exists CEq, (VNum 1%Z), (VNum 2%Z). split; [simpl; auto|discriminate].
Qed.
Example ex_const_constraint_simplify :
  ieq (least_model tx_L [t_ctrue; t_cfalse]) (least_model tx_L [t_csimpl]).
Proof. destruct ex_const_hyps as (A & B & C). rewrite <- C. apply const_constraint_simplify; assumption. Qed.
Example ex_const_constraint_simplify_strat :
  ieq (strat_model tx_L [[t_ctrue; t_cfalse]]) (strat_model tx_L [[t_csimpl]]).
Proof.
  destruct ex_const_hyps as (A & B & C). change [[t_csimpl]] with (map (map drop_true_consts) [[t_ctrue]]).
  apply const_constraint_simplify_strat. constructor; [split; assumption|constructor].
Qed.

(** inlining:  r9(x,y) :- edge(x,z), edge(z,y).   r10(u) :- r9(u,u). *)
Definition t_q : clause :=
  {| c_rel := 9; c_args := [TVar 0; TVar 1];
     c_body := [LS (SPos 0 [TVar 0; TVar 2]); LS (SPos 0 [TVar 2; TVar 1])] |}.
Definition t_call : clause :=
  {| c_rel := 10; c_args := [TVar 0]; c_body := [LS (SPos 9 [TVar 0; TVar 0])] |}.
Definition t_call_inl : clause :=
  {| c_rel := 10; c_args := [TVar 0];
     c_body := [LS (SPos 0 [TVar 10; TVar 12]); LS (SPos 0 [TVar 12; TVar 11]);
                LS (SCmp CEq (TVar 0) (TVar 10)); LS (SCmp CEq (TVar 0) (TVar 11))] |}.
Example ex_inline_hyps :
  c_body t_call = [] ++ LS (SPos (c_rel t_q) [TVar 0; TVar 0]) :: [] /\
  length [TVar 0; TVar 0] = length (c_args t_q) /\ fresh_for tx_f t_call /\
  c_rel t_call <> c_rel t_q /\ (forall t, ~ tx_L (c_rel t_q) t) /\
  In t_q ([t_q] ++ []) /\ (forall c0, In c0 ([t_q] ++ []) -> c_rel c0 = c_rel t_q -> c0 = t_q) /\
  inline_at tx_f t_q t_call [] [TVar 0; TVar 0] [] = t_call_inl.
Proof.
  split; [reflexivity|]. split; [reflexivity|].
  split; [intros x H; unfold tx_f in H; simpl in H; lia|]. split; [discriminate|].
  split; [intros t H; vm_compute in H; exact H|]. split; [simpl; auto|].
  split; [intros c0 [<-|[]] _; reflexivity|reflexivity].
Qed.
Example ex_inline_model :
  ieq (least_model tx_L [t_q; t_call]) (least_model tx_L [t_q; t_call_inl]).
Proof.
  destruct ex_inline_hyps as (A & B & C & D & E & F & G & H). rewrite <- H.
  apply (inline_model tx_f tx_g tx_L t_q t_call [] [] [TVar 0; TVar 0] [t_q] [] tx_gf); assumption.
Qed.
Example ex_strat_replace_stratum :
  ieq (strat_model tx_L ([[t_pe; t_pp]] ++ [t_q; t_call] :: [])) (strat_model tx_L ([[t_pe; t_pp]] ++ [t_q; t_call_inl] :: [])).
Proof.
  apply strat_replace_stratum. destruct ex_inline_hyps as (A & B & C & D & _ & F & G & H). rewrite <- H.
  apply (inline_model tx_f tx_g _ t_q t_call [] [] [TVar 0; TVar 0] [t_q] [] tx_gf); try assumption.
  simpl. apply lm_empty; [intros t Ht; vm_compute in Ht; exact Ht|].
  intros c [<-|[<-|[]]]; discriminate.
Qed.

(** remaining hypotheses, instantiated *)
Example ex_fires_drop_const_hyp : eval_cmp CEq (VNum 1%Z) (VNum 1%Z) = Ok true.
Proof. reflexivity. Qed.
Example ex_fires_drop_const : forall (P N : interp) t,
  fires P N t_ctrue t <-> fires P N (drop_true_consts t_csimpl) t.
Proof.
  intros P N t.
  exact (fires_drop_const P N 8 [TVar 0] [LS (SPos 0 [TVar 0; TVar 1])] [] CEq _ _ t ex_fires_drop_const_hyp).
Qed.
Example ex_dead_clause_elim : ieq (least_model tx_L [t_dead; t_neg]) (least_model tx_L [t_neg]).
Proof.
  destruct ex_empty_hyps as (A & B & _ & U & _). apply (dead_clause_elim tx_L _ _ 5 A B).
  - intros c [<-|[]]; simpl; auto.
  - intros c [<-|[<-|[]]]; [right; exact U|left; simpl; auto].
Qed.
Example ex_inline_unfold_hyp : forall t',
  least_model tx_L [t_q; t_call] 9 t' <-> fires (least_model tx_L [t_q; t_call]) tx_L t_q t'.
Proof.
  apply lm_single_clause; [reflexivity|intros t H; vm_compute in H; exact H|simpl; auto|].
  intros c [<-|[<-|[]]] E; [reflexivity|discriminate].
Qed.
Example ex_inline_unfold : forall t,
  fires (least_model tx_L [t_q; t_call]) tx_L t_call t <->
  fires (least_model tx_L [t_q; t_call]) tx_L t_call_inl t.
Proof.
  intro t. destruct ex_inline_hyps as (A & B & C & _ & _ & _ & _ & H). rewrite <- H.
  exact (inline_unfold_partial tx_f tx_g tx_gf t_q t_call [] [] 9 [TVar 0; TVar 0] A B C _ tx_L t ex_inline_unfold_hyp).
Qed.

(* NOT PROVED / partial:
   - copy_relation_elim is proved for ONE stratum only (the stratum that contains the copy
     clause). The whole-program version, where later strata also mention the copy under negation
     or inside aggregates, needs a second substitution (negated and aggregated atoms) and the
     arity invariant of [b] in the lower database; not attempted. [strat_replace_stratum] lifts
     the one-stratum statements that are full equivalences ([ieq]); copy_relation_elim is an
     equivalence on the relations other than the copy only.
   - fires_rename_vars / minimise_clause_remove take the renaming together with a left inverse
     ([g (f x) = x]); mere injectivity on the variables of the clause is not enough for the
     constructive proof as written (the inverse image of a valuation is computed with [g]).
   - inline_unfold_partial / inline_model: one positive occurrence, one defining clause, head
     unification expressed by added equality constraints (see the docstring). Relations with
     several clauses, occurrences under negation / in aggregates, and the substitution-based
     unification of InlineRelations.cpp are missing.
   - neg_empty_elim needs [agg_scope_kept]: without it the statement is not expected to hold in
     this semantics, because dropping [!e(y)] can turn an outer variable [y] of an aggregate of
     the same clause into a local one (no counterexample is formalised). Souffle's groundedness
     check excludes such clauses.
   - MinimiseProgram::reduceSingletonRelations (merging two relations whose single clauses are
     equivalent), existential reduction, singleton-variable replacement, body partitioning and
     redundant-sum removal are not covered.
   - Nothing here says that the C++ passes perform exactly these rewrites; that is checked per
     program by the correspondence run of C04 (pass on / pass off, same outputs). *)
