(** Executable model of Souffle's concurrent insert-only hash map at the granularity of its
    atomic steps.

    Subject: src/include/souffle/datastructure/ConcurrentInsertOnlyHashMap.h
             ([ConcurrentInsertOnlyHashMap::get] and [tryGrow]) and
             src/include/souffle/utility/ParallelUtil.h ([MutexConcurrentLanes]: [lock],
             [unlock], [beforeLockAllBut], [beforeUnlockAllBut], [lockAllBut], [unlockAllBut]).

    One thread per lane (lane id = thread id). A thread's program is the list of keys it passes
    to [get], one after the other. Every constructor of [pc] below is a program point *in front
    of* one atomic operation of the C++ code; [step st t] executes that one operation for thread
    [t] (together with the purely thread-local code that follows it up to the next atomic
    operation) or returns [None] when the thread is finished or the operation blocks (a mutex
    that is held).

    Why the local list search may be executed in the same step as the head load / the failed CAS
    that precedes it: the search only reads the fields [key] and [next] of nodes that are
    reachable from a head value the thread has already loaded. Such nodes are published, and a
    published node is never written again except by the rehash in [tryGrow]; the rehash runs
    while the grower holds every lane, and the searching thread holds its own lane from
    [Lanes.lock(H)] to [Lanes.unlock(H)]. So between the load and the end of the search no write
    to the fields the search reads can happen, whatever the other threads do: the search returns
    the same result at any later point of the window, and it has no effect on shared memory.
    (The lane discipline this argument uses is itself a theorem about this model:
    [HashMapLemmas.rehash_exclusive].)

    Definitions only; the proofs are in HashMapLemmas.v. *)
From Coq Require Export List NArith Arith Bool.
Export ListNotations.

(** ** Memory *)

(** A [BucketList] node: the key (immutable once the node is published) and the [Next] pointer.
    Node identities are allocation numbers: node [id] is element [id] of the node store. *)
Record node := mkNode { nkey : N; nnext : option nat }.
Definition dnode : node := mkNode 0%N None.

(** Program points of [get(H, N, key)] for the key at the head of the thread's to-do list.
    [id] is the thread's own node [N]. *)
Inductive pc : Type :=
| PIdle                                      (* before  Lanes.lock(H)                       (step 2) *)
| PLocked                                    (* before  Buckets[Bucket].load                (step 4) *)
| PCas (id : nat) (b : nat) (lkh : option nat) (* before compare_exchange_strong            (step 8);
                                                 Node->Next = LastKnownHead = SearchedFrom = lkh *)
| PInc (id : nat)                            (* before  NewSize = ++Size                    (step 9) *)
| PTryBLA (id : nat)                         (* tryGrow/beforeLockAllBut: BeforeLockAll.try_lock() *)
| PYield (id : nat)                          (* beforeLockAllBut, try_lock failed: unlock(Lane) *)
| PWaitBLA (id : nat)                        (* beforeLockAllBut: BeforeLockAll.lock() *)
| PRelock (id : nat)                         (* beforeLockAllBut: lock(Lane) *)
| PRecheck (id : nat)                        (* tryGrow: if (Size <= MaxSizeBeforeGrow) *)
| PNoGrow (id : nat)                         (* tryGrow, size is fine: beforeUnlockAllBut *)
| PAcquire (id : nat) (i : nat)              (* lockAllBut: Lanes[i].Access.lock(), i <> H *)
| PRehash (id : nat)                         (* the safe section of tryGrow *)
| PRelBLA (id : nat)                         (* tryGrow after growing: beforeUnlockAllBut *)
| PRelease (id : nat) (i : nat)              (* unlockAllBut: Lanes[i].Access.unlock(), i <> H *)
| PUnlock (id : nat) (ins : bool).           (* Done: Lanes.unlock(H); return (node id, ins) *)

Record thread := mkThread { todo : list N; tpc : pc }.
Definition dthread : thread := mkThread [] PIdle.

(** What a completed [get] returned: the key it was called with, the node it returned and
    the [Inserted] flag. *)
Inductive response := RGet (key : N) (node : nat) (inserted : bool).

(** Mutexes are modelled with their owner ([None] = unlocked); the owner is ghost information,
    the code only distinguishes locked from unlocked. *)
Record state := mkState {
  buckets : list (option nat);     (* Buckets[0 .. BucketCount-1]: list heads *)
  store   : list node;             (* all nodes ever allocated, by allocation number *)
  size    : N;                     (* Size *)
  bcount  : N;                     (* BucketCount *)
  maxsz   : N;                     (* MaxSizeBeforeGrow *)
  lanes   : list (option nat);     (* Lanes[i].Access *)
  bla     : option nat;            (* BeforeLockAll *)
  threads : list thread }.

Fixpoint setn {A} (l : list A) (i : nat) (v : A) : list A :=
  match l, i with
  | [], _ => []
  | _ :: r, O => v :: r
  | x :: r, S j => x :: setn r j v
  end.

Definition set_thr (st : state) (t : nat) (th : thread) : state :=
  mkState (buckets st) (store st) (size st) (bcount st) (maxsz st) (lanes st) (bla st)
          (setn (threads st) t th).
Definition set_lane (st : state) (i : nat) (v : option nat) : state :=
  mkState (buckets st) (store st) (size st) (bcount st) (maxsz st) (setn (lanes st) i v) (bla st)
          (threads st).
Definition set_bla (st : state) (v : option nat) : state :=
  mkState (buckets st) (store st) (size st) (bcount st) (maxsz st) (lanes st) v (threads st).
Definition set_store (st : state) (s : list node) : state :=
  mkState (buckets st) s (size st) (bcount st) (maxsz st) (lanes st) (bla st) (threads st).
Definition set_buckets (st : state) (b : list (option nat)) : state :=
  mkState b (store st) (size st) (bcount st) (maxsz st) (lanes st) (bla st) (threads st).
Definition set_size (st : state) (n : N) : state :=
  mkState (buckets st) (store st) n (bcount st) (maxsz st) (lanes st) (bla st) (threads st).

Definition lane_free (st : state) (i : nat) : bool :=
  match nth i (lanes st) None with None => true | Some _ => false end.

Definition oeqb (a b : option nat) : bool :=
  match a, b with
  | None, None => true
  | Some x, Some y => Nat.eqb x y
  | _, _ => false
  end.

(** Steps 5/6: [L = LastKnownHead; while (L != SearchedFrom) { if (L->key == k) found; L = L->Next; }].
    [fuel] bounds the walk (the length of the node store is enough: lists are acyclic, see
    [HashMapLemmas.search_spec]). Running into the null pointer before [stop] would be a null
    dereference in the C++; the model answers "not found" there, and the invariant shows that it
    does not happen. *)
Fixpoint search (sto : list node) (fuel : nat) (l stop : option nat) (k : N) : option nat :=
  if oeqb l stop then None
  else match fuel, l with
       | S f, Some id =>
           let nd := nth id sto dnode in
           if N.eqb (nkey nd) k then Some id else search sto f (nnext nd) stop k
       | _, _ => None
       end.

(** [lockAllBut]/[unlockAllBut]: [for (I = 0; I < Size; ++I) if (I != Lane) ...]. *)
Definition skip (t i : nat) : nat := if Nat.eqb i t then S i else i.
Definition acq_next (nl t id i : nat) : pc :=
  let j := skip t i in if Nat.ltb j nl then PAcquire id j else PRehash id.
Definition rel_next (nl t id i : nat) : pc :=
  let j := skip t i in if Nat.ltb j nl then PRelease id j else PUnlock id true.

Section Model.
  (** The hash function and the growth policy are arguments of everything below (after the
      section is closed): [hash] is [Hasher]; when the map grows from [b] buckets with maximal
      size [m] while holding [s] elements, the new bucket count is [nb := next_buckets b s] and the
      new MaxSizeBeforeGrow is [next_max m nb]. (The C++ takes the smallest prime in its table
      that is >= ceil(s / LoadFactor) and ceil(nb * LoadFactor); that arithmetic is not modelled.) *)
  Context (hash : N -> N) (next_buckets : N -> N -> N) (next_max : N -> N -> N).

  (** Step 3: [Bucket = HashValue % BucketCount]. *)
  Definition bucket_of (bc : N) (k : N) : nat := N.to_nat (N.modulo (hash k) bc).

  (** The rehash loop of [tryGrow] for one old bucket: every element is pushed in front of its
      new bucket ([L = L->Next] is read before [Elem->Next] is overwritten). *)
  Fixpoint rehash_chain (nbc : N) (fuel : nat) (l : option nat)
           (acc : list node * list (option nat)) : list node * list (option nat) :=
    match fuel, l with
    | S f, Some id =>
        let (sto, nh) := acc in
        let nd := nth id sto dnode in
        let nb := bucket_of nbc (nkey nd) in
        rehash_chain nbc f (nnext nd)
                     (setn sto id (mkNode (nkey nd) (nth nb nh None)), setn nh nb (Some id))
    | _, _ => acc
    end.

  (** The safe section of [tryGrow] (all lanes are held): new bucket array, rehash of every old
      bucket in index order, then [Buckets], [BucketCount], [MaxSizeBeforeGrow] are replaced. *)
  Definition rehash (st : state) : state :=
    let nbc := next_buckets (bcount st) (size st) in
    let nmx := next_max (maxsz st) nbc in
    let fuel := length (store st) in
    let '(sto', nh) :=
      fold_left (fun acc h => rehash_chain nbc fuel h acc) (buckets st)
                (store st, repeat None (N.to_nat nbc)) in
    mkState nh sto' (size st) nbc nmx (lanes st) (bla st) (threads st).

  (** One atomic step of thread [t]; [None] = finished or blocked. *)
  Definition step (st : state) (t : nat) : option (state * list response) :=
    match nth_error (threads st) t with
    | None => None
    | Some th =>
      match todo th with
      | [] => None
      | k :: rest =>
        let goto s p := set_thr s t (mkThread (k :: rest) p) in
        let nl := length (lanes st) in
        match tpc th with
        | PIdle =>                                   (* 2) Lanes.lock(H) *)
            if lane_free st t then Some (goto (set_lane st t (Some t)) PLocked, []) else None
        | PLocked =>                                 (* 3,4) bucket, head load; 5-7) first search *)
            let b := bucket_of (bcount st) k in
            let h := nth b (buckets st) None in
            match search (store st) (length (store st)) h None k with
            | Some n => Some (goto st (PUnlock n false), [])
            | None =>
                let id := length (store st) in       (* node id: Node->key = k, Node->Next = h *)
                Some (goto (set_store st (store st ++ [mkNode k h])) (PCas id b h), [])
            end
        | PCas id b lkh =>                           (* 8) CAS(Buckets[b], lkh, Node) *)
            let cur := nth b (buckets st) None in
            if oeqb cur lkh then
              Some (goto (set_buckets st (setn (buckets st) b (Some id))) (PInc id), [])
            else                                     (* 10) LastKnownHead := cur; search cur..lkh *)
              match search (store st) (length (store st)) cur lkh k with
              | Some n =>                            (* 6) found: Node->Next = nullptr *)
                  Some (goto (set_store st (setn (store st) id (mkNode k None))) (PUnlock n false), [])
              | None =>                              (* 7) Node->Next = cur, retry *)
                  Some (goto (set_store st (setn (store st) id (mkNode k cur))) (PCas id b cur), [])
              end
        | PInc id =>                                 (* 9) NewSize = ++Size; NewSize > Max ? *)
            let ns := N.succ (size st) in
            Some (goto (set_size st ns)
                       (if N.ltb (maxsz st) ns then PTryBLA id else PUnlock id true), [])
        | PTryBLA id =>                              (* BeforeLockAll.try_lock() *)
            match bla st with
            | None => Some (goto (set_bla st (Some t)) (PRecheck id), [])
            | Some _ => Some (goto st (PYield id), [])
            end
        | PYield id =>                               (* unlock(Lane) *)
            Some (goto (set_lane st t None) (PWaitBLA id), [])
        | PWaitBLA id =>                             (* BeforeLockAll.lock() *)
            match bla st with
            | None => Some (goto (set_bla st (Some t)) (PRelock id), [])
            | Some _ => None
            end
        | PRelock id =>                              (* lock(Lane) *)
            if lane_free st t then Some (goto (set_lane st t (Some t)) (PRecheck id), []) else None
        | PRecheck id =>                             (* if (Size <= MaxSizeBeforeGrow) *)
            if N.leb (size st) (maxsz st) then Some (goto st (PNoGrow id), [])
            else Some (goto st (acq_next nl t id 0), [])
        | PNoGrow id =>                              (* beforeUnlockAllBut; return false *)
            Some (goto (set_bla st None) (PUnlock id true), [])
        | PAcquire id i =>                           (* Lanes[i].Access.lock() *)
            if lane_free st i then Some (goto (set_lane st i (Some t)) (acq_next nl t id (S i)), [])
            else None
        | PRehash id =>                              (* safe section *)
            Some (goto (rehash st) (PRelBLA id), [])
        | PRelBLA id =>                              (* beforeUnlockAllBut *)
            Some (goto (set_bla st None) (rel_next nl t id 0), [])
        | PRelease id i =>                           (* Lanes[i].Access.unlock() *)
            Some (goto (set_lane st i None) (rel_next nl t id (S i)), [])
        | PUnlock id ins =>                          (* Lanes.unlock(H); return *)
            Some (set_thr (set_lane st t None) t (mkThread rest PIdle), [RGet k id ins])
        end
      end
    end.

  (** Initial state: [nb0] empty buckets, MaxSizeBeforeGrow = [mx0], one thread per program. *)
  Definition init (nb0 mx0 : N) (progs : list (list N)) : state :=
    mkState (repeat None (N.to_nat nb0)) [] 0%N nb0 mx0
            (map (fun _ => None) progs) None
            (map (fun p => mkThread p PIdle) progs).

  (** Run a schedule: entries naming a finished or blocked thread are skipped. Result: final
      state, the responses in global order tagged with the thread, and the entries that stepped. *)
  Fixpoint exec (st : state) (sched : list nat) : state * list (nat * response) * list nat :=
    match sched with
    | [] => (st, [], [])
    | t :: r =>
        match step st t with
        | None => exec st r
        | Some (st', rs) =>
            let '(s, out, stp) := exec st' r in (s, map (pair t) rs ++ out, t :: stp)
        end
    end.

  Definition run (nb0 mx0 : N) (progs : list (list N)) (sched : list nat)
    : state * list (nat * response) :=
    fst (exec (init nb0 mx0 progs) sched).

  Definition run_steps (nb0 mx0 : N) (progs : list (list N)) (sched : list nat) : list nat :=
    snd (exec (init nb0 mx0 progs) sched).

  (** ** Executable monitor (used by the driver and by the bounded exhaustive theorem) *)

  (** The list of node ids of a bucket, head first; [None] if the walk does not end within [fuel]. *)
  Fixpoint walk (sto : list node) (fuel : nat) (l : option nat) : option (list nat) :=
    match l with
    | None => Some []
    | Some id =>
        match fuel with
        | O => None
        | S f => match walk sto f (nnext (nth id sto dnode)) with
                 | Some r => Some (id :: r)
                 | None => None
                 end
        end
    end.

  Definition chains_of (st : state) : list (option (list nat)) :=
    map (walk (store st) (length (store st))) (buckets st).

  Fixpoint nodupb {A} (eqb : A -> A -> bool) (l : list A) : bool :=
    match l with
    | [] => true
    | x :: r => negb (existsb (eqb x) r) && nodupb eqb r
    end.

  Definition keyof (sto : list node) (id : nat) : N := nkey (nth id sto dnode).

  Fixpoint all_some {A} (l : list (option A)) : option (list A) :=
    match l with
    | [] => Some []
    | Some x :: r => match all_some r with Some r' => Some (x :: r') | None => None end
    | None :: _ => None
    end.

  Fixpoint forallb_i {A} (f : nat -> A -> bool) (i : nat) (l : list A) : bool :=
    match l with [] => true | x :: r => f i x && forallb_i f (S i) r end.

  (** (a): every bucket list ends, no node and no key occurs twice over all buckets, every node
      sits in the bucket of its key, the bucket array has BucketCount entries. *)
  Definition mon_shape (st : state) : bool :=
    match all_some (chains_of st) with
    | None => false
    | Some chains =>
        let ids := concat chains in
        Nat.eqb (length (buckets st)) (N.to_nat (bcount st))
        && nodupb Nat.eqb ids
        && nodupb N.eqb (map (keyof (store st)) ids)
        && forallb (fun id => Nat.ltb id (length (store st))) ids
        && forallb_i (fun b c => forallb (fun id => Nat.eqb (bucket_of (bcount st) (keyof (store st) id)) b) c)
                     0 chains
    end.

  Definition rkey (r : nat * response) : N := match snd r with RGet k _ _ => k end.
  Definition rnode (r : nat * response) : nat := match snd r with RGet _ n _ => n end.
  Definition rins (r : nat * response) : bool := match snd r with RGet _ _ i => i end.

  Definition published_ids (st : state) : list nat :=
    match all_some (chains_of st) with Some chains => concat chains | None => [] end.

  Definition quiescent (st : state) : bool :=
    forallb (fun th => match todo th with [] => true | _ => false end) (threads st).

  (** (b): equal keys <-> equal nodes over all responses so far; the returned node is published and
      carries the key; at most one response per key says "inserted", and exactly one once every
      thread has finished. *)
  Definition mon_resp (st : state) (rs : list (nat * response)) : bool :=
    forallb (fun r1 => forallb (fun r2 => Bool.eqb (N.eqb (rkey r1) (rkey r2)) (Nat.eqb (rnode r1) (rnode r2))) rs) rs
    && forallb (fun r => existsb (Nat.eqb (rnode r)) (published_ids st)
                         && N.eqb (keyof (store st) (rnode r)) (rkey r)) rs
    && forallb (fun r => Nat.leb (length (filter (fun r' => N.eqb (rkey r') (rkey r) && rins r') rs)) 1) rs
    && (negb (quiescent st)
        || forallb (fun r => Nat.eqb (length (filter (fun r' => N.eqb (rkey r') (rkey r) && rins r') rs)) 1) rs).

  Definition is_inc (th : thread) : bool := match tpc th with PInc _ => true | _ => false end.

  (** (d): Size counts the published nodes whenever nobody is between its CAS and its increment. *)
  Definition mon_size (st : state) : bool :=
    existsb is_inc (threads st) || Nat.eqb (N.to_nat (size st)) (length (published_ids st)).

  Definition mon (st : state) (rs : list (nat * response)) : bool :=
    mon_shape st && mon_resp st rs && mon_size st.

  (** ** Exhaustive exploration of all interleavings (layer [n] = configurations after [n] steps) *)

  Definition config := (state * list (nat * response))%type.

  Definition succs (c : config) : list config :=
    let (st, rs) := c in
    flat_map (fun t => match step st t with
                       | Some (st', out) => [(st', rs ++ map (pair t) out)]
                       | None => []
                       end) (seq 0 (length (threads st))).

  Definition stuck (c : config) : bool :=
    negb (quiescent (fst c)) && match succs c with [] => true | _ => false end.
End Model.

(** Decidable equality of configurations (for the visited-set of the exploration). *)
Definition opt_nat_eq_dec (a b : option nat) : {a = b} + {a <> b}.
Proof. decide equality; apply Nat.eq_dec. Defined.
Definition node_eq_dec (a b : node) : {a = b} + {a <> b}.
Proof. decide equality; [apply opt_nat_eq_dec | apply N.eq_dec]. Defined.
Definition pc_eq_dec (a b : pc) : {a = b} + {a <> b}.
Proof. decide equality; try apply Nat.eq_dec; try apply opt_nat_eq_dec; apply Bool.bool_dec. Defined.
Definition thread_eq_dec (a b : thread) : {a = b} + {a <> b}.
Proof. decide equality; [apply pc_eq_dec | apply list_eq_dec, N.eq_dec]. Defined.
Definition response_eq_dec (a b : response) : {a = b} + {a <> b}.
Proof. decide equality; [apply Bool.bool_dec | apply Nat.eq_dec | apply N.eq_dec]. Defined.
Definition state_eq_dec (a b : state) : {a = b} + {a <> b}.
Proof.
  decide equality; try apply N.eq_dec; try apply opt_nat_eq_dec;
    apply list_eq_dec; first [apply thread_eq_dec | apply opt_nat_eq_dec | apply node_eq_dec].
Defined.
Definition config_eq_dec (a b : config) : {a = b} + {a <> b}.
Proof.
  decide equality; [apply list_eq_dec; decide equality; [apply response_eq_dec | apply Nat.eq_dec]
                   | apply state_eq_dec].
Defined.

Definition insert_new (c : config) (l : list config) : list config :=
  if existsb (fun c' => if config_eq_dec c c' then true else false) l then l else c :: l.
Definition dedup (l : list config) : list config := fold_right insert_new [] l.

Section Explore.
  Context (hash : N -> N) (next_buckets : N -> N -> N) (next_max : N -> N -> N).

  Definition next_layer (l : list config) : list config :=
    dedup (flat_map (succs hash next_buckets next_max) l).

  (** [explore fuel layer = true]: every configuration reachable from [layer] satisfies the
      monitor and is not stuck, and no execution from [layer] has more than [fuel] steps. *)
  Fixpoint explore (fuel : nat) (layer : list config) : bool :=
    forallb (fun c => mon hash (fst c) (snd c) && negb (stuck hash next_buckets next_max c)) layer
    && match layer with
       | [] => true
       | _ => match fuel with O => false | S f => explore f (next_layer layer) end
       end.

  (** Number of distinct configurations per layer (reporting only). *)
  Fixpoint layer_sizes (fuel : nat) (layer : list config) : list nat :=
    match layer, fuel with
    | [], _ => []
    | _, O => [length layer]
    | _, S f => length layer :: layer_sizes f (next_layer layer)
    end.
End Explore.
