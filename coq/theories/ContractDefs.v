(** Validators for two relation contracts, run on the REAL output of Souffle:
    C10 choice-domain (src/include/souffle/datastructure: GuardedInsert on the key indexes) and
    C11 subsumption (`R(a..) <= R(b..) :- body.`; ast2ram: the delete / reject relations).
    Both are built on the reference evaluator of DatalogDefs.v ([fire_clause], [solve],
    [match_terms]); the final database [d] is what Souffle printed. Definitions only: the
    specifications and proofs are in ContractLemmas.v. *)
From SV Require Export DatalogDefs DatalogSem.

(** * C10: choice-domain *)
(** a key is a list of column indices; two tuples agree on it when they are equal there *)
Definition key_agree (k : list nat) (t1 t2 : tuple) : bool :=
  forallb (fun i => value_eqb (nth i t1 VNil) (nth i t2 VNil)) k.
Definition agree_some (keys : list (list nat)) (t1 t2 : tuple) : bool :=
  existsb (fun k => key_agree k t1 t2) keys.

Inductive check_result :=
| COk
| CFunctional (t1 t2 : tuple)      (* two different tuples of the relation agree on a key *)
| CUnderivable (t : tuple)         (* a tuple of the relation that no rule derives from d *)
| CNotMaximal (t : tuple).         (* a derived tuple that is absent although nothing blocks it *)

(** first pair of different tuples that agree on some key *)
Fixpoint find_clash (keys : list (list nat)) (l : list tuple) : option (tuple * tuple) :=
  match l with
  | [] => None
  | t :: l' =>
      match find (fun t' => negb (tuple_eqb t t') && agree_some keys t t') l' with
      | Some t' => Some (t, t')
      | None => find_clash keys l'
      end
  end.

(** every tuple some clause derives from [d] *)
Definition fire_all (d : db) (cs : list clause) : res (list tuple) := flat_map_res (fire_clause d) cs.

Definition choice_ok (d : db) (r : nat) (cs : list clause) (keys : list (list nat)) : res check_result :=
  let rel := rel_of d r in
  bind (fire_all d cs) (fun fired =>
  Ok (match find_clash keys rel with
      | Some (a, b) => CFunctional a b
      | None =>
        match find (fun t => negb (mem_tuple t fired)) rel with
        | Some t => CUnderivable t
        | None =>
          match find (fun t => negb (mem_tuple t rel) && negb (existsb (agree_some keys t) rel)) fired with
          | Some t => CNotMaximal t
          | None => COk
          end
        end
      end)).

(** the model of what the engine does: candidates arrive one at a time; a candidate is inserted
    unless a tuple already present agrees with it on some key (GuardedInsert) *)
Definition guarded_insert (keys : list (list nat)) (acc : list tuple) (t : tuple) : list tuple :=
  if existsb (agree_some keys t) acc then acc else acc ++ [t].
Definition insert_all (keys : list (list nat)) (acc : list tuple) (cands : list tuple) : list tuple :=
  fold_left (guarded_insert keys) cands acc.

(** * C11: subsumption *)
(** [R(pa) <= R(pb) :- body.]: the tuple matching [pa] is deleted when a tuple matching [pb]
    exists and [body] holds *)
Record dom := { d_pa : list term; d_pb : list term; d_body : list lit }.

Definition is_nil {A} (l : list A) : bool := match l with [] => true | _ => false end.

(** is [t1] dominated by [t2] according to [dm], in database [d] *)
Definition dominated (d : db) (dm : dom) (t1 t2 : tuple) : res bool :=
  bind (match_terms [] (d_pa dm) t1) (fun o1 =>
  match o1 with
  | None => Ok false
  | Some e1 =>
      bind (match_terms e1 (d_pb dm) t2) (fun o2 =>
      match o2 with
      | None => Ok false
      | Some e2 => bind (solve d (d_body dm) [e2]) (fun es => Ok (negb (is_nil es)))
      end)
  end).

Fixpoint exists_res {A} (f : A -> res bool) (l : list A) : res bool :=
  match l with
  | [] => Ok false
  | a :: l' => bind (f a) (fun b => if b then Ok true else exists_res f l')
  end.
Fixpoint find_res {A} (f : A -> res bool) (l : list A) : res (option A) :=
  match l with
  | [] => Ok None
  | a :: l' => bind (f a) (fun b => if b then Ok (Some a) else find_res f l')
  end.

Definition dom_any (d : db) (doms : list dom) (t1 t2 : tuple) : res bool :=
  exists_res (fun dm => dominated d dm t1 t2) doms.

Inductive sresult :=
| SOk
| SDominated (t1 t2 : tuple)       (* t1 is in the relation although t2 (also there) dominates it *)
| SNotDerivable (t : tuple)        (* in the relation but not in the unsubsumed result *)
| SNotMinimal (u : tuple).         (* unsubsumed tuple neither present nor dominated by a present one *)

(** first tuple of [l] dominated by a different tuple of [rel] *)
Fixpoint find_dominated (d : db) (doms : list dom) (rel l : list tuple) : res (option (tuple * tuple)) :=
  match l with
  | [] => Ok None
  | t1 :: l' =>
      bind (find_res (fun t2 => if tuple_eqb t1 t2 then Ok false else dom_any d doms t1 t2) rel) (fun o =>
      match o with
      | Some t2 => Ok (Some (t1, t2))
      | None => find_dominated d doms rel l'
      end)
  end.

Definition subsume_ok (d : db) (r : nat) (doms : list dom) (unsub : list tuple) (minimal : bool) : res sresult :=
  let rel := rel_of d r in
  bind (find_dominated d doms rel rel) (fun o =>
  match o with
  | Some (t1, t2) => Ok (SDominated t1 t2)
  | None =>
    match find (fun t => negb (mem_tuple t unsub)) rel with
    | Some t => Ok (SNotDerivable t)
    | None =>
      if minimal then
        bind (find_res (fun u => if mem_tuple u rel then Ok false
                                 else bind (exists_res (fun t => dom_any d doms u t) rel) (fun b => Ok (negb b)))
                       unsub) (fun o' =>
        Ok (match o' with Some u => SNotMinimal u | None => SOk end))
      else Ok SOk
    end
  end).

(** the non-recursive deletion: keep the elements not dominated by an element of the original list *)
Definition survivors {A} (lt : A -> A -> bool) (l : list A) : list A :=
  filter (fun a => negb (existsb (fun b => lt a b) l)) l.

(** * Static side conditions of the theorems, evaluated by the driver on each input *)
Fixpoint tuples_nodup (l : list tuple) : bool :=
  match l with [] => true | x :: l' => negb (mem_tuple x l') && tuples_nodup l' end.
Definition db_nodup_b (d : db) : bool := forallb (fun p => tuples_nodup (snd p)) d.
Definition choice_hyps (d : db) (cs : list clause) : bool :=
  db_nodup_b d && clauses_ok cs && forallb clause_det cs.
Definition dom_outer (dm : dom) : list nat :=
  terms_vars (d_pa dm) ++ terms_vars (d_pb dm) ++ flat_map lit_outer_vars (d_body dm).
Definition dom_ok (dm : dom) : bool :=
  scoped (dom_outer dm) (terms_vars (d_pa dm) ++ terms_vars (d_pb dm)) (d_body dm) &&
  forallb lit_det (d_body dm).
Definition subsume_hyps (d : db) (doms : list dom) : bool := db_nodup_b d && forallb dom_ok doms.
