(** IEEE-754 binary32 ([RamFloat = float], src/include/souffle/RamTypes.h) operations on RamDomain bit
    patterns, as executed by src/interpreter/Engine.cpp (BINARY_OP_NUMERIC -> case FunctorOp::FADD etc.:
    [ramBitCast(static_cast<RamFloat>(EVAL_CHILD(RamFloat,0) op EVAL_CHILD(RamFloat,1)))], FNEG, F2I, F2U,
    I2F, U2F, MINMAX_NUMERIC with std::max / std::min, COMPARE_NUMERIC(RamFloat, op)) and emitted as the same
    C++ expressions by src/synthesiser/Synthesiser.cpp.
    As in Word32Defs.v a bit pattern is represented by its *signed* reading in [-2^31, 2^31).
    The arithmetic is the proof-free specification-level arithmetic of Coq's [Floats.SpecFloat]
    ([SFadd], [SFmul], ... on [spec_float], the reference semantics of Coq's primitive floats) instantiated
    at precision 24, emax 128, i.e. round to nearest even (the C++ default rounding mode; Souffle never changes
    it); decoding of the 32 bits is Flocq's (4.1.0) [binary_float_of_bits_aux]. These definitions carry no
    proof terms, so they compute, extract, and are closed under the global context; Float32Lemmas.v proves
    that they coincide with Flocq's verified [BinarySingleNaN] operations (hence with rounding of the exact
    real result).
    C++ does not specify the sign and payload of a NaN *produced* by an arithmetic operation, therefore every
    NaN result of fadd/fsub/fmul/fdiv/fneg/i2f/u2f is the one canonical quiet NaN [QNAN] = 0x7fc00000 (the
    correspondence harness canonicalises the NaNs printed by the real code the same way, sign included).
    [fmax]/[fmin] return one of their arguments unchanged (std::max / std::min return a reference to an
    argument), so there the bits are exact.
    [f2i]/[f2u] return [None] exactly where the C++ conversion is undefined ([conv.fpint]: the truncated value
    cannot be represented in the destination type; NaN and infinities).
    Definitions only. *)
From Coq Require Import ZArith Bool Floats.SpecFloat.
From Flocq Require Import IEEE754.BinarySingleNaN IEEE754.Binary IEEE754.Bits.
From SV Require Word32Defs.
Local Open Scope Z_scope.

(** canonical quiet NaN 0x7fc00000 *)
Definition QNAN : Z := 2143289344.

(** ramBitCast<RamFloat>(RamDomain): decode the 32 bits (sign 1, exponent 8, mantissa 23); all NaNs
    become the single [S754_nan] *)
Definition sdec (a : Z) : spec_float := FF2SF (binary_float_of_bits_aux 23 8 (Word32Defs.u a)).

(** ramBitCast<RamDomain>(RamFloat): encode (mirrors Flocq's [bits_of_binary_float 23 8]); NaN -> [QNAN] *)
Definition senc_u (x : spec_float) : Z :=
  match x with
  | S754_zero s => join_bits 23 8 s 0 0
  | S754_infinity s => join_bits 23 8 s 0 255
  | S754_nan => QNAN
  | S754_finite s mx ex =>
      let m := Zpos mx - 2 ^ 23 in
      if 0 <=? m then join_bits 23 8 s m (ex + 150) else join_bits 23 8 s (Zpos mx) 0
  end.
Definition fenc (x : spec_float) : Z := Word32Defs.wrap (senc_u x).

(** arithmetic: FADD FSUB FMUL FDIV (division by zero is defined for floats: inf or NaN) *)
Definition fadd (a b : Z) : Z := fenc (SFadd 24 128 (sdec a) (sdec b)).
Definition fsub (a b : Z) : Z := fenc (SFsub 24 128 (sdec a) (sdec b)).
Definition fmul (a b : Z) : Z := fenc (SFmul 24 128 (sdec a) (sdec b)).
Definition fdiv (a b : Z) : Z := fenc (SFdiv 24 128 (sdec a) (sdec b)).
(** FNEG: ramBitCast(-ramBitCast<RamFloat>(x)) *)
Definition fneg (a : Z) : Z := fenc (SFopp (sdec a)).

(** comparisons FLT FLE FEQ (IEEE: every comparison with a NaN is false; -0 = +0) *)
Definition flt (a b : Z) : bool := SFltb (sdec a) (sdec b).
Definition fle (a b : Z) : bool := SFleb (sdec a) (sdec b).
Definition feq (a b : Z) : bool := SFeqb (sdec a) (sdec b).

(** FMAX / FMIN: std::max(a,b) = (a < b) ? b : a ; std::min(a,b) = (b < a) ? b : a *)
Definition fmax (a b : Z) : Z := if flt a b then b else a.
Definition fmin (a b : Z) : Z := if flt b a then b else a.

(** I2F, U2F: static_cast<RamFloat>(RamSigned / RamUnsigned): the integer z * 2^0 rounded to nearest even *)
Definition sf_of_Z (z : Z) : spec_float := SpecFloat.binary_normalize 24 128 z 0 false.
Definition i2f (a : Z) : Z := fenc (sf_of_Z a).
Definition u2f (a : Z) : Z := fenc (sf_of_Z (Word32Defs.u a)).

(** truncation toward zero of a finite float; [None] for NaN and infinities *)
Definition sf_trunc (x : spec_float) : option Z :=
  match x with
  | S754_zero _ => Some 0
  | S754_finite s m e => Some (cond_Zopp s (SFnearbyint_binary_aux 24 mode_ZR s m e))
  | S754_infinity _ => None
  | S754_nan => None
  end.
(** F2I, F2U: static_cast<RamSigned / RamUnsigned>(RamFloat) *)
Definition f2i (a : Z) : option Z :=
  match sf_trunc (sdec a) with
  | Some t => Word32Defs.chk t
  | None => None
  end.
Definition f2u (a : Z) : option Z :=
  match sf_trunc (sdec a) with
  | Some t => if (0 <=? t) && (t <? 2 ^ 32) then Some (Word32Defs.wrap t) else None
  | None => None
  end.

(** classification of a bit pattern *)
Definition f_is_nan (a : Z) : bool := is_nan_SF (sdec a).
Definition f_is_finite (a : Z) : bool := is_finite_SF (sdec a).
