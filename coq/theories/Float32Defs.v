(** IEEE-754 binary32 ([RamFloat = float], src/include/souffle/RamTypes.h) operations on RamDomain bit
    patterns, as executed by src/interpreter/Engine.cpp (BINARY_OP_NUMERIC -> case FunctorOp::FADD etc.:
    [ramBitCast(static_cast<RamFloat>(EVAL_CHILD(RamFloat,0) op EVAL_CHILD(RamFloat,1)))], FNEG, F2I, F2U,
    I2F, U2F, MINMAX_NUMERIC with std::max / std::min, COMPARE_NUMERIC(RamFloat, op)) and emitted as the same
    C++ expressions by src/synthesiser/Synthesiser.cpp.
    As in Word32Defs.v a bit pattern is represented by its *signed* reading in [-2^31, 2^31).
    The arithmetic is Flocq's (version 4.1.0) [BinarySingleNaN] at precision 24, emax 128, rounding to nearest
    even (the C++ default rounding mode; the programs never change it). C++ does not specify the sign and
    payload of a NaN *produced* by an arithmetic operation, therefore every NaN result of
    fadd/fsub/fmul/fdiv/fneg/i2f/u2f is the one canonical quiet NaN [QNAN] = 0x7fc00000 (the correspondence
    harness canonicalises the NaNs printed by the real code the same way). [fmax]/[fmin] return one of their
    arguments unchanged (std::max / std::min return a reference to an argument), so there the bits are exact.
    [f2i]/[f2u] return [None] exactly where the C++ conversion is undefined ([conv.fpint]: the truncated value
    cannot be represented in the destination type; NaN and infinities).
    Definitions only; everything computes with [vm_compute] and extracts (binary arithmetic only). *)
From Coq Require Import ZArith Bool.
From Flocq Require Import Core IEEE754.BinarySingleNaN IEEE754.Binary IEEE754.Bits.
From SV Require Word32Defs.
Local Open Scope Z_scope.

Definition prec32_gt_0 : Prec_gt_0 24 := eq_refl.
Definition prec32_lt_emax : Prec_lt_emax 24 128 := eq_refl.

(** floats with a single NaN *)
Definition f32 : Set := BinarySingleNaN.binary_float 24 128.

(** canonical quiet NaN 0x7fc00000 (= [default_nan_pl32] of Flocq's Bits.v) *)
Definition QNAN : Z := 2143289344.

(** ramBitCast<RamFloat>(RamDomain): decode the 32 bits (sign 1, exponent 8, mantissa 23) *)
Definition fdec (a : Z) : f32 := B2BSN 24 128 (b32_of_bits (Word32Defs.u a)).
(** ramBitCast<RamDomain>(RamFloat): encode; a NaN becomes [QNAN] *)
Definition fenc_u (x : f32) : Z := bits_of_b32 (BSN2B 24 128 default_nan_pl32 x).
Definition fenc (x : f32) : Z := Word32Defs.wrap (fenc_u x).

Definition f_plus : f32 -> f32 -> f32 := @BinarySingleNaN.Bplus 24 128 prec32_gt_0 prec32_lt_emax mode_NE.
Definition f_minus : f32 -> f32 -> f32 := @BinarySingleNaN.Bminus 24 128 prec32_gt_0 prec32_lt_emax mode_NE.
Definition f_mult : f32 -> f32 -> f32 := @BinarySingleNaN.Bmult 24 128 prec32_gt_0 prec32_lt_emax mode_NE.
Definition f_div : f32 -> f32 -> f32 := @BinarySingleNaN.Bdiv 24 128 prec32_gt_0 prec32_lt_emax mode_NE.
Definition f_opp : f32 -> f32 := @BinarySingleNaN.Bopp 24 128.
(** static_cast<float>(integer): round to nearest even *)
Definition f_of_Z (z : Z) : f32 :=
  BinarySingleNaN.binary_normalize 24 128 prec32_gt_0 prec32_lt_emax mode_NE z 0 false.

(** arithmetic: FADD FSUB FMUL FDIV (division by zero is defined for floats: inf or NaN) *)
Definition fadd (a b : Z) : Z := fenc (f_plus (fdec a) (fdec b)).
Definition fsub (a b : Z) : Z := fenc (f_minus (fdec a) (fdec b)).
Definition fmul (a b : Z) : Z := fenc (f_mult (fdec a) (fdec b)).
Definition fdiv (a b : Z) : Z := fenc (f_div (fdec a) (fdec b)).
(** FNEG: ramBitCast(-ramBitCast<RamFloat>(x)) *)
Definition fneg (a : Z) : Z := fenc (f_opp (fdec a)).

(** comparisons FLT FLE FEQ (IEEE: every comparison with a NaN is false; -0 = +0) *)
Definition flt (a b : Z) : bool := BinarySingleNaN.Bltb (fdec a) (fdec b).
Definition fle (a b : Z) : bool := BinarySingleNaN.Bleb (fdec a) (fdec b).
Definition feq (a b : Z) : bool := BinarySingleNaN.Beqb (fdec a) (fdec b).

(** FMAX / FMIN: std::max(a,b) = (a < b) ? b : a ; std::min(a,b) = (b < a) ? b : a *)
Definition fmax (a b : Z) : Z := if flt a b then b else a.
Definition fmin (a b : Z) : Z := if flt b a then b else a.

(** I2F, U2F: static_cast<RamFloat>(RamSigned / RamUnsigned) *)
Definition i2f (a : Z) : Z := fenc (f_of_Z a).
Definition u2f (a : Z) : Z := fenc (f_of_Z (Word32Defs.u a)).

(** truncation toward zero of a finite float; [None] for NaN and infinities *)
Definition f_trunc (x : f32) : option Z :=
  match x with
  | BinarySingleNaN.B754_nan => None
  | BinarySingleNaN.B754_infinity _ => None
  | _ => Some (BinarySingleNaN.Btrunc x)
  end.
(** F2I, F2U: static_cast<RamSigned / RamUnsigned>(RamFloat) *)
Definition f2i (a : Z) : option Z :=
  match f_trunc (fdec a) with
  | Some t => Word32Defs.chk t
  | None => None
  end.
Definition f2u (a : Z) : option Z :=
  match f_trunc (fdec a) with
  | Some t => if (0 <=? t) && (t <? 2 ^ 32) then Some (Word32Defs.wrap t) else None
  | None => None
  end.

(** specification-side helper: the real value denoted by a bit pattern (0 for NaN/inf) and classification *)
Definition f_is_nan (a : Z) : bool := BinarySingleNaN.is_nan (fdec a).
Definition f_is_finite (a : Z) : bool := BinarySingleNaN.is_finite (fdec a).
